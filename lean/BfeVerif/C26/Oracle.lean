import BfeVerif.C26.Proofs
import BfeVerif.C25.Roundtrip
/-! Lemmas for the case-insensitive form of C26 (the oracle itself).  Core Lean only. -/
namespace BfeVerif.C26
open BfeVerif.C25

/-- a statement about every byte follows from its 256 instances -/
theorem byte_forall (P : UInt8 → Prop) (h : ∀ n, n < 256 → P (UInt8.ofNat n)) : ∀ b, P b := by
  intro b
  have := h b.toNat b.toNat_lt
  rwa [UInt8.ofNat_toNat] at this

set_option maxRecDepth 100000 in
theorem upper_lower : ∀ x : UInt8, upper (lower x) = upper x := by
  apply byte_forall; decide
set_option maxRecDepth 100000 in
theorem dash_lower : ∀ x : UInt8, (lower x == 45) = (x == 45) := by
  apply byte_forall; decide
set_option maxRecDepth 100000 in
theorem tchar_lower : ∀ x : UInt8, isTchar (lower x) = isTchar x := by
  apply byte_forall; decide
set_option maxRecDepth 100000 in
theorem lower_lower : ∀ x : UInt8, lower (lower x) = lower x := by
  apply byte_forall; decide
set_option maxRecDepth 100000 in
theorem tchar_not_space : ∀ x : UInt8, isTchar x = true → isSpace x = false := by
  apply byte_forall; decide
set_option maxRecDepth 100000 in
theorem ows_space : ∀ x : UInt8, isOWS x = true → isSpace x = true := by
  apply byte_forall; decide

/-! ## canonical form is a function of the lower-cased name -/
theorem canonGo_lower (up : Bool) (a b : Bytes) (h : a.map lower = b.map lower) :
    canonGo up a = canonGo up b := by
  induction a generalizing b up with
  | nil =>
    cases b with
    | nil => rfl
    | cons _ _ => simp at h
  | cons x a ih =>
    cases b with
    | nil => simp at h
    | cons y b =>
      simp only [List.map_cons, List.cons.injEq] at h
      obtain ⟨hxy, hab⟩ := h
      have hu : upper x = upper y := by rw [← upper_lower x, ← upper_lower y, hxy]
      have hd : (x == 45) = (y == 45) := by rw [← dash_lower x, ← dash_lower y, hxy]
      simp only [canonGo, hu, hxy, hd, ih _ b hab]

theorem all_tchar_of_lower {a b : Bytes} (h : a.map lower = b.map lower) (ha : a.all isTchar = true) :
    b.all isTchar = true := by
  induction a generalizing b with
  | nil =>
    cases b with
    | nil => rfl
    | cons _ _ => simp at h
  | cons x a ih =>
    cases b with
    | nil => simp at h
    | cons y b =>
      simp only [List.map_cons, List.cons.injEq] at h
      simp only [List.all_cons, Bool.and_eq_true] at ha ⊢
      refine ⟨?_, ih h.2 ha.2⟩
      rw [← tchar_lower y, ← h.1, tchar_lower x]; exact ha.1

/-- two canonical token names that agree ignoring case are equal -/
theorem canon_inj (a b : Bytes) (ha : a.all isTchar = true) (hca : canon a = a) (hcb : canon b = b)
    (h : a.map lower = b.map lower) : a = b := by
  have hb := all_tchar_of_lower h ha
  unfold canon at hca hcb
  simp only [ha, hb, if_true] at hca hcb
  rw [← hca, ← hcb]
  exact canonGo_lower true a b h

/-- a canonical token name equals the canonical form of anything that agrees with it ignoring case -/
theorem canon_of_lower (a c : Bytes) (ha : a.all isTchar = true) (hca : canon a = a)
    (h : a.map lower = c.map lower) : a = canon c := by
  have hc := all_tchar_of_lower h ha
  have h1 : canon a = canonGo true a := by unfold canon; simp [ha]
  have h2 : canon c = canonGo true c := by unfold canon; simp [hc]
  rw [← hca, h1, h2]
  exact canonGo_lower true a c h

/-! ## trimming: a token left by OWS-trimming is also what TrimSpace leaves -/
theorem dropWhile_weaker_inner {p q : UInt8 → Bool} (hqp : ∀ b, q b = true → p b = true) (l : Bytes) :
    (l.dropWhile q).dropWhile p = l.dropWhile p := by
  induction l with
  | nil => rfl
  | cons a l ih =>
    cases hq : q a with
    | true =>
      have hp := hqp a hq
      simp only [List.dropWhile_cons, hq, hp, if_true]; exact ih
    | false => simp [List.dropWhile_cons, hq]

theorem mem_takeWhile_true {p : UInt8 → Bool} {l : Bytes} {b : UInt8} (h : b ∈ l.takeWhile p) : p b = true := by
  induction l with
  | nil => cases h
  | cons a l ih =>
    cases hp : p a with
    | false => simp [List.takeWhile_cons, hp] at h
    | true =>
      simp only [List.takeWhile_cons, hp, if_true] at h
      rcases List.mem_cons.mp h with e | e
      · rw [e]; exact hp
      · exact ih e

theorem trimSpace_eq_trimOWS (x : Bytes) (hne : trimOWS x ≠ [])
    (hcore : ∀ b ∈ trimOWS x, isSpace b = false) : trimSpace x = trimOWS x := by
  -- d = x.dropWhile isOWS ; e = d.reverse.dropWhile isOWS ; core = e.reverse
  have hcoredef : trimOWS x = ((x.dropWhile isOWS).reverse.dropWhile isOWS).reverse := rfl
  generalize hd : x.dropWhile isOWS = d at hcoredef
  generalize hcd : trimOWS x = core at *
  -- d.reverse = tailr ++ core.reverse, tailr all OWS
  have hsplit : d.reverse = (d.reverse.takeWhile isOWS) ++ core.reverse := by
    rw [hcoredef, List.reverse_reverse]; exact (List.takeWhile_append_dropWhile).symm
  have htail : ∀ b ∈ d.reverse.takeWhile isOWS, isSpace b = true :=
    fun b hb => ows_space b (mem_takeWhile_true hb)
  have hcr : core.reverse.dropWhile isSpace = core.reverse := by
    apply BfeVerif.C25.dropWhile_none
    intro b hb; exact hcore b (List.mem_reverse.mp hb)
  have hcs : core.dropWhile isSpace = core := BfeVerif.C25.dropWhile_none hcore
  have hdd : d = core ++ (d.reverse.takeWhile isOWS).reverse := by
    have := congrArg List.reverse hsplit
    simpa using this
  have hds : d.dropWhile isSpace = d := by
    cases core with
    | nil => exact absurd rfl hne
    | cons c cs =>
      have hc : isSpace c = false := hcore c (List.mem_cons_self ..)
      rw [hdd]; simp [List.dropWhile_cons, hc]
  unfold trimSpace
  have h1 : x.dropWhile isSpace = d := by
    rw [← dropWhile_weaker_inner ows_space x, hd, hds]
  rw [h1, hsplit, List.dropWhile_append_of_pos htail, hcr, List.reverse_reverse]

/-! ## the core removal statement (used by the theorems of Props) -/
theorem hop_core (h : Hdr) (hd : (h.map (·.1)).Nodup) :
    ∀ f ∈ forwarded h, f.1 ∈ hopList BfeVerif.Generated.C26.hopHeaders h →
      f.1 = kTe ∧ lookup h kTe = [sTrailers] := by
  intro f hf hk
  obtain ⟨vs, hm, hne, _⟩ := mem_outFields hf
  have hmh : (f.1, vs) ∈ h := foldl_hopStep_subset _ hm
  have hl : lookup h f.1 = vs := lookup_of_mem h f.1 vs hd hmh
  apply Classical.byContradiction
  intro hnot
  have hdel : Deletes h f.1 := ⟨by rw [hl]; exact hne, fun hc => hnot ⟨hc.1, by rw [← hc.1]; exact hc.2⟩⟩
  exact foldl_hopStep_removes _ h f.1 hk hdel (f.1, vs) hm rfl

/-! ## the oracle on canonical maps -/
structure Canon (h : Hdr) : Prop where
  nodup : (h.map (·.1)).Nodup
  tok : ∀ kv ∈ h, kv.1.all isTchar = true
  can : ∀ kv ∈ h, canon kv.1 = kv.1

theorem canon_of (h : Hdr) (hd : (h.map (·.1)).Nodup) (hk : keysCanon h = true) : Canon h := by
  refine ⟨hd, ?_, ?_⟩ <;> intro kv hkv <;> have := List.all_eq_true.mp hk kv hkv <;>
    simp only [Bool.and_eq_true, isToken, beq_iff_eq] at this
  · exact this.1.2
  · exact this.2

/-- a forwarded field: its key is a key of `h`, with value list `lookup h key`, and its value is one of them, sanitised -/
theorem fwd_entry (h : Hdr) (C : Canon h) {f : Bytes × Bytes} (hf : f ∈ forwarded h) :
    (f.1, lookup h f.1) ∈ h ∧ (∃ v ∈ lookup h f.1, f.2 = sanitize v) ∧ excluded26 f.1 = false := by
  obtain ⟨vs, v, hm, hv, hfv, hex⟩ := mem_outFields' hf
  have hmh : (f.1, vs) ∈ h := foldl_hopStep_subset _ hm
  have hl := lookup_of_mem h f.1 vs C.nodup hmh
  rw [hl]
  exact ⟨hmh, ⟨v, hv, hfv⟩, hex⟩

/-- a forwarded name that equals a canonical token `K` ignoring case IS `K` -/
theorem fwd_name_eq (h : Hdr) (C : Canon h) {f : Bytes × Bytes} (hf : f ∈ forwarded h) (K : Bytes)
    (hKc : canon K = K) (hl : f.1.map lower = K.map lower) : f.1 = K := by
  have he := (fwd_entry h C hf).1
  exact canon_inj f.1 K (C.tok _ he) (C.can _ he) hKc hl

theorem clause_listed (h : Hdr) (C : Canon h) :
    ∀ f ∈ forwarded h, listedLower.contains (f.1.map lower) = false := by
  intro f hf
  cases hc : listedLower.contains (f.1.map lower) with
  | false => rfl
  | true =>
    exfalso
    have hmem : f.1.map lower ∈ listedLower := List.contains_iff_mem.mp hc
    have hex := (fwd_entry h C hf).2.2
    have inHop : ∀ K, K ∈ BfeVerif.Generated.C26.hopHeaders → K ≠ kTe → f.1 = K → False := by
      intro K hK hne e
      have := (hop_core h C.nodup f hf (by rw [e]; exact List.mem_append.mpr (Or.inl hK))).1
      exact hne (e.symm.trans this)
    simp only [listedLower, List.map_cons, List.map_nil, List.mem_cons, List.not_mem_nil, or_false] at hmem
    rcases hmem with e | e | e | e | e | e | e
    · exact inHop kConnection (by decide) (by decide) (fwd_name_eq h C hf _ (by decide) e)
    · exact inHop kKeepAlive (by decide) (by decide) (fwd_name_eq h C hf _ (by decide) e)
    · exact inHop kProxyAuthenticate (by decide) (by decide) (fwd_name_eq h C hf _ (by decide) e)
    · exact inHop kProxyAuthorization (by decide) (by decide) (fwd_name_eq h C hf _ (by decide) e)
    · have := fwd_name_eq h C hf kTrailer (by decide) e
      rw [this] at hex; exact absurd hex (by decide)
    · have := fwd_name_eq h C hf kTransferEncoding (by decide) e
      rw [this] at hex; exact absurd hex (by decide)
    · exact inHop kUpgrade (by decide) (by decide) (fwd_name_eq h C hf _ (by decide) e)

theorem clause_te (h : Hdr) (C : Canon h) :
    ∀ f ∈ forwarded h, (f.1.map lower == kTe.map lower && f.2 != sTrailers) = false := by
  intro f hf
  cases hc : (f.1.map lower == kTe.map lower) with
  | false => rfl
  | true =>
    have e := fwd_name_eq h C hf kTe (by decide) (eq_of_beq hc)
    have hte := (hop_core h C.nodup f hf (by rw [e]; exact List.mem_append.mpr (Or.inl (by decide)))).2
    obtain ⟨v, hv, hfv⟩ := (fwd_entry h C hf).2.1
    rw [e, hte] at hv
    simp only [List.mem_cons, List.not_mem_nil, or_false] at hv
    rw [hfv, hv]
    have : sanitize sTrailers = sTrailers := by decide
    simp [this]

theorem clause_tokens (h : Hdr) (C : Canon h) :
    ∀ f ∈ forwarded h,
      ((connTokens h).filter fun t => !ownLower.contains t && t != kTe.map lower).contains (f.1.map lower) = false := by
  intro f hf
  cases hc : ((connTokens h).filter fun t => !ownLower.contains t && t != kTe.map lower).contains (f.1.map lower) with
  | false => rfl
  | true =>
    exfalso
    have hmem := List.contains_iff_mem.mp hc
    obtain ⟨hct, hcond⟩ := List.mem_filter.mp hmem
    simp only [Bool.and_eq_true, bne_iff_ne, ne_eq] at hcond
    -- unpack membership in connTokens
    unfold connTokens at hct
    simp only [] at hct
    obtain ⟨hct1, hnonempty⟩ := List.mem_filter.mp hct
    obtain ⟨v, hv, hpiece⟩ := List.mem_flatMap.mp hct1
    obtain ⟨piece, hpm, hpe⟩ := List.mem_map.mp hpiece
    obtain ⟨kv, hkv, hvkv⟩ := List.mem_flatMap.mp hv
    obtain ⟨hkvh, hfold⟩ := List.mem_filter.mp hkv
    -- the key is exactly "Connection"
    have hkc : kv.1 = kConnection :=
      canon_inj kv.1 kConnection (C.tok kv hkvh) (C.can kv hkvh) (by decide) (eq_of_beq hfold)
    have hlk : lookup h kConnection = kv.2 := by
      apply lookup_of_mem h kConnection kv.2 C.nodup
      rw [← hkc]; exact hkvh
    -- the token
    have he := (fwd_entry h C hf).1
    have htok := C.tok _ he
    have hcoreT : (trimOWS piece).all isTchar = true := all_tchar_of_lower hpe.symm htok
    have hcne : trimOWS piece ≠ [] := by
      intro e
      rw [e] at hpe
      simp only [List.map_nil] at hpe
      rw [← hpe] at hnonempty
      simp at hnonempty
    have hts : trimSpace piece = trimOWS piece :=
      trimSpace_eq_trimOWS piece hcne (fun b hb => tchar_not_space b (List.all_eq_true.mp hcoreT b hb))
    have hfc : f.1 = canon (trimOWS piece) := canon_of_lower f.1 _ htok (C.can _ he) hpe.symm
    have hin : f.1 ∈ connNames h := by
      unfold connNames
      apply List.mem_filter.mpr
      refine ⟨?_, ?_⟩
      · apply List.mem_map.mpr
        refine ⟨trimOWS piece, ?_, hfc.symm⟩
        apply List.mem_flatMap.mpr
        refine ⟨v, by rw [hlk]; exact hvkv, ?_⟩
        apply List.mem_map.mpr
        exact ⟨piece, hpm, hts⟩
      · have hne1 : f.1.isEmpty = false := by
          cases hq : f.1 with
          | nil => rw [hq] at hnonempty; simp at hnonempty
          | cons _ _ => rfl
        have hnp : BfeVerif.Generated.C26.hopProtected.contains f.1 = false := by
          cases hp : BfeVerif.Generated.C26.hopProtected.contains f.1 with
          | false => rfl
          | true =>
            exfalso
            have hm : f.1 ∈ BfeVerif.Generated.C26.hopProtected := List.contains_iff_mem.mp hp
            have : f.1.map lower ∈ ownLower := by
              unfold ownLower
              exact List.mem_map.mpr ⟨f.1, List.mem_append.mpr (Or.inr hm), rfl⟩
            have hc1 := hcond.1
            rw [List.contains_iff_mem.mpr this] at hc1
            simp at hc1
        simp only [hne1, Bool.not_false, Bool.true_and, Bool.not_eq_true']
        exact hnp
    have := (hop_core h C.nodup f hf (List.mem_append.mpr (Or.inr hin))).1
    apply hcond.2
    rw [this]

/-- **the oracle itself**: on every header map with distinct canonical token keys (what each frontend builds),
    whatever the values, the case-insensitive judgement `violation` finds nothing in what is forwarded -/
theorem oracle_none (h : Hdr) (C : Canon h) : violation h (forwarded h) = none := by
  have c1 := clause_listed h C
  have c2 := clause_te h C
  have c3 := clause_tokens h C
  unfold violation
  have f1 : ((forwarded h).map fun f => f.1.map lower).find? (fun x => listedLower.contains x) = none := by
    apply List.find?_eq_none.mpr
    intro x hx
    obtain ⟨f, hf, rfl⟩ := List.mem_map.mp hx
    show ¬ (listedLower.contains (f.1.map lower) = true)
    rw [c1 f hf]; simp
  have f2 : (forwarded h).any (fun f => f.1.map lower == kTe.map lower && f.2 != sTrailers) = false := by
    apply List.any_eq_false.mpr
    intro f hf
    show ¬ ((f.1.map lower == kTe.map lower && f.2 != sTrailers) = true)
    rw [c2 f hf]; simp
  have f3 : ((forwarded h).map fun f => f.1.map lower).any
      (fun x => ((connTokens h).filter fun t => !ownLower.contains t && t != kTe.map lower).contains x) = false := by
    apply List.any_eq_false.mpr
    intro x hx
    obtain ⟨f, hf, rfl⟩ := List.mem_map.mp hx
    show ¬ (((connTokens h).filter fun t => !ownLower.contains t && t != kTe.map lower).contains (f.1.map lower) = true)
    rw [c3 f hf]; simp
  simp only [f1, f2, f3]
  simp

/-! ## header maps read from the wire are canonical maps -/
set_option maxRecDepth 100000 in
theorem tchar_upper : ∀ x : UInt8, isTchar (upper x) = isTchar x := by
  apply byte_forall; decide
set_option maxRecDepth 100000 in
theorem upper_upper : ∀ x : UInt8, upper (upper x) = upper x := by
  apply byte_forall; decide
set_option maxRecDepth 100000 in
theorem lower_upper : ∀ x : UInt8, lower (upper x) = lower x := by
  apply byte_forall; decide
set_option maxRecDepth 100000 in
theorem dash_upper : ∀ x : UInt8, (upper x == 45) = (x == 45) := by
  apply byte_forall; decide

theorem canonGo_tchar (up : Bool) (a : Bytes) (h : a.all isTchar = true) : (canonGo up a).all isTchar = true := by
  induction a generalizing up with
  | nil => rfl
  | cons x a ih =>
    simp only [List.all_cons, Bool.and_eq_true] at h
    simp only [canonGo, List.all_cons, Bool.and_eq_true]
    refine ⟨?_, ih _ h.2⟩
    cases up
    · simp only [Bool.false_eq_true, if_false]; rw [tchar_lower]; exact h.1
    · simp only [if_true]; rw [tchar_upper]; exact h.1

theorem canonGo_idem (up : Bool) (a : Bytes) : canonGo up (canonGo up a) = canonGo up a := by
  induction a generalizing up with
  | nil => rfl
  | cons x a ih =>
    cases up
    · simp only [canonGo, Bool.false_eq_true, if_false, lower_lower, dash_lower, ih]
    · simp only [canonGo, if_true, upper_upper, dash_upper, ih]

theorem canon_tchar (k : Bytes) (h : k.all isTchar = true) : (canon k).all isTchar = true := by
  unfold canon; simp only [h, if_true]; exact canonGo_tchar true k h

theorem canon_idem (k : Bytes) (h : k.all isTchar = true) : canon (canon k) = canon k := by
  have h2 := canon_tchar k h
  have e : canon k = canonGo true k := by unfold canon; simp [h]
  rw [e] at h2 ⊢
  unfold canon
  simp only [h2, if_true]
  exact canonGo_idem true k

theorem canon_nonempty (k : Bytes) (h : k ≠ []) : canon k ≠ [] := by
  unfold canon
  split
  · cases k with
    | nil => exact absurd rfl h
    | cons x a => simp [canonGo]
  · exact h

/-- every key of a grouped field list is the canonical form of a name on the wire -/
theorem groupFields_keys (fs : List (Bytes × Bytes)) :
    ∀ kv ∈ groupFields fs, ∃ f ∈ fs, kv.1 = canon f.1 := by
  induction fs with
  | nil => intro kv h; cases h
  | cons f rest ih =>
    intro kv h
    obtain ⟨k, v⟩ := f
    simp only [groupFields] at h
    rcases List.mem_cons.mp h with e | e
    · exact ⟨(k, v), List.mem_cons_self .., by rw [e]⟩
    · obtain ⟨f', hf', e'⟩ := ih kv (List.mem_filter.mp e).1
      exact ⟨f', List.mem_cons_of_mem _ hf', e'⟩

theorem groupFields_nodup (fs : List (Bytes × Bytes)) : ((groupFields fs).map (·.1)).Nodup := by
  induction fs with
  | nil => exact List.nodup_nil
  | cons f rest ih =>
    obtain ⟨k, v⟩ := f
    simp only [groupFields, List.map_cons]
    apply List.nodup_cons.mpr
    constructor
    · intro hmem
      obtain ⟨kv, hkv, e⟩ := List.mem_map.mp hmem
      have := (List.mem_filter.mp hkv).2
      simp only [bne_iff_ne, ne_eq] at this
      exact this e
    · exact (List.filter_sublist.map _).nodup ih

/-- **header maps read from the wire are canonical**: distinct keys, each the canonical form of a token -/
theorem groupFields_canon (fs : List (Bytes × Bytes)) (ht : ∀ f ∈ fs, isToken f.1 = true) :
    Canon (groupFields fs) := by
  refine ⟨groupFields_nodup fs, ?_, ?_⟩
  · intro kv hkv
    obtain ⟨f, hf, e⟩ := groupFields_keys fs kv hkv
    have := ht f hf
    simp only [isToken, Bool.and_eq_true] at this
    rw [e]; exact canon_tchar _ this.2
  · intro kv hkv
    obtain ⟨f, hf, e⟩ := groupFields_keys fs kv hkv
    have := ht f hf
    simp only [isToken, Bool.and_eq_true] at this
    rw [e]; exact canon_idem _ this.2

theorem canon_filter {h : Hdr} (C : Canon h) (p : Bytes × List Bytes → Bool) : Canon (h.filter p) :=
  ⟨(List.filter_sublist.map _).nodup C.nodup,
   fun kv hkv => C.tok kv (List.mem_filter.mp hkv).1,
   fun kv hkv => C.can kv (List.mem_filter.mp hkv).1⟩

theorem canon_append_new {h : Hdr} (C : Canon h) (k : Bytes) (vs : List Bytes) (hk : k.all isTchar = true)
    (hc : canon k = k) (hn : ∀ kv ∈ h, kv.1 ≠ k) : Canon (h ++ [(k, vs)]) := by
  refine ⟨?_, ?_, ?_⟩
  · simp only [List.map_append, List.map_cons, List.map_nil]
    apply List.nodup_append.mpr
    refine ⟨C.nodup, by simp, ?_⟩
    intro a ha b hb
    simp only [List.mem_cons, List.not_mem_nil, or_false] at hb
    obtain ⟨kv, hkv, e⟩ := List.mem_map.mp ha
    rw [hb, ← e]; exact hn kv hkv
  · intro kv hkv
    rcases List.mem_append.mp hkv with h1 | h1
    · exact C.tok kv h1
    · simp only [List.mem_cons, List.not_mem_nil, or_false] at h1; rw [h1]; exact hk
  · intro kv hkv
    rcases List.mem_append.mp hkv with h1 | h1
    · exact C.can kv h1
    · simp only [List.mem_cons, List.not_mem_nil, or_false] at h1; rw [h1]; exact hc

/-- whatever `ReadRequest` leaves of a field list with token names is a canonical map -/
theorem wireHeader_canon (wf : List (Bytes × Bytes)) (ht : ∀ f ∈ wf, isToken f.1 = true)
    (h : Hdr) (fr : Framing) (hw : wireHeader wf = some (h, fr)) : Canon h := by
  have c0 : Canon (groupFields (wf.filter fun f => canon f.1 != kHost)) :=
    groupFields_canon _ (fun f hf => ht f (List.mem_filter.mp hf).1)
  unfold wireHeader at hw
  simp only [] at hw
  generalize hh0 : groupFields (wf.filter fun f => canon f.1 != kHost) = h0 at hw c0
  have c1 : Canon (if (getFirst h0 kPragma == sNoCache && !(h0.any fun kv => kv.1 == kCacheControl)) = true
      then h0 ++ [(kCacheControl, [sNoCache])] else h0) := by
    split
    · rename_i hc
      simp only [Bool.and_eq_true, Bool.not_eq_true', List.any_eq_false, beq_iff_eq] at hc
      exact canon_append_new c0 kCacheControl _ (by decide) (by decide) (fun kv hkv => hc.2 kv hkv)
    · exact c0
  generalize (if (getFirst h0 kPragma == sNoCache && !(h0.any fun kv => kv.1 == kCacheControl)) = true
      then h0 ++ [(kCacheControl, [sNoCache])] else h0) = h1 at hw c1
  have dt : ∀ x : Hdr, Canon x →
      Canon (if (getFirst x kTrailer).isEmpty = true then x else x.filter fun kv => kv.1 != kTrailer) := by
    intro x cx; split
    · exact cx
    · exact canon_filter cx _
  split at hw
  · split at hw
    · cases hw
    · simp only [Option.some.injEq, Prod.mk.injEq] at hw
      rw [← hw.1]; exact dt _ (canon_filter c1 _)
  · split at hw
    · simp only [Option.some.injEq, Prod.mk.injEq] at hw
      rw [← hw.1]; exact dt _ c1
    · split at hw
      · cases hw
      · split at hw
        · simp only [Option.some.injEq, Prod.mk.injEq] at hw
          rw [← hw.1]; exact dt _ c1
        · cases hw

end BfeVerif.C26
