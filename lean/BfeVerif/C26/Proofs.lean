import BfeVerif.C26.Model
/-! Lemmas for C26 (core Lean only). -/
namespace BfeVerif.C26
open BfeVerif.C25

theorem mem_insertKV (x y : Bytes × List Bytes) (l : List (Bytes × List Bytes)) :
    x ∈ insertKV y l ↔ x = y ∨ x ∈ l := by
  induction l with
  | nil => simp [insertKV]
  | cons z zs ih =>
    unfold insertKV
    split
    · simp only [List.mem_cons, ih]
      constructor
      · rintro (h | h | h)
        · exact Or.inr (Or.inl h)
        · exact Or.inl h
        · exact Or.inr (Or.inr h)
      · rintro (h | h | h)
        · exact Or.inr (Or.inl h)
        · exact Or.inl h
        · exact Or.inr (Or.inr h)
    · simp only [List.mem_cons]

theorem mem_sortKV (x : Bytes × List Bytes) (l : List (Bytes × List Bytes)) :
    x ∈ sortKV l ↔ x ∈ l := by
  unfold sortKV
  induction l with
  | nil => simp
  | cons y ys ih => simp only [List.foldr_cons, mem_insertKV, ih, List.mem_cons]

/-- every forwarded field comes from a non-excluded entry of the map: one of its values, sanitised -/
theorem mem_outFields' {h : Hdr} {f : Bytes × Bytes} (hf : f ∈ outFields h) :
    ∃ vs v, (f.1, vs) ∈ h ∧ v ∈ vs ∧ f.2 = sanitize v ∧ excluded26 f.1 = false := by
  unfold outFields at hf
  obtain ⟨kv, hkv, hin⟩ := List.mem_flatMap.mp hf
  obtain ⟨v, hv, rfl⟩ := List.mem_map.mp hin
  have h1 := (mem_sortKV kv _).mp hkv
  obtain ⟨h2, h3⟩ := List.mem_filter.mp h1
  exact ⟨kv.2, v, h2, hv, rfl, by simpa using h3⟩

/-- every forwarded field comes from a non-excluded entry of the map that has at least one value -/
theorem mem_outFields {h : Hdr} {f : Bytes × Bytes} (hf : f ∈ outFields h) :
    ∃ vs, (f.1, vs) ∈ h ∧ vs ≠ [] ∧ excluded26 f.1 = false := by
  obtain ⟨vs, v, h1, h2, _, h4⟩ := mem_outFields' hf
  refine ⟨vs, h1, ?_, h4⟩
  intro e; rw [e] at h2; cases h2

theorem hopStep_subset {h : Hdr} {k : Bytes} {kv : Bytes × List Bytes} (hm : kv ∈ hopStep h k) : kv ∈ h := by
  unfold hopStep at hm
  simp only at hm
  split at hm
  · exact hm
  · split at hm
    · exact hm
    · exact (List.mem_filter.mp hm).1

theorem foldl_hopStep_subset (l : List Bytes) {h : Hdr} {kv : Bytes × List Bytes}
    (hm : kv ∈ l.foldl hopStep h) : kv ∈ h := by
  induction l generalizing h with
  | nil => exact hm
  | cons k ks ih => exact hopStep_subset (ih hm)

theorem lookup_filter_ne (h : Hdr) (k k' : Bytes) (hne : k ≠ k') :
    lookup (h.filter fun kv => kv.1 != k') k = lookup h k := by
  unfold lookup
  induction h with
  | nil => rfl
  | cons x xs ih =>
    by_cases hx : x.1 = k'
    · have : (x.1 != k') = false := by simp [hx]
      have hxk : (x.1 == k) = false := by
        simp only [beq_eq_false_iff_ne, ne_eq]; intro h'; exact hne (h'.symm.trans hx)
      simp only [List.filter_cons, this, List.find?_cons, hxk]
      exact ih
    · have : (x.1 != k') = true := by simp [hx]
      simp only [List.filter_cons, this, if_true, List.find?_cons]
      cases hxk : (x.1 == k) with
      | true => rfl
      | false => exact ih

theorem lookup_hopStep_ne (h : Hdr) (k k' : Bytes) (hne : k ≠ k') :
    lookup (hopStep h k') k = lookup h k := by
  unfold hopStep
  simp only
  split
  · rfl
  · split
    · rfl
    · exact lookup_filter_ne h k k' hne

/-- in a map (distinct keys) `Header[k]` is the value list of the entry with key `k` -/
theorem lookup_of_mem (h : Hdr) (k : Bytes) (vs : List Bytes) (hd : (h.map (·.1)).Nodup) (hm : (k, vs) ∈ h) :
    lookup h k = vs := by
  unfold lookup
  induction h with
  | nil => cases hm
  | cons x xs ih =>
    simp only [List.map_cons, List.nodup_cons] at hd
    rcases List.mem_cons.mp hm with e | hm'
    · subst e; simp
    · have hne : (x.1 == k) = false := by
        simp only [beq_eq_false_iff_ne, ne_eq]
        intro e
        apply hd.1
        rw [e]
        exact List.mem_map.mpr ⟨(k, vs), hm', rfl⟩
      simp only [List.find?_cons, hne]
      exact ih hd.2 hm'

/-- the condition under which the loop deletes header `k` -/
def Deletes (h : Hdr) (k : Bytes) : Prop :=
  lookup h k ≠ [] ∧ ¬ (k = kTe ∧ lookup h k = [sTrailers])

theorem hopStep_removes {h : Hdr} {k : Bytes} (hd : Deletes h k) :
    ∀ kv ∈ hopStep h k, kv.1 ≠ k := by
  intro kv hm
  unfold hopStep at hm
  simp only at hm
  have h1 : (lookup h k).isEmpty = false := by
    cases hg : lookup h k with
    | nil => exact absurd hg hd.1
    | cons _ _ => rfl
  simp only [h1] at hm
  have h2 : (k == kTe && lookup h k == [sTrailers]) = false := by
    cases hb : (k == kTe && lookup h k == [sTrailers]) with
    | false => rfl
    | true =>
      simp only [Bool.and_eq_true, beq_iff_eq] at hb
      exact absurd hb hd.2
  simp only [h2] at hm
  have := (List.mem_filter.mp hm).2
  simpa using this

theorem foldl_hopStep_removes (l : List Bytes) (h : Hdr) (k : Bytes) (hk : k ∈ l) (hd : Deletes h k) :
    ∀ kv ∈ l.foldl hopStep h, kv.1 ≠ k := by
  induction l generalizing h with
  | nil => cases hk
  | cons k' ks ih =>
    intro kv hm
    by_cases he : k' = k
    · subst he
      exact hopStep_removes hd kv (foldl_hopStep_subset ks hm)
    · have hk' : k ∈ ks := by
        cases hk with
        | head => exact absurd rfl he
        | tail _ h' => exact h'
      have hd' : Deletes (hopStep h k') k := by
        unfold Deletes
        rw [lookup_hopStep_ne h k k' (fun e => he e.symm)]
        exact hd
      exact ih (hopStep h k') hk' hd' kv hm

end BfeVerif.C26
