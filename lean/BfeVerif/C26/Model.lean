import BfeVerif.Generated.C26
import BfeVerif.C25.Model
/-
  C26 — model of `hopByHopHeaderRemove` (bfe_server/reverseproxy.go, AFTER fix C26-connection-tokens)
  followed by the header part of `Request.write` (`Header.WriteSubset` with the exclusion table).  Core-only.

    hopHeaders := HopHeaders ++ [CanonicalHeaderKey(TrimSpace(t)) | f ∈ req.Header["Connection"], t ∈ Split(f, ","), t ≠ ""]
    for _, h := range hopHeaders {
        hvs := outreq.Header[h];  if len(hvs) == 0 { continue }
        if h == "Te" && len(hvs) == 1 && hvs[0] == "trailers" { continue }
        ... copy on first write ...;  outreq.Header.Del(h) }

  (`hopStepOld` / `hopRemoveOld` keep the code before the fix, for the witnesses of what it let through.)
-/
namespace BfeVerif.C26
open BfeVerif.C25

abbrev Hdr := List (Bytes × List Bytes)

def kTe : Bytes := [84, 101]
def sTrailers : Bytes := [116, 114, 97, 105, 108, 101, 114, 115]
def kKeepAlive : Bytes := [75, 101, 101, 112, 45, 65, 108, 105, 118, 101]
def kProxyAuthenticate : Bytes := [80, 114, 111, 120, 121, 45, 65, 117, 116, 104, 101, 110, 116, 105, 99, 97, 116, 101]
def kProxyAuthorization : Bytes := [80, 114, 111, 120, 121, 45, 65, 117, 116, 104, 111, 114, 105, 122, 97, 116, 105, 111, 110]
def kUpgrade : Bytes := [85, 112, 103, 114, 97, 100, 101]

/-- the loop body BEFORE the fix: `hv := Header.Get(k); if hv == "" {continue}; if k == "Te" && hv == "trailers" {continue}` -/
def hopStepOld (h : Hdr) (k : Bytes) : Hdr :=
  let hv := getFirst h k
  if hv.isEmpty then h
  else if k == kTe && hv == sTrailers then h
  else h.filter fun kv => kv.1 != k

def hopRemoveOld (hop : List Bytes) (h : Hdr) : Hdr := hop.foldl hopStepOld h

/-- `Header[k]` (exact key) -/
def lookup (h : Hdr) (k : Bytes) : List Bytes :=
  match h.find? (fun kv => kv.1 == k) with
  | some (_, vs) => vs
  | none => []

/-- one iteration of the loop for name `k` (keys of the list are canonical, `Header[k]`/`Del` are exact) -/
def hopStep (h : Hdr) (k : Bytes) : Hdr :=
  let hvs := lookup h k
  if hvs.isEmpty then h
  else if k == kTe && hvs == [sTrailers] then h
  else h.filter fun kv => kv.1 != k

/-- strings.TrimSpace (ASCII part) -/
def isSpace (b : UInt8) : Bool := b == 32 || b == 9 || b == 10 || b == 11 || b == 12 || b == 13
def trimSpace (v : Bytes) : Bytes := ((v.dropWhile isSpace).reverse.dropWhile isSpace).reverse

def upper (b : UInt8) : UInt8 := if 97 ≤ b && b ≤ 122 then b - 32 else b

def canonGo : Bool → Bytes → Bytes
  | _, [] => []
  | up, b :: rest => (if up then upper b else lower b) :: canonGo (b == 45) rest

/-- textproto.CanonicalMIMEHeaderKey: unchanged unless every byte is a token byte -/
def canon (s : Bytes) : Bytes := if s.all isTchar then canonGo true s else s

/-- the names appended to the hop list: canonical forms of the non-empty tokens of `Header["Connection"]`,
    except the headers BFE sets itself (`hopByHopProtected`, second fix: a client cannot strip X-Real-Ip etc.) -/
def connNames (h : Hdr) : List Bytes :=
  (((lookup h kConnection).flatMap fun f => (splitOn 44 f).map trimSpace).map canon).filter
    fun n => !n.isEmpty && !BfeVerif.Generated.C26.hopProtected.contains n

def hopList (hop : List Bytes) (h : Hdr) : List Bytes := hop ++ connNames h

/-- `connNames` / `hopRemove` with both tables as parameters (used by C29 with its own regenerated copies) -/
def connNamesP (prot : List Bytes) (h : Hdr) : List Bytes :=
  (((lookup h kConnection).flatMap fun f => (splitOn 44 f).map trimSpace).map canon).filter
    fun n => !n.isEmpty && !prot.contains n

def hopRemoveP (hop prot : List Bytes) (h : Hdr) : Hdr := (hop ++ connNamesP prot h).foldl hopStep h

def hopRemove (hop : List Bytes) (h : Hdr) : Hdr := (hopList hop h).foldl hopStep h

/-- the header map `ReadRequest` builds from the field lines on the wire (names canonicalised, values of equal names
    collected in order of appearance, Host moved out of the map) — for requests without body/framing fields -/
def groupFields : List (Bytes × Bytes) → Hdr
  | [] => []
  | (k, v) :: rest =>
    let g := groupFields rest
    let ck := canon k
    (ck, v :: lookup g ck) :: g.filter fun kv => kv.1 != ck

def kPragma : Bytes := [80, 114, 97, 103, 109, 97]
def kCacheControl : Bytes := [67, 97, 99, 104, 101, 45, 67, 111, 110, 116, 114, 111, 108]
def sNoCache : Bytes := [110, 111, 45, 99, 97, 99, 104, 101]

/-- how the forwarded request is framed (decided by `readTransfer` from the wire fields) -/
inductive Framing where
  | none | cl (n : Nat) | chunked
  deriving Repr, BEq

/-- what `ReadRequest` leaves in the header map: Host moved out; `fixPragmaCacheControl` (Pragma: no-cache adds
    Cache-Control: no-cache when absent); `fixTransferEncoding` (Transfer-Encoding deleted; chunked also deletes
    Content-Length); `fixTrailer` (a non-empty Trailer is deleted).  `none` = a shape this model does not cover
    (Transfer-Encoding other than the single value `chunked`, non-numeric or differing Content-Length). -/
def wireHeader (fields : List (Bytes × Bytes)) : Option (Hdr × Framing) :=
  let h0 := groupFields (fields.filter fun f => canon f.1 != kHost)
  let h1 := if getFirst h0 kPragma == sNoCache && !(h0.any fun kv => kv.1 == kCacheControl)
            then h0 ++ [(kCacheControl, [sNoCache])] else h0
  let te := lookup h1 kTransferEncoding
  let cls := lookup h1 kContentLength
  let dropTrailer := fun (h : Hdr) => if (getFirst h kTrailer).isEmpty then h else h.filter fun kv => kv.1 != kTrailer
  if !te.isEmpty then
    if te.map (fun v => (trimOWS v).map lower) != [sChunked] then none
    else some (dropTrailer (h1.filter fun kv => kv.1 != kTransferEncoding && kv.1 != kContentLength), .chunked)
  else
    match cls with
    | [] => some (dropTrailer h1, .none)
    | c :: more =>
      if !(more.all fun v => trimOWS v == trimOWS c) then none
      else match decVal (trimOWS c) with
        | some n => some (dropTrailer h1, if n == 0 then .none else .cl n)
        | none => none

/-- `exclude[k]` of `Request.write`, from THIS property's regenerated copy of the table (so that a C26
    check never reads a stale Generated/C25.lean) -/
def excluded26 (k : Bytes) : Bool := BfeVerif.Generated.C26.reqWriteExclude.contains k

/-- the client fields that reach the wire: (key, sanitised value) in written order -/
def outFields (h : Hdr) : List (Bytes × Bytes) :=
  (sortKV (h.filter fun kv => !excluded26 kv.1)).flatMap fun kv => kv.2.map fun v => (kv.1, sanitize v)

/-- the bytes `Request.Write` produces for the fixed request shape of the C26 harness
    (`GET /`, Host `a`, body at EOF): request line, Host, `Content-Length: 0` when the client sent a
    non-empty Content-Length, the surviving client fields, empty line. -/
def writeHopF (method : Bytes) (fr : Framing) (h : Hdr) : Bytes :=
  joinLines ([method ++ [32, 47, 32] ++ sHTTP11, sHostPfx ++ [97]] ++
    (match fr with
     | .cl n => [sCLPfx ++ toDec n]
     | .chunked => [sTEChunked]
     | .none => if (getFirst h kContentLength).isEmpty then [] else [sCLPfx ++ [48]]) ++
    (outFields h).map fun f => f.1 ++ [58, 32] ++ f.2) ++ crlf

def writeHop (h : Hdr) : Bytes := writeHopF sGET .none h

/-- what the proxy forwards of a client header map -/
def forwarded (h : Hdr) : List (Bytes × Bytes) :=
  outFields (hopRemove BfeVerif.Generated.C26.hopHeaders h)

/-! ## SPEC side -/
/-- field names the property lists (lower case); `te` is handled separately -/
def listedLower : List Bytes :=
  [kConnection, kKeepAlive, kProxyAuthenticate, kProxyAuthorization, kTrailer, kTransferEncoding, kUpgrade].map (·.map lower)

/-- tokens of all `Connection` values: comma separated, OWS trimmed, lower-cased, non-empty -/
def connTokens (h : Hdr) : List Bytes :=
  let vals := (h.filter fun kv => eqFold kv.1 kConnection).flatMap (·.2)
  (vals.flatMap fun v => (splitOn 44 v).map fun t => (trimOWS t).map lower).filter (!·.isEmpty)

/-- fields `Request.write` emits itself and headers BFE sets itself (client address, log id): a Connection
    token naming one of them does not make it the client's hop-by-hop field -/
def ownLower : List Bytes :=
  ([kHost, kContentLength] ++ BfeVerif.Generated.C26.hopProtected).map (·.map lower)

/-- first violation among the fields `fs` that reached the backend for client header map `h` -/
def violation (h : Hdr) (fs : List (Bytes × Bytes)) : Option String :=
  let names := fs.map fun f => f.1.map lower
  match names.find? (listedLower.contains ·) with
  | some n =>
    -- classify by what let it through
    let firstEmpty := h.any fun kv => kv.1.map lower == n && (match kv.2 with | v :: _ => v.isEmpty | [] => false)
    some (if firstEmpty then "empty-first-value" else "listed")
  | none =>
    if fs.any (fun f => f.1.map lower == kTe.map lower && f.2 != sTrailers) then
      (if getFirst h kTe == sTrailers then some "te-trailers-first" else
        if (getFirst h kTe).isEmpty then some "empty-first-value" else some "te")
    else
      -- `te` is judged by the TE clause above: `Te: trailers` may be forwarded even when Connection names it
      let toks := (connTokens h).filter fun t => !ownLower.contains t && t != kTe.map lower
      if names.any (toks.contains ·) then some "connection-token" else none

/-- input header maps as the frontends build them: keys are tokens in canonical form (checked by the
    harness with the real CanonicalHeaderKey), pairwise distinct -/
def keysOK (h : Hdr) : Bool := h.all fun kv => isToken kv.1

/-- keys are tokens in canonical form (what `CanonicalMIMEHeaderKey` returns), i.e. what every frontend stores -/
def keysCanon (h : Hdr) : Bool := h.all fun kv => isToken kv.1 && canon kv.1 == kv.1

end BfeVerif.C26
