import BfeVerif.C27.Model
/-
  C28 — keep-alive connections stay in sync.

  Executable model of the HTTP/1 part of bfe_server/http_conn.go `conn.serve` (request loop, Expect
  handling, error replies, serveRequest, keep-alive decision) composed with
  * an ABSTRACT request reader: the client byte stream is a list of segment descriptors; for a
    well-formed request the reader consumes exactly its header block and derives the body framing as
    bfe_http.readTransfer does (Content-Length / chunked / none),
  * a scripted handler (read the body not at all / fully / k bytes, then respond / finish / close),
  * the response writer of C27 (`BfeVerif.C27.respond`), which contains the post-handler drain
    (`maxPostHandlerReadBytes`), `Body.Close()` in finishRequest and the closeAfterReply decision.

  SPEC: `rfcStart` — the offset at which request k starts according to RFC 7230 §3.3.3 message
  lengths, computed from the descriptors alone.

  Core-only (no Mathlib).
-/
namespace BfeVerif.C28
open BfeVerif.C27 (Bytes Act St respond render strBytes hexNat)

/-! ## The client byte stream, described structurally -/

inductive BodyD where
  | none
  | len (n : Nat)                                  -- Content-Length: n, n bytes
  | chunked (sizes : List Nat) (trailer : Bool)    -- well-formed chunked body
  | bad (sizes : List Nat)                         -- chunks, then the invalid size line "ZZ\r\n"
  deriving Repr, DecidableEq

inductive Expect where
  | no | cont | unknown
  deriving Repr, DecidableEq

structure ReqD where
  method : Nat            -- 0 GET, 1 HEAD, 2 POST
  proto11 : Bool
  conn : Nat              -- 0 absent, 1 close, 2 keep-alive, 3 "Close", 4 "Keep-Alive", 5 "keep-alive, close",
                          -- 6 two lines "x-y" / "close" (bfe looks at the first line only)
  expect : Expect
  sent : Bool             -- the client puts the body on the wire right behind the header (pipelined)
  body : BodyD
  graceful : Bool := false -- the server is in graceful-shutdown state when this request is answered
  waits : Bool := false   -- waiting client: sends nothing past the header until the server answers; the body
                          -- follows only after a `100 Continue` (then `sent = false`)
  deriving Repr, DecidableEq

inductive Seg where
  | req (r : ReqD)
  | garbage               -- "GARBAGE\r\n\r\n"                      → 400
  | longUri               -- URI longer than MaxHeaderUriBytes       → 414
  | longHdr               -- header longer than MaxHeaderBytes+4096  → 413
  deriving Repr, DecidableEq

inductive Read where
  | no | all | part (k : Nat)
  deriving Repr, DecidableEq

inductive Action where
  | closeDirect                                        -- BfeHandlerClose
  | finish                                             -- BfeHandlerFinish
  | respond (status : Nat) (fc fk fl : Bool) (len split : Nat)   -- BfeHandlerResponse
  deriving Repr, DecidableEq

structure Script where
  read : Read
  act : Action
  deriving Repr, DecidableEq

def defaultScript : Script := ⟨.no, .respond 200 false false true 2 0⟩

/-! ## Wire lengths (the harness renders exactly these strings) -/

def methodStr (m : Nat) : String := if m == 1 then "HEAD" else if m == 2 then "POST" else "GET"

def headStr (i : Nat) (r : ReqD) : String :=
  methodStr r.method ++ " /" ++ toString i ++ (if r.proto11 then " HTTP/1.1\r\n" else " HTTP/1.0\r\n") ++
  "Host: h\r\n" ++
  (if r.conn == 1 then "Connection: close\r\n" else if r.conn == 2 then "Connection: keep-alive\r\n"
   else if r.conn == 3 then "Connection: Close\r\n" else if r.conn == 4 then "Connection: Keep-Alive\r\n"
   else if r.conn == 5 then "Connection: keep-alive, close\r\n"
   else if r.conn == 6 then "Connection: x-y\r\nConnection: close\r\n" else "") ++
  (match r.expect with | .no => "" | .cont => "Expect: 100-continue\r\n" | .unknown => "Expect: x-unknown\r\n") ++
  (match r.body with
   | .none => ""
   | .len n => "Content-Length: " ++ toString n ++ "\r\n"
   | _ => "Transfer-Encoding: chunked\r\n") ++
  "\r\n"

def hdrLen (i : Nat) (r : ReqD) : Nat := (headStr i r).length

def chunksWire (sizes : List Nat) : Nat :=
  (sizes.map (fun s => (hexNat s).length + 2 + s + 2)).sum

/-- bytes of the (declared) body on the wire -/
def bodyWire : BodyD → Nat
  | .none => 0
  | .len n => n
  | .chunked sizes t => chunksWire sizes + 3 + (if t then 8 else 0) + 2
  | .bad sizes => chunksWire sizes + 4

/-- decoded body bytes a reader of req.Body can obtain -/
def bodyDecoded : BodyD → Nat
  | .none => 0
  | .len n => n
  | .chunked sizes _ => sizes.sum
  | .bad sizes => sizes.sum

/-- req.ContentLength != 0 after readTransfer -/
def clNonZero : BodyD → Bool
  | .none => false
  | .len n => n != 0
  | _ => true

def segLenGarbage : Nat := 11

/-- the handler touches req.Body -/
def Script.reads (sc : Script) : Bool :=
  match sc.read with
  | .no => false
  | .all => true
  | .part k => k > 0

/-- expectContinueReader: `100 Continue` is written on the first body read of an HTTP/1.1 request with
    `Expect: 100-continue` and a non-zero Content-Length -/
def wroteCont (r : ReqD) (sc : Script) : Bool :=
  r.expect == .cont && r.proto11 && sc.reads && clNonZero r.body

/-- the body bytes are on the wire: sent unconditionally, or by a waiting client that got its `100 Continue` -/
def onWire (r : ReqD) (cont : Bool) : Bool := r.sent || (r.waits && cont)

/-! ## SPEC: where requests start according to RFC 7230 -/

/-- length of message `i` as an RFC 7230 recipient delimits it; `none` = cannot be delimited.
    `cont` = the server answered this request's `Expect: 100-continue` with `100 Continue`. -/
def rfcLen (i : Nat) (cont : Bool) : Seg → Option Nat
  | .req r =>
    match r.body with
    | .bad _ => none                                         -- chunked coding cannot be decoded
    | b => some (hdrLen i r + (if onWire r cont then bodyWire b else 0))
  | _ => none

def hd : List Bool → Bool
  | [] => false
  | c :: _ => c

/-- start offset of message `k` when the stream starts with message number `i` at offset `pos`;
    `conts` = for every message from `i` on, whether it was answered with `100 Continue` -/
def rfcStartFrom : Nat → Nat → List Seg → List Bool → Nat → Option Nat
  | pos, i, segs, conts, k =>
    if k == i then (match segs with | [] => none | _ :: _ => some pos)
    else match segs with
      | [] => none
      | s :: t => match rfcLen i (hd conts) s with
        | none => none
        | some l => if k < i then none else rfcStartFrom (pos + l) (i + 1) t conts.tail k

def rfcStart (segs : List Seg) (conts : List Bool) (k : Nat) : Option Nat := rfcStartFrom 0 0 segs conts k

/-- which requests the server's handler scripts answer with `100 Continue` (scripts are positional) -/
def contList : List Seg → List Script → List Bool
  | [], _ => []
  | .req r :: t, scs => wroteCont r (scs.headD defaultScript) :: contList t scs.tail
  | _ :: t, scs => false :: contList t scs.tail

/-! ## The serve loop -/

structure Out where
  starts : List (Nat × Nat) := []     -- (offset, message index) of every request handed to the handler
  bytes : Bytes := []                 -- everything written to the client
  deriving Repr

/-- req.Header.GetDirect("Connection"): the value of the FIRST Connection line -/
def connStr (c : Nat) : String :=
  if c == 1 then "close" else if c == 2 then "keep-alive" else if c == 3 then "Close"
  else if c == 4 then "Keep-Alive" else if c == 5 then "keep-alive, close" else if c == 6 then "x-y" else ""

def reply400 : Bytes := strBytes "HTTP/1.1 400 Bad Request\r\n\r\n"
def reply413 : Bytes := strBytes "HTTP/1.1 413 Request Entity Too Large\r\n\r\n"
def reply414 : Bytes := strBytes "HTTP/1.1 414 Request-URI Too Long\r\n\r\n"
def continue100 : Bytes := strBytes "HTTP/1.1 100 Continue\r\n\r\n"

/-- handler actions of ReverseProxy.sendResponse on the ResponseWriter -/
def respondScript (status : Nat) (fc fk fl : Bool) (len split : Nat) : List Act :=
  (if fc then [Act.add "Connection" "close"] else []) ++
  (if fk then [Act.add "Connection" "keep-alive"] else []) ++
  (if fl then [Act.add "Content-Length" (toString len)] else []) ++
  [Act.writeHeader status] ++
  (if len == 0 then []
   else if split == 0 then [Act.write (List.replicate len 120)]
   else [Act.write (List.replicate split 120), Act.write (List.replicate (len - split) 120)])

/-- one well-formed request: (bytes written, connection stays open) -/
def serveOne (ka : Bool) (r : ReqD) (sc : Script) : Bytes × Bool :=
  let expecter := r.expect == .cont && r.proto11
  let dec := bodyDecoded r.body
  -- the handler reads the body
  let left : Nat :=
    match sc.read with
    | .no => dec
    | .all => 0
    | .part k => dec - k
  let hasBody := clNonZero r.body
  let wroteContinue := wroteCont r sc
  let pre := if wroteContinue then continue100 else []
  let rq : BfeVerif.C27.Req :=
    { isHead := r.method == 1, proto11 := r.proto11, conn := connStr r.conn,
      clNonZero := hasBody, bodyLeft := left, expecter := expecter, wroteContinue := wroteContinue,
      graceful := r.graceful }
  match sc.act with
  | .closeDirect => (pre, false)
  | .finish => (pre ++ render (respond rq ka []), false)
  | .respond st fc fk fl len split =>
    let s := respond { rq with touchesHeader := true } ka (respondScript st fc fk fl len split)
    (pre ++ render s, !s.close && s.writeRes.all (· == 0))

/-- conn.serve on the remaining stream; `pos`/`i` = offset and number of the next message -/
def serveFrom (ka : Bool) : Nat → Nat → List Seg → List Script → Out → Out
  | _, _, [], _, o => o                                          -- EOF: no reply
  | _, _, .garbage :: _, _, o => { o with bytes := o.bytes ++ reply400 }
  | _, _, .longUri :: _, _, o => { o with bytes := o.bytes ++ reply414 }
  | _, _, .longHdr :: _, _, o => { o with bytes := o.bytes ++ reply413 }
  | pos, i, .req r :: rest, scs, o =>
    let expecter := r.expect == .cont && r.proto11
    if r.expect == .cont && !clNonZero r.body then
      -- Expect: 100-continue with a zero Content-Length: 400, Connection: close
      let rq : BfeVerif.C27.Req := { isHead := r.method == 1, proto11 := r.proto11, conn := connStr r.conn,
                                      clNonZero := false, bodyLeft := 0, expecter := expecter,
                                      graceful := r.graceful }
      { o with bytes := o.bytes ++ render (respond rq ka [Act.set "Connection" "close", Act.writeHeader 400]) }
    else if r.expect == .unknown then
      let rq : BfeVerif.C27.Req := { isHead := r.method == 1, proto11 := r.proto11, conn := connStr r.conn,
                                      clNonZero := clNonZero r.body, bodyLeft := bodyDecoded r.body,
                                      graceful := r.graceful }
      { o with bytes := o.bytes ++ render (respond rq ka [Act.set "Connection" "close", Act.writeHeader 417]) }
    else
      let sc := scs.headD defaultScript
      let (bytes, open_) := serveOne ka r sc
      let o := { starts := o.starts ++ [(pos, i)], bytes := o.bytes ++ bytes }
      if open_ then serveFrom ka (pos + hdrLen i r + bodyWire r.body) (i + 1) rest scs.tail o
      else o

def serve (ka : Bool) (segs : List Seg) (scs : List Script) : Out := serveFrom ka 0 0 segs scs {}

/-! ## SPEC oracle on the implementation's observable behaviour -/

def scriptStatus (sc : Script) : Option Nat :=
  match sc.act with
  | .closeDirect => none
  | .finish => some 200
  | .respond st _ _ _ _ _ => some st

/-- server-generated error reply for a message that is never handed to the handler -/
def errorStatus : Seg → Option Nat
  | .garbage => some 400
  | .longUri => some 414
  | .longHdr => some 413
  | .req r =>
    if r.expect == .cont && !clNonZero r.body then some 400
    else if r.expect == .unknown then some 417 else none

def segIsHead : Option Seg → Bool
  | some (.req r) => r.method == 1
  | _ => false

def segExpects : Option Seg → Bool
  | some (.req r) => r.expect == .cont && r.proto11
  | _ => false

/-- why the stream lost sync when message `j` was (mis)read: look at message j-1 -/
def desyncClass (segs : List Seg) (j : Nat) : String :=
  if j == 0 then "desync" else
  match segs[j - 1]? with
  | some (.req r) =>
    (match r.body with
     | .bad _ => "bad-chunk-desync"
     | _ => if r.expect == .cont && !r.sent then "expect-desync" else "desync")
  | _ => "desync"

structure Resp where
  status : Nat
  had100 : Bool        -- an interim `100 Continue` preceded it
  close : Bool         -- carries `Connection: close`
  deriving Repr

/-- the final responses in `out`; t = number of the request whose final response is awaited -/
def parseStream (segs : List Seg) : Nat → Bytes → Nat → Bool → List Resp → (List Resp × Option String)
  | 0, _, _, _, acc => (acc.reverse, none)
  | fuel + 1, bs, t, c100, acc =>
    if bs.isEmpty then (acc.reverse, none) else
    match BfeVerif.C27.rfcResponse (segIsHead segs[t]?) bs with
    | none => (acc.reverse, some "unparseable-stream")
    | some p =>
      if p.status == 100 then
        (if segExpects segs[t]? then parseStream segs fuel p.rest t true acc
         else (acc.reverse, some "unexpected-100"))
      else if p.framing == .invalid || !p.complete then (acc.reverse, some "bad-response-framing")
      else parseStream segs fuel p.rest (t + 1) false
             (⟨p.status, c100, (BfeVerif.C27.fieldList p.lines "connection").contains "close"⟩ :: acc)

def clientViolation (segs : List Seg) (scs : List Script) : Bool :=
  (List.range segs.length).any fun j =>
    match segs[j]? with
    | some (.req r) =>
      (!r.sent && !r.waits && (r.expect != .cont || !r.proto11 || (scs.getD j defaultScript).reads)) ||
      (r.waits && (r.sent || r.expect != .cont || !r.proto11)) ||
      (match (scs.getD j defaultScript).act with
       | .respond st _ _ _ len _ => (st == 204 || st < 200) && len > 0
       | _ => false)
    | _ => false

def startsOk (segs : List Seg) (conts : List Bool) : Nat → List (Nat × Option Nat) → Option Nat
  | _, [] => none
  | j, (o, idx) :: t =>
    if idx == some j && rfcStart segs conts j == some o && (segs[j]?.bind errorStatus).isNone && (segs[j]?).isSome
    then startsOk segs conts (j + 1) t else some j

/-- every HTTP/1.1 request whose `Expect: 100-continue` got a final response without `100 Continue`
    must be the last one read on the connection unless the response says so (`Connection: close`) … or
    the next request was read at its RFC start (checked by `startsOk`): index of an offender -/
def unansweredOpen (segs : List Seg) (scs : List Script) (h : Nat) (obs : List Resp) : Option Nat :=
  (List.range obs.length).find? fun j =>
    match segs[j]?, obs[j]?, (scs.getD j defaultScript).act with
    | some (.req r), some o, .respond _ _ _ _ _ _ =>
      j < h && r.expect == .cont && r.proto11 && clNonZero r.body && !o.had100 && !o.close && j + 1 ≥ h
    | _, _, _ => false

/-- The C28 verdict: `starts` = (offset, URI index) of every request the loop handed to the handler,
    `out` = the response stream. -/
def judge (segs : List Seg) (scs : List Script) (starts : List (Nat × Option Nat)) (out : Bytes) : String :=
  if clientViolation segs scs then "skip" else
  let (resps, perr) := parseStream segs (out.length + 1) out 0 false []
  let conts := resps.map (·.had100)
  match startsOk segs conts 0 starts with
  | some j => "FAIL:" ++ desyncClass segs j
  | none =>
    match perr with
    | some e => "FAIL:" ++ e
    | none =>
    let h := starts.length
    let base := (List.range h).filterMap (fun j => scriptStatus (scs.getD j defaultScript))
    let obs := resps.map (·.status)
    let verdict :=
      if obs == base then "ok"
      else match segs[h]?.bind errorStatus with
        | some e => if obs == base ++ [e] then
                      (if (rfcStart segs conts h).isSome then "ok" else "FAIL:" ++ desyncClass segs h)
                    else if obs.length > base.length + 1 then "FAIL:" ++ desyncClass segs (h + 1)
                    else if obs.length == base.length + 1 && obs.take base.length == base then
                      "FAIL:" ++ desyncClass segs h        -- message h answered with the wrong error: it was misread
                    else "FAIL:response-mismatch"
        | none => if obs.length > base.length then "FAIL:" ++ desyncClass segs h else "FAIL:response-mismatch"
    if verdict != "ok" then verdict
    else match unansweredOpen segs scs h resps with
      | some _ => "FAIL:expect-kept-alive"
      | none => "ok"

end BfeVerif.C28
