import BfeVerif.C27.Model
/-
  C28 — keep-alive connections stay in sync.

  Executable model of the HTTP/1 part of bfe_server/http_conn.go `conn.serve` (request loop, Expect
  handling, error replies, serveRequest, keep-alive decision) composed with
  * an ABSTRACT request reader: the client byte stream is a list of segment descriptors; for a
    well-formed request the reader consumes exactly its header block and derives the body framing as
    bfe_http.readTransfer does (Content-Length / chunked / none),
  * a scripted handler (read the body not at all / fully / k bytes, then respond / finish / close),
  * the response writer of C27 (`BfeVerif.C27.respond`), which contains the post-handler drain
    (`maxPostHandlerReadBytes`), `Body.Close()` in finishRequest and the closeAfterReply decision.

  SPEC: `rfcStart` — the offset at which request k starts according to RFC 7230 §3.3.3 message
  lengths, computed from the descriptors alone.

  Core-only (no Mathlib).
-/
namespace BfeVerif.C28
open BfeVerif.C27 (Bytes Act St respond render strBytes hexNat)

/-! ## The client byte stream, described structurally -/

inductive BodyD where
  | none
  | len (n : Nat)                                  -- Content-Length: n, n bytes
  | chunked (sizes : List Nat) (trailer : Bool)    -- well-formed chunked body
  | bad (sizes : List Nat)                         -- chunks, then the invalid size line "ZZ\r\n"
  deriving Repr, DecidableEq

inductive Expect where
  | no | cont | unknown
  deriving Repr, DecidableEq

structure ReqD where
  method : Nat            -- 0 GET, 1 HEAD, 2 POST
  proto11 : Bool
  conn : Nat              -- 0 absent, 1 close, 2 keep-alive
  expect : Expect
  sent : Bool             -- the client put the body on the wire (may be false only after Expect: 100-continue)
  body : BodyD
  deriving Repr, DecidableEq

inductive Seg where
  | req (r : ReqD)
  | garbage               -- "GARBAGE\r\n\r\n"                      → 400
  | longUri               -- URI longer than MaxHeaderUriBytes       → 414
  | longHdr               -- header longer than MaxHeaderBytes+4096  → 413
  deriving Repr, DecidableEq

inductive Read where
  | no | all | part (k : Nat)
  deriving Repr, DecidableEq

inductive Action where
  | closeDirect                                        -- BfeHandlerClose
  | finish                                             -- BfeHandlerFinish
  | respond (status : Nat) (fc fk fl : Bool) (len split : Nat)   -- BfeHandlerResponse
  deriving Repr, DecidableEq

structure Script where
  read : Read
  act : Action
  deriving Repr, DecidableEq

def defaultScript : Script := ⟨.no, .respond 200 false false true 2 0⟩

/-! ## Wire lengths (the harness renders exactly these strings) -/

def methodStr (m : Nat) : String := if m == 1 then "HEAD" else if m == 2 then "POST" else "GET"

def headStr (i : Nat) (r : ReqD) : String :=
  methodStr r.method ++ " /" ++ toString i ++ (if r.proto11 then " HTTP/1.1\r\n" else " HTTP/1.0\r\n") ++
  "Host: h\r\n" ++
  (if r.conn == 1 then "Connection: close\r\n" else if r.conn == 2 then "Connection: keep-alive\r\n" else "") ++
  (match r.expect with | .no => "" | .cont => "Expect: 100-continue\r\n" | .unknown => "Expect: x-unknown\r\n") ++
  (match r.body with
   | .none => ""
   | .len n => "Content-Length: " ++ toString n ++ "\r\n"
   | _ => "Transfer-Encoding: chunked\r\n") ++
  "\r\n"

def hdrLen (i : Nat) (r : ReqD) : Nat := (headStr i r).length

def chunksWire (sizes : List Nat) : Nat :=
  (sizes.map (fun s => (hexNat s).length + 2 + s + 2)).sum

/-- bytes of the (declared) body on the wire -/
def bodyWire : BodyD → Nat
  | .none => 0
  | .len n => n
  | .chunked sizes t => chunksWire sizes + 3 + (if t then 8 else 0) + 2
  | .bad sizes => chunksWire sizes + 4

/-- decoded body bytes a reader of req.Body can obtain -/
def bodyDecoded : BodyD → Nat
  | .none => 0
  | .len n => n
  | .chunked sizes _ => sizes.sum
  | .bad sizes => sizes.sum

/-- req.ContentLength != 0 after readTransfer -/
def clNonZero : BodyD → Bool
  | .none => false
  | .len n => n != 0
  | _ => true

def segLenGarbage : Nat := 11

/-! ## SPEC: where requests start according to RFC 7230 -/

/-- length of message `i` as an RFC 7230 recipient delimits it; `none` = cannot be delimited -/
def rfcLen (i : Nat) : Seg → Option Nat
  | .req r =>
    match r.body with
    | .bad _ => none                                         -- chunked coding cannot be decoded
    | b => some (hdrLen i r + (if r.sent then bodyWire b else 0))
  | _ => none

/-- start offset of message `k` when the stream starts with message number `i` at offset `pos` -/
def rfcStartFrom : Nat → Nat → List Seg → Nat → Option Nat
  | pos, i, segs, k =>
    if k == i then (match segs with | [] => none | _ :: _ => some pos)
    else match segs with
      | [] => none
      | s :: t => match rfcLen i s with
        | none => none
        | some l => if k < i then none else rfcStartFrom (pos + l) (i + 1) t k

def rfcStart (segs : List Seg) (k : Nat) : Option Nat := rfcStartFrom 0 0 segs k

/-! ## The serve loop -/

structure Out where
  starts : List (Nat × Nat) := []     -- (offset, message index) of every request handed to the handler
  bytes : Bytes := []                 -- everything written to the client
  deriving Repr

def connStr (c : Nat) : String := if c == 1 then "close" else if c == 2 then "keep-alive" else ""

def reply400 : Bytes := strBytes "HTTP/1.1 400 Bad Request\r\n\r\n"
def reply413 : Bytes := strBytes "HTTP/1.1 413 Request Entity Too Large\r\n\r\n"
def reply414 : Bytes := strBytes "HTTP/1.1 414 Request-URI Too Long\r\n\r\n"
def continue100 : Bytes := strBytes "HTTP/1.1 100 Continue\r\n\r\n"

/-- handler actions of ReverseProxy.sendResponse on the ResponseWriter -/
def respondScript (status : Nat) (fc fk fl : Bool) (len split : Nat) : List Act :=
  (if fc then [Act.add "Connection" "close"] else []) ++
  (if fk then [Act.add "Connection" "keep-alive"] else []) ++
  (if fl then [Act.add "Content-Length" (toString len)] else []) ++
  [Act.writeHeader status] ++
  (if len == 0 then []
   else if split == 0 then [Act.write (List.replicate len 120)]
   else [Act.write (List.replicate split 120), Act.write (List.replicate (len - split) 120)])

/-- one well-formed request: (bytes written, connection stays open) -/
def serveOne (ka : Bool) (r : ReqD) (sc : Script) : Bytes × Bool :=
  let expecter := r.expect == .cont && r.proto11
  let dec := bodyDecoded r.body
  -- the handler reads the body
  let (didRead, left) : Bool × Nat :=
    match sc.read with
    | .no => (false, dec)
    | .all => (true, 0)
    | .part k => (k > 0, dec - k)
  let hasBody := clNonZero r.body
  let wroteContinue := expecter && didRead && hasBody
  let pre := if wroteContinue then continue100 else []
  let rq : BfeVerif.C27.Req :=
    { isHead := r.method == 1, proto11 := r.proto11, conn := connStr r.conn,
      clNonZero := hasBody, bodyLeft := left, expecter := expecter, wroteContinue := wroteContinue }
  match sc.act with
  | .closeDirect => (pre, false)
  | .finish => (pre ++ render (respond rq ka []), false)
  | .respond st fc fk fl len split =>
    let s := respond rq ka (respondScript st fc fk fl len split)
    (pre ++ render s, !s.close && s.writeRes.all (· == 0))

/-- conn.serve on the remaining stream; `pos`/`i` = offset and number of the next message -/
def serveFrom (ka : Bool) : Nat → Nat → List Seg → List Script → Out → Out
  | _, _, [], _, o => o                                          -- EOF: no reply
  | _, _, .garbage :: _, _, o => { o with bytes := o.bytes ++ reply400 }
  | _, _, .longUri :: _, _, o => { o with bytes := o.bytes ++ reply414 }
  | _, _, .longHdr :: _, _, o => { o with bytes := o.bytes ++ reply413 }
  | pos, i, .req r :: rest, scs, o =>
    let expecter := r.expect == .cont && r.proto11
    if r.expect == .cont && !clNonZero r.body then
      -- Expect: 100-continue with a zero Content-Length: 400, Connection: close
      let rq : BfeVerif.C27.Req := { isHead := r.method == 1, proto11 := r.proto11, conn := connStr r.conn,
                                      clNonZero := false, bodyLeft := 0, expecter := expecter }
      { o with bytes := o.bytes ++ render (respond rq ka [Act.set "Connection" "close", Act.writeHeader 400]) }
    else if r.expect == .unknown then
      let rq : BfeVerif.C27.Req := { isHead := r.method == 1, proto11 := r.proto11, conn := connStr r.conn,
                                      clNonZero := clNonZero r.body, bodyLeft := bodyDecoded r.body }
      { o with bytes := o.bytes ++ render (respond rq ka [Act.set "Connection" "close", Act.writeHeader 417]) }
    else
      let sc := scs.headD defaultScript
      let (bytes, open_) := serveOne ka r sc
      let o := { starts := o.starts ++ [(pos, i)], bytes := o.bytes ++ bytes }
      if open_ then serveFrom ka (pos + hdrLen i r + bodyWire r.body) (i + 1) rest scs.tail o
      else o

def serve (ka : Bool) (segs : List Seg) (scs : List Script) : Out := serveFrom ka 0 0 segs scs {}

/-! ## SPEC oracle on the implementation's observable behaviour -/

def scriptStatus (sc : Script) : Option Nat :=
  match sc.act with
  | .closeDirect => none
  | .finish => some 200
  | .respond st _ _ _ _ _ => some st

/-- server-generated error reply for a message that is never handed to the handler -/
def errorStatus : Seg → Option Nat
  | .garbage => some 400
  | .longUri => some 414
  | .longHdr => some 413
  | .req r =>
    if r.expect == .cont && !clNonZero r.body then some 400
    else if r.expect == .unknown then some 417 else none

def segIsHead : Option Seg → Bool
  | some (.req r) => r.method == 1
  | _ => false

def segExpects : Option Seg → Bool
  | some (.req r) => r.expect == .cont && r.proto11
  | _ => false

/-- why the stream lost sync when message `j` was (mis)read: look at message j-1 -/
def desyncClass (segs : List Seg) (j : Nat) : String :=
  if j == 0 then "desync" else
  match segs[j - 1]? with
  | some (.req r) =>
    (match r.body with
     | .bad _ => "bad-chunk-desync"
     | _ => if r.expect == .cont && !r.sent then "expect-desync" else "desync")
  | _ => "desync"

/-- final statuses of the responses in `out`; t = number of the request whose final response is awaited -/
def parseStream (segs : List Seg) : Nat → Bytes → Nat → List Nat → Except String (List Nat)
  | 0, _, _, acc => .ok acc.reverse
  | fuel + 1, bs, t, acc =>
    if bs.isEmpty then .ok acc.reverse else
    match BfeVerif.C27.rfcResponse (segIsHead segs[t]?) bs with
    | none => .error "unparseable-stream"
    | some p =>
      if p.status == 100 then
        (if segExpects segs[t]? then parseStream segs fuel p.rest t acc else .error "unexpected-100")
      else if p.framing == .invalid || !p.complete then .error "bad-response-framing"
      else parseStream segs fuel p.rest (t + 1) (p.status :: acc)

def clientViolation (segs : List Seg) (scs : List Script) : Bool :=
  (List.range segs.length).any fun j =>
    match segs[j]? with
    | some (.req r) =>
      (!r.sent && (r.expect != .cont || !r.proto11 || (scs.getD j defaultScript).read != .no)) ||
      (match (scs.getD j defaultScript).act with
       | .respond st _ _ _ len _ => (st == 204 || st < 200) && len > 0
       | _ => false)
    | _ => false

def startsOk (segs : List Seg) : Nat → List (Nat × Option Nat) → Option Nat
  | _, [] => none
  | j, (o, idx) :: t =>
    if idx == some j && rfcStart segs j == some o && (segs[j]?.bind errorStatus).isNone && (segs[j]?).isSome
    then startsOk segs (j + 1) t else some j

/-- The C28 verdict: `starts` = (offset, URI index) of every request the loop handed to the handler,
    `out` = the response stream. -/
def judge (segs : List Seg) (scs : List Script) (starts : List (Nat × Option Nat)) (out : Bytes) : String :=
  if clientViolation segs scs then "skip" else
  match startsOk segs 0 starts with
  | some j => "FAIL:" ++ desyncClass segs j
  | none =>
    let h := starts.length
    let base := (List.range h).filterMap (fun j => scriptStatus (scs.getD j defaultScript))
    match parseStream segs (out.length + 1) out 0 [] with
    | .error e => "FAIL:" ++ e
    | .ok obs =>
      if obs == base then "ok"
      else match segs[h]?.bind errorStatus with
        | some e => if obs == base ++ [e] then
                      (if (rfcStart segs h).isSome then "ok" else "FAIL:" ++ desyncClass segs h)
                    else if obs.length > base.length + 1 then "FAIL:" ++ desyncClass segs (h + 1) else "FAIL:response-mismatch"
        | none => if obs.length > base.length then "FAIL:" ++ desyncClass segs h else "FAIL:response-mismatch"

end BfeVerif.C28
