import BfeVerif.C27.Proofs
import BfeVerif.C28.Model
/-! Lemmas for C28 (core Lean only). -/
namespace BfeVerif.C28
open BfeVerif.C27 (respond Bytes render Act)

/-- the response writer closes after an `Expect: 100-continue` request that never got its `100 Continue` -/
theorem respond_close_of_unanswered (rq : BfeVerif.C27.Req) (ka : Bool) (script : List BfeVerif.C27.Act)
    (h1 : rq.expecter = true) (h2 : rq.wroteContinue = false) : (respond rq ka script).close = true := by
  unfold respond
  exact BfeVerif.C27.finish_close_of_unanswered _
    (BfeVerif.C27.foldl_unanswered script _ ⟨h1, h2, fun h => by simp at h⟩)

/-- no request of the stream has an undecodable chunked body -/
def noBad : List Seg → Bool
  | [] => true
  | .req r :: t => (match r.body with | .bad _ => false | _ => true) && noBad t
  | _ :: t => noBad t

/-- client conformance: a body is held back only after `Expect: 100-continue` on HTTP/1.1, and then
    either by a waiting client (sends it once `100 Continue` arrives) or, pipelining on, only when the
    server (handler) never asks for it by reading (which sends `100 Continue`) -/
def clientOK : List Seg → List Script → Bool
  | [], _ => true
  | .req r :: t, scs =>
    (r.sent || (r.expect == .cont && r.proto11 && (r.waits || !(scs.headD defaultScript).reads))) && clientOK t scs.tail
  | _ :: t, scs => clientOK t scs.tail

/-- if the loop goes on after a request, that request's body bytes were on the wire -/
theorem serveOne_open_onWire (ka : Bool) (r : ReqD) (sc : Script)
    (hc : (r.sent || (r.expect == .cont && r.proto11 && (r.waits || !sc.reads))) = true)
    (ho : (serveOne ka r sc).2 = true) : onWire r (wroteCont r sc) = true := by
  unfold onWire
  cases hs : r.sent with
  | true => rfl
  | false =>
    simp only [hs, Bool.false_or, Bool.and_eq_true, beq_iff_eq, Bool.or_eq_true, Bool.not_eq_true'] at hc
    obtain ⟨⟨he, hp⟩, hw⟩ := hc
    cases hwc : wroteCont r sc with
    | true =>
      have hr : sc.reads = true := by
        unfold wroteCont at hwc
        simp only [Bool.and_eq_true] at hwc
        exact hwc.1.2
      rcases hw with hw | hw
      · simp [hw]
      · rw [hr] at hw; exact absurd hw (by decide)
    | false =>
      exfalso
      unfold serveOne at ho
      simp only [he, hp, hwc] at ho
      cases ha : sc.act with
      | closeDirect => simp [ha] at ho
      | finish => simp [ha] at ho
      | respond st fc fk fl len split =>
        simp only [ha] at ho
        simp only [Bool.and_eq_true, Bool.not_eq_true'] at ho
        have h1 := ho.1
        rw [respond_close_of_unanswered _ _ _ (by simp) (by simp)] at h1
        exact absurd h1 (by decide)

theorem rfcStartFrom_ge : ∀ (segs : List Seg) (conts : List Bool) (pos i k p : Nat),
    rfcStartFrom pos i segs conts k = some p → i ≤ k := by
  intro segs
  induction segs with
  | nil =>
    intro conts pos i k p h
    unfold rfcStartFrom at h
    by_cases hk : k = i
    · omega
    · simp [hk] at h
  | cons s t ih =>
    intro conts pos i k p h
    unfold rfcStartFrom at h
    by_cases hk : k = i
    · omega
    · simp only [beq_iff_eq, hk, if_false] at h
      cases hl : rfcLen i (hd conts) s with
      | none => simp [hl] at h
      | some l =>
        simp only [hl] at h
        by_cases hlt : k < i
        · simp [hlt] at h
        · omega

theorem serveFrom_starts (ka : Bool) : ∀ (segs : List Seg) (pos i : Nat) (scs : List Script) (o : Out),
    noBad segs = true → clientOK segs scs = true →
    ∀ e ∈ (serveFrom ka pos i segs scs o).starts,
      e ∈ o.starts ∨ rfcStartFrom pos i segs (contList segs scs) e.2 = some e.1 := by
  intro segs
  induction segs with
  | nil => intro pos i scs o _ _ e he; exact Or.inl (by simpa [serveFrom] using he)
  | cons s t ih =>
    intro pos i scs o hnb hck e he
    cases s with
    | garbage => exact Or.inl (by simpa [serveFrom] using he)
    | longUri => exact Or.inl (by simpa [serveFrom] using he)
    | longHdr => exact Or.inl (by simpa [serveFrom] using he)
    | req r =>
      unfold serveFrom at he
      simp only [] at he
      split at he
      · exact Or.inl he
      · split at he
        · exact Or.inl he
        · have hnb' : (match r.body with | .bad _ => false | _ => true) = true ∧ noBad t = true := by
            simpa [noBad] using hnb
          have hck' : (r.sent || (r.expect == .cont && r.proto11 && (r.waits || !(scs.headD defaultScript).reads))) = true
              ∧ clientOK t scs.tail = true := by simpa [clientOK] using hck
          have hhere : rfcStartFrom pos i (Seg.req r :: t) (contList (Seg.req r :: t) scs) i = some pos := by
            unfold rfcStartFrom; simp
          split at he
          · rename_i hopen
            have hwire := serveOne_open_onWire ka r _ hck'.1 hopen
            rcases ih _ _ _ _ hnb'.2 hck'.2 e he with h | h
            · simp only [List.mem_append, List.mem_singleton] at h
              rcases h with h | h
              · exact Or.inl h
              · subst h; exact Or.inr hhere
            · right
              have hge := rfcStartFrom_ge _ _ _ _ _ _ h
              unfold rfcStartFrom
              have hk : ¬ e.2 = i := by omega
              have hlt : ¬ e.2 < i := by omega
              have hlen : rfcLen i (wroteCont r (scs.headD defaultScript)) (Seg.req r)
                  = some (hdrLen i r + bodyWire r.body) := by
                unfold rfcLen
                simp only []
                rw [hwire]
                cases hb : r.body with
                | bad ss => simp [hb] at hnb'
                | none => simp [hb]
                | len n => simp [hb]
                | chunked ss tr => simp [hb]
              simp only [beq_iff_eq, hk, if_false, contList, hd, List.tail_cons, hlen, hlt]
              rw [← h]; congr 1; omega
          · simp only [List.mem_append, List.mem_singleton] at he
            rcases he with h | h
            · exact Or.inl h
            · subst h; exact Or.inr hhere

theorem serveFrom_order (ka : Bool) : ∀ (segs : List Seg) (pos i : Nat) (scs : List Script) (o : Out),
    ∃ n, ((serveFrom ka pos i segs scs o).starts.map Prod.snd) = o.starts.map Prod.snd ++ (List.range' i n) := by
  intro segs
  induction segs with
  | nil => intro pos i scs o; exact ⟨0, by simp [serveFrom]⟩
  | cons s t ih =>
    intro pos i scs o
    cases s with
    | garbage => exact ⟨0, by simp [serveFrom]⟩
    | longUri => exact ⟨0, by simp [serveFrom]⟩
    | longHdr => exact ⟨0, by simp [serveFrom]⟩
    | req r =>
      unfold serveFrom
      simp only []
      split
      · exact ⟨0, by simp⟩
      · split
        · exact ⟨0, by simp⟩
        · split
          · obtain ⟨n, hn⟩ := ih (pos + hdrLen i r + bodyWire r.body) (i + 1) scs.tail
              { starts := o.starts ++ [(pos, i)], bytes := o.bytes ++ (serveOne ka r (scs.headD defaultScript)).1 }
            refine ⟨n + 1, ?_⟩
            rw [hn]
            simp [List.range'_succ]
          · exact ⟨1, by simp [List.range'_succ]⟩

/-- the reply conn.serve gives to a message it does not hand to the handler (`none`: it is handed over) -/
def unhandledReply (ka : Bool) : Seg → Option Bytes
  | .garbage => some reply400
  | .longUri => some reply414
  | .longHdr => some reply413
  | .req r =>
    let expecter := r.expect == .cont && r.proto11
    if r.expect == .cont && !clNonZero r.body then
      let rq : BfeVerif.C27.Req := { isHead := r.method == 1, proto11 := r.proto11, conn := connStr r.conn,
                                      clNonZero := false, bodyLeft := 0, expecter := expecter,
                                      graceful := r.graceful }
      some (render (respond rq ka [Act.set "Connection" "close", Act.writeHeader 400]))
    else if r.expect == .unknown then
      let rq : BfeVerif.C27.Req := { isHead := r.method == 1, proto11 := r.proto11, conn := connStr r.conn,
                                      clNonZero := clNonZero r.body, bodyLeft := bodyDecoded r.body,
                                      graceful := r.graceful }
      some (render (respond rq ka [Act.set "Connection" "close", Act.writeHeader 417]))
    else none

/-- the bytes the first `n` messages produce when each is answered by its own script, in order:
    exactly one `serveOne` block (optional `100 Continue` + at most one final response) per request -/
def blocks (ka : Bool) : Nat → List Seg → List Script → Bytes
  | n + 1, .req r :: t, scs => (serveOne ka r (scs.headD defaultScript)).1 ++ blocks ka n t scs.tail
  | _, _, _ => []

/-- the tail after the handled prefix: nothing, or the one error reply to the first unhandled message -/
def TailOk (ka : Bool) (rest : List Seg) (tail : Bytes) : Prop :=
  tail = [] ∨ ∃ s t, rest = s :: t ∧ unhandledReply ka s = some tail

theorem serveFrom_transcript (ka : Bool) : ∀ (segs : List Seg) (pos i : Nat) (scs : List Script) (o : Out),
    ∃ n tail, n ≤ segs.length ∧
      (serveFrom ka pos i segs scs o).starts.map Prod.snd = o.starts.map Prod.snd ++ List.range' i n ∧
      (serveFrom ka pos i segs scs o).bytes = o.bytes ++ blocks ka n segs scs ++ tail ∧
      TailOk ka (segs.drop n) tail := by
  intro segs
  induction segs with
  | nil => intro pos i scs o; exact ⟨0, [], by simp, by simp [serveFrom], by simp [serveFrom, blocks], Or.inl rfl⟩
  | cons s t ih =>
    intro pos i scs o
    cases s with
    | garbage => exact ⟨0, reply400, by simp, by simp [serveFrom], by simp [serveFrom, blocks],
        Or.inr ⟨_, _, rfl, rfl⟩⟩
    | longUri => exact ⟨0, reply414, by simp, by simp [serveFrom], by simp [serveFrom, blocks],
        Or.inr ⟨_, _, rfl, rfl⟩⟩
    | longHdr => exact ⟨0, reply413, by simp, by simp [serveFrom], by simp [serveFrom, blocks],
        Or.inr ⟨_, _, rfl, rfl⟩⟩
    | req r =>
      unfold serveFrom
      simp only []
      split
      · rename_i h1
        exact ⟨0, (unhandledReply ka (.req r)).getD [], by simp, by simp, by simp [blocks, unhandledReply, h1],
          Or.inr ⟨_, _, rfl, by simp [unhandledReply, h1]⟩⟩
      · rename_i h1
        split
        · rename_i h2
          exact ⟨0, (unhandledReply ka (.req r)).getD [], by simp, by simp, by simp [blocks, unhandledReply, h1, h2],
            Or.inr ⟨_, _, rfl, by simp [unhandledReply, h1, h2]⟩⟩
        · split
          · obtain ⟨n, tail, hn, hs, hb, ht⟩ := ih (pos + hdrLen i r + bodyWire r.body) (i + 1) scs.tail
              { starts := o.starts ++ [(pos, i)], bytes := o.bytes ++ (serveOne ka r (scs.headD defaultScript)).1 }
            refine ⟨n + 1, tail, by simp; omega, ?_, ?_, by simpa using ht⟩
            · rw [hs]; simp [List.range'_succ]
            · rw [hb]; simp [blocks]
          · exact ⟨1, [], by simp, by simp [List.range'_succ], by simp [blocks], Or.inl rfl⟩

/-! ## Segmentation independence of byte-at-a-time readers -/

/-- next byte of a source that arrives in segments (one segment = what one Read on the connection
    returns); empty segments are skipped -/
def nextByte : List Bytes → Option (UInt8 × List Bytes)
  | [] => none
  | [] :: t => nextByte t
  | (b :: s) :: t => some (b, s :: t)

/-- a reader that pulls one byte at a time: `step` either goes on in a new state or stops with a result;
    returns the result and the unread rest of the source -/
def runSeg {σ ρ : Type} (step : σ → UInt8 → σ ⊕ ρ) (eof : σ → ρ) : Nat → σ → List Bytes → ρ × List Bytes
  | 0, s, segs => (eof s, segs)
  | fuel + 1, s, segs =>
    match nextByte segs with
    | none => (eof s, [])
    | some (b, rest) =>
      match step s b with
      | .inl s' => runSeg step eof fuel s' rest
      | .inr r => (r, rest)

theorem nextByte_flatten : ∀ (segs : List Bytes),
    (nextByte segs = none ∧ segs.flatten = []) ∨
    (∃ b rest, nextByte segs = some (b, rest) ∧ segs.flatten = b :: rest.flatten) := by
  intro segs
  induction segs with
  | nil => exact Or.inl ⟨rfl, rfl⟩
  | cons h t ih =>
    cases h with
    | nil => simpa [nextByte] using ih
    | cons b s => exact Or.inr ⟨b, s :: t, rfl, by simp⟩

theorem runSeg_flatten {σ ρ : Type} (step : σ → UInt8 → σ ⊕ ρ) (eof : σ → ρ) :
    ∀ (fuel : Nat) (s : σ) (segs : List Bytes),
      ((runSeg step eof fuel s segs).1, (runSeg step eof fuel s segs).2.flatten) =
      ((runSeg step eof fuel s [segs.flatten]).1, (runSeg step eof fuel s [segs.flatten]).2.flatten) := by
  intro fuel
  induction fuel with
  | zero => intro s segs; simp [runSeg]
  | succ f ih =>
    intro s segs
    rcases nextByte_flatten segs with ⟨hn, hf⟩ | ⟨b, rest, hn, hf⟩
    · simp [runSeg, hn, hf, nextByte]
    · have h1 : nextByte [segs.flatten] = some (b, [rest.flatten]) := by rw [hf]; rfl
      simp only [runSeg, hn, h1]
      cases step s b with
      | inl s' => simpa using ih s' rest
      | inr r => simp

/-- instance: a line reader (bytes up to LF, a CR before it dropped) -/
def lineStep (acc : Bytes) (b : UInt8) : Bytes ⊕ Bytes :=
  if b == 10 then .inr (match acc with | 13 :: t => t.reverse | _ => acc.reverse) else .inl (b :: acc)

end BfeVerif.C28
