import BfeVerif.C27.Proofs
import BfeVerif.C28.Model
/-! Lemmas for C28 (core Lean only). -/
namespace BfeVerif.C28
open BfeVerif.C27 (respond)

/-- the response writer closes after an `Expect: 100-continue` request that never got its `100 Continue` -/
theorem respond_close_of_unanswered (rq : BfeVerif.C27.Req) (ka : Bool) (script : List BfeVerif.C27.Act)
    (h1 : rq.expecter = true) (h2 : rq.wroteContinue = false) : (respond rq ka script).close = true := by
  unfold respond
  exact BfeVerif.C27.finish_close_of_unanswered _
    (BfeVerif.C27.foldl_unanswered script _ ⟨h1, h2, fun h => by simp at h⟩)

/-- no request of the stream has an undecodable chunked body -/
def noBad : List Seg → Bool
  | [] => true
  | .req r :: t => (match r.body with | .bad _ => false | _ => true) && noBad t
  | _ :: t => noBad t

/-- client conformance: a body is omitted only after `Expect: 100-continue` on HTTP/1.1, and only
    when the server (handler) never asked for it by reading (which sends `100 Continue`) -/
def clientOK : List Seg → List Script → Bool
  | [], _ => true
  | .req r :: t, scs =>
    (r.sent || (r.expect == .cont && r.proto11 && (scs.headD defaultScript).read == .no)) && clientOK t scs.tail
  | _ :: t, scs => clientOK t scs.tail

theorem serveOne_open_sent (ka : Bool) (r : ReqD) (sc : Script)
    (hc : (r.sent || (r.expect == .cont && r.proto11 && sc.read == .no)) = true)
    (ho : (serveOne ka r sc).2 = true) : r.sent = true := by
  cases hs : r.sent with
  | true => rfl
  | false =>
    exfalso
    simp only [hs, Bool.false_or, Bool.and_eq_true, beq_iff_eq] at hc
    obtain ⟨⟨he, hp⟩, hr⟩ := hc
    unfold serveOne at ho
    simp only [he, hp, hr] at ho
    cases ha : sc.act with
    | closeDirect => simp [ha] at ho
    | finish => simp [ha] at ho
    | respond st fc fk fl len split =>
      simp only [ha] at ho
      have := respond_close_of_unanswered
        { isHead := r.method == 1, proto11 := true, conn := connStr r.conn, clNonZero := clNonZero r.body,
          bodyLeft := bodyDecoded r.body, expecter := true, wroteContinue := false } ka
        (respondScript st fc fk fl len split) rfl rfl
      simp_all

theorem rfcStartFrom_ge : ∀ (segs : List Seg) (pos i k p : Nat),
    rfcStartFrom pos i segs k = some p → i ≤ k := by
  intro segs
  induction segs with
  | nil =>
    intro pos i k p h
    unfold rfcStartFrom at h
    by_cases hk : k = i
    · omega
    · simp [hk] at h
  | cons s t ih =>
    intro pos i k p h
    unfold rfcStartFrom at h
    by_cases hk : k = i
    · omega
    · simp only [beq_iff_eq, hk, if_false] at h
      cases hl : rfcLen i s with
      | none => simp [hl] at h
      | some l =>
        simp only [hl] at h
        by_cases hlt : k < i
        · simp [hlt] at h
        · omega

theorem serveFrom_starts (ka : Bool) : ∀ (segs : List Seg) (pos i : Nat) (scs : List Script) (o : Out),
    noBad segs = true → clientOK segs scs = true →
    ∀ e ∈ (serveFrom ka pos i segs scs o).starts, e ∈ o.starts ∨ rfcStartFrom pos i segs e.2 = some e.1 := by
  intro segs
  induction segs with
  | nil => intro pos i scs o _ _ e he; exact Or.inl (by simpa [serveFrom] using he)
  | cons s t ih =>
    intro pos i scs o hnb hck e he
    cases s with
    | garbage => exact Or.inl (by simpa [serveFrom] using he)
    | longUri => exact Or.inl (by simpa [serveFrom] using he)
    | longHdr => exact Or.inl (by simpa [serveFrom] using he)
    | req r =>
      unfold serveFrom at he
      simp only [] at he
      split at he
      · exact Or.inl he
      · split at he
        · exact Or.inl he
        · have hnb' : (match r.body with | .bad _ => false | _ => true) = true ∧ noBad t = true := by
            simpa [noBad] using hnb
          have hck' : (r.sent || (r.expect == .cont && r.proto11 && (scs.headD defaultScript).read == .no)) = true
              ∧ clientOK t scs.tail = true := by simpa [clientOK] using hck
          have hhere : rfcStartFrom pos i (Seg.req r :: t) i = some pos := by
            unfold rfcStartFrom; simp
          split at he
          · rename_i hopen
            have hsent := serveOne_open_sent ka r _ hck'.1 hopen
            rcases ih _ _ _ _ hnb'.2 hck'.2 e he with h | h
            · simp only [List.mem_append, List.mem_singleton] at h
              rcases h with h | h
              · exact Or.inl h
              · subst h; exact Or.inr hhere
            · right
              have hge := rfcStartFrom_ge _ _ _ _ _ h
              unfold rfcStartFrom
              have hk : ¬ e.2 = i := by omega
              have hlt : ¬ e.2 < i := by omega
              have hlen : rfcLen i (Seg.req r) = some (hdrLen i r + bodyWire r.body) := by
                unfold rfcLen
                cases hb : r.body with
                | bad ss => simp [hb] at hnb'
                | none => simp [hsent, hb]
                | len n => simp [hsent, hb]
                | chunked ss tr => simp [hsent, hb]
              simp only [beq_iff_eq, hk, if_false, hlen, hlt]
              rw [← h]; congr 1; omega
          · simp only [List.mem_append, List.mem_singleton] at he
            rcases he with h | h
            · exact Or.inl h
            · subst h; exact Or.inr hhere

theorem serveFrom_order (ka : Bool) : ∀ (segs : List Seg) (pos i : Nat) (scs : List Script) (o : Out),
    ∃ n, ((serveFrom ka pos i segs scs o).starts.map Prod.snd) = o.starts.map Prod.snd ++ (List.range' i n) := by
  intro segs
  induction segs with
  | nil => intro pos i scs o; exact ⟨0, by simp [serveFrom]⟩
  | cons s t ih =>
    intro pos i scs o
    cases s with
    | garbage => exact ⟨0, by simp [serveFrom]⟩
    | longUri => exact ⟨0, by simp [serveFrom]⟩
    | longHdr => exact ⟨0, by simp [serveFrom]⟩
    | req r =>
      unfold serveFrom
      simp only []
      split
      · exact ⟨0, by simp⟩
      · split
        · exact ⟨0, by simp⟩
        · split
          · obtain ⟨n, hn⟩ := ih (pos + hdrLen i r + bodyWire r.body) (i + 1) scs.tail
              { starts := o.starts ++ [(pos, i)], bytes := o.bytes ++ (serveOne ka r (scs.headD defaultScript)).1 }
            refine ⟨n + 1, ?_⟩
            rw [hn]
            simp [List.range'_succ]
          · exact ⟨1, by simp [List.range'_succ]⟩

end BfeVerif.C28
