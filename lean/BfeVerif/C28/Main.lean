import BfeVerif.C28.Driver
def main : IO Unit := BfeVerif.Proto.driverMain BfeVerif.C28.run
