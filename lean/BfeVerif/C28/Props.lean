import BfeVerif.C28.Proofs
/-!
  C28 — keep-alive connections stay in sync.  Property theorems only.

  Full statement (does NOT hold for the code, see `C28_witness_bad_chunk`):
    `∀ ka segs scs, clientOK segs scs → ∀ (p,i) ∈ (serve ka segs scs).starts, rfcStart segs i = some p`
  i.e. whenever conn.serve reads another request, it starts reading exactly where RFC 7230 says the
  previous message ended; when that end cannot be determined the connection must have been closed.
-/
namespace BfeVerif.C28

def Resync (ka : Bool) (segs : List Seg) (scs : List Script) : Prop :=
  ∀ e ∈ (serve ka segs scs).starts, rfcStart segs (contList segs scs) e.2 = some e.1

/-- **C28_resync (partial)**: for every stream without an undecodable chunked body and every handler
    script, each request the loop hands to the handler starts at the RFC end of its predecessor
    (this includes `Expect: 100-continue` requests whose body the client legitimately omitted: with the
    repair in chunkWriter.writeHeader the loop closes instead of swallowing the next request). -/
theorem C28_resync_partial (ka : Bool) (segs : List Seg) (scs : List Script)
    (hnb : noBad segs = true) (hc : clientOK segs scs = true) : Resync ka segs scs := by
  intro e he
  rcases serveFrom_starts ka segs 0 0 scs {} hnb hc e he with h | h
  · simp at h
  · exact h

/-- The full statement fails: after a chunked body whose size line is invalid the post-handler drain
    error is ignored and the loop parses whatever follows as the next request. -/
theorem C28_witness_bad_chunk :
    ¬ (∀ ka segs scs, clientOK segs scs = true → Resync ka segs scs) := by
  intro h
  have := h true
    [.req ⟨2, true, 0, .no, true, .bad [], false, false⟩, .req ⟨0, true, 0, .no, true, .none, false, false⟩] [] (by decide)
    (61, 1) (by decide)
  revert this
  decide

/-- The repaired defect, as a statement about the response writer: a request that expected
    `100 Continue` and never got it always ends with closeAfterReply, whatever the handler does. -/
theorem C28_expect_closes (rq : BfeVerif.C27.Req) (ka : Bool) (script : List BfeVerif.C27.Act)
    (h1 : rq.expecter = true) (h2 : rq.wroteContinue = false) :
    (BfeVerif.C27.respond rq ka script).close = true :=
  respond_close_of_unanswered rq ka script h1 h2

/-- Requests are handed to the handler in stream order, none twice, none skipped:
    the message numbers are 0,1,2,… -/
theorem C28_order_once (ka : Bool) (segs : List Seg) (scs : List Script) :
    ∃ n, (serve ka segs scs).starts.map Prod.snd = List.range n := by
  obtain ⟨n, hn⟩ := serveFrom_order ka segs 0 0 scs {}
  exact ⟨n, by simpa [serve, List.range_eq_range'] using hn⟩

/-- **C28 over whole pipelined transcripts.**  For every connection (any list of pipelined messages —
    requests with Content-Length / chunked bodies and trailers, HEAD, `Expect` sent, omitted or waited
    for, garbage, over-long URI / header — and any handler scripts) without an undecodable chunked body
    and with a conformant client there is a handled prefix of `n` messages such that
    * exactly the messages 0 … n-1 are handed to the handler, in this order, each once, and each
      starts at its RFC 7230 start offset (`rfcStart`),
    * the bytes sent to the client are, in order, one `serveOne` block per handled request (each block:
      an optional `100 Continue` and at most one final response) followed by nothing or by the single
      error reply (400 / 413 / 414 / 417) to message `n`, after which nothing more is read. -/
theorem C28_transcript_partial (ka : Bool) (segs : List Seg) (scs : List Script)
    (hnb : noBad segs = true) (hc : clientOK segs scs = true) :
    ∃ n tail, n ≤ segs.length ∧
      (serve ka segs scs).starts.map Prod.snd = List.range n ∧
      (∀ e ∈ (serve ka segs scs).starts, rfcStart segs (contList segs scs) e.2 = some e.1) ∧
      (serve ka segs scs).bytes = blocks ka n segs scs ++ tail ∧
      TailOk ka (segs.drop n) tail := by
  obtain ⟨n, tail, hn, hs, hb, ht⟩ := serveFrom_transcript ka segs 0 0 scs {}
  exact ⟨n, tail, hn, by simpa [serve, List.range_eq_range'] using hs,
    C28_resync_partial ka segs scs hnb hc, by simpa [serve] using hb, ht⟩

/-- The order / once / in-order-bytes part of the transcript statement holds for EVERY stream and
    client (also with undecodable bodies and misbehaving clients); only the offsets need the hypotheses. -/
theorem C28_transcript_order (ka : Bool) (segs : List Seg) (scs : List Script) :
    ∃ n tail, n ≤ segs.length ∧
      (serve ka segs scs).starts.map Prod.snd = List.range n ∧
      (serve ka segs scs).bytes = blocks ka n segs scs ++ tail ∧
      TailOk ka (segs.drop n) tail := by
  obtain ⟨n, tail, hn, hs, hb, ht⟩ := serveFrom_transcript ka segs 0 0 scs {}
  exact ⟨n, tail, hn, by simpa [serve, List.range_eq_range'] using hs, by simpa [serve] using hb, ht⟩

/-- **C28_segmentation_independent.**  What a byte-at-a-time reader (request line, header lines, chunk
    size lines, bodies: anything defined by a `step` function) returns, and what it leaves unread, depends
    only on the CONCATENATION of the segments the client's bytes arrive in — for every way of cutting the
    stream into reads (after a header line, inside a line, between requests, one byte per read).
    The serve-loop model `serve` reads descriptors, not segments, so its output is the same for every
    segmentation by construction; this theorem is the byte-level counterpart, and the correspondence run
    ties both to the code with the segmented `l` / `1` / `r<seed>` cases (same observed requests, offsets
    and response bytes as the model for every segmentation). -/
theorem C28_segmentation_independent {σ ρ : Type} (step : σ → UInt8 → σ ⊕ ρ) (eof : σ → ρ)
    (fuel : Nat) (s : σ) (segs : List BfeVerif.C27.Bytes) :
    ((runSeg step eof fuel s segs).1, (runSeg step eof fuel s segs).2.flatten) =
    ((runSeg step eof fuel s [segs.flatten]).1, (runSeg step eof fuel s [segs.flatten]).2.flatten) :=
  runSeg_flatten step eof fuel s segs

/-! Non-vacuity: the header line `Content-Length: 5` cut exactly at its end, in the middle, and bytewise
    reads back as the same line with the same rest (the situation of seeded/C28-c). -/
example : runSeg lineStep (fun a => a.reverse) 100 [] [[67, 76, 58, 53, 13, 10], [88, 58, 49, 13, 10]]
        = ([67, 76, 58, 53], [[], [88, 58, 49, 13, 10]]) := by decide
example : (runSeg lineStep (fun a => a.reverse) 100 [] [[67, 76], [58, 53, 13], [10, 88, 58, 49, 13, 10]]).1
        = [67, 76, 58, 53] := by decide

/-- No request is read after a message whose end the loop's own reader reports as an error reply
    (400 / 413 / 414): the loop stops. -/
theorem C28_stop_after_error (ka : Bool) (pos i : Nat) (rest : List Seg) (scs : List Script) (o : Out) :
    (serveFrom ka pos i (.garbage :: rest) scs o).starts = o.starts ∧
    (serveFrom ka pos i (.longUri :: rest) scs o).starts = o.starts ∧
    (serveFrom ka pos i (.longHdr :: rest) scs o).starts = o.starts := by
  simp [serveFrom]

/-! Non-vacuity: a three-request pipelined stream (POST with chunked body + trailer read partly by the
    handler, an Expect request whose body is omitted, a GET) satisfies the hypotheses; the first two
    are handled, and the loop closes after the unanswered Expect. -/
example : noBad [.req ⟨2, true, 0, .no, true, .chunked [3, 4] true, false, false⟩, .req ⟨2, true, 0, .cont, false, .len 28, false, true⟩,
                 .req ⟨0, true, 0, .no, true, .none, false, false⟩] = true := by decide
example : clientOK [.req ⟨2, true, 0, .no, true, .chunked [3, 4] true, false, false⟩, .req ⟨2, true, 0, .cont, false, .len 28, false, true⟩,
                    .req ⟨0, true, 0, .no, true, .none, false, false⟩] [⟨.part 2, .respond 200 false false true 2 0⟩] = true := by decide
example : (serve true [.req ⟨2, true, 0, .no, true, .chunked [3, 4] true, false, false⟩, .req ⟨2, true, 0, .cont, false, .len 28, false, true⟩,
                       .req ⟨0, true, 0, .no, true, .none, false, false⟩] [⟨.part 2, .respond 200 false false true 2 0⟩]).starts
          = [(0, 0), (87, 1)] := by decide

/-! Waiting client: the body (and everything after it) is held back until the server answers.  The
    hypotheses are met, and the loop closes after the unanswered Expect — nothing after message 0 is read. -/
example : clientOK [.req ⟨2, true, 0, .cont, false, .len 28, false, true⟩, .req ⟨0, true, 0, .no, true, .none, false, false⟩]
                   [⟨.no, .respond 200 false false true 2 0⟩] = true := by decide
example : (serve true [.req ⟨2, true, 0, .cont, false, .len 28, false, true⟩, .req ⟨0, true, 0, .no, true, .none, false, false⟩]
                      [⟨.no, .respond 200 false false true 2 0⟩]).starts = [(0, 0)] := by decide
/-- … and when the handler asks for the body (`100 Continue` is sent) the waiting client sends it and
    the next request is read at its RFC start 71 + 28. -/
example : (serve true [.req ⟨2, true, 0, .cont, false, .len 28, false, true⟩, .req ⟨0, true, 0, .no, true, .none, false, false⟩]
                      [⟨.all, .respond 200 false false true 2 0⟩]).starts = [(0, 0), (99, 1)] := by decide

end BfeVerif.C28
