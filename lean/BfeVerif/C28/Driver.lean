import BfeVerif.Common.Proto
import BfeVerif.C28.Model
/-!
  C28 driver.
  op      : `s <ka 0|1> <requests> <scripts>`   (syntax: see harness/cmd/c28/main.go)
  result  : `<start:index,...|-> <hex of bytes sent to the client>`
-/
namespace BfeVerif.C28
open BfeVerif.Proto

def parseSizes (s : String) : Option (List Nat) :=
  if s.isEmpty then some [] else (s.splitOn "_").mapM (fun x => x.toNat?.bind (fun n => if n == 0 then none else some n))

def parseBody (s : String) : Option BodyD :=
  match s.toList with
  | ['-'] => some .none
  | 'L' :: t => (String.ofList t).toNat?.map .len
  | 'C' :: t =>
    let tr := t.getLast? == some 't'
    let t := if tr then t.dropLast else t
    (parseSizes (String.ofList t)).map (fun ss => .chunked ss tr)
  | 'B' :: t => (parseSizes (String.ofList t)).map .bad
  | _ => none

def parseSeg (tok : String) : Option Seg :=
  if tok == "X4" then some .garbage
  else if tok == "XU" then some .longUri
  else if tok == "XH" then some .longHdr
  else match tok.splitOn ":" with
    | [a, b] =>
      match a.toList, parseBody b with
      | m :: p :: c :: e :: s :: g, some body =>
        if !(g == [] || g == ['g']) then none else
        let m? : Option Nat := if m == 'G' then some 0 else if m == 'H' then some 1 else if m == 'P' then some 2 else none
        let c? : Option Nat := if c == 'n' then some 0 else if c == 'c' then some 1 else if c == 'k' then some 2
          else if c == 'C' then some 3 else if c == 'K' then some 4 else if c == 't' then some 5
          else if c == 'm' then some 6 else none
        let e? : Option Expect := if e == 'n' then some .no else if e == 'e' then some .cont else if e == 'u' then some .unknown else none
        match m?, c?, e? with
        | some m, some c, some e =>
          if (p == '0' || p == '1') && (s == 'y' || s == 'o' || s == 'w') then
            some (.req { method := m, proto11 := p == '1', conn := c, expect := e, sent := s == 'y', body := body,
                         waits := s == 'w', graceful := g == ['g'] })
          else none
        | _, _, _ => none
      | _, _ => none
    | _ => none

def parseScript (t : String) : Option Script :=
  match t.splitOn ":" with
  | [r, a] =>
    let rd : Option Read :=
      if r == "n" then some .no else if r == "a" then some .all
      else match r.toList with
        | 'p' :: k => (String.ofList k).toNat?.map .part
        | _ => none
    let act : Option Action :=
      if a == "x" then some .closeDirect else if a == "f" then some .finish
      else match a.toList with
        | 'r' :: rest =>
          match (String.ofList rest).splitOn "." with
          | [st, fl, ln] =>
            match st.toNat?, ln.toNat? with
            | some st, some ln => some (.respond st (fl.contains 'c') (fl.contains 'k') (fl.contains 'l') ln 0)
            | _, _ => none
          | [st, fl, ln, sp] =>
            match st.toNat?, ln.toNat?, sp.toNat? with
            | some st, some ln, some sp => some (.respond st (fl.contains 'c') (fl.contains 'k') (fl.contains 'l') ln sp)
            | _, _, _ => none
          | _ => none
        | _ => none
    match rd, act with
    | some rd, some act => some ⟨rd, act⟩
    | _, _ => none
  | _ => none

def renderOut (o : Out) : String :=
  (if o.starts.isEmpty then "-" else ",".intercalate (o.starts.map fun (p, i) => toString p ++ ":" ++ toString i)) ++
  " " ++ hexField o.bytes

def parseStarts (s : String) : Option (List (Nat × Option Nat)) :=
  if s == "-" then some [] else
  (s.splitOn ",").mapM fun e =>
    match e.splitOn ":" with
    | [a, b] => a.toNat?.map (fun a => (a, b.toNat?))
    | _ => none

def runCore (ka rq sc : String) (seg : Option String) (impl : String) : Ans :=
    match (rq.splitOn ";").mapM parseSeg, (if sc == "-" then some [] else (sc.splitOn ";").mapM parseScript) with
    | some segs0, some scs =>
      -- graceful shutdown, once triggered by the handler of a request, holds for all later requests
      let segs := (segs0.foldl (fun (acc : List Seg × Bool) sg =>
        match sg with
        | .req r => (acc.1 ++ [Seg.req { r with graceful := r.graceful || acc.2 }], acc.2 || r.graceful)
        | x => (acc.1 ++ [x], acc.2)) ([], false)).1
      let o := serve (ka == "1") segs scs
      let verdict :=
        match impl.splitOn " " with
        | [st, hx] =>
          match parseStarts st, bytesOfHex hx with
          | some starts, some out => judge segs scs starts out
          | _, _ => "FAIL:bad-result"
        | _ => "FAIL:bad-result"
      let nh := o.starts.length
      let tags :=
        ["handled" ++ toString (min nh 4)] ++
        (if segs.any (fun s => match s with | .req r => r.expect == .cont | _ => false) then ["expect"] else []) ++
        (if segs.any (fun s => match s with | .req r => r.waits | _ => false) then ["waiting"] else []) ++
        (if segs.any (fun s => match s with | .req r => r.graceful | _ => false) then ["graceful"] else []) ++
        (if segs.any (fun s => match s with | .req r => r.conn ≥ 3 | _ => false) then ["conn-odd"] else []) ++
        (if segs.any (fun s => match s with | .req r => (match r.body with | .chunked _ _ => true | _ => false) | _ => false) then ["chunkedreq"] else []) ++
        (if segs.any (fun s => match s with | .req r => (match r.body with | .bad _ => true | _ => false) | _ => false) then ["badchunk"] else []) ++
        (if segs.any (fun s => match s with | .req _ => false | _ => true) then ["malformed"] else []) ++
        (match seg with
         | some m => ["seg-" ++ (m.take 1).toString]
         | none => []) ++
        (if nh ≥ 2 then ["nt"] else [])
      { model := renderOut o, verdict := verdict, tags := tags }
    | _, _ => { model := "bad-op", verdict := "skip" }

/-- the optional 5th field (how the client's bytes are cut into reads) does not enter the model or the
    oracle: both are segmentation-independent -/
def run (op impl : String) : Ans :=
  match op.splitOn " " with
  | ["s", ka, rq, sc] => runCore ka rq sc none impl
  | ["s", ka, rq, sc, seg] => runCore ka rq sc (some seg) impl
  | _ => { model := "bad-op", verdict := "skip" }

end BfeVerif.C28
