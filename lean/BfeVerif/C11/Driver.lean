import BfeVerif.Common.Proto
import BfeVerif.C11.Model
/-!
  C11 driver.
  op   = `r=<rule>&<rule>…;h=<host>;p=<path>`     rule = `<hosts>!<paths>!<cluster>`, lists comma separated, `-` = empty list
  impl = `err:load` | `get=<hit:c|miss>;lc=<ok:c|err>`
         get = BasicRouteRuleTree.Get(host, path) with the host exactly as given,
         lc  = HostTable.LookupCluster (which strips the port) for a product without advanced rules
-/
namespace BfeVerif.C11
open BfeVerif.Proto

def kv (fields : List String) (k : String) : Option String :=
  (fields.find? (fun f => f.startsWith (k ++ "="))).map (fun f => (f.drop (k.length + 1)).toString)

def parseList (s : String) : List (List Char) :=
  if s == "-" then [] else (s.splitOn ",").map (·.toList)

def parseRules (s : String) : Option (List Rule) :=
  if s == "" then some [] else
  (s.splitOn "&").mapM fun r =>
    match r.splitOn "!" with
    | [h, p, c] => some { hosts := parseList h, paths := parseList p, cluster := c }
    | _ => none

def renderGet : Option String → String
  | some c => "hit:" ++ c
  | none => "miss"

def renderLc : Option String → String
  | some c => "ok:" ++ c
  | none => "err"

def classOf (T : List Triple) (H : List Char) : String :=
  if T.any (fun t => hostMatch t.host H == some .exact) then "exact"
  else if T.any (fun t => hostMatch t.host H == some .wild) then "wild"
  else if T.any (fun t => hostMatch t.host H == some .any) then "any"
  else "nohost"

def runOne (f : List String) (hO pO : Option String) (impl : String) : Ans :=
  match kv f "r", hO, pO with
  | some r, some h, some p =>
    match parseRules r with
    | none => { model := "bad-op", verdict := "skip" }
    | some rules =>
      if !loadOk rules then
        { model := "err:load", verdict := "ok", tags := ["load-error"] }
      else
        let T := expand rules
        let F := T.map flat
        let host := h.toList
        let path := p.toList
        let m := "get=" ++ renderGet (treeGet F host path) ++ ";lc=" ++ renderLc (lookupBasic F host path)
        let sGet := specBasic T host path
        let sLc := specLookupBasic T host path
        let cls := classOf T (normHost (stripPort host))
        let hasPort := host.contains ':'
        let pstage :=
          match sLc with
          | none => "pmiss"
          | some _ =>
            let cands := T.filter fun t => (hostMatch t.host (normHost (stripPort host))).isSome
            if cands.any (fun t => t.path.getLast? != some '*' && t.path == path) then "pexact" else "pprefix"
        let verdict :=
          if impl == "err:load" then "ok"   -- rejected by the loader: compared with the model's loadOk only
          else match impl.splitOn ";" with
            | [g, l] =>
              if g != "get=" ++ renderGet sGet then "FAIL:get-" ++ cls ++ "-" ++ pstage ++ (if hasPort then "-port" else "")
              else if l != "lc=" ++ renderLc sLc then "FAIL:lc-" ++ cls ++ "-" ++ pstage ++ (if hasPort then "-port" else "")
              else "ok"
            | _ => "FAIL:unparsable"
        let shapes : List String :=
          (if T.any (fun t => t.host.contains ':') then ["shape-host-colon"] else [])
          ++ (if T.any (fun t => t.path != ['*'] && t.path.head? != some '/') then ["shape-path-relative"] else [])
          ++ (if T.any (fun t => t.path.getLast? == some '*' && t.path.length ≥ 2
                 && (t.path.dropLast).getLast? != some '/') then ["shape-fo-star"] else [])
          ++ (if T.any (fun t => t.host == ['*', '.'] || (t.host.head? == some '.') || t.host.getLast? == some '.')
               then ["shape-host-dots"] else [])
        let others := (T.filter fun t => (hostMatch t.host (normHost (stripPort host))).isSome).length
        { model := m
          verdict := verdict
          tags := [cls, pstage] ++ (if hasPort then ["port"] else [])
                  ++ (if cls != "nohost" && pstage == "pmiss" then ["class-hit-path-miss"] else [])
                  ++ (if T.length ≥ 2 && cls != "nohost" then ["nt"] else [])
                  ++ (if others ≥ 2 then ["multi-cand"] else []) ++ shapes }
  | _, _, _ => { model := "bad-op", verdict := "skip" }

/-- batch ops `q=<host>|<path>~<host>|<path>…`: one tree, many lookups; the harness runs the batch twice (the second
    time in reverse order) and keeps all results until the end — the answers must not depend on earlier lookups -/
def run (op impl : String) : Ans :=
  let f := op.splitOn ";"
  match kv f "q" with
  | none => runOne f (kv f "h") (kv f "p") impl
  | some q =>
    if impl == "err:load" || impl.endsWith "~unstable" then
      let a := runOne f (some "a") (some "/") impl
      if impl.endsWith "~unstable" then { model := a.model, verdict := "FAIL:lookup-depends-on-history", tags := ["batch"] }
      else { a with tags := a.tags ++ ["batch"] }
    else
      let probes := q.splitOn "~"
      let impls := impl.splitOn "~"
      let answers := (probes.zip (impls ++ List.replicate probes.length "")).map fun (pr, im) =>
        match pr.splitOn "|" with
        | [h, p] => runOne f (some h) (some p) im
        | _ => { model := "bad-op", verdict := "skip" }
      let bad := answers.find? (fun a => a.verdict.startsWith "FAIL")
      { model := "~".intercalate (answers.map (·.model))
        verdict := if impls.length != probes.length then "FAIL:batch-length" else match bad with | some a => a.verdict | none => "ok"
        tags := ["batch"] ++ ((answers.map (·.tags)).flatten.eraseDups) }

end BfeVerif.C11
