import BfeVerif.C11.Shapes
/-!
  C11 — basic route rules follow the documented precedence.  Property theorems only.
-/
namespace BfeVerif.C11

/-- Refinement, for ALL rule sets whose host patterns pass `checkHostInBasicRule` and ALL request hosts and
    paths: the two-level radix lookup (exact host tree, else longest wildcard key + single-label test, else the
    `""` key; exact path tree, else longest slash-terminated prefix) returns exactly what the documented
    precedence prescribes (`specBasic`: host class exact > one-label wildcard > any, only the first class with
    a matching host pattern is considered; inside it exact path > longest prefix pattern > none). -/
theorem C11_refines_triples (T : List Triple) (hv : ∀ t ∈ T, checkHost t.host = true)
    (host path : List Char) : treeGet (T.map flat) host path = specBasic T host path := by
  unfold treeGet specBasic
  rw [host_refines T hv host]
  simp only [specCands, withClass]
  by_cases h1 : (T.filter fun t => hostMatch t.host (normHost host) == some .exact).isEmpty = true
  · by_cases h2 : (T.filter fun t => hostMatch t.host (normHost host) == some .wild).isEmpty = true
    · by_cases h3 : (T.filter fun t => hostMatch t.host (normHost host) == some .any).isEmpty = true
      · simp [h1, h2, h3]
      · simp [h1, h2, h3, path_refines]
    · simp [h1, h2, path_refines]
  · simp [h1, path_refines]

/-- The same for every rule file the loader accepts (`loadOk` mirrors `convertBasicRule`): the tree built by
    `Insert` from the rules answers as documented. -/
theorem C11_refines (rules : List Rule) (hok : loadOk rules = true) (host path : List Char) :
    treeGet ((expand rules).map flat) host path = specBasic (expand rules) host path := by
  apply C11_refines_triples
  intro t ht
  simp only [loadOk, Bool.and_eq_true, List.all_eq_true] at hok
  simp only [expand, List.mem_flatMap, List.mem_map] at ht
  obtain ⟨r, hr, h, hh, p, _, rfl⟩ := ht
  have hrule := (hok.1 r hr).1.2
  simp only [orStar] at hh
  split at hh
  · simp at hh; subst hh; show checkHost ['*'] = true; decide
  · exact hrule h hh

/-- The path stage of the specification is the documentation's path-ELEMENT rule: the slash-terminated string
    prefix with the longest string, used by `specBasic`, selects the same rule as "the prefix pattern whose
    path elements start the request's path elements, with the most elements" (`specPathE`). -/
theorem C11_path_elements (cands : List Triple) (path : List Char) :
    specPathE cands path = specPath cands path := specPathE_eq cands path

/-- Refinement against the element-level specification. -/
theorem C11_refines_elements (rules : List Rule) (hok : loadOk rules = true) (host path : List Char) :
    treeGet ((expand rules).map flat) host path = specBasicE (expand rules) host path := by
  rw [specBasicE_eq]; exact C11_refines rules hok host path

/-- and at `LookupCluster` level (port removed first) -/
theorem C11_lookup_refines (rules : List Rule) (hok : loadOk rules = true) (host path : List Char) :
    lookupBasic ((expand rules).map flat) host path = specLookupBasic (expand rules) host path :=
  C11_refines rules hok (stripPort host) path

/-- Falling straight to the any-host rule is right: if the LONGEST stored wildcard key that is a prefix of the
    request key leaves a remainder containing a dot (more than one label), every shorter one does too. -/
theorem C11_single_label (key : List Char) (n' n : Nat) (h : n' ≤ n)
    (hd : (key.drop n).contains '.' = true) : (key.drop n').contains '.' = true :=
  contains_drop_mono key n' n h hd

/-- No fallback between host classes: once `hostTrees.get` has chosen the leaves of a host key, a path miss
    there is the final answer, whatever other host classes would have matched. -/
theorem C11_no_fallback (F E : List Flat) (host path : List Char)
    (hh : hostGet F host = some E) (hp : pathGet E path = none) : treeGet F host path = none := by
  simp [treeGet, hh, hp]

/-- and a host miss is a miss -/
theorem C11_host_miss (F : List Flat) (host path : List Char) (hh : hostGet F host = none) :
    treeGet F host path = none := by
  simp [treeGet, hh]

/-- `LookupCluster` ignores the port: everything after the first colon does not influence the answer. -/
theorem C11_port_ignored (F : List Flat) (h port path : List Char) (hh : ':' ∉ h) :
    lookupBasic F (h ++ ':' :: port) path = lookupBasic F h path := by
  simp [lookupBasic, stripPort_append h port hh, stripPort_self h hh]

/-- the same for the specification -/
theorem C11_spec_port_ignored (T : List Triple) (h port path : List Char) (hh : ':' ∉ h) :
    specLookupBasic T (h ++ ':' :: port) path = specLookupBasic T (h ++ [':']) path := by
  simp [specLookupBasic, stripPort_append h port hh, stripPort_append h [] hh]

/-! ### rule shapes: what the loader lets through, and what the accepted-but-undocumented shapes do -/

/-- `checkHostInBasicRule`: a host pattern is non-empty and `*` occurs only as the whole pattern or as the whole
    first label — `*est.com`, `*.*.com`, `a.*.com`, `` are rejected (examples below), as the documentation demands. -/
theorem C11_loader_host_shape (h : List Char) (hc : checkHost h = true) :
    h ≠ [] ∧ ('*' ∉ h ∨ h = ['*'] ∨ ∃ r, h = '*' :: '.' :: r ∧ '*' ∉ r) := checkHost_shape h hc

/-- `checkPathInBasicRule`: non-empty and `*` only as the last character — `/a*b`, `/*/*` are rejected; but
    `/fo*` and patterns without leading `/`, which the documentation calls illegal, are ACCEPTED. -/
theorem C11_loader_path_shape (p : List Char) (hc : checkPath p = true) :
    p ≠ [] ∧ ('*' ∉ p ∨ (p.getLast? = some '*' ∧ '*' ∉ p.dropLast)) := checkPath_shape p hc

/-- accepted `/fo*` is harmless: it is exactly the documented rule `/fo/*` (same tree key), so it matches `/fo`,
    `/fo/x` and never `/foo`. -/
theorem C11_slashless_prefix_is_element_rule (q : List Char) (hne : q ≠ []) (hq : q.getLast? ≠ some '/') :
    pathKey (q ++ ['*']) = pathKey (q ++ ['/', '*']) := pathKey_slashless q hne hq

/-- an accepted path pattern without leading `/` (other than the lone `*`) is dead for every absolute request path -/
theorem C11_relative_path_pattern_dead (p path : List Char) (hp : p.head? ≠ some '/') (hstar : p ≠ ['*'])
    (hpne : p ≠ []) (habs : path.head? = some '/') :
    (p == path) = false ∧ pathMatchPrefix p path = none := relative_pattern_dead p path hp hstar hpne habs

/-- an accepted exact host pattern containing `:` (`a.com:80`) is dead at `LookupCluster` (silently: the loader
    does not report it) -/
theorem C11_port_host_pattern_dead (p host : List Char) (hn : ∀ rest, p ≠ '*' :: rest) (hc : ':' ∈ p) :
    hostMatch p (normHost (stripPort host)) = none := port_pattern_dead p host hn hc

example : checkHost "*est.com".toList = false ∧ checkHost "*.*.com".toList = false ∧ checkHost "a.*.com".toList = false
    ∧ checkHost [] = false ∧ checkHost "*foo.com".toList = false := by decide
example : checkPath "/a*b".toList = false ∧ checkPath "/*/*".toList = false ∧ checkPath [] = false := by decide
-- accepted although route.md calls them illegal or does not mention them
example : checkPath "/fo*".toList = true ∧ checkPath "fo".toList = true ∧ checkPath "fo*".toList = true
    ∧ checkHost "a.com:80".toList = true ∧ checkHost "*.".toList = true ∧ checkHost ".a..com".toList = true := by decide

/-! ### the documentation's tables (docs/zh_cn/introduction/route.md), on model AND spec -/

def mk (rs : List (List String × List String × String)) : List Rule :=
  rs.map fun (h, p, c) => ⟨h.map String.toList, p.map String.toList, c⟩

def M (rs : List (List String × List String × String)) (h p : String) : Option String :=
  treeGet ((expand (mk rs)).map flat) h.toList p.toList

def S (rs : List (List String × List String × String)) (h p : String) : Option String :=
  specBasic (expand (mk rs)) h.toList p.toList

example : elemsOf "/a/b".toList = ["".toList, "a".toList, "b".toList] ∧ elemsOf "/a/b/".toList = elemsOf "/a/b".toList
    ∧ elemsOf "/".toList = ["".toList] ∧ elemsOf [] = [] := by decide

-- host table
example : M [(["*"], ["*"], "c")] "www.test1.com" "/" = some "c" ∧ S [(["*"], ["*"], "c")] "www.test1.com" "/" = some "c" := by decide
example : M [([], ["/x"], "c")] "www.test1.com" "/x" = some "c" ∧ S [([], ["/x"], "c")] "www.test1.com" "/x" = some "c" := by decide
example : M [(["*.test1.com"], [], "c")] "host.test1.com" "/" = some "c" ∧ S [(["*.test1.com"], [], "c")] "host.test1.com" "/" = some "c" := by decide
example : M [(["*.test1.com"], [], "c")] "vip.host.test1.com" "/" = none ∧ S [(["*.test1.com"], [], "c")] "vip.host.test1.com" "/" = none := by decide
example : M [(["*.test1.com"], [], "c")] "example.com" "/" = none ∧ S [(["*.test1.com"], [], "c")] "example.com" "/" = none := by decide
example : M [(["*.test1.com"], [], "c")] "test1.com" "/" = none ∧ S [(["*.test1.com"], [], "c")] "test1.com" "/" = none := by decide
-- path table
example : M [(["a"], ["*"], "c")] "a" "" = some "c" ∧ S [(["a"], ["*"], "c")] "a" "" = some "c" := by decide
example : M [(["a"], ["*"], "c")] "a" "/a/b" = some "c" ∧ S [(["a"], ["*"], "c")] "a" "/a/b" = some "c" := by decide
example : M [(["a"], ["/"], "c")] "a" "" = none ∧ S [(["a"], ["/"], "c")] "a" "" = none := by decide
example : M [(["a"], ["/"], "c")] "a" "/" = some "c" ∧ S [(["a"], ["/"], "c")] "a" "/" = some "c" := by decide
example : M [(["a"], ["/"], "c")] "a" "/a" = none ∧ S [(["a"], ["/"], "c")] "a" "/a" = none := by decide
example : M [(["a"], ["/*"], "c")] "a" "" = none ∧ S [(["a"], ["/*"], "c")] "a" "" = none := by decide
example : M [(["a"], ["/*"], "c")] "a" "/" = some "c" ∧ S [(["a"], ["/*"], "c")] "a" "/" = some "c" := by decide
example : M [(["a"], ["/*"], "c")] "a" "/a/b" = some "c" ∧ S [(["a"], ["/*"], "c")] "a" "/a/b" = some "c" := by decide
example : M [(["a"], ["/*"], "c")] "a" "/a/" = some "c" ∧ S [(["a"], ["/*"], "c")] "a" "/a/" = some "c" := by decide
example : M [(["a"], ["/a/b/*"], "c")] "a" "/a/b/c/d" = some "c" ∧ S [(["a"], ["/a/b/*"], "c")] "a" "/a/b/c/d" = some "c" := by decide
example : M [(["a"], ["/a/b/*"], "c")] "a" "/a/b" = some "c" ∧ S [(["a"], ["/a/b/*"], "c")] "a" "/a/b" = some "c" := by decide
example : M [(["a"], ["/a/b/*"], "c")] "a" "/a/c" = none ∧ S [(["a"], ["/a/b/*"], "c")] "a" "/a/c" = none := by decide
example : M [(["a"], ["/a/b/*"], "c")] "a" "/a/" = none ∧ S [(["a"], ["/a/b/*"], "c")] "a" "/a/" = none := by decide

/-- the worked example of route.md (rules 1–4, request vip.b.test1.com/interface/d → rule 2) -/
def docRules : List (List String × List String × String) :=
  [(["*.test1.com"], [], "Static1"), (["*.b.test1.com"], ["/interface/*"], "Php2"),
   (["*.b.test1.com"], ["/*"], "Static3"), (["www.test1.com"], ["/interface/d"], "Php4")]

example : loadOk (mk docRules) = true := by decide
example : M docRules "vip.b.test1.com" "/interface/d" = some "Php2" ∧ S docRules "vip.b.test1.com" "/interface/d" = some "Php2" := by decide
example : M docRules "VIP.B.Test1.com." "/other" = some "Static3" ∧ S docRules "VIP.B.Test1.com." "/other" = some "Static3" := by decide
-- no fallback: exact host class chosen, its only path does not match, the wildcard rule 1 is NOT consulted
example : M docRules "www.test1.com" "/x" = none ∧ S docRules "www.test1.com" "/x" = none := by decide
-- `/fo*` behaves as `/fo/*`
example : M [(["a"], ["/fo*"], "c")] "a" "/foo" = none ∧ M [(["a"], ["/fo*"], "c")] "a" "/fo/x" = some "c"
    ∧ M [(["a"], ["/fo*"], "c")] "a" "/fo" = some "c" := by decide
-- two labels under *.test1.com: not a wildcard match, and there is no any-host rule
example : M docRules "a.c.test1.com" "/" = none ∧ S docRules "a.c.test1.com" "/" = none := by decide

end BfeVerif.C11
