import BfeVerif.C11.Model
namespace BfeVerif.C11

theorem contains_drop_mono (key : List Char) (n' n : Nat) (h : n' ≤ n)
    (hd : (key.drop n).contains '.' = true) : (key.drop n').contains '.' = true := by
  rw [List.contains_iff_mem] at hd ⊢
  have : key.drop n = (key.drop n').drop (n - n') := by
    rw [List.drop_drop]; congr 1; omega
  rw [this] at hd
  exact List.mem_of_mem_drop hd

theorem stripPort_append (h port : List Char) (hh : ':' ∉ h) : stripPort (h ++ ':' :: port) = h := by
  induction h with
  | nil => simp [stripPort]
  | cons c cs ih =>
    have hc : c ≠ ':' := fun e => hh (by simp [e])
    have hcs : ':' ∉ cs := fun e => hh (by simp [e])
    have ih' := ih hcs
    simp [stripPort] at ih' ⊢
    simp [hc, ih']

theorem stripPort_self (h : List Char) (hh : ':' ∉ h) : stripPort h = h := by
  induction h with
  | nil => simp [stripPort]
  | cons c cs ih =>
    have hc : c ≠ ':' := fun e => hh (by simp [e])
    have hcs : ':' ∉ cs := fun e => hh (by simp [e])
    have ih' := ih hcs
    simp [stripPort] at ih' ⊢
    simp [hc, ih']


/-! ### the radix contract of `longestPrefixKey` -/

theorem lpkAux_some (keys : List (List Char)) (k : List Char) (n : Nat) (p : List Char)
    (h : lpkAux keys k n = some p) :
    p ∈ keys ∧ ∃ m, m ≤ n ∧ p = k.take m ∧ ∀ m', m < m' → m' ≤ n → k.take m' ∉ keys := by
  induction n with
  | zero =>
    simp only [lpkAux] at h
    split at h
    · next hc =>
      injection h with h; subst h
      exact ⟨List.contains_iff_mem.mp hc, 0, Nat.le_refl 0, by simp, fun m' h1 h2 => by omega⟩
    · cases h
  | succ n ih =>
    simp only [lpkAux] at h
    split at h
    · next hc =>
      injection h with h; subst h
      exact ⟨List.contains_iff_mem.mp hc, n + 1, Nat.le_refl _, rfl, fun m' h1 h2 => by omega⟩
    · next hc =>
      obtain ⟨hm, m, hmn, hp, hall⟩ := ih h
      refine ⟨hm, m, by omega, hp, fun m' h1 h2 => ?_⟩
      by_cases he : m' = n + 1
      · subst he; intro hmem; exact hc (List.contains_iff_mem.mpr hmem)
      · exact hall m' h1 (by omega)

theorem lpkAux_none (keys : List (List Char)) (k : List Char) (n : Nat)
    (h : lpkAux keys k n = none) : ∀ m, m ≤ n → k.take m ∉ keys := by
  induction n with
  | zero =>
    simp only [lpkAux] at h
    split at h
    · cases h
    · next hc =>
      intro m hm hmem
      have : m = 0 := by omega
      subst this
      exact hc (List.contains_iff_mem.mpr (by simpa using hmem))
  | succ n ih =>
    simp only [lpkAux] at h
    split at h
    · cases h
    · next hc =>
      intro m hm
      by_cases he : m = n + 1
      · subst he; intro hmem; exact hc (List.contains_iff_mem.mpr hmem)
      · exact ih h m (by omega)

theorem prefix_eq_take {q k : List Char} (h : q <+: k) : q = k.take q.length := by
  obtain ⟨t, rfl⟩ := h
  simp

/-- `LongestPrefix`: a stored key, a prefix, and no stored prefix is longer -/
theorem longestPrefixKey_some {keys : List (List Char)} {k p : List Char}
    (h : longestPrefixKey keys k = some p) :
    p ∈ keys ∧ p <+: k ∧ ∀ q ∈ keys, q <+: k → q.length ≤ p.length := by
  obtain ⟨hm, m, hmn, hp, hall⟩ := lpkAux_some keys k k.length p h
  refine ⟨hm, by rw [hp]; exact List.take_prefix m k, fun q hq hqk => ?_⟩
  have hql : q.length ≤ k.length := List.IsPrefix.length_le hqk
  have hpl : p.length = m := by rw [hp]; simp; omega
  by_cases hlt : q.length ≤ m
  · omega
  · exfalso
    exact hall q.length (by omega) hql (by rw [← prefix_eq_take hqk]; exact hq)

theorem longestPrefixKey_none {keys : List (List Char)} {k : List Char}
    (h : longestPrefixKey keys k = none) : ∀ q ∈ keys, ¬ q <+: k := by
  intro q hq hqk
  have hql : q.length ≤ k.length := List.IsPrefix.length_le hqk
  exact lpkAux_none keys k k.length h q.length hql (by rw [← prefix_eq_take hqk]; exact hq)

theorem prefix_eq_of_length_eq {a b k : List Char} (ha : a <+: k) (hb : b <+: k)
    (hl : a.length = b.length) : a = b := by
  rw [prefix_eq_take ha, prefix_eq_take hb, hl]


/-! ### path stage -/

theorem find?_congr' {α} {p q : α → Bool} (l : List α) (h : ∀ x ∈ l, p x = q x) :
    l.find? p = l.find? q := by
  induction l with
  | nil => rfl
  | cons a l ih =>
    have ha : p a = q a := h a (by simp)
    have ih' := ih (fun x hx => h x (by simp [hx]))
    simp only [List.find?_cons, ha, ih']

theorem flat_cluster (t : Triple) : (flat t).cluster = t.cluster := rfl

theorem flat_exact_path (t : Triple) (path : List Char) :
    (!(flat t).pw && (flat t).pk == path) = (t.path.getLast? != some '*' && t.path == path) := by
  simp only [flat, pathKey]
  by_cases h : t.path.getLast? = some '*'
  · simp [h]
  · simp [h]

theorem score_eq (t : Triple) (path : List Char) :
    pathMatchPrefix t.path path =
      if (flat t).pw = true ∧ (flat t).pk <+: ensureSlash path then some (flat t).pk.length else none := by
  simp only [pathMatchPrefix, pathPrefix, flat, pathKey]
  by_cases h : (t.path.getLast? == some '*') = true
  · simp only [h, if_true, true_and, List.isPrefixOf_iff_prefix]
  · simp [h]

theorem mem_pwKeys (C : List Triple) (k : List Char) :
    k ∈ ((C.map flat).filter (·.pw)).map (·.pk) ↔ ∃ t ∈ C, (flat t).pw = true ∧ (flat t).pk = k := by
  simp only [List.mem_map, List.mem_filter]
  constructor
  · rintro ⟨f, ⟨⟨t, ht, rfl⟩, hpw⟩, rfl⟩
    exact ⟨t, ht, hpw, rfl⟩
  · rintro ⟨t, ht, hpw, rfl⟩
    exact ⟨flat t, ⟨⟨t, ht, rfl⟩, hpw⟩, rfl⟩

theorem path_refines (C : List Triple) (path : List Char) :
    pathGet (C.map flat) path = specPath C path := by
  unfold pathGet specPath
  rw [List.find?_map]
  have hex : ((fun f : Flat => !f.pw && f.pk == path) ∘ flat) =
      fun t : Triple => (t.path.getLast? != some '*' && t.path == path) := by
    funext t; exact flat_exact_path t path
  rw [hex]
  cases hf : C.find? (fun t : Triple => (t.path.getLast? != some '*' && t.path == path)) with
  | some t => rfl
  | none =>
    simp only [Option.map_none]
    cases hl : longestPrefixKey (((C.map flat).filter (·.pw)).map (·.pk)) (ensureSlash path) with
    | none =>
      have hn := longestPrefixKey_none hl
      have : C.find? (isBest C path) = none := by
        rw [List.find?_eq_none]
        intro t ht
        have hs : pathMatchPrefix t.path path = none := by
          rw [score_eq]
          have : ¬ ((flat t).pw = true ∧ (flat t).pk <+: ensureSlash path) := by
            rintro ⟨h1, h2⟩
            exact hn _ ((mem_pwKeys C _).mpr ⟨t, ht, h1, rfl⟩) h2
          simp [this]
        simp [isBest, hs]
      simp [this]
    | some mp =>
      obtain ⟨hmem, hpre, hmax⟩ := longestPrefixKey_some hl
      simp only [List.find?_map, Option.map_map]
      have hc : ∀ t ∈ C, (((fun f : Flat => f.pw && f.pk == mp) ∘ flat) t) = isBest C path t := by
        intro t ht
        obtain ⟨u, hu, hupw, hupk⟩ := (mem_pwKeys C mp).mp hmem
        have hus : pathMatchPrefix u.path path = some mp.length := by
          rw [score_eq, hupk]; simp [hupw, hpre]
        simp only [Function.comp, isBest]
        by_cases hb : (flat t).pw = true ∧ (flat t).pk = mp
        · -- t carries the longest key: nobody scores higher
          have hts : pathMatchPrefix t.path path = some mp.length := by
            rw [score_eq, hb.2]; simp [hb.1, hpre]
          have hall : (C.all fun v => scoreLe (pathMatchPrefix v.path path) (pathMatchPrefix t.path path)) = true := by
            rw [List.all_eq_true]
            intro v hv
            rw [hts, score_eq]
            by_cases hvm : (flat v).pw = true ∧ (flat v).pk <+: ensureSlash path
            · have := hmax _ ((mem_pwKeys C _).mpr ⟨v, hv, hvm.1, rfl⟩) hvm.2
              simp [hvm, scoreLe, this]
            · simp [hvm, scoreLe]
          rw [hall, hts]; simp [hb.1, hb.2]
        · have hlhs : ((flat t).pw && (flat t).pk == mp) = false := by
            by_cases h1 : (flat t).pw = true
            · have : (flat t).pk ≠ mp := fun h2 => hb ⟨h1, h2⟩
              simp [h1, this]
            · simp [h1]
          rw [hlhs]
          symm
          -- t is not best: either no score, or u scores strictly higher
          by_cases htm : (flat t).pw = true ∧ (flat t).pk <+: ensureSlash path
          · have hts : pathMatchPrefix t.path path = some (flat t).pk.length := by
              rw [score_eq]; simp [htm]
            have hle := hmax _ ((mem_pwKeys C _).mpr ⟨t, ht, htm.1, rfl⟩) htm.2
            have hne : (flat t).pk.length ≠ mp.length := fun he =>
              hb ⟨htm.1, prefix_eq_of_length_eq htm.2 hpre he⟩
            have : (C.all fun v => scoreLe (pathMatchPrefix v.path path) (pathMatchPrefix t.path path)) = false := by
              rw [List.all_eq_false]
              refine ⟨u, hu, ?_⟩
              rw [hus, hts]
              simp [scoreLe]; omega
            simp [this]
          · have hts : pathMatchPrefix t.path path = none := by
              rw [score_eq]; simp [htm]
            simp [hts]
      rw [find?_congr' C hc]
      cases C.find? (isBest C path) <;> rfl


/-! ### host stage -/

theorem reverseFqdn_eq (s : List Char) : reverseFqdn s = (dropTrailingDot s).reverse := by
  unfold reverseFqdn dropTrailingDot
  split
  · next r h => simp
  · rfl

theorem key_eq (x : List Char) : upper (reverseFqdn x) = (normHost x).reverse := by
  simp [upper, normHost, reverseFqdn_eq, List.map_reverse]

theorem star_cases (h : List Char) : (∃ rest, h = '*' :: rest) ∨ (∀ rest, h ≠ '*' :: rest) := by
  cases h with
  | nil => right; intro rest; simp
  | cons c cs =>
    by_cases hc : c = '*'
    · left; exact ⟨cs, by rw [hc]⟩
    · right; intro rest he; injection he with h1 _; exact hc h1

theorem hostKey_star (rest : List Char) : hostKey ('*' :: rest) = (true, (normHost rest).reverse) := by
  simp [hostKey, key_eq]

theorem hostKey_nostar (h : List Char) (hn : ∀ rest, h ≠ '*' :: rest) :
    hostKey h = (false, (normHost h).reverse) := by
  unfold hostKey
  split
  · next rest => exact absurd rfl (hn rest)
  · simp [key_eq]

/-- the wildcard test of the spec, on keys -/
def wildKey (s H : List Char) : Prop :=
  s.reverse <+: H.reverse ∧ (H.reverse.drop s.reverse.length).contains '.' = false

instance (s H : List Char) : Decidable (wildKey s H) := by unfold wildKey; infer_instance

theorem suffix_iff (s H : List Char) :
    s <:+ H ↔ s.length ≤ H.length ∧ H.drop (H.length - s.length) = s := by
  constructor
  · rintro ⟨t, rfl⟩
    refine ⟨by simp, ?_⟩
    simp
  · rintro ⟨_, h2⟩
    refine ⟨H.take (H.length - s.length), ?_⟩
    have := List.take_append_drop (H.length - s.length) H
    rw [h2] at this; exact this

theorem wild_cond_iff (s H : List Char) :
    (decide (s.length ≤ H.length) && H.drop (H.length - s.length) == s &&
        !(H.take (H.length - s.length)).contains '.') = true ↔ wildKey s H := by
  unfold wildKey
  rw [List.reverse_prefix, suffix_iff]
  have hd : H.reverse.drop s.reverse.length = (H.take (H.length - s.length)).reverse := by
    rw [List.length_reverse, List.drop_reverse]
  have hc : ∀ l : List Char, l.reverse.contains '.' = l.contains '.' := by
    intro l
    cases h1 : l.contains '.' with
    | true => rw [List.contains_iff_mem] at h1 ⊢; simpa using h1
    | false =>
      cases h2 : l.reverse.contains '.' with
      | false => rfl
      | true =>
        rw [List.contains_iff_mem] at h2
        have : l.contains '.' = true := List.contains_iff_mem.mpr (by simpa using h2)
        rw [h1] at this; cases this
  rw [hd, hc]
  simp only [Bool.and_eq_true, decide_eq_true_eq, beq_iff_eq, Bool.not_eq_true']

theorem hostMatch_star (rest H : List Char) :
    hostMatch ('*' :: rest) H =
      if (normHost rest) = [] then some .any
      else if wildKey (normHost rest) H then some .wild else none := by
  simp only [hostMatch]
  by_cases he : normHost rest = []
  · simp [he]
  · have : (normHost rest).isEmpty = false := by
      cases h : normHost rest with
      | nil => exact absurd h he
      | cons a b => rfl
    simp only [this, he, if_false]
    by_cases hw : wildKey (normHost rest) H
    · have := (wild_cond_iff (normHost rest) H).mpr hw
      simp only [Bool.false_eq_true, if_false, this, if_true, hw]
    · have : ¬ ((decide ((normHost rest).length ≤ H.length) &&
          H.drop (H.length - (normHost rest).length) == normHost rest &&
          !(H.take (H.length - (normHost rest).length)).contains '.') = true) :=
        fun h => hw ((wild_cond_iff _ _).mp h)
      simp only [Bool.false_eq_true, if_false, this, hw]

theorem hostMatch_nostar (h H : List Char) (hn : ∀ rest, h ≠ '*' :: rest) :
    hostMatch h H = if normHost h = H then some .exact else none := by
  unfold hostMatch
  split
  · next rest => exact absurd rfl (hn rest)
  · by_cases he : normHost h = H <;> simp [he]


theorem dtd_cases (s : List Char) : dropTrailingDot s = s ∨ s = dropTrailingDot s ++ ['.'] := by
  unfold dropTrailingDot
  split
  · next r h =>
    right
    have := congrArg List.reverse h
    simpa using this
  · left; rfl

theorem upperC_dot : upperC '.' = '.' := by decide

/-- a wildcard host pattern accepted by `checkHostInBasicRule` has key `""` or a key ending in a dot -/
theorem valid_star_key (rest : List Char) (hv : checkHost ('*' :: rest) = true) :
    normHost rest = [] ∨ (normHost rest).head? = some '.' := by
  have hr : rest = [] ∨ ∃ r, rest = '.' :: r := by
    simp only [checkHost, count, List.filter_cons] at hv
    cases rest with
    | nil => left; rfl
    | cons c cs =>
      right
      by_cases hc : c = '.'
      · exact ⟨cs, by rw [hc]⟩
      · exfalso
        simp at hv
        obtain ⟨h1, h2⟩ := hv
        rcases h2 with h2 | h2
        · exact h1.2 _ (h2 h1.1) rfl
        · exact hc h2.symm
  rcases hr with rfl | ⟨r, rfl⟩
  · left; rfl
  · rcases dtd_cases ('.' :: r) with h | h
    · right; simp [normHost, h, upper, upperC_dot]
    · cases hd : dropTrailingDot ('.' :: r) with
      | nil => left; simp [normHost, hd, upper]
      | cons a b =>
        rw [hd] at h
        injection h with h1 _
        right; simp [normHost, hd, upper, ← h1, upperC_dot]

theorem mem_hwKeys (T : List Triple) (k : List Char) :
    k ∈ ((T.map flat).filter (·.hw)).map (·.hk) ↔ ∃ t ∈ T, (flat t).hw = true ∧ (flat t).hk = k := by
  simp only [List.mem_map, List.mem_filter]
  constructor
  · rintro ⟨f, ⟨⟨t, ht, rfl⟩, hpw⟩, rfl⟩
    exact ⟨t, ht, hpw, rfl⟩
  · rintro ⟨t, ht, hpw, rfl⟩
    exact ⟨flat t, ⟨⟨t, ht, rfl⟩, hpw⟩, rfl⟩

theorem flat_hw_star (t : Triple) (rest : List Char) (h : t.host = '*' :: rest) :
    (flat t).hw = true ∧ (flat t).hk = (normHost rest).reverse := by
  simp [flat, h, hostKey_star]

theorem flat_hw_nostar (t : Triple) (h : ∀ rest, t.host ≠ '*' :: rest) :
    (flat t).hw = false ∧ (flat t).hk = (normHost t.host).reverse := by
  simp [flat, hostKey_nostar _ h]

/-- exact leaves = exact class -/
theorem exact_pointwise (t : Triple) (H : List Char) :
    (!(flat t).hw && (flat t).hk == H.reverse) = (hostMatch t.host H == some .exact) := by
  rcases star_cases t.host with ⟨rest, h⟩ | h
  · rw [(flat_hw_star t rest h).1, h, hostMatch_star]
    by_cases h1 : normHost rest = []
    · simp [h1]
    · by_cases h2 : wildKey (normHost rest) H <;> simp [h1, h2]
  · rw [(flat_hw_nostar t h).1, (flat_hw_nostar t h).2, hostMatch_nostar _ _ h]
    by_cases h1 : normHost t.host = H
    · simp [h1]
    · have : ¬ ((normHost t.host).reverse = H.reverse) := fun e => h1 (List.reverse_inj.mp e)
      simp [h1, this]

/-- leaves under the key `""` of the wildcard tree = any class -/
theorem any_pointwise (t : Triple) (H : List Char) :
    ((flat t).hw && (flat t).hk == []) = (hostMatch t.host H == some .any) := by
  rcases star_cases t.host with ⟨rest, h⟩ | h
  · rw [(flat_hw_star t rest h).1, (flat_hw_star t rest h).2, h, hostMatch_star]
    by_cases h1 : normHost rest = []
    · simp [h1]
    · have he : (normHost rest).isEmpty = false := by
        cases h' : normHost rest with
        | nil => exact absurd h' h1
        | cons a b => rfl
      by_cases h2 : wildKey (normHost rest) H
      · simp [h1, h2, he]
      · simp [h1, h2, he]
  · rw [(flat_hw_nostar t h).1, hostMatch_nostar _ _ h]
    by_cases h1 : normHost t.host = H <;> simp [h1]

/-- what a wildcard-class match means on keys -/
theorem wild_iff (t : Triple) (H : List Char) :
    hostMatch t.host H = some .wild ↔
      (flat t).hw = true ∧ (flat t).hk ≠ [] ∧ (flat t).hk <+: H.reverse ∧
        (H.reverse.drop (flat t).hk.length).contains '.' = false := by
  rcases star_cases t.host with ⟨rest, h⟩ | h
  · rw [(flat_hw_star t rest h).1, (flat_hw_star t rest h).2, h, hostMatch_star]
    by_cases h1 : normHost rest = []
    · simp [h1]
    · by_cases h2 : wildKey (normHost rest) H
      · simp only [h1, h2, if_false, if_true, true_and, ne_eq, List.reverse_eq_nil_iff, not_false_eq_true]
        exact ⟨fun _ => h2, fun _ => trivial⟩
      · simp only [h1, h2, if_false, true_and, ne_eq, List.reverse_eq_nil_iff, not_false_eq_true]
        constructor
        · intro h3; cases h3
        · intro h3; exact absurd h3 h2
  · rw [(flat_hw_nostar t h).1, hostMatch_nostar _ _ h]
    by_cases h1 : normHost t.host = H <;> simp [h1]


def withClass (T : List Triple) (H : List Char) (c : HostClass) : List Triple :=
  T.filter fun t => hostMatch t.host H == some c

abbrev hwKeys (T : List Triple) : List (List Char) := ((T.map flat).filter (·.hw)).map (·.hk)

theorem wild_none (T : List Triple) (H : List Char)
    (h : longestPrefixKey (hwKeys T) H.reverse = none) :
    withClass T H .wild = [] ∧ withClass T H .any = [] := by
  have hn := longestPrefixKey_none h
  constructor
  · rw [withClass, List.filter_eq_nil_iff]
    intro t ht hm
    have hm' : hostMatch t.host H = some .wild := by simpa using hm
    obtain ⟨h1, _, h3, _⟩ := (wild_iff t H).mp hm'
    exact hn _ ((mem_hwKeys T _).mpr ⟨t, ht, h1, rfl⟩) h3
  · rw [withClass, List.filter_eq_nil_iff]
    intro t ht hm
    rw [← any_pointwise] at hm
    simp only [Bool.and_eq_true, beq_iff_eq] at hm
    exact hn _ ((mem_hwKeys T _).mpr ⟨t, ht, hm.1, hm.2⟩) (List.nil_prefix)

theorem wild_dotted (T : List Triple) (H mp : List Char)
    (h : longestPrefixKey (hwKeys T) H.reverse = some mp)
    (hd : (H.reverse.drop mp.length).contains '.' = true) : withClass T H .wild = [] := by
  obtain ⟨_, _, hmax⟩ := longestPrefixKey_some h
  rw [withClass, List.filter_eq_nil_iff]
  intro t ht hm
  have hm' : hostMatch t.host H = some .wild := by simpa using hm
  obtain ⟨h1, _, h3, h4⟩ := (wild_iff t H).mp hm'
  have hle := hmax _ ((mem_hwKeys T _).mpr ⟨t, ht, h1, rfl⟩) h3
  have := contains_drop_mono _ _ _ hle hd
  rw [h4] at this; cases this

theorem wild_mp_nil (T : List Triple) (H : List Char)
    (h : longestPrefixKey (hwKeys T) H.reverse = some []) :
    withClass T H .wild = [] ∧ withClass T H .any ≠ [] := by
  obtain ⟨hmem, _, hmax⟩ := longestPrefixKey_some h
  constructor
  · rw [withClass, List.filter_eq_nil_iff]
    intro t ht hm
    have hm' : hostMatch t.host H = some .wild := by simpa using hm
    obtain ⟨h1, h2, h3, _⟩ := (wild_iff t H).mp hm'
    have hle := hmax _ ((mem_hwKeys T _).mpr ⟨t, ht, h1, rfl⟩) h3
    exact h2 (List.eq_nil_of_length_eq_zero (by simpa using hle))
  · obtain ⟨u, hu, huw, huk⟩ := (mem_hwKeys T _).mp hmem
    intro he
    have : u ∈ withClass T H .any := by
      rw [withClass, List.mem_filter]
      refine ⟨hu, ?_⟩
      rw [← any_pointwise]; simp [huw, huk]
    rw [he] at this; cases this

theorem wild_mp_cons (T : List Triple) (hv : ∀ t ∈ T, checkHost t.host = true) (H mp : List Char)
    (h : longestPrefixKey (hwKeys T) H.reverse = some mp) (hne : mp ≠ [])
    (hd : (H.reverse.drop mp.length).contains '.' = false) :
    (∀ t ∈ T, ((flat t).hw && (flat t).hk == mp) = (hostMatch t.host H == some .wild)) ∧
      withClass T H .wild ≠ [] := by
  obtain ⟨hmem, hpre, hmax⟩ := longestPrefixKey_some h
  obtain ⟨u, hu, huw, huk⟩ := (mem_hwKeys T _).mp hmem
  -- the longest key ends in a dot
  have hlast : mp.getLast? = some '.' := by
    rcases star_cases u.host with ⟨rest, hr⟩ | hr
    · have hk := (flat_hw_star u rest hr).2
      have hvu := hv u hu
      rw [hr] at hvu
      rcases valid_star_key rest hvu with h0 | h0
      · exfalso; apply hne; rw [← huk, hk, h0]; rfl
      · rw [← huk, hk, List.getLast?_reverse]; exact h0
    · have := (flat_hw_nostar u hr).1
      rw [huw] at this; cases this
  have hpt : ∀ t ∈ T, ((flat t).hw && (flat t).hk == mp) = (hostMatch t.host H == some .wild) := by
    intro t ht
    by_cases hb : (flat t).hw = true ∧ (flat t).hk = mp
    · have : hostMatch t.host H = some .wild :=
        (wild_iff t H).mpr ⟨hb.1, by rw [hb.2]; exact hne, by rw [hb.2]; exact hpre, by rw [hb.2]; exact hd⟩
      simp [hb.1, hb.2, this]
    · have hl : ((flat t).hw && (flat t).hk == mp) = false := by
        by_cases h1 : (flat t).hw = true
        · have : (flat t).hk ≠ mp := fun h2 => hb ⟨h1, h2⟩
          simp [h1, this]
        · simp [h1]
      rw [hl]
      symm
      cases hm : hostMatch t.host H == some .wild with
      | false => rfl
      | true =>
        exfalso
        have hm' : hostMatch t.host H = some .wild := by simpa using hm
        obtain ⟨h1, h2, h3, h4⟩ := (wild_iff t H).mp hm'
        have hle := hmax _ ((mem_hwKeys T _).mpr ⟨t, ht, h1, rfl⟩) h3
        by_cases heq : (flat t).hk.length = mp.length
        · exact hb ⟨h1, prefix_eq_of_length_eq h3 hpre heq⟩
        · have hpp : (flat t).hk <+: mp := List.prefix_of_prefix_length_le h3 hpre hle
          obtain ⟨x, hx⟩ := hpp
          obtain ⟨r, hr⟩ := hpre
          have hxne : x ≠ [] := by
            intro hx0; rw [hx0, List.append_nil] at hx; exact heq (by rw [hx])
          have hxl : x.getLast? = some '.' := by
            rw [← hx, List.getLast?_append] at hlast
            cases hxg : x.getLast? with
            | none => exact absurd (List.getLast?_eq_none_iff.mp hxg) hxne
            | some c => rw [hxg] at hlast; simpa using hlast
          have hdot : '.' ∈ x := List.mem_of_getLast? hxl
          have hdrop : H.reverse.drop (flat t).hk.length = x ++ r := by
            rw [← hr, ← hx, List.append_assoc, List.drop_left]
          rw [hdrop] at h4
          have : (x ++ r).contains '.' = true := List.contains_iff_mem.mpr (by simp [hdot])
          rw [h4] at this; cases this
  refine ⟨hpt, ?_⟩
  intro he
  have : u ∈ withClass T H .wild := by
    rw [withClass, List.mem_filter]
    refine ⟨hu, ?_⟩
    rw [← hpt u hu]; simp [huw, huk]
  rw [he] at this; cases this


/-- the candidates the documentation prescribes: the rules of the first host class (exact > wildcard > any)
    that has a matching host pattern -/
def specCands (T : List Triple) (H : List Char) : Option (List Triple) :=
  if !(withClass T H .exact).isEmpty then some (withClass T H .exact)
  else if !(withClass T H .wild).isEmpty then some (withClass T H .wild)
  else if !(withClass T H .any).isEmpty then some (withClass T H .any)
  else none

theorem filter_flat (T : List Triple) (p : Flat → Bool) (q : Triple → Bool)
    (h : ∀ t ∈ T, p (flat t) = q t) : (T.map flat).filter p = (T.filter q).map flat := by
  rw [List.filter_map]
  congr 1
  exact List.filter_congr h

theorem isEmpty_map_flat (l : List Triple) : (l.map flat).isEmpty = l.isEmpty := by
  cases l <;> rfl

theorem isEmpty_false_of_ne {α} {l : List α} (h : l ≠ []) : l.isEmpty = false := by
  cases l with
  | nil => exact absurd rfl h
  | cons a b => rfl

theorem host_refines (T : List Triple) (hv : ∀ t ∈ T, checkHost t.host = true) (host : List Char) :
    hostGet (T.map flat) host = (specCands T (normHost host)).map (List.map flat) := by
  unfold hostGet
  simp only [key_eq]
  generalize normHost host = H
  have hE : (T.map flat).filter (fun f => !f.hw && f.hk == H.reverse) = (withClass T H .exact).map flat :=
    filter_flat T _ _ (fun t _ => exact_pointwise t H)
  have hA : (T.map flat).filter (fun f => f.hw && f.hk == []) = (withClass T H .any).map flat :=
    filter_flat T _ _ (fun t _ => any_pointwise t H)
  rw [hE, hA]
  unfold specCands
  simp only [isEmpty_map_flat]
  by_cases hex : (withClass T H .exact).isEmpty = true
  · simp only [hex, Bool.not_true, Bool.false_eq_true, if_false]
    cases hl : longestPrefixKey (hwKeys T) H.reverse with
    | none =>
      obtain ⟨hw, ha⟩ := wild_none T H hl
      simp [hw, ha]
    | some mp =>
      simp only []
      by_cases hd : (H.reverse.drop mp.length).contains '.' = true
      · have hw := wild_dotted T H mp hl hd
        simp only [hd, if_true, hw, List.isEmpty_nil, Bool.not_true, Bool.false_eq_true, if_false]
        by_cases ha : (withClass T H .any).isEmpty = true <;> simp [ha]
      · have hd' : (H.reverse.drop mp.length).contains '.' = false := by
          cases h : (H.reverse.drop mp.length).contains '.' with
          | true => exact absurd h hd
          | false => rfl
        simp only [hd', Bool.false_eq_true, if_false]
        by_cases hmp : mp = []
        · subst hmp
          obtain ⟨hw, ha⟩ := wild_mp_nil T H hl
          rw [hA]
          simp [hw, isEmpty_false_of_ne ha]
        · obtain ⟨hpt, hne⟩ := wild_mp_cons T hv H mp hl hmp hd'
          have hW : (T.map flat).filter (fun f => f.hw && f.hk == mp) = (withClass T H .wild).map flat :=
            filter_flat T _ _ hpt
          rw [hW]
          simp [isEmpty_false_of_ne hne]
  · have hex' : (withClass T H .exact).isEmpty = false := by
      cases h : (withClass T H .exact).isEmpty with
      | true => exact absurd h hex
      | false => rfl
    simp [hex']

end BfeVerif.C11
