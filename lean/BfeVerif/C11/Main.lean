import BfeVerif.C11.Driver
def main : IO Unit := BfeVerif.Proto.driverMain BfeVerif.C11.run
