import BfeVerif.C11.PathElems
/-! C11: rule shapes the loader accepts although docs/zh_cn/introduction/route.md calls them illegal. -/
namespace BfeVerif.C11

theorem ensureSlash_of_not_slash (q : List Char) (hne : q ≠ []) (hq : q.getLast? ≠ some '/') :
    ensureSlash q = q ++ ['/'] := by
  unfold ensureSlash
  have h1 : q.isEmpty = false := by cases q with | nil => exact absurd rfl hne | cons a b => rfl
  have h2 : (q.getLast? != some '/') = true := by simpa using hq
  simp [h1, h2]

theorem ensureSlash_of_slash (q : List Char) (hq : q.getLast? = some '/') : ensureSlash q = q := by
  unfold ensureSlash
  simp [hq]

/-- `/fo*` is the rule `/fo/*` -/
theorem pathKey_slashless (q : List Char) (hne : q ≠ []) (hq : q.getLast? ≠ some '/') :
    pathKey (q ++ ['*']) = pathKey (q ++ ['/', '*']) := by
  have h1 : (q ++ ['*']).getLast? = some '*' := by simp
  have h2 : (q ++ ['/', '*']).getLast? = some '*' := by simp
  have h3 : (q ++ ['/', '*']).dropLast = q ++ ['/'] := by
    have : q ++ ['/', '*'] = (q ++ ['/']) ++ ['*'] := by simp
    rw [this, List.dropLast_concat]
  have h4 : (q ++ ['*']).dropLast = q := List.dropLast_concat
  simp only [pathKey, h1, h2, h3, h4, beq_self_eq_true, if_true]
  rw [ensureSlash_of_not_slash q hne hq, ensureSlash_of_slash (q ++ ['/']) (by simp)]

theorem head_ensureSlash (q : List Char) (hne : q ≠ []) : (ensureSlash q).head? = q.head? := by
  unfold ensureSlash
  split
  · cases q with
    | nil => exact absurd rfl hne
    | cons a b => rfl
  · rfl

/-- a path pattern that does not start with `/` (and is not the lone `*`) never matches an absolute path -/
theorem relative_pattern_dead (p path : List Char) (hp : p.head? ≠ some '/') (hstar : p ≠ ['*'])
    (hpne : p ≠ []) (habs : path.head? = some '/') :
    (p == path) = false ∧ pathMatchPrefix p path = none := by
  constructor
  · have : p ≠ path := by intro e; rw [e] at hp; exact hp habs
    simpa using this
  · unfold pathMatchPrefix pathPrefix
    by_cases hl : p.getLast? = some '*'
    · simp only [hl, beq_self_eq_true, if_true]
      have hq : p.dropLast ≠ [] := by
        intro hq
        apply hstar
        cases p with
        | nil => exact absurd rfl hpne
        | cons a b =>
          cases b with
          | nil => simp at hl; rw [hl]
          | cons c d => simp at hq
      have hh : (ensureSlash p.dropLast).head? ≠ some '/' := by
        rw [head_ensureSlash _ hq]
        cases p with
        | nil => exact absurd rfl hpne
        | cons a b =>
          cases b with
          | nil => simp at hq
          | cons c d => simpa using hp
      have : (ensureSlash p.dropLast).isPrefixOf (ensureSlash path) = false := by
        have hpn : path ≠ [] := by intro e; rw [e] at habs; cases habs
        have hph : (ensureSlash path).head? = some '/' := by rw [head_ensureSlash _ hpn]; exact habs
        cases h1 : ensureSlash p.dropLast with
        | nil =>
          exfalso
          have := head_ensureSlash _ hq
          rw [h1] at this
          cases hd : p.dropLast with
          | nil => exact hq hd
          | cons a b => rw [hd] at this; simp at this
        | cons a as =>
          cases h2 : ensureSlash path with
          | nil => rfl
          | cons b bs =>
            rw [h1] at hh; rw [h2] at hph
            simp at hh hph
            simp [List.isPrefixOf, hph]
            intro e; exact absurd (e ▸ rfl) hh
      simp [this]
    · simp [hl]


theorem count_zero (c : Char) (s : List Char) : count c s = 0 ↔ c ∉ s := by
  unfold count
  rw [List.length_eq_zero_iff, List.filter_eq_nil_iff]
  constructor
  · intro h hm; exact h c hm (by simp)
  · intro h a ha hb; apply h; simp at hb; rw [← hb]; exact ha

/-- what `checkHostInBasicRule` lets through: non-empty, and `*` only as the whole pattern or as the first label -/
theorem checkHost_shape (h : List Char) (hc : checkHost h = true) :
    h ≠ [] ∧ ('*' ∉ h ∨ h = ['*'] ∨ ∃ r, h = '*' :: '.' :: r ∧ '*' ∉ r) := by
  simp only [checkHost, Bool.and_eq_true, Bool.or_eq_true, decide_eq_true_eq, Bool.not_eq_true',
    bne_iff_ne, ne_eq, beq_iff_eq] at hc
  obtain ⟨⟨hne, hle⟩, hs⟩ := hc
  refine ⟨by intro e; rw [e] at hne; simp at hne, ?_⟩
  by_cases h0 : count '*' h = 0
  · left; exact (count_zero _ _).mp h0
  · have h1 : count '*' h = 1 := by omega
    right
    rcases hs with (hs | hs) | hs
    · exact absurd h1 hs
    · left; exact hs
    · right
      rw [List.isPrefixOf_iff_prefix] at hs
      obtain ⟨r, hr⟩ := hs
      refine ⟨r, hr.symm, ?_⟩
      rw [← hr] at h1
      apply (count_zero _ _).mp
      simp [count] at h1 ⊢
      exact h1

/-- what `checkPathInBasicRule` lets through: non-empty, `*` only as the last character -/
theorem checkPath_shape (p : List Char) (hc : checkPath p = true) :
    p ≠ [] ∧ ('*' ∉ p ∨ (p.getLast? = some '*' ∧ '*' ∉ p.dropLast)) := by
  simp only [checkPath, Bool.and_eq_true, Bool.or_eq_true, decide_eq_true_eq, Bool.not_eq_true',
    bne_iff_ne, ne_eq, beq_iff_eq] at hc
  obtain ⟨⟨hne, hle⟩, hs⟩ := hc
  refine ⟨by intro e; rw [e] at hne; simp at hne, ?_⟩
  by_cases h0 : count '*' p = 0
  · left; exact (count_zero _ _).mp h0
  · have h1 : count '*' p = 1 := by omega
    right
    rcases hs with hs | hs
    · exact absurd h1 hs
    · refine ⟨hs, ?_⟩
      have hp : p = p.dropLast ++ ['*'] := by
        cases hg : p.getLast? with
        | none => rw [hg] at hs; cases hs
        | some c =>
          rw [hg] at hs; injection hs with hs; subst hs
          rcases List.eq_nil_or_concat p with e | ⟨q, c, e⟩
          · rw [e] at hg; cases hg
          · rw [e] at hg ⊢; simp at hg; rw [hg]; simp
      rw [hp] at h1
      apply (count_zero _ _).mp
      simp [count, List.filter_append] at h1 ⊢
      exact h1

theorem upperC_ne_colon (c : Char) (h : c ≠ ':') : upperC c ≠ ':' := by
  unfold upperC
  split
  · next hr =>
    have key : ∀ k : Fin 26, (Char.ofNat (k.val + 65)).toNat = k.val + 65 := by decide
    have hk := key ⟨c.toNat - 97, by omega⟩
    have he : c.toNat - 97 + 65 = c.toNat - 32 := by omega
    simp only [he] at hk
    intro hcd
    rw [hcd] at hk
    have : (':' : Char).toNat = 58 := by decide
    omega
  · exact h

theorem colon_mem_normHost (p : List Char) (h : ':' ∈ p) : ':' ∈ normHost p := by
  unfold normHost upper
  have hd : ':' ∈ dropTrailingDot p := by
    rcases dtd_cases p with e | e
    · rw [e]; exact h
    · rw [e] at h
      rcases List.mem_append.mp h with h1 | h1
      · exact h1
      · simp at h1
  have : upperC ':' = ':' := by decide
  rw [← this]; exact List.mem_map_of_mem hd

theorem pred_of_mem_takeWhile {α} (q : α → Bool) (l : List α) (a : α) (h : a ∈ l.takeWhile q) : q a = true := by
  induction l with
  | nil => simp at h
  | cons x xs ih =>
    simp only [List.takeWhile_cons] at h
    by_cases hx : q x = true
    · simp only [hx, if_true] at h
      rcases List.mem_cons.mp h with e | e
      · rw [e]; exact hx
      · exact ih e
    · simp [hx] at h

theorem colon_not_mem_normHost_stripPort (host : List Char) : ':' ∉ normHost (stripPort host) := by
  unfold normHost upper
  intro hm
  obtain ⟨c, hc, hcu⟩ := List.mem_map.mp hm
  have hcs : c ∈ stripPort host := by
    rcases dtd_cases (stripPort host) with e | e
    · rw [e] at hc; exact hc
    · rw [e]; exact List.mem_append_left _ hc
  have hne : c ≠ ':' := by
    unfold stripPort at hcs
    have := pred_of_mem_takeWhile _ _ _ hcs
    simpa using this
  exact upperC_ne_colon c hne hcu

/-- an exact host pattern containing a colon (e.g. `a.com:80`) is accepted by the loader but can never match
    at `LookupCluster`, which removes the port from the request host first -/
theorem port_pattern_dead (p host : List Char) (hn : ∀ rest, p ≠ '*' :: rest) (hc : ':' ∈ p) :
    hostMatch p (normHost (stripPort host)) = none := by
  rw [hostMatch_nostar _ _ hn]
  have : normHost p ≠ normHost (stripPort host) := by
    intro e
    exact colon_not_mem_normHost_stripPort host (e ▸ colon_mem_normHost p hc)
  simp [this]

end BfeVerif.C11
