import BfeVerif.C11.Proofs
/-! C11: the slash-terminated string-prefix order used by `specPath` is the path-ELEMENT prefix order of the
    documentation ("从左开始对path中的路径元素逐个匹配", "最多路径元素"). -/
namespace BfeVerif.C11

/-- the path elements of a slash-terminated string: `"/a/b/"` ↦ `["", "a", "b"]`, `""` ↦ `[]` -/
def segs : List Char → List (List Char)
  | [] => []
  | c :: cs =>
    if c = '/' then [] :: segs cs
    else match segs cs with
      | s :: ss => (c :: s) :: ss
      | [] => [[c]]

def joinSegs (ss : List (List Char)) : List Char := ss.flatMap (· ++ ['/'])

/-- slash-terminated (or empty) -/
def ST (a : List Char) : Prop := a = [] ∨ a.getLast? = some '/'

theorem ST_ensureSlash (p : List Char) : ST (ensureSlash p) := by
  unfold ensureSlash ST
  by_cases h : (!p.isEmpty && p.getLast? != some '/') = true
  · simp [h]
  · simp only [h]
    cases p with
    | nil => left; rfl
    | cons a b =>
      right
      simp at h
      simpa using h

theorem ST_tail {x : Char} {a : List Char} (h : ST (x :: a)) : ST a := by
  cases a with
  | nil => left; rfl
  | cons y ys =>
    right
    rcases h with h | h
    · cases h
    · simpa [List.getLast?_cons_cons] using h

theorem ne_nil_of_ST_cons {x : Char} {a : List Char} (h : ST (x :: a)) (hx : x ≠ '/') : a ≠ [] := by
  intro ha; subst ha
  rcases h with h | h
  · cases h
  · simp at h; exact hx h

theorem segs_ne_nil {a : List Char} (h : a ≠ []) : segs a ≠ [] := by
  cases a with
  | nil => exact absurd rfl h
  | cons c cs =>
    simp only [segs]
    split
    · simp
    · split <;> simp

theorem segs_append (a c : List Char) (h : ST a) : segs (a ++ c) = segs a ++ segs c := by
  induction a with
  | nil => rfl
  | cons x a ih =>
    have ih' := ih (ST_tail h)
    simp only [List.cons_append, segs, ih']
    by_cases hx : x = '/'
    · simp [hx]
    · simp only [hx, if_false]
      have hne := segs_ne_nil (ne_nil_of_ST_cons h hx)
      cases hs : segs a with
      | nil => exact absurd hs hne
      | cons s ss => simp

theorem joinSegs_segs (a : List Char) (h : ST a) : joinSegs (segs a) = a := by
  induction a with
  | nil => rfl
  | cons x a ih =>
    have ih' := ih (ST_tail h)
    simp only [segs]
    by_cases hx : x = '/'
    · simp [hx, joinSegs] at ih' ⊢; exact ih'
    · simp only [hx, if_false]
      have hne := segs_ne_nil (ne_nil_of_ST_cons h hx)
      cases hs : segs a with
      | nil => exact absurd hs hne
      | cons s ss =>
        rw [hs] at ih'
        simp [joinSegs] at ih' ⊢
        exact ih'

theorem joinSegs_append (xs ys : List (List Char)) : joinSegs (xs ++ ys) = joinSegs xs ++ joinSegs ys := by
  simp [joinSegs]

/-- string prefix on slash-terminated strings = prefix on element lists -/
theorem prefix_iff_segs (a b : List Char) (ha : ST a) (hb : ST b) : a <+: b ↔ segs a <+: segs b := by
  constructor
  · rintro ⟨c, rfl⟩
    exact ⟨segs c, (segs_append a c ha).symm⟩
  · rintro ⟨r, hr⟩
    refine ⟨joinSegs r, ?_⟩
    rw [← joinSegs_segs a ha, ← joinSegs_append, hr, joinSegs_segs b hb]

/-- among prefixes of the same path, longer string = more path elements -/
theorem length_le_iff_segs (a a' b : List Char) (ha : ST a) (ha' : ST a') (h : a <+: b) (h' : a' <+: b) :
    a.length ≤ a'.length ↔ (segs a).length ≤ (segs a').length := by
  constructor
  · intro hl
    have := (prefix_iff_segs a a' ha ha').mp (List.prefix_of_prefix_length_le h h' hl)
    exact List.IsPrefix.length_le this
  · intro hl
    by_cases hlt : a.length ≤ a'.length
    · exact hlt
    · exfalso
      have hp : a' <+: a := List.prefix_of_prefix_length_le h' h (by omega)
      have hs := (prefix_iff_segs a' a ha' ha).mp hp
      have hle := List.IsPrefix.length_le hs
      have heq : segs a' = segs a := List.IsPrefix.eq_of_length hs (by omega)
      have : a' = a := by rw [← joinSegs_segs a' ha', heq, joinSegs_segs a ha]
      rw [this] at hlt; omega


/-! ### the path stage of the specification, stated on path elements -/

/-- path elements, a trailing slash being ignored: `/a/b` and `/a/b/` ↦ `["", "a", "b"]`; `/` ↦ `[""]`; `""` ↦ `[]` -/
def elemsOf (p : List Char) : List (List Char) := segs (ensureSlash p)

/-- prefix pattern `P*` against a request path: the number of path elements of `P` if they are the first
    elements of the request path -/
def pathMatchElems (p path : List Char) : Option Nat :=
  if p.getLast? == some '*' then
    (if (elemsOf p.dropLast).isPrefixOf (elemsOf path) then some (elemsOf p.dropLast).length else none)
  else none

def isBestE (cands : List Triple) (path : List Char) (t : Triple) : Bool :=
  (pathMatchElems t.path path).isSome &&
    cands.all fun u => scoreLe (pathMatchElems u.path path) (pathMatchElems t.path path)

/-- exact path, else the prefix pattern with the MOST PATH ELEMENTS among those whose elements start the
    request path (`*` alone has none and matches everything) -/
def specPathE (cands : List Triple) (path : List Char) : Option String :=
  match cands.find? (fun t => t.path.getLast? != some '*' && t.path == path) with
  | some t => some t.cluster
  | none => (cands.find? (isBestE cands path)).map (·.cluster)

theorem pmp_eq (p path : List Char) :
    pathMatchPrefix p path =
      if p.getLast? = some '*' ∧ ensureSlash p.dropLast <+: ensureSlash path
      then some (ensureSlash p.dropLast).length else none := by
  simp only [pathMatchPrefix, pathPrefix]
  by_cases h : p.getLast? = some '*'
  · simp [h, List.isPrefixOf_iff_prefix]
  · simp [h]

theorem pme_eq (p path : List Char) :
    pathMatchElems p path =
      if p.getLast? = some '*' ∧ ensureSlash p.dropLast <+: ensureSlash path
      then some (segs (ensureSlash p.dropLast)).length else none := by
  simp only [pathMatchElems, elemsOf]
  by_cases h : p.getLast? = some '*'
  · simp only [h, beq_self_eq_true, if_true, true_and, List.isPrefixOf_iff_prefix,
      ← prefix_iff_segs _ _ (ST_ensureSlash _) (ST_ensureSlash _)]
  · simp [h]

theorem scoreLe_agree (u t path : List Char) :
    scoreLe (pathMatchElems u path) (pathMatchElems t path) =
      scoreLe (pathMatchPrefix u path) (pathMatchPrefix t path) := by
  rw [pme_eq, pme_eq, pmp_eq, pmp_eq]
  by_cases hu : u.getLast? = some '*' ∧ ensureSlash u.dropLast <+: ensureSlash path
  · by_cases ht : t.getLast? = some '*' ∧ ensureSlash t.dropLast <+: ensureSlash path
    · simp only [hu, ht, and_self, if_true, scoreLe]
      have := length_le_iff_segs _ _ _ (ST_ensureSlash u.dropLast) (ST_ensureSlash t.dropLast) hu.2 ht.2
      by_cases hl : (ensureSlash u.dropLast).length ≤ (ensureSlash t.dropLast).length
      · simp [hl, this.mp hl]
      · have : ¬ (segs (ensureSlash u.dropLast)).length ≤ (segs (ensureSlash t.dropLast)).length :=
          fun h => hl (this.mpr h)
        simp [hl, this]
    · simp [hu, ht, scoreLe]
  · simp [hu, scoreLe]

theorem isSome_agree (t path : List Char) :
    (pathMatchElems t path).isSome = (pathMatchPrefix t path).isSome := by
  rw [pme_eq, pmp_eq]
  by_cases ht : t.getLast? = some '*' ∧ ensureSlash t.dropLast <+: ensureSlash path <;> simp [ht]

theorem specPathE_eq (cands : List Triple) (path : List Char) : specPathE cands path = specPath cands path := by
  unfold specPathE specPath
  have : isBestE cands path = isBest cands path := by
    funext t
    simp only [isBestE, isBest, isSome_agree, scoreLe_agree]
  rw [this]
  cases cands.find? (fun t => t.path.getLast? != some '*' && t.path == path) <;> rfl


/-- the documented precedence with the path stage on path elements -/
def specBasicE (T : List Triple) (host path : List Char) : Option String :=
  let H := normHost host
  let withClass (c : HostClass) := T.filter fun t => hostMatch t.host H == some c
  if !(withClass .exact).isEmpty then specPathE (withClass .exact) path
  else if !(withClass .wild).isEmpty then specPathE (withClass .wild) path
  else if !(withClass .any).isEmpty then specPathE (withClass .any) path
  else none

theorem specBasicE_eq (T : List Triple) (host path : List Char) : specBasicE T host path = specBasic T host path := by
  simp only [specBasicE, specBasic, specPathE_eq]

end BfeVerif.C11
