/-
  C11 — model of the basic route rule tree (bfe_config/bfe_route_conf/route_rule_conf/basic_rule_tree.go,
  the checks of route_table_load.go) and of the host handling of `LookupCluster`.  Core-only.

  `go-radix` is modelled by its contract over the finite set of stored keys:
     Get(k)            = the value stored under exactly k
     LongestPrefix(k)  = the longest stored key that is a prefix of k
  A `BasicRouteRuleTree` is therefore the list of its leaves `Flat` (host tree kind, host key, path tree kind,
  path key, cluster); `hostTrees.get` selects the leaves of one host key, `pathTrees.get` one of them.
-/
namespace BfeVerif.C11

/-- one basic rule of route_rule.data -/
structure Rule where
  hosts : List (List Char)
  paths : List (List Char)
  cluster : String

/-- one (host pattern, path pattern, cluster) of a rule after `Insert`'s defaulting (`[] ↦ ["*"]`) -/
structure Triple where
  host : List Char
  path : List Char
  cluster : String
deriving DecidableEq, Repr

def orStar (xs : List (List Char)) : List (List Char) := if xs.isEmpty then [['*']] else xs

/-- `Insert`: for each host, for each path -/
def expand (rules : List Rule) : List Triple :=
  rules.flatMap fun r => (orStar r.hosts).flatMap fun h => (orStar r.paths).map fun p => ⟨h, p, r.cluster⟩

def count (c : Char) (s : List Char) : Nat := (s.filter (· == c)).length

/-- `checkHostInBasicRule` -/
def checkHost (h : List Char) : Bool :=
  !h.isEmpty && count '*' h ≤ 1 &&
    (count '*' h != 1 || h == ['*'] || (['*', '.'] : List Char).isPrefixOf h)

/-- `checkPathInBasicRule` -/
def checkPath (p : List Char) : Bool :=
  !p.isEmpty && count '*' p ≤ 1 && (count '*' p != 1 || p.getLast? == some '*')

def upperC (c : Char) : Char :=
  if 97 ≤ c.toNat ∧ c.toNat ≤ 122 then Char.ofNat (c.toNat - 32) else c

def upper (s : List Char) : List Char := s.map upperC

/-- `string_reverse.ReverseFqdnHost` -/
def reverseFqdn (s : List Char) : List Char :=
  match s.reverse with
  | '.' :: r => r
  | r => r

/-- `hostTrees.insert`: tree kind (true = wildcard tree) and key -/
def hostKey (h : List Char) : Bool × List Char :=
  match h with
  | '*' :: rest => (true, upper (reverseFqdn rest))
  | _ => (false, upper (reverseFqdn h))

def ensureSlash (p : List Char) : List Char :=
  if !p.isEmpty && p.getLast? != some '/' then p ++ ['/'] else p

/-- `pathTrees.insert`: tree kind and key -/
def pathKey (p : List Char) : Bool × List Char :=
  if p.getLast? == some '*' then (true, ensureSlash p.dropLast) else (false, p)

structure Flat where
  hw : Bool
  hk : List Char
  pw : Bool
  pk : List Char
  cluster : String
deriving DecidableEq, Repr

def flat (t : Triple) : Flat :=
  { hw := (hostKey t.host).1, hk := (hostKey t.host).2, pw := (pathKey t.path).1, pk := (pathKey t.path).2,
    cluster := t.cluster }

def Flat.key (f : Flat) : Bool × List Char × Bool × List Char := (f.hw, f.hk, f.pw, f.pk)

def nodupB {α} [BEq α] : List α → Bool
  | [] => true
  | x :: xs => !xs.contains x && nodupB xs

/-- does `convertBasicRule` accept the rules of one product?  (per-rule checks, then `Insert`: a path key
    that already exists under the same host key is an error) -/
def loadOk (rules : List Rule) : Bool :=
  rules.all (fun r => !(r.hosts.isEmpty && r.paths.isEmpty) && r.hosts.all checkHost && r.paths.all checkPath)
    && nodupB ((expand rules).map fun t => (flat t).key)

/-- search the prefixes `k.take n`, `k.take (n-1)`, …, `k.take 0` for a stored key -/
def lpkAux (keys : List (List Char)) (k : List Char) : Nat → Option (List Char)
  | 0 => if keys.contains [] then some [] else none
  | n + 1 => if keys.contains (k.take (n + 1)) then some (k.take (n + 1)) else lpkAux keys k n

/-- radix `LongestPrefix` restricted to keys: the longest prefix of `k` that is a stored key -/
def longestPrefixKey (keys : List (List Char)) (k : List Char) : Option (List Char) :=
  lpkAux keys k k.length

/-- `hostTrees.get`: the leaves below the chosen host key -/
def hostGet (F : List Flat) (host : List Char) : Option (List Flat) :=
  let key := upper (reverseFqdn host)
  let ex := F.filter fun f => !f.hw && f.hk == key
  if !ex.isEmpty then some ex
  else
    match longestPrefixKey ((F.filter (·.hw)).map (·.hk)) key with
    | none => none
    | some mp =>
      if (key.drop mp.length).contains '.' then
        let anyL := F.filter fun f => f.hw && f.hk == []
        if !anyL.isEmpty then some anyL else none
      else some (F.filter fun f => f.hw && f.hk == mp)

/-- `pathTrees.get` -/
def pathGet (E : List Flat) (path : List Char) : Option String :=
  match E.find? (fun f => !f.pw && f.pk == path) with
  | some f => some f.cluster
  | none =>
    let p := ensureSlash path
    match longestPrefixKey ((E.filter (·.pw)).map (·.pk)) p with
    | none => none
    | some mp => (E.find? (fun f => f.pw && f.pk == mp)).map (·.cluster)

/-- `BasicRouteRuleTree.Get` -/
def treeGet (F : List Flat) (host path : List Char) : Option String :=
  match hostGet F host with
  | none => none
  | some E => pathGet E path

/-- `strings.SplitN(host, ":", 2)[0]` -/
def stripPort (s : List Char) : List Char := s.takeWhile (· ≠ ':')

/-- the basic part of `LookupCluster` -/
def lookupBasic (F : List Flat) (host path : List Char) : Option String := treeGet F (stripPort host) path

/-! ### Specification, written from docs/zh_cn/introduction/route.md ("基础规则匹配条件", "基础规则匹配顺序")

  Hosts are compared case-insensitively, without one trailing dot (and without port at `LookupCluster`).
  * host pattern classes: exact name; `*.s` where `*` stands for exactly one label (a `.`-free string);
    `*` (any host, any number of labels).  Precedence exact > wildcard > any; only the rules of the first
    class with a matching host pattern are considered (no fallback to another class).
  * inside: exact path; else the prefix pattern `P*` with the longest `P` such that the request path,
    ignoring a trailing slash, continues `P` at a path-element boundary; `*` alone is the empty prefix.  -/

def dropTrailingDot (s : List Char) : List Char :=
  match s.reverse with
  | '.' :: r => r.reverse
  | _ => s

def normHost (h : List Char) : List Char := upper (dropTrailingDot h)

inductive HostClass where
  | exact | wild | any
deriving DecidableEq, Repr

/-- class with which host pattern `p` matches the normalised request host `H`, if it does -/
def hostMatch (p : List Char) (H : List Char) : Option HostClass :=
  match p with
  | '*' :: rest =>
    let s := normHost rest
    if s.isEmpty then some .any
    else
      -- H = l ++ s with l free of '.'
      let l := H.take (H.length - s.length)
      if s.length ≤ H.length && H.drop (H.length - s.length) == s && !l.contains '.' then some .wild else none
  | _ => if normHost p == H then some .exact else none

/-- the prefix denoted by a prefix pattern `P*`, made to end at an element boundary (`/foo*` = `/foo/*`) -/
def pathPrefix (p : List Char) : Option (List Char) :=
  if p.getLast? == some '*' then some (ensureSlash p.dropLast) else none

def pathMatchPrefix (p : List Char) (path : List Char) : Option Nat :=
  match pathPrefix p with
  | some pre => if pre.isPrefixOf (ensureSlash path) then some pre.length else none
  | none => none

def scoreLe : Option Nat → Option Nat → Bool
  | none, _ => true
  | some _, none => false
  | some a, some b => a ≤ b

/-- `t` is a matching prefix rule and no matching prefix rule of `cands` has a longer prefix -/
def isBest (cands : List Triple) (path : List Char) (t : Triple) : Bool :=
  (pathMatchPrefix t.path path).isSome &&
    cands.all fun u => scoreLe (pathMatchPrefix u.path path) (pathMatchPrefix t.path path)

def specPath (cands : List Triple) (path : List Char) : Option String :=
  match cands.find? (fun t => t.path.getLast? != some '*' && t.path == path) with
  | some t => some t.cluster
  | none => (cands.find? (isBest cands path)).map (·.cluster)

def specBasic (T : List Triple) (host path : List Char) : Option String :=
  let H := normHost host
  let withClass (c : HostClass) := T.filter fun t => hostMatch t.host H == some c
  if !(withClass .exact).isEmpty then specPath (withClass .exact) path
  else if !(withClass .wild).isEmpty then specPath (withClass .wild) path
  else if !(withClass .any).isEmpty then specPath (withClass .any) path
  else none

def specLookupBasic (T : List Triple) (host path : List Char) : Option String :=
  specBasic T (stripPort host) path

end BfeVerif.C11
