import BfeVerif.C47.Model
/-! Lemmas for C47 (core Lean only). -/
namespace BfeVerif.C47

/-- per direction: written ++ unflushed prefix ++ copy buffer ++ socket queue = prefix ++ sent -/
def DirInv (d : Dir) : Prop := d.out ++ (d.preLeft ++ (d.held ++ d.inq)) = d.pre ++ d.sent

/-- relays only run after both prefixes were written completely -/
def StageInv (s : St) : Prop :=
  (s.stage = 1 → s.c2b.preLeft = []) ∧ (s.stage = 2 → s.c2b.preLeft = [] ∧ s.b2c.preLeft = []) ∧ s.stage ≤ 3

def Inv (s : St) : Prop := DirInv s.c2b ∧ DirInv s.b2c ∧ StageInv s

theorem inv_init (pc pb : Bytes) : Inv (St.init pc pb 0) := by
  simp [Inv, DirInv, StageInv, St.init, Dir.init]

theorem inv_init_tls : Inv (St.init [] [] 2) := by
  simp [Inv, DirInv, StageInv, St.init, Dir.init]

theorem dir_send (d : Dir) (bs : Bytes) (h : DirInv d) :
    DirInv { d with sent := d.sent ++ bs, inq := d.inq ++ bs } := by
  unfold DirInv at h ⊢
  have := congrArg (· ++ bs) h
  simpa [List.append_assoc] using this

theorem dir_rd (d : Dir) (n : Nat) (r : Bool) (dn : Bool) (hh : d.held = []) (h : DirInv d) :
    DirInv { d with inq := d.inq.drop n, held := d.inq.take n, rdErr := r, done := dn } := by
  unfold DirInv at h ⊢
  simpa [hh, List.append_assoc] using h

theorem dir_wr (d : Dir) (k : Nat) (dn : Bool) (hp : d.preLeft = []) (h : DirInv d) :
    DirInv { d with out := d.out ++ d.held.take k, held := d.held.drop k, done := dn } := by
  unfold DirInv at h ⊢
  simp only [hp, List.nil_append] at h ⊢
  rw [List.append_assoc, ← List.append_assoc (d.held.take k), List.take_append_drop]
  exact h

theorem dir_wr_all (d : Dir) (dn : Bool) (hp : d.preLeft = []) (h : DirInv d) :
    DirInv { d with out := d.out ++ d.held, held := [], done := dn } := by
  unfold DirInv at h ⊢
  simp only [hp, List.nil_append] at h ⊢
  simpa [List.append_assoc] using h

theorem dir_flush (d : Dir) (k : Nat) (h : DirInv d) :
    DirInv { d with out := d.out ++ d.preLeft.take k, preLeft := d.preLeft.drop k } := by
  unfold DirInv at h ⊢
  simp only []
  rw [List.append_assoc, ← List.append_assoc (d.preLeft.take k), List.take_append_drop]
  exact h

theorem dir_flush_all (d : Dir) (h : DirInv d) :
    DirInv { d with out := d.out ++ d.preLeft, preLeft := [] } := by
  unfold DirInv at h ⊢
  simpa [List.append_assoc] using h

theorem dir_flag (d : Dir) (c dn : Bool) (h : DirInv d) : DirInv { d with srcClosed := c, done := dn } := h

theorem live_stage (s : St) (toB : Bool) (h : s.live toB = true) : s.stage = 2 ∧ s.shut = false ∧ (s.get toB).done = false := by
  simp [St.live] at h; exact ⟨h.1.1, h.1.2, h.2⟩

theorem step_inv (s s' : St) (a : Step) (h : Inv s) (hs : step s a = some s') : Inv s' := by
  obtain ⟨h1, h2, h3⟩ := h
  cases a with
  | send toB bs =>
    cases toB <;> simp [step, St.get, St.set] at hs <;> obtain ⟨_, rfl⟩ := hs
    · exact ⟨h1, dir_send _ bs h2, h3⟩
    · exact ⟨dir_send _ bs h1, h2, h3⟩
  | close toB =>
    cases toB <;> simp [step, St.get, St.set] at hs <;> obtain ⟨_, rfl⟩ := hs
    · exact ⟨h1, h2, h3⟩
    · exact ⟨h1, h2, h3⟩
  | flushOk =>
    simp only [step] at hs
    split at hs
    · simp at hs
    · split at hs
      · rename_i h0
        simp at hs; subst hs
        exact ⟨dir_flush_all _ h1, h2, by simp [StageInv]⟩
      · split at hs
        · rename_i h0 h1'
          simp at hs; subst hs
          exact ⟨h1, dir_flush_all _ h2, by simp [StageInv]; exact h3.1 h1'⟩
        · simp at hs
  | flushFail k =>
    simp only [step] at hs
    split at hs
    · simp at hs
    · split at hs
      · simp at hs; subst hs
        exact ⟨dir_flush _ k h1, h2, by simp [StageInv]⟩
      · split at hs
        · simp at hs; subst hs
          exact ⟨h1, dir_flush _ k h2, by simp [StageInv]⟩
        · simp at hs
  | rd toB n =>
    cases toB <;> simp [step, St.get, St.set] at hs <;> obtain ⟨⟨hl, hh, _⟩, rfl⟩ := hs
    · exact ⟨h1, by simpa using dir_rd _ n _ _ hh h2, h3⟩
    · exact ⟨by simpa using dir_rd _ n _ _ hh h1, h2, h3⟩
  | rdE toB n =>
    cases toB <;> simp [step, St.get, St.set] at hs <;> obtain ⟨⟨hl, hh, _⟩, rfl⟩ := hs
    · exact ⟨h1, dir_rd _ n _ _ hh h2, h3⟩
    · exact ⟨dir_rd _ n _ _ hh h1, h2, h3⟩
  | wr toB =>
    cases toB <;> simp [step, St.get, St.set] at hs <;> obtain ⟨⟨hl, _⟩, rfl⟩ := hs <;>
      have hst := (live_stage _ _ hl).1
    · exact ⟨h1, dir_wr_all _ _ (h3.2.1 hst).2 h2, h3⟩
    · exact ⟨dir_wr_all _ _ (h3.2.1 hst).1 h1, h2, by simpa [StageInv] using h3⟩
  | wrFail toB k =>
    cases toB <;> simp [step, St.get, St.set] at hs <;> obtain ⟨⟨hl, _⟩, rfl⟩ := hs <;>
      have hst := (live_stage _ _ hl).1
    · exact ⟨h1, dir_wr _ k _ (h3.2.1 hst).2 h2, h3⟩
    · exact ⟨dir_wr _ k _ (h3.2.1 hst).1 h1, h2, by simpa [StageInv] using h3⟩
  | eof toB =>
    cases toB <;> simp [step, St.get, St.set] at hs <;> obtain ⟨_, rfl⟩ := hs
    · exact ⟨h1, h2, h3⟩
    · exact ⟨h1, h2, h3⟩
  | shutdown =>
    simp [step] at hs
    obtain ⟨_, rfl⟩ := hs
    exact ⟨h1, h2, h3⟩

theorem run_inv (sched : List Step) (s : St) (h : Inv s) : Inv (runSched s sched) := by
  induction sched generalizing s with
  | nil => exact h
  | cons a rest ih =>
    unfold runSched
    cases hs : step s a with
    | none => simpa using ih s h
    | some s' => simpa using ih s' (step_inv s s' a h hs)

theorem step_pre (s s' : St) (a : Step) (hs : step s a = some s') :
    s'.c2b.pre = s.c2b.pre ∧ s'.b2c.pre = s.b2c.pre := by
  cases a with
  | send toB bs => cases toB <;> simp [step, St.get, St.set] at hs <;> obtain ⟨_, rfl⟩ := hs <;> exact ⟨rfl, rfl⟩
  | close toB => cases toB <;> simp [step, St.get, St.set] at hs <;> obtain ⟨_, rfl⟩ := hs <;> exact ⟨rfl, rfl⟩
  | flushOk =>
    simp only [step] at hs
    repeat' (first | (simp at hs; done) | (simp at hs; subst hs; exact ⟨rfl, rfl⟩) | split at hs)
  | flushFail k =>
    simp only [step] at hs
    repeat' (first | (simp at hs; done) | (simp at hs; subst hs; exact ⟨rfl, rfl⟩) | split at hs)
  | rd toB n => cases toB <;> simp [step, St.get, St.set] at hs <;> obtain ⟨_, rfl⟩ := hs <;> exact ⟨rfl, rfl⟩
  | rdE toB n => cases toB <;> simp [step, St.get, St.set] at hs <;> obtain ⟨_, rfl⟩ := hs <;> exact ⟨rfl, rfl⟩
  | wr toB => cases toB <;> simp [step, St.get, St.set] at hs <;> obtain ⟨_, rfl⟩ := hs <;> exact ⟨rfl, rfl⟩
  | wrFail toB k => cases toB <;> simp [step, St.get, St.set] at hs <;> obtain ⟨_, rfl⟩ := hs <;> exact ⟨rfl, rfl⟩
  | eof toB => cases toB <;> simp [step, St.get, St.set] at hs <;> obtain ⟨_, rfl⟩ := hs <;> exact ⟨rfl, rfl⟩
  | shutdown => simp [step] at hs; obtain ⟨_, rfl⟩ := hs; exact ⟨rfl, rfl⟩

theorem run_pre (sched : List Step) (s : St) :
    (runSched s sched).c2b.pre = s.c2b.pre ∧ (runSched s sched).b2c.pre = s.b2c.pre := by
  induction sched generalizing s with
  | nil => exact ⟨rfl, rfl⟩
  | cons a rest ih =>
    unfold runSched
    cases hs : step s a with
    | none => simpa using ih s
    | some s' =>
      have h1 := ih s'
      have h2 := step_pre s s' a hs
      simp only [Option.getD_some]
      exact ⟨h1.1.trans h2.1, h1.2.trans h2.2⟩

/-- an erroneous read whose bytes have been written (or that brought none) has terminated the relay -/
def FlagD (d : Dir) : Prop := d.rdErr = true → d.held = [] → d.done = true
def FlagInv (s : St) : Prop := FlagD s.c2b ∧ FlagD s.b2c

theorem flag_init (pc pb : Bytes) (n : Nat) : FlagInv (St.init pc pb n) := by
  simp [FlagInv, FlagD, St.init, Dir.init]

theorem step_flag (s s' : St) (a : Step) (h : FlagInv s) (hs : step s a = some s') : FlagInv s' := by
  obtain ⟨h1, h2⟩ := h
  cases a with
  | send toB bs => cases toB <;> simp [step, St.get, St.set] at hs <;> obtain ⟨_, rfl⟩ := hs <;> exact ⟨h1, h2⟩
  | close toB => cases toB <;> simp [step, St.get, St.set] at hs <;> obtain ⟨_, rfl⟩ := hs <;> exact ⟨h1, h2⟩
  | flushOk =>
    simp only [step] at hs
    repeat' (first | (simp at hs; done) | (simp at hs; subst hs; exact ⟨h1, h2⟩) | split at hs)
  | flushFail k =>
    simp only [step] at hs
    repeat' (first | (simp at hs; done) | (simp at hs; subst hs; exact ⟨h1, h2⟩) | split at hs)
  | rd toB n =>
    cases toB <;> simp [step, St.get, St.set] at hs <;> obtain ⟨⟨_, _, hr, _⟩, rfl⟩ := hs
    · exact ⟨h1, by intro h; simp [hr] at h⟩
    · exact ⟨by intro h; simp [hr] at h, h2⟩
  | rdE toB n =>
    cases toB <;> simp [step, St.get, St.set] at hs <;> obtain ⟨⟨_, _, _, hn⟩, rfl⟩ := hs
    · refine ⟨h1, ?_⟩
      intro _ hh
      simp at hh
      simp; rcases hh with h | h
      · exact h
      · simp [h] at hn; exact hn
    · refine ⟨?_, h2⟩
      intro _ hh
      simp at hh
      simp; rcases hh with h | h
      · exact h
      · simp [h] at hn; exact hn
  | wr toB =>
    cases toB <;> simp [step, St.get, St.set] at hs <;> obtain ⟨_, rfl⟩ := hs
    · exact ⟨h1, by intro h _; simpa using h⟩
    · exact ⟨by intro h _; simpa using h, h2⟩
  | wrFail toB k =>
    cases toB <;> simp [step, St.get, St.set] at hs <;> obtain ⟨_, rfl⟩ := hs
    · exact ⟨h1, by intro _ _; rfl⟩
    · exact ⟨by intro _ _; rfl, h2⟩
  | eof toB =>
    cases toB <;> simp [step, St.get, St.set] at hs <;> obtain ⟨_, rfl⟩ := hs
    · exact ⟨h1, by intro _ _; rfl⟩
    · exact ⟨by intro _ _; rfl, h2⟩
  | shutdown => simp [step] at hs; obtain ⟨_, rfl⟩ := hs; exact ⟨h1, h2⟩

theorem run_flag (sched : List Step) (s : St) (h : FlagInv s) : FlagInv (runSched s sched) := by
  induction sched generalizing s with
  | nil => exact h
  | cons a rest ih =>
    unfold runSched
    cases hs : step s a with
    | none => simpa using ih s h
    | some s' => simpa using ih s' (step_flag s s' a h hs)

/-- no error-free relay-side step is enabled and the connections are still open ⇒ the relays are running and idle -/
theorem rest_open (s : St) (h3 : s.stage ≤ 3) (hf : FlagInv s) (hq : relayEnabled s = false) (hs : s.shut = false) :
    s.stage = 2 ∧ s.c2b.inq = [] ∧ s.b2c.inq = [] ∧ s.c2b.held = [] ∧ s.b2c.held = [] ∧
    s.c2b.done = false ∧ s.b2c.done = false := by
  simp only [relayEnabled, Bool.or_eq_false_iff] at hq
  obtain ⟨⟨⟨⟨⟨⟨⟨hfl, hsh⟩, he1⟩, he2⟩, hr1⟩, hr2⟩, hw1⟩, hw2⟩ := hq
  have hsh' : ¬ (s.stage = 3 ∨ s.c2b.done = true ∨ s.b2c.done = true) := by
    intro hc; simp [step, hs, hc] at hsh
  have hd1 : s.c2b.done = false := by cases h : s.c2b.done <;> simp_all
  have hd2 : s.b2c.done = false := by cases h : s.b2c.done <;> simp_all
  have hst : s.stage = 2 := by
    by_cases h0 : s.stage = 0
    · simp [step, hs, h0] at hfl
    · by_cases h1 : s.stage = 1
      · simp [step, hs, h0, h1] at hfl
      · have : s.stage ≠ 3 := fun h => hsh' (Or.inl h)
        omega
  have hl1 : s.live true = true := by simp [St.live, hst, hs, St.get, hd1]
  have hl2 : s.live false = true := by simp [St.live, hst, hs, St.get, hd2]
  have hh1 : s.c2b.held = [] := by
    cases h : s.c2b.held with
    | nil => rfl
    | cons a t => simp [step, St.get, hl1, h] at hw1
  have hh2 : s.b2c.held = [] := by
    cases h : s.b2c.held with
    | nil => rfl
    | cons a t => simp [step, St.get, hl2, h] at hw2
  refine ⟨hst, ?_, ?_, hh1, hh2, hd1, hd2⟩
  · cases h : s.c2b.inq with
    | nil => rfl
    | cons a t =>
      exfalso
      cases hr : s.c2b.rdErr
      · simp [step, St.get, hl1, hh1, hr, h] at hr1
      · have := hf.1 hr hh1; simp [hd1] at this
  · cases h : s.b2c.inq with
    | nil => rfl
    | cons a t =>
      exfalso
      cases hr : s.b2c.rdErr
      · simp [step, St.get, hl2, hh2, hr, h] at hr2
      · have := hf.2 hr hh2; simp [hd2] at this

theorem rest_closed (s : St) (h3 : s.stage ≤ 3) (hf : FlagInv s) (hq : relayEnabled s = false)
    (hc : s.c2b.srcClosed = true ∨ s.b2c.srcClosed = true) : s.shut = true := by
  cases hs : s.shut
  · exfalso
    obtain ⟨hst, hi1, hi2, hh1, hh2, hd1, hd2⟩ := rest_open s h3 hf hq hs
    have hr1 : s.c2b.rdErr = false := by
      cases hr : s.c2b.rdErr
      · rfl
      · have := hf.1 hr hh1; simp [hd1] at this
    have hr2 : s.b2c.rdErr = false := by
      cases hr : s.b2c.rdErr
      · rfl
      · have := hf.2 hr hh2; simp [hd2] at this
    simp only [relayEnabled, Bool.or_eq_false_iff] at hq
    obtain ⟨⟨⟨⟨⟨⟨⟨_, _⟩, he1⟩, he2⟩, _⟩, _⟩, _⟩, _⟩ := hq
    rcases hc with h | h
    · simp [step, St.get, St.live, hst, hs, hd1, hh1, hr1, h, hi1] at he1
    · simp [step, St.get, St.live, hst, hs, hd2, hh2, hr2, h, hi2] at he2
  · rfl

theorem frags_sum : ∀ (fuel n : Nat), n < fuel → (frags fuel n).sum = n := by
  intro fuel
  induction fuel with
  | zero => intro n h; omega
  | succ f ih =>
    intro n h
    unfold frags
    split
    · rename_i h0; simp [h0]
    · rename_i h0
      have hm : 1 ≤ min n maxPlaintext := by unfold maxPlaintext; omega
      have hle : min n maxPlaintext ≤ n := Nat.min_le_left _ _
      rw [List.sum_cons, ih (n - min n maxPlaintext) (by omega)]
      omega

end BfeVerif.C47
