import BfeVerif.C47.Model
/-! Lemmas for C47 (core Lean only). -/
namespace BfeVerif.C47

/-- the per-direction invariant: nothing is lost, duplicated, altered or reordered -/
def DirInv (d : Dir) (flushed : Bool) : Prop := d.out ++ d.pending flushed = d.pre ++ d.sent

def Inv (s : St) : Prop := DirInv s.c2b s.flushed ∧ DirInv s.b2c s.flushed

theorem inv_init (pc pb : Bytes) : Inv (St.init pc pb false) := by
  simp [Inv, DirInv, St.init, Dir.init, Dir.pending]

theorem inv_init_tls : Inv (St.init [] [] true) := by
  simp [Inv, DirInv, St.init, Dir.init, Dir.pending]

theorem dir_send (d : Dir) (f : Bool) (bs : Bytes) (h : DirInv d f) :
    DirInv { d with sent := d.sent ++ bs, inq := d.inq ++ bs } f := by
  unfold DirInv Dir.pending at h ⊢
  have := congrArg (· ++ bs) h
  simpa [List.append_assoc] using this

theorem dir_copy (d : Dir) (n : Nat) (h : DirInv d true) :
    DirInv { d with inq := d.inq.drop n, out := d.out ++ d.inq.take n } true := by
  unfold DirInv Dir.pending at h ⊢
  simpa [List.append_assoc] using h

theorem dir_flush (d : Dir) (h : DirInv d false) : DirInv { d with out := d.out ++ d.pre } true := by
  unfold DirInv Dir.pending at h ⊢
  simpa [List.append_assoc] using h

theorem step_inv (s s' : St) (a : Step) (h : Inv s) (hs : step s a = some s') : Inv s' := by
  obtain ⟨h1, h2⟩ := h
  cases a with
  | send toB bs =>
    cases toB <;> simp [step, St.get, St.set] at hs <;> obtain ⟨_, rfl⟩ := hs
    · exact ⟨h1, dir_send _ _ bs h2⟩
    · exact ⟨dir_send _ _ bs h1, h2⟩
  | close toB =>
    cases toB <;> simp [step, St.get, St.set] at hs <;> obtain ⟨_, rfl⟩ := hs
    · exact ⟨h1, h2⟩
    · exact ⟨h1, h2⟩
  | flush =>
    simp [step] at hs
    obtain ⟨⟨hf, _⟩, rfl⟩ := hs
    rw [hf] at h1 h2
    exact ⟨dir_flush _ h1, dir_flush _ h2⟩
  | copy toB n =>
    cases toB <;> simp [step, St.get, St.set] at hs <;> obtain ⟨⟨hf, _⟩, rfl⟩ := hs <;> rw [hf] at h1 h2
    · exact ⟨by simpa [hf] using h1, by simpa [hf] using dir_copy _ n h2⟩
    · exact ⟨by simpa [hf] using dir_copy _ n h1, by simpa [hf] using h2⟩
  | eof toB =>
    cases toB <;> simp [step, St.get, St.set] at hs <;> obtain ⟨_, rfl⟩ := hs
    · exact ⟨h1, h2⟩
    · exact ⟨h1, h2⟩
  | wfail toB =>
    cases toB <;> simp [step, St.get, St.set] at hs <;> obtain ⟨_, rfl⟩ := hs
    · exact ⟨h1, h2⟩
    · exact ⟨h1, h2⟩
  | shutdown =>
    simp [step] at hs
    obtain ⟨_, rfl⟩ := hs
    exact ⟨h1, h2⟩

theorem run_inv (sched : List Step) (s : St) (h : Inv s) : Inv (runSched s sched) := by
  induction sched generalizing s with
  | nil => exact h
  | cons a rest ih =>
    unfold runSched
    cases hs : step s a with
    | none => simpa using ih s h
    | some s' => simpa using ih s' (step_inv s s' a h hs)

/-- no relay-side step is enabled and the connections are still open ⇒ the relays are idle:
    prefixes flushed, both socket queues empty, nobody terminated -/
theorem rest_open (s : St) (hq : relayEnabled s = false) (hs : s.shut = false) :
    s.flushed = true ∧ s.c2b.inq = [] ∧ s.b2c.inq = [] ∧ s.c2b.done = false ∧ s.b2c.done = false := by
  simp only [relayEnabled, Bool.or_eq_false_iff] at hq
  obtain ⟨⟨⟨⟨⟨hfl, hsh⟩, he1⟩, he2⟩, hc1⟩, hc2⟩ := hq
  have hf : s.flushed = true := by
    cases h : s.flushed
    · simp [step, h, hs] at hfl
    · rfl
  have hd : s.c2b.done = false ∧ s.b2c.done = false := by
    cases h1 : s.c2b.done <;> cases h2 : s.b2c.done <;> simp [step, hs, h1, h2] at hsh ⊢
  refine ⟨hf, ?_, ?_, hd.1, hd.2⟩
  · simp [step, St.get, hf, hs, hd.1] at hc1
    cases h : s.c2b.inq with
    | nil => rfl
    | cons a t => simp [h] at hc1
  · simp [step, St.get, hf, hs, hd.2] at hc2
    cases h : s.b2c.inq with
    | nil => rfl
    | cons a t => simp [h] at hc2

theorem rest_closed (s : St) (hq : relayEnabled s = false) (hc : s.c2b.srcClosed = true ∨ s.b2c.srcClosed = true) :
    s.shut = true := by
  cases hs : s.shut
  · exfalso
    obtain ⟨hf, hi1, hi2, hd1, hd2⟩ := rest_open s hq hs
    simp only [relayEnabled, Bool.or_eq_false_iff] at hq
    obtain ⟨⟨⟨⟨⟨_, _⟩, he1⟩, he2⟩, _⟩, _⟩ := hq
    rcases hc with h | h
    · simp [step, St.get, hf, hs, hd1, h, hi1] at he1
    · simp [step, St.get, hf, hs, hd2, h, hi2] at he2
  · rfl

end BfeVerif.C47
