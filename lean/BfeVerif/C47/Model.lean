/-
  C47 — model of the two tunnels:
    bfe_websocket/server_conn.go  serve / websocketDataTransfer  (write of the two buffered prefixes — either may fail and
                                  then the relays are never started —, two io.Copy goroutines, errCh,
                                  shutDownIn(250ms) -> deferred Close of both connections)
    bfe_stream/server_conn.go     serve / TLSProxyHandler        (two io.Copy goroutines, copyErrCh, same wait loop;
                                  no bufio in front of the tunnel: empty prefixes, relays started at once)
  Core-only.  Granularity (round 2): io.Copy is split into its read and its write: a read moves n bytes from the
  socket queue into the copy buffer (`held`) and may come WITH an error (n > 0 or n = 0); a write either takes the
  whole buffer or fails after k < |held| bytes (short write / error after a partial write); after a failed write or
  an erroneous read the relay returns and its error goes to errCh.  Any interleaving of these is a schedule.
-/
namespace BfeVerif.C47

abbrev Bytes := List UInt8

/-- one direction of the tunnel: `prefix (buffered at upgrade) ++ copy loop` -/
structure Dir where
  pre : Bytes          -- (ghost) bytes in bfe's bufio reader behind the upgrade request / the 101 response
  preLeft : Bytes      -- the part of `pre` the prefix write has not written yet
  sent : Bytes         -- (ghost) everything the source peer has written into the tunnel after that
  inq : Bytes          -- bytes of `sent` not yet read by the relay (socket buffers)
  held : Bytes         -- io.Copy's buffer: read, not yet written
  rdErr : Bool         -- the last read returned an error: the relay returns once `held` is written
  out : Bytes          -- bytes written to the destination peer
  srcClosed : Bool     -- the source peer closed its side
  done : Bool          -- the relay goroutine returned (its error went to errCh)
deriving DecidableEq, Repr

structure St where
  c2b : Dir            -- client -> backend
  b2c : Dir            -- backend -> client
  stage : Nat          -- 0: before `bconn.Write(cbuf)`, 1: before `cconn.Write(bbuf)`, 2: relays running, 3: a prefix write failed (errCh <- err; return)
  shut : Bool          -- serve() returned: cconn and bconn closed
deriving DecidableEq, Repr

def Dir.init (pre : Bytes) : Dir :=
  { pre := pre, preLeft := pre, sent := [], inq := [], held := [], rdErr := false, out := [], srcClosed := false, done := false }

/-- websocket: `St.init pc pb 0`; TLS stream: `St.init [] [] 2` -/
def St.init (pc pb : Bytes) (stage : Nat) : St :=
  { c2b := Dir.init pc, b2c := Dir.init pb, stage := stage, shut := false }

inductive Step
  | send (toB : Bool) (bs : Bytes)   -- the client (toB) / the backend writes bs
  | close (toB : Bool)               -- the client (toB) / the backend closes
  | flushOk                          -- the pending prefix write (`bconn.Write(cbuf)`, then `cconn.Write(bbuf)`) succeeds
  | flushFail (k : Nat)              -- it fails after k < |prefix| bytes: `errCh <- err; return`
  | rd (toB : Bool) (n : Nat)        -- io.Copy: src.Read returns n ≥ 1 bytes, nil
  | rdE (toB : Bool) (n : Nat)       -- io.Copy: src.Read returns n ≥ 0 bytes and an error (not EOF)
  | wr (toB : Bool)                  -- io.Copy: dst.Write takes the whole buffer
  | wrFail (toB : Bool) (k : Nat)    -- io.Copy: dst.Write returns k < |buffer| and an error / a short write
  | eof (toB : Bool)                 -- io.Copy: src.Read returns 0, io.EOF: the relay returns nil
  | shutdown                         -- serve(): errCh fired, timer, deferred Close of both connections
deriving DecidableEq, Repr

def St.get (s : St) (toB : Bool) : Dir := if toB then s.c2b else s.b2c
def St.set (s : St) (toB : Bool) (d : Dir) : St := if toB then { s with c2b := d } else { s with b2c := d }

/-- a relay can take a step: relays running, connections open, goroutine alive -/
def St.live (s : St) (toB : Bool) : Bool := s.stage == 2 && !s.shut && !(s.get toB).done

/-- enabledness + effect of one step; `none` = not enabled in this state -/
def step (s : St) : Step → Option St
  | .send toB bs =>
    let d := s.get toB
    if d.srcClosed then none else some (s.set toB { d with sent := d.sent ++ bs, inq := d.inq ++ bs })
  | .close toB =>
    let d := s.get toB
    if d.srcClosed then none else some (s.set toB { d with srcClosed := true })
  | .flushOk =>
    if s.shut then none
    else if s.stage = 0 then
      some { s with stage := 1, c2b := { s.c2b with out := s.c2b.out ++ s.c2b.preLeft, preLeft := [] } }
    else if s.stage = 1 then
      some { s with stage := 2, b2c := { s.b2c with out := s.b2c.out ++ s.b2c.preLeft, preLeft := [] } }
    else none
  | .flushFail k =>
    if s.shut then none
    else if s.stage = 0 ∧ k < s.c2b.preLeft.length then
      some { s with stage := 3, c2b := { s.c2b with out := s.c2b.out ++ s.c2b.preLeft.take k, preLeft := s.c2b.preLeft.drop k } }
    else if s.stage = 1 ∧ k < s.b2c.preLeft.length then
      some { s with stage := 3, b2c := { s.b2c with out := s.b2c.out ++ s.b2c.preLeft.take k, preLeft := s.b2c.preLeft.drop k } }
    else none
  | .rd toB n =>
    let d := s.get toB
    if s.live toB = false ∨ d.held ≠ [] ∨ d.rdErr = true ∨ n = 0 ∨ n > d.inq.length then none
    else some (s.set toB { d with inq := d.inq.drop n, held := d.inq.take n })
  | .rdE toB n =>
    let d := s.get toB
    if s.live toB = false ∨ d.held ≠ [] ∨ d.rdErr = true ∨ n > d.inq.length then none
    else some (s.set toB { d with inq := d.inq.drop n, held := d.inq.take n, rdErr := true, done := decide (n = 0) })
  | .wr toB =>
    let d := s.get toB
    if s.live toB = false ∨ d.held = [] then none
    else some (s.set toB { d with out := d.out ++ d.held, held := [], done := d.rdErr })
  | .wrFail toB k =>
    let d := s.get toB
    if s.live toB = false ∨ k ≥ d.held.length then none
    else some (s.set toB { d with out := d.out ++ d.held.take k, held := d.held.drop k, done := true })
  | .eof toB =>
    let d := s.get toB
    if s.live toB = false ∨ d.held ≠ [] ∨ d.rdErr = true ∨ d.srcClosed = false ∨ d.inq ≠ [] then none
    else some (s.set toB { d with done := true })
  | .shutdown =>
    if s.shut = true ∨ ¬ (s.stage = 3 ∨ s.c2b.done = true ∨ s.b2c.done = true) then none
    else some { s with shut := true }

/-- run a schedule; steps that are not enabled are skipped (so every list of steps is a schedule) -/
def runSched (s : St) : List Step → St
  | [] => s
  | a :: rest => runSched ((step s a).getD s) rest

/-- an error-free relay-side step is enabled (used to define quiescence) -/
def relayEnabled (s : St) : Bool :=
  (step s .flushOk).isSome || (step s .shutdown).isSome ||
  (step s (.eof true)).isSome || (step s (.eof false)).isSome ||
  (step s (.rd true 1)).isSome || (step s (.rd false 1)).isSome ||
  (step s (.wr true)).isSome || (step s (.wr false)).isSome

/-! canonical error-free schedule used by the driver to predict the final observation of a scripted case -/
def drain (s : St) : St :=
  let s := (step s .flushOk).getD s
  let s := (step s .flushOk).getD s
  let s := (step s (.rd true s.c2b.inq.length)).getD s
  let s := (step s (.wr true)).getD s
  let s := (step s (.rd false s.b2c.inq.length)).getD s
  let s := (step s (.wr false)).getD s
  let s := (step s (.eof true)).getD s
  let s := (step s (.eof false)).getD s
  (step s .shutdown).getD s

def runScript (s : St) : List Step → St
  | [] => drain s
  | a :: rest => runScript (drain ((step s a).getD s)) rest

/-!
  ### `bfe_tls.Conn.Write` (the client side of a TLS tunnel is written through it): the returned byte count

    var m int
    if len(b) > 1 && c.vers <= VersionTLS10 { if cipher is a BlockMode { writeRecord(b[:1]); m, b = 1, b[1:] } }
    n, err := c.writeRecord(recordTypeApplicationData, b); return n + m, err
  `writeRecord` cuts its argument into records of at most `maxPlaintext` bytes and returns the bytes consumed.
-/
def maxPlaintext : Nat := 16384

/-- lengths of the records `writeRecord` emits for `n` bytes -/
def frags : Nat → Nat → List Nat
  | 0, _ => []
  | fuel + 1, n => if n = 0 then [] else (min n maxPlaintext) :: frags fuel (n - min n maxPlaintext)

def writeRecordCount (n : Nat) : Nat := (frags (n + 1) n).sum

/-- the count `Conn.Write` returns for a buffer of `n` bytes when no record write fails -/
def writeCount (tls10OrOlder cbc : Bool) (n : Nat) : Nat :=
  if n > 1 ∧ tls10OrOlder = true ∧ cbc = true then writeRecordCount 1 + writeRecordCount (n - 1)
  else writeRecordCount n

end BfeVerif.C47
