/-
  C47 — model of the two tunnels:
    bfe_websocket/server_conn.go  serve / websocketDataTransfer  (flush of the two buffered prefixes, then two io.Copy
                                  goroutines, errCh, shutDownIn(250ms) -> deferred Close of both connections)
    bfe_stream/server_conn.go     serve / TLSProxyHandler        (two io.Copy goroutines, copyErrCh, same wait loop;
                                  no bufio in front of the tunnel: both prefixes are empty and `flushed` starts true)
  Core-only.  Granularity: one step = one peer action, the prefix flush, one read+write iteration of an io.Copy loop,
  the termination of a relay, or serve() closing both connections.  Any interleaving of these is a schedule.
-/
namespace BfeVerif.C47

abbrev Bytes := List UInt8

/-- one direction of the tunnel: `prefix (buffered at upgrade) ++ copy loop` -/
structure Dir where
  pre : Bytes          -- bytes already read into bfe's bufio reader behind the upgrade request / the 101 response
  sent : Bytes         -- (ghost) everything the source peer has written into the tunnel after that
  inq : Bytes          -- bytes of `sent` not yet read by the relay (socket buffers)
  out : Bytes          -- bytes written to the destination peer
  srcClosed : Bool     -- the source peer closed its side
  done : Bool          -- the relay goroutine returned (its error went to errCh)
deriving DecidableEq, Repr

structure St where
  c2b : Dir            -- client -> backend
  b2c : Dir            -- backend -> client
  flushed : Bool       -- websocketDataTransfer has written both prefixes (tls: true from the start)
  shut : Bool          -- serve() returned: cconn and bconn closed
deriving DecidableEq, Repr

def Dir.init (pre : Bytes) : Dir := { pre := pre, sent := [], inq := [], out := [], srcClosed := false, done := false }

def St.init (pc pb : Bytes) (flushed : Bool) : St :=
  { c2b := Dir.init pc, b2c := Dir.init pb, flushed := flushed, shut := false }

inductive Step
  | send (toB : Bool) (bs : Bytes)   -- the client (toB) / the backend writes bs
  | close (toB : Bool)               -- the client (toB) / the backend closes
  | flush                            -- `bconn.Write(cbuf)` then `cconn.Write(bbuf)`
  | copy (toB : Bool) (n : Nat)      -- one io.Copy iteration: read n available bytes, write them
  | eof (toB : Bool)                 -- io.Copy reads EOF (source closed, nothing left): relay returns nil
  | wfail (toB : Bool)               -- io.Copy's write fails (destination closed): relay returns the error
  | shutdown                         -- serve(): errCh fired, timer, deferred Close of both connections
deriving DecidableEq, Repr

def St.get (s : St) (toB : Bool) : Dir := if toB then s.c2b else s.b2c
def St.set (s : St) (toB : Bool) (d : Dir) : St := if toB then { s with c2b := d } else { s with b2c := d }

/-- enabledness + effect of one step; `none` = not enabled in this state -/
def step (s : St) : Step → Option St
  | .send toB bs =>
    let d := s.get toB
    if d.srcClosed then none else some (s.set toB { d with sent := d.sent ++ bs, inq := d.inq ++ bs })
  | .close toB =>
    let d := s.get toB
    if d.srcClosed then none else some (s.set toB { d with srcClosed := true })
  | .flush =>
    if s.flushed ∨ s.shut then none
    else some { s with flushed := true,
                       c2b := { s.c2b with out := s.c2b.out ++ s.c2b.pre },
                       b2c := { s.b2c with out := s.b2c.out ++ s.b2c.pre } }
  | .copy toB n =>
    let d := s.get toB
    if ¬ s.flushed ∨ s.shut ∨ d.done ∨ n = 0 ∨ n > d.inq.length then none
    else some (s.set toB { d with inq := d.inq.drop n, out := d.out ++ d.inq.take n })
  | .eof toB =>
    let d := s.get toB
    if ¬ s.flushed ∨ s.shut ∨ d.done ∨ ¬ d.srcClosed ∨ d.inq ≠ [] then none
    else some (s.set toB { d with done := true })
  | .wfail toB =>
    let d := s.get toB
    if ¬ s.flushed ∨ s.shut ∨ d.done ∨ ¬ (s.get (!toB)).srcClosed then none
    else some (s.set toB { d with done := true })
  | .shutdown =>
    if s.shut ∨ ¬ (s.c2b.done ∨ s.b2c.done) then none
    else some { s with shut := true }

/-- run a schedule; steps that are not enabled are skipped (so every list of steps is a schedule) -/
def runSched (s : St) : List Step → St
  | [] => s
  | a :: rest => runSched ((step s a).getD s) rest

/-- bytes accepted from the source but not (yet) written to the destination -/
def Dir.pending (d : Dir) (flushed : Bool) : Bytes := (if flushed then [] else d.pre) ++ d.inq

/-- a relay-side step is enabled (used to define quiescence) -/
def relayEnabled (s : St) : Bool :=
  (step s .flush).isSome || (step s .shutdown).isSome ||
  (step s (.eof true)).isSome || (step s (.eof false)).isSome ||
  (step s (.copy true 1)).isSome || (step s (.copy false 1)).isSome

/-! canonical schedule used by the driver to predict the final observation of a scripted case -/
def drain (s : St) : St :=
  let s := (step s .flush).getD s
  let s := (step s (.copy true s.c2b.inq.length)).getD s
  let s := (step s (.copy false s.b2c.inq.length)).getD s
  let s := (step s (.eof true)).getD s
  let s := (step s (.eof false)).getD s
  (step s .shutdown).getD s

def runScript (s : St) : List Step → St
  | [] => drain s
  | a :: rest => runScript (drain ((step s a).getD s)) rest

end BfeVerif.C47
