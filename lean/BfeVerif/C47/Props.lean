import BfeVerif.C47.Proofs
/-!
  C47 — WebSocket and TLS stream tunnels are byte-transparent.  Property theorems only.
  A schedule is ANY list of steps: peer writes of any size, closes in any order, the two prefix writes (each may fail
  after any number of bytes), reads of any chunk size with or without an error, complete and partial/failed writes,
  relay terminations, serve()'s shutdown; steps that are not enabled in the current state are skipped, so quantifying
  over all lists covers all chunkings, interleavings and error placements on either side.
-/
namespace BfeVerif.C47

/-- reachable from a websocket upgrade with `pc` / `pb` buffered behind the request / the 101 response -/
def reachWS (pc pb : Bytes) (sched : List Step) : St := runSched (St.init pc pb 0) sched
/-- reachable from a TLS stream tunnel -/
def reachTLS (sched : List Step) : St := runSched (St.init [] [] 2) sched

/-- **C47 (safety, every reachable state, with errors)**: what has been written to each destination is a PREFIX of
    `prefix buffered at the upgrade ++ everything the source sent`; the remainder is exactly: unwritten prefix,
    then io.Copy's buffer, then the socket queue.  Nothing is altered, duplicated, reordered or lost in the middle,
    whatever reads/writes fail or are partial. -/
theorem C47_transparent (pc pb : Bytes) (sched : List Step) :
    let s := reachWS pc pb sched
    s.c2b.out ++ (s.c2b.preLeft ++ (s.c2b.held ++ s.c2b.inq)) = pc ++ s.c2b.sent ∧
    s.b2c.out ++ (s.b2c.preLeft ++ (s.b2c.held ++ s.b2c.inq)) = pb ++ s.b2c.sent := by
  intro s
  obtain ⟨h1, h2, _⟩ := run_inv sched _ (inv_init pc pb)
  have hp := run_pre sched (St.init pc pb 0)
  unfold DirInv at h1 h2
  exact ⟨h1.trans (by rw [hp.1]; rfl), h2.trans (by rw [hp.2]; rfl)⟩

theorem C47_transparent_tls (sched : List Step) :
    let s := reachTLS sched
    s.c2b.out ++ (s.c2b.held ++ s.c2b.inq) = s.c2b.sent ∧
    s.b2c.out ++ (s.b2c.held ++ s.b2c.inq) = s.b2c.sent := by
  intro s
  obtain ⟨h1, h2, h3⟩ := run_inv sched _ inv_init_tls
  have hp := run_pre sched (St.init [] [] 2)
  -- prefixes are empty from the start and stay empty
  have hpl : ∀ (sched : List Step) (s0 : St), s0.c2b.preLeft = [] → s0.b2c.preLeft = [] →
      (runSched s0 sched).c2b.preLeft = [] ∧ (runSched s0 sched).b2c.preLeft = [] := by
    intro sched
    induction sched with
    | nil => intro s0 a b; exact ⟨a, b⟩
    | cons st rest ih =>
      intro s0 a b
      unfold runSched
      cases hs : step s0 st with
      | none => simpa using ih s0 a b
      | some s1 =>
        simp only [Option.getD_some]
        apply ih s1
        · cases st with
          | send toB bs => cases toB <;> simp [step, St.get, St.set] at hs <;> obtain ⟨_, rfl⟩ := hs <;> exact a
          | close toB => cases toB <;> simp [step, St.get, St.set] at hs <;> obtain ⟨_, rfl⟩ := hs <;> exact a
          | flushOk => simp only [step] at hs; repeat' (first | (simp at hs; done) | (simp at hs; subst hs; first | rfl | exact a) | split at hs)
          | flushFail k => simp only [step] at hs; repeat' (first | (simp at hs; done) | (simp at hs; subst hs; first | (simp [a]; done) | exact a) | split at hs)
          | rd toB n => cases toB <;> simp [step, St.get, St.set] at hs <;> obtain ⟨_, rfl⟩ := hs <;> exact a
          | rdE toB n => cases toB <;> simp [step, St.get, St.set] at hs <;> obtain ⟨_, rfl⟩ := hs <;> exact a
          | wr toB => cases toB <;> simp [step, St.get, St.set] at hs <;> obtain ⟨_, rfl⟩ := hs <;> exact a
          | wrFail toB k => cases toB <;> simp [step, St.get, St.set] at hs <;> obtain ⟨_, rfl⟩ := hs <;> exact a
          | eof toB => cases toB <;> simp [step, St.get, St.set] at hs <;> obtain ⟨_, rfl⟩ := hs <;> exact a
          | shutdown => simp [step] at hs; obtain ⟨_, rfl⟩ := hs; exact a
        · cases st with
          | send toB bs => cases toB <;> simp [step, St.get, St.set] at hs <;> obtain ⟨_, rfl⟩ := hs <;> exact b
          | close toB => cases toB <;> simp [step, St.get, St.set] at hs <;> obtain ⟨_, rfl⟩ := hs <;> exact b
          | flushOk => simp only [step] at hs; repeat' (first | (simp at hs; done) | (simp at hs; subst hs; first | rfl | exact b) | split at hs)
          | flushFail k => simp only [step] at hs; repeat' (first | (simp at hs; done) | (simp at hs; subst hs; first | (simp [b]; done) | exact b) | split at hs)
          | rd toB n => cases toB <;> simp [step, St.get, St.set] at hs <;> obtain ⟨_, rfl⟩ := hs <;> exact b
          | rdE toB n => cases toB <;> simp [step, St.get, St.set] at hs <;> obtain ⟨_, rfl⟩ := hs <;> exact b
          | wr toB => cases toB <;> simp [step, St.get, St.set] at hs <;> obtain ⟨_, rfl⟩ := hs <;> exact b
          | wrFail toB k => cases toB <;> simp [step, St.get, St.set] at hs <;> obtain ⟨_, rfl⟩ := hs <;> exact b
          | eof toB => cases toB <;> simp [step, St.get, St.set] at hs <;> obtain ⟨_, rfl⟩ := hs <;> exact b
          | shutdown => simp [step] at hs; obtain ⟨_, rfl⟩ := hs; exact b
  have hl := hpl sched (St.init [] [] 2) rfl rfl
  unfold DirInv at h1 h2
  change s.c2b.out ++ (s.c2b.preLeft ++ (s.c2b.held ++ s.c2b.inq)) = s.c2b.pre ++ s.c2b.sent at h1
  change s.b2c.out ++ (s.b2c.preLeft ++ (s.b2c.held ++ s.b2c.inq)) = s.b2c.pre ++ s.b2c.sent at h2
  have e1 : s.c2b.pre = [] := hp.1
  have e2 : s.b2c.pre = [] := hp.2
  have l1 : s.c2b.preLeft = [] := hl.1
  have l2 : s.b2c.preLeft = [] := hl.2
  rw [e1, l1] at h1; rw [e2, l2] at h2
  exact ⟨by simpa using h1, by simpa using h2⟩

/-- the destination stream is a prefix of the source stream (corollary, in the usual notation) -/
theorem C47_prefix (pc pb : Bytes) (sched : List Step) :
    let s := reachWS pc pb sched
    s.c2b.out <+: pc ++ s.c2b.sent ∧ s.b2c.out <+: pb ++ s.b2c.sent := by
  intro s
  have h := C47_transparent pc pb sched
  exact ⟨⟨_, h.1⟩, ⟨_, h.2⟩⟩

/-- **equal at clean EOF**: a relay can return nil (its source reached EOF) only when its destination has received
    every byte the source ever sent, prefix included -/
theorem C47_eof_delivers_all (pc pb : Bytes) (sched : List Step) (toB : Bool) :
    let s := reachWS pc pb sched
    (step s (.eof toB)).isSome →
    (s.get toB).out = (if toB then pc else pb) ++ (s.get toB).sent := by
  intro s he
  have h := C47_transparent pc pb sched
  obtain ⟨_, _, h3⟩ := run_inv sched _ (inv_init pc pb)
  change StageInv s at h3
  change s.c2b.out ++ (s.c2b.preLeft ++ (s.c2b.held ++ s.c2b.inq)) = pc ++ s.c2b.sent ∧
    s.b2c.out ++ (s.b2c.preLeft ++ (s.b2c.held ++ s.b2c.inq)) = pb ++ s.b2c.sent at h
  cases toB
  · simp [step, St.get, St.live] at he
    obtain ⟨⟨hst, _, _⟩, hh, _, _, hi⟩ := he
    have hp := (h3.2.1 hst).2
    simpa [St.get, hp, hh, hi] using h.2
  · simp [step, St.get, St.live] at he
    obtain ⟨⟨hst, _, _⟩, hh, _, _, hi⟩ := he
    have hp := (h3.2.1 hst).1
    simpa [St.get, hp, hh, hi] using h.1

/-- **completeness at rest**: whenever no error-free relay step is left and the tunnel is still open, each side has
    received exactly everything the other side sent -/
theorem C47_transparent_at_rest (pc pb : Bytes) (sched : List Step) :
    let s := reachWS pc pb sched
    relayEnabled s = false → s.shut = false →
    s.c2b.out = pc ++ s.c2b.sent ∧ s.b2c.out = pb ++ s.b2c.sent := by
  intro s hq hs
  obtain ⟨_, _, h3⟩ := run_inv sched _ (inv_init pc pb)
  change StageInv s at h3
  have hf : FlagInv s := run_flag sched _ (flag_init pc pb 0)
  obtain ⟨hst, hi1, hi2, hh1, hh2, _, _⟩ := rest_open s h3.2.2 hf hq hs
  have h := C47_transparent pc pb sched
  change s.c2b.out ++ (s.c2b.preLeft ++ (s.c2b.held ++ s.c2b.inq)) = pc ++ s.c2b.sent ∧
    s.b2c.out ++ (s.b2c.preLeft ++ (s.b2c.held ++ s.b2c.inq)) = pb ++ s.b2c.sent at h
  have hp := h3.2.1 hst
  simpa [hp.1, hp.2, hi1, hi2, hh1, hh2] using h

/-- **the write-failure race, positive half**: a direction whose relay has caught up (queue and buffer empty, relays
    started) has delivered everything — no matter what happened to the OTHER relay (failed write, error, returned).
    So bytes of the healthy direction are lost only if serve()'s shutdown (250 ms after the first errCh message)
    comes before that relay has drained what was already sent. -/
theorem C47_idle_direction_complete (pc pb : Bytes) (sched : List Step) (toB : Bool) :
    let s := reachWS pc pb sched
    s.stage = 2 → (s.get toB).inq = [] → (s.get toB).held = [] →
    (s.get toB).out = (if toB then pc else pb) ++ (s.get toB).sent := by
  intro s hst hi hh
  obtain ⟨_, _, h3⟩ := run_inv sched _ (inv_init pc pb)
  change StageInv s at h3
  have h := C47_transparent pc pb sched
  change s.c2b.out ++ (s.c2b.preLeft ++ (s.c2b.held ++ s.c2b.inq)) = pc ++ s.c2b.sent ∧
    s.b2c.out ++ (s.b2c.preLeft ++ (s.b2c.held ++ s.b2c.inq)) = pb ++ s.b2c.sent at h
  have hp := h3.2.1 hst
  cases toB
  · simp [St.get] at hi hh ⊢; simpa [hp.2, hi, hh] using h.2
  · simp [St.get] at hi hh ⊢; simpa [hp.1, hi, hh] using h.1

/-- **the write-failure race, negative half** (what the model allows and the 250 ms grace period is for): the backend
    relay's write to the client fails while the client's bytes 1 2 3 are still in the socket queue; serve() shuts
    down before the client→backend relay runs; the live backend never sees them.  Safety still holds (prefix). -/
theorem C47_witness_race_drops_suffix :
    let s := reachWS [] [] [.flushOk, .flushOk, .send true [1, 2, 3], .send false [9], .rd false 1, .wrFail false 0, .shutdown]
    s.shut = true ∧ s.c2b.out = [] ∧ s.c2b.inq = [1, 2, 3] ∧ s.c2b.srcClosed = false ∧ s.b2c.srcClosed = false ∧
    relayEnabled s = false := by decide

/-- **close propagation**: in every reachable state in which no error-free relay step is left to take, if either peer
    has closed then serve() has closed both connections; the same after any relay error or failed prefix write -/
theorem C47_close_propagates (pc pb : Bytes) (sched : List Step) :
    let s := reachWS pc pb sched
    relayEnabled s = false →
    (s.c2b.srcClosed = true ∨ s.b2c.srcClosed = true ∨ s.c2b.done = true ∨ s.b2c.done = true ∨ s.stage = 3) →
    s.shut = true := by
  intro s hq hc
  obtain ⟨_, _, h3⟩ := run_inv sched _ (inv_init pc pb)
  change StageInv s at h3
  have hf : FlagInv s := run_flag sched _ (flag_init pc pb 0)
  rcases hc with h | h | h | h | h
  · exact rest_closed s h3.2.2 hf hq (Or.inl h)
  · exact rest_closed s h3.2.2 hf hq (Or.inr h)
  all_goals
    cases hs : s.shut
    · exfalso
      obtain ⟨hst, _, _, _, _, hd1, hd2⟩ := rest_open s h3.2.2 hf hq hs
      simp_all
    · rfl

/-- after serve() closed the connections nothing is relayed any more -/
theorem C47_shut_is_final (s : St) (hs : s.shut = true) (toB : Bool) (n : Nat) :
    step s (.rd toB n) = none ∧ step s (.wr toB) = none ∧ step s .flushOk = none := by
  cases toB <;> simp [step, St.live, hs]

/-- **io.Writer contract of `bfe_tls.Conn.Write`** (model): for every protocol version, cipher kind and length the
    returned count is the length of the buffer — the 1/n-1 split contributes 1 + (n-1), the fragment loop over
    `maxPlaintext` sums to its argument.  io.Copy relies on this (a smaller count with a nil error is ErrShortWrite and
    ends the relay); the harness checks the real `Conn.Write` against it for TLS 1.0/1.1 CBC and TLS 1.2 CBC/AEAD. -/
theorem C47_tls_write_count (tls10OrOlder cbc : Bool) (n : Nat) : writeCount tls10OrOlder cbc n = n := by
  unfold writeCount writeRecordCount
  split
  · rename_i h
    rw [frags_sum _ _ (by omega), frags_sum _ _ (by omega)]; omega
  · exact frags_sum _ _ (by omega)

/-! non-vacuity: pipelined data, chunked reads, a partial write failure, a read error with data, a client close -/
example :
    let s := reachWS [1, 2] [9]
      [.send true [3, 4, 5], .flushOk, .flushOk, .send false [8, 7], .rd true 2, .wr true, .rd false 1, .wr false,
       .close true, .rd true 1, .wr true, .rd false 1, .wr false, .eof true, .shutdown]
    s.c2b.out = [1, 2, 3, 4, 5] ∧ s.b2c.out = [9, 8, 7] ∧ s.shut = true ∧ relayEnabled s = false := by decide
example :
    let s := reachWS [] [] [.flushOk, .flushOk, .send true [1, 2, 3, 4], .rd true 3, .wrFail true 2, .shutdown]
    s.c2b.out = [1, 2] ∧ s.c2b.held = [3] ∧ s.c2b.inq = [4] ∧ s.shut = true := by decide
example :
    let s := reachWS [] [] [.flushOk, .flushOk, .send true [1, 2], .rdE true 2, .wr true]
    s.c2b.out = [1, 2] ∧ s.c2b.done = true := by decide
example :
    let s := reachWS [1, 2, 3] [] [.flushFail 1, .shutdown]
    s.c2b.out = [1] ∧ s.stage = 3 ∧ s.shut = true := by decide

example : frags 40001 40000 = [16384, 16384, 7232] := by decide

end BfeVerif.C47
