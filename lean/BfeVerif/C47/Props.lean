import BfeVerif.C47.Proofs
/-!
  C47 — WebSocket and TLS stream tunnels are byte-transparent.  Property theorems only.
  A schedule is ANY list of steps (peer writes of any size, closes in any order, the prefix flush, io.Copy
  iterations of any chunk size in either direction, relay terminations, serve()'s shutdown); steps that are not
  enabled in the current state are skipped, so quantifying over all lists covers all chunkings and interleavings.
-/
namespace BfeVerif.C47

/-- **C47 (safety, every reachable state)**: in both directions, what has been written to the destination followed by what is
    still pending (unflushed prefix, then socket queue) is exactly `prefix buffered at the upgrade ++ everything
    the source sent` — so the destination's stream is always a prefix of the source's stream: nothing lost in the
    middle, duplicated, altered or reordered, including the bytes that arrived together with the upgrade request /
    the 101 response. -/
theorem C47_transparent (pc pb : Bytes) (sched : List Step) :
    let s := runSched (St.init pc pb false) sched
    s.c2b.out ++ s.c2b.pending s.flushed = pc ++ s.c2b.sent ∧
    s.b2c.out ++ s.b2c.pending s.flushed = pb ++ s.b2c.sent := by
  intro s
  have h := run_inv sched _ (inv_init pc pb)
  have hpre : ∀ (sched : List Step) (s0 : St), (runSched s0 sched).c2b.pre = s0.c2b.pre ∧ (runSched s0 sched).b2c.pre = s0.b2c.pre := by
    intro sched
    induction sched with
    | nil => intro s0; exact ⟨rfl, rfl⟩
    | cons a rest ih =>
      intro s0
      unfold runSched
      cases hs : step s0 a with
      | none => simpa using ih s0
      | some s1 =>
        have := ih s1
        have hp : s1.c2b.pre = s0.c2b.pre ∧ s1.b2c.pre = s0.b2c.pre := by
          cases a with
          | send toB bs => cases toB <;> simp [step, St.get, St.set] at hs <;> obtain ⟨_, rfl⟩ := hs <;> exact ⟨rfl, rfl⟩
          | close toB => cases toB <;> simp [step, St.get, St.set] at hs <;> obtain ⟨_, rfl⟩ := hs <;> exact ⟨rfl, rfl⟩
          | flush => simp [step] at hs; obtain ⟨_, rfl⟩ := hs; exact ⟨rfl, rfl⟩
          | copy toB n => cases toB <;> simp [step, St.get, St.set] at hs <;> obtain ⟨_, rfl⟩ := hs <;> exact ⟨rfl, rfl⟩
          | eof toB => cases toB <;> simp [step, St.get, St.set] at hs <;> obtain ⟨_, rfl⟩ := hs <;> exact ⟨rfl, rfl⟩
          | wfail toB => cases toB <;> simp [step, St.get, St.set] at hs <;> obtain ⟨_, rfl⟩ := hs <;> exact ⟨rfl, rfl⟩
          | shutdown => simp [step] at hs; obtain ⟨_, rfl⟩ := hs; exact ⟨rfl, rfl⟩
        simp only [Option.getD_some]
        exact ⟨this.1.trans hp.1, this.2.trans hp.2⟩
  have hp := hpre sched (St.init pc pb false)
  obtain ⟨h1, h2⟩ := h
  unfold DirInv at h1 h2
  refine ⟨?_, ?_⟩
  · rw [h1]; congr 1; exact hp.1
  · rw [h2]; congr 1; exact hp.2

/-- the TLS stream tunnel (no bufio in front: empty prefixes, nothing to flush) -/
theorem C47_transparent_tls (sched : List Step) :
    let s := runSched (St.init [] [] true) sched
    s.c2b.out ++ s.c2b.pending s.flushed = s.c2b.pre ++ s.c2b.sent ∧
    s.b2c.out ++ s.b2c.pending s.flushed = s.b2c.pre ++ s.b2c.sent := by
  intro s
  exact run_inv sched _ inv_init_tls

/-- **C47 (completeness at rest)**: whenever the relays have nothing left to do and the tunnel is still open, each side has
    received exactly everything the other side sent (prefix included). -/
theorem C47_transparent_at_rest (pc pb : Bytes) (sched : List Step) :
    let s := runSched (St.init pc pb false) sched
    relayEnabled s = false → s.shut = false →
    s.c2b.out = pc ++ s.c2b.sent ∧ s.b2c.out = pb ++ s.b2c.sent := by
  intro s hq hs
  obtain ⟨hf, hi1, hi2, _, _⟩ := rest_open s hq hs
  have h := C47_transparent pc pb sched
  simp only [] at h
  change s.c2b.out ++ s.c2b.pending s.flushed = pc ++ s.c2b.sent ∧ s.b2c.out ++ s.b2c.pending s.flushed = pb ++ s.b2c.sent at h
  simpa [Dir.pending, hf, hi1, hi2] using h

/-- a relay returns cleanly (EOF of its source) only after it has delivered every byte its source ever sent -/
theorem C47_eof_delivers_all (pc pb : Bytes) (sched : List Step) (toB : Bool) :
    let s := runSched (St.init pc pb false) sched
    (step s (.eof toB)).isSome →
    (s.get toB).out = (if toB then pc else pb) ++ (s.get toB).sent := by
  intro s he
  have h := C47_transparent pc pb sched
  change s.c2b.out ++ s.c2b.pending s.flushed = pc ++ s.c2b.sent ∧ s.b2c.out ++ s.b2c.pending s.flushed = pb ++ s.b2c.sent at h
  cases toB
  · simp [step, St.get] at he
    obtain ⟨hf, _, _, _, hi⟩ := he
    simpa [St.get, Dir.pending, hf, hi] using h.2
  · simp [step, St.get] at he
    obtain ⟨hf, _, _, _, hi⟩ := he
    simpa [St.get, Dir.pending, hf, hi] using h.1

/-- **C47 (close propagation)**: in every state in which no relay-side step is left to take, if either peer has closed then serve()
    has closed both connections.  (Holds for every state, hence for every schedule run to quiescence.) -/
theorem C47_close_propagates (s : St) (hq : relayEnabled s = false)
    (hc : s.c2b.srcClosed = true ∨ s.b2c.srcClosed = true) : s.shut = true :=
  rest_closed s hq hc

/-- after serve() closed the connections nothing is relayed any more -/
theorem C47_shut_is_final (s : St) (hs : s.shut = true) (toB : Bool) (n : Nat) :
    step s (.copy toB n) = none ∧ step s .flush = none := by
  cases toB <;> simp [step, hs]

/-! non-vacuity: a schedule with data pipelined behind the upgrade, interleaved chunked copies and a client close -/
example :
    let s := runSched (St.init [1, 2] [9] false)
      [.send true [3, 4, 5], .flush, .send false [8, 7], .copy true 2, .copy false 1, .close true, .copy true 1,
       .copy false 1, .eof true, .shutdown]
    s.c2b.out = [1, 2, 3, 4, 5] ∧ s.b2c.out = [9, 8, 7] ∧ s.shut = true ∧ relayEnabled s = false := by decide

example : relayEnabled (runSched (St.init [1] [] false) [.send true [2]]) = true := by decide

end BfeVerif.C47
