import BfeVerif.C47.Driver
def main : IO Unit := BfeVerif.Proto.driverMain BfeVerif.C47.run
