import BfeVerif.Common.Proto
import BfeVerif.C47.Model
/-!
  C47 driver.
  op     : `<ws|tls|tlsr|t10c|t11c|t12c|t12g>;pc=<hex>;pb=<hex>;s=<step>,...`   step = `c:<hex>` | `b:<hex>` | `xc` | `xb`
  result : `B=<hex backend received> C=<hex client received> bclosed=<0|1> cclosed=<0|1>`
  (tlsr = TLS stream tunnel over a RESUMED session whose first application data travels in the same write as the
   client's ChangeCipherSpec+Finished; for the model it is a TLS tunnel whose first client write is pc)
  model  : the scripted steps run through `runScript` (relays drained after every peer action)
  oracle : (independent of the model) B = pc ++ all client writes, C = pb ++ all backend writes, both sides closed
-/
namespace BfeVerif.C47
open BfeVerif.Proto

inductive Sc
  | c (b : Bytes) | b (b : Bytes) | xc | xb

def parseStep (s : String) : Option Sc :=
  if s == "xc" || s == "hc" then some .xc else if s == "xb" || s == "hb" then some .xb
  else if s.startsWith "c:" || s.startsWith "C:" then (bytesOfHex (s.drop 2).toString).map .c
  else if s.startsWith "b:" || s.startsWith "B:" then (bytesOfHex (s.drop 2).toString).map .b
  else none

def stripKey (s k : String) : Option String :=
  if s.startsWith k then some (s.drop k.length).toString else none

def render (B C : Bytes) (bc cc : Bool) : String :=
  "B=" ++ hexField B ++ " C=" ++ hexField C ++ " bclosed=" ++ (if bc then "1" else "0") ++
  " cclosed=" ++ (if cc then "1" else "0")

def sizeTag (n : Nat) : String :=
  if n = 0 then "z0" else if n < 4096 then "small" else if n ≤ 32768 then "mid" else "big"

/-- `wr;v=<t10c|t11c|t12c|t12g>;n=<len>,...`: the `Conn.Write` contract -/
def runWrite (v ns impl : String) : Ans :=
  match (ns.splitOn ",").mapM String.toNat? with
  | none => { model := "bad-op", verdict := "skip" }
  | some lens =>
    let ks := lens.map fun n => toString (writeCount (v == "t10c") (v != "t12g") n) ++ "/0"
    let m := "k=" ++ ",".intercalate ks ++ " rcv=" ++ toString lens.sum ++ " same=1"
    -- spec: every Write returns (len, nil) and the peer receives exactly those bytes
    let spec := "k=" ++ ",".intercalate (lens.map fun n => toString n ++ "/0") ++ " rcv=" ++ toString lens.sum ++ " same=1"
    { model := m
      verdict := if impl == spec then "ok" else "FAIL:tls-write-count-contract"
      tags := ["wr", v] ++ (if lens.any (· > 1) then ["nt"] else []) ++ (if lens.any (· > 16384) then ["multi-record"] else []) }

def wsProtos : List String := ["ws", "wss", "wss0"]
def tunnelProtos : List String := ["ws", "wss", "wss0", "tls", "tlsr", "t10c", "t11c", "t12c", "t12g"]

/-- what bfe_server's response writer adds to the 101 response: only `Date` (after fix bb8afff; before it also
    Content-Type and Transfer-Encoding: chunked) -/
def wsSuffixModel : String := " hs=ok x=date"

/-- split an implementation result of a websocket case into the stream part and the two handshake fields -/
def splitWs (impl : String) : Option (String × String × String) :=
  match impl.splitOn " hs=" with
  | [base, rest] =>
    match rest.splitOn " x=" with
    | [hs, x] => some (base, hs, x)
    | _ => none
  | _ => none

/-- spec for the upgrade handshake: nothing of the request / the 101 response is lost or altered, and bfe does not
    add message-framing headers to a 101 response (RFC 7230 §3.3.1/§3.3.2) -/
def wsVerdict (hs x : String) : Option String :=
  if hs != "ok" then some "ws-handshake-header-lost"
  else if (x.splitOn "+").any (fun h => h == "transfer-encoding" || h == "content-length") then some "ws-101-framing-headers"
  else none

/-- `big;p=<proto>;c=<n>;b=<n>;slow=<c|b|->;x=<c|b>` -/
def runBig (fields : List String) (impl : String) : Ans :=
  let get (k : String) : Option String := fields.findSome? fun f => stripKey f (k ++ "=")
  match get "p", (get "c").bind String.toNat?, (get "b").bind String.toNat?, get "slow", get "x" with
  | some p, some nc, some nb, some slow, some _ =>
    if !tunnelProtos.contains p then { model := "bad-op", verdict := "skip" } else
    let base := "B=" ++ toString nc ++ "/ok C=" ++ toString nb ++ "/ok bclosed=1 cclosed=1"
    let ws := wsProtos.contains p
    let m := base ++ (if ws then wsSuffixModel else "")
    let (ibase, wsv) : String × Option String :=
      if ws then
        match splitWs impl with
        | some (b, hs, x) => (b, wsVerdict hs x)
        | none => (impl, some "unparsable-result")
      else (impl, none)
    let verdict :=
      if ibase != base then
        (match ibase.splitOn " " with
         | [fb, fc, _, _] =>
           if fb != "B=" ++ toString nc ++ "/ok" then "FAIL:big-c2b-differ"
           else if fc != "C=" ++ toString nb ++ "/ok" then "FAIL:big-b2c-differ"
           else "FAIL:big-close-not-propagated"
         | _ => "FAIL:harness-" ++ impl)
      else match wsv with
        | some c => "FAIL:" ++ c
        | none => "ok"
    { model := m, verdict := verdict
      tags := ["big", p, "slow-" ++ slow, "total-" ++ sizeTag (nc + nb)] ++ (if nc + nb > 0 then ["nt"] else []) }
  | _, _, _, _, _ => { model := "bad-op", verdict := "skip" }

def run (op impl : String) : Ans :=
  match op.splitOn ";" with
  | "big" :: fields => runBig fields impl
  | ["wr", fv, fn] =>
    match stripKey fv "v=", stripKey fn "n=" with
    | some v, some ns => runWrite v ns impl
    | _, _ => { model := "bad-op", verdict := "skip" }
  | [proto, fpc, fpb, fs] =>
    match stripKey fpc "pc=", stripKey fpb "pb=", stripKey fs "s=" with
    | some hpc, some hpb, some hs =>
      match bytesOfHex hpc, bytesOfHex hpb, (if hs == "-" then some [] else (hs.splitOn ",").mapM parseStep) with
      | some pc, some pb, some script =>
        if !(tunnelProtos.contains proto) then { model := "bad-op", verdict := "skip" } else
        let ws := wsProtos.contains proto
        -- steps up to and including the first (half-)close; a script without close ends with the client closing
        let rec cut : List Sc → List Sc
          | [] => [.xc]
          | .xc :: _ => [.xc]
          | .xb :: _ => [.xb]
          | x :: r => x :: cut r
        let sc := cut script
        let steps : List Step := sc.map fun
          | .c b => .send true b
          | .b b => .send false b
          | .xc => .close true
          | .xb => .close false
        -- ws*: the pipelined bytes sit in bfe's bufio readers (prefixes); tls*: they are ordinary first writes
        let fin := if ws then runScript (St.init pc pb 0) steps
                   else runScript (St.init [] [] 2) (.send true pc :: .send false pb :: steps)
        let m := render fin.c2b.out fin.b2c.out fin.shut fin.shut ++ (if ws then wsSuffixModel else "")
        -- spec oracle
        let expB := pc ++ (sc.map fun | .c b => b | _ => []).flatten
        let expC := pb ++ (sc.map fun | .b b => b | _ => []).flatten
        let spec := render expB expC true true
        let (ibase, wsv) : String × Option String :=
          if ws then
            match splitWs impl with
            | some (b, hs, x) => (b, wsVerdict hs x)
            | none => (impl, some "unparsable-result")
          else (impl, none)
        let cls :=
          if impl.startsWith "err:" || impl == "HANG" || impl.startsWith "PANIC" then "harness-" ++ impl
          else match (ibase.splitOn " ") with
            | [fb, fc, fbc, fcc] =>
              if fb != "B=" ++ hexField expB then
                (if proto == "tlsr" then "c2b-bytes-lost-at-handshake" else "c2b-bytes-differ")
              else if fc != "C=" ++ hexField expC then "b2c-bytes-differ"
              else if fbc != "bclosed=1" then "close-not-propagated-to-backend"
              else if fcc != "cclosed=1" then "close-not-propagated-to-client"
              else "other"
            | _ => "unparsable-result"
        let closer := if sc.any (fun | .xb => true | _ => false) then "backend-closes" else "client-closes"
        let half := if hs.endsWith "hc" || hs.endsWith "hb" then ["half-close"] else []
        let nsend := (sc.filter fun | .c _ => true | .b _ => true | _ => false).length
        { model := m
          verdict := if ibase != spec then "FAIL:" ++ cls
                     else match wsv with
                       | some c => "FAIL:" ++ c
                       | none => "ok"
          tags := [proto, closer, "pc-" ++ sizeTag pc.length, "pb-" ++ sizeTag pb.length,
                   "total-" ++ sizeTag (expB.length + expC.length), "sends-" ++ toString nsend] ++ half
                  ++ (if expB.length + expC.length > 0 then ["nt"] else []) }
      | _, _, _ => { model := "bad-op", verdict := "skip" }
    | _, _, _ => { model := "bad-op", verdict := "skip" }
  | _ => { model := "bad-op", verdict := "skip" }

end BfeVerif.C47
