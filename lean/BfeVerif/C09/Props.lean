import BfeVerif.C09.Proofs
/-!
  C09 — balancer reload keeps surviving state and releases removed targets once.
  Property theorems only.  FULL property (what `ReleaseOk` + the driver's oracle demand after every reload of any
  history): reachable objects are unreleased, every object that left the table was released exactly once, the table shows
  exactly the configured backends, survivors keep avail/failNum/connNum.  The unchanged code violates it in two ways
  (witness theorems below, both replayed on the real code, see corpus/C09/known.ops):
    * a sub-cluster (or cluster) that the gslb conf names but the cluster table lacks keeps its old backends;
    * `BalanceGslb.Reload` returns its "total weight = 0" error AFTER releasing vanished sub-clusters, keeping them listed.
  Proved here: the merge `BalanceRR.Update` at full strength for arbitrary lists (duplicates included), the
  sub-cluster merge `BalanceGslb.Reload` on its non-error path, and the two witnesses.  The table-level composition
  over whole reload histories is `_partial` (exercised by the correspondence run, not proved).
-/
namespace BfeVerif.C09

/-- Update releases each removed backend exactly once and never a kept one: if no old backend was released before,
    the new list contains only unreleased objects and every released object has count exactly 1. -/
theorem C09_update_release_once (old : List Backend) (conf : List BConf)
    (h0 : ∀ o ∈ old, o.released = 0) :
    (∀ b ∈ (rrUpdate old conf).1, b.released = 0) ∧ (∀ b ∈ (rrUpdate old conf).2, b.released = 1) := by
  obtain ⟨h1, h2, _, _⟩ := updLoop_spec old (confMap conf)
  unfold rrUpdate
  simp only []
  refine ⟨fun b hb => ?_, fun b hb => ?_⟩
  · rcases List.mem_append.mp hb with hb | hb
    · obtain ⟨o, ho, w, rfl⟩ := h1 b hb
      exact h0 o ho
    · obtain ⟨c, _, rfl⟩ := List.mem_map.mp hb
      rfl
  · obtain ⟨o, ho, rfl⟩ := h2 b hb
    simp [rel, h0 o ho]

/-- Nothing is lost and nothing is duplicated by identity: every old backend is either kept — the SAME object, only
    its weight rewritten, so avail / failNum / connNum / name survive — or it is in the released list. -/
theorem C09_update_survivor_state (old : List Backend) (conf : List BConf) :
    (∀ o ∈ old, (∃ w, { o with weight := w } ∈ (rrUpdate old conf).1) ∨ rel o ∈ (rrUpdate old conf).2) ∧
    (∀ b ∈ (rrUpdate old conf).1, (∃ o ∈ old, ∃ w, b = { o with weight := w }) ∨ (∃ c ∈ conf, b = mkNew c)) := by
  obtain ⟨h1, _, h3, h4⟩ := updLoop_spec old (confMap conf)
  unfold rrUpdate
  simp only []
  refine ⟨fun o ho => ?_, fun b hb => ?_⟩
  · rcases h4 o ho with ⟨w, hw⟩ | hr
    · exact Or.inl ⟨w, List.mem_append_left _ hw⟩
    · exact Or.inr hr
  · rcases List.mem_append.mp hb with hb | hb
    · exact Or.inl (h1 b hb)
    · obtain ⟨c, hc, rfl⟩ := List.mem_map.mp hb
      exact Or.inr ⟨c, confMap_sub conf c (h3 c (List.mem_mergeSort.mp hc)), rfl⟩

/-- Newly added backends are selectable: fresh objects are available, unreleased, with the configured weight. -/
theorem C09_added_selectable (c : BConf) :
    (mkNew c).avail = true ∧ (mkNew c).released = 0 ∧ (mkNew c).weight = c.weight * 100 ∧
    (mkNew c).failNum = 0 ∧ (mkNew c).connNum = 0 := ⟨rfl, rfl, rfl, rfl, rfl⟩

/-- Sub-cluster merge, non-error path: kept sub-clusters keep their backend lists untouched (only the weight is
    rewritten), new ones start empty, and exactly the backends of vanished sub-clusters leave, each released once more. -/
theorem C09_gslb_reload_ok (c : Cluster) (gc : List (String × Int)) (hok : (gslbReload c gc).2.2 = false) :
    (∀ s ∈ (gslbReload c gc).1.subs, (∃ o ∈ c.subs, s.backs = o.backs ∧ s.name = o.name) ∨ s.backs = []) ∧
    (∀ b ∈ (gslbReload c gc).2.1, ∃ o ∈ c.subs, gc.lookup o.name = none ∧ ∃ x ∈ o.backs, b = rel x) := by
  unfold gslbReload at hok ⊢
  simp only [] at hok ⊢
  split at hok
  · simp at hok
  · rename_i hne
    simp only [hne]
    refine ⟨fun s hs => ?_, fun b hb => ?_⟩
    · rcases List.mem_append.mp (List.mem_mergeSort.mp hs) with hs | hs
      · obtain ⟨o, ho, hso⟩ := List.mem_filterMap.mp hs
        cases hl : gc.lookup o.name with
        | none => simp [hl] at hso
        | some w => simp [hl] at hso; subst hso; exact Or.inl ⟨o, ho, rfl, rfl⟩
      · obtain ⟨p, _, rfl⟩ := List.mem_map.mp hs
        exact Or.inr rfl
    · obtain ⟨s, hs, hbs⟩ := List.mem_flatMap.mp hb
      obtain ⟨o, ho, rfl⟩ := List.mem_map.mp hs
      obtain ⟨ho1, ho2⟩ := List.mem_filter.mp ho
      refine ⟨o, ho1, by simpa using ho2, ?_⟩
      simp only [relSub] at hbs
      obtain ⟨x, hx, rfl⟩ := List.mem_map.mp hbs
      exact ⟨x, hx, rfl⟩

/-! ### witnesses: the unchanged code violates the full property -/

/-- WITNESS (class `subcluster-missing-in-table-keeps-backends`): a sub-cluster that the cluster table does not
    mention is skipped by `BackendReload`, so whatever backends it had stay in the table, unreleased and selectable,
    although the configuration no longer contains them. -/
theorem C09_witness_missing_sub_keeps_backends (c : Cluster) (cb : List (String × List BConf)) (s : Sub)
    (hs : s ∈ c.subs) (hmiss : cb.lookup s.name = none) : s ∈ (backendReload c cb).1.subs := by
  unfold backendReload
  simp only [List.map_map]
  refine List.mem_map.mpr ⟨s, hs, ?_⟩
  simp [hmiss]

/-- WITNESS (class `reload-err-released-reachable`): on the error return of `Reload` a sub-cluster that vanished
    from the conf has been released but is still listed. -/
theorem C09_witness_reload_err_keeps_released (b : Backend) (hb : b.released = 0) :
    let c : Cluster := { name := "c", subs := [{ name := "s", weight := 1, backs := [b] }] }
    let r := gslbReload c []
    r.2.2 = true ∧ r.1.subs = [{ name := "s", weight := 1, backs := [rel b] }] ∧ (rel b).released = 1 := by
  refine ⟨?_, ?_, by simp [rel, hb]⟩
  · simp [gslbReload, totalWeight, List.lookup]
  · simp [gslbReload, totalWeight, List.lookup, errSub, relSub]

/-- …and a second reload of the same kind releases it again: count 2 = close of a closed channel
    (class `reload-err-double-release`; on the real code: panic while `BalTable.lock` is held). -/
theorem C09_witness_double_release (b : Backend) (hb : b.released = 0) :
    let c : Cluster := { name := "c", subs := [{ name := "s", weight := 1, backs := [b] }] }
    let c1 := (gslbReload c []).1
    (gslbReload c1 []).1.subs = [{ name := "s", weight := 1, backs := [rel (rel b)] }] ∧ (rel (rel b)).released = 2 := by
  refine ⟨?_, by simp [rel, hb]⟩
  simp [gslbReload, totalWeight, List.lookup, errSub, relSub]

/-! ### non-vacuity -/
example : (∀ o ∈ [mkNew ⟨"n", "a", 80, 1⟩], o.released = 0) := by simp [mkNew]

end BfeVerif.C09
