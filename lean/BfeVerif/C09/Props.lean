import BfeVerif.C09.Proofs
/-!
  C09 — balancer reload keeps surviving state and releases removed targets once.
  Property theorems only.

  Release discipline (proved at full strength, for EVERY history of Init + BalTableReload calls with arbitrary
  configurations, after fix C09-reload-check-first): every object ever created (table ++ grave) has been released at most
  once, objects reachable from the table are unreleased, objects that left the table were released exactly once — hence
  no close-of-closed-channel panic and no released backend can be selected.
  Merge (`BalanceRR.Update`, `BalanceGslb.Reload`): survivors keep their state, proved for arbitrary lists.
  "The table shows the configuration" is violated by the unchanged code when the cluster table lacks a (sub-)cluster the
  gslb conf names (known findings, witness theorem below); proved is the per-sub-cluster part `C09_update_shows_conf`
  (whenever Update runs, the list afterwards carries exactly the configured Addr:Port set).
-/
namespace BfeVerif.C09

/-- Update releases each removed backend exactly once and never a kept one: if no old backend was released before,
    the new list contains only unreleased objects and every released object has count exactly 1. -/
theorem C09_update_release_once (old : List Backend) (conf : List BConf)
    (h0 : ∀ o ∈ old, o.released = 0) :
    (∀ b ∈ (rrUpdate old conf).1, b.released = 0) ∧ (∀ b ∈ (rrUpdate old conf).2, b.released = 1) :=
  rrUpdate_release old conf h0

/-- Nothing is lost and nothing is duplicated by identity: every old backend is either kept — the SAME object, only
    its weight rewritten, so avail / failNum / connNum / name survive — or it is in the released list. -/
theorem C09_update_survivor_state (old : List Backend) (conf : List BConf) :
    (∀ o ∈ old, (∃ w, { o with weight := w } ∈ (rrUpdate old conf).1) ∨ rel o ∈ (rrUpdate old conf).2) ∧
    (∀ b ∈ (rrUpdate old conf).1, (∃ o ∈ old, ∃ w, b = { o with weight := w }) ∨ (∃ c ∈ conf, b = mkNew c)) := by
  obtain ⟨h1, _, h3, h4⟩ := updLoop_spec old (confMap conf)
  unfold rrUpdate
  simp only []
  refine ⟨fun o ho => ?_, fun b hb => ?_⟩
  · rcases h4 o ho with ⟨w, hw⟩ | hr
    · exact Or.inl ⟨w, List.mem_append_left _ hw⟩
    · exact Or.inr hr
  · rcases List.mem_append.mp hb with hb | hb
    · exact Or.inl (h1 b hb)
    · obtain ⟨c, hc, rfl⟩ := List.mem_map.mp hb
      exact Or.inr ⟨c, confMap_sub conf c (h3 c (List.mem_mergeSort.mp hc)), rfl⟩

/-- After Update the sub-cluster carries exactly the configured addresses: an Addr:Port is in the list iff it is in the
    conf (so removed ones are gone and added ones are present). -/
theorem C09_update_shows_conf (old : List Backend) (conf : List BConf) (k : String) :
    (∃ b ∈ (rrUpdate old conf).1, b.key = k) ↔ (∃ c ∈ conf, c.key = k) := by
  obtain ⟨h1, h2⟩ := updLoop_keys old (confMap conf)
  obtain ⟨_, _, h3, _⟩ := updLoop_spec old (confMap conf)
  rw [← confMap_keys conf k]
  unfold rrUpdate
  simp only []
  constructor
  · rintro ⟨b, hb, hk⟩
    rcases List.mem_append.mp hb with hb | hb
    · obtain ⟨c, hc, hck⟩ := h1 b hb
      exact ⟨c, hc, hck.trans hk⟩
    · obtain ⟨c, hc, rfl⟩ := List.mem_map.mp hb
      exact ⟨c, h3 c (List.mem_mergeSort.mp hc), hk⟩
  · rintro ⟨c, hc, hk⟩
    rcases h2 c hc with ⟨b, hb, hbk⟩ | hr
    · exact ⟨b, List.mem_append_left _ hb, hbk.trans hk⟩
    · exact ⟨mkNew c, List.mem_append_right _ (List.mem_map.mpr ⟨c, List.mem_mergeSort.mpr hr, rfl⟩), hk⟩

/-- The same configuration again releases nothing: after an Update, a second Update with the same backend list keeps
    every object (so a reload that repeats the configuration in use cannot lose or re-create a backend). -/
theorem C09_update_same_conf_releases_nothing (old : List Backend) (conf : List BConf) :
    (rrUpdate (rrUpdate old conf).1 conf).2 = [] := by
  obtain ⟨hnd, hin⟩ := updLoop_nodup old (confMap conf) (confMap_nodup conf)
  have hkey : ∀ c : BConf, (mkNew c).key = c.key := fun c => rfl
  have hl1 : (rrUpdate old conf).1 = (updLoop old (confMap conf)).1 ++
      ((updLoop old (confMap conf)).2.2.mergeSort (fun a b => a.key ≤ b.key)).map mkNew := by
    unfold rrUpdate; rfl
  have hperm := List.mergeSort_perm (updLoop old (confMap conf)).2.2 (fun a b => decide (a.key ≤ b.key))
  have hkeys : ((rrUpdate old conf).1.map (·.key)).Perm
      (((updLoop old (confMap conf)).1.map (·.key)) ++ ((updLoop old (confMap conf)).2.2.map (·.key))) := by
    rw [hl1, List.map_append, List.map_map]
    refine List.Perm.append_left _ ?_
    have : ((·.key) ∘ mkNew : BConf → String) = (·.key) := by funext c; exact hkey c
    rw [this]
    exact hperm.map _
  have h2 : (rrUpdate (rrUpdate old conf).1 conf).2 = (updLoop (rrUpdate old conf).1 (confMap conf)).2.1 := by
    unfold rrUpdate; rfl
  rw [h2]
  apply updLoop_keeps_all
  · exact hkeys.nodup_iff.mpr hnd
  · intro b hb
    exact hin _ (hkeys.subset (List.mem_map.mpr ⟨b, hb, rfl⟩))

/-- Newly added backends are selectable: fresh objects are available, unreleased, with the configured weight. -/
theorem C09_added_selectable (c : BConf) :
    (mkNew c).avail = true ∧ (mkNew c).released = 0 ∧ (mkNew c).weight = c.weight * 100 ∧
    (mkNew c).failNum = 0 ∧ (mkNew c).connNum = 0 := ⟨rfl, rfl, rfl, rfl, rfl⟩

/-- Sub-cluster merge, non-error path: kept sub-clusters keep their backend lists untouched (only the weight is
    rewritten), new ones start empty, and exactly the backends of vanished sub-clusters leave, each released once more. -/
theorem C09_gslb_reload_ok (c : Cluster) (gc : List (String × Int)) (hok : (gslbReload c gc).2.2 = false) :
    (∀ s ∈ (gslbReload c gc).1.subs, (∃ o ∈ c.subs, s.backs = o.backs ∧ s.name = o.name) ∨ s.backs = []) ∧
    (∀ b ∈ (gslbReload c gc).2.1, ∃ o ∈ c.subs, gc.lookup o.name = none ∧ ∃ x ∈ o.backs, b = rel x) := by
  unfold gslbReload at hok ⊢
  split at hok
  · simp at hok
  · rename_i hne
    simp only [hne, if_false]
    refine ⟨fun s hs => ?_, fun b hb => ?_⟩
    · rcases List.mem_append.mp (List.mem_mergeSort.mp hs) with hs | hs
      · obtain ⟨o, ho, hso⟩ := List.mem_filterMap.mp hs
        cases hl : gc.lookup o.name with
        | none => simp [hl] at hso
        | some w => simp [hl] at hso; subst hso; exact Or.inl ⟨o, ho, rfl, rfl⟩
      · obtain ⟨p, _, rfl⟩ := List.mem_map.mp hs
        exact Or.inr rfl
    · obtain ⟨s, hs, hbs⟩ := List.mem_flatMap.mp hb
      obtain ⟨o, ho, rfl⟩ := List.mem_map.mp hs
      obtain ⟨ho1, ho2⟩ := List.mem_filter.mp ho
      refine ⟨o, ho1, by simpa using ho2, ?_⟩
      simp only [relSub] at hbs
      obtain ⟨x, hx, rfl⟩ := List.mem_map.mp hbs
      exact ⟨x, hx, rfl⟩

/-- Fix C09-reload-check-first: a rejected gslb conf (no positive weight) changes and releases NOTHING. -/
theorem C09_reload_err_no_change (c : Cluster) (gc : List (String × Int)) (herr : (gslbReload c gc).2.2 = true) :
    (gslbReload c gc).1 = c ∧ (gslbReload c gc).2.1 = [] := by
  unfold gslbReload at herr ⊢
  split
  · exact ⟨rfl, rfl⟩
  · rename_i hne; simp [hne] at herr

/-! ### the whole table, over arbitrary reload histories -/

/-- One BalTableReload with ANY configuration (clusters / sub-clusters / backends added, removed, duplicated, missing
    from the cluster table, zero weights, error returns) preserves the release discipline. -/
theorem C09_release_ok_reload (st : St) (g : GslbConf) (bc : TableConf) (h : ReleaseOk st) :
    ReleaseOk (balTableReload st g bc).st := reload_ok st g bc h

/-- …hence after BalTable.Init and ANY sequence of reloads: reachable objects are unreleased and every object that
    left the table has been released exactly once (induction over the history). -/
theorem C09_release_ok_history (g0 : GslbConf) (bc0 : TableConf) (hist : List (GslbConf × TableConf)) :
    ReleaseOk (runHist g0 bc0 hist) := by
  unfold runHist
  have gen : ∀ (hist : List (GslbConf × TableConf)) (st : St), ReleaseOk st →
      ReleaseOk (hist.foldl (fun st p => (balTableReload st p.1 p.2).st) st) := by
    intro hist
    induction hist with
    | nil => intro st h; exact h
    | cons p r ih => intro st h; exact ih _ (reload_ok st p.1 p.2 h)
  exact gen hist _ (init_ok g0 bc0)

/-- A configuration file rejected by the loaders leaves the table and every backend exactly as they were (nothing is
    released, nothing re-weighted); and the release discipline holds for every history that mixes API reloads, file
    reloads and rejected files. -/
theorem C09_rejected_file_changes_nothing (st : St) (g : GslbConf) (bc : TableConf) (h : confValid g bc = false) :
    fileReload st g bc = st := by
  simp [fileReload, h]

theorem C09_release_ok_mixed_history (st : St) (h : ReleaseOk st) (hist : List (Bool × GslbConf × TableConf)) :
    ReleaseOk (runMixed st hist) := by
  induction hist generalizing st with
  | nil => exact h
  | cons p r ih =>
    obtain ⟨f, g, bc⟩ := p
    cases f with
    | false => exact ih _ (reload_ok st g bc h)
    | true =>
      simp only [runMixed, fileReload]
      split
      · exact ih _ (reload_ok st g bc h)
      · exact ih _ h

/-- No object is ever released twice: the close-of-closed-channel panic is unreachable. -/
theorem C09_release_le_one (g0 : GslbConf) (bc0 : TableConf) (hist : List (GslbConf × TableConf)) :
    (∀ b ∈ tableObjs (runHist g0 bc0 hist) ++ (runHist g0 bc0 hist).grave, b.released ≤ 1) ∧
    panicked (runHist g0 bc0 hist) = false := by
  obtain ⟨ht, hg⟩ := C09_release_ok_history g0 bc0 hist
  have hle : ∀ b ∈ tableObjs (runHist g0 bc0 hist) ++ (runHist g0 bc0 hist).grave, b.released ≤ 1 := by
    intro b hb
    rcases List.mem_append.mp hb with hb | hb
    · rw [ht b hb]; omega
    · rw [hg b hb]; omega
  refine ⟨hle, ?_⟩
  unfold panicked
  rw [Bool.eq_false_iff]
  intro hany
  obtain ⟨b, hb, h2⟩ := List.any_eq_true.mp hany
  have := hle b hb
  simp at h2
  omega

/-- Released objects are never selected again: selection (any algorithm) picks among the objects reachable from the
    table, and no object of the grave is reachable; conversely whatever is reachable is unreleased. -/
theorem C09_never_selected (g0 : GslbConf) (bc0 : TableConf) (hist : List (GslbConf × TableConf)) :
    (∀ b ∈ (runHist g0 bc0 hist).grave, b ∉ tableObjs (runHist g0 bc0 hist)) ∧
    (∀ b ∈ tableObjs (runHist g0 bc0 hist), b.released = 0) := by
  obtain ⟨ht, hg⟩ := C09_release_ok_history g0 bc0 hist
  refine ⟨fun b hb hbt => ?_, ht⟩
  have h0 := ht b hbt
  have h1 := hg b hb
  omega

/-! ### witnesses: how the unchanged code violates the full property
  (`gslbReloadOld` = `BalanceGslb.Reload` before fix C09-reload-check-first) -/

/-- WITNESS (class `subcluster-missing-in-table-keeps-backends`): a sub-cluster that the cluster table does not
    mention is skipped by `BackendReload`, so whatever backends it had stay in the table, unreleased and selectable,
    although the configuration no longer contains them. -/
theorem C09_witness_missing_sub_keeps_backends (c : Cluster) (cb : List (String × List BConf)) (s : Sub)
    (hs : s ∈ c.subs) (hmiss : cb.lookup s.name = none) : s ∈ (backendReload c cb).1.subs := by
  unfold backendReload
  simp only [List.map_map]
  refine List.mem_map.mpr ⟨s, hs, ?_⟩
  simp [hmiss]

/-- WITNESS (class `reload-err-released-reachable`, FIXED): before the fix, on the error return of `Reload` a sub-cluster that vanished
    from the conf has been released but is still listed. -/
theorem C09_witness_reload_err_keeps_released (b : Backend) (hb : b.released = 0) :
    let c : Cluster := { name := "c", subs := [{ name := "s", weight := 1, backs := [b] }] }
    let r := gslbReloadOld c []
    r.2.2 = true ∧ r.1.subs = [{ name := "s", weight := 1, backs := [rel b] }] ∧ (rel b).released = 1 := by
  refine ⟨?_, ?_, by simp [rel, hb]⟩
  · simp [gslbReloadOld, totalWeight, List.lookup]
  · simp [gslbReloadOld, totalWeight, List.lookup, errSub, relSub]

/-- …and a second reload of the same kind releases it again: count 2 = close of a closed channel
    (class `reload-err-double-release`, FIXED; on the unfixed code: panic while `BalTable.lock` is held). -/
theorem C09_witness_double_release (b : Backend) (hb : b.released = 0) :
    let c : Cluster := { name := "c", subs := [{ name := "s", weight := 1, backs := [b] }] }
    let c1 := (gslbReloadOld c []).1
    (gslbReloadOld c1 []).1.subs = [{ name := "s", weight := 1, backs := [rel (rel b)] }] ∧ (rel (rel b)).released = 2 := by
  refine ⟨?_, by simp [rel, hb]⟩
  simp [gslbReloadOld, totalWeight, List.lookup, errSub, relSub]

/-! ### non-vacuity -/
example : (∀ o ∈ [mkNew ⟨"n", "a", 80, 1⟩], o.released = 0) := by simp [mkNew]

end BfeVerif.C09
