import BfeVerif.C09.Model
/-! Lemmas for C09 (core Lean only). -/
namespace BfeVerif.C09

/-- the three outputs of the update loop, characterised element-wise -/
theorem updLoop_spec (old : List Backend) (m : List BConf) :
    (∀ b ∈ (updLoop old m).1, ∃ o ∈ old, ∃ w, b = { o with weight := w }) ∧
    (∀ b ∈ (updLoop old m).2.1, ∃ o ∈ old, b = rel o) ∧
    (∀ c ∈ (updLoop old m).2.2, c ∈ m) ∧
    (∀ o ∈ old, (∃ w, { o with weight := w } ∈ (updLoop old m).1) ∨ rel o ∈ (updLoop old m).2.1) := by
  induction old generalizing m with
  | nil => simp [updLoop]
  | cons b r ih =>
    unfold updLoop
    cases hf : m.find? (fun c => c.key == b.key) with
    | some c =>
      obtain ⟨h1, h2, h3, h4⟩ := ih (m.filter (fun d => d.key != b.key))
      simp only []
      refine ⟨?_, ?_, ?_, ?_⟩
      · intro x hx
        rcases List.mem_cons.mp hx with rfl | hx
        · exact ⟨b, List.mem_cons_self, _, rfl⟩
        · obtain ⟨o, ho, w, hw⟩ := h1 x hx
          exact ⟨o, List.mem_cons_of_mem _ ho, w, hw⟩
      · intro x hx
        obtain ⟨o, ho, hw⟩ := h2 x hx
        exact ⟨o, List.mem_cons_of_mem _ ho, hw⟩
      · intro x hx
        exact (List.mem_filter.mp (h3 x hx)).1
      · intro o ho
        rcases List.mem_cons.mp ho with rfl | ho
        · exact Or.inl ⟨_, List.mem_cons_self⟩
        · rcases h4 o ho with ⟨w, hw⟩ | hr
          · exact Or.inl ⟨w, List.mem_cons_of_mem _ hw⟩
          · exact Or.inr hr
    | none =>
      obtain ⟨h1, h2, h3, h4⟩ := ih m
      simp only []
      refine ⟨?_, ?_, h3, ?_⟩
      · intro x hx
        obtain ⟨o, ho, w, hw⟩ := h1 x hx
        exact ⟨o, List.mem_cons_of_mem _ ho, w, hw⟩
      · intro x hx
        rcases List.mem_cons.mp hx with rfl | hx
        · exact ⟨b, List.mem_cons_self, rfl⟩
        · obtain ⟨o, ho, hw⟩ := h2 x hx
          exact ⟨o, List.mem_cons_of_mem _ ho, hw⟩
      · intro o ho
        rcases List.mem_cons.mp ho with rfl | ho
        · exact Or.inr List.mem_cons_self
        · rcases h4 o ho with ⟨w, hw⟩ | hr
          · exact Or.inl ⟨w, hw⟩
          · exact Or.inr (List.mem_cons_of_mem _ hr)

theorem confMap_sub (conf : List BConf) : ∀ c ∈ confMap conf, c ∈ conf := by
  unfold confMap
  have gen : ∀ (l acc : List BConf), (∀ c ∈ acc, c ∈ conf) → (∀ c ∈ l, c ∈ conf) →
      ∀ c ∈ l.foldl (fun m c => m.filter (fun d => d.key != c.key) ++ [c]) acc, c ∈ conf := by
    intro l
    induction l with
    | nil => intro acc ha _ c hc; exact ha c hc
    | cons x r ih =>
      intro acc ha hl c hc
      simp only [List.foldl_cons] at hc
      refine ih _ ?_ (fun c hc => hl c (List.mem_cons_of_mem _ hc)) c hc
      intro d hd
      rcases List.mem_append.mp hd with hd | hd
      · exact ha d (List.mem_filter.mp hd).1
      · simp at hd; subst hd; exact hl _ List.mem_cons_self
  exact gen conf [] (by simp) (fun c hc => hc)

end BfeVerif.C09
