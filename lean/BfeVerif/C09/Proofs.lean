import BfeVerif.C09.Model
/-! Lemmas for C09 (core Lean only). -/
namespace BfeVerif.C09

/-- the three outputs of the update loop, characterised element-wise -/
theorem updLoop_spec (old : List Backend) (m : List BConf) :
    (∀ b ∈ (updLoop old m).1, ∃ o ∈ old, ∃ w, b = { o with weight := w }) ∧
    (∀ b ∈ (updLoop old m).2.1, ∃ o ∈ old, b = rel o) ∧
    (∀ c ∈ (updLoop old m).2.2, c ∈ m) ∧
    (∀ o ∈ old, (∃ w, { o with weight := w } ∈ (updLoop old m).1) ∨ rel o ∈ (updLoop old m).2.1) := by
  induction old generalizing m with
  | nil => simp [updLoop]
  | cons b r ih =>
    unfold updLoop
    cases hf : m.find? (fun c => c.key == b.key) with
    | some c =>
      obtain ⟨h1, h2, h3, h4⟩ := ih (m.filter (fun d => d.key != b.key))
      simp only []
      refine ⟨?_, ?_, ?_, ?_⟩
      · intro x hx
        rcases List.mem_cons.mp hx with rfl | hx
        · exact ⟨b, List.mem_cons_self, _, rfl⟩
        · obtain ⟨o, ho, w, hw⟩ := h1 x hx
          exact ⟨o, List.mem_cons_of_mem _ ho, w, hw⟩
      · intro x hx
        obtain ⟨o, ho, hw⟩ := h2 x hx
        exact ⟨o, List.mem_cons_of_mem _ ho, hw⟩
      · intro x hx
        exact (List.mem_filter.mp (h3 x hx)).1
      · intro o ho
        rcases List.mem_cons.mp ho with rfl | ho
        · exact Or.inl ⟨_, List.mem_cons_self⟩
        · rcases h4 o ho with ⟨w, hw⟩ | hr
          · exact Or.inl ⟨w, List.mem_cons_of_mem _ hw⟩
          · exact Or.inr hr
    | none =>
      obtain ⟨h1, h2, h3, h4⟩ := ih m
      simp only []
      refine ⟨?_, ?_, h3, ?_⟩
      · intro x hx
        obtain ⟨o, ho, w, hw⟩ := h1 x hx
        exact ⟨o, List.mem_cons_of_mem _ ho, w, hw⟩
      · intro x hx
        rcases List.mem_cons.mp hx with rfl | hx
        · exact ⟨b, List.mem_cons_self, rfl⟩
        · obtain ⟨o, ho, hw⟩ := h2 x hx
          exact ⟨o, List.mem_cons_of_mem _ ho, hw⟩
      · intro o ho
        rcases List.mem_cons.mp ho with rfl | ho
        · exact Or.inr List.mem_cons_self
        · rcases h4 o ho with ⟨w, hw⟩ | hr
          · exact Or.inl ⟨w, hw⟩
          · exact Or.inr (List.mem_cons_of_mem _ hr)

theorem confMap_sub (conf : List BConf) : ∀ c ∈ confMap conf, c ∈ conf := by
  unfold confMap
  have gen : ∀ (l acc : List BConf), (∀ c ∈ acc, c ∈ conf) → (∀ c ∈ l, c ∈ conf) →
      ∀ c ∈ l.foldl (fun m c => m.filter (fun d => d.key != c.key) ++ [c]) acc, c ∈ conf := by
    intro l
    induction l with
    | nil => intro acc ha _ c hc; exact ha c hc
    | cons x r ih =>
      intro acc ha hl c hc
      simp only [List.foldl_cons] at hc
      refine ih _ ?_ (fun c hc => hl c (List.mem_cons_of_mem _ hc)) c hc
      intro d hd
      rcases List.mem_append.mp hd with hd | hd
      · exact ha d (List.mem_filter.mp hd).1
      · simp at hd; subst hd; exact hl _ List.mem_cons_self
  exact gen conf [] (by simp) (fun c hc => hc)

theorem rrUpdate_release (old : List Backend) (conf : List BConf) (h0 : ∀ o ∈ old, o.released = 0) :
    (∀ b ∈ (rrUpdate old conf).1, b.released = 0) ∧ (∀ b ∈ (rrUpdate old conf).2, b.released = 1) := by
  obtain ⟨h1, h2, _, _⟩ := updLoop_spec old (confMap conf)
  unfold rrUpdate
  simp only []
  refine ⟨fun b hb => ?_, fun b hb => ?_⟩
  · rcases List.mem_append.mp hb with hb | hb
    · obtain ⟨o, ho, w, rfl⟩ := h1 b hb
      exact h0 o ho
    · obtain ⟨c, _, rfl⟩ := List.mem_map.mp hb
      rfl
  · obtain ⟨o, ho, rfl⟩ := h2 b hb
    simp [rel, h0 o ho]

/-- every backend of the cluster is unreleased -/
def ClOk (c : Cluster) : Prop := ∀ s ∈ c.subs, ∀ b ∈ s.backs, b.released = 0

theorem mem_tableObjs {st : St} {b : Backend} :
    b ∈ tableObjs st ↔ ∃ c ∈ st.clusters, ∃ s ∈ c.subs, b ∈ s.backs := by
  simp [tableObjs, List.mem_flatMap]

theorem gslbReload_ok (c : Cluster) (gc : List (String × Int)) (h : ClOk c) :
    ClOk (gslbReload c gc).1 ∧ ∀ b ∈ (gslbReload c gc).2.1, b.released = 1 := by
  unfold gslbReload
  split
  · exact ⟨h, by simp⟩
  · simp only []
    refine ⟨fun s hs b hb => ?_, fun b hb => ?_⟩
    · rcases List.mem_append.mp (List.mem_mergeSort.mp hs) with hs | hs
      · obtain ⟨o, ho, hso⟩ := List.mem_filterMap.mp hs
        cases hl : gc.lookup o.name with
        | none => simp [hl] at hso
        | some w =>
          simp [hl] at hso
          subst hso
          exact h o ho b hb
      · obtain ⟨p, _, rfl⟩ := List.mem_map.mp hs
        simp at hb
    · obtain ⟨s, hs, hbs⟩ := List.mem_flatMap.mp hb
      obtain ⟨o, ho, rfl⟩ := List.mem_map.mp hs
      have ho1 := (List.mem_filter.mp ho).1
      simp only [relSub] at hbs
      obtain ⟨x, hx, rfl⟩ := List.mem_map.mp hbs
      simp [rel, h o ho1 x hx]

theorem backendReload_ok (c : Cluster) (cb : List (String × List BConf)) (h : ClOk c) :
    ClOk (backendReload c cb).1 ∧ ∀ b ∈ (backendReload c cb).2, b.released = 1 := by
  unfold backendReload
  simp only [List.map_map]
  refine ⟨fun s hs b hb => ?_, fun b hb => ?_⟩
  · obtain ⟨o, ho, rfl⟩ := List.mem_map.mp hs
    simp only [Function.comp] at hb
    cases hl : cb.lookup o.name with
    | none => simp only [hl] at hb; exact h o ho b hb
    | some conf =>
      simp only [hl] at hb
      exact (rrUpdate_release o.backs conf (h o ho)).1 b hb
  · obtain ⟨x, hx, hbx⟩ := List.mem_flatMap.mp hb
    obtain ⟨o, ho, rfl⟩ := List.mem_map.mp hx
    cases hl : cb.lookup o.name with
    | none => simp [hl] at hbx
    | some conf =>
      simp only [hl] at hbx
      exact (rrUpdate_release o.backs conf (h o ho)).2 b hbx

theorem reload_ok (st : St) (g : GslbConf) (bc : TableConf) (h : ReleaseOk st) :
    ReleaseOk (balTableReload st g bc).st := by
  obtain ⟨ht, hg⟩ := h
  have hcl : ∀ c ∈ st.clusters, ClOk c := fun c hc s hs b hb => ht b (mem_tableObjs.mpr ⟨c, hc, s, hs, hb⟩)
  -- the cluster every gslb entry starts from
  have hc0 : ∀ (n : String), ClOk ((st.clusters.find? fun c => c.name == n).getD { name := n, subs := [] }) := by
    intro n
    cases hf : st.clusters.find? (fun c => c.name == n) with
    | none => intro s hs; simp at hs
    | some c => exact hcl c (List.mem_of_find?_eq_some hf)
  unfold balTableReload
  simp only []
  refine ⟨fun b hb => ?_, fun b hb => ?_⟩
  · obtain ⟨c, hc, s, hs, hbs⟩ := mem_tableObjs.mp hb
    simp only [List.map_map] at hc
    obtain ⟨p, _, rfl⟩ := List.mem_map.mp hc
    simp only [Function.comp] at hs
    have h1 := (gslbReload_ok _ p.2 (hc0 p.1)).1
    split at hs
    · exact (backendReload_ok _ _ h1).1 s hs b hbs
    · exact h1 s hs b hbs
  · simp only [List.mem_append, List.mem_flatMap] at hb
    rcases hb with (hb | hb | hb) | hb
    · exact hg b hb
    · obtain ⟨x, hx, hbx⟩ := hb
      obtain ⟨p, _, rfl⟩ := List.mem_map.mp hx
      exact (gslbReload_ok _ p.2 (hc0 p.1)).2 b hbx
    · obtain ⟨c, hc, s, hs, hbs⟩ := hb
      obtain ⟨x, hx, rfl⟩ := List.mem_map.mp hbs
      simp [rel, hcl c (List.mem_filter.mp hc).1 s hs x hx]
    · obtain ⟨x, hx, hbx⟩ := hb
      simp only [List.map_map] at hx
      obtain ⟨p, _, rfl⟩ := List.mem_map.mp hx
      simp only [Function.comp] at hbx
      have h1 := (gslbReload_ok _ p.2 (hc0 p.1)).1
      split at hbx
      · exact (backendReload_ok _ _ h1).2 b hbx
      · simp at hbx

theorem init_ok (g : GslbConf) (bc : TableConf) : ReleaseOk (balTableInit g bc).st := by
  unfold balTableInit
  simp only []
  split
  · refine ⟨fun b hb => ?_, by simp⟩
    obtain ⟨c, hc, s, hs, hbs⟩ := mem_tableObjs.mp hb
    obtain ⟨x, hx, rfl⟩ := List.mem_map.mp hc
    obtain ⟨p, _, rfl⟩ := List.mem_map.mp (List.mem_filter.mp hx).1
    obtain ⟨q, _, rfl⟩ := List.mem_map.mp (List.mem_mergeSort.mp hs)
    simp at hbs
  · refine ⟨fun b hb => ?_, by simp⟩
    obtain ⟨c, hc, s, hs, hbs⟩ := mem_tableObjs.mp hb
    simp only [List.map_map] at hc
    obtain ⟨x, hx, rfl⟩ := List.mem_map.mp hc
    obtain ⟨p, _, rfl⟩ := List.mem_map.mp (List.mem_filter.mp hx).1
    simp only [Function.comp] at hs
    have hempty : ∀ s ∈ ((p.2.map fun q => ({ name := q.1, weight := q.2, backs := [] } : Sub)).mergeSort subLe), s.backs = [] := by
      intro s hs
      obtain ⟨q, _, rfl⟩ := List.mem_map.mp (List.mem_mergeSort.mp hs)
      rfl
    split at hs
    · obtain ⟨s0, hs0, rfl⟩ := List.mem_map.mp hs
      unfold initSub at hbs
      split at hbs
      · obtain ⟨cf, _, rfl⟩ := List.mem_map.mp hbs
        rfl
      · rw [hempty s0 hs0] at hbs; simp at hbs
    · rw [hempty s hs] at hbs; simp at hbs

theorem updLoop_keys (old : List Backend) (m : List BConf) :
    (∀ b ∈ (updLoop old m).1, ∃ c ∈ m, c.key = b.key) ∧
    (∀ c ∈ m, (∃ b ∈ (updLoop old m).1, b.key = c.key) ∨ c ∈ (updLoop old m).2.2) := by
  induction old generalizing m with
  | nil => simp [updLoop]
  | cons b r ih =>
    unfold updLoop
    cases hf : m.find? (fun c => c.key == b.key) with
    | some c0 =>
      obtain ⟨h1, h2⟩ := ih (m.filter (fun d => d.key != b.key))
      simp only []
      have hc0 := List.find?_some hf
      have hc0m := List.mem_of_find?_eq_some hf
      refine ⟨fun x hx => ?_, fun c hc => ?_⟩
      · rcases List.mem_cons.mp hx with rfl | hx
        · exact ⟨c0, hc0m, by simpa [Backend.key] using hc0⟩
        · obtain ⟨c, hc, hk⟩ := h1 x hx
          exact ⟨c, (List.mem_filter.mp hc).1, hk⟩
      · by_cases hk : c.key = b.key
        · exact Or.inl ⟨_, List.mem_cons_self, by simpa [Backend.key] using hk.symm⟩
        · have hcf : c ∈ m.filter (fun d => d.key != b.key) := List.mem_filter.mpr ⟨hc, by simpa using hk⟩
          rcases h2 c hcf with ⟨x, hx, hxk⟩ | hr
          · exact Or.inl ⟨x, List.mem_cons_of_mem _ hx, hxk⟩
          · exact Or.inr hr
    | none =>
      obtain ⟨h1, h2⟩ := ih m
      simp only []
      exact ⟨h1, h2⟩

theorem confMap_keys (conf : List BConf) (k : String) :
    (∃ c ∈ confMap conf, c.key = k) ↔ (∃ c ∈ conf, c.key = k) := by
  constructor
  · rintro ⟨c, hc, hk⟩; exact ⟨c, confMap_sub conf c hc, hk⟩
  · unfold confMap
    have gen : ∀ (l acc : List BConf), ((∃ c ∈ acc, c.key = k) ∨ (∃ c ∈ l, c.key = k)) →
        ∃ c ∈ l.foldl (fun m c => m.filter (fun d => d.key != c.key) ++ [c]) acc, c.key = k := by
      intro l
      induction l with
      | nil => intro acc h; rcases h with h | ⟨c, hc, _⟩; exact h; simp at hc
      | cons x r ih =>
        intro acc h
        simp only [List.foldl_cons]
        apply ih
        by_cases hx : x.key = k
        · exact Or.inl ⟨x, by simp, hx⟩
        · rcases h with ⟨c, hc, hk⟩ | ⟨c, hc, hk⟩
          · refine Or.inl ⟨c, List.mem_append_left _ (List.mem_filter.mpr ⟨hc, ?_⟩), hk⟩
            have : c.key ≠ x.key := by rw [hk]; exact fun e => hx e.symm
            simpa using this
          · rcases List.mem_cons.mp hc with rfl | hc
            · exact absurd hk hx
            · exact Or.inr ⟨c, hc, hk⟩
    intro h
    exact gen conf [] (Or.inr h)

/-! ### the same configuration again: nothing is released -/

theorem find_some_of_key_mem (m : List BConf) (k : String) (h : k ∈ m.map (·.key)) :
    ∃ c, m.find? (fun c => c.key == k) = some c := by
  obtain ⟨c, hc, hk⟩ := List.mem_map.mp h
  cases hf : m.find? (fun c => c.key == k) with
  | some c0 => exact ⟨c0, rfl⟩
  | none =>
    have := List.find?_eq_none.mp hf c hc
    simp [hk] at this

/-- a list with pairwise different keys, all of them configured, is kept entirely by the update loop -/
theorem updLoop_keeps_all (l : List Backend) (m : List BConf)
    (hnd : (l.map (·.key)).Nodup) (hin : ∀ b ∈ l, b.key ∈ m.map (·.key)) :
    (updLoop l m).2.1 = [] := by
  induction l generalizing m with
  | nil => simp [updLoop]
  | cons b r ih =>
    unfold updLoop
    obtain ⟨c, hc⟩ := find_some_of_key_mem m b.key (hin b List.mem_cons_self)
    rw [hc]
    simp only []
    simp only [List.map_cons, List.nodup_cons] at hnd
    apply ih _ hnd.2
    intro x hx
    have hxm := hin x (List.mem_cons_of_mem _ hx)
    obtain ⟨d, hd, hdk⟩ := List.mem_map.mp hxm
    have hne : x.key ≠ b.key := fun e => hnd.1 (List.mem_map.mpr ⟨x, hx, e⟩)
    exact List.mem_map.mpr ⟨d, List.mem_filter.mpr ⟨hd, by simpa [hdk] using hne⟩, hdk⟩

theorem confMap_nodup (conf : List BConf) : ((confMap conf).map (·.key)).Nodup := by
  unfold confMap
  have gen : ∀ (l acc : List BConf), (acc.map (·.key)).Nodup →
      ((l.foldl (fun m c => m.filter (fun d => d.key != c.key) ++ [c]) acc).map (·.key)).Nodup := by
    intro l
    induction l with
    | nil => intro acc h; exact h
    | cons x r ih =>
      intro acc h
      simp only [List.foldl_cons]
      apply ih
      rw [List.map_append, List.nodup_append]
      refine ⟨(h.sublist ((List.filter_sublist).map _)), by simp, ?_⟩
      intro a ha b hb
      simp at hb
      subst hb
      obtain ⟨d, hd, rfl⟩ := List.mem_map.mp ha
      have := (List.mem_filter.mp hd).2
      simpa using this
  exact gen conf [] (by simp)

/-- key bookkeeping of the update loop on a key-unique conf map -/
theorem updLoop_nodup (old : List Backend) (m : List BConf) (hm : (m.map (·.key)).Nodup) :
    (((updLoop old m).1.map (·.key)) ++ ((updLoop old m).2.2.map (·.key))).Nodup ∧
    (∀ k ∈ ((updLoop old m).1.map (·.key)) ++ ((updLoop old m).2.2.map (·.key)), k ∈ m.map (·.key)) := by
  induction old generalizing m with
  | nil => simp [updLoop, hm]
  | cons b r ih =>
    unfold updLoop
    cases hf : m.find? (fun c => c.key == b.key) with
    | some c0 =>
      simp only []
      have hm2 : ((m.filter (fun d => d.key != b.key)).map (·.key)).Nodup := hm.sublist ((List.filter_sublist).map _)
      obtain ⟨h1, h2⟩ := ih _ hm2
      have hsub : ∀ k ∈ (m.filter (fun d => d.key != b.key)).map (·.key), k ∈ m.map (·.key) ∧ k ≠ b.key := by
        intro k hk
        obtain ⟨d, hd, rfl⟩ := List.mem_map.mp hk
        have := List.mem_filter.mp hd
        exact ⟨List.mem_map.mpr ⟨d, this.1, rfl⟩, by simpa using this.2⟩
      have hbk : b.key ∈ m.map (·.key) := by
        have := List.find?_some hf
        exact List.mem_map.mpr ⟨c0, List.mem_of_find?_eq_some hf, by simpa using this⟩
      refine ⟨?_, ?_⟩
      · simp only [List.map_cons, List.cons_append, List.nodup_cons]
        refine ⟨fun hmem => (hsub _ (h2 _ hmem)).2 (by simp [Backend.key]), h1⟩
      · intro k hk
        simp only [List.map_cons, List.cons_append, List.mem_cons] at hk
        rcases hk with rfl | hk
        · simpa [Backend.key] using hbk
        · exact (hsub k (h2 k hk)).1
    | none =>
      simp only []
      exact ih m hm

end BfeVerif.C09
