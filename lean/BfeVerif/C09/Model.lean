/-
  C09 — model of balancer reload (bfe_balance/bal_table.go, bal_gslb/bal_gslb.go, bal_slb/bal_rr.go).  Core-only.

  Objects are values; "identity" is carried by the object's state and its `released` counter
  (number of times `BfeBackend.Release()` = close(closeChan) was called on it; a second close panics).
  Objects that left the table are kept in `grave`, so table ++ grave = every object ever created.

    BalanceRR.Update(conf):  confMap[AddrInfo] = conf entry (later duplicate wins)
        for each old backend in list order: if confMap has its AddrInfo (and addr,port match)
              { UpdateWeight; keep; delete(confMap, key) }  else  { Release }
        for the remaining confMap entries (map order): new backend (avail, restarted)
    BalanceGslb.Reload(gslbConf): Check() (Σ positive weights > 0) else error, nothing touched;  for each old sub in order: in conf -> weight = conf weight, keep; else sub.release()
        new subs for conf names not among the old; sort by name; totalWeight = Σ positive weights;
        subClusters = new list
        (fix C09-reload-check-first: `if gslbConf.Check() != nil { return error }` now comes FIRST, before any release;
         the old placement after the loop is kept as `gslbReloadOld` for the witness theorems)
    BalanceGslb.BackendReload(clusterBackend): for each sub: if clusterBackend has sub.Name { sub.update(it) }   -- else untouched
    BalTable.BalTableReload(gslb, table): for each cluster of gslb: existing or new balancer; Reload (error => fails, balancer kept anyway)
        balancers not in gslb: Release() (every backend of every sub)
        for each cluster of the new map: table has it ? BackendReload : fails ("never comes here")
-/
namespace BfeVerif.C09

structure Backend where
  name : String
  addr : String
  port : Int
  weight : Int            -- BackendRR.weight (= conf weight * 100)
  avail : Bool := true
  failNum : Int := 0
  connNum : Int := 0
  released : Nat := 0
  restarted : Bool := false   -- BfeBackend.restarted: set by Update for the backends it adds (slow start), not by Init
  deriving DecidableEq, Repr

structure BConf where
  name : String
  addr : String
  port : Int
  weight : Int
  deriving DecidableEq, Repr

structure Sub where
  name : String
  weight : Int
  backs : List Backend
  deriving DecidableEq, Repr

structure Cluster where
  name : String
  subs : List Sub
  deriving DecidableEq, Repr

structure St where
  clusters : List Cluster := []
  grave : List Backend := []
  deriving DecidableEq, Repr

abbrev GslbConf := List (String × List (String × Int))
abbrev TableConf := List (String × List (String × List BConf))

def Backend.key (b : Backend) : String := b.addr ++ ":" ++ toString b.port
def BConf.key (c : BConf) : String := c.addr ++ ":" ++ toString c.port

def rel (b : Backend) : Backend := { b with released := b.released + 1 }

def mkNew (c : BConf) : Backend := { name := c.name, addr := c.addr, port := c.port, weight := c.weight * 100, restarted := true }

/-- confMapMake: one entry per AddrInfo, the later duplicate wins -/
def confMap (conf : List BConf) : List BConf :=
  conf.foldl (fun m c => m.filter (fun d => d.key != c.key) ++ [c]) []

/-- the loop over the old list: (kept, released, remaining confMap) -/
def updLoop : List Backend → List BConf → List Backend × List Backend × List BConf
  | [], m => ([], [], m)
  | b :: r, m =>
    match m.find? (fun c => c.key == b.key) with
    | some c =>
      let (k, g, m') := updLoop r (m.filter (fun d => d.key != b.key))
      ({ b with weight := c.weight * 100 } :: k, g, m')
    | none =>
      let (k, g, m') := updLoop r m
      (k, rel b :: g, m')

/-- BalanceRR.Update: (new list, objects released).  New objects are appended in AddrInfo order
    (the code appends them in Go map order; nothing observable here depends on it). -/
def rrUpdate (old : List Backend) (conf : List BConf) : List Backend × List Backend :=
  let (k, g, m) := updLoop old (confMap conf)
  (k ++ (m.mergeSort (fun a b => a.key ≤ b.key)).map mkNew, g)

def subLe (a b : Sub) : Bool := a.name ≤ b.name

def totalWeight (subs : List Sub) : Int :=
  subs.foldl (fun t s => if s.weight > 0 then t + s.weight else t) 0

def relSub (s : Sub) : Sub := { s with backs := s.backs.map rel }

/-- GslbClusterConf.Check: total of the positive weights -/
def confTotal (gc : List (String × Int)) : Int :=
  gc.foldl (fun t p => if p.2 > 0 then t + p.2 else t) 0

/-- BalanceGslb.Reload: (cluster after, objects that left the table, error?).
    After fix C09-reload-check-first the conf is checked BEFORE anything is modified: the error return
    leaves the cluster exactly as it was. -/
def gslbReload (c : Cluster) (gc : List (String × Int)) : Cluster × List Backend × Bool :=
  if confTotal gc ≤ 0 then (c, [], true)
  else
    let kept := c.subs.filterMap fun s => (gc.lookup s.name).map fun w => { s with weight := w }
    let vanished := (c.subs.filter fun s => (gc.lookup s.name).isNone).map relSub
    let news := (gc.filter fun p => !(c.subs.any fun s => s.name == p.1)).map fun p => ({ name := p.1, weight := p.2, backs := [] } : Sub)
    ({ c with subs := (kept ++ news).mergeSort subLe }, vanished.flatMap (·.backs), false)

/-- the unfixed Reload (total-weight test AFTER the releases, old list kept on error): kept for the witness theorems -/
def errSub (gc : List (String × Int)) (s : Sub) : Sub :=
  match gc.lookup s.name with
  | some w => { s with weight := w }
  | none => relSub s

def gslbReloadOld (c : Cluster) (gc : List (String × Int)) : Cluster × List Backend × Bool :=
  let kept := c.subs.filterMap fun s => (gc.lookup s.name).map fun w => { s with weight := w }
  let vanished := (c.subs.filter fun s => (gc.lookup s.name).isNone).map relSub
  let news := (gc.filter fun p => !(c.subs.any fun s => s.name == p.1)).map fun p => ({ name := p.1, weight := p.2, backs := [] } : Sub)
  let subsNew := (kept ++ news).mergeSort subLe
  if totalWeight subsNew == 0 then ({ c with subs := c.subs.map (errSub gc) }, [], true)
  else ({ c with subs := subsNew }, vanished.flatMap (·.backs), false)

/-- BalanceGslb.BackendReload -/
def backendReload (c : Cluster) (cb : List (String × List BConf)) : Cluster × List Backend :=
  let r := c.subs.map fun s =>
    match cb.lookup s.name with
    | some conf => ({ s with backs := (rrUpdate s.backs conf).1 }, (rrUpdate s.backs conf).2)
    | none => (s, [])
  ({ c with subs := r.map (·.1) }, r.flatMap (·.2))

def clusterLe (a b : String × List (String × Int)) : Bool := a.1 ≤ b.1

structure Res where
  st : St
  gslbErr : Bool     -- some BalanceGslb.Reload / Init returned an error
  tableErr : Bool    -- some cluster has no entry in the cluster table
  deriving Repr

/-- BalTable.BalTableReload -/
def balTableReload (st : St) (g : GslbConf) (bc : TableConf) : Res :=
  let r1 := (g.mergeSort clusterLe).map fun p =>
    let c0 := (st.clusters.find? fun c => c.name == p.1).getD { name := p.1, subs := [] }
    gslbReload c0 p.2
  let remainder := st.clusters.filter fun c => !(g.any fun p => p.1 == c.name)
  let g1 := r1.flatMap (·.2.1) ++ remainder.flatMap fun c => c.subs.flatMap fun s => s.backs.map rel
  let r2 := r1.map fun x =>
    match bc.lookup x.1.name with
    | some cb => ((backendReload x.1 cb).1, (backendReload x.1 cb).2, false)
    | none => (x.1, [], true)
  { st := { clusters := r2.map (·.1), grave := st.grave ++ g1 ++ r2.flatMap (·.2.1) }
    gslbErr := r1.any (·.2.2), tableErr := r2.any (·.2.2) }

def mkInit (c : BConf) : Backend := { mkNew c with restarted := false }

def initSub (cb : List (String × List BConf)) (s : Sub) : Sub :=
  match cb.lookup s.name with
  | some conf => { s with backs := conf.map mkInit }
  | none => s

/-- BalTable.Init (gslbInit; backendInit), on an empty table -/
def balTableInit (g : GslbConf) (bc : TableConf) : Res :=
  let cs := (g.mergeSort clusterLe).map fun p =>
    let subs := (p.2.map fun q => ({ name := q.1, weight := q.2, backs := [] } : Sub)).mergeSort subLe
    (({ name := p.1, subs := subs } : Cluster), totalWeight subs == 0)
  let ok := (cs.filter fun x => !x.2).map (·.1)
  if cs.any (·.2) then { st := { clusters := ok }, gslbErr := true, tableErr := false }
  else
    let r := ok.map fun c =>
      match bc.lookup c.name with
      | some cb => ({ c with subs := c.subs.map (initSub cb) }, false)
      | none => (c, true)
    { st := { clusters := r.map (·.1) }, gslbErr := false, tableErr := r.any (·.2) }

/-- a whole history: Init, then any number of BalTableReload calls (errors of a step do not stop the history) -/
def runHist (g0 : GslbConf) (bc0 : TableConf) (h : List (GslbConf × TableConf)) : St :=
  h.foldl (fun st p => (balTableReload st p.1 p.2).st) (balTableInit g0 bc0).st

/-- the loaders' checks (GslbConfCheck: every cluster has a positive total weight; ClusterTableConfCheck: every
    sub-cluster has at least one backend of positive weight): a file that fails them never reaches BalTableReload -/
def confValid (g : GslbConf) (bc : TableConf) : Bool :=
  g.all (fun p => decide (confTotal p.2 > 0)) &&
  bc.all (fun c => c.2.all fun s => s.2.any fun b => decide (b.weight > 0))

/-- reload from files (BalTableConfLoad; BalTableReload), as the server does it: a rejected file changes nothing -/
def fileReload (st : St) (g : GslbConf) (bc : TableConf) : St :=
  if confValid g bc then (balTableReload st g bc).st else st

/-- history of reload requests, each through the API (`false`) or from files (`true`) -/
def runMixed (st : St) : List (Bool × GslbConf × TableConf) → St
  | [] => st
  | (true, g, bc) :: r => runMixed (fileReload st g bc) r
  | (false, g, bc) :: r => runMixed (balTableReload st g bc).st r

def tableObjs (st : St) : List Backend := st.clusters.flatMap fun c => c.subs.flatMap (·.backs)

/-- a double close happened (the real code panics there) -/
def panicked (st : St) : Bool := (tableObjs st ++ st.grave).any fun b => b.released ≥ 2

/-! ### what the property demands, as predicates on states -/

/-- reachable objects are unreleased, every object that left the table was released exactly once -/
def ReleaseOk (st : St) : Prop :=
  (∀ b ∈ tableObjs st, b.released = 0) ∧ (∀ b ∈ st.grave, b.released = 1)

instance (st : St) : Decidable (ReleaseOk st) := by unfold ReleaseOk; infer_instance

/-- the table shows exactly what the configuration says: every sub-cluster of the gslb conf carries exactly
    the AddrInfo set of its cluster-table entry (none if the entry is missing) -/
def confKeys (bc : TableConf) (cn sn : String) : List String :=
  match bc.lookup cn with
  | none => []
  | some cb => match cb.lookup sn with
    | none => []
    | some conf => (confMap conf).map (·.key)

end BfeVerif.C09
