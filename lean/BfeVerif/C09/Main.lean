import BfeVerif.C09.Driver
def main : IO Unit := BfeVerif.Proto.driverMain BfeVerif.C09.run
