import BfeVerif.Common.Proto
import BfeVerif.C09.Model
/-!
  C09 driver.
  op      = step (" " step)*
  step    = kind "|" gslb "|" table "|" events          kind = I (BalTable.Init) | L (BalTableReload) | IF / LF the same from JSON files through BalTable.Init(files) / BalTableConfLoad + BalTableReload (a file the loaders reject gives status `rejected` and must change nothing)
  gslb    = "-" | cluster (";" cluster)*                cluster = cname "=" [sub ":" weight ("," sub ":" weight)*]
  table   = "-" | cluster (";" cluster)*                cluster = cname "=" [subspec ("+" subspec)*]
                                                        subspec = sname "~" [backend ("," backend)*] ; backend = name "@" addr "@" port "@" weight
  events  = "-" | ev ("," ev)*                          ev = (d|u|f|c) "^" cname "^" sname "^" addr "^" port   (applied after the reload and after the listing,
                                                        to the first backend of that sub-cluster with that address: SetAvail(false/true), AddFailNum, IncConnNum)
  result  = per step  status#table#grave#sel#fresh  (`initfail` ends the case when BalTable.Init fails in gslbInit)  status "#" table "#" grave "#" sel   (see `showStep`); a panic ends the case with `panic`.
  `sel` (set of backends returned by the Balance probes of the harness) and `fresh` (the same probes on a NEW BalTable
  loaded with the same configuration) are not predicted by the model: they are copied from the implementation's line and
  judged by the oracle: sel = exactly the available backends of the positive-weight sub-clusters (classes
  added-not-selectable, drained-still-selected, selected-not-selectable) and sel = fresh (differs-from-fresh-load).
-/
namespace BfeVerif.C09
open BfeVerif.Proto

def ne (l : List String) : List String := l.filter (· != "")

def splitNE (s : String) (sep : String) : List String := if s == "-" then [] else ne (s.splitOn sep)

def parseGslb (s : String) : Option GslbConf :=
  (splitNE s ";").mapM fun (c : String) =>
    match c.splitOn "=" with
    | [cn, subs] =>
      ((ne (subs.splitOn ",")).mapM fun (x : String) =>
        match x.splitOn ":" with
        | [sn, w] => w.toInt?.map fun w => (sn, w)
        | _ => none).map fun l => (cn, l)
    | _ => none

def parseBConf (s : String) : Option BConf :=
  match s.splitOn "@" with
  | [n, a, p, w] =>
    match p.toInt?, w.toInt? with
    | some p, some w => some { name := n, addr := a, port := p, weight := w }
    | _, _ => none
  | _ => none

def parseTable (s : String) : Option TableConf :=
  (splitNE s ";").mapM fun (c : String) =>
    match c.splitOn "=" with
    | [cn, subs] =>
      ((ne (subs.splitOn "+")).mapM fun (x : String) =>
        match x.splitOn "~" with
        | [sn, bs] => ((ne (bs.splitOn ",")).mapM parseBConf).map fun l => (sn, l)
        | _ => none).map fun l => (cn, l)
    | _ => none

structure Evt where
  op : String
  cn : String
  sn : String
  key : String

def parseEvts (s : String) : Option (List Evt) :=
  (splitNE s ",").mapM fun (e : String) =>
    match e.splitOn "^" with
    | [op, cn, sn, a, p] => some { op := op, cn := cn, sn := sn, key := a ++ ":" ++ p }
    | _ => none

def applyFirst (f : Backend → Backend) (key : String) : List Backend → List Backend
  | [] => []
  | b :: r => if b.key == key then f b :: r else b :: applyFirst f key r

def applyEvt (st : St) (e : Evt) : St :=
  let f : Backend → Backend :=
    if e.op == "d" then fun b => { b with avail := false }
    else if e.op == "u" then fun b => { b with avail := true, failNum := 0 }
    else if e.op == "f" then fun b => { b with failNum := b.failNum + 1 }
    else fun b => { b with connNum := b.connNum + 1 }
  { st with clusters := st.clusters.map fun c =>
      if c.name == e.cn then { c with subs := c.subs.map fun s =>
        if s.name == e.sn then { s with backs := applyFirst f e.key s.backs } else s }
      else c }

def b01 (b : Bool) : String := if b then "1" else "0"

def showObj (b : Backend) : String :=
  ",".intercalate [b.name, b.addr, toString b.port, toString b.weight, b01 b.avail, toString b.failNum,
    toString b.connNum, b01 (b.released ≥ 1), b01 b.restarted]

def dash (s : String) : String := if s == "" then "-" else s

def showObjs (l : List Backend) : String :=
  dash (";".intercalate ((l.mergeSort fun a b => a.key ≤ b.key).map showObj))

def showTable (st : St) : String :=
  dash ("|".intercalate (st.clusters.map fun c =>
    c.name ++ "=" ++ "+".intercalate (c.subs.map fun s => s.name ++ ":" ++ toString s.weight ++ "~" ++ showObjs s.backs)))

def showGrave (st : St) : String :=
  dash (";".intercalate ((st.grave.map showObj).mergeSort fun a b => a ≤ b))

/-! ### parsing the implementation's listing back (for the oracle) -/

def parseObj (s : String) : Option Backend :=
  match s.splitOn "," with
  | [n, a, p, w, av, f, c, cl, rs] =>
    match p.toInt?, w.toInt?, f.toInt?, c.toInt? with
    | some p, some w, some f, some c =>
      some { name := n, addr := a, port := p, weight := w, avail := av == "1", failNum := f, connNum := c,
             released := if cl == "1" then 1 else 0, restarted := rs == "1" }
    | _, _, _, _ => none
  | _ => none

def parseObjs (s : String) : Option (List Backend) := (splitNE s ";").mapM parseObj

def parseImplTable (s : String) : Option (List Cluster) :=
  (splitNE s "|").mapM fun (c : String) =>
    match c.splitOn "=" with
    | [cn, subs] =>
      ((ne (subs.splitOn "+")).mapM fun (x : String) =>
        match x.splitOn "~" with
        | [hd, objs] =>
          match hd.splitOn ":" with
          | [sn, w] =>
            match w.toInt?, parseObjs objs with
            | some w, some l => some ({ name := sn, weight := w, backs := l } : Sub)
            | _, _ => none
          | _ => none
        | _ => none).map fun l => ({ name := cn, subs := l } : Cluster)
    | _ => none

def isInit (k : String) : Bool := k == "I" || k == "IF"
def isFile (k : String) : Bool := k == "IF" || k == "LF"

structure Step where
  kind : String
  g : GslbConf
  bc : TableConf
  evts : List Evt

def parseStep (s : String) : Option Step :=
  match s.splitOn "|" with
  | [k, g, t, e] =>
    match parseGslb g, parseTable t, parseEvts e with
    | some g, some t, some e => some { kind := k, g := g, bc := t, evts := e }
    | _, _, _ => none
  | _ => none

def sameMultiset (a b : List String) : Bool :=
  (a.mergeSort fun x y => x ≤ y) == (b.mergeSort fun x y => x ≤ y)

/-- judge one step of the implementation: `prev` = implementation's table before the step (after events) -/
def judgeStep (stp : Step) (prev : List Cluster) (prevGrave : List Backend) (status : String) (tbl : List Cluster) (grave : List Backend)
    (sel fresh : List String) (hadGslbErr : Bool) : Option String :=
  if status == "panic" then some (if hadGslbErr then "reload-err-double-release" else "double-release")
  else if status == "vermismatch" then some "versions-not-updated"   -- BalTable.GetVersions does not report the conf in use
  else
  let objs := tbl.flatMap fun c => c.subs.flatMap (·.backs)
  if objs.any (·.released ≥ 1) then some (if hadGslbErr then "reload-err-released-reachable" else "released-reachable")
  else if grave.any (·.released == 0) then some "removed-not-released"
  else
  -- the table must show what the configuration says
  let bad := stp.g.findSome? fun (cn, gc) =>
    gc.findSome? fun (sn, _) =>
      let have_ := ((tbl.find? (·.name == cn)).bind fun c => c.subs.find? (·.name == sn)).map (·.backs.map (·.key))
      -- Init creates one backend per entry (duplicates included); Update merges by AddrInfo
      let want := if isInit stp.kind then
          (((stp.bc.lookup cn).bind (·.lookup sn)).getD []).map (·.key)
        else confKeys stp.bc cn sn
      match have_ with
      | none => if decide (confTotal gc ≤ 0) then none else some "subcluster-missing"
      | some h =>
        if sameMultiset h want then none
        else if decide (confTotal gc ≤ 0) && (stp.bc.lookup cn).isSome && ((stp.bc.lookup cn).bind (·.lookup sn)).isSome then some "reload-err-backends-differ"
        else if (stp.bc.lookup cn).isNone then some "cluster-missing-in-table-keeps-backends"
        else if ((stp.bc.lookup cn).bind (·.lookup sn)).isNone then some "subcluster-missing-in-table-keeps-backends"
        else some "backends-differ-from-conf"
  let rejectedChanged := !isInit stp.kind && stp.g.any fun (cn, gc) =>
    decide (confTotal gc ≤ 0) &&
      match prev.find? (·.name == cn) with
      | some pc => ((tbl.find? (·.name == cn)).map fun c => c.subs.map fun s => (s.name, s.weight)) != some (pc.subs.map fun s => (s.name, s.weight))
      | none => false
  match bad.orElse (fun _ => if rejectedChanged then some "rejected-conf-changed-cluster" else none) with
  | some c => some c
  | none =>
  -- clusters / sub-clusters that are not in the gslb conf must be gone
  if tbl.any (fun c => (stp.g.lookup c.name).isNone) then some "removed-cluster-reachable"
  else if tbl.any (fun c => !(decide (confTotal ((stp.g.lookup c.name).getD []) ≤ 0)) && c.subs.any fun s => ((stp.g.lookup c.name).bind (·.lookup s.name)).isNone) then some "removed-subcluster-reachable"
  else
  -- survivors keep their state, new ones are fresh
  let lost := tbl.any fun c => c.subs.any fun s =>
    let old := ((prev.find? (·.name == c.name)).bind fun pc => pc.subs.find? (·.name == s.name)).map (·.backs) |>.getD []
    s.backs.any fun b =>
      let cands := old.filter (·.key == b.key)
      if isInit stp.kind || cands.isEmpty then !(b.avail && b.failNum == 0 && b.connNum == 0)
      else !(cands.any fun o => o.avail == b.avail && o.failNum == b.failNum && o.connNum == b.connNum)
  if lost then some "state-lost"
  else
  -- restart flag (slow start): backends ADDED by a reload carry it, backends created by Init do not, survivors keep theirs
  let flagWrong := tbl.any fun c => c.subs.any fun s =>
    let old := ((prev.find? (·.name == c.name)).bind fun pc => pc.subs.find? (·.name == s.name)).map (·.backs) |>.getD []
    s.backs.any fun b =>
      let cands := old.filter (·.key == b.key)
      if isInit stp.kind then b.restarted
      else if cands.isEmpty then !b.restarted
      else !(cands.any fun o => o.restarted == b.restarted)
  if flagWrong then some "restart-flag-wrong"
  else
  -- a backend whose configured (Addr, Port) persists in its sub-cluster must not be released: judged for keys that
  -- occur exactly once in the whole previous table (so the grave entry can only be that object)
  let prevObjs := prev.flatMap fun c => c.subs.flatMap fun s => s.backs.map fun b => (c.name, s.name, b)
  let persistReleased := !isInit stp.kind && prevObjs.any fun (cn, sn, b) =>
    (prevObjs.filter fun x => x.2.2.key == b.key).length == 1 &&
    ((stp.g.lookup cn).bind (·.lookup sn)).isSome && decide (confTotal ((stp.g.lookup cn).getD []) > 0) &&
    (confKeys stp.bc cn sn).contains b.key &&
    (grave.any fun x => x.key == b.key && x.name == b.name && x.avail == b.avail && x.failNum == b.failNum && x.connNum == b.connNum) &&
    !(prevGrave.any fun x => x.key == b.key && x.name == b.name && x.avail == b.avail && x.failNum == b.failNum && x.connNum == b.connNum)
  if persistReleased then some "persisting-backend-released"
  else
  -- selection probes: the harness enumerates what Balance returns (client addresses covering every residue of the
  -- sub-cluster hash, one full round-robin cycle each).  Spec: exactly the available positive-weight backends of the
  -- positive-weight, non-blackhole sub-clusters; when such a sub-cluster has nothing selectable, Balance may also
  -- cross-retry into any non-blackhole sub-cluster of weight >= 0.
  let dedup := fun (l : List String) => l.foldl (fun acc x => if acc.contains x then acc else acc ++ [x]) []
  let selOf := fun (l : List String) (cn : String) => dedup (l.filter fun e => (e.splitOn ",").headD "" == cn)
  let verdictSel := tbl.findSome? fun c =>
    let selectable := fun (sb : Sub) => sb.backs.filter fun b => b.avail && b.weight > 0 && b.released == 0
    let entry := fun (sb : Sub) (b : Backend) => ",".intercalate [c.name, sb.name, b.addr, toString b.port, "0"]
    let pos := c.subs.filter fun sb => sb.weight > 0 && sb.name != "GSLB_BLACKHOLE"
    let cross := pos.any fun sb => (selectable sb).isEmpty
    let crossSubs := c.subs.filter fun sb => sb.weight ≥ 0 && sb.name != "GSLB_BLACKHOLE"
    let expected := dedup (pos.flatMap fun sb => (selectable sb).map (entry sb))
    let allowed := if cross then dedup (crossSubs.flatMap fun sb => (selectable sb).map (entry sb)) else expected
    let got := selOf sel c.name
    match got.find? (fun e => !allowed.contains e) with
    | some e =>
      let sn := (e.splitOn ",").getD 1 ""
      let drained := match c.subs.find? (·.name == sn) with
        | some sb => (sb.weight ≤ 0 || sb.name == "GSLB_BLACKHOLE") && (selectable sb).any (fun b => entry sb b == e)
        | none => false
      some (if drained then "drained-still-selected" else "selected-not-selectable")
    | none =>
      if expected.any (fun e => !got.contains e) then some "added-not-selectable"
      else
        -- differential: a fresh load of the same configuration must select the same set
        let rejected := decide (confTotal ((stp.g.lookup c.name).getD []) ≤ 0)
        if !cross && !rejected && !sameMultiset got (selOf fresh c.name) then some "differs-from-fresh-load" else none
  match verdictSel with
  | some v => some v
  | none => if sel.any (fun e => (tbl.find? (·.name == (e.splitOn ",").headD "")).isNone) then some "selected-not-selectable" else none

structure Acc where
  st : St := {}
  out : List String := []
  verdict : Option String := none
  implPrev : List Cluster := []
  implGrave : List Backend := []
  lastG : GslbConf := []
  lastBc : TableConf := []
  tags : List String := []
  stop : Bool := false

def addTag (t : String) (l : List String) : List String := if l.contains t then l else l ++ [t]

def run (op impl : String) : Ans :=
  match (ne (op.splitOn " ")).mapM parseStep with
  | none => { model := "bad-op", verdict := "skip" }
  | some steps =>
    let implSteps := ne (impl.splitOn " ")
    let rec go (steps : List Step) (impls : List String) (a : Acc) : Acc :=
      match steps with
      | [] => a
      | stp :: rest =>
        if a.stop then a else
        let r := if isInit stp.kind then balTableInit stp.g stp.bc else balTableReload a.st stp.g stp.bc
        let implS := impls.headD ""
        let f := implS.splitOn "#"
        let selStr := f.getD 3 "-" ++ "#" ++ f.getD 4 "-"
        if implS == "HANG" || (implS.splitOn "HANG").length > 1 then
          { a with out := a.out ++ ["?"], stop := true, verdict := a.verdict.orElse fun _ => some "hang" }
        else if isFile stp.kind && !confValid stp.g stp.bc then
          -- the loaders reject the files: nothing may change (an Init that fails ends the case)
          if isInit stp.kind then
            let v := a.verdict.orElse fun _ => if implS == "rejected" then none else some "rejected-conf-accepted"
            { a with out := a.out ++ ["rejected"], stop := true, verdict := v, tags := addTag "rejected" a.tags }
          else
            let line := "rejected#" ++ showTable a.st ++ "#" ++ showGrave a.st ++ "#" ++ selStr
            let (v, prev', grave') :=
              match f with
              | [s, t, g, _, _] =>
                match parseImplTable t, parseObjs g with
                | some tbl, some gr =>
                  let same := decide (tbl = a.implPrev) && sameMultiset (gr.map showObj) (a.implGrave.map showObj)
                  ((if s == "vermismatch" then some "versions-not-updated" else if s != "rejected" then some "rejected-conf-accepted"
                    else if !same then some "rejected-reload-changed-state" else none),
                   (stp.evts.foldl applyEvt { clusters := tbl }).clusters, gr)
                | _, _ => (some "unparsable", a.implPrev, a.implGrave)
              | _ => (some "unparsable", a.implPrev, a.implGrave)
            go rest (impls.drop 1)
              { a with st := stp.evts.foldl applyEvt a.st, out := a.out ++ [line], verdict := a.verdict.orElse fun _ => v,
                       implPrev := prev', implGrave := grave', tags := addTag "rejected" a.tags }
        else
        if isInit stp.kind && r.gslbErr then
          -- BalTable.Init returned the gslbInit error before backendInit: the server does not start, the history ends
          let v := a.verdict.orElse fun _ => if implS == "initfail" then none else some "unparsable"
          { a with out := a.out ++ ["initfail"], stop := true, verdict := v, tags := addTag "init-fail" a.tags }
        else if panicked r.st then
          let v := a.verdict.orElse fun _ =>
            if implS == "panic" then judgeStep stp a.implPrev a.implGrave "panic" [] [] [] [] r.gslbErr else some "unparsable"
          { a with out := a.out ++ ["panic"], stop := true, verdict := v, tags := addTag "panic" a.tags }
        else
          let st' := stp.evts.foldl applyEvt r.st
          let status := if r.gslbErr || r.tableErr then "err" else "ok"
          let line := status ++ "#" ++ showTable r.st ++ "#" ++ showGrave r.st ++ "#" ++ selStr
          let (v, prev', grave') :=
            match f with
            | [s, t, g, sl, fr] =>
              match parseImplTable t, parseObjs g with
              | some tbl, some gr =>
                -- the listing is taken right after the reload; the step's events are then applied to the
                -- implementation's own listing to obtain the `prev` the next step's survivors are compared with
                (judgeStep stp a.implPrev a.implGrave s tbl gr (splitNE sl ";") (splitNE fr ";") r.gslbErr,
                 (stp.evts.foldl applyEvt { clusters := tbl }).clusters, gr)
              | _, _ => (some "unparsable", a.implPrev, a.implGrave)
            | _ => (some (if implS == "panic" then "double-release" else "unparsable"), a.implPrev, a.implGrave)
          let tags := if isFile stp.kind then addTag "file" a.tags else a.tags
          let tags := if !isInit stp.kind && stp.g == (a.lastG) && stp.bc == a.lastBc then addTag "same-conf" tags else tags
          let tags := if !isInit stp.kind && stp.g == a.lastG && stp.bc != a.lastBc then addTag "table-only" tags else tags
          let tags := if !isInit stp.kind && stp.g != a.lastG && stp.bc == a.lastBc then addTag "gslb-only" tags else tags
          let tags := if r.gslbErr then addTag "gslb-err" tags else tags
          let tags := if r.tableErr then addTag "table-err" tags else tags
          let tags := if !isInit stp.kind && r.st.grave.length > a.st.grave.length then addTag "nt" (addTag "released" tags) else tags
          let tags := if !isInit stp.kind && (tableObjs st').any (fun b => !b.avail || b.failNum != 0 || b.connNum != 0) then addTag "stateful-survivor" tags else tags
          go rest (impls.drop 1)
            { a with st := st', out := a.out ++ [line], verdict := a.verdict.orElse fun _ => v, implPrev := prev', implGrave := grave', lastG := stp.g, lastBc := stp.bc, tags := tags,
                     stop := implS == "panic" }
    let a := go steps implSteps {}
    { model := " ".intercalate a.out
      verdict := match a.verdict with | some c => "FAIL:" ++ c | none => "ok"
      tags := a.tags ++ [if steps.length ≤ 2 then "len<=2" else if steps.length ≤ 5 then "len3-5" else "len6+"] }

end BfeVerif.C09
