import BfeVerif.C46.Seg
namespace BfeVerif.C46

theorem take_split {α} (X : List α) (N m : Nat) (h : m ≤ N) : X.take N = X.take m ++ (X.drop m).take (N - m) := by
  have : X.take N = (X.take m ++ X.drop m).take N := by rw [List.take_append_drop]
  rw [this, List.take_append]
  simp [List.length_take]
  by_cases hm : m ≤ X.length
  · simp [Nat.min_eq_left hm, List.take_of_length_le (show (X.take m).length ≤ N by simp; omega)]
  · have hx : X.length < m := by omega
    simp [List.take_of_length_le (Nat.le_of_lt hx), List.drop_of_length_le (Nat.le_of_lt hx),
      List.take_of_length_le (show X.length ≤ N by omega)]

theorem fill1_rest_all (r r' : Rdr) (h : fill1 r = some r') : r'.rest = r.rest ∧ r'.all = r.all := by
  unfold fill1 at h
  split at h
  · simp at h
  · split at h
    · simp at h
    · rename_i seg more hsegs
      simp at h; subst h
      simp only [Rdr.rest, Rdr.all, hsegs]
      have hm1 : pullLen (bufSize - r.buf.length) r.N seg.length ≤ seg.length := Nat.min_le_right _ _
      have hm2 : pullLen (bufSize - r.buf.length) r.N seg.length ≤ r.N :=
        Nat.le_trans (Nat.min_le_left _ _) (Nat.min_le_right _ _)
      generalize pullLen (bufSize - r.buf.length) r.N seg.length = m at hm1 hm2
      constructor
      · rw [List.flatten_cons, take_split (seg ++ more.flatten) r.N m hm2]
        rw [List.take_append_of_le_length hm1, List.drop_append_of_le_length hm1]
        split
        · rename_i hms; subst hms; simp [List.append_assoc]
        · simp [List.append_assoc]
      · split
        · rename_i hms; subst hms; simp [List.append_assoc]
        · simp [List.append_assoc]
          rw [← List.append_assoc (seg.take m), List.take_append_drop]

/-- bookkeeping of the limiter: what it still allows plus what has been pulled from the connection is the limit -/
def Rdr.K (r : Rdr) (S L : Nat) : Prop := r.segs.flatten.length ≤ S ∧ r.N + (S - r.segs.flatten.length) = L

theorem fill1_measure_K (r r' : Rdr) (S L : Nat) (h : fill1 r = some r') (hroom : r.buf.length < bufSize) (hK : r.K S L) :
    r'.measure < r.measure ∧ r'.K S L := by
  unfold fill1 at h
  split at h
  · simp at h
  · rename_i hN
    split at h
    · simp at h
    · rename_i seg more hsegs
      simp at h; subst h
      have hm1 : pullLen (bufSize - r.buf.length) r.N seg.length ≤ seg.length := Nat.min_le_right _ _
      have hm2 : pullLen (bufSize - r.buf.length) r.N seg.length ≤ r.N :=
        Nat.le_trans (Nat.min_le_left _ _) (Nat.min_le_right _ _)
      have hm3 : seg.length ≠ 0 → pullLen (bufSize - r.buf.length) r.N seg.length ≠ 0 := by
        intro h0; unfold pullLen; omega
      generalize pullLen (bufSize - r.buf.length) r.N seg.length = m at hm1 hm2 hm3
      obtain ⟨hK1, hK2⟩ := hK
      simp only [Rdr.measure, Rdr.K, hsegs] at hK1 hK2 ⊢
      simp only [List.flatten_cons, List.length_append, List.length_cons] at hK1 hK2 ⊢
      split
      · rename_i hms
        refine ⟨by omega, by omega, by omega⟩
      · rename_i hms
        simp only [List.flatten_cons, List.length_append, List.length_cons, List.length_drop]
        have : seg.length ≠ 0 := by omega
        have := hm3 this
        refine ⟨by omega, by omega, by omega⟩

theorem need_spec (n : Nat) (hn : n ≤ bufSize) (S L : Nat) :
    ∀ (fuel : Nat) (r : Rdr), r.measure < fuel → r.K S L →
      let r' := need n fuel r
      r'.rest = r.rest ∧ r'.all = r.all ∧ r'.K S L ∧ (n ≤ r'.buf.length ∨ r'.buf = r'.rest) := by
  intro fuel
  induction fuel with
  | zero => intro r h; omega
  | succ f ih =>
    intro r hf hK
    simp only [need]
    split
    · rename_i hge; exact ⟨rfl, rfl, hK, Or.inl hge⟩
    · rename_i hlt
      cases hfl : fill1 r with
      | none =>
        simp only []
        refine ⟨trivial, trivial, hK, Or.inr ?_⟩
        unfold fill1 at hfl
        split at hfl
        · rename_i h0; simp [Rdr.rest, h0]
        · split at hfl
          · rename_i hs; simp [Rdr.rest, hs]
          · simp at hfl
      | some r1 =>
        simp only []
        have hroom : r.buf.length < bufSize := by omega
        obtain ⟨hm, hK1⟩ := fill1_measure_K r r1 S L hfl hroom hK
        obtain ⟨e1, e2⟩ := fill1_rest_all r r1 hfl
        obtain ⟨a, b, c, d⟩ := ih r1 (by omega) hK1
        exact ⟨a.trans e1, b.trans e2, c, d⟩

theorem rdr_need_spec (r : Rdr) (n : Nat) (hn : n ≤ bufSize) (S L : Nat) (hK : r.K S L) :
    (r.need n).rest = r.rest ∧ (r.need n).all = r.all ∧ (r.need n).K S L ∧
    (n ≤ (r.need n).buf.length ∨ (r.need n).buf = (r.need n).rest) :=
  need_spec n hn S L _ r (Nat.lt_succ_self _) hK

/-- `ReadByte` pops exactly the next visible byte, whatever the segmentation -/
theorem readByte_some (r : Rdr) (S L : Nat) (hK : r.K S L) (b : UInt8) (r' : Rdr) (h : r.readByte = some (b, r')) :
    r.rest = b :: r'.rest ∧ r.all = b :: r'.all ∧ r'.K S L := by
  unfold Rdr.readByte at h
  obtain ⟨e1, e2, k, _⟩ := rdr_need_spec r 1 (by decide) S L hK
  cases hb : (r.need 1).buf with
  | nil => simp [hb] at h
  | cons c t =>
    simp [hb] at h
    obtain ⟨rfl, rfl⟩ := h
    refine ⟨?_, ?_, k⟩
    · rw [← e1]; simp [Rdr.rest, hb]
    · rw [← e2]; simp [Rdr.all, hb]

theorem readByte_none (r : Rdr) (S L : Nat) (hK : r.K S L) (h : r.readByte = none) :
    r.rest = [] ∧ (r.need 1).buf = [] ∧ (r.need 1).K S L ∧ (r.need 1).all = r.all ∧ (r.need 1).rest = [] := by
  unfold Rdr.readByte at h
  obtain ⟨e1, e2, k, d⟩ := rdr_need_spec r 1 (by decide) S L hK
  cases hb : (r.need 1).buf with
  | nil =>
    rcases d with d | d
    · simp [hb] at d
    · rw [hb] at d
      exact ⟨by rw [← e1, ← d], rfl, k, e2, d.symm⟩
  | cons c t => simp [hb] at h

end BfeVerif.C46
