import BfeVerif.C46.Seg
import BfeVerif.C46.Proofs
namespace BfeVerif.C46

theorem take_split {α} (X : List α) (N m : Nat) (h : m ≤ N) : X.take N = X.take m ++ (X.drop m).take (N - m) := by
  have : X.take N = (X.take m ++ X.drop m).take N := by rw [List.take_append_drop]
  rw [this, List.take_append]
  simp [List.length_take]
  by_cases hm : m ≤ X.length
  · simp [Nat.min_eq_left hm, List.take_of_length_le (show (X.take m).length ≤ N by simp; omega)]
  · have hx : X.length < m := by omega
    simp [List.take_of_length_le (Nat.le_of_lt hx), List.drop_of_length_le (Nat.le_of_lt hx),
      List.take_of_length_le (show X.length ≤ N by omega)]

theorem fill1_rest_all (r r' : Rdr) (h : fill1 r = some r') : r'.rest = r.rest ∧ r'.all = r.all := by
  unfold fill1 at h
  split at h
  · simp at h
  · split at h
    · simp at h
    · rename_i seg more hsegs
      simp at h; subst h
      simp only [Rdr.rest, Rdr.all, hsegs]
      have hm1 : pullLen (bufSize - r.buf.length) r.N seg.length ≤ seg.length := Nat.min_le_right _ _
      have hm2 : pullLen (bufSize - r.buf.length) r.N seg.length ≤ r.N :=
        Nat.le_trans (Nat.min_le_left _ _) (Nat.min_le_right _ _)
      generalize pullLen (bufSize - r.buf.length) r.N seg.length = m at hm1 hm2
      constructor
      · rw [List.flatten_cons, take_split (seg ++ more.flatten) r.N m hm2]
        rw [List.take_append_of_le_length hm1, List.drop_append_of_le_length hm1]
        split
        · rename_i hms; subst hms; simp [List.append_assoc]
        · simp [List.append_assoc]
      · split
        · rename_i hms; subst hms; simp [List.append_assoc]
        · simp [List.append_assoc]
          rw [← List.append_assoc (seg.take m), List.take_append_drop]

/-- bookkeeping of the limiter: what it still allows plus what has been pulled from the connection is the limit -/
def Rdr.K (r : Rdr) (S L : Nat) : Prop := r.segs.flatten.length ≤ S ∧ r.N + (S - r.segs.flatten.length) = L

theorem fill1_measure_K (r r' : Rdr) (S L : Nat) (h : fill1 r = some r') (hroom : r.buf.length < bufSize) (hK : r.K S L) :
    r'.measure < r.measure ∧ r'.K S L := by
  unfold fill1 at h
  split at h
  · simp at h
  · rename_i hN
    split at h
    · simp at h
    · rename_i seg more hsegs
      simp at h; subst h
      have hm1 : pullLen (bufSize - r.buf.length) r.N seg.length ≤ seg.length := Nat.min_le_right _ _
      have hm2 : pullLen (bufSize - r.buf.length) r.N seg.length ≤ r.N :=
        Nat.le_trans (Nat.min_le_left _ _) (Nat.min_le_right _ _)
      have hm3 : seg.length ≠ 0 → pullLen (bufSize - r.buf.length) r.N seg.length ≠ 0 := by
        intro h0; unfold pullLen; omega
      generalize pullLen (bufSize - r.buf.length) r.N seg.length = m at hm1 hm2 hm3
      obtain ⟨hK1, hK2⟩ := hK
      simp only [Rdr.measure, Rdr.K, hsegs] at hK1 hK2 ⊢
      simp only [List.flatten_cons, List.length_append, List.length_cons] at hK1 hK2 ⊢
      split
      · rename_i hms
        refine ⟨by omega, by omega, by omega⟩
      · rename_i hms
        simp only [List.flatten_cons, List.length_append, List.length_cons, List.length_drop]
        have : seg.length ≠ 0 := by omega
        have := hm3 this
        refine ⟨by omega, by omega, by omega⟩

theorem need_spec (n : Nat) (hn : n ≤ bufSize) (S L : Nat) :
    ∀ (fuel : Nat) (r : Rdr), r.measure < fuel → r.K S L →
      let r' := need n fuel r
      r'.rest = r.rest ∧ r'.all = r.all ∧ r'.K S L ∧ (n ≤ r'.buf.length ∨ r'.buf = r'.rest) := by
  intro fuel
  induction fuel with
  | zero => intro r h; omega
  | succ f ih =>
    intro r hf hK
    simp only [need]
    split
    · rename_i hge; exact ⟨rfl, rfl, hK, Or.inl hge⟩
    · rename_i hlt
      cases hfl : fill1 r with
      | none =>
        simp only []
        refine ⟨trivial, trivial, hK, Or.inr ?_⟩
        unfold fill1 at hfl
        split at hfl
        · rename_i h0; simp [Rdr.rest, h0]
        · split at hfl
          · rename_i hs; simp [Rdr.rest, hs]
          · simp at hfl
      | some r1 =>
        simp only []
        have hroom : r.buf.length < bufSize := by omega
        obtain ⟨hm, hK1⟩ := fill1_measure_K r r1 S L hfl hroom hK
        obtain ⟨e1, e2⟩ := fill1_rest_all r r1 hfl
        obtain ⟨a, b, c, d⟩ := ih r1 (by omega) hK1
        exact ⟨a.trans e1, b.trans e2, c, d⟩

theorem rdr_need_spec (r : Rdr) (n : Nat) (hn : n ≤ bufSize) (S L : Nat) (hK : r.K S L) :
    (r.need n).rest = r.rest ∧ (r.need n).all = r.all ∧ (r.need n).K S L ∧
    (n ≤ (r.need n).buf.length ∨ (r.need n).buf = (r.need n).rest) :=
  need_spec n hn S L _ r (Nat.lt_succ_self _) hK

/-- `ReadByte` pops exactly the next visible byte, whatever the segmentation -/
theorem readByte_some (r : Rdr) (S L : Nat) (hK : r.K S L) (b : UInt8) (r' : Rdr) (h : r.readByte = some (b, r')) :
    r.rest = b :: r'.rest ∧ r.all = b :: r'.all ∧ r'.K S L := by
  unfold Rdr.readByte at h
  obtain ⟨e1, e2, k, _⟩ := rdr_need_spec r 1 (by decide) S L hK
  cases hb : (r.need 1).buf with
  | nil => simp [hb] at h
  | cons c t =>
    simp [hb] at h
    obtain ⟨rfl, rfl⟩ := h
    refine ⟨?_, ?_, k⟩
    · rw [← e1]; simp [Rdr.rest, hb]
    · rw [← e2]; simp [Rdr.all, hb]

theorem readByte_none (r : Rdr) (S L : Nat) (hK : r.K S L) (h : r.readByte = none) :
    r.rest = [] ∧ (r.need 1).buf = [] ∧ (r.need 1).K S L ∧ (r.need 1).all = r.all ∧ (r.need 1).rest = [] := by
  unfold Rdr.readByte at h
  obtain ⟨e1, e2, k, d⟩ := rdr_need_spec r 1 (by decide) S L hK
  cases hb : (r.need 1).buf with
  | nil =>
    rcases d with d | d
    · simp [hb] at d
    · rw [hb] at d
      exact ⟨by rw [← e1, ← d], rfl, k, e2, d.symm⟩
  | cons c t => simp [hb] at h

theorem errIsEOF_iff (r : Rdr) (S L : Nat) (e : EndK) (hK : r.K S L) (hb : r.buf = []) (hr : r.rest = []) :
    r.errIsEOF e = (decide (S ≥ L) || e == .eof) := by
  obtain ⟨k1, k2⟩ := hK
  have ht : (r.segs.flatten).take r.N = [] := by simpa [Rdr.rest, hb] using hr
  have hcase : r.N = 0 ∨ r.segs.flatten = [] := by
    rcases Nat.eq_zero_or_pos r.N with h | h
    · exact Or.inl h
    · right
      cases hf : r.segs.flatten with
      | nil => rfl
      | cons a t =>
        rw [hf] at ht
        obtain ⟨m, hm⟩ : ∃ m, r.N = m + 1 := ⟨r.N - 1, by omega⟩
        rw [hm] at ht; simp at ht
  unfold Rdr.errIsEOF
  by_cases h0 : r.N = 0
  · have : S ≥ L := by omega
    simp [h0, this]
  · have hf : r.segs.flatten = [] := by rcases hcase with h | h; exact absurd h h0; exact h
    have : ¬ S ≥ L := by rw [hf] at k2; simp at k2; omega
    simp [h0, this]

theorem prefix_getD (b y : Bytes) (i : Nat) (h : i < b.length) : (b ++ y).getD i 0 = b.getD i 0 := by
  simp [List.getD_eq_getElem?_getD, List.getElem?_append_left h]

/-- the same tail computed from the buffer after `Peek(len)` -/
theorem tail_buf_eq (b13 b14 : UInt8) (len : Nat) (buf Y : Bytes) (hl : len ≤ buf.length)
    (hv : b13 ≠ 0x20 → validLen b14 len = true) :
    tailFree b13 b14 len (buf ++ Y) = tailFree b13 b14 len buf := by
  unfold tailFree
  have h1 : ¬ (buf ++ Y).length < len := by simp; omega
  have h2 : ¬ buf.length < len := by omega
  simp only [h1, h2, if_false]
  by_cases c : b13 = 0x20
  · simp [c]
  · simp only [c, if_false]
    have hvl := hv c
    by_cases c4 : b14 &&& 0xF0 = 0x10
    · have hge : 12 ≤ len := by simpa [validLen, c4] using hvl
      rw [if_pos c4, if_pos c4]
      rw [List.take_append_of_le_length (by omega), List.drop_append_of_le_length (by omega),
        List.take_append_of_le_length (by simp; omega),
        prefix_getD _ _ 8 (by omega), prefix_getD _ _ 9 (by omega), prefix_getD _ _ 10 (by omega), prefix_getD _ _ 11 (by omega)]
    · by_cases c6 : b14 &&& 0xF0 = 0x20
      · have hge : 36 ≤ len := by simpa [validLen, c4, c6] using hvl
        rw [if_neg c4, if_neg c4, if_pos c6, if_pos c6]
        rw [List.take_append_of_le_length (by omega), List.drop_append_of_le_length (by omega),
          List.take_append_of_le_length (by simp; omega),
          prefix_getD _ _ 32 (by omega), prefix_getD _ _ 33 (by omega), prefix_getD _ _ 34 (by omega), prefix_getD _ _ 35 (by omega)]
      · rw [if_neg c4, if_neg c4, if_neg c6, if_neg c6]

theorem parseV2_cons4 (b13 b14 hi lo : UInt8) (X : Bytes) (a : Bool) :
    parseV2 (sigV2 ++ b13 :: b14 :: hi :: lo :: X) a =
      if b13 ≠ 0x20 ∧ b13 ≠ 0x21 then .err
      else if ¬ supportedFam b14 ∧ ¬ (b13 = 0x20 ∧ b14 = 0x00) then .err
      else if ¬ b13 = 0x20 ∧ ¬ validLen b14 (be16 hi lo) then .err
      else if be16 hi lo > bufSize then .err
      else tailFree b13 b14 (be16 hi lo) X := by
  simp only [parseV2, sigV2, tailFree]
  simp

theorem parseV2_len0 (a : Bool) : parseV2 (sigV2 ++ []) a = .err := by simp [parseV2, sigV2]
theorem parseV2_len1 (b13 : UInt8) (a : Bool) :
    parseV2 (sigV2 ++ [b13]) a =
      if b13 ≠ 0x20 ∧ b13 ≠ 0x21 then .err else if b13 = 0x20 ∧ a = true then .sock 13 else .err := by
  simp [parseV2, sigV2]
theorem parseV2_len2 (b13 b14 : UInt8) (a : Bool) : parseV2 (sigV2 ++ [b13, b14]) a = .err := by
  simp only [parseV2, sigV2]; simp
theorem parseV2_len3 (b13 b14 hi : UInt8) (a : Bool) : parseV2 (sigV2 ++ [b13, b14, hi]) a = .err := by
  simp only [parseV2, sigV2]; simp

/-- **C46_chunking_independent, v2**: on ANY segmentation of the connection (reader `r0` after the successful
    `Peek(12)`), `parseVersion2` over the bufio reader returns exactly what the chunk-free model returns on the
    visible byte string `r0.rest`. -/
theorem parseV2Seg_result (r0 : Rdr) (e : EndK) (S L : Nat) (hK : r0.K S L) (hsig : r0.buf.take 12 = sigV2) :
    (parseV2Seg r0 e).1 = parseV2 r0.rest (decide (S ≥ L) || e == .eof) := by
  have hbuf : r0.buf = sigV2 ++ r0.buf.drop 12 := by rw [← hsig, List.take_append_drop]
  have hrest : r0.rest = sigV2 ++ ({ r0 with buf := r0.buf.drop 12 } : Rdr).rest := by
    simp only [Rdr.rest]; rw [← List.append_assoc, ← hbuf]
  have hK1 : ({ r0 with buf := r0.buf.drop 12 } : Rdr).K S L := hK
  rw [hrest]
  unfold parseV2Seg
  generalize ({ r0 with buf := r0.buf.drop 12 } : Rdr) = r1 at hK1 ⊢
  cases h1 : r1.readByte with
  | none =>
    obtain ⟨e1, _⟩ := readByte_none r1 S L hK1 h1
    simp only [h1, e1, parseV2_len0]
  | some p1 =>
    obtain ⟨b13, r2⟩ := p1
    obtain ⟨e1, _, hK2⟩ := readByte_some r1 S L hK1 b13 r2 h1
    simp only [h1, e1]
    cases h2 : r2.readByte with
    | none =>
      obtain ⟨e2, hb2, hK2', _, hr2⟩ := readByte_none r2 S L hK2 h2
      have ha := errIsEOF_iff (r2.need 1) S L e hK2' hb2 hr2
      simp only [h2, e2, ha, parseV2_len1]
      by_cases c1 : b13 ≠ 0x20 ∧ b13 ≠ 0x21
      · simp [c1]
      · simp only [c1, if_false]
    | some p2 =>
      obtain ⟨b14, r3⟩ := p2
      obtain ⟨e2, _, hK3⟩ := readByte_some r2 S L hK2 b14 r3 h2
      simp only [h2, e2]
      cases h3 : r3.readByte with
      | none =>
        obtain ⟨e3, _⟩ := readByte_none r3 S L hK3 h3
        simp only [h3, e3, parseV2_len2]
        by_cases c1 : b13 ≠ 0x20 ∧ b13 ≠ 0x21
        · simp [c1]
        · simp only [c1, if_false]; split <;> rfl
      | some p3 =>
        obtain ⟨hi, r4⟩ := p3
        obtain ⟨e3, _, hK4⟩ := readByte_some r3 S L hK3 hi r4 h3
        simp only [h3, e3]
        cases h4 : r4.readByte with
        | none =>
          obtain ⟨e4, _⟩ := readByte_none r4 S L hK4 h4
          simp only [h4, e4, parseV2_len3]
          by_cases c1 : b13 ≠ 0x20 ∧ b13 ≠ 0x21
          · simp [c1]
          · simp only [c1, if_false]; split <;> rfl
        | some p4 =>
          obtain ⟨lo, r5⟩ := p4
          obtain ⟨e4, _, hK5⟩ := readByte_some r4 S L hK4 lo r5 h4
          simp only [h4, e4, parseV2_cons4]
          by_cases c1 : b13 ≠ 0x20 ∧ b13 ≠ 0x21
          · simp [c1]
          · simp only [c1, if_false]
            by_cases c2 : ¬ supportedFam b14 ∧ ¬ (b13 = 0x20 ∧ b14 = 0x00)
            · simp [c2]
            · simp only [c2, if_false]
              by_cases c3 : ¬ b13 = 0x20 ∧ ¬ validLen b14 (be16 hi lo)
              · simp [c3]
              · simp only [c3, if_false]
                by_cases c4 : be16 hi lo > bufSize
                · simp [c4]
                · simp only [c4, if_false]
                  obtain ⟨er, _, _, d⟩ := rdr_need_spec r5 (be16 hi lo) (by omega) S L hK5
                  have hv : b13 ≠ 0x20 → validLen b14 (be16 hi lo) = true := by
                    intro hb
                    cases hvv : validLen b14 (be16 hi lo)
                    · exact absurd ⟨hb, by simp [hvv]⟩ c3
                    · rfl
                  by_cases c5 : (r5.need (be16 hi lo)).buf.length < be16 hi lo
                  · simp only [c5, if_true]
                    rcases d with d | d
                    · omega
                    · have : r5.rest.length < be16 hi lo := by rw [← er, ← d]; exact c5
                      simp [tailFree, this]
                  · simp only [c5, if_false]
                    have hsplit : r5.rest = (r5.need (be16 hi lo)).buf ++
                        (((r5.need (be16 hi lo)).segs.flatten).take (r5.need (be16 hi lo)).N) := by rw [← er]; rfl
                    rw [hsplit, tail_buf_eq _ _ _ _ _ (by omega) hv]

theorem tailFree_consumed (b13 b14 : UInt8) (len : Nat) (X : Bytes) (n : Nat)
    (h : (tailFree b13 b14 len X).consumed = some n) : n = 16 + len := by
  unfold tailFree at h
  repeat' split at h
  all_goals (simp [Rd.consumed] at h; try omega)

/-- what `parseVersion2` leaves in the reader is exactly the stream behind the header, whatever the segmentation -/
theorem parseV2Seg_all (r0 : Rdr) (e : EndK) (S L : Nat) (hK : r0.K S L) (hsig : r0.buf.take 12 = sigV2) (n : Nat)
    (hn : (parseV2Seg r0 e).1.consumed = some n) : (parseV2Seg r0 e).2.all = r0.all.drop n := by
  have hbuf : r0.buf = sigV2 ++ r0.buf.drop 12 := by rw [← hsig, List.take_append_drop]
  have hall : r0.all = sigV2 ++ ({ r0 with buf := r0.buf.drop 12 } : Rdr).all := by
    simp only [Rdr.all]; rw [← List.append_assoc, ← hbuf]
  have hK1 : ({ r0 with buf := r0.buf.drop 12 } : Rdr).K S L := hK
  rw [hall]
  unfold parseV2Seg at hn ⊢
  generalize ({ r0 with buf := r0.buf.drop 12 } : Rdr) = r1 at hK1 hn ⊢
  have hd : ∀ (X : Bytes) (k : Nat), (sigV2 ++ X).drop (12 + k) = X.drop k := by
    intro X k; rw [← List.drop_drop]; simp [sigV2]
  cases h1 : r1.readByte with
  | none => simp only [h1, Rd.consumed] at hn; cases hn
  | some p1 =>
    obtain ⟨b13, r2⟩ := p1
    obtain ⟨_, a1, hK2⟩ := readByte_some r1 S L hK1 b13 r2 h1
    simp only [h1] at hn ⊢
    by_cases c1 : b13 ≠ 0x20 ∧ b13 ≠ 0x21
    · rw [if_pos c1] at hn; simp [Rd.consumed] at hn
    · rw [if_neg c1] at hn ⊢
      cases h2 : r2.readByte with
      | none =>
        obtain ⟨_, _, _, a2, _⟩ := readByte_none r2 S L hK2 h2
        simp only [h2] at hn ⊢
        split at hn
        · simp only [Rd.consumed] at hn
          have : n = 13 := by cases hn; rfl
          subst this
          show (r2.need 1).all = _
          rw [a2, a1, show (13 : Nat) = 12 + 1 from rfl, hd]; simp
        · simp [Rd.consumed] at hn
      | some p2 =>
        obtain ⟨b14, r3⟩ := p2
        obtain ⟨_, a2, hK3⟩ := readByte_some r2 S L hK2 b14 r3 h2
        simp only [h2] at hn ⊢
        split at hn
        · simp [Rd.consumed] at hn
        · rename_i c2
          simp only [c2, if_false]
          cases h3 : r3.readByte with
          | none => simp only [h3, Rd.consumed] at hn; cases hn
          | some p3 =>
            obtain ⟨hi, r4⟩ := p3
            obtain ⟨_, a3, hK4⟩ := readByte_some r3 S L hK3 hi r4 h3
            simp only [h3] at hn ⊢
            cases h4 : r4.readByte with
            | none => simp only [h4, Rd.consumed] at hn; cases hn
            | some p4 =>
              obtain ⟨lo, r5⟩ := p4
              obtain ⟨_, a4, hK5⟩ := readByte_some r4 S L hK4 lo r5 h4
              simp only [h4] at hn ⊢
              split at hn
              · simp [Rd.consumed] at hn
              · rename_i c3
                simp only [c3, if_false]
                split at hn
                · simp [Rd.consumed] at hn
                · rename_i c4
                  simp only [c4, if_false]
                  obtain ⟨_, ea, _, _⟩ := rdr_need_spec r5 (be16 hi lo) (by omega) S L hK5
                  split at hn
                  · simp [Rd.consumed] at hn
                  · rename_i c5
                    simp only [c5, if_false]
                    have hnn := tailFree_consumed _ _ _ _ _ hn
                    subst hnn
                    rw [a1, a2, a3, a4, show 16 + be16 hi lo = 12 + (4 + be16 hi lo) from by omega, hd]
                    have : (b13 :: b14 :: hi :: lo :: r5.all).drop (4 + be16 hi lo) = r5.all.drop (be16 hi lo) := by
                      rw [show 4 + be16 hi lo = be16 hi lo + 4 from by omega]; simp
                    rw [this, ← ea]
                    simp only [Rdr.all]
                    rw [List.drop_append_of_le_length (by omega)]

theorem buf_prefix (r : Rdr) (k : Nat) (h : k ≤ r.buf.length) : r.buf.take k = r.rest.take k := by
  simp only [Rdr.rest]; rw [List.take_append_of_le_length h]

theorem rest_len_of_buf (r : Rdr) (k : Nat) (h : k ≤ r.buf.length) : k ≤ r.rest.length := by
  simp only [Rdr.rest, List.length_append]; omega

theorem rh_np (env : Env) (b : UInt8) (t : Bytes) (a : Bool) (cb : b ≠ 0x50 ∧ b ≠ 0x0D) :
    readHeader env (b :: t) a = .noProxy := by
  unfold readHeader; simp only []; rw [if_pos cb]

theorem rh_short5 (env : Env) (b : UInt8) (t : Bytes) (a : Bool) (cb : ¬ (b ≠ 0x50 ∧ b ≠ 0x0D))
    (hl : (b :: t).length < 5) : readHeader env (b :: t) a = .err := by
  unfold readHeader; simp only []; rw [if_neg cb, if_pos hl]

theorem rh_short12 (env : Env) (b : UInt8) (t : Bytes) (a : Bool) (cb : ¬ (b ≠ 0x50 ∧ b ≠ 0x0D))
    (h5 : ¬ (b :: t).length < 5) (hv : (b :: t).take 5 ≠ sigV1) (hl : (b :: t).length < 12) :
    readHeader env (b :: t) a = .err := by
  unfold readHeader; simp only []; rw [if_neg cb, if_neg h5, if_neg hv, if_pos hl]

theorem rh_12 (env : Env) (b : UInt8) (t : Bytes) (a : Bool) (cb : ¬ (b ≠ 0x50 ∧ b ≠ 0x0D))
    (h5 : ¬ (b :: t).length < 5) (hv : (b :: t).take 5 ≠ sigV1) (hl : ¬ (b :: t).length < 12) :
    readHeader env (b :: t) a = if (b :: t).take 12 = sigV2 then parseV2 (b :: t) a else .noProxy := by
  unfold readHeader; simp only []; rw [if_neg cb, if_neg h5, if_neg hv, if_neg hl]

/-- the Peek(1)/Peek(5)/Peek(12) dispatch of `Read` over the segmented reader agrees with the chunk-free model on
    every stream whose visible part does not carry the v1 signature -/
theorem readHeaderSeg_spec (env : Env) (v1 : Rdr → Rd × Rdr) (r0 : Rdr) (e : EndK) (S L : Nat) (hK : r0.K S L)
    (hv1 : r0.rest.take 5 ≠ sigV1) :
    (readHeaderSeg v1 r0 e).1 = readHeader env r0.rest (decide (S ≥ L) || e == .eof) ∧
    ((readHeaderSeg v1 r0 e).1 = .noProxy → (readHeaderSeg v1 r0 e).2.all = r0.all) ∧
    (∀ n, (readHeaderSeg v1 r0 e).1.consumed = some n → (readHeaderSeg v1 r0 e).2.all = r0.all.drop n) := by
  obtain ⟨e1, a1, K1, d1⟩ := rdr_need_spec r0 1 (by decide) S L hK
  unfold readHeaderSeg
  simp only []
  cases hb : (r0.need 1).buf with
  | nil =>
    have hr : r0.rest = [] := by
      rcases d1 with d | d
      · simp [hb] at d
      · rw [← e1, ← d, hb]
    simp [hr, readHeader, Rd.consumed]
  | cons b t =>
    simp only []
    have hrest : r0.rest = b :: (t ++ ((r0.need 1).segs.flatten).take (r0.need 1).N) := by
      rw [← e1]; simp [Rdr.rest, hb]
    by_cases cb : b ≠ 0x50 ∧ b ≠ 0x0D
    · rw [if_pos cb]
      refine ⟨?_, (fun _ => a1), (fun n hn => by simp [Rd.consumed] at hn)⟩
      rw [hrest]; exact (rh_np env b _ _ cb).symm
    · rw [if_neg cb]
      obtain ⟨e5, a5, K5, d5⟩ := rdr_need_spec (r0.need 1) 5 (by decide) S L K1
      by_cases c5 : ((r0.need 1).need 5).buf.length < 5
      · rw [if_pos c5]
        have hl : r0.rest.length < 5 := by
          rcases d5 with d | d
          · omega
          · rw [← e1, ← e5, ← d]; exact c5
        refine ⟨?_, (fun h => by simp at h), (fun n hn => by simp [Rd.consumed] at hn)⟩
        rw [hrest] at hl ⊢
        exact (rh_short5 env b _ _ cb hl).symm
      · rw [if_neg c5]
        have hp5 : ((r0.need 1).need 5).buf.take 5 = r0.rest.take 5 := by
          rw [buf_prefix _ 5 (by omega), e5, e1]
        have hl5 : ¬ r0.rest.length < 5 := by
          have := rest_len_of_buf ((r0.need 1).need 5) 5 (by omega); rw [e5, e1] at this; omega
        rw [hp5, if_neg hv1]
        obtain ⟨e12, a12, K12, d12⟩ := rdr_need_spec ((r0.need 1).need 5) 12 (by decide) S L K5
        by_cases c12 : (((r0.need 1).need 5).need 12).buf.length < 12
        · rw [if_pos c12]
          have hl : r0.rest.length < 12 := by
            rcases d12 with d | d
            · omega
            · rw [← e1, ← e5, ← e12, ← d]; exact c12
          refine ⟨?_, (fun h => by simp at h), (fun n hn => by simp [Rd.consumed] at hn)⟩
          rw [hrest] at hl hl5 hv1 ⊢
          exact (rh_short12 env b _ _ cb hl5 hv1 hl).symm
        · rw [if_neg c12]
          have hp12 : (((r0.need 1).need 5).need 12).buf.take 12 = r0.rest.take 12 := by
            rw [buf_prefix _ 12 (by omega), e12, e5, e1]
          have hl12 : ¬ r0.rest.length < 12 := by
            have := rest_len_of_buf (((r0.need 1).need 5).need 12) 12 (by omega); rw [e12, e5, e1] at this; omega
          have hrd : readHeader env r0.rest (decide (S ≥ L) || e == .eof) =
              if r0.rest.take 12 = sigV2 then parseV2 r0.rest (decide (S ≥ L) || e == .eof) else .noProxy := by
            rw [hrest] at hl5 hl12 hv1 ⊢
            exact rh_12 env b _ _ cb hl5 hv1 hl12
          by_cases cs : (((r0.need 1).need 5).need 12).buf.take 12 = sigV2
          · rw [if_pos cs]
            have hs' : r0.rest.take 12 = sigV2 := by rw [← hp12]; exact cs
            have hres := parseV2Seg_result _ e S L K12 cs
            rw [e12, e5, e1] at hres
            refine ⟨by rw [hres, hrd, if_pos hs'], ?_, ?_⟩
            · intro hnp
              -- parseV2 never answers noProxy
              exfalso
              rw [hres] at hnp
              have := readHeader_v2_sound env ((r0.rest).drop 12) (decide (S ≥ L) || e == .eof) .noProxy
                (by
                  have hsplit : r0.rest = sigV2 ++ r0.rest.drop 12 := by rw [← hs', List.take_append_drop]
                  rw [← hsplit, hrd, if_pos hs']; exact hnp) (by simp)
              rcases this with ⟨_, _, h⟩ | ⟨_, _, _, _, _, _, _, _, _, h⟩
              · cases h
              · rcases h with ⟨_, _, h⟩ | ⟨_, _, _, _, _, _, _, h⟩ <;> cases h
            · intro n hn
              rw [parseV2Seg_all _ e S L K12 cs n hn, a12, a5, a1]
          · rw [if_neg cs]
            have hs' : ¬ r0.rest.take 12 = sigV2 := by rw [← hp12]; exact cs
            refine ⟨by rw [hrd, if_neg hs'], (fun _ => by rw [a12, a5, a1]), (fun n hn => by simp [Rd.consumed] at hn)⟩

theorem readLine_append_some (b y line : Bytes) (h : readLine b = some line) : readLine (b ++ y) = some line := by
  induction b generalizing line with
  | nil => simp [readLine] at h
  | cons x t ih =>
    simp only [List.cons_append, readLine] at h ⊢
    by_cases hx : x = 0x0A
    · simp only [hx, if_true] at h ⊢; exact h
    · simp only [hx, if_false] at h ⊢
      cases ht : readLine t with
      | none => simp [ht] at h
      | some l => simp [ht] at h; subst h; simp [ih l ht]

theorem readLine_append_none (b y : Bytes) (h : readLine b = none) :
    readLine (b ++ y) = (readLine y).map (b ++ ·) := by
  induction b with
  | nil => simp
  | cons x t ih =>
    simp only [List.cons_append, readLine] at h ⊢
    by_cases hx : x = 0x0A
    · simp [hx] at h
    · simp only [hx, if_false] at h ⊢
      have ht : readLine t = none := by
        cases h' : readLine t with
        | none => rfl
        | some l => simp [h'] at h
      rw [ih ht]
      cases readLine y <;> simp

theorem readLine_prefix (b line : Bytes) (h : readLine b = some line) : b = line ++ b.drop line.length := by
  induction b generalizing line with
  | nil => simp [readLine] at h
  | cons x t ih =>
    simp only [readLine] at h
    by_cases hx : x = 0x0A
    · simp [hx] at h; subst h; simp [hx]
    · simp only [hx, if_false] at h
      cases ht : readLine t with
      | none => simp [ht] at h
      | some l =>
        simp [ht] at h; subst h
        simp only [List.length_cons, List.drop_succ_cons, List.cons_append]
        rw [← ih l ht]

def phi (r : Rdr) : Nat := 2 * r.measure + (if r.buf.length ≥ bufSize then 1 else 0)

theorem fill1_none_rest (r : Rdr) (h : fill1 r = none) : r.rest = r.buf := by
  unfold fill1 at h
  split at h
  · rename_i h0; simp [Rdr.rest, h0]
  · split at h
    · rename_i hs; simp [Rdr.rest, hs]
    · simp at h

/-- `ReadString` over any segmentation returns the first line of the visible byte string (or fails when there is
    none) and leaves exactly the bytes behind it -/
theorem readLineSeg_spec (S L : Nat) :
    ∀ (fuel : Nat) (acc : Bytes) (r : Rdr), phi r < fuel → r.K S L →
      (∀ line, readLine r.rest = some line →
        ∃ r', readLineSeg fuel acc r = some (acc ++ line, r') ∧ r'.rest = r.rest.drop line.length ∧
              r'.all = r.all.drop line.length ∧ r'.K S L) ∧
      (readLine r.rest = none → readLineSeg fuel acc r = none) := by
  intro fuel
  induction fuel with
  | zero => intro acc r h; omega
  | succ f ih =>
    intro acc r hf hK
    simp only [readLineSeg]
    cases hb : readLine r.buf with
    | some l =>
      have hr : readLine r.rest = some l := readLine_append_some _ _ _ hb
      have hp := readLine_prefix _ _ hb
      have hlen : l.length ≤ r.buf.length := by
        have := congrArg List.length hp; simp at this; omega
      constructor
      · intro line hl
        rw [hr] at hl; cases hl
        refine ⟨_, rfl, ?_, ?_, hK⟩
        · simp only [Rdr.rest]; rw [List.drop_append_of_le_length hlen]
        · simp only [Rdr.all]; rw [List.drop_append_of_le_length hlen]
      · intro hn; rw [hr] at hn; cases hn
    | none =>
      simp only []
      by_cases hfull : r.buf.length ≥ bufSize
      · rw [if_pos hfull]
        have hphi : phi { r with buf := [] } < f := by
          unfold phi at hf ⊢
          simp only [Rdr.measure] at hf ⊢
          simp [hfull] at hf
          simp [bufSize]; omega
        obtain ⟨i1, i2⟩ := ih (acc ++ r.buf) { r with buf := [] } hphi hK
        have hrl : readLine r.rest = (readLine ({ r with buf := [] } : Rdr).rest).map (r.buf ++ ·) := by
          have : r.rest = r.buf ++ ({ r with buf := [] } : Rdr).rest := by simp [Rdr.rest]
          rw [this]; exact readLine_append_none _ _ hb
        constructor
        · intro line hl
          rw [hrl] at hl
          cases hq : readLine ({ r with buf := [] } : Rdr).rest with
          | none => simp [hq] at hl
          | some l' =>
            simp [hq] at hl; subst hl
            obtain ⟨r', h1, h2, h3, h4⟩ := i1 l' hq
            refine ⟨r', by rw [h1, List.append_assoc], ?_, ?_, h4⟩
            · rw [h2]; simp [Rdr.rest]
            · rw [h3]; simp [Rdr.all]
        · intro hn
          rw [hrl] at hn
          cases hq : readLine ({ r with buf := [] } : Rdr).rest with
          | none => exact i2 hq
          | some l' => simp [hq] at hn
      · rw [if_neg hfull]
        cases hfl : fill1 r with
        | none =>
          simp only []
          have := fill1_none_rest r hfl
          constructor
          · intro line hl; rw [this, hb] at hl; cases hl
          · intro _; trivial
        | some r1 =>
          simp only []
          obtain ⟨hm, hK1⟩ := fill1_measure_K r r1 S L hfl (by omega) hK
          obtain ⟨e1, a1⟩ := fill1_rest_all r r1 hfl
          have hphi : phi r1 < f := by
            unfold phi at hf ⊢
            have : (if r1.buf.length ≥ bufSize then 1 else 0) ≤ 1 := by split <;> omega
            omega
          obtain ⟨i1, i2⟩ := ih acc r1 hphi hK1
          rw [← e1, ← a1]
          exact ⟨i1, i2⟩

theorem parseToks_shape (env : Env) (toks : List Bytes) (n : Nat) :
    parseToks env toks n = .err ∨ parseToks env toks n = .sock n ∨
    ∃ f s d sp dp, parseToks env toks n = .hdr f s d sp dp n := by
  unfold parseToks
  repeat' (first | split | dsimp only)
  all_goals first | exact Or.inl rfl | exact Or.inr (Or.inl rfl) | exact Or.inr (Or.inr ⟨_, _, _, _, _, rfl⟩)

theorem parseToks_consumed (env : Env) (toks : List Bytes) (n m : Nat)
    (h : (parseToks env toks n).consumed = some m) : m = n := by
  rcases parseToks_shape env toks n with h1 | h1 | ⟨_, _, _, _, _, h1⟩ <;> rw [h1] at h <;> simp [Rd.consumed] at h <;> omega

theorem parseV1Seg_spec (env : Env) (r : Rdr) (S L : Nat) (hK : r.K S L) :
    (parseV1Seg env r).1 = parseV1 env r.rest ∧
    (∀ n, (parseV1Seg env r).1.consumed = some n → (parseV1Seg env r).2.all = r.all.drop n) := by
  obtain ⟨i1, i2⟩ := readLineSeg_spec S L (2 * r.measure + 3) [] r (by unfold phi; split <;> omega) hK
  unfold parseV1Seg parseV1 Rdr.readLine
  cases hl : readLine r.rest with
  | none =>
    rw [i2 hl]
    exact ⟨rfl, fun n hn => by simp [Rd.consumed] at hn⟩
  | some line =>
    obtain ⟨r', h1, _, h3, _⟩ := i1 line hl
    rw [h1]
    simp only [List.nil_append]
    by_cases c : line.length < 2 ∨ line.getD (line.length - 2) 0 ≠ 0x0D
    · rw [if_pos c, if_pos c]
      exact ⟨rfl, fun n hn => by simp [Rd.consumed] at hn⟩
    · rw [if_neg c, if_neg c]
      refine ⟨rfl, fun n hn => ?_⟩
      have : n = line.length := parseToks_consumed env _ _ _ hn
      subst this
      exact h3

theorem rh_v1 (env : Env) (b : UInt8) (t : Bytes) (a : Bool) (hv : (b :: t).take 5 = sigV1) :
    readHeader env (b :: t) a = parseV1 env (b :: t) := by
  have hb : b = 0x50 := by simp [sigV1] at hv; exact hv.1
  have hl : ¬ (b :: t).length < 5 := by
    have := congrArg List.length hv; simp [sigV1] at this; simp; omega
  have cb : ¬ (b ≠ 0x50 ∧ b ≠ 0x0D) := by simp [hb]
  unfold readHeader; simp only []; rw [if_neg cb, if_neg hl, if_pos hv]

/-- the v1 branch of `Read` over the segmented reader -/
theorem readHeaderSeg_spec_v1 (env : Env) (r0 : Rdr) (e : EndK) (S L : Nat) (hK : r0.K S L) (a : Bool)
    (hv1 : r0.rest.take 5 = sigV1) :
    (readHeaderSeg (parseV1Seg env) r0 e).1 = readHeader env r0.rest a ∧
    (∀ n, (readHeaderSeg (parseV1Seg env) r0 e).1.consumed = some n →
        (readHeaderSeg (parseV1Seg env) r0 e).2.all = r0.all.drop n) ∧
    (readHeaderSeg (parseV1Seg env) r0 e).1 ≠ .noProxy := by
  obtain ⟨e1, a1, K1, d1⟩ := rdr_need_spec r0 1 (by decide) S L hK
  obtain ⟨e5, a5, K5, d5⟩ := rdr_need_spec (r0.need 1) 5 (by decide) S L K1
  have hlen : 5 ≤ r0.rest.length := by
    have := congrArg List.length hv1; simp [sigV1] at this; omega
  have hb5 : 5 ≤ ((r0.need 1).need 5).buf.length := by
    rcases d5 with d | d
    · exact d
    · rw [d, e5, e1]; exact hlen
  have hp5 : ((r0.need 1).need 5).buf.take 5 = sigV1 := by
    rw [buf_prefix _ 5 hb5, e5, e1]; exact hv1
  obtain ⟨s1, s2⟩ := parseV1Seg_spec env ((r0.need 1).need 5) S L K5
  rw [e5, e1] at s1
  rw [a5, a1] at s2
  unfold readHeaderSeg
  simp only []
  cases hb : (r0.need 1).buf with
  | nil =>
    exfalso
    rcases d1 with d | d
    · simp [hb] at d
    · rw [hb] at d; rw [← e1, ← d] at hlen; simp at hlen
  | cons b t =>
    simp only []
    have hrest : r0.rest = b :: (t ++ ((r0.need 1).segs.flatten).take (r0.need 1).N) := by
      rw [← e1]; simp [Rdr.rest, hb]
    have hb50 : b = 0x50 := by rw [hrest] at hv1; simp [sigV1] at hv1; exact hv1.1
    have cb : ¬ (b ≠ 0x50 ∧ b ≠ 0x0D) := by simp [hb50]
    have c5 : ¬ ((r0.need 1).need 5).buf.length < 5 := by omega
    rw [if_neg cb, if_neg c5, if_pos hp5]
    have hrh : readHeader env r0.rest a = parseV1 env r0.rest := by
      rw [hrest] at hv1 ⊢; exact rh_v1 env b _ a hv1
    refine ⟨by rw [s1, hrh], s2, ?_⟩
    rw [s1]
    -- parseV1 never answers noProxy
    unfold parseV1
    split
    · simp
    · simp only []
      split
      · simp
      · rcases parseToks_shape env (splitSp (List.take (List.length ‹Bytes› - 2) ‹Bytes›)) (List.length ‹Bytes›) with h | h | ⟨_, _, _, _, _, h⟩ <;> rw [h] <;> simp

theorem readLine_take_none (s : Bytes) (k : Nat) (h : readLine s = none) : readLine (s.take k) = none := by
  induction s generalizing k with
  | nil => simp [readLine]
  | cons x t ih =>
    cases k with
    | zero => simp [readLine]
    | succ k =>
      simp only [readLine, List.take_succ_cons] at h ⊢
      by_cases hx : x = 0x0A
      · simp [hx] at h
      · simp only [hx, if_false] at h ⊢
        have : readLine t = none := by
          cases h' : readLine t with
          | none => rfl
          | some l => simp [h'] at h
        simp [ih k this]

theorem readLine_of_take (s : Bytes) (k : Nat) (l : Bytes) (h : readLine (s.take k) = some l) : readLine s = some l := by
  induction s generalizing k l with
  | nil => simp [readLine] at h
  | cons x t ih =>
    cases k with
    | zero => simp [readLine] at h
    | succ k =>
      simp only [readLine, List.take_succ_cons] at h ⊢
      by_cases hx : x = 0x0A
      · simp only [hx, if_true] at h ⊢; exact h
      · simp only [hx, if_false] at h ⊢
        cases ht : readLine (t.take k) with
        | none => simp [ht] at h
        | some l' => simp [ht] at h; subst h; simp [ih k l' ht]

theorem readLine_take_some (s : Bytes) (k : Nat) (l : Bytes) (h : readLine s = some l) (hk : l.length ≤ k) :
    readLine (s.take k) = some l := by
  induction s generalizing k l with
  | nil => simp [readLine] at h
  | cons x t ih =>
    simp only [readLine] at h
    by_cases hx : x = 0x0A
    · simp [hx] at h; subst h
      cases k with
      | zero => simp at hk
      | succ k => simp [readLine, hx]
    · simp only [hx, if_false] at h
      cases ht : readLine t with
      | none => simp [ht] at h
      | some l' =>
        simp [ht] at h; subst h
        cases k with
        | zero => simp at hk
        | succ k =>
          simp only [List.take_succ_cons, readLine, hx, if_false]
          simp [ih k l' ht (by simpa using hk)]

def closedRd : Rd → Bool
  | .err => true
  | .noProxy => false
  | .sock _ => false
  | .hdr f s d sp dp _ => (resolve f s sp).isNone || (resolve f d dp).isNone

theorem connOf_closed (rd : Rd) (st : Bytes) (e : EndK) : (connOf rd st e).closed = closedRd rd := by
  cases rd with
  | err => rfl
  | noProxy => rfl
  | sock n => rfl
  | hdr f s d sp dp n =>
    simp only [connOf, closedRd]
    cases resolve f s sp <;> cases resolve f d dp <;> simp [rejectObs]

end BfeVerif.C46
