import BfeVerif.C46.Model
/-!
  C46, round 2 — the bufio reader over a SEGMENTED connection (core-only).
  `Rdr` mirrors `bfe_bufio.Reader` (4096-byte buffer) over `io.LimitReader(conn, headerLimit)` over a connection
  that hands out its bytes in arbitrary segments (one `conn.Read` returns bytes of at most one segment).
-/
namespace BfeVerif.C46

structure Rdr where
  buf : Bytes            -- b.buf[b.r:b.w]
  segs : List Bytes      -- what the connection will still deliver, segment by segment
  N : Nat                -- LimitedReader.N: how many more bytes may be pulled in the header phase
deriving Repr

/-- bytes the header parser can still get to see -/
def Rdr.rest (r : Rdr) : Bytes := r.buf ++ (r.segs.flatten).take r.N
/-- all bytes not yet handed out -/
def Rdr.all (r : Rdr) : Bytes := r.buf ++ r.segs.flatten

/-- how many bytes one `conn.Read` yields: room in the buffer, what the limiter allows, what the segment holds -/
def pullLen (room N len : Nat) : Nat := min (min room N) len

/-- `Reader.fill`: ONE `rd.Read(b.buf[b.w:])` through the limiter; `none` = the read reports an error -/
def fill1 (r : Rdr) : Option Rdr :=
  if r.N = 0 then none
  else match r.segs with
    | [] => none
    | seg :: more =>
      let m := pullLen (bufSize - r.buf.length) r.N seg.length
      some { buf := r.buf ++ seg.take m
             segs := if m = seg.length then more else seg.drop m :: more
             N := r.N - m }

def Rdr.measure (r : Rdr) : Nat := r.segs.flatten.length + r.segs.length

/-- the loop of `Peek(n)` / `ReadByte`: `for buffered < n && b.err == nil { b.fill() }` -/
def need (n : Nat) : Nat → Rdr → Rdr
  | 0, r => r
  | fuel + 1, r =>
    if r.buf.length ≥ n then r
    else match fill1 r with
      | none => r
      | some r' => need n fuel r'

def Rdr.need (r : Rdr) (n : Nat) : Rdr := BfeVerif.C46.need n (r.measure + 1) r

/-- `ReadByte` -/
def Rdr.readByte (r : Rdr) : Option (UInt8 × Rdr) :=
  let r' := r.need 1
  match r'.buf with
  | b :: t => some (b, { r' with buf := t })
  | [] => none

/-- after the failing read: was the error io.EOF (limiter used up, or the peer closed) rather than the deadline? -/
def Rdr.errIsEOF (r : Rdr) (e : EndK) : Bool := r.N == 0 || e == .eof

/-- what `parseVersion2` does once `Peek(len)` succeeded: addresses are read from, and the block is drained out of,
    the `len` buffered bytes at the head of `X` -/
def tailFree (b13 b14 : UInt8) (len : Nat) (X : Bytes) : Rd :=
  if X.length < len then .err
  else if b13 = 0x20 then .sock (16 + len)
  else if b14 &&& 0xF0 = 0x10 then
    .hdr b14 (some (to16 (X.take 4))) (some (to16 ((X.drop 4).take 4)))
      (be16 (X.getD 8 0) (X.getD 9 0)) (be16 (X.getD 10 0) (X.getD 11 0)) (16 + len)
  else if b14 &&& 0xF0 = 0x20 then
    .hdr b14 (some (X.take 16)) (some ((X.drop 16).take 16))
      (be16 (X.getD 32 0) (X.getD 33 0)) (be16 (X.getD 34 0) (X.getD 35 0)) (16 + len)
  else .hdr b14 none none 0 0 (16 + len)

/-- `parseVersion2` on the segmented reader (after `Peek(12)` matched the signature) -/
def parseV2Seg (r0 : Rdr) (e : EndK) : Rd × Rdr :=
  let r1 := { r0 with buf := r0.buf.drop 12 }          -- 12 × ReadByte: all buffered by the Peek
  match r1.readByte with
  | none => (.err, r1)
  | some (b13, r2) =>
    if b13 ≠ 0x20 ∧ b13 ≠ 0x21 then (.err, r2)
    else
      let isLocal := b13 = 0x20
      match r2.readByte with
      | none => (if isLocal ∧ (r2.need 1).errIsEOF e = true then .sock 13 else .err, r2.need 1)
      | some (b14, r3) =>
        if ¬ supportedFam b14 ∧ ¬ (isLocal ∧ b14 = 0x00) then (.err, r3)
        else
          match r3.readByte with               -- binary.Read of the length: io.ReadFull over 1-byte-at-least Reads
          | none => (.err, r3)
          | some (hi, r4) =>
            match r4.readByte with
            | none => (.err, r4)
            | some (lo, r5) =>
              let len := be16 hi lo
              if ¬ isLocal ∧ ¬ validLen b14 len then (.err, r5)
              else if len > bufSize then (.err, r5)            -- Peek: ErrBufferFull
              else
                let r6 := r5.need len                            -- Peek(length)
                if r6.buf.length < len then (.err, r6)
                else (tailFree b13 b14 len r6.buf,               -- addresses and drain come out of the buffer
                      { r6 with buf := r6.buf.drop len })

/-- `ReadString('\n')` = `ReadBytes`: a loop of `ReadSlice`; a full buffer without LF (ErrBufferFull) is set aside and
    the loop goes on; any read error ends it.  `acc` = the full buffers collected so far. -/
def readLineSeg : Nat → Bytes → Rdr → Option (Bytes × Rdr)
  | 0, _, _ => none
  | fuel + 1, acc, r =>
    match readLine r.buf with
    | some line => some (acc ++ line, { r with buf := r.buf.drop line.length })
    | none =>
      if r.buf.length ≥ bufSize then readLineSeg fuel (acc ++ r.buf) { r with buf := [] }
      else match fill1 r with
        | none => none
        | some r' => readLineSeg fuel acc r'

def Rdr.readLine (r : Rdr) : Option (Bytes × Rdr) := readLineSeg (2 * r.measure + 3) [] r

/-- `parseVersion1` on the segmented reader -/
def parseV1Seg (env : Env) (r : Rdr) : Rd × Rdr :=
  match r.readLine with
  | none => (.err, r)
  | some (line, r') =>
    let n := line.length
    if n < 2 ∨ line.getD (n - 2) 0 ≠ 0x0D then (.err, r')
    else (parseToks env (splitSp (line.take (n - 2))) n, r')

/-- how many bytes of the stream a successful `Read` has consumed -/
def Rd.consumed : Rd → Option Nat
  | .sock n => some n
  | .hdr _ _ _ _ _ n => some n
  | _ => none

/-- `Read(reader)` (header.go) on the segmented reader: Peek(1), Peek(5), Peek(12) dispatch; the v1 branch
    (`ReadString`) is a parameter -/
def readHeaderSeg (v1 : Rdr → Rd × Rdr) (r : Rdr) (e : EndK) : Rd × Rdr :=
  let r1 := r.need 1
  match r1.buf with
  | [] => (.err, r1)
  | b :: _ =>
    if b ≠ 0x50 ∧ b ≠ 0x0D then (.noProxy, r1)
    else
      let r5 := r1.need 5
      if r5.buf.length < 5 then (.err, r5)
      else if r5.buf.take 5 = sigV1 then v1 r5
      else
        let r12 := r5.need 12
        if r12.buf.length < 12 then (.err, r12)
        else if r12.buf.take 12 = sigV2 then parseV2Seg r12 e
        else (.noProxy, r12)

/-- one `bfe_proxy.Conn` over a connection that delivers `segs`: header phase through the limiter, then the
    limit is lifted and the application reads everything the reader still holds or will get (`all`) -/
def connSeg (v1 : Rdr → Rd × Rdr) (segs : List Bytes) (limit : Nat) (e : EndK) : Obs :=
  let p := readHeaderSeg v1 { buf := [], segs := segs, N := effLimit limit } e
  match p.1 with
  | .noProxy => { src := none, dst := none, data := p.2.all, fin := finOf e, closed := false }
  | .err => rejectObs none
  | .sock _ => { src := none, dst := none, data := p.2.all, fin := finOf e, closed := false }
  | .hdr fam s d sp dp _ =>
    match resolve fam s sp with
    | none => rejectObs none
    | some sa =>
      match resolve fam d dp with
      | none => rejectObs (some sa)
      | some da => { src := some sa, dst := some da, data := p.2.all, fin := finOf e, closed := false }

end BfeVerif.C46
