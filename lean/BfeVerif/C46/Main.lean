import BfeVerif.C46.Driver
def main : IO Unit := BfeVerif.Proto.driverMain BfeVerif.C46.run
