import BfeVerif.C46.Proofs
import BfeVerif.C46.SegProofs
/-!
  C46 — PROXY protocol headers are parsed per specification.  Property theorems only.

  * completeness  `C46_spec_roundtrip_partial`: every header a conformant sender produces (v1 TCP4/TCP6/UNKNOWN,
    v2 PROXY over TCP4/TCP6 with any TLV tail, v2 LOCAL with any family and any block), followed by ANY payload,
    makes the connection report exactly the advertised addresses (socket addresses for LOCAL/UNKNOWN) and hands
    the payload over unchanged — under `Supported`, which excludes the three defects left in the code
    (block > 4096-byte bufio buffer, IPv4-mapped addresses under TCP6, header beyond the configured limit);
    each exclusion has a theorem showing the full statement fails there.
  * `C46_malformed_closes…`: a rejected connection never delivers a byte; v2 headers with a bad version/command,
    an unassigned family or a length below the address size are rejected, and (`…_v2_sound`) EVERY v2 stream that is
    not rejected is the spec encoding of a well-formed header followed by exactly the payload handed over.  (v1: the code is lenient in five
    ways — witnesses below — recorded as known findings.)
  * `C46_passthrough_partial`: no signature ⇒ byte-identical stream, socket addresses (except streams shorter
    than 12 bytes that begin with `P` or CR: witness).
-/
namespace BfeVerif.C46

/-- a header as a spec-conformant sender describes it (v1: the rendered tokens and the values they denote) -/
inductive Hdr
  | v1tcp4 (a b p q : Bytes) (ia ib : Bytes) (sp dp : Nat)
  | v1tcp6 (a b p q : Bytes) (ia ib : Bytes) (sp dp : Nat)
  | v1unknown (junk : Bytes)
  | v2tcp4 (src dst : Bytes) (sp dp : Nat) (tlv : Bytes)
  | v2tcp6 (src dst : Bytes) (sp dp : Nat) (tlv : Bytes)
  | v2local (fam : UInt8) (block : Bytes)

/-- the bytes the sender puts on the wire (spec side) -/
def Hdr.encode : Hdr → Bytes
  | .v1tcp4 a b p q _ _ _ _ => encodeV1 tokTCP4 a b p q
  | .v1tcp6 a b p q _ _ _ _ => encodeV1 tokTCP6 a b p q
  | .v1unknown junk => encodeV1Unknown junk
  | .v2tcp4 src dst sp dp tlv => encodeV2 0x21 0x11 (addrBlock src dst sp dp ++ tlv)
  | .v2tcp6 src dst sp dp tlv => encodeV2 0x21 0x21 (addrBlock src dst sp dp ++ tlv)
  | .v2local fam block => encodeV2 0x20 fam block

/-- what `RemoteAddr()` / `VirtualAddr()` must report (`none` = the real socket address / nil) -/
def Hdr.addrs : Hdr → Option Addr × Option Addr
  | .v1tcp4 _ _ _ _ ia ib sp dp => (some ⟨ia, sp⟩, some ⟨ib, dp⟩)
  | .v1tcp6 _ _ _ _ ia ib sp dp => (some ⟨ia, sp⟩, some ⟨ib, dp⟩)
  | .v1unknown _ => (none, none)
  | .v2tcp4 src dst sp dp _ => (some ⟨to16 src, sp⟩, some ⟨to16 dst, dp⟩)
  | .v2tcp6 src dst sp dp _ => (some ⟨src, sp⟩, some ⟨dst, dp⟩)
  | .v2local _ _ => (none, none)

/-- conformance to the protocol text (`env.parseIP` = inet_pton reads the address tokens) -/
def Hdr.Conformant (env : Env) : Hdr → Prop
  | .v1tcp4 a b p q ia ib sp dp =>
      Tok a ∧ Tok b ∧ Tok p ∧ Tok q ∧ env.parseIP a = some ia ∧ env.parseIP b = some ib ∧
      isV4Mapped ia = true ∧ isV4Mapped ib = true ∧ specPort p = some sp ∧ specPort q = some dp
  | .v1tcp6 a b p q ia ib sp dp =>
      Tok a ∧ Tok b ∧ Tok p ∧ Tok q ∧ env.parseIP a = some ia ∧ env.parseIP b = some ib ∧
      specPort p = some sp ∧ specPort q = some dp
  | .v1unknown junk =>
      (junk = [] ∨ ∃ j, junk = 0x20 :: j) ∧ (∀ b ∈ junk, b ≠ 0x0A) ∧ (encodeV1Unknown junk).length ≤ 107
  | .v2tcp4 src dst sp dp tlv =>
      src.length = 4 ∧ dst.length = 4 ∧ sp < 65536 ∧ dp < 65536 ∧ 12 + tlv.length < 65536
  | .v2tcp6 src dst sp dp tlv =>
      src.length = 16 ∧ dst.length = 16 ∧ sp < 65536 ∧ dp < 65536 ∧ 36 + tlv.length < 65536
  | .v2local fam block => (fam = 0x00 ∨ supportedFam fam = true) ∧ block.length < 65536

/-- the part of the quantifier on which the code is right: excludes exactly the recorded defects -/
def Hdr.Supported : Hdr → Prop
  | .v1tcp4 .. => True
  | .v1tcp6 _ _ _ _ ia ib _ _ => isV4Mapped ia = false ∧ isV4Mapped ib = false
  | .v1unknown _ => True
  | .v2tcp4 _ _ _ _ tlv => 12 + tlv.length ≤ bufSize
  | .v2tcp6 src dst _ _ tlv => 36 + tlv.length ≤ bufSize ∧ isV4Mapped src = false ∧ isV4Mapped dst = false
  | .v2local _ block => block.length ≤ bufSize

def acceptObs (ad : Option Addr × Option Addr) (pay : Bytes) (e : EndK) : Obs :=
  { src := ad.1, dst := ad.2, data := pay, fin := finOf e, closed := false }

/-- **full statement** (fails on the unchanged and on the fixed code, see the witnesses):
    every conformant header that fits the configured header limit is honoured -/
def C46_spec_roundtrip_full : Prop :=
  ∀ (env : Env) (h : Hdr) (pay : Bytes) (limit : Nat) (e : EndK),
    h.Conformant env → h.encode.length ≤ effLimit limit →
    connRun env (h.encode ++ pay) limit e = acceptObs h.addrs pay e

theorem C46_spec_roundtrip_partial (env : Env) (h : Hdr) (pay : Bytes) (limit : Nat) (e : EndK)
    (hc : h.Conformant env) (hs : h.Supported) (hl : h.encode.length ≤ effLimit limit) :
    connRun env (h.encode ++ pay) limit e = acceptObs h.addrs pay e := by
  cases h with
  | v1tcp4 a b p q ia ib sp dp =>
    obtain ⟨ha, hb, hp, hq, hia, hib, hma, hmb, hsp, hdp⟩ := hc
    have h1 : parseV1IP env 0x11 a = some (some ia) := by simp [parseV1IP, hia, hma]
    have h2 : parseV1IP env 0x11 b = some (some ib) := by simp [parseV1IP, hib, hmb]
    rw [connRun_prefix env _ pay limit e _ hl (fun rest _ => readHeader_v1_tcp env tokTCP4 a b p q rest 0x11 _ _ sp dp
      (Or.inl ⟨rfl, rfl⟩) ha hb hp hq h1 h2 (goPort_of_specPort _ _ hsp) (goPort_of_specPort _ _ hdp))]
    simp [connOf, resolve, hma, hmb, acceptObs, Hdr.addrs, Hdr.encode]
  | v1tcp6 a b p q ia ib sp dp =>
    obtain ⟨ha, hb, hp, hq, hia, hib, hsp, hdp⟩ := hc
    obtain ⟨hma, hmb⟩ := hs
    have h1 : parseV1IP env 0x21 a = some (some ia) := by simp [parseV1IP, hia, hma]
    have h2 : parseV1IP env 0x21 b = some (some ib) := by simp [parseV1IP, hib, hmb]
    rw [connRun_prefix env _ pay limit e _ hl (fun rest _ => readHeader_v1_tcp env tokTCP6 a b p q rest 0x21 _ _ sp dp
      (Or.inr ⟨rfl, rfl⟩) ha hb hp hq h1 h2 (goPort_of_specPort _ _ hsp) (goPort_of_specPort _ _ hdp))]
    simp [connOf, resolve, hma, hmb, acceptObs, Hdr.addrs, Hdr.encode]
  | v1unknown junk =>
    obtain ⟨hj, hlf, _⟩ := hc
    rw [connRun_prefix env _ pay limit e _ hl (fun rest _ => readHeader_v1_unknown env junk rest hj hlf)]
    simp [connOf, acceptObs, Hdr.addrs, Hdr.encode]
  | v2tcp4 src dst sp dp tlv =>
    obtain ⟨h4s, h4d, hsp, hdp, _⟩ := hc
    have hms : isV4Mapped (to16 src) = true := by simp [isV4Mapped, to16, h4s]
    have hmd : isV4Mapped (to16 dst) = true := by simp [isV4Mapped, to16, h4d]
    have hlen : (encodeV2 0x21 0x11 (addrBlock src dst sp dp ++ tlv)).length = 16 + (12 + tlv.length) := by
      rw [encodeV2_length]; simp [addrBlock, h4s, h4d]; omega
    rw [connRun_prefix env _ pay limit e _ hl (fun rest _ => readHeader_v2_tcp4 env src dst sp dp tlv rest h4s h4d hsp hdp hs)]
    simp [connOf, resolve, hms, hmd, acceptObs, Hdr.addrs, Hdr.encode, ← hlen]
  | v2tcp6 src dst sp dp tlv =>
    obtain ⟨h6s, h6d, hsp, hdp, _⟩ := hc
    obtain ⟨hb, hms, hmd⟩ := hs
    have hlen : (encodeV2 0x21 0x21 (addrBlock src dst sp dp ++ tlv)).length = 16 + (36 + tlv.length) := by
      rw [encodeV2_length]; simp [addrBlock, h6s, h6d]; omega
    rw [connRun_prefix env _ pay limit e _ hl (fun rest _ => readHeader_v2_tcp6 env src dst sp dp tlv rest h6s h6d hsp hdp hb)]
    simp [connOf, resolve, hms, hmd, acceptObs, Hdr.addrs, Hdr.encode, ← hlen]
  | v2local fam block =>
    obtain ⟨hf, _⟩ := hc
    rw [connRun_prefix env _ pay limit e _ hl (fun rest _ => readHeader_v2_local env fam block rest hf hs)]
    simp [connOf, acceptObs, Hdr.addrs, Hdr.encode, ← encodeV2_length 0x20 fam block]

/-! ### the excluded classes really fail (so `_partial` cannot be strengthened without changing the code) -/

/-- known finding `v2-len-gt-buffer`: a block longer than bfe_bufio's 4096-byte buffer is rejected whatever the limit -/
theorem C46_v2_oversize_rejected (env : Env) (vc fam : UInt8) (block pay : Bytes) (limit : Nat) (e : EndK)
    (hlen : bufSize < block.length) (h16 : block.length < 65536)
    (hl : (encodeV2 vc fam block).length ≤ effLimit limit) :
    connRun env (encodeV2 vc fam block ++ pay) limit e = rejectObs none := by
  rw [connRun_prefix env _ pay limit e _ hl (fun rest _ => readHeader_v2_oversize env vc fam block rest hlen h16)]
  rfl

theorem C46_witness_v2_oversize : ¬ C46_spec_roundtrip_full := by
  intro hfull
  obtain ⟨blk, hblk⟩ : ∃ blk : Bytes, blk.length = 4097 := ⟨List.replicate 4097 0, List.length_replicate ..⟩
  have hc : (Hdr.v2local 0x00 blk).Conformant ⟨fun _ => none⟩ := by
    simp [Hdr.Conformant, hblk]
  have h1 := hfull ⟨fun _ => none⟩ (.v2local 0x00 blk) [] 70000 .eof hc
    (by simp [Hdr.encode, encodeV2_length, effLimit, hblk])
  have h2 := C46_v2_oversize_rejected ⟨fun _ => none⟩ 0x20 0x00 blk [] 70000 .eof
    (by simp [bufSize, hblk]) (by simp [hblk]) (by simp [encodeV2_length, effLimit, hblk])
  simp only [Hdr.encode] at h1
  rw [h2] at h1
  simp [rejectObs, acceptObs] at h1

/-- known finding `v2-tcp6-v4mapped`: TCP over IPv6 with an IPv4-mapped source (what a dual-stack haproxy
    listener sends for an IPv4 client) is rejected -/
theorem C46_witness_v2_tcp6_mapped :
    connRun ⟨fun _ => none⟩
      (encodeV2 0x21 0x21 (addrBlock (to16 [1, 2, 3, 4]) (List.replicate 15 0 ++ [1]) 1000 443) ++ [0x68, 0x69]) 0 .eof
      = rejectObs none := by decide

/-- known finding `v1-tcp6-v4mapped` -/
theorem C46_witness_v1_tcp6_mapped :
    connRun ⟨fun _ => some (to16 [1, 2, 3, 4])⟩
      (encodeV1 tokTCP6 [0x3A, 0x3A, 0x31] [0x3A, 0x3A, 0x31] [0x31] [0x32] ++ [0x68, 0x69]) 0 .eof
      = rejectObs none := by decide

/-! ### malformed headers -/

/-- a connection bfe ends never delivered a byte to the application (all header errors, including a failed
    address resolution after the fix) -/
theorem C46_malformed_closes_no_data (env : Env) (s : Bytes) (limit : Nat) (e : EndK)
    (h : (connRun env s limit e).closed = true) :
    (connRun env s limit e).data = [] ∧ (connRun env s limit e).dst = none := by
  refine ⟨connOf_closed_nodata _ _ _ h, ?_⟩
  unfold connRun connOf at h ⊢
  split at h <;> try (first | rfl | (simp at h))
  split at h <;> try (first | rfl | (simp at h))
  split at h <;> try (first | rfl | (simp at h))

/-- v2: wrong version/command byte, unassigned family byte, or (PROXY command) a length smaller than the
    address block of the family ⇒ rejected -/
theorem C46_malformed_closes_v2 (env : Env) (vc fam : UInt8) (block pay : Bytes) (limit : Nat) (e : EndK)
    (h16 : block.length < 65536) (hl : (encodeV2 vc fam block).length ≤ effLimit limit)
    (hbad : (vc ≠ 0x20 ∧ vc ≠ 0x21) ∨ specFam fam = false ∨ (vc = 0x21 ∧ block.length < specAddrLen fam)) :
    connRun env (encodeV2 vc fam block ++ pay) limit e = rejectObs none := by
  have hR : ∀ rest a, readHeader env (encodeV2 vc fam block ++ rest) a = .err := by
    intro rest a
    have hb16 := be16_hi_lo block.length h16
    simp only [readHeader, encodeV2, sigV2, sigV1, parseV2]
    simp
    rw [hb16]
    rcases hbad with ⟨h1, h2⟩ | h | ⟨h1, h2⟩
    · simp [h1, h2]
    · have hs : supportedFam fam = false := by
        simp only [specFam, supportedFam, Bool.or_eq_false_iff] at h ⊢
        simp [h]
      have h0 : fam ≠ 0 := by
        intro h0; subst h0; simp [specFam] at h
      simp [hs, h0]
    · subst h1
      have hv : validLen fam block.length = false := by
        by_cases hf0 : fam = 0x00
        · subst hf0; simp [specAddrLen] at h2
        · by_cases c1 : fam &&& 0xF0 = 0x10
          · simp [specAddrLen, validLen, hf0, c1] at h2 ⊢; omega
          · by_cases c2 : fam &&& 0xF0 = 0x20
            · simp [specAddrLen, validLen, hf0, c1, c2] at h2 ⊢; omega
            · by_cases c3 : fam &&& 0xF0 = 0x30
              · simp [specAddrLen, validLen, hf0, c1, c2, c3] at h2 ⊢; omega
              · simp [validLen, c1, c2, c3]
      simp [hv]
      repeat' split
      all_goals (first | rfl | omega | simp_all)
  rw [connRun_prefix env _ pay limit e _ hl hR]
  rfl

/-- **v2, malformed never accepted**: if a stream that begins with the v2 signature is not rejected (header limit
    at least the 16-byte v2 prefix), then it IS the spec encoding of a well-formed header (version 2, command
    LOCAL/PROXY, assigned family, length covering the address block, whole block present) followed by some payload,
    and exactly that payload is handed over — or it is the legacy 13-byte LOCAL form `sig 20` with the peer closing
    right behind it, in which case nothing is handed over (kept for bfe's existing test fixture). -/
theorem C46_malformed_closes_v2_sound (env : Env) (t : Bytes) (limit : Nat) (e : EndK)
    (hlim : 16 ≤ effLimit limit)
    (hopen : (connRun env (sigV2 ++ t) limit e).closed = false) :
    (t = [0x20] ∧ e = .eof ∧ (connRun env (sigV2 ++ t) limit e).data = []) ∨
    ∃ vc fam block pay,
      sigV2 ++ t = encodeV2 vc fam block ++ pay ∧ block.length < 65536 ∧
      ((vc = 0x20 ∧ (fam = 0x00 ∨ supportedFam fam = true)) ∨
       (vc = 0x21 ∧ supportedFam fam = true ∧ validLen fam block.length = true)) ∧
      (connRun env (sigV2 ++ t) limit e).data = pay := by
  unfold connRun at hopen ⊢
  have hvis : (sigV2 ++ t).take (effLimit limit) = sigV2 ++ t.take (effLimit limit - 12) := by
    rw [take_prefix_ge sigV2 t _ (by simp [sigV2]; omega)]; simp [sigV2]
  rw [hvis] at hopen ⊢
  have hne : readHeader env (sigV2 ++ t.take (effLimit limit - 12)) (atEOFOf (sigV2 ++ t) limit e) ≠ .err := by
    intro hh; rw [hh] at hopen; simp [connOf, rejectObs] at hopen
  rcases readHeader_v2_sound env _ _ _ rfl hne with ⟨ht, ha, hr⟩ | ⟨vc, fam, block, rest, n, henc, h16, hn, _, hcase⟩
  · left
    have htl : t = [0x20] := by
      have hlen := congrArg List.length ht
      simp at hlen
      have : t.length = 1 := by omega
      rw [List.take_of_length_le (by omega)] at ht
      exact ht
    subst htl
    have he : e = .eof := by
      simp [atEOFOf, sigV2] at ha
      rcases ha with h | h
      · omega
      · exact h
    refine ⟨rfl, he, ?_⟩
    rw [hr]
    simp [connOf, sigV2]
  · right
    have hstream : sigV2 ++ t = encodeV2 vc fam block ++ (rest ++ t.drop (effLimit limit - 12)) := by
      rw [← List.append_assoc, ← henc, List.append_assoc, List.take_append_drop]
    have hdrop : (sigV2 ++ t).drop n = rest ++ t.drop (effLimit limit - 12) := by
      rw [hstream, hn, ← encodeV2_length vc fam block, List.drop_left']
      rfl
    refine ⟨vc, fam, block, rest ++ t.drop (effLimit limit - 12), hstream, h16, ?_, ?_⟩
    · rcases hcase with ⟨h1, h2, _⟩ | ⟨h1, h2, h3, _⟩
      · exact Or.inl ⟨h1, h2⟩
      · exact Or.inr ⟨h1, h2, h3⟩
    · rcases connOf_open_data _ _ _ hopen with ⟨hnp, _⟩ | ⟨m, hm, hd⟩ | ⟨f, s, d, sp, dp, m, hm, hd⟩
      · rcases hcase with ⟨_, _, hr⟩ | ⟨_, _, _, s, d, sp, dp, hr⟩ <;> rw [hr] at hnp <;> cases hnp
      · rw [hd]
        rcases hcase with ⟨_, _, hr⟩ | ⟨_, _, _, s, d, sp, dp, hr⟩ <;> rw [hr] at hm <;> cases hm
        exact hdrop
      · rw [hd]
        rcases hcase with ⟨_, _, hr⟩ | ⟨_, _, _, s', d', sp', dp', hr⟩ <;> rw [hr] at hm <;> cases hm
        exact hdrop

/-- the legacy 13-byte LOCAL form followed by EOF is accepted with the socket addresses and an empty payload;
    followed by silence it is rejected -/
theorem C46_legacy_local13 (env : Env) (limit : Nat) (hlim : 16 ≤ effLimit limit) :
    connRun env (sigV2 ++ [0x20]) limit .eof = { src := none, dst := none, data := [], fin := .eof, closed := false } ∧
    connRun env (sigV2 ++ [0x20]) limit .stall = rejectObs none := by
  have hv : (sigV2 ++ [0x20]).take (effLimit limit) = sigV2 ++ [0x20] :=
    List.take_of_length_le (by simp [sigV2]; omega)
  have ha : atEOFOf (sigV2 ++ [0x20]) limit .stall = false := by
    simp [atEOFOf, sigV2]; omega
  constructor
  · unfold connRun; rw [hv]
    have : atEOFOf (sigV2 ++ [0x20]) limit .eof = true := by simp [atEOFOf]
    rw [this]; simp [connOf, readHeader, parseV2, sigV2, sigV1, finOf]
  · unfold connRun; rw [hv, ha]; simp [connOf, readHeader, parseV2, sigV2, sigV1, rejectObs]

/-- known findings `v1-extra-token`, `v1-port-syntax`, `v1-sig-suffix`: malformed v1 lines the code accepts -/
def envAny4 : Env := ⟨fun _ => some (to16 [1, 2, 3, 4])⟩
def tokIP : Bytes := [0x31, 0x2E, 0x32, 0x2E, 0x33, 0x2E, 0x34]   -- "1.2.3.4"

theorem C46_witness_v1_extra_token :
    (connRun envAny4 (sigV1 ++ SP :: (tokTCP4 ++ SP :: (tokIP ++ SP :: (tokIP ++ SP :: ([0x31] ++ SP :: ([0x32] ++ SP :: [0x78, CR, LF])))))) 0 .eof).closed
      = false := by decide

theorem C46_witness_v1_port_syntax :   -- ports "+1" and "02"
    (connRun envAny4 (encodeV1 tokTCP4 tokIP tokIP [0x2B, 0x31] [0x30, 0x32]) 0 .eof).closed = false := by decide

theorem C46_witness_v1_sig_suffix :    -- "PROXYX TCP4 ..."
    (connRun envAny4 (sigV1 ++ 0x58 :: SP :: (tokTCP4 ++ SP :: (tokIP ++ SP :: (tokIP ++ SP :: ([0x31] ++ SP :: [0x32, CR, LF]))))) 0 .eof).closed
      = false := by decide

/-- address text without a colon is IPv4 text: `net.ParseIP` maps it to a v4(-mapped) address -/
def EnvOK (env : Env) : Prop :=
  ∀ t ip, env.parseIP t = some ip → hasByte t 0x3A = false → isV4Mapped ip = true

def lenientV1 : List String := ["v1-overlong", "v1-sig-suffix", "v1-extra-token", "v1-port-syntax", "v1-addr-syntax"]

/-- **C46_v1_malformed_rejected_partial**: every stream that begins with `PROXY` and that the specification side
    (`specV1`: first line within 107 bytes, CRLF, exactly the six tokens, TCP4/TCP6, strict decimal ports, address text
    of the right family) classifies as malformed is REJECTED by the code (connection closed, hence no byte delivered,
    `C46_malformed_closes_no_data`) — except for the five lenient classes recorded as known findings (`lenientV1`).
    `EnvOK`: `net.ParseIP` maps colon-free text to an IPv4 address. -/
theorem C46_v1_malformed_rejected_partial (env : Env) (stream : Bytes) (limit : Nat) (e : EndK)
    (hok : EnvOK env) (hsig : stream.take 5 = sigV1) (hlim : 107 ≤ effLimit limit)
    (hrej : (specV1 env stream).1 = .reject) (hcls : (specV1 env stream).2 ∉ lenientV1) :
    (connRun env stream limit e).closed = true := by
  unfold connRun
  rw [connOf_closed]
  have hvis5 : (stream.take (effLimit limit)).take 5 = sigV1 := by
    rw [List.take_take, show min 5 (effLimit limit) = 5 from by omega]; exact hsig
  have hne : ∃ b t, stream.take (effLimit limit) = b :: t := by
    cases h : stream.take (effLimit limit) with
    | nil => rw [h] at hvis5; simp [sigV1] at hvis5
    | cons b t => exact ⟨b, t, rfl⟩
  obtain ⟨b, t, hbt⟩ := hne
  have hrh : readHeader env (stream.take (effLimit limit)) (atEOFOf stream limit e) = parseV1 env (stream.take (effLimit limit)) := by
    rw [hbt] at hvis5 ⊢; exact rh_v1 env b t _ hvis5
  rw [hrh]
  generalize hS : specV1 env stream = sv at hrej hcls
  unfold specV1 at hS
  cases hl107 : readLine (stream.take 107) with
  | none =>
    rw [hl107] at hS
    simp only [] at hS
    subst hS
    by_cases hls : (readLine stream).isSome = true
    · simp [hls, lenientV1] at hcls
    · have hn : readLine stream = none := by
        cases h : readLine stream with
        | none => rfl
        | some l => simp [h] at hls
      unfold parseV1
      rw [readLine_take_none _ _ hn]; rfl
  | some line =>
    rw [hl107] at hS
    simp only [] at hS
    have hfull := readLine_of_take _ _ _ hl107
    have hll : line.length ≤ 107 := by
      have := readLine_prefix _ _ hl107
      have h2 := congrArg List.length this
      simp at h2; omega
    have hvisl : readLine (stream.take (effLimit limit)) = some line :=
      readLine_take_some _ _ _ hfull (by omega)
    unfold parseV1
    rw [hvisl]
    simp only []
    by_cases hcr : line.length < 2 ∨ line.getD (line.length - 2) 0 ≠ CR
    · have : line.length < 2 ∨ line.getD (line.length - 2) 0 ≠ 0x0D := hcr
      rw [if_pos this]; rfl
    · have hcr' : ¬ (line.length < 2 ∨ line.getD (line.length - 2) 0 ≠ 0x0D) := hcr
      rw [if_neg hcr'] 
      rw [if_neg hcr] at hS
      generalize splitSp (List.take (line.length - 2) line) = toks at hS ⊢
      generalize line.length = n at hS ⊢
      have r0 : ∀ ip p, resolve 0x00 ip p = none := fun ip p => resolve_other _ ip p (by decide) (by decide)
      by_cases h0 : toks.getD 0 [] ≠ sigV1
      · rw [if_pos h0] at hS; subst hS; simp [lenientV1] at hcls
      rw [if_neg h0] at hS
      by_cases hu : toks.length ≥ 2 ∧ toks.getD 1 [] = tokUNKNOWN
      · rw [if_pos hu] at hS; subst hS; simp at hrej
      rw [if_neg hu] at hS
      by_cases h6 : toks.length > 6
      · rw [if_pos h6] at hS; subst hS; simp [lenientV1] at hcls
      rw [if_neg h6] at hS
      by_cases h5 : toks.length < 6
      · unfold parseToks; rw [if_neg hu, if_pos h5]; rfl
      rw [if_neg h5] at hS
      unfold parseToks
      rw [if_neg hu, if_neg h5]
      dsimp only at hS ⊢
      by_cases hp : toks.getD 1 [] ≠ tokTCP4 ∧ toks.getD 1 [] ≠ tokTCP6
      · have hfam : (if toks.getD 1 [] = tokTCP4 then (0x11 : UInt8) else if toks.getD 1 [] = tokTCP6 then 0x21 else 0x00) = 0x00 := by
          rw [if_neg hp.1, if_neg hp.2]
        rw [hfam]
        repeat' split
        all_goals simp [closedRd, r0]
      rw [if_neg hp] at hS
      cases hsp : specPort (toks.getD 4 []) with
      | none => rw [hsp] at hS; simp only [] at hS; subst hS; simp [lenientV1] at hcls
      | some sp =>
        cases hdp : specPort (toks.getD 5 []) with
        | none => rw [hsp, hdp] at hS; simp only [] at hS; subst hS; simp [lenientV1] at hcls
        | some dp =>
          rw [hsp, hdp] at hS
          simp only [] at hS
          rw [goPort_of_specPort _ _ hsp, goPort_of_specPort _ _ hdp]
          simp only []
          generalize toks.getD 2 [] = a at hS ⊢
          generalize toks.getD 3 [] = bb at hS ⊢
          by_cases h4 : toks.getD 1 [] = tokTCP4
          · rw [if_pos h4]
            cases hia : env.parseIP a with
            | none => simp [parseV1IP, hia, closedRd]
            | some ia =>
              cases hib : env.parseIP bb with
              | none => cases hm : isV4Mapped ia <;> simp [parseV1IP, hia, hib, hm, closedRd]
              | some ib =>
                rw [hia, hib] at hS
                simp only [h4, if_true] at hS
                split at hS
                · subst hS; simp [lenientV1] at hcls
                · subst hS; simp at hrej
          · have h6' : toks.getD 1 [] = tokTCP6 := by
              by_cases hh : toks.getD 1 [] = tokTCP6
              · exact hh
              · exact absurd ⟨h4, hh⟩ hp
            rw [if_neg h4, if_pos h6']
            have r6n : ∀ p, resolve 0x21 none p = none := fun p => rfl
            cases hia : env.parseIP a with
            | none =>
              cases hib : env.parseIP bb with
              | none => simp [parseV1IP, hia, hib, closedRd, r6n]
              | some ib => cases hm : isV4Mapped ib <;> simp [parseV1IP, hia, hib, hm, closedRd, r6n]
            | some ia =>
              cases hib : env.parseIP bb with
              | none =>
                cases hm : isV4Mapped ia <;> simp [parseV1IP, hia, hib, hm, closedRd, r6n]
              | some ib =>
                rw [hia, hib] at hS
                simp only [h4, if_false] at hS
                split at hS
                · rename_i hfam
                  -- a token without a colon is IPv4 text, which the code refuses under TCP6
                  have hcase : hasByte a 0x3A = false ∨ hasByte bb 0x3A = false := by
                    simp only [Bool.or_eq_true, Bool.not_eq_true'] at hfam; exact hfam
                  rcases hcase with hc | hc
                  · have hm := hok a ia hia hc
                    simp [parseV1IP, hia, hm, closedRd]
                  · have hm := hok bb ib hib hc
                    cases hma : isV4Mapped ia <;> simp [parseV1IP, hia, hib, hm, hma, closedRd]
                · subst hS; simp at hrej

-- non-vacuity: a line with too few tokens, and one whose TCP6 address is IPv4 text
example : (specV1 envAny4 (sigV1 ++ SP :: (tokTCP4 ++ SP :: (tokIP ++ [CR, LF])))).1 = .reject ∧
    (specV1 envAny4 (sigV1 ++ SP :: (tokTCP4 ++ SP :: (tokIP ++ [CR, LF])))).2 ∉ lenientV1 := by decide
example : (specV1 envAny4 (encodeV1 tokTCP6 tokIP tokIP [0x31] [0x32])).1 = .reject ∧
    (specV1 envAny4 (encodeV1 tokTCP6 tokIP tokIP [0x31] [0x32])).2 ∉ lenientV1 := by decide

/-! ### no signature -/

def passObs (stream : Bytes) (e : EndK) : Obs :=
  { src := none, dst := none, data := stream, fin := finOf e, closed := false }

/-- a stream without a PROXY signature is handed over byte-identical with the socket addresses — for every
    stream except those shorter than 12 bytes that begin with `P` or CR (see the witness) -/
theorem C46_passthrough_partial (env : Env) (stream : Bytes) (limit : Nat) (e : EndK)
    (hne : stream ≠ []) (h1 : startsWith stream sigV1 = false) (h2 : startsWith stream sigV2 = false)
    (hlim : 12 ≤ effLimit limit)
    (hshort : ¬ ((stream.take 1 = [0x50] ∨ stream.take 1 = [0x0D]) ∧ stream.length < 12)) :
    connRun env stream limit e = passObs stream e := by
  unfold connRun
  have ht : ∀ k, k ≤ 12 → (stream.take (effLimit limit)).take k = stream.take k := by
    intro k hk; rw [List.take_take]; congr 1; omega
  have hv : readHeader env (stream.take (effLimit limit)) (atEOFOf stream limit e) = .noProxy := by
    apply readHeader_nosig
    · intro h; apply hne
      have := congrArg List.length h
      simp at this
      rcases this with h' | h'
      · omega
      · exact h'
    · rw [ht 5 (by omega)]; simpa [startsWith, sigV1] using h1
    · rw [ht 12 (by omega)]; simpa [startsWith, sigV2] using h2
    · rw [ht 1 (by omega)]
      intro ⟨ha, hb⟩
      apply hshort
      refine ⟨ha, ?_⟩
      simp at hb; omega
  rw [hv]; rfl

/-- known finding `nosig-short`: `POST` + EOF is not a PROXY header, yet the 4 bytes are dropped and the
    connection is closed (the code insists on peeking 5, then 12 bytes) -/
theorem C46_witness_passthrough_short :
    connRun ⟨fun _ => none⟩ [0x50, 0x4F, 0x53, 0x54] 0 .eof = rejectObs none := by decide

/-- PROXY command with a family bfe cannot map to a TCP address (UNSPEC, UDP over IPv4/IPv6, UNIX stream/datagram):
    whatever block and payload follow, the connection is rejected cleanly (the spec lets the receiver reject or fall
    back to the real addresses) -/
theorem C46_v2_other_family_rejected (env : Env) (fam : UInt8) (block pay : Bytes) (limit : Nat) (e : EndK)
    (hf : fam ≠ 0x11 ∧ fam ≠ 0x21) (hlim : 16 ≤ effLimit limit) :
    connRun env (encodeV2 0x21 fam block ++ pay) limit e = rejectObs none := by
  unfold connRun
  have hst : encodeV2 0x21 fam block ++ pay = sigV2 ++ (0x21 :: fam :: hi8 block.length :: lo8 block.length :: (block ++ pay)) := by
    simp [encodeV2]
  rw [hst]
  rw [take_prefix_ge sigV2 _ _ (by simp [sigV2]; omega)]
  generalize hR : readHeader env _ _ = r
  by_cases hr : r = .err
  · rw [hr]; rfl
  · rcases readHeader_v2_sound env _ _ r hR hr with ⟨ht, _, _⟩ | ⟨vc, fam', block', rest, n, henc, _, _, _, hcase⟩
    · exfalso
      have hm : 1 ≤ effLimit limit - sigV2.length := by simp [sigV2]; omega
      obtain ⟨m, hm'⟩ : ∃ m, effLimit limit - sigV2.length = m + 1 := ⟨effLimit limit - sigV2.length - 1, by omega⟩
      rw [hm'] at ht
      simp at ht
    · have hm : 2 ≤ effLimit limit - sigV2.length := by simp [sigV2]; omega
      obtain ⟨m, hm'⟩ : ∃ m, effLimit limit - sigV2.length = m + 2 := ⟨effLimit limit - sigV2.length - 2, by omega⟩
      rw [hm'] at henc
      simp [encodeV2] at henc
      obtain ⟨hvc, hfam, _⟩ := henc
      rcases hcase with ⟨h20, _⟩ | ⟨_, _, _, s, d, sp, dp, hr'⟩
      · rw [← hvc] at h20; exact absurd h20 (by decide)
      · rw [hr', ← hfam]
        simp [connOf, resolve_other fam s sp hf.1 hf.2]



/-- **v2 truncation at every offset**: whatever proper prefix of a v2 header arrives (then EOF or silence), not a
    single byte is delivered to the application -/
theorem C46_v2_truncated_no_data (env : Env) (vc fam : UInt8) (block : Bytes) (k limit : Nat) (e : EndK)
    (h16 : block.length < 65536) (hk : k < (encodeV2 vc fam block).length) (hlim : 16 ≤ effLimit limit) :
    (connRun env ((encodeV2 vc fam block).take k) limit e).data = [] := by
  cases hcl : (connRun env ((encodeV2 vc fam block).take k) limit e).closed
  · -- not rejected: only the legacy 13-byte LOCAL form is possible, and it carries no data
    by_cases hk12 : 12 ≤ k
    · have hst : (encodeV2 vc fam block).take k
          = sigV2 ++ (vc :: fam :: hi8 block.length :: lo8 block.length :: block).take (k - 12) := by
        unfold encodeV2
        rw [take_prefix_ge sigV2 _ _ (by simp [sigV2]; omega)]; simp [sigV2]
      rw [hst] at hcl ⊢
      rcases C46_malformed_closes_v2_sound env _ limit e hlim hcl with ⟨_, _, hd⟩ | ⟨vc', fam', block', pay, henc, h16', _, _⟩
      · exact hd
      · exfalso
        have hlen := congrArg List.length henc
        rw [encodeV2_length] at hk
        simp [encodeV2, sigV2] at hlen
        -- the first 16 bytes agree, so both length fields are equal
        have hk16 : 4 ≤ k - 12 := by omega
        obtain ⟨m, hm⟩ : ∃ m, k - 12 = m + 4 := ⟨k - 12 - 4, by omega⟩
        rw [hm] at henc
        simp [encodeV2] at henc
        obtain ⟨_, _, hhi, hlo, _⟩ := henc
        have := len_of_hi_lo _ _ h16 h16' hhi hlo
        omega
    · exfalso
      have hst : (encodeV2 vc fam block).take k = sigV2.take k := by
        unfold encodeV2
        rw [List.take_append_of_le_length (by simp [sigV2]; omega)]
      rw [hst] at hcl
      unfold connRun at hcl
      rw [List.take_of_length_le (by simp [sigV2]; omega), readHeader_sig_prefix env _ k (by omega)] at hcl
      simp [connOf, rejectObs] at hcl
  · exact (C46_malformed_closes_no_data env _ limit e hcl).1


/-! ### segmentation (round 2) -/

/-- **C46_chunking_independent (partial: the reader primitives)**.  `Rdr` is bfe_bufio's reader over the header
    limiter over a connection that delivers its bytes in ARBITRARY segments.  The two primitives the header parser
    is built from — `Peek(n)` (`need n`, n ≤ 4096) and `ReadByte` — have results that are functions of the remaining
    byte string `r.rest` alone, and leave `rest`/`all` shortened by exactly what they consumed.  Hence two
    segmentations of the same stream cannot be told apart through them.  (Their composition into `parseVersion2` is `C46_chunking_independent_v2` below.) -/
theorem C46_chunking_independent_partial (r : Rdr) (S L : Nat) (hK : r.K S L) :
    (∀ n, n ≤ bufSize →
      (r.need n).rest = r.rest ∧ (r.need n).all = r.all ∧
      (n ≤ (r.need n).buf.length ↔ n ≤ r.rest.length) ∧
      (n ≤ (r.need n).buf.length → (r.need n).buf.take n = r.rest.take n)) ∧
    (r.readByte = none ↔ r.rest = []) ∧
    (∀ b r', r.readByte = some (b, r') → r.rest = b :: r'.rest ∧ r.all = b :: r'.all) := by
  refine ⟨?_, ?_, ?_⟩
  · intro n hn
    obtain ⟨e1, e2, _, d⟩ := rdr_need_spec r n hn S L hK
    have hpre : (r.need n).rest = (r.need n).buf ++ ((r.need n).segs.flatten).take (r.need n).N := rfl
    refine ⟨e1, e2, ⟨?_, ?_⟩, ?_⟩
    · intro h; rw [← e1, hpre]; simp; omega
    · intro h
      rcases d with d | d
      · exact d
      · rw [d, e1]; exact h
    · intro h
      rw [← e1, hpre, List.take_append_of_le_length h]
  · constructor
    · intro h; exact (readByte_none r S L hK h).1
    · intro h
      cases hb : r.readByte with
      | none => rfl
      | some p =>
        obtain ⟨b, r'⟩ := p
        have := (readByte_some r S L hK b r' hb).1
        rw [h] at this; cases this
  · intro b r' h
    obtain ⟨a, b', _⟩ := readByte_some r S L hK b r' h
    exact ⟨a, b'⟩

/-- **C46_chunking_independent**: the whole life of a `bfe_proxy.Conn` — signature dispatch (Peek 1/5/12), v2 parse,
    address resolution, and the bytes handed to the application afterwards — over a connection that delivers the stream in
    ANY segments equals the chunk-free model on the concatenated stream, for every stream whose visible part does not begin
    with the v1 signature `PROXY` (the v1 branch, `ReadString`, is the parameter `v1` and is not covered).  In
    particular the payload that follows a v2 header in the same or in later reads reaches the application byte-exact
    wherever the segment boundaries fall. -/
theorem C46_chunking_independent (env : Env) (v1 : Rdr → Rd × Rdr) (segs : List Bytes) (limit : Nat) (e : EndK)
    (hv : ((segs.flatten).take (effLimit limit)).take 5 ≠ sigV1) :
    connSeg v1 segs limit e = connRun env segs.flatten limit e := by
  have hK0 : ({ buf := [], segs := segs, N := effLimit limit } : Rdr).K segs.flatten.length (effLimit limit) := by
    simp [Rdr.K]
  have hrest : ({ buf := [], segs := segs, N := effLimit limit } : Rdr).rest = (segs.flatten).take (effLimit limit) := by
    simp [Rdr.rest]
  have hall : ({ buf := [], segs := segs, N := effLimit limit } : Rdr).all = segs.flatten := by simp [Rdr.all]
  obtain ⟨h1, h2, h3⟩ := readHeaderSeg_spec env v1 _ e _ _ hK0 (by rw [hrest]; exact hv)
  rw [hrest] at h1
  rw [hall] at h2 h3
  unfold connSeg connRun
  have ha : atEOFOf segs.flatten limit e = (decide (segs.flatten.length ≥ effLimit limit) || e == .eof) := rfl
  rw [ha, ← h1]
  simp only []
  generalize readHeaderSeg v1 { buf := [], segs := segs, N := effLimit limit } e = p at h2 h3 ⊢
  obtain ⟨rd, r⟩ := p
  cases rd with
  | noProxy => simp [connOf, h2 rfl]
  | err => rfl
  | sock n => simp [connOf, h3 n rfl]
  | hdr f s d sp dp n => simp only [connOf]; rw [h3 n rfl]; rfl

/-- **C46_chunking_independent (complete)**: with `ReadString` modelled over the segmented reader too (`parseV1Seg`:
    the `ReadSlice` loop that sets full 4096-byte buffers aside), the whole `bfe_proxy.Conn` over ANY segmentation of
    the connection equals the chunk-free model on the concatenated stream — for EVERY stream, limit and end:
    same addresses, same accept/reject decision, and the same bytes handed to the application. -/
theorem C46_chunking_independent_full (env : Env) (segs : List Bytes) (limit : Nat) (e : EndK) :
    connSeg (parseV1Seg env) segs limit e = connRun env segs.flatten limit e := by
  by_cases hv : ((segs.flatten).take (effLimit limit)).take 5 = sigV1
  · have hK0 : ({ buf := [], segs := segs, N := effLimit limit } : Rdr).K segs.flatten.length (effLimit limit) := by
      simp [Rdr.K]
    have hrest : ({ buf := [], segs := segs, N := effLimit limit } : Rdr).rest = (segs.flatten).take (effLimit limit) := by
      simp [Rdr.rest]
    have hall : ({ buf := [], segs := segs, N := effLimit limit } : Rdr).all = segs.flatten := by simp [Rdr.all]
    obtain ⟨h1, h3, hnp⟩ := readHeaderSeg_spec_v1 env _ e _ _ hK0 (atEOFOf segs.flatten limit e) (by rw [hrest]; exact hv)
    rw [hrest] at h1
    rw [hall] at h3
    unfold connSeg connRun
    rw [← h1]
    simp only []
    generalize readHeaderSeg (parseV1Seg env) { buf := [], segs := segs, N := effLimit limit } e = p at h3 hnp ⊢
    obtain ⟨rd, r⟩ := p
    cases rd with
    | noProxy => exact absurd rfl hnp
    | err => rfl
    | sock n => simp [connOf, h3 n rfl]
    | hdr f s d sp dp n => simp only [connOf]; rw [h3 n rfl]; rfl
  · exact C46_chunking_independent env (parseV1Seg env) segs limit e hv

/-- **C46_chunking_independent (v2 parser)**: let the connection deliver the stream in ANY segments `segs` (each
    `conn.Read` returns bytes of at most one segment), read through bfe_bufio's 4096-byte reader and the header
    limiter.  Once `Peek(12)` has matched the v2 signature, `parseVersion2` over that reader (`parseV2Seg`: ReadByte ×4,
    Peek(length), addresses and drain out of the buffer) returns exactly what the chunk-free model `parseV2` returns
    on the concatenated stream cut at the limit — in particular two segmentations of the same stream give the same
    result (the seeded "TLVs split across segments" change breaks this equality). -/
theorem C46_chunking_independent_v2 (segs : List Bytes) (limit : Nat) (e : EndK) :
    let r := ({ buf := [], segs := segs, N := effLimit limit } : Rdr).need 12
    r.buf.take 12 = sigV2 →
    (parseV2Seg r e).1 = parseV2 ((segs.flatten).take (effLimit limit)) (atEOFOf segs.flatten limit e) := by
  intro r hsig
  have hK0 : ({ buf := [], segs := segs, N := effLimit limit } : Rdr).K segs.flatten.length (effLimit limit) := by
    simp [Rdr.K]
  obtain ⟨er, _, hK, _⟩ := rdr_need_spec _ 12 (by decide) _ _ hK0
  have := parseV2Seg_result r e _ _ hK hsig
  rw [this, er]
  simp [Rdr.rest, atEOFOf]

theorem C46_chunking_independent_v2_pair (segs segs' : List Bytes) (limit : Nat) (e : EndK)
    (hsame : segs.flatten = segs'.flatten)
    (h1 : (({ buf := [], segs := segs, N := effLimit limit } : Rdr).need 12).buf.take 12 = sigV2)
    (h2 : (({ buf := [], segs := segs', N := effLimit limit } : Rdr).need 12).buf.take 12 = sigV2) :
    (parseV2Seg (({ buf := [], segs := segs, N := effLimit limit } : Rdr).need 12) e).1 =
    (parseV2Seg (({ buf := [], segs := segs', N := effLimit limit } : Rdr).need 12) e).1 := by
  rw [C46_chunking_independent_v2 segs limit e h1, C46_chunking_independent_v2 segs' limit e h2, hsame]

-- a TCP4 header with a 3-byte TLV delivered in four uneven segments (one of them empty), 2 payload bytes behind it
example :
    let r := ({ buf := [], segs := [sigV2.take 5, sigV2.drop 5 ++ [0x21, 0x11, 0x00], [], [0x0F, 1, 2, 3, 4, 5, 6, 7], [8, 0, 80, 1, 187, 9, 9, 9, 0x68, 0x69]],
                N := 2048 } : Rdr).need 12
    r.buf.take 12 = sigV2 ∧
    (parseV2Seg r .eof).1 = .hdr 0x11 (some (to16 [1, 2, 3, 4])) (some (to16 [5, 6, 7, 8])) 80 443 31 ∧
    (parseV2Seg r .eof).2.all = [0x68, 0x69] := by decide
-- a v1 line delivered in uneven segments with an empty read in the middle
example :
    (connSeg (parseV1Seg envAny4) [sigV1 ++ [SP], tokTCP4 ++ [SP] ++ tokIP, [], [SP] ++ tokIP ++ [SP, 0x38, 0x30, SP, 0x34], [0x34, 0x33, CR], [LF, 0x68, 0x69]] 0 .eof).data
      = [0x68, 0x69] := by decide
example : ({ buf := [], segs := [[1], [], [2, 3]], N := 2 } : Rdr).K 3 2 := by simp [Rdr.K]
example : (({ buf := [], segs := [[1], [], [2, 3]], N := 2 } : Rdr).need 2).buf = [1, 2] := by decide

/-! ### non-vacuity -/

example : (Hdr.v2tcp4 [1, 2, 3, 4] [5, 6, 7, 8] 1000 443 [4, 0, 1, 0xAA]).Conformant ⟨fun _ => none⟩ ∧
    (Hdr.v2tcp4 [1, 2, 3, 4] [5, 6, 7, 8] 1000 443 [4, 0, 1, 0xAA]).Supported := by
  simp [Hdr.Conformant, Hdr.Supported, bufSize]
example : (Hdr.v2local 0x00 []).Conformant ⟨fun _ => none⟩ ∧ (Hdr.v2local 0x00 []).Supported := by
  simp [Hdr.Conformant, Hdr.Supported]
example : (Hdr.v1unknown []).Conformant ⟨fun _ => none⟩ := by
  refine ⟨Or.inl rfl, by simp, by decide⟩
example : (Hdr.v1tcp4 tokIP tokIP [0x38, 0x30] [0x34, 0x34, 0x33] (to16 [1, 2, 3, 4]) (to16 [1, 2, 3, 4]) 80 443).Conformant envAny4 := by
  refine ⟨?_, ?_, ?_, ?_, rfl, rfl, by decide, by decide, by decide, by decide⟩ <;>
    (unfold Tok; decide)
example : connRun ⟨fun _ => none⟩ (encodeV2 0x20 0x00 [] ++ [0x68, 0x69]) 0 .eof = acceptObs (none, none) [0x68, 0x69] .eof := by
  decide
example : (connRun ⟨fun _ => none⟩ [0x47, 0x45, 0x54, 0x20, 0x2F] 0 .stall) = passObs [0x47, 0x45, 0x54, 0x20, 0x2F] .stall := by
  decide

end BfeVerif.C46
