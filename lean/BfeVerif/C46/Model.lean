/-
  C46 — model of bfe_proxy: `Read` (header.go), `parseVersion1` (v1.go), `parseVersion2` (v2.go),
  `Conn.checkProxyHeader` / `Conn.Read` / `RemoteAddr` / `VirtualAddr` (conn.go), after fix
  "C46-proxy-local-unknown" (LOCAL / UNKNOWN use the socket addresses and skip the whole header,
  a failed address resolution sets headerErr).  Core-only.

  What the code sees while it parses the header is `vis = stream.take limit`
  (`io.LimitReader(conn, headerLimit)` under the bufio reader); when `vis` is too short for a `Peek` /
  `ReadByte` / `ReadString`, the reader reports an error (EOF of the limiter, EOF of the peer, or the read
  deadline) — every error ends the same way (`Close`, `headerErr`), so they are one constructor here.
  Chunking of the deliveries does not appear in the model: the harness checks that it is irrelevant.

  External calls are parameters (`Env`): `net.ParseIP` on an address token (16-byte form or none).
  `strconv.Atoi` + range check is modelled concretely (`goPort`).
-/
namespace BfeVerif.C46

abbrev Bytes := List UInt8

def sigV1 : Bytes := [0x50, 0x52, 0x4F, 0x58, 0x59]
def sigV2 : Bytes := [0x0D, 0x0A, 0x0D, 0x0A, 0x00, 0x0D, 0x0A, 0x51, 0x55, 0x49, 0x54, 0x0A]

/-- size of the bufio buffer (`defaultBufSize`): `Peek(n)` with `n` larger fails with ErrBufferFull -/
def bufSize : Nat := 4096
def defaultLimit : Nat := 2048

structure Env where
  /-- `net.ParseIP(token)`: the 16-byte form, `none` for nil -/
  parseIP : Bytes → Option Bytes

structure Addr where
  ip : Bytes      -- 16-byte form
  port : Nat
deriving DecidableEq, Repr

/-- how the peer ends after the scripted bytes: closes (EOF) or stays silent -/
inductive EndK | eof | stall
deriving DecidableEq, Repr

inductive Fin | eof | stall | err
deriving DecidableEq, Repr

/-- what the application observes on the `bfe_proxy.Conn` -/
structure Obs where
  src : Option Addr      -- `RemoteAddr()`: none = the socket peer address
  dst : Option Addr      -- `VirtualAddr()`: none = nil
  data : Bytes           -- all bytes `Read` delivered
  fin : Fin              -- how the read loop ended
  closed : Bool          -- underlying connection closed by bfe
deriving DecidableEq, Repr

/-- result of `Read(reader)` on the visible bytes -/
inductive Rd
  | noProxy
  | err
  | sock (consumed : Nat)                                  -- LOCAL / UNKNOWN: keep socket addresses
  | hdr (fam : UInt8) (src dst : Option Bytes) (sp dp : Nat) (consumed : Nat)
deriving DecidableEq, Repr

/-! ### v1 -/

/-- `reader.ReadString('\n')` on the visible bytes: the line including LF -/
def readLine : Bytes → Option Bytes
  | [] => none
  | b :: r => if b = 0x0A then some [b] else (readLine r).map (b :: ·)

/-- `strings.Split(s, " ")` -/
def splitSp : Bytes → List Bytes
  | [] => [[]]
  | b :: r =>
    if b = 0x20 then [] :: splitSp r
    else match splitSp r with
      | [] => [[b]]
      | t :: ts => (b :: t) :: ts

def isDigit (b : UInt8) : Bool := 0x30 ≤ b && b ≤ 0x39

def digitsVal (l : Bytes) : Nat := l.foldl (fun acc b => acc * 10 + (b.toNat - 48)) 0

def goPortAbs (neg : Bool) (ds : Bytes) : Option Nat :=
  if ds.isEmpty || !ds.all isDigit then none
  else
    let v := digitsVal ds
    if neg then (if v = 0 then some 0 else none)
    else if v ≤ 65535 then some v else none

/-- `parseV1PortNumber`: `strconv.Atoi` accepts `[+-]?[0-9]+` (int64 range), then `0 ≤ v ≤ 65535` -/
def goPort (t : Bytes) : Option Nat :=
  match t with
  | 0x2B :: r => goPortAbs false r
  | 0x2D :: r => goPortAbs true r
  | _ => goPortAbs false t

def tokTCP4 : Bytes := [0x54, 0x43, 0x50, 0x34]
def tokTCP6 : Bytes := [0x54, 0x43, 0x50, 0x36]
def tokUNKNOWN : Bytes := [0x55, 0x4E, 0x4B, 0x4E, 0x4F, 0x57, 0x4E]

/-- `ip.To4() != nil` on the 16-byte form -/
def isV4Mapped (ip : Bytes) : Bool :=
  ip.length == 16 && ip.take 10 == List.replicate 10 0 && ip.getD 10 0 == 0xFF && ip.getD 11 0 == 0xFF

/-- `parseV1IPAddress`: `none` = ErrInvalidAddress, `some a` = the (possibly nil) `net.IP` -/
def parseV1IP (env : Env) (fam : UInt8) (tok : Bytes) : Option (Option Bytes) :=
  let a := env.parseIP tok
  let is4 := match a with | some ip => isV4Mapped ip | none => false
  if (fam == 0x11 && !is4) || (fam == 0x21 && is4) then none else some a

/-- the part of `parseVersion1` after `strings.Split`; `n` = length of the line including CRLF -/
def parseToks (env : Env) (toks : List Bytes) (n : Nat) : Rd :=
  if toks.length ≥ 2 ∧ toks.getD 1 [] = tokUNKNOWN then .sock n
  else if toks.length < 6 then .err
  else
    let p := toks.getD 1 []
    let fam : UInt8 := if p = tokTCP4 then 0x11 else if p = tokTCP6 then 0x21 else 0x00
    match parseV1IP env fam (toks.getD 2 []) with
    | none => .err
    | some s =>
      match parseV1IP env fam (toks.getD 3 []) with
      | none => .err
      | some d =>
        match goPort (toks.getD 4 []) with
        | none => .err
        | some sp =>
          match goPort (toks.getD 5 []) with
          | none => .err
          | some dp => .hdr fam s d sp dp n

def parseV1 (env : Env) (vis : Bytes) : Rd :=
  match readLine vis with
  | none => .err
  | some line =>
    let n := line.length
    if n < 2 ∨ line.getD (n - 2) 0 ≠ 0x0D then .err
    else parseToks env (splitSp (line.take (n - 2))) n

/-! ### v2 -/

def supportedFam (b : UInt8) : Bool :=
  b == 0x11 || b == 0x12 || b == 0x21 || b == 0x22 || b == 0x31 || b == 0x32

/-- `validateLength` -/
def validLen (fam : UInt8) (len : Nat) : Bool :=
  if fam &&& 0xF0 = 0x10 then len ≥ 12
  else if fam &&& 0xF0 = 0x20 then len ≥ 36
  else if fam &&& 0xF0 = 0x30 then len ≥ 218
  else false

def be16 (hi lo : UInt8) : Nat := hi.toNat * 256 + lo.toNat

/-- 4-byte address as the 16-byte (v4-in-v6) form, what `To16()` of the resolved address gives -/
def to16 (a : Bytes) : Bytes := List.replicate 10 0 ++ [0xFF, 0xFF] ++ a

/-- `atEOF`: reading past the visible bytes yields io.EOF (peer closed, or the header limiter is exhausted)
    rather than a deadline error -/
def parseV2 (vis : Bytes) (atEOF : Bool) : Rd :=
  match vis.drop 12 with
  | [] => .err
  | b13 :: r1 =>
    if b13 ≠ 0x20 ∧ b13 ≠ 0x21 then .err
    else
      let isLocal := b13 = 0x20
      match r1 with
      | [] => if isLocal ∧ atEOF = true then .sock 13 else .err   -- legacy 13-byte LOCAL: stream ends after the command byte
      | b14 :: r2 =>
        if ¬ supportedFam b14 ∧ ¬ (isLocal ∧ b14 = 0x00) then .err
        else
          match r2 with
          | hi :: lo :: r3 =>
            let len := be16 hi lo
            if ¬ isLocal ∧ ¬ validLen b14 len then .err
            else if len > bufSize then .err
            else if r3.length < len then .err
            else if isLocal then .sock (16 + len)
            else if b14 &&& 0xF0 = 0x10 then
              .hdr b14 (some (to16 (r3.take 4))) (some (to16 ((r3.drop 4).take 4)))
                (be16 (r3.getD 8 0) (r3.getD 9 0)) (be16 (r3.getD 10 0) (r3.getD 11 0)) (16 + len)
            else if b14 &&& 0xF0 = 0x20 then
              .hdr b14 (some (r3.take 16)) (some ((r3.drop 16).take 16))
                (be16 (r3.getD 32 0) (r3.getD 33 0)) (be16 (r3.getD 34 0) (r3.getD 35 0)) (16 + len)
            else .hdr b14 none none 0 0 (16 + len)
          | _ => .err

/-! ### Read -/

def readHeader (env : Env) (vis : Bytes) (atEOF : Bool) : Rd :=
  match vis with
  | [] => .err
  | b :: _ =>
    if b ≠ 0x50 ∧ b ≠ 0x0D then .noProxy
    else if vis.length < 5 then .err
    else if vis.take 5 = sigV1 then parseV1 env vis
    else if vis.length < 12 then .err
    else if vis.take 12 = sigV2 then parseV2 vis atEOF
    else .noProxy

/-! ### Conn -/

def finOf : EndK → Fin
  | .eof => .eof
  | .stall => .stall

def rejectObs (src : Option Addr) : Obs :=
  { src := src, dst := none, data := [], fin := .err, closed := true }

/-- `net.ResolveTCPAddr(fam.String(), JoinHostPort(ip.String(), port))` succeeds exactly for
    tcp4 with an IPv4 address and tcp6 with an IPv6 address that is not v4-mapped -/
def resolve (fam : UInt8) (ip : Option Bytes) (port : Nat) : Option Addr :=
  match ip with
  | none => none
  | some a =>
    if fam = 0x11 then (if isV4Mapped a then some ⟨a, port⟩ else none)
    else if fam = 0x21 then (if isV4Mapped a then none else some ⟨a, port⟩)
    else none

def effLimit (limit : Nat) : Nat := if limit = 0 then defaultLimit else limit

/-- `checkProxyHeader` after `Read` returned `rd`, then the application's calls -/
def connOf (rd : Rd) (stream : Bytes) (e : EndK) : Obs :=
  match rd with
  | .noProxy => { src := none, dst := none, data := stream, fin := finOf e, closed := false }
  | .err => rejectObs none
  | .sock n => { src := none, dst := none, data := stream.drop n, fin := finOf e, closed := false }
  | .hdr fam s d sp dp n =>
    match resolve fam s sp with
    | none => rejectObs none
    | some sa =>
      match resolve fam d dp with
      | none => rejectObs (some sa)
      | some da => { src := some sa, dst := some da, data := stream.drop n, fin := finOf e, closed := false }

/-- past the visible bytes the reader sees io.EOF when the peer closed or the header limiter (N = limit) is used up -/
def atEOFOf (stream : Bytes) (limit : Nat) (e : EndK) : Bool :=
  decide (stream.length ≥ effLimit limit) || e == .eof

/-- the whole life of one `bfe_proxy.Conn`: the peer sends `stream` then ends with `e`; the application
    asks for the addresses and reads until an error -/
def connRun (env : Env) (stream : Bytes) (limit : Nat) (e : EndK) : Obs :=
  connOf (readHeader env (stream.take (effLimit limit)) (atEOFOf stream limit e)) stream e

/-!
  ## Specification side (written from the PROXY protocol text, haproxy doc/proxy-protocol.txt §2.1, §2.2;
  independent of the parser above).  Address *text* validity is delegated to `Env.parseIP` (inet_pton).
-/

def SP : UInt8 := 0x20
def CR : UInt8 := 0x0D
def LF : UInt8 := 0x0A

/-- v1 sender: `PROXY <proto> <src> <dst> <sport> <dport>\r\n` from already rendered tokens -/
def encodeV1 (proto a b p q : Bytes) : Bytes :=
  sigV1 ++ SP :: (proto ++ SP :: (a ++ SP :: (b ++ SP :: (p ++ SP :: (q ++ [CR, LF])))))

/-- v1 sender, unknown protocol: `PROXY UNKNOWN\r\n` or `PROXY UNKNOWN <anything without LF>\r\n` -/
def encodeV1Unknown (junk : Bytes) : Bytes :=
  sigV1 ++ SP :: (tokUNKNOWN ++ (junk ++ [CR, LF]))

def hi8 (n : Nat) : UInt8 := UInt8.ofNat (n / 256)
def lo8 (n : Nat) : UInt8 := UInt8.ofNat (n % 256)

/-- v2 sender: 12-byte signature, version/command, family/protocol, 16-bit length, then the block
    (addresses followed by TLVs) — the same 16-byte prefix for every command -/
def encodeV2 (verCmd fam : UInt8) (block : Bytes) : Bytes :=
  sigV2 ++ verCmd :: fam :: hi8 block.length :: lo8 block.length :: block

/-- address block of a TCP/UDP over IPv4 or IPv6 header -/
def addrBlock (src dst : Bytes) (sp dp : Nat) : Bytes :=
  src ++ (dst ++ [hi8 sp, lo8 sp, hi8 dp, lo8 dp])

/-- the families the text enumerates: UNSPEC, TCP/UDP over IPv4/IPv6, UNIX stream/datagram -/
def specFam (b : UInt8) : Bool :=
  b == 0x00 || b == 0x11 || b == 0x12 || b == 0x21 || b == 0x22 || b == 0x31 || b == 0x32

def specAddrLen (fam : UInt8) : Nat :=
  if fam = 0x00 then 0 else if fam &&& 0xF0 = 0x10 then 12 else if fam &&& 0xF0 = 0x20 then 36 else 216

/-- a port written as a decimal integer: 1..5 digits, value ≤ 65535 -/
def specPort (t : Bytes) : Option Nat :=
  if t.isEmpty || t.length > 5 || !t.all isDigit then none
  else if digitsVal t ≤ 65535 then some (digitsVal t) else none

inductive Expect
  | pass                                  -- no header: byte-identical stream, socket addresses
  | accept (src dst : Addr) (n : Nat)     -- conformant header of n bytes advertising src/dst
  | acceptSock (n : Nat)                  -- conformant LOCAL / UNKNOWN header of n bytes
  | either (n : Nat)                      -- conformant, but the receiver may reject or fall back to the socket addresses
  | reject                                -- malformed: connection ended, no data
deriving DecidableEq, Repr

def hasByte (t : Bytes) (b : UInt8) : Bool := t.any (· == b)

/-- spec-side reading of a stream that starts with `PROXY` -/
def specV1 (env : Env) (stream : Bytes) : Expect × String :=
  match readLine (stream.take 107) with
  | none => (.reject, if (readLine stream).isSome then "v1-overlong" else "v1-noline")
  | some line =>
    let n := line.length
    if n < 2 ∨ line.getD (n - 2) 0 ≠ CR then (.reject, "v1-nocr")
    else
      let toks := splitSp (line.take (n - 2))
      if toks.getD 0 [] ≠ sigV1 then (.reject, "v1-sig-suffix")
      else if toks.length ≥ 2 ∧ toks.getD 1 [] = tokUNKNOWN then (.acceptSock n, "v1-unknown")
      else if toks.length > 6 then (.reject, "v1-extra-token")
      else if toks.length < 6 then (.reject, "v1-few-tokens")
      else
        let proto := toks.getD 1 []
        let a := toks.getD 2 []
        let b := toks.getD 3 []
        if proto ≠ tokTCP4 ∧ proto ≠ tokTCP6 then (.reject, "v1-proto")
        else
          match specPort (toks.getD 4 []), specPort (toks.getD 5 []) with
          | some sp, some dp =>
            match env.parseIP a, env.parseIP b with
            | some ia, some ib =>
              if proto = tokTCP4 then
                if hasByte a 0x3A || hasByte b 0x3A || !isV4Mapped ia || !isV4Mapped ib then (.reject, "v1-addr-syntax")
                else (.accept ⟨ia, sp⟩ ⟨ib, dp⟩ n, "v1-tcp4")
              else
                if !hasByte a 0x3A || !hasByte b 0x3A then (.reject, "v1-addr-family")
                else (.accept ⟨ia, sp⟩ ⟨ib, dp⟩ n,
                      if isV4Mapped ia || isV4Mapped ib then "v1-tcp6-v4mapped" else "v1-tcp6")
            | _, _ => (.reject, "v1-bad-addr")
          | _, _ => (.reject, "v1-port-syntax")

/-- spec-side reading of a stream that starts with the 12-byte v2 signature -/
def specV2 (stream : Bytes) : Expect × String :=
  match stream.drop 12 with
  | vc :: fam :: hi :: lo :: rest =>
    let len := be16 hi lo
    if vc ≠ 0x20 ∧ vc ≠ 0x21 then (.reject, "v2-vercmd")
    else if !specFam fam then (.reject, "v2-family")
    else if rest.length < len then (.reject, "v2-truncated")
    else if vc = 0x20 then (.acceptSock (16 + len), if len > bufSize then "v2-len-gt-buffer" else "v2-local")
    else if len < specAddrLen fam then (.reject, "v2-short-len")
    else if fam = 0x11 then
      (.accept ⟨to16 (rest.take 4), be16 (rest.getD 8 0) (rest.getD 9 0)⟩
               ⟨to16 ((rest.drop 4).take 4), be16 (rest.getD 10 0) (rest.getD 11 0)⟩ (16 + len),
       if len > bufSize then "v2-len-gt-buffer" else "v2-tcp4")
    else if fam = 0x21 then
      (.accept ⟨rest.take 16, be16 (rest.getD 32 0) (rest.getD 33 0)⟩
               ⟨(rest.drop 16).take 16, be16 (rest.getD 34 0) (rest.getD 35 0)⟩ (16 + len),
       if isV4Mapped (rest.take 16) || isV4Mapped ((rest.drop 16).take 16) then "v2-tcp6-v4mapped"
       else if len > bufSize then "v2-len-gt-buffer" else "v2-tcp6")
    else (.either (16 + len), "v2-other-family")
  | [0x20] => (.either 13, "v2-local-legacy13")   -- tolerated: nothing follows, so nothing can be mis-delivered
  | _ => (.reject, "v2-truncated")

def startsWith (s p : Bytes) : Bool := s.take p.length == p

/-- what the property demands for a stream, and the class name used if the implementation fails it
    (`limit` only refines the class name of a stream without signature) -/
def specExpect (env : Env) (stream : Bytes) (limit : Nat) : Expect × String :=
  if startsWith stream sigV1 then specV1 env stream
  else if startsWith stream sigV2 then specV2 stream
  else (.pass,
    if (stream.take 1 == [0x50] || stream.take 1 == [0x0D]) && (stream.take (effLimit limit)).length < 12
    then "nosig-short" else "nosig")

def isRejectClean (o : Obs) : Bool := o.data.isEmpty && o.closed

def isAccept (o : Obs) (src dst : Option Addr) (stream : Bytes) (n : Nat) (e : EndK) : Bool :=
  o == { src := src, dst := dst, data := stream.drop n, fin := finOf e, closed := false }

/-- the oracle: does the observation satisfy the expectation?  A conformant header larger than the
    configured header limit may be rejected (cleanly). -/
def judge (exp : Expect) (o : Obs) (stream : Bytes) (limit : Nat) (e : EndK) : Bool :=
  match exp with
  | .pass => isAccept o none none stream 0 e || (stream.isEmpty && isRejectClean o)
  | .accept s d n => isAccept o (some s) (some d) stream n e || (decide (n > effLimit limit) && isRejectClean o)
  | .acceptSock n => isAccept o none none stream n e || (decide (n > effLimit limit) && isRejectClean o)
  | .either n => isAccept o none none stream n e || isRejectClean o
  | .reject => isRejectClean o

end BfeVerif.C46
