import BfeVerif.C46.Model
/-! Lemmas for C46 (core Lean only). -/
namespace BfeVerif.C46

theorem be16_hi_lo (n : Nat) (h : n < 65536) : be16 (hi8 n) (lo8 n) = n := by
  unfold be16 hi8 lo8
  simp only [UInt8.toNat_ofNat']
  omega

theorem take_prefix_ge {α} (a b : List α) (L : Nat) (h : a.length ≤ L) :
    (a ++ b).take L = a ++ b.take (L - a.length) := by
  rw [List.take_append, List.take_of_length_le h]

/-- every rejected connection delivers no data -/
theorem connOf_closed_nodata (rd : Rd) (s : Bytes) (e : EndK)
    (h : (connOf rd s e).closed = true) : (connOf rd s e).data = [] := by
  unfold connOf at h ⊢
  split at h <;> try (first | rfl | (simp at h))
  split at h <;> try (first | rfl | (simp at h))
  split at h <;> try (first | rfl | (simp at h))

/-- a header whose parse does not depend on what follows it, within the header limit -/
theorem connRun_prefix (env : Env) (enc pay : Bytes) (limit : Nat) (e : EndK) (R : Rd)
    (hL : enc.length ≤ effLimit limit) (hR : ∀ rest a, readHeader env (enc ++ rest) a = R) :
    connRun env (enc ++ pay) limit e = connOf R (enc ++ pay) e := by
  unfold connRun
  rw [take_prefix_ge enc pay _ hL, hR]

/-! ### v2 -/

theorem addr_parts (src dst tail : Bytes) (p1 p2 p3 p4 : UInt8) (k : Nat) (hs : src.length = k) (hd : dst.length = k) :
    let r3 := (src ++ (dst ++ [p1, p2, p3, p4])) ++ tail
    r3.take k = src ∧ (r3.drop k).take k = dst ∧ r3.getD (2*k) 0 = p1 ∧ r3.getD (2*k+1) 0 = p2
      ∧ r3.getD (2*k+2) 0 = p3 ∧ r3.getD (2*k+3) 0 = p4 := by
  intro r3
  subst hs
  refine ⟨?_, ?_, ?_, ?_, ?_, ?_⟩
  · simp [r3, List.append_assoc]
  · simp [r3, List.append_assoc, hd]
  all_goals
    (show ((src ++ (dst ++ [p1, p2, p3, p4])) ++ tail).getD _ 0 = _
     rw [List.getD_eq_getElem?_getD, List.append_assoc, List.getElem?_append_right (by omega),
       List.append_assoc, List.getElem?_append_right (by omega)])
  · have : 2 * src.length - src.length - dst.length = 0 := by omega
    simp [this]
  · have : 2 * src.length + 1 - src.length - dst.length = 1 := by omega
    simp [this]
  · have : 2 * src.length + 2 - src.length - dst.length = 2 := by omega
    simp [this]
  · have : 2 * src.length + 3 - src.length - dst.length = 3 := by omega
    simp [this]

theorem readHeader_v2_tcp4 {a : Bool} (env : Env) (src dst : Bytes) (sp dp : Nat) (tlv rest : Bytes)
    (hs : src.length = 4) (hd : dst.length = 4) (hsp : sp < 65536) (hdp : dp < 65536)
    (hlen : 12 + tlv.length ≤ bufSize) :
    readHeader env (encodeV2 0x21 0x11 (addrBlock src dst sp dp ++ tlv) ++ rest) a
      = .hdr 0x11 (some (to16 src)) (some (to16 dst)) sp dp (16 + (12 + tlv.length)) := by
  have hbl : (addrBlock src dst sp dp ++ tlv).length = 12 + tlv.length := by
    simp [addrBlock, hs, hd]; omega
  have hb16 := be16_hi_lo (12 + tlv.length) (by unfold bufSize at hlen; omega)
  obtain ⟨h1, h2, h3, h4, h5, h6⟩ := addr_parts src dst (tlv ++ rest) (hi8 sp) (lo8 sp) (hi8 dp) (lo8 dp) 4 hs hd
  simp only [List.getD_eq_getElem?_getD, Nat.reduceMul, Nat.reduceAdd] at h3 h4 h5 h6
  have hl : (addrBlock src dst sp dp).length = 12 := by simp [addrBlock, hs, hd]
  have hsup : supportedFam 17 = true := by decide
  have hand : (17 : UInt8) &&& 240 = 16 := by decide
  have hvl : validLen 17 (12 + tlv.length) = true := by simp [validLen, hand]
  simp only [readHeader, encodeV2, sigV2, sigV1, parseV2, hbl]
  simp
  rw [hb16]
  simp only [addrBlock] at hl ⊢
  rw [h1, h2, h3, h4, h5, h6, be16_hi_lo sp hsp, be16_hi_lo dp hdp]
  simp [hsup, hvl, hand, hl]
  repeat' split
  all_goals (first | rfl | omega)

theorem readHeader_v2_tcp6 {a : Bool} (env : Env) (src dst : Bytes) (sp dp : Nat) (tlv rest : Bytes)
    (hs : src.length = 16) (hd : dst.length = 16) (hsp : sp < 65536) (hdp : dp < 65536)
    (hlen : 36 + tlv.length ≤ bufSize) :
    readHeader env (encodeV2 0x21 0x21 (addrBlock src dst sp dp ++ tlv) ++ rest) a
      = .hdr 0x21 (some src) (some dst) sp dp (16 + (36 + tlv.length)) := by
  have hbl : (addrBlock src dst sp dp ++ tlv).length = 36 + tlv.length := by
    simp [addrBlock, hs, hd]; omega
  have hb16 := be16_hi_lo (36 + tlv.length) (by unfold bufSize at hlen; omega)
  obtain ⟨h1, h2, h3, h4, h5, h6⟩ := addr_parts src dst (tlv ++ rest) (hi8 sp) (lo8 sp) (hi8 dp) (lo8 dp) 16 hs hd
  simp only [List.getD_eq_getElem?_getD, Nat.reduceMul, Nat.reduceAdd] at h3 h4 h5 h6
  have hl : (addrBlock src dst sp dp).length = 36 := by simp [addrBlock, hs, hd]
  have hsup : supportedFam 33 = true := by decide
  have hand : (33 : UInt8) &&& 240 = 32 := by decide
  have hvl : validLen 33 (36 + tlv.length) = true := by simp [validLen, hand]
  simp only [readHeader, encodeV2, sigV2, sigV1, parseV2, hbl]
  simp
  rw [hb16]
  simp only [addrBlock] at hl ⊢
  rw [h1, h2, h3, h4, h5, h6, be16_hi_lo sp hsp, be16_hi_lo dp hdp]
  simp [hsup, hvl, hand, hl]
  repeat' split
  all_goals (first | rfl | omega)

theorem readHeader_v2_local {a : Bool} (env : Env) (fam : UInt8) (block rest : Bytes)
    (hf : fam = 0x00 ∨ supportedFam fam = true) (hlen : block.length ≤ bufSize) :
    readHeader env (encodeV2 0x20 fam block ++ rest) a = .sock (16 + block.length) := by
  have hb16 := be16_hi_lo block.length (by unfold bufSize at hlen; omega)
  simp only [readHeader, encodeV2, sigV2, sigV1, parseV2]
  simp
  rw [hb16]
  have hfam : ¬ (supportedFam fam = false ∧ ¬ fam = 0) := by
    rcases hf with h | h
    · simp [h]
    · simp [h]
  simp [hfam]
  repeat' split
  all_goals (first | rfl | omega)

/-- a block longer than the bufio buffer is rejected whatever the configured limit (known finding) -/
theorem readHeader_v2_oversize {a : Bool} (env : Env) (vc fam : UInt8) (block rest : Bytes)
    (hlen : bufSize < block.length) (h16 : block.length < 65536) :
    readHeader env (encodeV2 vc fam block ++ rest) a = .err := by
  have hb16 := be16_hi_lo block.length h16
  simp only [readHeader, encodeV2, sigV2, sigV1, parseV2]
  simp
  rw [hb16]
  repeat' split
  all_goals (first | rfl | omega)

theorem encodeV2_length (vc fam : UInt8) (block : Bytes) : (encodeV2 vc fam block).length = 16 + block.length := by
  simp [encodeV2, sigV2]; omega

/-! ### v1 -/

theorem readLine_append (x rest : Bytes) (h : ∀ b ∈ x, b ≠ 0x0A) :
    readLine (x ++ 0x0A :: rest) = some (x ++ [0x0A]) := by
  induction x with
  | nil => simp [readLine]
  | cons b t ih =>
    have hb : b ≠ 0x0A := h b (by simp)
    have ht : ∀ c ∈ t, c ≠ 0x0A := fun c hc => h c (by simp [hc])
    simp [readLine, hb, ih ht]

theorem splitSp_ne_nil (l : Bytes) : splitSp l ≠ [] := by
  induction l with
  | nil => simp [splitSp]
  | cons b t ih =>
    unfold splitSp
    split
    · simp
    · split <;> simp

theorem splitSp_tok (t r : Bytes) (h : ∀ b ∈ t, b ≠ 0x20) :
    splitSp (t ++ 0x20 :: r) = t :: splitSp r := by
  induction t with
  | nil => simp [splitSp]
  | cons b t ih =>
    have hb : b ≠ 0x20 := h b (by simp)
    have ht : ∀ c ∈ t, c ≠ 0x20 := fun c hc => h c (by simp [hc])
    simp [splitSp, hb, ih ht]

theorem splitSp_last (t : Bytes) (h : ∀ b ∈ t, b ≠ 0x20) : splitSp t = [t] := by
  induction t with
  | nil => simp [splitSp]
  | cons b t ih =>
    have hb : b ≠ 0x20 := h b (by simp)
    have ht : ∀ c ∈ t, c ≠ 0x20 := fun c hc => h c (by simp [hc])
    simp [splitSp, hb, ih ht]

/-- a token: no space, no line feed -/
def Tok (t : Bytes) : Prop := ∀ b ∈ t, b ≠ 0x20 ∧ b ≠ 0x0A

theorem Tok.sp {t : Bytes} (h : Tok t) : ∀ b ∈ t, b ≠ 0x20 := fun b hb => (h b hb).1
theorem Tok.lf {t : Bytes} (h : Tok t) : ∀ b ∈ t, b ≠ 0x0A := fun b hb => (h b hb).2

/-- strict decimal port text is what `strconv.Atoi` + range check reads back -/
theorem goPort_of_specPort (t : Bytes) (n : Nat) (h : specPort t = some n) : goPort t = some n := by
  unfold specPort at h
  split at h
  · simp at h
  · rename_i hc
    simp only [Bool.or_eq_true, Bool.not_eq_true', not_or, Bool.not_eq_true, Bool.not_eq_false] at hc
    obtain ⟨⟨hne, _⟩, hall⟩ := hc
    have hgo : goPort t = (if digitsVal t ≤ 65535 then some (digitsVal t) else none) := by
      unfold goPort
      match t, hne, hall with
      | [], hne, _ => simp at hne
      | b :: r, _, hall =>
        have hb : isDigit b = true := by simp [List.all_cons] at hall; exact hall.1
        have h2b : b ≠ 0x2B := by intro hh; subst hh; simp [isDigit] at hb
        have h2d : b ≠ 0x2D := by intro hh; subst hh; simp [isDigit] at hb
        split
        · rename_i heq; simp at heq; exact absurd heq.1 h2b
        · rename_i heq; simp at heq; exact absurd heq.1 h2d
        · simp [goPortAbs, hall]
    rw [hgo]; exact h

theorem parseV1_line (env : Env) (Y rest : Bytes) (hY : ∀ b ∈ Y, b ≠ 0x0A) :
    parseV1 env (Y ++ 0x0D :: 0x0A :: rest) = parseToks env (splitSp Y) (Y.length + 2) := by
  have e1 : Y ++ 0x0D :: 0x0A :: rest = (Y ++ [0x0D]) ++ 0x0A :: rest := by simp
  have hY' : ∀ b ∈ Y ++ [0x0D], b ≠ 0x0A := by
    intro b hb
    rcases List.mem_append.mp hb with h | h
    · exact hY b h
    · simp at h; subst h; decide
  unfold parseV1
  rw [e1, readLine_append _ _ hY']
  have hlen : ((Y ++ [0x0D]) ++ [0x0A]).length = Y.length + 2 := by simp
  have hget : ((Y ++ [0x0D]) ++ [0x0A]).getD (Y.length + 2 - 2) 0 = 0x0D := by
    simp [List.getD_eq_getElem?_getD]
  have htake : ((Y ++ [0x0D]) ++ [0x0A]).take (Y.length + 2 - 2) = Y := by
    simp [List.append_assoc]
  simp only [hlen, hget, htake]
  simp
  omega

theorem mem_sigV1_ne (b : UInt8) (h : b ∈ sigV1) : b ≠ 0x20 ∧ b ≠ 0x0A := by
  simp [sigV1] at h
  rcases h with h | h | h | h | h <;> subst h <;> decide

theorem tok_sigV1 : Tok sigV1 := fun b hb => mem_sigV1_ne b hb
theorem tok_TCP4 : Tok tokTCP4 := by
  intro b h; simp [tokTCP4] at h; rcases h with h | h | h | h <;> subst h <;> decide
theorem tok_TCP6 : Tok tokTCP6 := by
  intro b h; simp [tokTCP6] at h; rcases h with h | h | h | h <;> subst h <;> decide
theorem tok_UNKNOWN : Tok tokUNKNOWN := by
  intro b h; simp [tokUNKNOWN] at h; rcases h with h | h | h | h | h | h | h <;> subst h <;> decide

theorem readHeader_v1 {a : Bool} (env : Env) (t : Bytes) : readHeader env (sigV1 ++ 0x20 :: t) a = parseV1 env (sigV1 ++ 0x20 :: t) := by
  simp [readHeader, sigV1]
  omega

/-- the visible line of `encodeV1`, without CRLF -/
def v1Body (proto a b p q : Bytes) : Bytes :=
  sigV1 ++ SP :: (proto ++ SP :: (a ++ SP :: (b ++ SP :: (p ++ SP :: q))))

theorem encodeV1_eq (proto a b p q rest : Bytes) :
    encodeV1 proto a b p q ++ rest = v1Body proto a b p q ++ 0x0D :: 0x0A :: rest := by
  simp [encodeV1, v1Body, CR, LF, List.append_assoc]

theorem encodeV1_length (proto a b p q : Bytes) :
    (encodeV1 proto a b p q).length = (v1Body proto a b p q).length + 2 := by
  simp [encodeV1, v1Body]; omega

theorem v1Body_lf (proto a b p q : Bytes) (hpr : Tok proto) (ha : Tok a) (hb : Tok b) (hp : Tok p) (hq : Tok q) :
    ∀ x ∈ v1Body proto a b p q, x ≠ 0x0A := by
  intro x hx
  simp only [v1Body, SP, List.mem_append, List.mem_cons] at hx
  rcases hx with h | h | h | h | h | h | h | h | h | h | h
  · exact (mem_sigV1_ne x h).2
  · subst h; decide
  · exact hpr.lf x h
  · subst h; decide
  · exact ha.lf x h
  · subst h; decide
  · exact hb.lf x h
  · subst h; decide
  · exact hp.lf x h
  · subst h; decide
  · exact hq.lf x h

theorem splitSp_v1Body (proto a b p q : Bytes) (hpr : Tok proto) (ha : Tok a) (hb : Tok b) (hp : Tok p) (hq : Tok q) :
    splitSp (v1Body proto a b p q) = [sigV1, proto, a, b, p, q] := by
  unfold v1Body SP
  rw [splitSp_tok _ _ tok_sigV1.sp, splitSp_tok _ _ hpr.sp, splitSp_tok _ _ ha.sp, splitSp_tok _ _ hb.sp,
    splitSp_tok _ _ hp.sp, splitSp_last _ hq.sp]

theorem readHeader_v1_tcp {ae : Bool} (env : Env) (proto a b p q rest : Bytes) (fam : UInt8) (ia ib : Option Bytes) (sp dp : Nat)
    (hproto : (proto = tokTCP4 ∧ fam = 0x11) ∨ (proto = tokTCP6 ∧ fam = 0x21))
    (ha : Tok a) (hb : Tok b) (hp : Tok p) (hq : Tok q)
    (hia : parseV1IP env fam a = some ia) (hib : parseV1IP env fam b = some ib)
    (hsp : goPort p = some sp) (hdp : goPort q = some dp) :
    readHeader env (encodeV1 proto a b p q ++ rest) ae
      = .hdr fam ia ib sp dp (encodeV1 proto a b p q).length := by
  have hpr : Tok proto := by
    rcases hproto with ⟨h, _⟩ | ⟨h, _⟩
    · subst h; exact tok_TCP4
    · subst h; exact tok_TCP6
  rw [encodeV1_length, encodeV1_eq]
  have hrd : readHeader env (v1Body proto a b p q ++ 0x0D :: 0x0A :: rest) ae
      = parseV1 env (v1Body proto a b p q ++ 0x0D :: 0x0A :: rest) := by
    have := readHeader_v1 (a := ae) env (proto ++ SP :: (a ++ SP :: (b ++ SP :: (p ++ SP :: q))) ++ 0x0D :: 0x0A :: rest)
    simpa [v1Body, SP, List.append_assoc] using this
  rw [hrd, parseV1_line _ _ _ (v1Body_lf proto a b p q hpr ha hb hp hq), splitSp_v1Body proto a b p q hpr ha hb hp hq]
  rcases hproto with ⟨h1, h2⟩ | ⟨h1, h2⟩
  · subst h1; subst h2
    have hne : tokTCP4 ≠ tokUNKNOWN := by decide
    simp [parseToks, hne, hia, hib, hsp, hdp]
  · subst h1; subst h2
    have hne : tokTCP6 ≠ tokUNKNOWN := by decide
    have hne2 : tokTCP6 ≠ tokTCP4 := by decide
    simp [parseToks, hne, hne2, hia, hib, hsp, hdp]

/-- `PROXY UNKNOWN\r\n` and `PROXY UNKNOWN <anything without LF>\r\n` -/
theorem readHeader_v1_unknown {a : Bool} (env : Env) (junk rest : Bytes)
    (hj : junk = [] ∨ ∃ j, junk = 0x20 :: j) (hlf : ∀ b ∈ junk, b ≠ 0x0A) :
    readHeader env (encodeV1Unknown junk ++ rest) a = .sock (encodeV1Unknown junk).length := by
  have hlen : (encodeV1Unknown junk).length = (sigV1 ++ 0x20 :: (tokUNKNOWN ++ junk)).length + 2 := by
    simp [encodeV1Unknown]; omega
  have heq : encodeV1Unknown junk ++ rest = (sigV1 ++ 0x20 :: (tokUNKNOWN ++ junk)) ++ 0x0D :: 0x0A :: rest := by
    simp [encodeV1Unknown, SP, CR, LF, List.append_assoc]
  have hY : ∀ b ∈ sigV1 ++ 0x20 :: (tokUNKNOWN ++ junk), b ≠ 0x0A := by
    intro b hb
    simp only [List.mem_append, List.mem_cons] at hb
    rcases hb with h | h | h | h
    · exact (mem_sigV1_ne b h).2
    · subst h; decide
    · exact tok_UNKNOWN.lf b h
    · exact hlf b h
  have hrd : readHeader env ((sigV1 ++ 0x20 :: (tokUNKNOWN ++ junk)) ++ 0x0D :: 0x0A :: rest) a
      = parseV1 env ((sigV1 ++ 0x20 :: (tokUNKNOWN ++ junk)) ++ 0x0D :: 0x0A :: rest) := by
    have := readHeader_v1 (a := a) env ((tokUNKNOWN ++ junk) ++ 0x0D :: 0x0A :: rest)
    simpa [List.append_assoc] using this
  rw [hlen, heq, hrd, parseV1_line _ _ _ hY, splitSp_tok _ _ tok_sigV1.sp]
  rcases hj with h | ⟨j, h⟩
  · subst h
    rw [List.append_nil, splitSp_last _ tok_UNKNOWN.sp]
    simp [parseToks]
  · subst h
    rw [splitSp_tok _ _ tok_UNKNOWN.sp]
    have := splitSp_ne_nil j
    simp [parseToks]

/-! ### no signature -/

theorem readHeader_nosig {a : Bool} (env : Env) (vis : Bytes) (hne : vis ≠ [])
    (h1 : vis.take 5 ≠ sigV1) (h2 : vis.take 12 ≠ sigV2)
    (hshort : ¬ ((vis.take 1 = [0x50] ∨ vis.take 1 = [0x0D]) ∧ vis.length < 12)) :
    readHeader env vis a = .noProxy := by
  match vis, hne with
  | b :: t, _ =>
    unfold readHeader
    by_cases hb : b ≠ 0x50 ∧ b ≠ 0x0D
    · simp [hb]
    · have hb' : b = 0x50 ∨ b = 0x0D := by
        by_cases h : b = 0x50
        · exact Or.inl h
        · by_cases h' : b = 0x0D
          · exact Or.inr h'
          · exact absurd ⟨h, h'⟩ hb
      have hl : ¬ (b :: t).length < 12 := by
        intro hlt; apply hshort; refine ⟨?_, hlt⟩
        rcases hb' with h | h <;> simp [h]
      have hl5 : ¬ (b :: t).length < 5 := by omega
      simp only [hb, if_false, hl5, h1, hl, h2]

/-! ### v2 soundness -/

theorem hi8_be16 (hi lo : UInt8) : hi8 (be16 hi lo) = hi ∧ lo8 (be16 hi lo) = lo := by
  unfold hi8 lo8 be16
  have h1 := hi.toNat_lt
  have h2 := lo.toNat_lt
  constructor
  · have : (hi.toNat * 256 + lo.toNat) / 256 = hi.toNat := by omega
    rw [this]; exact UInt8.ofNat_toNat
  · have : (hi.toNat * 256 + lo.toNat) % 256 = lo.toNat := by omega
    rw [this]; exact UInt8.ofNat_toNat

/-- whatever `Read` accepts behind a v2 signature is the spec encoding of a well-formed header followed by
    the rest of the stream — or the legacy 13-byte LOCAL form with NOTHING after it (reader at EOF) -/
theorem readHeader_v2_sound (env : Env) (t : Bytes) (a : Bool) (r : Rd) (h : readHeader env (sigV2 ++ t) a = r)
    (hr : r ≠ .err) :
    (t = [0x20] ∧ a = true ∧ r = .sock 13) ∨
    ∃ vc fam block rest n,
      sigV2 ++ t = encodeV2 vc fam block ++ rest ∧ block.length < 65536 ∧ n = 16 + block.length ∧
      block.length ≤ bufSize ∧
      ((vc = 0x20 ∧ (fam = 0x00 ∨ supportedFam fam = true) ∧ r = .sock n) ∨
       (vc = 0x21 ∧ supportedFam fam = true ∧ validLen fam block.length = true ∧
         ∃ s d sp dp, r = .hdr fam s d sp dp n)) := by
  have hnp : readHeader env (sigV2 ++ t) a = parseV2 (sigV2 ++ t) a := by
    simp [readHeader, sigV2, sigV1]
    rw [if_neg (by omega), if_neg (by omega)]
  rw [hnp] at h
  match t with
  | [] => simp [parseV2, sigV2] at h; exact absurd h.symm hr
  | [b13] =>
    left
    simp only [parseV2, sigV2] at h; simp at h
    by_cases c1 : ¬b13 = 32 ∧ ¬b13 = 33
    · rw [if_pos c1] at h; exact absurd h.symm hr
    rw [if_neg c1] at h
    by_cases c2 : b13 = 32 ∧ a = true
    · rw [if_pos c2] at h; exact ⟨by rw [c2.1], c2.2, h.symm⟩
    · rw [if_neg c2] at h; exact absurd h.symm hr
  | [b13, b14] =>
    simp only [parseV2, sigV2] at h; simp at h
    repeat' (first | exact absurd h.symm hr | split at h)
  | [b13, b14, hi] =>
    simp only [parseV2, sigV2] at h; simp at h
    repeat' (first | exact absurd h.symm hr | split at h)
  | vc :: fam :: hi :: lo :: r3 =>
    right
    simp only [parseV2, sigV2] at h
    simp at h
    by_cases c1 : ¬vc = 32 ∧ ¬vc = 33
    · rw [if_pos c1] at h; exact absurd h.symm hr
    rw [if_neg c1] at h
    by_cases c2 : supportedFam fam = false ∧ (vc = 32 → ¬fam = 0)
    · rw [if_pos c2] at h; exact absurd h.symm hr
    rw [if_neg c2] at h
    by_cases c3 : ¬vc = 32 ∧ validLen fam (be16 hi lo) = false
    · rw [if_pos c3] at h; exact absurd h.symm hr
    rw [if_neg c3] at h
    by_cases c4 : bufSize < be16 hi lo
    · rw [if_pos c4] at h; exact absurd h.symm hr
    rw [if_neg c4] at h
    by_cases c5 : r3.length < be16 hi lo
    · rw [if_pos c5] at h; exact absurd h.symm hr
    rw [if_neg c5] at h
    have hlen : (r3.take (be16 hi lo)).length = be16 hi lo := by simp; omega
    have hb := hi8_be16 hi lo
    have h16 : be16 hi lo < 65536 := by unfold bufSize at c4; omega
    refine ⟨vc, fam, r3.take (be16 hi lo), r3.drop (be16 hi lo), 16 + be16 hi lo, ?_, by rw [hlen]; exact h16,
      by rw [hlen], by rw [hlen]; omega, ?_⟩
    · simp [encodeV2, sigV2, hlen, hb.1, hb.2]
    · by_cases c6 : vc = 32
      · left
        rw [if_pos c6] at h
        refine ⟨c6, ?_, h.symm⟩
        cases hs : supportedFam fam
        · left
          by_cases hf : fam = 0
          · exact hf
          · exact absurd ⟨hs, fun _ => hf⟩ c2
        · right; rfl
      · right
        rw [if_neg c6] at h
        have hvc : vc = 33 := by
          by_cases h33 : vc = 33
          · exact h33
          · exact absurd ⟨c6, h33⟩ c1
        have hsup : supportedFam fam = true := by
          cases hs : supportedFam fam
          · exact absurd ⟨hs, fun h32 => absurd h32 c6⟩ c2
          · rfl
        have hvl : validLen fam (be16 hi lo) = true := by
          cases hv : validLen fam (be16 hi lo)
          · exact absurd ⟨c6, hv⟩ c3
          · rfl
        refine ⟨hvc, hsup, by rw [hlen]; exact hvl, ?_⟩
        repeat' split at h
        all_goals exact ⟨_, _, _, _, h.symm⟩

theorem connOf_open_data (r : Rd) (stream : Bytes) (e : EndK) (h : (connOf r stream e).closed = false) :
    (r = .noProxy ∧ (connOf r stream e).data = stream) ∨
    (∃ n, r = .sock n ∧ (connOf r stream e).data = stream.drop n) ∨
    (∃ fam s d sp dp n, r = .hdr fam s d sp dp n ∧ (connOf r stream e).data = stream.drop n) := by
  cases r with
  | noProxy => left; exact ⟨rfl, rfl⟩
  | err => simp [connOf, rejectObs] at h
  | sock n => right; left; exact ⟨n, rfl, rfl⟩
  | hdr fam s d sp dp n =>
    right; right
    refine ⟨fam, s, d, sp, dp, n, rfl, ?_⟩
    simp only [connOf] at h ⊢
    cases h1 : resolve fam s sp with
    | none => simp [h1, rejectObs] at h
    | some sa =>
      cases h2 : resolve fam d dp with
      | none => simp [h1, h2, rejectObs] at h
      | some da => simp [h1, h2]

theorem resolve_other (fam : UInt8) (ip : Option Bytes) (p : Nat) (h4 : fam ≠ 0x11) (h6 : fam ≠ 0x21) :
    resolve fam ip p = none := by
  unfold resolve; cases ip <;> simp [h4, h6]

theorem readHeader_sig_prefix (env : Env) (a : Bool) (k : Nat) (hk : k < 12) :
    readHeader env (sigV2.take k) a = .err := by
  have : k = 0 ∨ k = 1 ∨ k = 2 ∨ k = 3 ∨ k = 4 ∨ k = 5 ∨ k = 6 ∨ k = 7 ∨ k = 8 ∨ k = 9 ∨ k = 10 ∨ k = 11 := by omega
  rcases this with h|h|h|h|h|h|h|h|h|h|h|h <;> subst h <;> simp [readHeader, sigV2, sigV1]

theorem len_of_hi_lo (n m : Nat) (hn : n < 65536) (hm : m < 65536) (h1 : hi8 n = hi8 m) (h2 : lo8 n = lo8 m) : n = m := by
  have a := be16_hi_lo n hn
  have b := be16_hi_lo m hm
  rw [h1, h2] at a
  omega

end BfeVerif.C46
