import BfeVerif.Common.Proto
import BfeVerif.C46.Model
/-!
  C46 driver.
  op     : `lim=<n>;end=<eof|stall>;rb=<n>;k=<kind>;ip=<tokhex>:<ip16hex|x>,...;d=<hex>|<hex>|...`
           (`ip=` is the oracle table for `net.ParseIP` on the two v1 address tokens, `-` when empty)
  result : `src=<ip16hex>:<port>|sock dst=<ip16hex>:<port>|nil data=<hex> fin=<eof|stall|err> closed=<0|1>`
-/
namespace BfeVerif.C46
open BfeVerif.Proto

def renderAddr (a : Option Addr) (none_ : String) : String :=
  match a with
  | none => none_
  | some x => hexField x.ip ++ ":" ++ toString x.port

def renderFin : Fin → String
  | .eof => "eof" | .stall => "stall" | .err => "err"

def renderObs (o : Obs) : String :=
  "src=" ++ renderAddr o.src "sock" ++ " dst=" ++ renderAddr o.dst "nil" ++ " data=" ++ hexField o.data ++
  " fin=" ++ renderFin o.fin ++ " closed=" ++ (if o.closed then "1" else "0")

def parseAddr (s none_ : String) : Option (Option Addr) :=
  if s == none_ then some none
  else match s.splitOn ":" with
    | [h, p] => match bytesOfHex h, p.toNat? with
      | some ip, some port => some (some ⟨ip, port⟩)
      | _, _ => none
    | _ => none

def kv (s : String) : Option (String × String) :=
  match s.splitOn "=" with
  | [k, v] => some (k, v)
  | _ => none

def parseObs (s : String) : Option Obs :=
  match (s.splitOn " ").map kv with
  | [some ("src", a), some ("dst", b), some ("data", d), some ("fin", f), some ("closed", c)] =>
    match parseAddr a "sock", parseAddr b "nil", bytesOfHex d with
    | some sa, some da, some dat =>
      let fin := if f == "eof" then some Fin.eof else if f == "stall" then some Fin.stall
                 else if f == "err" then some Fin.err else none
      match fin with
      | some fi => if c == "0" || c == "1" then some { src := sa, dst := da, data := dat, fin := fi, closed := c == "1" } else none
      | none => none
    | _, _, _ => none
  | _ => none

def parseIpTable (s : String) : Option (List (Bytes × Option Bytes)) :=
  if s == "-" then some []
  else (s.splitOn ",").mapM fun e =>
    match e.splitOn ":" with
    | [t, v] => match bytesOfHex t with
      | some tb => if v == "x" then some (tb, none) else (bytesOfHex v).map fun ip => (tb, some ip)
      | none => none
    | _ => none

def envOf (tbl : List (Bytes × Option Bytes)) : Env :=
  { parseIP := fun t => match tbl.find? (fun e => e.1 == t) with
      | some e => e.2
      | none => none }

structure Case where
  lim : Nat := 0
  e : EndK := .eof
  tbl : List (Bytes × Option Bytes) := []
  stream : Bytes := []
  nchunks : Nat := 0

def parseCase (op : String) : Option Case :=
  (op.splitOn ";").foldlM (init := ({} : Case)) fun c f =>
    match kv f with
    | some ("lim", v) => v.toNat?.map fun n => { c with lim := n }
    | some ("end", v) =>
      -- `eofd` (last data together with io.EOF in one Read) is the peer closing: same model, same spec
      if v == "eof" || v == "eofd" then some { c with e := .eof } else if v == "stall" then some { c with e := .stall } else none
    | some ("z", _) => some c   -- empty chunks delivered as (0, nil) reads: same model, same spec
    | some ("rb", _) => some c
    | some ("k", _) => some c
    | some ("ip", v) => (parseIpTable v).map fun t => { c with tbl := t }
    | some ("d", v) =>
      ((v.splitOn "|").mapM bytesOfHex).map fun cs => { c with stream := cs.flatten, nchunks := cs.length }
    | _ => none

def run (op impl : String) : Ans :=
  match parseCase op with
  | none => { model := "bad-op", verdict := "skip" }
  | some c =>
    let env := envOf c.tbl
    let m := connRun env c.stream c.lim c.e
    let (exp, cls) := specExpect env c.stream c.lim
    -- round 3: `bal=` (BalancerAddr = socket peer exactly when a virtual address is reported), `st=1` (addresses
    -- unchanged after all reads), `rc=ok` (Read's (n, err) contract), `co=1` (the interleaved companion connection
    -- got its own header and payload)
    let tailOf (dstNone : Bool) : String := " bal=" ++ (if dstNone then "nil" else "sock") ++ " st=1 rc=ok co=1"
    let (ibase, itail) := match impl.splitOn " bal=" with
      | [b, t] => (b, " bal=" ++ t)
      | _ => (impl, "")
    let verdict :=
      match parseObs ibase with
      | none => "FAIL:unparsable-result"
      | some o =>
        -- a header limit below the 16-byte v2 prefix is a misconfiguration outside the property's quantifier
        if startsWith c.stream sigV2 && decide (effLimit c.lim < 16) then "skip"
        else if !judge exp o c.stream c.lim c.e then "FAIL:" ++ cls
        else if itail != tailOf o.dst.isNone then "FAIL:conn-contract"
        else "ok"
    let nt := startsWith c.stream sigV1 || startsWith c.stream sigV2
    let over : Bool := match exp with
      | .accept _ _ n => decide (n > effLimit c.lim)
      | .acceptSock n => decide (n > effLimit c.lim)
      | _ => false
    let expTag := match exp with
      | .pass => "x-pass" | .accept .. => "x-accept" | .acceptSock _ => "x-sock" | .either _ => "x-either" | .reject => "x-reject"
    { model := renderObs m ++ tailOf m.dst.isNone
      verdict := verdict
      tags := [cls, expTag, if c.e == .eof then "eof" else "stall", if c.nchunks > 1 then "split" else "whole"]
              ++ (if over then ["over-limit"] else []) ++ (if m.closed then ["m-closed"] else ["m-open"])
              ++ (if nt then ["nt"] else []) }

end BfeVerif.C46
