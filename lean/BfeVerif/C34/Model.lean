/-
  C34 — model of the HTTP/2 outbound write scheduler (bfe_http2/writesched.go) together with the
  outbound flow-control windows (bfe_http2/flow.go) and the window-changing parts of
  bfe_http2/server.go (processWindowUpdate, processSettingInitialWindowSize, SETTINGS_MAX_FRAME_SIZE,
  closeStream -> forgetStream).  Core-only.

  Go `int32` window counters are modelled as `Int`; `flow.add` keeps its int32 wrap-around (`wrap32`)
  and `C34_flowAdd_exact` shows it detects exactly the overflows; `C34_no_wrap` (Props) shows that
  every other int32 operation stays in range.
  (Before fix C34-flow-add the test was `remain := (1<<31 - 1) - f.n; if n > remain`, which wraps for
  negative `f.n`: corpus/C34/negwin.ops.)

  Map iteration (`for id, q := range ws.sq`, twice in `take`) is the explicit parameter `ord1`/`ord2`
  (any list of stream ids; the theorems quantify over all of them).
-/
namespace BfeVerif.C34

/-- a queued stream write (`frameWriteMsg` with `stream != nil`) -/
inductive Wr where
  /-- `*writeData{p, endStream}`: `p` = bytes `[off, off+len)` of message `msg` -/
  | data (msg off len : Nat) (endS : Bool)
  /-- any other stream frame (response HEADERS ...): no flow-control cost -/
  | hdr (endS : Bool)
deriving DecidableEq, Repr, Inhabited

/-- `writeQueue.firstIsNoCost` on the head -/
def Wr.noCost : Wr → Bool
  | .data _ _ len _ => len == 0
  | .hdr _ => true

structure St where
  zero : Nat                      -- len(ws.zero.s): queued stream-less frames
  mfs : Nat                       -- ws.maxFrameSize
  conn : Int                      -- sc.flow.n
  iws : Int                       -- sc.initialWindowSize
  streams : List (Nat × Int)      -- sc.streams: id ↦ stream.flow.n
  sq : List (Nat × List Wr)       -- ws.sq
  hcr : List Nat := []            -- streams in stateHalfClosedRemote (the request carried END_STREAM)
  dead : Bool := false            -- a connection error was raised (GOAWAY)
deriving Repr

def init : St := { zero := 0, mfs := 16384, conn := 65535, iws := 65535, streams := [], sq := [] }

def maxWin : Int := 2147483647

/-- int32 wrap-around -/
def wrap32 (x : Int) : Int := (x + 2147483648) % 4294967296 - 2147483648

/-- `flow.add` (after fix C34-flow-add): `sum := f.n + n` (int32, wraps);
    `if (sum > n) == (f.n > 0) { f.n = sum; return true }; return false` -/
def flowAdd (n inc : Int) : Option Int :=
  let sum := wrap32 (n + inc)
  if decide (sum > inc) == decide (n > 0) then some sum else none

def setKey {α : Type} (k : Nat) (v : α) : List (Nat × α) → List (Nat × α)
  | [] => [(k, v)]
  | (k', v') :: r => if k' == k then (k, v) :: r else (k', v') :: setKey k v r

def delKey {α : Type} (k : Nat) : List (Nat × α) → List (Nat × α)
  | [] => []
  | (k', v') :: r => if k' == k then delKey k r else (k', v') :: delKey k r

/-- `n := f.n; if f.conn != nil && f.conn.n < n { n = f.conn.n }` -/
def availOf (conn n : Int) : Int := if conn < n then conn else n

/-- `flow.available` of a stream flow linked to the connection flow -/
def avail (s : St) (id : Nat) : Option Int :=
  match s.streams.lookup id with
  | none => none
  | some n => some (availOf s.conn n)

/-- result of one `writeScheduler.take` -/
inductive Out where
  | nothing                                -- ok = false
  | ctl
  | hdr (id : Nat) (endS : Bool)
  | data (id msg off len : Nat) (endS : Bool) (done : Bool)
  | panic (why : String)
deriving DecidableEq, Repr

/-- `flow.take(n)` on stream `id` (caller checked the stream exists) -/
def flowTake (s : St) (id : Nat) (n : Int) : Option St :=
  match avail s id, s.streams.lookup id with
  | some a, some w =>
    if n > a then none
    else some { s with conn := s.conn - n, streams := setKey id (w - n) s.streams }
  | _, _ => none

/-- `allowed := available(); if int32(ws.maxFrameSize) < allowed { allowed = int32(ws.maxFrameSize) }` -/
def allowedOf (mfs : Nat) (a0 : Int) : Int := if (mfs : Int) < a0 then (mfs : Int) else a0

/-- `q.shift()` and the deletion of an emptied queue -/
def shiftQ (s : St) (id : Nat) (rest : List Wr) : St :=
  if rest.isEmpty then { s with sq := delKey id s.sq } else { s with sq := setKey id rest s.sq }

/-- `writeScheduler.takeFrom(id, q)` -/
def takeFrom (s : St) (id : Nat) : Out × St :=
  match s.sq.lookup id with
  | none => (.panic "no queue", s)
  | some [] => (.panic "invalid use of queue", s)
  | some (.hdr e :: rest) => (.hdr id e, shiftQ s id rest)
  | some (.data msg off len e :: rest) =>
    if len > 0 then
      match avail s id with
      | none => (.panic "nil stream", s)
      | some a0 =>
        if a0 == 0 then (.nothing, s)
        else
          let allowed : Int := allowedOf s.mfs a0
          if (len : Int) > allowed then
            match flowTake s id allowed with
            | none => (.panic "took too much", s)
            | some s1 =>
              if allowed < 0 then (.panic "slice bounds", s)
              else
                let a := allowed.toNat
                (.data id msg off a false false,
                 { s1 with sq := setKey id (.data msg (off + a) (len - a) e :: rest) s1.sq })
          else
            match flowTake s id len with
            | none => (.panic "took too much", s)
            | some s1 => (.data id msg off len e true, shiftQ s1 id rest)
    else (.data id msg off len e true, shiftQ s id rest)

/-- outcome of the first loop of `take` -/
inductive Scan where
  | found (id : Nat) | nothing | crash
deriving DecidableEq, Repr

/-- `for id, q := range ws.sq { if q.firstIsNoCost() { return ws.takeFrom(id, q) } }` -/
def scanNoCost (sq : List (Nat × List Wr)) : List Nat → Scan
  | [] => .nothing
  | id :: rest =>
    match sq.lookup id with
    | none => scanNoCost sq rest
    | some [] => .crash                      -- q.s[0] on an empty queue
    | some (w :: _) => if w.noCost then .found id else scanNoCost sq rest

/-- `streamWritableBytes(q)` -/
def writable (s : St) (id : Nat) : Int :=
  match s.sq.lookup id, avail s id with
  | some (.data _ _ len _ :: _), some a =>
    if a == 0 then 0
    else
      let r : Int := allowedOf s.mfs a
      if (len : Int) < r then (len : Int) else r
  | _, _ => 0

/-- `writeScheduler.take()`; `ord1`, `ord2` = the two map iteration orders -/
def take (s : St) (ord1 ord2 : List Nat) : Out × St :=
  if s.mfs == 0 then (.panic "maxFrameSize not initialized", s)
  else if s.zero > 0 then (.ctl, { s with zero := s.zero - 1 })
  else if s.sq.isEmpty then (.nothing, s)
  else
    match scanNoCost s.sq ord1 with
    | .crash => (.panic "index out of range", s)
    | .found id => takeFrom s id
    | .nothing =>
      match ord2.filter (fun id => (s.sq.lookup id).isSome && decide (writable s id > 0)) with
      | [] => (.nothing, s)
      | id :: _ => takeFrom s id

/-- `forgetStream` + removal from `sc.streams` (the scheduler-relevant part of `closeStream`) -/
def forget (s : St) (id : Nat) : St :=
  { s with streams := delKey id s.streams, sq := delKey id s.sq }

/-- does the frame carry END_STREAM (`endsStream(wm.write)`) -/
def Out.ends : Out → Option Nat
  | .hdr id true => some id
  | .data id _ _ _ true _ => some id
  | _ => none

/-- `wroteFrame` for a frame that carried END_STREAM on stream `id`:
    * stateOpen: `resetStream(NO_ERROR)` — the RST_STREAM is queued as a stream-less frame — then closeStream;
    * stateHalfClosedRemote: closeStream.
    (`resetStream`'s own `scheduleFrameWrite` hands the oldest stream-less frame to the writer before
    `closeStream` runs; since stream-less frames are always served first this is the same as closing
    first and scheduling afterwards, which is what `takeChain` does.) -/
def afterEnd (s : St) (id : Nat) : St :=
  if s.hcr.contains id then forget s id else forget { s with zero := s.zero + 1 } id

/-- the writer becomes free: `scheduleFrameWrite` takes a frame; if it carries END_STREAM, `wroteFrame`
    closes the stream and schedules again.  `ords` = the map-iteration orders of the successive takes
    (missing ones = empty order).  Returns the frames in the order they are handed to the writer. -/
def takeChain : Nat → St → List (List Nat) → List Out × St
  | 0, s, _ => ([], s)
  | fuel + 1, s, ords =>
    let r := take s (ords.headD []) (ords.headD [])
    match r.1.ends with
    | some id =>
      let rest := takeChain fuel (afterEnd r.2 id) ords.tail
      (r.1 :: rest.1, rest.2)
    | none => (if r.1 == .nothing then [] else [r.1], r.2)

/-- every END_STREAM closes a stream that has a queue, so at most `sq.length` of them chain up -/
def chainFuel (s : St) : Nat := s.sq.length + 2

inductive Op where
  | openS (id : Nat) (hcr : Bool)
  | addData (id len : Nat) (endS : Bool)
  | addHdr (id : Nat) (endS : Bool)
  | addCtl
  | takeOp (ords : List (List Nat))
  | wu (id inc : Nat)
  | setIws (v : Nat)
  | setMfs (v : Nat)
  | forgetOp (id : Nat)
deriving Repr

def pushQ (s : St) (id : Nat) (w : Wr) : St :=
  match s.sq.lookup id with
  | some q => { s with sq := setKey id (q ++ [w]) s.sq }
  | none => { s with sq := setKey id [w] s.sq }

/-- `for _, st := range sc.streams { if !st.flow.add(growth) { return ConnectionError } }`
    (only the all-succeed / some-fails outcome is modelled: on failure the connection dies) -/
def growAll (g : Int) : List (Nat × Int) → Option (List (Nat × Int))
  | [] => some []
  | (id, n) :: r =>
    match flowAdd n g, growAll g r with
    | some n', some r' => some ((id, n') :: r')
    | _, _ => none

/-- one harness/serve-loop operation; the `String` is the canonical result token, the list the frames
    handed to the writer.
    `msg` is the number of the next DATA message. -/
def step (s : St) (msg : Nat) : Op → String × List Out × St
  | .openS id h =>
    if (s.streams.lookup id).isSome then ("!", [], s)
    else
      match flowAdd 0 s.iws with
      | some n => ("+", [], { s with streams := setKey id n s.streams,
                                     hcr := if h then id :: s.hcr else s.hcr.filter (· != id) })
      | none => ("!", [], s)
  | .addData id len e =>
    if (s.streams.lookup id).isSome then ("+", [], pushQ s id (.data msg 0 len e)) else ("!", [], s)
  | .addHdr id e =>
    if (s.streams.lookup id).isSome then ("+", [], pushQ s id (.hdr e)) else ("!", [], s)
  | .addCtl => ("+", [], { s with zero := s.zero + 1 })
  | .takeOp ords => let r := takeChain (chainFuel s) s ords; ("t", r.1, r.2)
  | .wu id inc =>
    if id == 0 then
      match flowAdd s.conn inc with
      | some n => ("ok", [], { s with conn := n })
      | none => ("goaway", [], { s with dead := true })
    else
      match s.streams.lookup id with
      | none => ("nostream", [], s)
      | some n =>
        match flowAdd n inc with
        | some n' => ("ok", [], { s with streams := setKey id n' s.streams })
        | none => ("rst", [], forget { s with zero := s.zero + 1 } id)   -- resetStream: RST_STREAM queued
  | .setIws v =>
    match growAll ((v : Int) - s.iws) s.streams with
    | some st' => ("ok", [], { s with iws := v, streams := st' })
    | none => ("err", [], { s with iws := v, dead := true })
  | .setMfs v => ("+", [], { s with mfs := v })
  | .forgetOp id =>
    if (s.streams.lookup id).isSome then ("+", [], forget s id) else ("!", [], s)

end BfeVerif.C34
