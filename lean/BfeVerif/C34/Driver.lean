import BfeVerif.Common.Proto
import BfeVerif.C34.Model
/-!
  C34 driver.

  op     = `;`-separated tokens
             o<id> / e<id>    open stream (e: request already ended = half-closed remote)
             d<id>:<len>:<0|1>   queue DATA write (messages numbered 0,1,..)
             h<id>:<0|1>      queue HEADERS write    c                   queue a stream-less frame
             t                the writer becomes free: scheduleFrameWrite; a frame with END_STREAM goes through wroteFrame
                              (stream closed, RST_STREAM(NO_ERROR) queued if the request had not ended) and the next
                              frame is scheduled at once: the token is the chain `F1+F2+..`
             w<id>:<inc>      WINDOW_UPDATE (id 0 = connection)          i<val>  SETTINGS_INITIAL_WINDOW_SIZE
             m<val>           SETTINGS_MAX_FRAME_SIZE                    f<id>   closeStream (reset)
  result = one token per executed op joined by `;`, then `|conn=..|id=win,..|z=..|q=ids` or `|dead`

  The map-iteration order the real scheduler happened to use is not observable; the driver feeds the
  model the order "stream the implementation chose first, then the other keys" — if that stream was not
  eligible the model picks another one and the results differ (observed ∈ predicted set).

  The verdict is computed by `monitor` from the op line and the IMPLEMENTATION's tokens only.
-/
namespace BfeVerif.C34
open BfeVerif.Proto

def b01 (b : Bool) : String := if b then "1" else "0"

def Out.render : Out → String
  | .nothing => "-"
  | .ctl => "C"
  | .hdr id e => s!"H{id}:{b01 e}"
  | .data id msg off len e done =>
    if len == 0 then s!"Z{id}:{b01 e}" else s!"D{id}:{msg}:{off}:{len}:{b01 e}:{b01 done}"
  | .panic w => "PANIC:" ++ w

def nats (s : String) : Option (List Nat) := (s.splitOn ":").mapM (·.toNat?)

def parseOp (t : String) : Option Op :=
  if t == "c" then some .addCtl
  else if t == "t" then some (.takeOp [])
  else
    let body := (t.drop 1).toString
    match t.take 1 |>.toString, nats body with
    | "o", some [id] => some (.openS id false)
    | "e", some [id] => some (.openS id true)
    | "d", some [id, len, e] => some (.addData id len (e != 0))
    | "h", some [id, e] => some (.addHdr id (e != 0))
    | "w", some [id, inc] => some (.wu id inc)
    | "i", some [v] => some (.setIws v)
    | "m", some [v] => some (.setMfs v)
    | "f", some [id] => some (.forgetOp id)
    | _, _ => none

/-- stream id named by an implementation take token -/
def chosen (tok : String) : Option Nat :=
  let k := (tok.take 1).toString
  if k == "H" || k == "D" || k == "Z" then
    match ((tok.drop 1).toString.splitOn ":") with
    | a :: _ => a.toNat?
    | [] => none
  else none

def insSorted {α : Type} (x : Nat × α) : List (Nat × α) → List (Nat × α)
  | [] => [x]
  | y :: r => if x.1 ≤ y.1 then x :: y :: r else y :: insSorted x r

def sortKV {α : Type} (l : List (Nat × α)) : List (Nat × α) := l.foldr insSorted []

def orDash (s : String) : String := if s.isEmpty then "-" else s

def dump (s : St) : String :=
  if s.dead then "|dead"
  else
    s!"|conn={s.conn}|" ++
    orDash (",".intercalate ((sortKV s.streams).map fun p => s!"{p.1}={p.2}")) ++
    s!"|z={s.zero}|q=" ++ orDash (",".intercalate ((sortKV s.sq).map fun p => s!"{p.1}"))

def renderChain (l : List Out) : String :=
  if l.isEmpty then "-" else "+".intercalate (l.map Out.render)

/-- orders for the successive takes of a chain: the stream the implementation served first, then the
    other keys known before the chain (closed streams simply have no queue any more) -/
def chainOrders (keys : List Nat) (itok : String) : List (List Nat) :=
  (itok.splitOn "+").map fun f =>
    match chosen f with
    | some id => id :: keys.filter (· != id)
    | none => keys

/-- run the model over the ops; `impl` = the implementation's tokens (for the iteration orders) -/
def runModel : St → Nat → List Op → List String → List String → List String × St
  | s, _, [], _, acc => (acc.reverse, s)
  | s, msg, op :: ops, impl, acc =>
    if s.dead then (acc.reverse, s)
    else
      let itok := impl.headD ""
      let op' := match op with
        | .takeOp _ =>
          let keys := s.sq.map (·.1)
          -- one more (default) order than frames: the take that ends the chain
          Op.takeOp (chainOrders keys itok ++ [keys])
        | o => o
      let (tok, outs, s') := step s msg op'
      let tok' := match op with | .takeOp _ => renderChain outs | _ => tok
      let msg' := match op with | .addData .. => msg + 1 | _ => msg
      runModel s' msg' ops impl.tail (tok' :: acc)

/-! ### specification monitor (independent of the model's scheduler) -/

/-- what the producer queued on a stream, in order -/
inductive Item where
  | data (msg total done : Nat) (endS : Bool)    -- `done` bytes already sent
  | hdr (endS : Bool)

structure Mon where
  mfs : Nat := 16384
  conn : Int := 65535
  iws : Int := 65535
  win : List (Nat × Int) := []            -- true send window of live streams
  pend : List (Nat × List Item) := []     -- expected frame order per live stream
  fail : Option String := none
  tags : List String := []
  dead : Bool := false

def Mon.flag (m : Mon) (c : String) : Mon := if m.fail.isSome then m else { m with fail := some c }
def Mon.tag (m : Mon) (t : String) : Mon := if m.tags.contains t then m else { m with tags := t :: m.tags }

def monClose (m : Mon) (id : Nat) : Mon :=
  let m := match m.pend.lookup id with
    | some (_ :: _) => m.tag "close-queued"      -- a stream is closed while writes are still queued
    | _ => m
  { m with win := delKey id m.win, pend := delKey id m.pend }

def monAdd (m : Mon) (id : Nat) (it : Item) : Mon :=
  { m with pend := setKey id (((m.pend.lookup id).getD []) ++ [it]) m.pend }

def monFrame (m : Mon) (tok : String) : Mon :=
  let k := (tok.take 1).toString
  let f := nats (tok.drop 1).toString
  match k, f with
  | "H", some [id, e] =>
    match m.pend.lookup id with
    | some (.hdr e' :: rest) =>
      let m := if (e != 0) == e' then m else m.flag "order"
      let m := { m with pend := setKey id rest m.pend }
      if e != 0 then monClose m id else m
    | some _ => m.flag "order"
    | none => m.flag "after-close"
  | "Z", some [id, e] =>
    match m.pend.lookup id with
    | some (.data _ 0 0 e' :: rest) =>
      let m := if (e != 0) == e' then m else m.flag "order"
      let m := { m with pend := setKey id rest m.pend }
      if e != 0 then monClose m id else m
    | some _ => m.flag "order"
    | none => m.flag "after-close"
  | "D", some [id, msg, off, len, e, _] =>
    match m.pend.lookup id, m.win.lookup id with
    | some (.data msg' total done e' :: rest), some w =>
      let m := if (len : Int) > w then m.flag "over-stream-window" else m
      let m := if (len : Int) > m.conn then m.flag "over-conn-window" else m
      let m := if len > m.mfs then m.flag "over-max-frame" else m
      let m := if len == 0 then m.flag "empty-chunk" else m
      let m := if msg == msg' && off == done && off + len ≤ total then m else m.flag "order"
      let last := off + len == total
      let m := if (e != 0) == (e' && last) then m else m.flag "end-flag"
      let m := if !last then m.tag "nt" else m
      let m := if !last && len == m.mfs then m.tag "split-mfs" else m
      let m := if !last && len < m.mfs then m.tag "split-win" else m
      let m := { m with conn := m.conn - len, win := setKey id (w - len) m.win,
                        pend := setKey id (if last then rest else .data msg' total (done + len) e' :: rest) m.pend }
      if e != 0 then monClose m id else m
    | some _, some _ => m.flag "order"
    | _, _ => m.flag "after-close"
  | "C", _ => m
  | "-", _ =>
    -- nothing sendable: tag the interesting reason
    if m.pend.any (fun p => !p.2.isEmpty) then m.tag "blocked" else m
  | _, _ => m.flag "bad-token"

def monStep (m : Mon) (op : Op) (tok : String) : Mon :=
  if m.dead then m else
  match op with
  | .openS id _ => if tok == "+" then { m with win := setKey id m.iws m.win, pend := setKey id [] m.pend } else m
  | .addData id len e => if tok == "+" then monAdd m id (.data 0 len 0 e) else m
  | .addHdr id e => if tok == "+" then monAdd m id (.hdr e) else m
  | .addCtl => m
  | .takeOp _ => (tok.splitOn "+").foldl monFrame m
  | .wu id inc =>
    if id == 0 then
      let legal := m.conn + inc ≤ maxWin
      let m := if (tok == "ok") == legal then m else m.flag "wu-conn-verdict"
      if tok == "ok" then { m with conn := m.conn + inc } else { m with dead := true }
    else
      match m.win.lookup id with
      | none => if tok == "nostream" then m else m.flag "wu-verdict"
      | some w =>
        let legal := w + inc ≤ maxWin
        let m := if w < 0 then m.tag "neg-window" else m
        let m := if (tok == "ok") == legal then m
                 else if w < 0 then m.flag "wu-rejected-negative-window" else m.flag "wu-verdict"
        if tok == "ok" then { m with win := setKey id (w + inc) m.win } else monClose m id
  | .setIws v =>
    let g : Int := v - m.iws
    let legal := m.win.all fun p => decide (p.2 + g ≤ maxWin)
    let anyNeg := m.win.any fun p => decide (p.2 < 0)
    let m := if anyNeg then m.tag "neg-window" else m
    let m := if (tok == "ok") == legal then m
             else if anyNeg then m.flag "iws-rejected-negative-window" else m.flag "iws-verdict"
    if tok == "ok" then { m with iws := v, win := m.win.map fun p => (p.1, p.2 + g) } else { m with dead := true }
  | .setMfs v => { m with mfs := v }
  | .forgetOp id => if tok == "+" then monClose m id else m

/-- the DATA message numbers are positional: fix them up before monitoring -/
def numberMsgs : Nat → List Op → List (Op × Nat)
  | _, [] => []
  | n, op :: r => match op with
    | .addData .. => (op, n) :: numberMsgs (n + 1) r
    | _ => (op, n) :: numberMsgs n r

def monitor (ops : List Op) (toks : List String) : Mon :=
  let rec go (m : Mon) : List (Op × Nat) → List String → Mon
    | [], _ => m
    | _, [] => m
    | (op, n) :: r, t :: ts =>
      let m' := match op with
        | .addData id len e => if t == "+" then monAdd m id (.data n len 0 e) else m
        | _ => monStep m op t
      go m' r ts
  go {} (numberMsgs 0 ops) toks

/-- the server's own view of the send windows (final dump of the implementation) must equal the
    client-side ghost: initial windows + WINDOW_UPDATEs + SETTINGS deltas − DATA received -/
def viewDrift (m : Mon) (impl : String) : Mon :=
  if m.dead then m else
  match impl.splitOn "|" with
  | _ :: c :: ws :: _ =>
    let expC := s!"conn={m.conn}"
    let expW := orDash (",".intercalate ((sortKV m.win).map fun p => s!"{p.1}={p.2}"))
    if c == "dead" then m
    else if c != expC || ws != expW then m.flag "window-view-drift" else m
  | _ => m

def run (op impl : String) : Ans :=
  match (op.splitOn ";").mapM parseOp with
  | none => { model := "bad-op", verdict := "skip" }
  | some ops =>
    let implToks := ((impl.splitOn "|").headD "").splitOn ";"
    let (toks, s) := runModel init 0 ops implToks []
    let model := ";".intercalate toks ++ dump s
    let m := viewDrift (monitor ops implToks) impl
    let m := if impl.startsWith "PANIC" then m.flag "panic" else m
    { model := model
      verdict := match m.fail with | some c => "FAIL:" ++ c | none => "ok"
      tags := m.tags }

end BfeVerif.C34
