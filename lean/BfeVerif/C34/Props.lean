import BfeVerif.C34.Proofs
/-!
  C34 — HTTP/2 outbound DATA respects peer windows and frame order.  Property theorems only.
  `take s o1 o2` is `writeScheduler.take` with the two map-iteration orders `o1`, `o2` as parameters;
  every theorem holds for ALL orders (scheduling choices).
-/
namespace BfeVerif.C34

/-- `flow.add` (fixed) accepts exactly the additions whose true sum fits in int32 and then stores the
    true sum: no spurious FLOW_CONTROL_ERROR for negative windows, no wrap-around. -/
theorem C34_flowAdd_exact (n inc : Int)
    (hn : -2147483648 ≤ n ∧ n ≤ 2147483647) (hi : -2147483648 ≤ inc ∧ inc ≤ 2147483647) :
    flowAdd n inc =
      if -2147483648 ≤ n + inc ∧ n + inc ≤ 2147483647 then some (n + inc) else none := by
  unfold flowAdd wrap32
  simp only []
  split <;> rename_i h
  · have h' : (((n + inc + 2147483648) % 4294967296 - 2147483648 > inc) ↔ (n > 0)) := by
      simpa using h
    split
    · congr 1; omega
    · exfalso; omega
  · have h' : ¬ (((n + inc + 2147483648) % 4294967296 - 2147483648 > inc) ↔ (n > 0)) := by
      simpa using h
    split
    · exfalso; omega
    · rfl

/-- Every DATA frame handed to the writer by `takeFrom` is non-empty only within the stream window,
    the connection window and the peer's maximum frame size — and both windows are debited by exactly
    its length (so they stay ≥ 0). -/
theorem C34_takeFrom_within_window (s : St) (id id' msg off len : Nat) (e d : Bool) (s' : St)
    (h : takeFrom s id = (.data id' msg off len e d, s')) (hl : 0 < len) :
    id' = id ∧ ∃ w, s.streams.lookup id = some w ∧ (len : Int) ≤ w ∧ (len : Int) ≤ s.conn ∧ len ≤ s.mfs ∧
      s'.conn = s.conn - len ∧ s'.streams.lookup id = some (w - len) := by
  cases hq : s.sq.lookup id with
  | none => rw [takeFrom_none s id hq] at h; simp at h
  | some q =>
    match q, hq with
    | [], hq => rw [takeFrom_nil s id hq] at h; simp at h
    | .hdr e0 :: rest, hq => rw [takeFrom_hdr s id e0 rest hq] at h; simp at h
    | .data msg0 off0 len0 e0 :: rest, hq =>
      by_cases hl0 : len0 = 0
      · subst hl0
        rw [takeFrom_zero s id msg0 off0 e0 rest hq] at h
        simp only [Prod.mk.injEq, Out.data.injEq] at h
        omega
      · cases hw : s.streams.lookup id with
        | none => rw [takeFrom_nostream s id msg0 off0 len0 e0 rest hq hw (by omega)] at h; simp at h
        | some w =>
          rw [takeFrom_data s id msg0 off0 len0 e0 rest w hq hw (by omega)] at h
          simp only [] at h
          have hle := allowedOf_le s.mfs (availOf s.conn w)
          have hav := availOf_le s.conn w
          split at h
          · simp at h
          · split at h
            · split at h
              · simp at h
              · simp only [Prod.mk.injEq, Out.data.injEq] at h
                obtain ⟨⟨hid, _, _, hlen, _, _⟩, hs'⟩ := h
                subst hs'
                refine ⟨hid.symm, w, rfl, ?_, ?_, ?_, ?_, ?_⟩
                · omega
                · omega
                · omega
                · simp only [debit]; omega
                · simp only [debit, lookup_setKey, beq_self_eq_true, if_true, Option.some.injEq]; omega
            · simp only [Prod.mk.injEq, Out.data.injEq] at h
              obtain ⟨⟨hid, _, _, hlen, _, _⟩, hs'⟩ := h
              subst hs' hlen
              refine ⟨hid.symm, w, rfl, ?_, ?_, ?_, ?_, ?_⟩
              · omega
              · omega
              · omega
              · unfold shiftQ debit; split <;> simp
              · unfold shiftQ debit; split <;> simp [lookup_setKey]

/-- a frame returned by `take` comes from `takeFrom` on some stream (or is a control frame / nothing) -/
theorem take_cases (s : St) (o1 o2 : List Nat) :
    (∃ w, take s o1 o2 = (.panic w, s)) ∨ (take s o1 o2).1 = .ctl ∨ take s o1 o2 = (.nothing, s) ∨
    ∃ id, take s o1 o2 = takeFrom s id := by
  unfold take
  split
  · exact Or.inl ⟨_, rfl⟩
  · split
    · exact Or.inr (Or.inl rfl)
    · split
      · exact Or.inr (Or.inr (Or.inl rfl))
      · split
        · exact Or.inl ⟨_, rfl⟩
        · exact Or.inr (Or.inr (Or.inr ⟨_, rfl⟩))
        · split
          · exact Or.inr (Or.inr (Or.inl rfl))
          · exact Or.inr (Or.inr (Or.inr ⟨_, rfl⟩))

/-- **C34 (windows)**: whatever the iteration order of the scheduler's map, a DATA frame returned by
    `writeScheduler.take` fits the stream window, the connection window and MAX_FRAME_SIZE as they
    are at that moment, and both windows are debited by its length. -/
theorem C34_within_window (s : St) (o1 o2 : List Nat) (id msg off len : Nat) (e d : Bool) (s' : St)
    (h : take s o1 o2 = (.data id msg off len e d, s')) (hl : 0 < len) :
    ∃ w, s.streams.lookup id = some w ∧ (len : Int) ≤ w ∧ (len : Int) ≤ s.conn ∧ len ≤ s.mfs ∧
      s'.conn = s.conn - len ∧ s'.streams.lookup id = some (w - len) := by
  rcases take_cases s o1 o2 with ⟨w, hp⟩ | hc | hn | ⟨j, hj⟩
  · rw [hp] at h; simp at h
  · rw [h] at hc; simp at hc
  · rw [hn] at h; simp at h
  · rw [hj] at h
    have := C34_takeFrom_within_window s j id msg off len e d s' h hl
    obtain ⟨hid, rest⟩ := this
    subst hid; exact rest

/-- **C34 (order)**: `takeFrom` removes a PREFIX of the stream's pending wire content, leaves the rest
    queued in the same order, and touches no other stream.  A split chunk never carries END_STREAM
    (the `fin` marker stays with the remainder). -/
theorem C34_takeFrom_fifo (s : St) (id : Nat) (o : Out) (s' : St) (h : takeFrom s id = (o, s'))
    (hp : ∀ w, o ≠ .panic w) (hn : o ≠ .nothing) :
    o.stream = some id ∧ pending s id = o.atoms ++ pending s' id ∧
    ∀ j, j ≠ id → pending s' j = pending s j :=
  takeFrom_fifo s id o s' h hp hn

/-- **C34 (no internal panic in takeFrom)**: for a queue that exists, is non-empty and belongs to a
    live stream whose `available()` is not negative, `takeFrom` never reaches `flow.take`'s
    "took too much" panic (its precondition `n ≤ available()` holds by construction) nor a bad slice. -/
theorem C34_takeFrom_no_panic (s : St) (id : Nat) (w0 : Wr) (rest : List Wr) (n : Int)
    (hq : s.sq.lookup id = some (w0 :: rest)) (hs : s.streams.lookup id = some n)
    (hav : 0 ≤ n ∧ 0 ≤ s.conn) :
    ∀ why, (takeFrom s id).1 ≠ .panic why := by
  intro why
  cases w0 with
  | hdr e => rw [takeFrom_hdr s id e rest hq]; simp
  | data msg off len e =>
    by_cases hl0 : len = 0
    · subst hl0; rw [takeFrom_zero s id msg off e rest hq]; simp
    · rw [takeFrom_data s id msg off len e rest n hq hs (by omega)]
      simp only []
      split
      · simp
      · split
        · split
          · rename_i h0 _ hneg
            exfalso
            have := availOf_nonneg s.conn n hav.2 hav.1
            unfold allowedOf at hneg
            split at hneg <;> omega
          · simp
        · simp

theorem takeFrom_stream (s : St) (j : Nat) : (takeFrom s j).1.stream = none ∨ (takeFrom s j).1.stream = some j := by
  by_cases hp : ∃ w, (takeFrom s j).1 = .panic w
  · obtain ⟨w, hw⟩ := hp; left; rw [hw]; rfl
  · by_cases hn : (takeFrom s j).1 = .nothing
    · left; rw [hn]; rfl
    · right
      exact (C34_takeFrom_fifo s j _ _ rfl (fun w hw => hp ⟨w, hw⟩) hn).1

/-- **C34 (nothing after close)**: once `closeStream` has run `forgetStream(id)` — after END_STREAM was
    written, or after a reset — no scheduling order makes `take` return a frame of that stream
    (until the handler queues something new, which `startFrameWrite` then skips/panics on). -/
theorem C34_nothing_after_close (s : St) (id : Nat) (o1 o2 : List Nat) :
    (take (forget s id) o1 o2).1.stream ≠ some id := by
  intro h
  rcases take_cases' (forget s id) o1 o2 with ⟨w, hp⟩ | hc | hn | ⟨j, hq, hj⟩
  · rw [hp] at h; simp [Out.stream] at h
  · rw [hc] at h; simp [Out.stream] at h
  · rw [hn] at h; simp [Out.stream] at h
  · rw [hj] at h
    rcases takeFrom_stream (forget s id) j with h1 | h1
    · rw [h1] at h; simp at h
    · rw [h1] at h
      simp only [Option.some.injEq] at h
      subst h
      simp [forget, lookup_delKey] at hq

/-- a frame with END_STREAM goes through `wroteFrame`, which closes the stream: afterwards neither a
    queue nor the stream is left (whatever was still queued behind it is dropped by `forgetStream`) -/
theorem C34_end_closes (s : St) (id : Nat) :
    (afterEnd s id).sq.lookup id = none ∧ (afterEnd s id).streams.lookup id = none := by
  unfold afterEnd
  split <;> simp [forget, lookup_delKey]

/-- **C34 (per-stream FIFO over whole histories)**: for every sequence of operations (opening streams,
    queueing DATA/HEADERS writes on any stream, control frames, writer chains (takes with ANY
    map-iteration orders, END_STREAM frames of OTHER streams closing them through `wroteFrame`),
    WINDOW_UPDATEs, SETTINGS changes, resets of OTHER streams) during which stream `id` stays open:
    what was pending on `id` before, followed by everything queued on it since, equals everything
    written on it followed by what is still pending — as sequences of octets, HEADERS markers and
    END_STREAM markers.  So the DATA chunks of a stream concatenate to the queued writes in order,
    nothing is duplicated, dropped or reordered, and an END_STREAM marker can only come out after every
    octet queued before it. -/
theorem C34_fifo_trace (id : Nat) (s : St) (msg : Nat) (ops : List Op)
    (h : aliveAfterEach id s msg ops) :
    pending s id ++ (trace id s msg ops).2.2 =
      (trace id s msg ops).2.1 ++ pending (trace id s msg ops).1 id :=
  trace_keeps id ops s msg h

/-- from the moment the stream is opened (nothing pending yet): written ++ still pending = queued -/
theorem C34_fifo_from_open (id : Nat) (s : St) (msg : Nat) (ops : List Op)
    (h0 : s.sq.lookup id = none) (h : aliveAfterEach id s msg ops) :
    (trace id s msg ops).2.1 ++ pending (trace id s msg ops).1 id = (trace id s msg ops).2.2 := by
  have := C34_fifo_trace id s msg ops h
  simpa [pending, h0, qAtoms] using this.symm

/-- ... and the frame that ends the history (possibly the one carrying END_STREAM, after which
    `C34_end_closes` / `C34_nothing_after_close` apply) is the next piece of that same sequence. -/
theorem C34_fifo_last_frame (id : Nat) (s : St) (msg : Nat) (ops : List Op) (o1 o2 : List Nat)
    (h : aliveAfterEach id s msg ops) :
    pending s id ++ (trace id s msg ops).2.2 =
      (trace id s msg ops).2.1 ++ sentBy id (some (take (trace id s msg ops).1 o1 o2).1) ++
        pending (take (trace id s msg ops).1 o1 o2).2 id := by
  rw [C34_fifo_trace id s msg ops h, List.append_assoc, ← take_keeps]

/-- **C34 (the server's view of the send windows = what the client granted)**: run any sequence of
    operations (numbers as the frame parser / `Setting.Valid` allow) while the connection lives —
    including streams reset or ended with DATA still queued (`forgetStream`), refused WINDOW_UPDATEs,
    SETTINGS shrinking windows below zero.  Side by side runs the client-side GHOST, updated only from
    the operations, their verdicts and the frames written: initial windows + WINDOW_UPDATEs + SETTINGS
    deltas − DATA received.  Then `sc.flow.n` equals the ghost connection window, every live stream's
    `flow.n` equals its ghost window (the two maps are equal), `sc.flow.n ≥ 0`, and every counter fits
    int32 (no wrap-around anywhere).  Closing a stream changes neither window: bytes that were queued
    but never written were never charged. -/
theorem C34_view_eq_ghost (ops : List Op) (hok : ∀ op ∈ ops, op.valid) :
    let r := runG init {} 0 ops
    r.1.conn = r.2.conn ∧ r.1.streams = r.2.win ∧ 0 ≤ r.1.conn ∧ I32 r.1.conn ∧ AllR r.1.streams := by
  have h := runG_view ops init {} 0 init_view hok
  exact ⟨h.1, h.2.1, h.2.2.2.1, h.2.2.2.2.1, h.2.2.2.2.2.2.2⟩

/-- with `C34_within_window`: every DATA frame fits the windows the client really granted -/
theorem C34_data_within_granted (ops : List Op) (hok : ∀ op ∈ ops, op.valid) (o1 o2 : List Nat)
    (id msg off len : Nat) (e d : Bool) (s' : St)
    (h : take (runG init {} 0 ops).1 o1 o2 = (.data id msg off len e d, s')) (hl : 0 < len) :
    (len : Int) ≤ (runG init {} 0 ops).2.conn ∧
    ∃ w, (runG init {} 0 ops).2.win.lookup id = some w ∧ (len : Int) ≤ w := by
  have hv := C34_view_eq_ghost ops hok
  simp only [] at hv
  obtain ⟨w, hw, h1, h2, _⟩ := C34_within_window _ o1 o2 id msg off len e d s' h hl
  exact ⟨by rw [← hv.1]; exact h2, w, by rw [← hv.2.1]; exact hw, h1⟩

/-! ### non-vacuity and concrete behaviour (also replayed through the harness: corpus/C34) -/

/-- window 10 left on the stream, 100 bytes queued with END_STREAM: a 10-byte chunk without END_STREAM -/
example :
    (take { init with streams := [(1, 10)], sq := [(1, [.data 0 0 100 true])] } [1] [1]).1
      = .data 1 0 0 10 false false := by decide

/-- the connection window (5) is the tighter one -/
example :
    (take { init with conn := 5, streams := [(1, 10)], sq := [(1, [.data 0 0 100 true])] } [1] [1]).1
      = .data 1 0 0 5 false false := by decide

/-- a two-stream history, from the moment stream 1 is open (stream window 5): 8 octets + END_STREAM are
    queued on stream 1; stream 3's HEADERS go first, then a 5-octet chunk without END_STREAM; 3 octets
    and the END_STREAM marker stay queued -/
def demoStart : St := (trace 1 init 0 [.setIws 5, .openS 1 false]).1
def demoOps : List Op :=
  [.openS 3 true, .addData 1 8 true, .addHdr 3 false, .takeOp [[3, 1]], .takeOp [[1]]]

example : aliveAfterEach 1 demoStart 0 demoOps := by
  simp only [demoOps, aliveAfterEach]; decide

example : (trace 1 demoStart 0 demoOps).2.1 = bytesOf 0 0 5 ∧
    pending (trace 1 demoStart 0 demoOps).1 1 = bytesOf 0 5 3 ++ [Atom.fin] ∧
    (trace 1 demoStart 0 demoOps).2.2 = bytesOf 0 0 8 ++ [Atom.fin] := by decide

/-- a stream is reset while 100000 octets are still queued, another one is ended by END_STREAM with a
    write queued behind it: both windows of the model and of the ghost agree and nothing is refunded -/
def closeOps : List Op :=
  [.openS 1 false, .addData 1 100000 false, .forgetOp 1, .openS 3 true, .addData 3 10 true,
   .addData 3 7 false, .takeOp [[3], []], .takeOp [[]]]

example : (∀ op ∈ closeOps, op.valid) := by simp [closeOps, Op.valid]
example : (runG init {} 0 closeOps).1.conn = 65525 ∧ (runG init {} 0 closeOps).2.conn = 65525 ∧
    (runG init {} 0 closeOps).1.streams = [] ∧ (runG init {} 0 closeOps).1.sq = [] := by decide

/-- a negative stream window (after a SETTINGS shrink) blocks the stream and a later
    WINDOW_UPDATE is honoured (before fix C34-flow-add it was answered with FLOW_CONTROL_ERROR) -/
example : flowAdd (-10) 5 = some (-5) := by decide
example : flowAdd 2147483647 1 = none := by decide

end BfeVerif.C34
