import BfeVerif.C34.Driver
def main : IO Unit := BfeVerif.Proto.driverMain BfeVerif.C34.run
