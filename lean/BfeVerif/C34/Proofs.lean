import BfeVerif.C34.Model
/-! C34 helper lemmas (core only). -/
namespace BfeVerif.C34

theorem lookup_setKey {α : Type} (k j : Nat) (v : α) (l : List (Nat × α)) :
    (setKey k v l).lookup j = if j == k then some v else l.lookup j := by
  induction l with
  | nil => simp [setKey, List.lookup]; split <;> simp_all
  | cons p r ih =>
    obtain ⟨k', v'⟩ := p
    simp only [setKey]
    split <;> simp only [List.lookup_cons, ih] <;> grind

theorem lookup_delKey {α : Type} (k j : Nat) (l : List (Nat × α)) :
    (delKey k l).lookup j = if j == k then none else l.lookup j := by
  induction l with
  | nil => simp [delKey, List.lookup]
  | cons p r ih =>
    obtain ⟨k', v'⟩ := p
    simp only [delKey]
    split <;> simp only [List.lookup_cons, ih] <;> grind

/-! ### what a frame / a queue denotes: the sequence of octets and markers put on the wire -/

inductive Atom where
  | byte (msg idx : Nat)
  | hdr (endS : Bool)
  | fin                       -- END_STREAM flag on a DATA frame
deriving DecidableEq, Repr

def bytesOf (msg off len : Nat) : List Atom := (List.range' off len).map (Atom.byte msg)

def Wr.atoms : Wr → List Atom
  | .data msg off len e => bytesOf msg off len ++ (if e then [Atom.fin] else [])
  | .hdr e => [Atom.hdr e]

def qAtoms (q : List Wr) : List Atom := q.flatMap Wr.atoms

def Out.atoms : Out → List Atom
  | .data _ msg off len e _ => bytesOf msg off len ++ (if e then [Atom.fin] else [])
  | .hdr _ e => [Atom.hdr e]
  | _ => []

def Out.stream : Out → Option Nat
  | .data id .. => some id
  | .hdr id _ => some id
  | _ => none

/-- pending wire content of stream `id` -/
def pending (s : St) (id : Nat) : List Atom := qAtoms ((s.sq.lookup id).getD [])

theorem bytesOf_split (msg off a len : Nat) (h : a ≤ len) :
    bytesOf msg off len = bytesOf msg off a ++ bytesOf msg (off + a) (len - a) := by
  unfold bytesOf
  rw [← List.map_append]
  congr 1
  have : len = a + (len - a) := by omega
  conv => lhs; rw [this]
  rw [List.range'_append_1]

theorem pending_shiftQ_self (s : St) (id : Nat) (rest : List Wr) :
    pending (shiftQ s id rest) id = qAtoms rest := by
  unfold shiftQ pending
  split
  · rename_i h
    simp only [lookup_delKey, beq_self_eq_true, if_true, Option.getD_none]
    have : rest = [] := by simpa using h
    subst this; rfl
  · simp [lookup_setKey]

theorem pending_shiftQ_other (s : St) (id j : Nat) (rest : List Wr) (h : j ≠ id) :
    pending (shiftQ s id rest) j = pending s j := by
  have hj : (j == id) = false := by simp [h]
  unfold shiftQ pending
  split <;> simp [lookup_delKey, lookup_setKey, hj]

theorem flowTake_sq (s s1 : St) (id : Nat) (n : Int) (h : flowTake s id n = some s1) : s1.sq = s.sq := by
  unfold flowTake at h
  split at h
  · split at h
    · simp at h
    · simp at h; subst h; rfl
  · simp at h

theorem allowedOf_le (mfs : Nat) (a0 : Int) : allowedOf mfs a0 ≤ a0 ∧ allowedOf mfs a0 ≤ mfs := by
  unfold allowedOf; split <;> omega

theorem allowedOf_pos (mfs : Nat) (a0 : Int) (hm : 0 < mfs) (ha : 0 < a0) : 0 < allowedOf mfs a0 := by
  unfold allowedOf; split <;> omega

theorem availOf_le (c n : Int) : availOf c n ≤ c ∧ availOf c n ≤ n := by
  unfold availOf; split <;> omega

theorem availOf_nonneg (c n : Int) (hc : 0 ≤ c) (hn : 0 ≤ n) : 0 ≤ availOf c n := by
  unfold availOf; split <;> omega

/-- the state after `flow.take(n)` -/
def debit (s : St) (id : Nat) (w n : Int) : St :=
  { s with conn := s.conn - n, streams := setKey id (w - n) s.streams }

/-- closed form of `takeFrom` on a queue whose head is a non-empty DATA write of a live stream -/
theorem takeFrom_data (s : St) (id msg off len : Nat) (e : Bool) (rest : List Wr) (w : Int)
    (hq : s.sq.lookup id = some (.data msg off len e :: rest)) (hw : s.streams.lookup id = some w)
    (hl : 0 < len) :
    takeFrom s id =
      let a0 : Int := availOf s.conn w
      let al := allowedOf s.mfs a0
      if a0 = 0 then (.nothing, s)
      else if (len : Int) > al then
        (if al < 0 then (.panic "slice bounds", s)
         else (.data id msg off al.toNat false false,
               { debit s id w al with sq := setKey id (.data msg (off + al.toNat) (len - al.toNat) e :: rest) s.sq }))
      else (.data id msg off len e true, shiftQ (debit s id w len) id rest) := by
  have hav : avail s id = some (availOf s.conn w) := by unfold avail; rw [hw]
  have hle := allowedOf_le s.mfs (availOf s.conn w)
  unfold takeFrom
  rw [hq]
  simp only [hl, if_true, hav, beq_iff_eq]
  by_cases h0 : (availOf s.conn w) = 0
  · simp [h0]
  · simp only [h0, if_false]
    by_cases hgt : (len : Int) > allowedOf s.mfs (availOf s.conn w)
    · simp only [hgt, if_true]
      have : ¬ (allowedOf s.mfs (availOf s.conn w) > (availOf s.conn w)) := by omega
      simp only [flowTake, hav, hw, this, if_false, debit]
    · simp only [hgt, if_false]
      have : ¬ ((len : Int) > (availOf s.conn w)) := by omega
      simp only [flowTake, hav, hw, this, if_false, debit]

theorem takeFrom_nostream (s : St) (id msg off len : Nat) (e : Bool) (rest : List Wr)
    (hq : s.sq.lookup id = some (.data msg off len e :: rest)) (hw : s.streams.lookup id = none)
    (hl : 0 < len) : takeFrom s id = (.panic "nil stream", s) := by
  unfold takeFrom
  rw [hq]
  simp [hl, avail, hw]

theorem takeFrom_zero (s : St) (id msg off : Nat) (e : Bool) (rest : List Wr)
    (hq : s.sq.lookup id = some (.data msg off 0 e :: rest)) :
    takeFrom s id = (.data id msg off 0 e true, shiftQ s id rest) := by
  unfold takeFrom
  rw [hq]
  simp

theorem takeFrom_hdr (s : St) (id : Nat) (e : Bool) (rest : List Wr)
    (hq : s.sq.lookup id = some (.hdr e :: rest)) :
    takeFrom s id = (.hdr id e, shiftQ s id rest) := by
  unfold takeFrom
  rw [hq]

theorem takeFrom_none (s : St) (id : Nat) (hq : s.sq.lookup id = none) :
    takeFrom s id = (.panic "no queue", s) := by
  unfold takeFrom
  rw [hq]

theorem takeFrom_nil (s : St) (id : Nat) (hq : s.sq.lookup id = some []) :
    takeFrom s id = (.panic "invalid use of queue", s) := by
  unfold takeFrom
  rw [hq]

theorem takeFrom_fifo (s : St) (id : Nat) (o : Out) (s' : St) (h : takeFrom s id = (o, s'))
    (hp : ∀ w, o ≠ .panic w) (hn : o ≠ .nothing) :
    o.stream = some id ∧ pending s id = o.atoms ++ pending s' id ∧
    ∀ j, j ≠ id → pending s' j = pending s j := by
  cases hq : s.sq.lookup id with
  | none => rw [takeFrom_none s id hq] at h; simp only [Prod.mk.injEq] at h; exact absurd h.1.symm (hp _)
  | some q =>
    match q, hq with
    | [], hq => rw [takeFrom_nil s id hq] at h; simp only [Prod.mk.injEq] at h; exact absurd h.1.symm (hp _)
    | .hdr e0 :: rest, hq =>
      rw [takeFrom_hdr s id e0 rest hq] at h
      simp only [Prod.mk.injEq] at h
      obtain ⟨ho, hs⟩ := h
      subst ho hs
      refine ⟨rfl, ?_, fun j hj => pending_shiftQ_other s id j rest hj⟩
      rw [pending_shiftQ_self]
      unfold pending; rw [hq]; simp [qAtoms, Wr.atoms, Out.atoms]
    | .data msg off len e :: rest, hq =>
      have hpend : pending s id = Wr.atoms (.data msg off len e) ++ qAtoms rest := by
        unfold pending; rw [hq]; simp [qAtoms]
      by_cases hl0 : len = 0
      · subst hl0
        rw [takeFrom_zero s id msg off e rest hq] at h
        simp only [Prod.mk.injEq] at h
        obtain ⟨ho, hs⟩ := h
        subst ho hs
        refine ⟨rfl, ?_, fun j hj => pending_shiftQ_other s id j rest hj⟩
        rw [pending_shiftQ_self, hpend]; simp [Wr.atoms, Out.atoms]
      · cases hw : s.streams.lookup id with
        | none =>
          rw [takeFrom_nostream s id msg off len e rest hq hw (by omega)] at h
          simp only [Prod.mk.injEq] at h; exact absurd h.1.symm (hp _)
        | some w =>
          rw [takeFrom_data s id msg off len e rest w hq hw (by omega)] at h
          simp only [] at h
          split at h
          · simp only [Prod.mk.injEq] at h; exact absurd h.1.symm hn
          · split at h
            · split at h
              · simp only [Prod.mk.injEq] at h; exact absurd h.1.symm (hp _)
              · rename_i hgt hneg
                simp only [Prod.mk.injEq] at h
                obtain ⟨ho, hs⟩ := h
                subst ho hs
                refine ⟨rfl, ?_, ?_⟩
                · rw [hpend]
                  unfold pending
                  simp only [lookup_setKey, beq_self_eq_true, if_true, Option.getD_some]
                  simp only [qAtoms, List.flatMap_cons, Wr.atoms, Out.atoms]
                  rw [bytesOf_split msg off (allowedOf s.mfs (availOf s.conn w)).toNat len
                    (by omega)]
                  simp [List.append_assoc]
                · intro j hj
                  have hjb : (j == id) = false := by simp [hj]
                  unfold pending
                  simp [lookup_setKey, hjb]
            · simp only [Prod.mk.injEq] at h
              obtain ⟨ho, hs⟩ := h
              subst ho hs
              refine ⟨rfl, ?_, ?_⟩
              · rw [pending_shiftQ_self, hpend]; simp [Wr.atoms, Out.atoms]
              · intro j hj
                rw [pending_shiftQ_other _ id j rest hj]
                unfold pending debit; rfl


theorem scan_found (sq : List (Nat × List Wr)) (ord : List Nat) (id : Nat)
    (h : scanNoCost sq ord = .found id) : (sq.lookup id).isSome = true := by
  induction ord with
  | nil => simp [scanNoCost] at h
  | cons a r ih =>
    unfold scanNoCost at h
    split at h
    · exact ih h
    · simp at h
    · rename_i w _ hq
      split at h
      · simp only [Scan.found.injEq] at h; subst h; simp [hq]
      · exact ih h

/-- refinement of `take_cases`: the stream served has a queue -/
theorem take_cases' (s : St) (o1 o2 : List Nat) :
    (∃ w, take s o1 o2 = (.panic w, s)) ∨ (take s o1 o2).1 = .ctl ∨ take s o1 o2 = (.nothing, s) ∨
    ∃ id, (s.sq.lookup id).isSome = true ∧ take s o1 o2 = takeFrom s id := by
  unfold take
  split
  · exact Or.inl ⟨_, rfl⟩
  · split
    · exact Or.inr (Or.inl rfl)
    · split
      · exact Or.inr (Or.inr (Or.inl rfl))
      · split
        · exact Or.inl ⟨_, rfl⟩
        · rename_i id hscan
          exact Or.inr (Or.inr (Or.inr ⟨id, scan_found _ _ _ hscan, rfl⟩))
        · split
          · exact Or.inr (Or.inr (Or.inl rfl))
          · rename_i id rest hf
            have hm : id ∈ o2.filter (fun id => (s.sq.lookup id).isSome && decide (writable s id > 0)) := by
              rw [hf]; simp
            have := (List.mem_filter.mp hm).2
            simp only [Bool.and_eq_true] at this
            exact Or.inr (Or.inr (Or.inr ⟨id, this.1, rfl⟩))


/-! ### trace level: many operations -/

theorem pending_sq (s1 s2 : St) (id : Nat) (h : s1.sq = s2.sq) : pending s1 id = pending s2 id := by
  unfold pending; rw [h]

theorem pending_forget_other (s : St) (j id : Nat) (h : id ≠ j) : pending (forget s j) id = pending s id := by
  have hb : (id == j) = false := by simp [h]
  unfold pending forget; simp [lookup_delKey, hb]

theorem forget_lookup_self (s : St) (id : Nat) : (forget s id).streams.lookup id = none := by
  simp [forget, lookup_delKey]

theorem pending_pushQ (s : St) (i id : Nat) (w : Wr) :
    pending (pushQ s i w) id = if i = id then pending s id ++ w.atoms else pending s id := by
  unfold pushQ pending
  by_cases h : i = id
  · subst h
    split <;> rename_i hq <;> simp [lookup_setKey, hq, qAtoms]
  · have hb : (id == i) = false := by simp [Ne.symm h]
    split <;> simp [lookup_setKey, hb, h]

/-- atoms of stream `id` put on the wire by a frame -/
def sentBy (id : Nat) : Option Out → List Atom
  | some o => if o.stream = some id then o.atoms else []
  | none => []

theorem takeFrom_inert (s : St) (j : Nat) (h : (∃ w, (takeFrom s j).1 = .panic w) ∨ (takeFrom s j).1 = .nothing) :
    (takeFrom s j).2 = s := by
  cases hq : s.sq.lookup j with
  | none => rw [takeFrom_none s j hq]
  | some q =>
    match q, hq with
    | [], hq => rw [takeFrom_nil s j hq]
    | .hdr e0 :: rest, hq => rw [takeFrom_hdr s j e0 rest hq] at h; simp at h
    | .data msg off len e :: rest, hq =>
      by_cases hl0 : len = 0
      · subst hl0; rw [takeFrom_zero s j msg off e rest hq] at h; simp at h
      · cases hw : s.streams.lookup j with
        | none => rw [takeFrom_nostream s j msg off len e rest hq hw (by omega)]
        | some w =>
          rw [takeFrom_data s j msg off len e rest w hq hw (by omega)] at h ⊢
          simp only [] at h ⊢
          split
          · rfl
          · rename_i h0
            simp only [h0, if_false] at h
            split
            · rename_i hgt
              simp only [hgt, if_true] at h
              split
              · rfl
              · rename_i hneg; simp [hneg] at h
            · rename_i hgt; simp [hgt] at h

theorem takeFrom_keeps (s : St) (j id : Nat) :
    pending s id = sentBy id (some (takeFrom s j).1) ++ pending (takeFrom s j).2 id := by
  by_cases hin : (∃ w, (takeFrom s j).1 = .panic w) ∨ (takeFrom s j).1 = .nothing
  · rw [takeFrom_inert s j hin]
    rcases hin with ⟨w, hw⟩ | hn
    · rw [hw]; simp [sentBy, Out.stream]
    · rw [hn]; simp [sentBy, Out.stream]
  · have hp : ∀ w, (takeFrom s j).1 ≠ .panic w := fun w hw => hin (Or.inl ⟨w, hw⟩)
    have hn : (takeFrom s j).1 ≠ .nothing := fun h => hin (Or.inr h)
    obtain ⟨hs, hpre, hoth⟩ := takeFrom_fifo s j (takeFrom s j).1 (takeFrom s j).2 rfl hp hn
    by_cases hji : j = id
    · subst hji; simp [sentBy, hs, hpre]
    · have : ¬ (some j = some id) := by simpa using hji
      simp only [sentBy, hs, this, if_false, List.nil_append]
      exact (hoth id (Ne.symm hji)).symm

theorem take_keeps (s : St) (o1 o2 : List Nat) (id : Nat) :
    pending s id = sentBy id (some (take s o1 o2).1) ++ pending (take s o1 o2).2 id := by
  unfold take
  split
  · simp [sentBy, Out.stream]
  · split
    · simp only [sentBy, Out.stream]
      simp only [reduceCtorEq, if_false, List.nil_append]
      exact pending_sq _ _ id rfl
    · split
      · simp [sentBy, Out.stream]
      · split
        · simp [sentBy, Out.stream]
        · exact takeFrom_keeps s _ id
        · split
          · simp [sentBy, Out.stream]
          · exact takeFrom_keeps s _ id

theorem takeW_keeps (s : St) (o1 o2 : List Nat) (id : Nat)
    (ha : (takeW s o1 o2).2.streams.lookup id ≠ none) :
    pending s id = sentBy id (some (takeW s o1 o2).1) ++ pending (takeW s o1 o2).2 id := by
  have hk := take_keeps s o1 o2 id
  unfold takeW at ha ⊢
  simp only [] at ha ⊢
  split
  · rename_i j hj
    simp only [hj] at ha
    by_cases hji : id = j
    · subst hji; exact absurd (forget_lookup_self _ id) ha
    · simp only []
      rw [pending_forget_other _ j id hji]; exact hk
  · exact hk

/-- what an operation appends to the queue of stream `id` -/
def addedBy (s : St) (msg id : Nat) : Op → List Atom
  | .addData i len e => if i = id ∧ (s.streams.lookup i).isSome then Wr.atoms (.data msg 0 len e) else []
  | .addHdr i e => if i = id ∧ (s.streams.lookup i).isSome then Wr.atoms (.hdr e) else []
  | _ => []

theorem step_keeps (s : St) (msg : Nat) (op : Op) (id : Nat)
    (ha : (step s msg op).2.2.streams.lookup id ≠ none) :
    pending s id ++ addedBy s msg id op =
      sentBy id (step s msg op).2.1 ++ pending (step s msg op).2.2 id := by
  cases op with
  | openS j =>
    simp only [step, addedBy, List.append_nil]
    split
    · simp [sentBy]
    · split <;> simp [sentBy] <;> exact pending_sq _ _ id rfl
  | addData i len e =>
    simp only [step, addedBy]
    by_cases hs : (s.streams.lookup i).isSome = true
    · simp only [hs, if_true, and_true, sentBy, List.nil_append, pending_pushQ]
      split <;> simp
    · simp [hs, sentBy]
  | addHdr i e =>
    simp only [step, addedBy]
    by_cases hs : (s.streams.lookup i).isSome = true
    · simp only [hs, if_true, and_true, sentBy, List.nil_append, pending_pushQ]
      split <;> simp
    · simp [hs, sentBy]
  | addCtl =>
    simp only [step, addedBy, List.append_nil, sentBy, List.nil_append]
    exact pending_sq _ _ id rfl
  | takeOp o1 o2 =>
    simp only [step, addedBy, List.append_nil] at ha ⊢
    exact takeW_keeps s o1 o2 id ha
  | wu j inc =>
    simp only [step, addedBy, List.append_nil] at ha ⊢
    split
    · split <;> simp [sentBy] <;> exact pending_sq _ _ id rfl
    · rename_i hj0
      simp only [hj0, if_false] at ha
      split
      · simp [sentBy]
      · rename_i n hn
        simp only [hn] at ha
        split
        · simp [sentBy]; exact pending_sq _ _ id rfl
        · rename_i hadd
          simp only [hadd] at ha
          by_cases hji : id = j
          · subst hji; exact absurd (forget_lookup_self _ id) ha
          · simp only [sentBy, List.nil_append]
            exact (pending_forget_other s j id hji).symm
  | setIws v =>
    simp only [step, addedBy, List.append_nil]
    split <;> simp [sentBy] <;> exact pending_sq _ _ id rfl
  | setMfs v =>
    simp only [step, addedBy, List.append_nil, sentBy, List.nil_append]
    exact pending_sq _ _ id rfl
  | forgetOp j =>
    simp only [step, addedBy, List.append_nil] at ha ⊢
    split
    · rename_i hex
      simp only [hex, if_true] at ha
      by_cases hji : id = j
      · subst hji; exact absurd (forget_lookup_self _ id) ha
      · simp only [sentBy, List.nil_append]
        exact (pending_forget_other s j id hji).symm
    · simp [sentBy]

def nextMsg (msg : Nat) : Op → Nat
  | .addData .. => msg + 1
  | _ => msg

/-- run a list of operations; collect, for stream `id`, what was put on the wire and what was queued -/
def trace (id : Nat) : St → Nat → List Op → St × List Atom × List Atom
  | s, _, [] => (s, [], [])
  | s, msg, op :: r =>
    let t := trace id (step s msg op).2.2 (nextMsg msg op) r
    (t.1, sentBy id (step s msg op).2.1 ++ t.2.1, addedBy s msg id op ++ t.2.2)

/-- stream `id` is still a stream of the connection after every one of the operations -/
def aliveAfterEach (id : Nat) : St → Nat → List Op → Prop
  | _, _, [] => True
  | s, msg, op :: r =>
    (step s msg op).2.2.streams.lookup id ≠ none ∧ aliveAfterEach id (step s msg op).2.2 (nextMsg msg op) r

theorem trace_keeps (id : Nat) (ops : List Op) : ∀ (s : St) (msg : Nat), aliveAfterEach id s msg ops →
    pending s id ++ (trace id s msg ops).2.2 = (trace id s msg ops).2.1 ++ pending (trace id s msg ops).1 id := by
  induction ops with
  | nil => intro s msg _; simp [trace]
  | cons op r ih =>
    intro s msg h
    obtain ⟨h1, h2⟩ := h
    have hs := step_keeps s msg op id h1
    have hr := ih _ _ h2
    simp only [trace]
    rw [← List.append_assoc, hs, List.append_assoc, hr, List.append_assoc]

end BfeVerif.C34
