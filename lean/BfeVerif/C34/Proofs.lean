import BfeVerif.C34.Model
/-! C34 helper lemmas (core only). -/
namespace BfeVerif.C34

theorem lookup_setKey {α : Type} (k j : Nat) (v : α) (l : List (Nat × α)) :
    (setKey k v l).lookup j = if j == k then some v else l.lookup j := by
  induction l with
  | nil => simp [setKey, List.lookup]; split <;> simp_all
  | cons p r ih =>
    obtain ⟨k', v'⟩ := p
    simp only [setKey]
    split <;> simp only [List.lookup_cons, ih] <;> grind

theorem lookup_delKey {α : Type} (k j : Nat) (l : List (Nat × α)) :
    (delKey k l).lookup j = if j == k then none else l.lookup j := by
  induction l with
  | nil => simp [delKey, List.lookup]
  | cons p r ih =>
    obtain ⟨k', v'⟩ := p
    simp only [delKey]
    split <;> simp only [List.lookup_cons, ih] <;> grind

/-! ### what a frame / a queue denotes: the sequence of octets and markers put on the wire -/

inductive Atom where
  | byte (msg idx : Nat)
  | hdr (endS : Bool)
  | fin                       -- END_STREAM flag on a DATA frame
deriving DecidableEq, Repr

def bytesOf (msg off len : Nat) : List Atom := (List.range' off len).map (Atom.byte msg)

def Wr.atoms : Wr → List Atom
  | .data msg off len e => bytesOf msg off len ++ (if e then [Atom.fin] else [])
  | .hdr e => [Atom.hdr e]

def qAtoms (q : List Wr) : List Atom := q.flatMap Wr.atoms

def Out.atoms : Out → List Atom
  | .data _ msg off len e _ => bytesOf msg off len ++ (if e then [Atom.fin] else [])
  | .hdr _ e => [Atom.hdr e]
  | _ => []

def Out.stream : Out → Option Nat
  | .data id .. => some id
  | .hdr id _ => some id
  | _ => none

/-- pending wire content of stream `id` -/
def pending (s : St) (id : Nat) : List Atom := qAtoms ((s.sq.lookup id).getD [])

theorem bytesOf_split (msg off a len : Nat) (h : a ≤ len) :
    bytesOf msg off len = bytesOf msg off a ++ bytesOf msg (off + a) (len - a) := by
  unfold bytesOf
  rw [← List.map_append]
  congr 1
  have : len = a + (len - a) := by omega
  conv => lhs; rw [this]
  rw [List.range'_append_1]

theorem pending_shiftQ_self (s : St) (id : Nat) (rest : List Wr) :
    pending (shiftQ s id rest) id = qAtoms rest := by
  unfold shiftQ pending
  split
  · rename_i h
    simp only [lookup_delKey, beq_self_eq_true, if_true, Option.getD_none]
    have : rest = [] := by simpa using h
    subst this; rfl
  · simp [lookup_setKey]

theorem pending_shiftQ_other (s : St) (id j : Nat) (rest : List Wr) (h : j ≠ id) :
    pending (shiftQ s id rest) j = pending s j := by
  have hj : (j == id) = false := by simp [h]
  unfold shiftQ pending
  split <;> simp [lookup_delKey, lookup_setKey, hj]

theorem flowTake_sq (s s1 : St) (id : Nat) (n : Int) (h : flowTake s id n = some s1) : s1.sq = s.sq := by
  unfold flowTake at h
  split at h
  · split at h
    · simp at h
    · simp at h; subst h; rfl
  · simp at h

theorem allowedOf_le (mfs : Nat) (a0 : Int) : allowedOf mfs a0 ≤ a0 ∧ allowedOf mfs a0 ≤ mfs := by
  unfold allowedOf; split <;> omega

theorem allowedOf_pos (mfs : Nat) (a0 : Int) (hm : 0 < mfs) (ha : 0 < a0) : 0 < allowedOf mfs a0 := by
  unfold allowedOf; split <;> omega

theorem availOf_le (c n : Int) : availOf c n ≤ c ∧ availOf c n ≤ n := by
  unfold availOf; split <;> omega

theorem availOf_nonneg (c n : Int) (hc : 0 ≤ c) (hn : 0 ≤ n) : 0 ≤ availOf c n := by
  unfold availOf; split <;> omega

/-- the state after `flow.take(n)` -/
def debit (s : St) (id : Nat) (w n : Int) : St :=
  { s with conn := s.conn - n, streams := setKey id (w - n) s.streams }

/-- closed form of `takeFrom` on a queue whose head is a non-empty DATA write of a live stream -/
theorem takeFrom_data (s : St) (id msg off len : Nat) (e : Bool) (rest : List Wr) (w : Int)
    (hq : s.sq.lookup id = some (.data msg off len e :: rest)) (hw : s.streams.lookup id = some w)
    (hl : 0 < len) :
    takeFrom s id =
      let a0 : Int := availOf s.conn w
      let al := allowedOf s.mfs a0
      if a0 = 0 then (.nothing, s)
      else if (len : Int) > al then
        (if al < 0 then (.panic "slice bounds", s)
         else (.data id msg off al.toNat false false,
               { debit s id w al with sq := setKey id (.data msg (off + al.toNat) (len - al.toNat) e :: rest) s.sq }))
      else (.data id msg off len e true, shiftQ (debit s id w len) id rest) := by
  have hav : avail s id = some (availOf s.conn w) := by unfold avail; rw [hw]
  have hle := allowedOf_le s.mfs (availOf s.conn w)
  unfold takeFrom
  rw [hq]
  simp only [hl, if_true, hav, beq_iff_eq]
  by_cases h0 : (availOf s.conn w) = 0
  · simp [h0]
  · simp only [h0, if_false]
    by_cases hgt : (len : Int) > allowedOf s.mfs (availOf s.conn w)
    · simp only [hgt, if_true]
      have : ¬ (allowedOf s.mfs (availOf s.conn w) > (availOf s.conn w)) := by omega
      simp only [flowTake, hav, hw, this, if_false, debit]
    · simp only [hgt, if_false]
      have : ¬ ((len : Int) > (availOf s.conn w)) := by omega
      simp only [flowTake, hav, hw, this, if_false, debit]

theorem takeFrom_nostream (s : St) (id msg off len : Nat) (e : Bool) (rest : List Wr)
    (hq : s.sq.lookup id = some (.data msg off len e :: rest)) (hw : s.streams.lookup id = none)
    (hl : 0 < len) : takeFrom s id = (.panic "nil stream", s) := by
  unfold takeFrom
  rw [hq]
  simp [hl, avail, hw]

theorem takeFrom_zero (s : St) (id msg off : Nat) (e : Bool) (rest : List Wr)
    (hq : s.sq.lookup id = some (.data msg off 0 e :: rest)) :
    takeFrom s id = (.data id msg off 0 e true, shiftQ s id rest) := by
  unfold takeFrom
  rw [hq]
  simp

theorem takeFrom_hdr (s : St) (id : Nat) (e : Bool) (rest : List Wr)
    (hq : s.sq.lookup id = some (.hdr e :: rest)) :
    takeFrom s id = (.hdr id e, shiftQ s id rest) := by
  unfold takeFrom
  rw [hq]

theorem takeFrom_none (s : St) (id : Nat) (hq : s.sq.lookup id = none) :
    takeFrom s id = (.panic "no queue", s) := by
  unfold takeFrom
  rw [hq]

theorem takeFrom_nil (s : St) (id : Nat) (hq : s.sq.lookup id = some []) :
    takeFrom s id = (.panic "invalid use of queue", s) := by
  unfold takeFrom
  rw [hq]

theorem takeFrom_fifo (s : St) (id : Nat) (o : Out) (s' : St) (h : takeFrom s id = (o, s'))
    (hp : ∀ w, o ≠ .panic w) (hn : o ≠ .nothing) :
    o.stream = some id ∧ pending s id = o.atoms ++ pending s' id ∧
    ∀ j, j ≠ id → pending s' j = pending s j := by
  cases hq : s.sq.lookup id with
  | none => rw [takeFrom_none s id hq] at h; simp only [Prod.mk.injEq] at h; exact absurd h.1.symm (hp _)
  | some q =>
    match q, hq with
    | [], hq => rw [takeFrom_nil s id hq] at h; simp only [Prod.mk.injEq] at h; exact absurd h.1.symm (hp _)
    | .hdr e0 :: rest, hq =>
      rw [takeFrom_hdr s id e0 rest hq] at h
      simp only [Prod.mk.injEq] at h
      obtain ⟨ho, hs⟩ := h
      subst ho hs
      refine ⟨rfl, ?_, fun j hj => pending_shiftQ_other s id j rest hj⟩
      rw [pending_shiftQ_self]
      unfold pending; rw [hq]; simp [qAtoms, Wr.atoms, Out.atoms]
    | .data msg off len e :: rest, hq =>
      have hpend : pending s id = Wr.atoms (.data msg off len e) ++ qAtoms rest := by
        unfold pending; rw [hq]; simp [qAtoms]
      by_cases hl0 : len = 0
      · subst hl0
        rw [takeFrom_zero s id msg off e rest hq] at h
        simp only [Prod.mk.injEq] at h
        obtain ⟨ho, hs⟩ := h
        subst ho hs
        refine ⟨rfl, ?_, fun j hj => pending_shiftQ_other s id j rest hj⟩
        rw [pending_shiftQ_self, hpend]; simp [Wr.atoms, Out.atoms]
      · cases hw : s.streams.lookup id with
        | none =>
          rw [takeFrom_nostream s id msg off len e rest hq hw (by omega)] at h
          simp only [Prod.mk.injEq] at h; exact absurd h.1.symm (hp _)
        | some w =>
          rw [takeFrom_data s id msg off len e rest w hq hw (by omega)] at h
          simp only [] at h
          split at h
          · simp only [Prod.mk.injEq] at h; exact absurd h.1.symm hn
          · split at h
            · split at h
              · simp only [Prod.mk.injEq] at h; exact absurd h.1.symm (hp _)
              · rename_i hgt hneg
                simp only [Prod.mk.injEq] at h
                obtain ⟨ho, hs⟩ := h
                subst ho hs
                refine ⟨rfl, ?_, ?_⟩
                · rw [hpend]
                  unfold pending
                  simp only [lookup_setKey, beq_self_eq_true, if_true, Option.getD_some]
                  simp only [qAtoms, List.flatMap_cons, Wr.atoms, Out.atoms]
                  rw [bytesOf_split msg off (allowedOf s.mfs (availOf s.conn w)).toNat len
                    (by omega)]
                  simp [List.append_assoc]
                · intro j hj
                  have hjb : (j == id) = false := by simp [hj]
                  unfold pending
                  simp [lookup_setKey, hjb]
            · simp only [Prod.mk.injEq] at h
              obtain ⟨ho, hs⟩ := h
              subst ho hs
              refine ⟨rfl, ?_, ?_⟩
              · rw [pending_shiftQ_self, hpend]; simp [Wr.atoms, Out.atoms]
              · intro j hj
                rw [pending_shiftQ_other _ id j rest hj]
                unfold pending debit; rfl


theorem scan_found (sq : List (Nat × List Wr)) (ord : List Nat) (id : Nat)
    (h : scanNoCost sq ord = .found id) : (sq.lookup id).isSome = true := by
  induction ord with
  | nil => simp [scanNoCost] at h
  | cons a r ih =>
    unfold scanNoCost at h
    split at h
    · exact ih h
    · simp at h
    · rename_i w _ hq
      split at h
      · simp only [Scan.found.injEq] at h; subst h; simp [hq]
      · exact ih h

/-- refinement of `take_cases`: the stream served has a queue -/
theorem take_cases' (s : St) (o1 o2 : List Nat) :
    (∃ w, take s o1 o2 = (.panic w, s)) ∨ (take s o1 o2).1 = .ctl ∨ take s o1 o2 = (.nothing, s) ∨
    ∃ id, (s.sq.lookup id).isSome = true ∧ take s o1 o2 = takeFrom s id := by
  unfold take
  split
  · exact Or.inl ⟨_, rfl⟩
  · split
    · exact Or.inr (Or.inl rfl)
    · split
      · exact Or.inr (Or.inr (Or.inl rfl))
      · split
        · exact Or.inl ⟨_, rfl⟩
        · rename_i id hscan
          exact Or.inr (Or.inr (Or.inr ⟨id, scan_found _ _ _ hscan, rfl⟩))
        · split
          · exact Or.inr (Or.inr (Or.inl rfl))
          · rename_i id rest hf
            have hm : id ∈ o2.filter (fun id => (s.sq.lookup id).isSome && decide (writable s id > 0)) := by
              rw [hf]; simp
            have := (List.mem_filter.mp hm).2
            simp only [Bool.and_eq_true] at this
            exact Or.inr (Or.inr (Or.inr ⟨id, this.1, rfl⟩))


/-! ### trace level: many operations -/

theorem pending_sq (s1 s2 : St) (id : Nat) (h : s1.sq = s2.sq) : pending s1 id = pending s2 id := by
  unfold pending; rw [h]

theorem pending_forget_other (s : St) (j id : Nat) (h : id ≠ j) : pending (forget s j) id = pending s id := by
  have hb : (id == j) = false := by simp [h]
  unfold pending forget; simp [lookup_delKey, hb]

theorem forget_lookup_self (s : St) (id : Nat) : (forget s id).streams.lookup id = none := by
  simp [forget, lookup_delKey]

theorem pending_pushQ (s : St) (i id : Nat) (w : Wr) :
    pending (pushQ s i w) id = if i = id then pending s id ++ w.atoms else pending s id := by
  unfold pushQ pending
  by_cases h : i = id
  · subst h
    split <;> rename_i hq <;> simp [lookup_setKey, hq, qAtoms]
  · have hb : (id == i) = false := by simp [Ne.symm h]
    split <;> simp [lookup_setKey, hb, h]

/-- atoms of stream `id` put on the wire by a frame -/
def sentBy (id : Nat) : Option Out → List Atom
  | some o => if o.stream = some id then o.atoms else []
  | none => []

theorem takeFrom_inert (s : St) (j : Nat) (h : (∃ w, (takeFrom s j).1 = .panic w) ∨ (takeFrom s j).1 = .nothing) :
    (takeFrom s j).2 = s := by
  cases hq : s.sq.lookup j with
  | none => rw [takeFrom_none s j hq]
  | some q =>
    match q, hq with
    | [], hq => rw [takeFrom_nil s j hq]
    | .hdr e0 :: rest, hq => rw [takeFrom_hdr s j e0 rest hq] at h; simp at h
    | .data msg off len e :: rest, hq =>
      by_cases hl0 : len = 0
      · subst hl0; rw [takeFrom_zero s j msg off e rest hq] at h; simp at h
      · cases hw : s.streams.lookup j with
        | none => rw [takeFrom_nostream s j msg off len e rest hq hw (by omega)]
        | some w =>
          rw [takeFrom_data s j msg off len e rest w hq hw (by omega)] at h ⊢
          simp only [] at h ⊢
          split
          · rfl
          · rename_i h0
            simp only [h0, if_false] at h
            split
            · rename_i hgt
              simp only [hgt, if_true] at h
              split
              · rfl
              · rename_i hneg; simp [hneg] at h
            · rename_i hgt; simp [hgt] at h

theorem takeFrom_keeps (s : St) (j id : Nat) :
    pending s id = sentBy id (some (takeFrom s j).1) ++ pending (takeFrom s j).2 id := by
  by_cases hin : (∃ w, (takeFrom s j).1 = .panic w) ∨ (takeFrom s j).1 = .nothing
  · rw [takeFrom_inert s j hin]
    rcases hin with ⟨w, hw⟩ | hn
    · rw [hw]; simp [sentBy, Out.stream]
    · rw [hn]; simp [sentBy, Out.stream]
  · have hp : ∀ w, (takeFrom s j).1 ≠ .panic w := fun w hw => hin (Or.inl ⟨w, hw⟩)
    have hn : (takeFrom s j).1 ≠ .nothing := fun h => hin (Or.inr h)
    obtain ⟨hs, hpre, hoth⟩ := takeFrom_fifo s j (takeFrom s j).1 (takeFrom s j).2 rfl hp hn
    by_cases hji : j = id
    · subst hji; simp [sentBy, hs, hpre]
    · have : ¬ (some j = some id) := by simpa using hji
      simp only [sentBy, hs, this, if_false, List.nil_append]
      exact (hoth id (Ne.symm hji)).symm

theorem take_keeps (s : St) (o1 o2 : List Nat) (id : Nat) :
    pending s id = sentBy id (some (take s o1 o2).1) ++ pending (take s o1 o2).2 id := by
  unfold take
  split
  · simp [sentBy, Out.stream]
  · split
    · simp only [sentBy, Out.stream]
      simp only [reduceCtorEq, if_false, List.nil_append]
      exact pending_sq _ _ id rfl
    · split
      · simp [sentBy, Out.stream]
      · split
        · simp [sentBy, Out.stream]
        · exact takeFrom_keeps s _ id
        · split
          · simp [sentBy, Out.stream]
          · exact takeFrom_keeps s _ id

def sentByL (id : Nat) (l : List Out) : List Atom := l.flatMap fun o => sentBy id (some o)

theorem pending_afterEnd_other (s : St) (j id : Nat) (h : id ≠ j) : pending (afterEnd s j) id = pending s id := by
  unfold afterEnd
  split
  · exact pending_forget_other s j id h
  · rw [pending_forget_other _ j id h]; exact pending_sq _ _ id rfl

theorem takeChain_keeps (id : Nat) : ∀ (fuel : Nat) (s : St) (ords : List (List Nat)),
    (∀ o ∈ (takeChain fuel s ords).1, o.ends ≠ some id) →
    pending s id = sentByL id (takeChain fuel s ords).1 ++ pending (takeChain fuel s ords).2 id := by
  intro fuel
  induction fuel with
  | zero => intro s ords _; simp [takeChain, sentByL]
  | succ n ih =>
    intro s ords h
    have hk := take_keeps s (ords.headD []) (ords.headD []) id
    simp only [takeChain] at h ⊢
    split
    · rename_i j hj
      simp only [hj] at h
      have hne : id ≠ j := by
        intro e; subst e
        exact h _ (List.mem_cons_self) hj
      have hrest := ih (afterEnd (take s (ords.headD []) (ords.headD [])).2 j) ords.tail
        (fun o ho => h o (List.mem_cons_of_mem _ ho))
      rw [pending_afterEnd_other _ j id hne] at hrest
      simp only [sentByL, List.flatMap_cons] at hrest ⊢
      rw [List.append_assoc, ← hrest]; exact hk
    · split
      · rename_i hno
        have : (take s (ords.headD []) (ords.headD [])).1 = .nothing := by simpa using hno
        rw [this] at hk
        simpa [sentByL, sentBy, Out.stream] using hk
      · simpa [sentByL] using hk

/-- what an operation appends to the queue of stream `id` -/
def addedBy (s : St) (msg id : Nat) : Op → List Atom
  | .addData i len e => if i = id ∧ (s.streams.lookup i).isSome then Wr.atoms (.data msg 0 len e) else []
  | .addHdr i e => if i = id ∧ (s.streams.lookup i).isSome then Wr.atoms (.hdr e) else []
  | _ => []

theorem step_keeps (s : St) (msg : Nat) (op : Op) (id : Nat)
    (ha : (step s msg op).2.2.streams.lookup id ≠ none)
    (he : ∀ o ∈ (step s msg op).2.1, o.ends ≠ some id) :
    pending s id ++ addedBy s msg id op =
      sentByL id (step s msg op).2.1 ++ pending (step s msg op).2.2 id := by
  cases op with
  | openS j hh =>
    simp only [step, addedBy, List.append_nil]
    split
    · simp [sentByL]
    · split <;> simp [sentByL] <;> exact pending_sq _ _ id rfl
  | addData i len e =>
    simp only [step, addedBy]
    by_cases hs : (s.streams.lookup i).isSome = true
    · simp only [hs, if_true, and_true, sentByL, List.flatMap_nil, List.nil_append, pending_pushQ]
      split <;> simp
    · simp [hs, sentByL]
  | addHdr i e =>
    simp only [step, addedBy]
    by_cases hs : (s.streams.lookup i).isSome = true
    · simp only [hs, if_true, and_true, sentByL, List.flatMap_nil, List.nil_append, pending_pushQ]
      split <;> simp
    · simp [hs, sentByL]
  | addCtl =>
    simp only [step, addedBy, List.append_nil, sentByL, List.flatMap_nil, List.nil_append]
    exact pending_sq _ _ id rfl
  | takeOp ords =>
    simp only [step, addedBy, List.append_nil] at he ⊢
    exact takeChain_keeps id _ s ords he
  | wu j inc =>
    simp only [step, addedBy, List.append_nil] at ha ⊢
    split
    · split <;> simp [sentByL] <;> exact pending_sq _ _ id rfl
    · rename_i hj0
      simp only [hj0, if_false] at ha
      split
      · simp [sentByL]
      · rename_i n hn
        simp only [hn] at ha
        split
        · simp [sentByL]; exact pending_sq _ _ id rfl
        · rename_i hadd
          simp only [hadd] at ha
          by_cases hji : id = j
          · subst hji; exact absurd (forget_lookup_self _ id) ha
          · simp only [sentByL, List.flatMap_nil, List.nil_append]
            rw [pending_forget_other _ j id hji]; exact pending_sq _ _ id rfl
  | setIws v =>
    simp only [step, addedBy, List.append_nil]
    split <;> simp [sentByL] <;> exact pending_sq _ _ id rfl
  | setMfs v =>
    simp only [step, addedBy, List.append_nil, sentByL, List.flatMap_nil, List.nil_append]
    exact pending_sq _ _ id rfl
  | forgetOp j =>
    simp only [step, addedBy, List.append_nil] at ha ⊢
    split
    · rename_i hex
      simp only [hex, if_true] at ha
      by_cases hji : id = j
      · subst hji; exact absurd (forget_lookup_self _ id) ha
      · simp only [sentByL, List.flatMap_nil, List.nil_append]
        exact (pending_forget_other s j id hji).symm
    · simp [sentByL]

def nextMsg (msg : Nat) : Op → Nat
  | .addData .. => msg + 1
  | _ => msg

/-- run a list of operations; collect, for stream `id`, what was put on the wire and what was queued -/
def trace (id : Nat) : St → Nat → List Op → St × List Atom × List Atom
  | s, _, [] => (s, [], [])
  | s, msg, op :: r =>
    let t := trace id (step s msg op).2.2 (nextMsg msg op) r
    (t.1, sentByL id (step s msg op).2.1 ++ t.2.1, addedBy s msg id op ++ t.2.2)

/-- stream `id` is still a stream of the connection after every one of the operations, and none of
    the frames written so far carried its END_STREAM -/
def aliveAfterEach (id : Nat) : St → Nat → List Op → Prop
  | _, _, [] => True
  | s, msg, op :: r =>
    (step s msg op).2.2.streams.lookup id ≠ none ∧ (∀ o ∈ (step s msg op).2.1, o.ends ≠ some id) ∧
    aliveAfterEach id (step s msg op).2.2 (nextMsg msg op) r

theorem trace_keeps (id : Nat) (ops : List Op) : ∀ (s : St) (msg : Nat), aliveAfterEach id s msg ops →
    pending s id ++ (trace id s msg ops).2.2 = (trace id s msg ops).2.1 ++ pending (trace id s msg ops).1 id := by
  induction ops with
  | nil => intro s msg _; simp [trace]
  | cons op r ih =>
    intro s msg h
    obtain ⟨h1, h1', h2⟩ := h
    have hs := step_keeps s msg op id h1 h1'
    have hr := ih _ _ h2
    simp only [trace]
    rw [← List.append_assoc, hs, List.append_assoc, hr, List.append_assoc]

/-! ### the client-side ghost of the send windows -/

/-- what the CLIENT knows it has granted: initial windows + WINDOW_UPDATEs + SETTINGS deltas − DATA
    received.  Updated only from the operations, their accept/refuse verdicts and the frames written. -/
structure Ghost where
  conn : Int := 65535
  win : List (Nat × Int) := []
  iws : Int := 65535
deriving Repr

def ghostFrame (g : Ghost) : Out → Ghost
  | .data id _ _ len _ _ =>
    if len = 0 then g else
    match g.win.lookup id with
    | some w => { g with conn := g.conn - len, win := setKey id (w - len) g.win }
    | none => { g with conn := g.conn - len }
  | _ => g

/-- a frame with END_STREAM ends the stream: its window is forgotten -/
def ghostEnds (g : Ghost) (o : Out) : Ghost :=
  match o.ends with
  | some id => { g with win := delKey id g.win }
  | none => g

def ghostChain (g : Ghost) (l : List Out) : Ghost := l.foldl (fun g o => ghostEnds (ghostFrame g o) o) g

def ghostStep (g : Ghost) (op : Op) (tok : String) (outs : List Out) : Ghost :=
  match op with
  | .openS id _ => if tok == "+" then { g with win := setKey id g.iws g.win } else g
  | .takeOp _ => ghostChain g outs
  | .wu id inc =>
    if tok == "ok" then
      if id == 0 then { g with conn := g.conn + inc }
      else match g.win.lookup id with
        | some w => { g with win := setKey id (w + inc) g.win }
        | none => g
    else if tok == "rst" then { g with win := delKey id g.win }
    else g
  | .setIws v =>
    if tok == "ok" then { g with iws := v, win := g.win.map fun p => (p.1, p.2 + ((v : Int) - g.iws)) } else g
  | .forgetOp id => if tok == "+" then { g with win := delKey id g.win } else g
  | _ => g

def I32 (x : Int) : Prop := -2147483648 ≤ x ∧ x ≤ 2147483647

def AllR (l : List (Nat × Int)) : Prop := ∀ p ∈ l, I32 p.2

/-- the server's view of every send window equals the ghost (and everything fits int32) -/
def View (s : St) (g : Ghost) : Prop :=
  s.conn = g.conn ∧ s.streams = g.win ∧ s.iws = g.iws ∧ 0 ≤ s.conn ∧ I32 s.conn ∧ 0 ≤ s.iws ∧ I32 s.iws ∧
  AllR s.streams

theorem mem_setKey {α : Type} (k : Nat) (v : α) (l : List (Nat × α)) (p : Nat × α)
    (h : p ∈ setKey k v l) : p = (k, v) ∨ p ∈ l := by
  induction l with
  | nil => simp [setKey] at h; exact Or.inl h
  | cons q r ih =>
    obtain ⟨k', v'⟩ := q
    simp only [setKey] at h
    split at h
    · simp at h; rcases h with h | h
      · exact Or.inl h
      · exact Or.inr (by simp [h])
    · simp at h; rcases h with h | h
      · exact Or.inr (by simp [h])
      · rcases ih h with h' | h'
        · exact Or.inl h'
        · exact Or.inr (by simp [h'])

theorem mem_delKey {α : Type} (k : Nat) (l : List (Nat × α)) (p : Nat × α)
    (h : p ∈ delKey k l) : p ∈ l := by
  induction l with
  | nil => simp [delKey] at h
  | cons q r ih =>
    obtain ⟨k', v'⟩ := q
    simp only [delKey] at h
    split at h
    · exact List.mem_cons_of_mem _ (ih h)
    · simp at h; rcases h with h | h
      · simp [h]
      · exact List.mem_cons_of_mem _ (ih h)

theorem allR_setKey (k : Nat) (v : Int) (l : List (Nat × Int)) (h : AllR l) (hv : I32 v) :
    AllR (setKey k v l) := by
  intro p hp
  rcases mem_setKey k v l p hp with e | e
  · subst e; exact hv
  · exact h p e

theorem allR_delKey (k : Nat) (l : List (Nat × Int)) (h : AllR l) : AllR (delKey k l) :=
  fun p hp => h p (mem_delKey k l p hp)

theorem lookup_mem (l : List (Nat × Int)) (k : Nat) (v : Int) (h : l.lookup k = some v) : (k, v) ∈ l := by
  induction l with
  | nil => simp at h
  | cons q r ih =>
    obtain ⟨k', v'⟩ := q
    simp only [List.lookup_cons] at h
    split at h
    · rename_i hk; simp at h; have : k = k' := by simpa using hk
      subst this; subst h; simp
    · exact List.mem_cons_of_mem _ (ih h)

theorem flowAdd_some (n inc r : Int) (hn : I32 n) (hi : I32 inc) (h : flowAdd n inc = some r) :
    r = n + inc ∧ I32 r := by
  unfold I32 at *
  unfold flowAdd wrap32 at h
  simp only [] at h
  split at h
  · rename_i hc
    have h' : (((n + inc + 2147483648) % 4294967296 - 2147483648 > inc) ↔ (n > 0)) := by simpa using hc
    simp only [Option.some.injEq] at h
    subst h
    constructor <;> omega
  · simp at h

theorem growAll_some (g : Int) (hg : I32 g) : ∀ (l l' : List (Nat × Int)), AllR l → growAll g l = some l' →
    l' = l.map (fun p => (p.1, p.2 + g)) ∧ AllR l' := by
  intro l
  induction l with
  | nil => intro l' _ h; simp [growAll] at h; subst h; exact ⟨rfl, fun p hp => by simp at hp⟩
  | cons q r ih =>
    obtain ⟨id, n⟩ := q
    intro l' hr h
    simp only [growAll] at h
    split at h
    · rename_i n' r' hn' hr'
      simp at h; subst h
      have hq : I32 n := hr (id, n) (by simp)
      have := flowAdd_some n g n' hq hg hn'
      have ht := ih r' (fun p hp => hr p (List.mem_cons_of_mem _ hp)) hr'
      refine ⟨by simp [this.1, ht.1], ?_⟩
      intro p hp
      simp at hp
      rcases hp with e | e
      · subst e; exact this.2
      · exact ht.2 p e
    · simp at h

theorem setKey_same (l : List (Nat × Int)) (k : Nat) (v : Int) (h : l.lookup k = some v) : setKey k v l = l := by
  induction l with
  | nil => simp at h
  | cons q r ih =>
    obtain ⟨k', v'⟩ := q
    simp only [List.lookup_cons] at h
    simp only [setKey]
    split at h
    · rename_i hk
      have hk' : k = k' := by simpa using hk
      subst hk'
      simp at h; subst h; simp
    · rename_i hk
      have hk' : (k' == k) = false := by
        have : ¬ (k = k') := by simpa using hk
        simp; exact fun e => this e.symm
      simp only [hk']
      rw [ih h]; rfl

/-- effect of handing frame `o` to the writer on the send windows -/
def WinEff (s : St) (o : Out) (s' : St) : Prop :=
  s'.iws = s.iws ∧
  match o with
  | .data id _ _ len _ _ =>
    if len = 0 then s'.conn = s.conn ∧ s'.streams = s.streams
    else ∃ w, s.streams.lookup id = some w ∧ (len : Int) ≤ w ∧ (len : Int) ≤ s.conn ∧
      s'.conn = s.conn - len ∧ s'.streams = setKey id (w - len) s.streams
  | _ => s'.conn = s.conn ∧ s'.streams = s.streams

theorem shiftQ_win (s : St) (id : Nat) (rest : List Wr) :
    (shiftQ s id rest).conn = s.conn ∧ (shiftQ s id rest).streams = s.streams ∧ (shiftQ s id rest).iws = s.iws := by
  unfold shiftQ; split <;> exact ⟨rfl, rfl, rfl⟩

theorem takeFrom_winEff (s : St) (j : Nat) : WinEff s (takeFrom s j).1 (takeFrom s j).2 := by
  cases hq : s.sq.lookup j with
  | none => rw [takeFrom_none s j hq]; exact ⟨rfl, rfl, rfl⟩
  | some q =>
    match q, hq with
    | [], hq => rw [takeFrom_nil s j hq]; exact ⟨rfl, rfl, rfl⟩
    | .hdr e0 :: rest, hq =>
      rw [takeFrom_hdr s j e0 rest hq]
      have := shiftQ_win s j rest
      exact ⟨this.2.2, this.1, this.2.1⟩
    | .data msg off len e :: rest, hq =>
      by_cases hl0 : len = 0
      · subst hl0
        rw [takeFrom_zero s j msg off e rest hq]
        have := shiftQ_win s j rest
        exact ⟨this.2.2, by simp [this.1, this.2.1]⟩
      · cases hw : s.streams.lookup j with
        | none => rw [takeFrom_nostream s j msg off len e rest hq hw (by omega)]; exact ⟨rfl, rfl, rfl⟩
        | some w =>
          rw [takeFrom_data s j msg off len e rest w hq hw (by omega)]
          simp only []
          have hle := allowedOf_le s.mfs (availOf s.conn w)
          have hav := availOf_le s.conn w
          split
          · exact ⟨rfl, rfl, rfl⟩
          · split
            · split
              · exact ⟨rfl, rfl, rfl⟩
              · rename_i hgt hneg
                refine ⟨rfl, ?_⟩
                simp only []
                have hpos : (allowedOf s.mfs (availOf s.conn w)).toNat ≠ 0 ∨ (allowedOf s.mfs (availOf s.conn w)).toNat = 0 := by omega
                by_cases hz : (allowedOf s.mfs (availOf s.conn w)).toNat = 0
                · -- allowed = 0 would mean available = 0 (excluded) or maxFrameSize = 0: then nothing moves
                  simp only [hz, if_true]
                  have h0 : allowedOf s.mfs (availOf s.conn w) = 0 := by omega
                  refine ⟨by simp [debit, h0], ?_⟩
                  simp only [debit, h0, Int.sub_zero]
                  exact setKey_same _ _ _ hw
                · simp only [hz, if_false]
                  have hcast : ((allowedOf s.mfs (availOf s.conn w)).toNat : Int) = allowedOf s.mfs (availOf s.conn w) := by omega
                  refine ⟨w, hw, by omega, by omega, ?_, ?_⟩
                  · simp only [debit]; omega
                  · simp only [debit, hcast]
            · have := shiftQ_win (debit s j w len) j rest
              refine ⟨this.2.2, ?_⟩
              simp only [hl0, if_false]
              refine ⟨w, hw, by omega, by omega, ?_, ?_⟩
              · rw [this.1]; rfl
              · rw [this.2.1]; rfl

theorem take_winEff (s : St) (o1 o2 : List Nat) : WinEff s (take s o1 o2).1 (take s o1 o2).2 := by
  unfold take
  split
  · exact ⟨rfl, rfl, rfl⟩
  · split
    · exact ⟨rfl, rfl, rfl⟩
    · split
      · exact ⟨rfl, rfl, rfl⟩
      · split
        · exact ⟨rfl, rfl, rfl⟩
        · exact takeFrom_winEff s _
        · split
          · exact ⟨rfl, rfl, rfl⟩
          · exact takeFrom_winEff s _

theorem view_same (s s' : St) (g : Ghost) (hv : View s g) (h1 : s'.conn = s.conn)
    (h2 : s'.streams = s.streams) (h3 : s'.iws = s.iws) : View s' g := by
  unfold View at *
  rw [h1, h2, h3]; exact hv

theorem view_frame (s s' : St) (g : Ghost) (o : Out) (hv : View s g) (he : WinEff s o s') :
    View s' (ghostFrame g o) := by
  obtain ⟨hiws, heff⟩ := he
  cases o with
  | data id msg off len e d =>
    simp only [] at heff
    unfold ghostFrame
    split at heff
    · rename_i hl; simp only [hl, if_true]
      exact view_same s s' g hv heff.1 heff.2 hiws
    · rename_i hl
      obtain ⟨hc, hs, hi, hc0, hcr, hi0, hir, hall⟩ := hv
      obtain ⟨w, hw, hlw, hlc, hconn, hstr⟩ := heff
      have hwr : I32 w := hall (id, w) (lookup_mem _ _ _ hw)
      simp only [hl, if_false, ← hs, hw]
      unfold View
      simp only []
      unfold I32 at *
      refine ⟨?_, ?_, ?_, ?_, ?_, ?_, ?_, ?_⟩
      · omega
      · rw [hstr]
      · rw [hiws, hi]
      · omega
      · omega
      · rw [hiws]; exact hi0
      · rw [hiws]; exact hir
      · rw [hstr]; exact allR_setKey _ _ _ hall (by unfold I32; omega)
  | nothing => exact view_same s s' g hv heff.1 heff.2 hiws
  | ctl => exact view_same s s' g hv heff.1 heff.2 hiws
  | hdr id e => exact view_same s s' g hv heff.1 heff.2 hiws
  | panic w => exact view_same s s' g hv heff.1 heff.2 hiws

theorem view_forget (s : St) (g : Ghost) (id : Nat) (hv : View s g) :
    View (forget s id) { g with win := delKey id g.win } := by
  obtain ⟨hc, hs, hi, hc0, hcr, hi0, hir, hall⟩ := hv
  exact ⟨hc, by simp [forget, hs], hi, hc0, hcr, hi0, hir, allR_delKey _ _ hall⟩

theorem view_zero (s : St) (g : Ghost) (z : Nat) (hv : View s g) : View { s with zero := z } g := hv

theorem view_afterEnd (s : St) (g : Ghost) (id : Nat) (hv : View s g) :
    View (afterEnd s id) { g with win := delKey id g.win } := by
  unfold afterEnd
  split
  · exact view_forget s g id hv
  · exact view_forget _ g id (view_zero s g _ hv)

theorem view_chain : ∀ (fuel : Nat) (s : St) (g : Ghost) (ords : List (List Nat)), View s g →
    View (takeChain fuel s ords).2 (ghostChain g (takeChain fuel s ords).1) := by
  intro fuel
  induction fuel with
  | zero => intro s g ords hv; simpa [takeChain, ghostChain] using hv
  | succ n ih =>
    intro s g ords hv
    have hf := view_frame s _ g _ hv (take_winEff s (ords.headD []) (ords.headD []))
    simp only [takeChain]
    split
    · rename_i j hj
      have h2 := view_afterEnd _ _ j hf
      have h3 := ih _ _ ords.tail h2
      simp only [ghostChain, List.foldl_cons, ghostEnds, hj]
      exact h3
    · rename_i hj
      split
      · rename_i hno
        have : (take s (ords.headD []) (ords.headD [])).1 = .nothing := by simpa using hno
        rw [this] at hf
        simpa [ghostChain, ghostFrame] using hf
      · simp only [ghostChain, List.foldl_cons, List.foldl_nil, ghostEnds, hj]
        exact hf

/-- what the frame parser / `Setting.Valid` guarantee about the numbers in client frames -/
def Op.valid : Op → Prop
  | .wu _ inc => inc ≤ 2147483647
  | .setIws v => v ≤ 2147483647
  | _ => True

theorem pushQ_win (s : St) (i : Nat) (w : Wr) :
    (pushQ s i w).conn = s.conn ∧ (pushQ s i w).streams = s.streams ∧ (pushQ s i w).iws = s.iws := by
  unfold pushQ; split <;> exact ⟨rfl, rfl, rfl⟩

theorem step_view (s : St) (g : Ghost) (msg : Nat) (op : Op) (hv : View s g) (hok : op.valid)
    (hd : (step s msg op).2.2.dead = false) :
    View (step s msg op).2.2 (ghostStep g op (step s msg op).1 (step s msg op).2.1) := by
  cases op with
  | openS id h =>
    simp only [step]
    split
    · exact hv
    · obtain ⟨hc, hs, hi, hc0, hcr, hi0, hir, hall⟩ := hv
      split
      · rename_i n hn
        have := flowAdd_some 0 s.iws n (by unfold I32; omega) hir hn
        simp only [ghostStep, beq_self_eq_true, if_true]
        refine ⟨hc, ?_, hi, hc0, hcr, hi0, hir, allR_setKey _ _ _ hall this.2⟩
        simp only []
        rw [this.1, hs, hi]; simp
      · exact ⟨hc, hs, hi, hc0, hcr, hi0, hir, hall⟩
  | addData i len e =>
    simp only [step]
    split
    · have := pushQ_win s i (.data msg 0 len e)
      exact view_same s _ g hv this.1 this.2.1 this.2.2
    · exact hv
  | addHdr i e =>
    simp only [step]
    split
    · have := pushQ_win s i (.hdr e)
      exact view_same s _ g hv this.1 this.2.1 this.2.2
    · exact hv
  | addCtl => exact hv
  | takeOp ords => exact view_chain _ s g ords hv
  | wu id inc =>
    have hinc : I32 (inc : Int) := by simp only [Op.valid] at hok; unfold I32; omega
    obtain ⟨hc, hs, hi, hc0, hcr, hi0, hir, hall⟩ := hv
    simp only [step] at hd ⊢
    split
    · rename_i h0
      simp only [h0, if_true] at hd
      split
      · rename_i n hn
        have := flowAdd_some s.conn inc n hcr hinc hn
        have hg : ghostStep g (.wu id inc) "ok" [] = { g with conn := g.conn + inc } := by
          simp [ghostStep, h0]
        rw [hg]
        unfold I32 at *
        refine ⟨?_, hs, hi, ?_, ?_, hi0, hir, hall⟩
        · show n = g.conn + inc
          omega
        · show 0 ≤ n
          omega
        · show -2147483648 ≤ n ∧ n ≤ 2147483647
          omega
      · rename_i hn; simp [hn] at hd
    · rename_i h0
      split
      · rename_i hl
        have e1 : ("nostream" == "ok") = false := by decide
        have e2 : ("nostream" == "rst") = false := by decide
        simp only [ghostStep, e1, e2]
        exact ⟨hc, hs, hi, hc0, hcr, hi0, hir, hall⟩
      · rename_i n hl
        have hn : I32 n := hall (id, n) (lookup_mem _ _ _ hl)
        split
        · rename_i n' hadd
          have := flowAdd_some n inc n' hn hinc hadd
          have hg : ghostStep g (.wu id inc) "ok" [] = { g with win := setKey id (n + inc) g.win } := by
            simp [ghostStep, h0, ← hs, hl]
          rw [hg]
          refine ⟨hc, ?_, hi, hc0, hcr, hi0, hir, allR_setKey _ _ _ hall this.2⟩
          show setKey id n' s.streams = setKey id (n + inc) g.win
          rw [this.1, hs]
        · have e1 : ("rst" == "ok") = false := by decide
          simp only [ghostStep, e1, beq_self_eq_true, if_true]
          exact view_forget _ g id (view_zero s g _ ⟨hc, hs, hi, hc0, hcr, hi0, hir, hall⟩)
  | setIws v =>
    have hvr : (v : Int) ≤ 2147483647 := by simp only [Op.valid] at hok; omega
    obtain ⟨hc, hs, hi, hc0, hcr, hi0, hir, hall⟩ := hv
    simp only [step] at hd ⊢
    split
    · rename_i st' hg
      have hgr : I32 ((v : Int) - s.iws) := by unfold I32 at *; omega
      have := growAll_some _ hgr s.streams st' hall hg
      simp only [ghostStep, beq_self_eq_true, if_true]
      refine ⟨hc, ?_, rfl, hc0, hcr, by simp only []; omega, by unfold I32; simp only []; omega, this.2⟩
      simp only []
      rw [this.1, hs, hi]
    · rename_i hg; simp [hg] at hd
  | setMfs v => exact hv
  | forgetOp id =>
    simp only [step]
    split
    · simp only [ghostStep, beq_self_eq_true, if_true]
      exact view_forget s g id hv
    · exact hv

/-- run the operations and the ghost side by side, as long as the connection lives -/
def runG : St → Ghost → Nat → List Op → St × Ghost
  | s, g, _, [] => (s, g)
  | s, g, msg, op :: r =>
    let t := step s msg op
    if t.2.2.dead then (s, g) else runG t.2.2 (ghostStep g op t.1 t.2.1) (nextMsg msg op) r

theorem runG_view (ops : List Op) : ∀ (s : St) (g : Ghost) (msg : Nat), View s g →
    (∀ op ∈ ops, op.valid) → View (runG s g msg ops).1 (runG s g msg ops).2 := by
  induction ops with
  | nil => intro s g msg hv _; exact hv
  | cons op r ih =>
    intro s g msg hv hok
    simp only [runG]
    split
    · exact hv
    · rename_i hd
      exact ih _ _ _ (step_view s g msg op hv (hok op (by simp)) (by simpa using hd))
        (fun o ho => hok o (by simp [ho]))

theorem init_view : View init {} := by
  unfold View init I32 AllR; simp

end BfeVerif.C34
