import BfeVerif.C34.Model
/-! C34 helper lemmas (core only). -/
namespace BfeVerif.C34

theorem lookup_setKey {α : Type} (k j : Nat) (v : α) (l : List (Nat × α)) :
    (setKey k v l).lookup j = if j == k then some v else l.lookup j := by
  induction l with
  | nil => simp [setKey, List.lookup]; split <;> simp_all
  | cons p r ih =>
    obtain ⟨k', v'⟩ := p
    simp only [setKey]
    split <;> simp only [List.lookup_cons, ih] <;> grind

theorem lookup_delKey {α : Type} (k j : Nat) (l : List (Nat × α)) :
    (delKey k l).lookup j = if j == k then none else l.lookup j := by
  induction l with
  | nil => simp [delKey, List.lookup]
  | cons p r ih =>
    obtain ⟨k', v'⟩ := p
    simp only [delKey]
    split <;> simp only [List.lookup_cons, ih] <;> grind

/-! ### what a frame / a queue denotes: the sequence of octets and markers put on the wire -/

inductive Atom where
  | byte (msg idx : Nat)
  | hdr (endS : Bool)
  | fin                       -- END_STREAM flag on a DATA frame
deriving DecidableEq, Repr

def bytesOf (msg off len : Nat) : List Atom := (List.range' off len).map (Atom.byte msg)

def Wr.atoms : Wr → List Atom
  | .data msg off len e => bytesOf msg off len ++ (if e then [Atom.fin] else [])
  | .hdr e => [Atom.hdr e]

def qAtoms (q : List Wr) : List Atom := q.flatMap Wr.atoms

def Out.atoms : Out → List Atom
  | .data _ msg off len e _ => bytesOf msg off len ++ (if e then [Atom.fin] else [])
  | .hdr _ e => [Atom.hdr e]
  | _ => []

def Out.stream : Out → Option Nat
  | .data id .. => some id
  | .hdr id _ => some id
  | _ => none

/-- pending wire content of stream `id` -/
def pending (s : St) (id : Nat) : List Atom := qAtoms ((s.sq.lookup id).getD [])

theorem bytesOf_split (msg off a len : Nat) (h : a ≤ len) :
    bytesOf msg off len = bytesOf msg off a ++ bytesOf msg (off + a) (len - a) := by
  unfold bytesOf
  rw [← List.map_append]
  congr 1
  have : len = a + (len - a) := by omega
  conv => lhs; rw [this]
  rw [List.range'_append_1]

theorem pending_shiftQ_self (s : St) (id : Nat) (rest : List Wr) :
    pending (shiftQ s id rest) id = qAtoms rest := by
  unfold shiftQ pending
  split
  · rename_i h
    simp only [lookup_delKey, beq_self_eq_true, if_true, Option.getD_none]
    have : rest = [] := by simpa using h
    subst this; rfl
  · simp [lookup_setKey]

theorem pending_shiftQ_other (s : St) (id j : Nat) (rest : List Wr) (h : j ≠ id) :
    pending (shiftQ s id rest) j = pending s j := by
  have hj : (j == id) = false := by simp [h]
  unfold shiftQ pending
  split <;> simp [lookup_delKey, lookup_setKey, hj]

theorem flowTake_sq (s s1 : St) (id : Nat) (n : Int) (h : flowTake s id n = some s1) : s1.sq = s.sq := by
  unfold flowTake at h
  split at h
  · split at h
    · simp at h
    · simp at h; subst h; rfl
  · simp at h

theorem allowedOf_le (mfs : Nat) (a0 : Int) : allowedOf mfs a0 ≤ a0 ∧ allowedOf mfs a0 ≤ mfs := by
  unfold allowedOf; split <;> omega

theorem allowedOf_pos (mfs : Nat) (a0 : Int) (hm : 0 < mfs) (ha : 0 < a0) : 0 < allowedOf mfs a0 := by
  unfold allowedOf; split <;> omega

theorem availOf_le (c n : Int) : availOf c n ≤ c ∧ availOf c n ≤ n := by
  unfold availOf; split <;> omega

theorem availOf_nonneg (c n : Int) (hc : 0 ≤ c) (hn : 0 ≤ n) : 0 ≤ availOf c n := by
  unfold availOf; split <;> omega

/-- the state after `flow.take(n)` -/
def debit (s : St) (id : Nat) (w n : Int) : St :=
  { s with conn := s.conn - n, streams := setKey id (w - n) s.streams }

/-- closed form of `takeFrom` on a queue whose head is a non-empty DATA write of a live stream -/
theorem takeFrom_data (s : St) (id msg off len : Nat) (e : Bool) (rest : List Wr) (w : Int)
    (hq : s.sq.lookup id = some (.data msg off len e :: rest)) (hw : s.streams.lookup id = some w)
    (hl : 0 < len) :
    takeFrom s id =
      let a0 : Int := availOf s.conn w
      let al := allowedOf s.mfs a0
      if a0 = 0 then (.nothing, s)
      else if (len : Int) > al then
        (if al < 0 then (.panic "slice bounds", s)
         else (.data id msg off al.toNat false false,
               { debit s id w al with sq := setKey id (.data msg (off + al.toNat) (len - al.toNat) e :: rest) s.sq }))
      else (.data id msg off len e true, shiftQ (debit s id w len) id rest) := by
  have hav : avail s id = some (availOf s.conn w) := by unfold avail; rw [hw]
  have hle := allowedOf_le s.mfs (availOf s.conn w)
  unfold takeFrom
  rw [hq]
  simp only [hl, if_true, hav, beq_iff_eq]
  by_cases h0 : (availOf s.conn w) = 0
  · simp [h0]
  · simp only [h0, if_false]
    by_cases hgt : (len : Int) > allowedOf s.mfs (availOf s.conn w)
    · simp only [hgt, if_true]
      have : ¬ (allowedOf s.mfs (availOf s.conn w) > (availOf s.conn w)) := by omega
      simp only [flowTake, hav, hw, this, if_false, debit]
    · simp only [hgt, if_false]
      have : ¬ ((len : Int) > (availOf s.conn w)) := by omega
      simp only [flowTake, hav, hw, this, if_false, debit]

theorem takeFrom_nostream (s : St) (id msg off len : Nat) (e : Bool) (rest : List Wr)
    (hq : s.sq.lookup id = some (.data msg off len e :: rest)) (hw : s.streams.lookup id = none)
    (hl : 0 < len) : takeFrom s id = (.panic "nil stream", s) := by
  unfold takeFrom
  rw [hq]
  simp [hl, avail, hw]

theorem takeFrom_zero (s : St) (id msg off : Nat) (e : Bool) (rest : List Wr)
    (hq : s.sq.lookup id = some (.data msg off 0 e :: rest)) :
    takeFrom s id = (.data id msg off 0 e true, shiftQ s id rest) := by
  unfold takeFrom
  rw [hq]
  simp

theorem takeFrom_hdr (s : St) (id : Nat) (e : Bool) (rest : List Wr)
    (hq : s.sq.lookup id = some (.hdr e :: rest)) :
    takeFrom s id = (.hdr id e, shiftQ s id rest) := by
  unfold takeFrom
  rw [hq]

theorem takeFrom_none (s : St) (id : Nat) (hq : s.sq.lookup id = none) :
    takeFrom s id = (.panic "no queue", s) := by
  unfold takeFrom
  rw [hq]

theorem takeFrom_nil (s : St) (id : Nat) (hq : s.sq.lookup id = some []) :
    takeFrom s id = (.panic "invalid use of queue", s) := by
  unfold takeFrom
  rw [hq]

theorem scan_found (sq : List (Nat × List Wr)) (ord : List Nat) (id : Nat)
    (h : scanNoCost sq ord = .found id) : (sq.lookup id).isSome = true := by
  induction ord with
  | nil => simp [scanNoCost] at h
  | cons a r ih =>
    unfold scanNoCost at h
    split at h
    · exact ih h
    · simp at h
    · rename_i w _ hq
      split at h
      · simp only [Scan.found.injEq] at h; subst h; simp [hq]
      · exact ih h

/-- refinement of `take_cases`: the stream served has a queue -/
theorem take_cases' (s : St) (o1 o2 : List Nat) :
    (∃ w, take s o1 o2 = (.panic w, s)) ∨ (take s o1 o2).1 = .ctl ∨ take s o1 o2 = (.nothing, s) ∨
    ∃ id, (s.sq.lookup id).isSome = true ∧ take s o1 o2 = takeFrom s id := by
  unfold take
  split
  · exact Or.inl ⟨_, rfl⟩
  · split
    · exact Or.inr (Or.inl rfl)
    · split
      · exact Or.inr (Or.inr (Or.inl rfl))
      · split
        · exact Or.inl ⟨_, rfl⟩
        · rename_i id hscan
          exact Or.inr (Or.inr (Or.inr ⟨id, scan_found _ _ _ hscan, rfl⟩))
        · split
          · exact Or.inr (Or.inr (Or.inl rfl))
          · rename_i id rest hf
            have hm : id ∈ o2.filter (fun id => (s.sq.lookup id).isSome && decide (writable s id > 0)) := by
              rw [hf]; simp
            have := (List.mem_filter.mp hm).2
            simp only [Bool.and_eq_true] at this
            exact Or.inr (Or.inr (Or.inr ⟨id, this.1, rfl⟩))


end BfeVerif.C34
