import BfeVerif.C27.Model
/-! Lemmas for C27 / C28 (core Lean only). -/
namespace BfeVerif.C27

/-- The repair of C28: a request whose `Expect: 100-continue` was never answered makes
    writeHeader decide to close. -/
theorem decideHeader_close_of_expecter (i : HIn) (h1 : i.rq.expecter = true)
    (h2 : i.rq.wroteContinue = false) : (decideHeader i).close = true := by
  simp [decideHeader, h1, h2]

/-- invariant: request is an unanswered expecter, and once the header is on the wire `close` is set -/
def Unanswered (s : St) : Prop :=
  s.rq.expecter = true ∧ s.rq.wroteContinue = false ∧ (s.cwWrote = true → s.close = true)

/-- `t` agrees with `s` on the fields `Unanswered` looks at -/
def Same (s t : St) : Prop := t.rq = s.rq ∧ t.cwWrote = s.cwWrote ∧ t.close = s.close

theorem Same.unanswered {s t : St} (h : Same s t) (hs : Unanswered s) : Unanswered t := by
  obtain ⟨a, b, c⟩ := h
  unfold Unanswered at *
  rw [a, b, c]; exact hs

theorem applyHeader_unanswered (s : St) (n : Nat) (h : Unanswered s) :
    Unanswered (applyHeader s n) ∧ (applyHeader s n).cwWrote = true := by
  obtain ⟨h1, h2, h3⟩ := h
  unfold applyHeader
  by_cases hw : s.cwWrote = true
  · rw [if_pos hw]; exact ⟨⟨h1, h2, fun _ => h3 hw⟩, hw⟩
  · rw [if_neg hw]
    refine ⟨⟨h1, h2, fun _ => ?_⟩, rfl⟩
    exact decideHeader_close_of_expecter _ h1 h2

theorem cwWrite_unanswered (s : St) (p : Bytes) (h : Unanswered s) : Unanswered (cwWrite s p) := by
  have := (applyHeader_unanswered s p.length h).1
  unfold cwWrite
  simp only []
  split
  · exact this
  · exact Same.unanswered ⟨rfl, rfl, rfl⟩ this

theorem bufWrite_unanswered (s : St) (p : Bytes) (h : Unanswered s) : Unanswered (bufWrite s p) := by
  have hb : ∀ b, Unanswered { s with buf := b } := fun b => Same.unanswered ⟨rfl, rfl, rfl⟩ h
  unfold bufWrite
  simp only []
  split
  · exact hb _
  · split
    · exact cwWrite_unanswered _ _ h
    · split
      · exact cwWrite_unanswered _ _ (cwWrite_unanswered _ _ (hb []))
      · exact Same.unanswered ⟨rfl, rfl, rfl⟩ (cwWrite_unanswered _ _ (hb []))

theorem bufFlush_unanswered (s : St) (h : Unanswered s) : Unanswered (bufFlush s) := by
  unfold bufFlush
  split
  · exact h
  · exact cwWrite_unanswered _ _ (Same.unanswered ⟨rfl, rfl, rfl⟩ h)

theorem doWriteHeader_same (s : St) (c : Nat) : Same s (doWriteHeader s c) := by
  unfold doWriteHeader
  split
  · exact ⟨rfl, rfl, rfl⟩
  · exact ⟨rfl, rfl, rfl⟩

theorem doHeaderOp_same (s : St) (f : Hdr → Hdr) : Same s (doHeaderOp s f) := ⟨rfl, rfl, rfl⟩

theorem doWrite_unanswered (s : St) (d : Bytes) (h : Unanswered s) : Unanswered (doWrite s d) := by
  have h1 := (doWriteHeader_same s 200).unanswered h
  unfold doWrite
  simp only []
  generalize doWriteHeader s 200 = t at h1 ⊢
  have h2 : Unanswered { t with written := t.written + d.length } := Same.unanswered ⟨rfl, rfl, rfl⟩ h1
  (repeat' split)
  all_goals first
    | exact Same.unanswered ⟨rfl, rfl, rfl⟩ h1
    | exact Same.unanswered ⟨rfl, rfl, rfl⟩ h2
    | exact Same.unanswered ⟨rfl, rfl, rfl⟩ (bufWrite_unanswered _ _ h2)

theorem doFlush_unanswered (s : St) (h : Unanswered s) : Unanswered (doFlush s) := by
  unfold doFlush
  exact (applyHeader_unanswered _ 0 (bufFlush_unanswered _ ((doWriteHeader_same s 200).unanswered h))).1

theorem step_unanswered (s : St) (a : Act) (h : Unanswered s) : Unanswered (step s a) := by
  cases a <;> simp only [step]
  · exact (doHeaderOp_same _ _).unanswered h
  · exact (doHeaderOp_same _ _).unanswered h
  · exact (doWriteHeader_same _ _).unanswered h
  · exact doWrite_unanswered _ _ h
  · exact doFlush_unanswered _ h

theorem foldl_unanswered (script : List Act) (s : St) (h : Unanswered s) :
    Unanswered (script.foldl step s) := by
  induction script generalizing s with
  | nil => exact h
  | cons a t ih => exact ih _ (step_unanswered s a h)

theorem finish_close_of_unanswered (s : St) (h : Unanswered s) : (finish s).close = true := by
  have h0 : Unanswered { s with handlerDone := true } := Same.unanswered ⟨rfl, rfl, rfl⟩ h
  have h1 := applyHeader_unanswered _ 0 (bufFlush_unanswered _ ((doWriteHeader_same _ 200).unanswered h0))
  have hc := h1.1.2.2 h1.2
  unfold finish
  simp only []
  generalize applyHeader (bufFlush (doWriteHeader { s with handlerDone := true } 200)) 0 = t at hc
  (repeat' split) <;> simp_all

theorem finish_mismatch (t : St) (cl : Nat) :
    (finish t).contentLength = some cl → (finish t).rq.isHead = false → (finish t).status ≠ 304 →
    cl ≠ (finish t).written → (finish t).close = true := by
  unfold finish
  simp only []
  generalize applyHeader (bufFlush (doWriteHeader { t with handlerDone := true } 200)) 0 = u
  cases hc : u.chunking <;> cases hcl : u.close <;> cases hl : u.contentLength <;>
    simp [hc, hcl, hl] <;> (repeat' split) <;> simp_all <;>
    (intro h1 h2 h3; subst h1; rename_i h; exact h h2 h3)

/-! ## Layers of the parse-of-render statement (`C27_parses`) -/

/-- layer 0: the line splitter stops at the first CRLF; a line without CR comes back unchanged -/
theorem takeLine_append (l t acc : Bytes) (h : ∀ b ∈ l, b ≠ 13) :
    takeLine (l ++ 13 :: 10 :: t) acc = some (acc.reverse ++ l, t) := by
  induction l generalizing acc with
  | nil => simp [takeLine]
  | cons b l ih =>
    have hb : b ≠ 13 := h b (by simp)
    have hl : ∀ x ∈ l, x ≠ 13 := fun x hx => h x (by simp [hx])
    have : takeLine (b :: (l ++ 13 :: 10 :: t)) acc = takeLine (l ++ 13 :: 10 :: t) (b :: acc) := by
      cases hlt : l ++ 13 :: 10 :: t with
      | nil => simp at hlt
      | cons c r =>
        conv => lhs; unfold takeLine
        split
        · rename_i heq; simp at heq
        · rename_i heq; simp at heq; exact absurd heq.1 hb
        · rename_i heq; simp at heq; obtain ⟨h1, h2⟩ := heq; subst h1; subst h2; rfl
    rw [List.cons_append, this, ih (b :: acc) hl]
    simp

theorem digit_toNat (d : Nat) (h : d < 10) : (digit d).toNat - 48 = d ∧ isDig (digit d) = true := by
  have : d = 0 ∨ d = 1 ∨ d = 2 ∨ d = 3 ∨ d = 4 ∨ d = 5 ∨ d = 6 ∨ d = 7 ∨ d = 8 ∨ d = 9 := by omega
  rcases this with h | h | h | h | h | h | h | h | h | h <;> subst h <;> decide

/-- layer 1: the status line the writer emits parses back to (version, status) -/
theorem parseStatusLine_statusLine (p11 : Bool) (code : Nat) (h1 : 100 ≤ code) (h2 : code ≤ 999) :
    parseStatusLine (statusLine p11 code) = some (p11, code) := by
  have d1 := digit_toNat (code / 100) (by omega)
  have d2 := digit_toNat (code / 10 % 10) (by omega)
  have d3 := digit_toNat (code % 10) (by omega)
  unfold parseStatusLine statusLine codeBytes
  simp only [h1, h2, and_self, if_true]
  cases p11 <;>
    simp [protoBytes, d1.1, d1.2, d2.1, d2.2, d3.1, d3.2] <;> omega

/-- layer 2 (Content-Length framing): a payload of exactly the announced length is the body, nothing is left -/
theorem cl_body (payload rest : Bytes) :
    (payload ++ rest).take payload.length = payload ∧ (payload ++ rest).drop payload.length = rest := by
  simp


/-! ## statusLine()'s cache is transparent -/

/-- the line a cache entry under key `k` must hold -/
def lineFor (k : Int) : Bytes := statusLine (decide (0 < k)) k.natAbs

/-- cache invariant: every entry holds the Status-Line of its own key (version AND code) -/
def CacheOK (c : Cache) : Prop := ∀ kl ∈ c, kl.1 ≠ 0 ∧ kl.2 = lineFor kl.1

theorem lookup_mem (c : Cache) (k : Int) (l : Bytes) (h : c.lookup k = some l) : (k, l) ∈ c := by
  induction c with
  | nil => simp [List.lookup] at h
  | cons x t ih =>
    obtain ⟨k', l'⟩ := x
    by_cases hk : k = k'
    · subst hk; simp [List.lookup] at h; subst h; simp
    · have : (k == k') = false := by simpa using hk
      simp only [List.lookup, this] at h
      exact List.mem_cons_of_mem _ (ih h)

theorem lineFor_cacheKey (p : Bool) (code : Nat) (h : cacheKey p code ≠ 0) :
    lineFor (cacheKey p code) = statusLine p code := by
  unfold lineFor cacheKey at *
  cases p with
  | true =>
    have hc : 0 < code := by simp at h; omega
    have : decide (0 < code) = true := by simpa using hc
    simp [this]
  | false =>
    have : decide ((code : Int) < 0) = false := by simp
    simp [this]

theorem statusText_ne_zero (code : Nat) (h : (statusText code).isSome = true) : code ≠ 0 := by
  intro hc; subst hc; simp [statusText] at h

theorem statusLineCached_ok (c : Cache) (p : Bool) (code : Nat) (h : CacheOK c) :
    (statusLineCached c p code).1 = statusLine p code ∧ CacheOK (statusLineCached c p code).2 := by
  unfold statusLineCached
  simp only []
  cases hl : c.lookup (cacheKey p code) with
  | some l =>
    have hm := h _ (lookup_mem c _ l hl)
    have h1 : cacheKey p code ≠ 0 := hm.1
    have h2 : l = lineFor (cacheKey p code) := hm.2
    exact ⟨by simp only []; rw [h2]; exact lineFor_cacheKey p code h1, h⟩
  | none =>
    refine ⟨rfl, ?_⟩
    show CacheOK (if (statusText code).isSome = true then (cacheKey p code, statusLine p code) :: c else c)
    by_cases ht : (statusText code).isSome = true
    · rw [if_pos ht]
      intro kl hkl
      rcases List.mem_cons.mp hkl with hkl | hkl
      · rw [hkl]
        have hne : cacheKey p code ≠ 0 := by
          have := statusText_ne_zero code ht
          unfold cacheKey; cases p <;> simp <;> omega
        exact ⟨hne, (lineFor_cacheKey p code hne).symm⟩
      · exact h kl hkl
    · rw [if_neg ht]; exact h

theorem renderCached_ok (c : Cache) (s : St) (h : CacheOK c) :
    (renderCached c s).1 = render s ∧ CacheOK (renderCached c s).2 := by
  unfold renderCached render
  cases hh : s.head with
  | none => simp [hh]; exact h
  | some cl =>
    obtain ⟨code, ls⟩ := cl
    have := statusLineCached_ok c s.rq.proto11 code h
    simp only []
    refine ⟨?_, this.2⟩
    simp [renderHead, this.1, List.append_assoc]

theorem history_ok (es : List (Req × Bool × List Act)) (c : Cache) (h : CacheOK c) :
    ∀ sb ∈ history c es, sb.2 = render sb.1 := by
  induction es generalizing c with
  | nil => intro sb hsb; simp [history] at hsb
  | cons e t ih =>
    obtain ⟨rq, ka, script⟩ := e
    intro sb hsb
    have hr := renderCached_ok c (respond rq ka script) h
    simp only [history, List.mem_cons] at hsb
    rcases hsb with hsb | hsb
    · subst hsb; exact hr.1
    · exact ih _ hr.2 sb hsb

/-! ## Hex round trip and the chunked layer of `C27_parses` -/

/-- digit-level mirror of hexNatAux -/
def hexDigsAux : Nat → Nat → List Nat → List Nat
  | 0, _, acc => acc
  | fuel + 1, n, acc => if n < 16 then n :: acc else hexDigsAux fuel (n / 16) (n % 16 :: acc)

theorem hexNatAux_map (fuel n : Nat) (acc : List Nat) :
    hexNatAux fuel n (acc.map hexDigitC) = (hexDigsAux fuel n acc).map hexDigitC := by
  induction fuel generalizing n acc with
  | zero => simp [hexNatAux, hexDigsAux]
  | succ f ih =>
    unfold hexNatAux hexDigsAux
    split
    · simp
    · have := ih (n / 16) (n % 16 :: acc)
      simpa using this

theorem hexDigsAux_lt (fuel n : Nat) (acc : List Nat) (h : ∀ d ∈ acc, d < 16) :
    ∀ d ∈ hexDigsAux fuel n acc, d < 16 := by
  induction fuel generalizing n acc with
  | zero => simpa [hexDigsAux] using h
  | succ f ih =>
    unfold hexDigsAux
    split
    · rename_i hn; intro d hd; simp at hd; rcases hd with hd | hd
      · omega
      · exact h d hd
    · apply ih; intro d hd; simp at hd; rcases hd with hd | hd
      · omega
      · exact h d hd

theorem hexDigsAux_ne_nil (fuel n : Nat) (acc : List Nat) : hexDigsAux (fuel + 1) n acc ≠ [] := by
  induction fuel generalizing n acc with
  | zero => unfold hexDigsAux; split <;> simp [hexDigsAux]
  | succ f ih =>
    unfold hexDigsAux
    split
    · simp
    · exact ih _ _

def horner (a d : Nat) : Nat := a * 16 + d

theorem hexDigsAux_val (fuel n : Nat) (acc : List Nat) (h : n < 16 ^ fuel) :
    (hexDigsAux fuel n acc).foldl horner 0 = acc.foldl horner n := by
  induction fuel generalizing n acc with
  | zero => simp at h; subst h; simp [hexDigsAux]
  | succ f ih =>
    unfold hexDigsAux
    split
    · simp [horner]
    · have hlt : n / 16 < 16 ^ f := by
        apply Nat.div_lt_of_lt_mul; rw [Nat.pow_succ] at h; omega
      rw [ih _ _ hlt]
      simp only [List.foldl_cons, horner]
      congr 1; omega

theorem hexVal_digit (d : Nat) (h : d < 16) :
    hexValB (hexDigitC d) = some d ∧ hexDigitC d ≠ 59 ∧ hexDigitC d ≠ 13 := by
  have : d = 0 ∨ d = 1 ∨ d = 2 ∨ d = 3 ∨ d = 4 ∨ d = 5 ∨ d = 6 ∨ d = 7 ∨ d = 8 ∨ d = 9 ∨ d = 10 ∨ d = 11 ∨
      d = 12 ∨ d = 13 ∨ d = 14 ∨ d = 15 := by omega
  rcases this with h | h | h | h | h | h | h | h | h | h | h | h | h | h | h | h <;> subst h <;> decide

def hexStep (a : Option Nat) (c : UInt8) : Option Nat :=
  match a, hexValB c with | some x, some d => some (x * 16 + d) | _, _ => none

theorem foldl_hexStep (ds : List Nat) (x : Nat) (h : ∀ d ∈ ds, d < 16) :
    (ds.map hexDigitC).foldl hexStep (some x) = some (ds.foldl horner x) := by
  induction ds generalizing x with
  | nil => rfl
  | cons d t ih =>
    have hd := (hexVal_digit d (h d (by simp))).1
    simp only [List.map_cons, List.foldl_cons, hexStep, hd]
    exact ih _ (fun e he => h e (by simp [he]))

theorem takeWhile_all {α} (p : α → Bool) (l : List α) (h : ∀ a ∈ l, p a = true) : l.takeWhile p = l := by
  induction l with
  | nil => rfl
  | cons a t ih => simp [List.takeWhile, h a (by simp), ih (fun b hb => h b (by simp [hb]))]

/-- hex round trip: the chunk-size line written with `%x` reads back as the same number -/
theorem parseHexLine_hexNat (n : Nat) (h : n < 16 ^ 64) :
    parseHexLine (hexNat n) = some n ∧ ∀ b ∈ hexNat n, b ≠ 13 := by
  have hm := hexNatAux_map 64 n []
  simp only [List.map_nil] at hm
  have hlt := hexDigsAux_lt 64 n [] (by simp)
  have hne := hexDigsAux_ne_nil 63 n []
  have hv := hexDigsAux_val 64 n [] h
  unfold hexNat
  rw [hm]
  constructor
  · unfold parseHexLine
    have htw : ((hexDigsAux 64 n []).map hexDigitC).takeWhile (· != 59) = (hexDigsAux 64 n []).map hexDigitC := by
      apply takeWhile_all
      intro a ha
      simp only [List.mem_map] at ha
      obtain ⟨d, hd, rfl⟩ := ha
      simpa using (hexVal_digit d (hlt d hd)).2.1
    simp only [htw]
    have hnil : ((hexDigsAux 64 n []).map hexDigitC).isEmpty = false := by
      cases hx : hexDigsAux 64 n [] with
      | nil => exact absurd hx hne
      | cons a t => rfl
    simp only [hnil]
    have := foldl_hexStep (hexDigsAux 64 n []) 0 hlt
    simp only [hv, List.foldl_nil] at this
    exact this
  · intro b hb
    simp only [List.mem_map] at hb
    obtain ⟨d, hd, rfl⟩ := hb
    exact (hexVal_digit d (hlt d hd)).2.2

theorem term_bytes : strBytes "0\r\n\r\n" = [48, 13, 10, 13, 10] := by decide

/-- the last-chunk + empty trailer section ends the body -/
theorem dechunk_terminator (fuel : Nat) (rest acc : Bytes) :
    dechunk (fuel + 1) (strBytes "0\r\n\r\n" ++ rest) acc = some (acc, rest, true) := by
  rw [term_bytes]
  have h1 : takeLine ([48, 13, 10, 13, 10] ++ rest) [] = some ([48], 13 :: 10 :: rest) := by
    simp [takeLine]
  have h2 : parseHexLine [48] = some 0 := by decide
  have h3 : parseHeaderLines (fuel + 1) (13 :: 10 :: rest) [] = some ([], rest) := by
    simp [parseHeaderLines, takeLine]
  unfold dechunk
  simp only [h1, h2, h3]

/-- one rendered chunk is decoded to its payload -/
theorem dechunk_piece (fuel : Nat) (p rest acc : Bytes) (hp : p ≠ []) (hl : p.length < 16 ^ 64) :
    dechunk (fuel + 1) (renderPiece true p ++ rest) acc = dechunk fuel rest (acc ++ p) := by
  obtain ⟨hx, hcr⟩ := parseHexLine_hexNat p.length hl
  have hbs : renderPiece true p ++ rest = hexNat p.length ++ 13 :: 10 :: (p ++ 13 :: 10 :: rest) := by
    simp [renderPiece, crlf, List.append_assoc]
  have h1 : takeLine (renderPiece true p ++ rest) [] = some (hexNat p.length, p ++ 13 :: 10 :: rest) := by
    rw [hbs]; simpa using takeLine_append (hexNat p.length) (p ++ 13 :: 10 :: rest) [] hcr
  obtain ⟨m, hm⟩ : ∃ m, p.length = m + 1 := by
    cases p with
    | nil => exact absurd rfl hp
    | cons a t => exact ⟨t.length, rfl⟩
  rw [hm] at hx
  conv => lhs; unfold dechunk
  simp only [h1, hm, hx]
  have hlen : ¬ (p ++ 13 :: 10 :: rest).length < m + 1 + 2 := by simp; omega
  have hdrop : List.drop (m + 1) (p ++ 13 :: 10 :: rest) = 13 :: 10 :: rest := by
    rw [← hm]; simp
  have htake : List.take (m + 1) (p ++ 13 :: 10 :: rest) = p := by
    rw [← hm]; simp
  have hdrop2 : List.drop (m + 1 + 2) (p ++ 13 :: 10 :: rest) = rest := by
    rw [← List.drop_drop, hdrop]; rfl
  simp [hdrop, htake, hdrop2, crlf]
  intro hc; omega

/-- **chunked layer**: the body the writer renders in chunking mode (one chunk per chunkWriter.Write,
    then `0\r\n\r\n`) is decoded by the RFC 7230 §4.1 reference decoder to exactly the concatenated
    payloads, complete, with `rest` left over -/
theorem dechunk_pieces (pieces : List Bytes) (rest acc : Bytes) (fuel : Nat)
    (hne : ∀ p ∈ pieces, p ≠ []) (hl : ∀ p ∈ pieces, p.length < 16 ^ 64) (hf : pieces.length < fuel) :
    dechunk fuel (pieces.flatMap (renderPiece true) ++ strBytes "0\r\n\r\n" ++ rest) acc
      = some (acc ++ pieces.flatten, rest, true) := by
  induction pieces generalizing acc fuel with
  | nil =>
    obtain ⟨f, rfl⟩ : ∃ f, fuel = f + 1 := ⟨fuel - 1, by simp at hf; omega⟩
    simpa using dechunk_terminator f rest acc
  | cons p t ih =>
    obtain ⟨f, rfl⟩ : ∃ f, fuel = f + 1 := ⟨fuel - 1, by simp at hf; omega⟩
    have := dechunk_piece f p (t.flatMap (renderPiece true) ++ strBytes "0\r\n\r\n" ++ rest) acc
      (hne p (by simp)) (hl p (by simp))
    simp only [List.flatMap_cons, List.append_assoc] at this ⊢
    rw [this]
    have := ih (acc ++ p) f (fun q hq => hne q (by simp [hq])) (fun q hq => hl q (by simp [hq]))
      (by simp at hf; omega)
    simpa [List.append_assoc] using this


end BfeVerif.C27
