import BfeVerif.C27.Model
/-! Lemmas for C27 / C28 (core Lean only). -/
namespace BfeVerif.C27

/-- The repair of C28: a request whose `Expect: 100-continue` was never answered makes
    writeHeader decide to close. -/
theorem decideHeader_close_of_expecter (i : HIn) (h1 : i.rq.expecter = true)
    (h2 : i.rq.wroteContinue = false) : (decideHeader i).close = true := by
  simp [decideHeader, h1, h2]

/-- invariant: request is an unanswered expecter, and once the header is on the wire `close` is set -/
def Unanswered (s : St) : Prop :=
  s.rq.expecter = true ∧ s.rq.wroteContinue = false ∧ (s.cwWrote = true → s.close = true)

/-- `t` agrees with `s` on the fields `Unanswered` looks at -/
def Same (s t : St) : Prop := t.rq = s.rq ∧ t.cwWrote = s.cwWrote ∧ t.close = s.close

theorem Same.unanswered {s t : St} (h : Same s t) (hs : Unanswered s) : Unanswered t := by
  obtain ⟨a, b, c⟩ := h
  unfold Unanswered at *
  rw [a, b, c]; exact hs

theorem applyHeader_unanswered (s : St) (n : Nat) (h : Unanswered s) :
    Unanswered (applyHeader s n) ∧ (applyHeader s n).cwWrote = true := by
  obtain ⟨h1, h2, h3⟩ := h
  unfold applyHeader
  by_cases hw : s.cwWrote = true
  · rw [if_pos hw]; exact ⟨⟨h1, h2, fun _ => h3 hw⟩, hw⟩
  · rw [if_neg hw]
    refine ⟨⟨h1, h2, fun _ => ?_⟩, rfl⟩
    exact decideHeader_close_of_expecter _ h1 h2

theorem cwWrite_unanswered (s : St) (p : Bytes) (h : Unanswered s) : Unanswered (cwWrite s p) := by
  have := (applyHeader_unanswered s p.length h).1
  unfold cwWrite
  simp only []
  split
  · exact this
  · exact Same.unanswered ⟨rfl, rfl, rfl⟩ this

theorem bufWrite_unanswered (s : St) (p : Bytes) (h : Unanswered s) : Unanswered (bufWrite s p) := by
  have hb : ∀ b, Unanswered { s with buf := b } := fun b => Same.unanswered ⟨rfl, rfl, rfl⟩ h
  unfold bufWrite
  simp only []
  split
  · exact hb _
  · split
    · exact cwWrite_unanswered _ _ h
    · split
      · exact cwWrite_unanswered _ _ (cwWrite_unanswered _ _ (hb []))
      · exact Same.unanswered ⟨rfl, rfl, rfl⟩ (cwWrite_unanswered _ _ (hb []))

theorem bufFlush_unanswered (s : St) (h : Unanswered s) : Unanswered (bufFlush s) := by
  unfold bufFlush
  split
  · exact h
  · exact cwWrite_unanswered _ _ (Same.unanswered ⟨rfl, rfl, rfl⟩ h)

theorem doWriteHeader_same (s : St) (c : Nat) : Same s (doWriteHeader s c) := by
  unfold doWriteHeader
  split
  · exact ⟨rfl, rfl, rfl⟩
  · exact ⟨rfl, rfl, rfl⟩

theorem doHeaderOp_same (s : St) (f : Hdr → Hdr) : Same s (doHeaderOp s f) := ⟨rfl, rfl, rfl⟩

theorem doWrite_unanswered (s : St) (d : Bytes) (h : Unanswered s) : Unanswered (doWrite s d) := by
  have h1 := (doWriteHeader_same s 200).unanswered h
  unfold doWrite
  simp only []
  generalize doWriteHeader s 200 = t at h1 ⊢
  have h2 : Unanswered { t with written := t.written + d.length } := Same.unanswered ⟨rfl, rfl, rfl⟩ h1
  (repeat' split)
  all_goals first
    | exact Same.unanswered ⟨rfl, rfl, rfl⟩ h1
    | exact Same.unanswered ⟨rfl, rfl, rfl⟩ h2
    | exact Same.unanswered ⟨rfl, rfl, rfl⟩ (bufWrite_unanswered _ _ h2)

theorem doFlush_unanswered (s : St) (h : Unanswered s) : Unanswered (doFlush s) := by
  unfold doFlush
  exact (applyHeader_unanswered _ 0 (bufFlush_unanswered _ ((doWriteHeader_same s 200).unanswered h))).1

theorem step_unanswered (s : St) (a : Act) (h : Unanswered s) : Unanswered (step s a) := by
  cases a <;> simp only [step]
  · exact (doHeaderOp_same _ _).unanswered h
  · exact (doHeaderOp_same _ _).unanswered h
  · exact (doWriteHeader_same _ _).unanswered h
  · exact doWrite_unanswered _ _ h
  · exact doFlush_unanswered _ h

theorem foldl_unanswered (script : List Act) (s : St) (h : Unanswered s) :
    Unanswered (script.foldl step s) := by
  induction script generalizing s with
  | nil => exact h
  | cons a t ih => exact ih _ (step_unanswered s a h)

theorem finish_close_of_unanswered (s : St) (h : Unanswered s) : (finish s).close = true := by
  have h0 : Unanswered { s with handlerDone := true } := Same.unanswered ⟨rfl, rfl, rfl⟩ h
  have h1 := applyHeader_unanswered _ 0 (bufFlush_unanswered _ ((doWriteHeader_same _ 200).unanswered h0))
  have hc := h1.1.2.2 h1.2
  unfold finish
  simp only []
  generalize applyHeader (bufFlush (doWriteHeader { s with handlerDone := true } 200)) 0 = t at hc
  (repeat' split) <;> simp_all

theorem finish_mismatch (t : St) (cl : Nat) :
    (finish t).contentLength = some cl → (finish t).rq.isHead = false → (finish t).status ≠ 304 →
    cl ≠ (finish t).written → (finish t).close = true := by
  unfold finish
  simp only []
  generalize applyHeader (bufFlush (doWriteHeader { t with handlerDone := true } 200)) 0 = u
  cases hc : u.chunking <;> cases hcl : u.close <;> cases hl : u.contentLength <;>
    simp [hc, hcl, hl] <;> (repeat' split) <;> simp_all <;>
    (intro h1 h2 h3; subst h1; rename_i h; exact h h2 h3)

/-! ## Layers of the parse-of-render statement (`C27_parses`) -/

/-- layer 0: the line splitter stops at the first CRLF; a line without CR comes back unchanged -/
theorem takeLine_append (l t acc : Bytes) (h : ∀ b ∈ l, b ≠ 13) :
    takeLine (l ++ 13 :: 10 :: t) acc = some (acc.reverse ++ l, t) := by
  induction l generalizing acc with
  | nil => simp [takeLine]
  | cons b l ih =>
    have hb : b ≠ 13 := h b (by simp)
    have hl : ∀ x ∈ l, x ≠ 13 := fun x hx => h x (by simp [hx])
    have : takeLine (b :: (l ++ 13 :: 10 :: t)) acc = takeLine (l ++ 13 :: 10 :: t) (b :: acc) := by
      cases hlt : l ++ 13 :: 10 :: t with
      | nil => simp at hlt
      | cons c r =>
        conv => lhs; unfold takeLine
        split
        · rename_i heq; simp at heq
        · rename_i heq; simp at heq; exact absurd heq.1 hb
        · rename_i heq; simp at heq; obtain ⟨h1, h2⟩ := heq; subst h1; subst h2; rfl
    rw [List.cons_append, this, ih (b :: acc) hl]
    simp

theorem digit_toNat (d : Nat) (h : d < 10) : (digit d).toNat - 48 = d ∧ isDig (digit d) = true := by
  have : d = 0 ∨ d = 1 ∨ d = 2 ∨ d = 3 ∨ d = 4 ∨ d = 5 ∨ d = 6 ∨ d = 7 ∨ d = 8 ∨ d = 9 := by omega
  rcases this with h | h | h | h | h | h | h | h | h | h <;> subst h <;> decide

/-- layer 1: the status line the writer emits parses back to (version, status) -/
theorem parseStatusLine_statusLine (p11 : Bool) (code : Nat) (h1 : 100 ≤ code) (h2 : code ≤ 999) :
    parseStatusLine (statusLine p11 code) = some (p11, code) := by
  have d1 := digit_toNat (code / 100) (by omega)
  have d2 := digit_toNat (code / 10 % 10) (by omega)
  have d3 := digit_toNat (code % 10) (by omega)
  unfold parseStatusLine statusLine codeBytes
  simp only [h1, h2, and_self, if_true]
  cases p11 <;>
    simp [protoBytes, d1.1, d1.2, d2.1, d2.2, d3.1, d3.2] <;> omega

/-- layer 2 (Content-Length framing): a payload of exactly the announced length is the body, nothing is left -/
theorem cl_body (payload rest : Bytes) :
    (payload ++ rest).take payload.length = payload ∧ (payload ++ rest).drop payload.length = rest := by
  simp


end BfeVerif.C27
