import BfeVerif.Common.Proto
import BfeVerif.C27.Model
/-!
  C27 driver.
  op     : `f <GET|HEAD|POST> <10|11> <req Connection hex|-> <ka 0|1> <req body len> <script>`
  script : comma separated `S:<Key>:<valhex>` `A:<Key>:<valhex>` `H:<code>` `W:<hex>` `R:<n>:<bytehex>` `F` (`-` = empty)
  result : `<close> <limitHit> <write results|-> <unread request bytes> <hex of wire bytes>`
-/
namespace BfeVerif.C27
open BfeVerif.Proto

def hexStr (s : String) : Option String :=
  (bytesOfHex s).map fun bs => String.ofList (bs.map fun b => Char.ofNat b.toNat)

def parseAct (a : String) : Option Act :=
  match a.splitOn ":" with
  | ["S", k, v] => (hexStr v).map (Act.set k ·)
  | ["A", k, v] => (hexStr v).map (Act.add k ·)
  | ["SR", k, n, b] =>
    match n.toNat?, bytesOfHex b with
    | some n, some [x] => some (Act.set k (String.ofList (List.replicate n (Char.ofNat x.toNat))))
    | _, _ => none
  | ["H", c] => c.toNat?.map Act.writeHeader
  | ["W", d] => (bytesOfHex d).map Act.write
  | ["R", n, b] =>
    match n.toNat?, bytesOfHex b with
    | some n, some [x] => some (Act.write (List.replicate n x))
    | _, _ => none
  | ["F"] => some Act.flush
  | _ => none

def parseScript (s : String) : Option (List Act) :=
  if s == "-" then some [] else (s.splitOn ",").mapM parseAct

def b2s (b : Bool) : String := if b then "1" else "0"

def renderRes (s : St) : String :=
  b2s s.close ++ " " ++ b2s s.limitHit ++ " " ++
  (if s.writeRes.isEmpty then "-" else String.join (s.writeRes.map toString)) ++ " " ++
  toString s.bodyLeft ++ " " ++ hexField (render s)

def digits (s : String) : List Nat :=
  if s == "-" then [] else s.toList.map (fun c => c.toNat - 48)

structure Exch where
  rq : Req
  ka : Bool
  script : List Act

def parseExch (op : String) : Option Exch :=
  match op.splitOn " " with
  | ["f", m, pr, cn, ka, rb, sc] =>
    match hexStr cn, rb.toNat?, parseScript sc with
    | some conn, some rb, some script =>
      some { rq := { isHead := m == "HEAD", proto11 := pr == "11", conn := conn, clNonZero := rb != 0, bodyLeft := rb },
             ka := ka == "1", script := script }
    | _, _, _ => none
  | _ => none

def renderResB (s : St) (bytes : Bytes) : String :=
  b2s s.close ++ " " ++ b2s s.limitHit ++ " " ++
  (if s.writeRes.isEmpty then "-" else String.join (s.writeRes.map toString)) ++ " " ++
  toString s.bodyLeft ++ " " ++ hexField bytes

def verdictOne (e : Exch) (impl : String) : String :=
  match impl.splitOn " " with
  | [c, _, wr, _, hx] =>
    match bytesOfHex hx with
    | some out => judge e.rq.isHead e.rq.proto11 e.script (c == "1") (digits wr) out
    | none => "FAIL:bad-result"
  | _ => "FAIL:bad-result"

def tagsOne (e : Exch) (s : St) : List String :=
  let st := expectedStatus e.script
  let nwrites := e.script.filter (fun a => match a with | .write d => !d.isEmpty | _ => false) |>.length
  [if e.rq.isHead then "head" else "nohead", if e.rq.proto11 then "h11" else "h10",
   "st" ++ statusClass false st,
   if s.chunking then "chunked" else if s.contentLength.isSome then "cl" else "nolen",
   if s.close then "close" else "keep"] ++
  (if s.limitHit then ["limit"] else []) ++
  (if s.writeRes.contains 2 then ["overcl"] else []) ++
  (if nwrites > 0 || e.script.contains .flush then ["nt"] else [])

def parseNums (s : String) : Option (List Nat) :=
  if s.isEmpty then some [] else (s.splitOn "_").mapM (·.toNat?)

def parseBFraming (f : String) : Option BFraming :=
  match f.toList with
  | 'L' :: t =>
    match parseNums (String.ofList t) with
    | some [n, m] => some (.len n m)
    | _ => none
  | 'N' :: t => (String.ofList t).toNat?.map .none
  | 'C' :: t =>
    let cut := t.getLast? == some 'x'
    let t := if cut then t.dropLast else t
    let tr := t.getLast? == some 't'
    let t := if tr then t.dropLast else t
    (parseNums (String.ofList t)).bind fun ss =>
      if ss.contains 0 || (cut && ss.isEmpty) then none else some (.chunked ss tr cut)
  | _ => none

def runBackend (f : List String) (impl : String) : Ans :=
  match f with
  | [m, pr, cn, ka, st, fr, fl] =>
    match hexStr cn, st.toNat?, parseBFraming fr with
    | some conn, some status, some framing =>
      let rq : Req := { isHead := m == "HEAD", proto11 := pr == "11", conn := conn, clNonZero := false, bodyLeft := 0 }
      let b : Backend := { status := status, framing := framing, connKeepAlive := fl.contains 'k',
                           contentType := fl.contains 'T', big := fl.contains 'B' }
      let (s, close) := respondBackend rq (ka == "1") b
      let model := b2s close ++ " " ++ b2s s.limitHit ++ " - " ++ toString s.bodyLeft ++ " " ++ hexField (render s)
      let verdict :=
        match impl.splitOn " " with
        | [c, _, _, _, hx] =>
          match bytesOfHex hx with
          | some out => judgeBackend rq.isHead rq.proto11 b (c == "1") out
          | none => "FAIL:bad-result"
        | _ => "FAIL:bad-result"
      let tags := ["backend", if rq.isHead then "head" else "nohead", if rq.proto11 then "h11" else "h10",
                   "st" ++ statusClass false status,
                   (match framing with | .len _ _ => "b-cl" | .chunked _ _ _ => "b-chunked" | .none _ => "b-eof")] ++
                  (if b.delivered.2 then ["b-truncated"] else []) ++ (if b.big then ["b-bighdr"] else []) ++
                  (if b.bodyRead rq.isHead && b.delivered.1 > 0 then ["nt"] else [])
      { model := model, verdict := verdict, tags := tags }
    | _, _, _ => { model := "bad-op", verdict := "skip" }
  | _ => { model := "bad-op", verdict := "skip" }

def runReqPair (impl : String) : Ans :=
  { model := "1 1", verdict := if impl == "1 1" then "ok" else "FAIL:cross-request-header", tags := ["reqpair", "nt"] }

def run (op impl : String) : Ans :=
  if op.startsWith "q " then runReqPair impl else
  if op.startsWith "b " then runBackend ((op.splitOn " ").drop 1) impl else
  let multi := op.startsWith "m "
  let pair := op.startsWith "p "
  -- `p @<k> A;B`: the gate position does not enter the model (non-interference)
  let body := (op.drop 2).toString
  let gated := pair && body.startsWith "@"
  let body := if gated then " ".intercalate ((body.splitOn " ").drop 1) else body
  let ops := if multi || pair then (body.splitOn ";") else [op]
  match ops.mapM parseExch with
  | none => { model := "bad-op", verdict := "skip" }
  | some es =>
    if pair && es.length != 2 then { model := "bad-op", verdict := "skip" } else
    let hist := match pair, es with
      | true, [a, b] => pairRun (a.rq, a.ka, a.script) (b.rq, b.ka, b.script)
      | _, _ => history [] (es.map fun (e : Exch) => (e.rq, e.ka, e.script))
    let model := ";".intercalate (hist.map fun (s, b) => renderResB s b)
    let impls := impl.splitOn ";"
    let verdicts := (es.zip impls).map fun (e, i) => verdictOne e i
    let outOf (i : String) : Bytes :=
      match i.splitOn " " with
      | [_, _, _, _, hx] => (bytesOfHex hx).getD []
      | _ => []
    let cross : Bool := match pair, es, impls with
      | true, [a, b], [ia, ib] =>
        crossHeader a.rq.isHead a.script b.script (outOf ia) || crossHeader b.rq.isHead b.script a.script (outOf ib)
      | _, _, _ => false
    let verdict :=
      if impls.length != es.length then "FAIL:bad-result"
      else if cross then "FAIL:cross-response-header"
      else match verdicts.find? (fun v => v.startsWith "FAIL") with
        | some v => v
        | none => if verdicts.all (· == "skip") then "skip" else "ok"
    let tags := (match es, hist with
                 | e :: _, (s, _) :: _ => tagsOne e s
                 | _, _ => []) ++
      (if gated then ["pair-midbody"] else []) ++
      (if pair then ["pair"] ++
         (match es with
          | a :: _ => if a.script.any (fun x => match x with | .set "A-Big" _ => true | _ => false) then ["stallinhead"] else []
          | _ => []) else []) ++
      (if multi then ["history"] ++
         (if (es.zip (es.drop 1)).any (fun (a, b) => a.rq.proto11 != b.rq.proto11 &&
               expectedStatus a.script == expectedStatus b.script) then ["verflip"] else []) else [])
    { model := model, verdict := verdict, tags := (tags.eraseDups) }

end BfeVerif.C27
