/-
  C27 — HTTP/1 responses to clients are correctly framed.

  Executable model of bfe_server/response.go (WriteHeader / write / Flush / finishRequest) and
  bfe_server/chunk_writer.go (chunkWriter.writeHeader / Write / flush / close), transcribed branch by
  branch, plus the independent RFC 7230 reading of a response (`rfcFraming` on the emitted header
  list, `rfcResponse` on raw bytes) that serves as SPEC / oracle.

  Core-only (no Mathlib).
-/
namespace BfeVerif.C27

abbrev Bytes := List UInt8

/-- bytes of an ASCII string (all strings the model renders are ASCII: header keys / values / reason
    phrases; for a non-ASCII character this is NOT UTF-8 — stated as an assumption of C27) -/
def strBytes (s : String) : Bytes := s.toList.map (fun c => UInt8.ofNat c.toNat)

/-! ## bfe_http.Header as an association list (keys unique, canonical) -/

abbrev Hdr := List (String × List String)

def Hdr.get (h : Hdr) (k : String) : String :=            -- GetDirect
  match h.find? (fun kv => kv.1 == k) with
  | some (_, v :: _) => v
  | _ => ""

def Hdr.has (h : Hdr) (k : String) : Bool := h.any (fun kv => kv.1 == k)   -- `_, ok := h[k]`

def Hdr.del (h : Hdr) (k : String) : Hdr := h.filter (fun kv => !(kv.1 == k))

def Hdr.set (h : Hdr) (k v : String) : Hdr := h.del k ++ [(k, [v])]

def Hdr.add : Hdr → String → String → Hdr
  | [], k, v => [(k, [v])]
  | (k', vs) :: t, k, v => if k' == k then (k', vs ++ [v]) :: t else (k', vs) :: Hdr.add t k v

/-- Header.WriteSubset: keys in sorted order, every value on its own line. -/
def insKV (kv : String × List String) : Hdr → Hdr
  | [] => [kv]
  | x :: t => if kv.1 ≤ x.1 then kv :: x :: t else x :: insKV kv t

/-- keys in ascending order (keys are unique, so any sorting algorithm gives this list) -/
def sortH (h : Hdr) : Hdr := h.foldr insKV []

def Hdr.lines (h : Hdr) : List (String × String) :=
  (sortH h).flatMap (fun kv => kv.2.map (fun v => (kv.1, v)))

/-! ## bfe_http.HasToken -/

def isBoundary (c : Char) : Bool := c == ' ' || c == ',' || c == '\t'

def splitTokAux : List Char → List Char → List (List Char)
  | [], cur => [cur.reverse]
  | c :: cs, cur => if isBoundary c then cur.reverse :: splitTokAux cs [] else splitTokAux cs (c :: cur)

def lowerC (c : Char) : Char := if 'A' ≤ c ∧ c ≤ 'Z' then Char.ofNat (c.toNat + 32) else c

/-- `HasToken v tok` for a lower-case ASCII `tok`: some boundary-delimited piece of `v` equals it
    case-insensitively. -/
def hasToken (v tok : String) : Bool :=
  (splitTokAux v.toList []).any (fun p => p.map lowerC == tok.toList)

/-! ## Inputs -/

/-- The request as far as the response writer looks at it. -/
structure Req where
  isHead : Bool
  proto11 : Bool                 -- HTTP/1.1 (else HTTP/1.0)
  conn : String                  -- request `Connection` header value ("" = absent)
  clNonZero : Bool               -- req.ContentLength != 0
  bodyLeft : Nat                 -- request body bytes not yet read by the handler
  expecter : Bool := false       -- req.Body is an expectContinueReader
  wroteContinue : Bool := false  -- … that already sent `100 Continue`
  graceful : Bool := false       -- server.CheckGracefulShutdown() when the header is (logically) written
  touchesHeader : Bool := false  -- the handler calls Header() even if it sets nothing (sendResponse: CopyHeader(rw.Header(), …))
  deriving Repr, DecidableEq

def Req.wants10KA (r : Req) : Bool := !r.proto11 && hasToken r.conn "keep-alive"
def Req.wantsClose (r : Req) : Bool := hasToken r.conn "close"

/-- Scripted handler actions on the ResponseWriter. -/
inductive Act where
  | set (k v : String)
  | add (k v : String)
  | writeHeader (code : Nat)
  | write (data : Bytes)
  | flush
  deriving Repr, DecidableEq

def maxPostHandlerReadBytes : Nat := 256 * 1024
def bufferBeforeChunkingSize : Nat := 512
def sniffedType : String := "text/plain; charset=utf-8"
def dateStub : String := "D"

/-! ## chunkWriter.writeHeader as a pure decision function -/

structure HIn where
  rq : Req
  ka : Bool                      -- server.DoKeepAlives()
  status : Nat
  header : Hdr                   -- cw.header (nil ↦ [])
  contentLength : Option Nat     -- w.contentLength (-1 ↦ none)
  closeIn : Bool                 -- w.closeAfterReply on entry
  handlerDone : Bool
  pLen : Nat                     -- len(p)
  owned : Bool := true           -- cw.header != nil (else `header` is the live handlerHeader and nothing of it is written)
  deriving Repr

structure HOut where
  lines : List (String × String) -- header lines after the status line, in wire order
  chunking : Bool
  close : Bool                   -- w.closeAfterReply on exit
  contentLength : Option Nat     -- w.contentLength on exit
  limitHit : Bool                -- w.requestBodyLimitHit
  bodyLeft : Nat                 -- unread request body bytes on exit
  deriving Repr

def extraLines (date : Bool) (cl : Option Nat) (ct conn te : String) : List (String × String) :=
  (if date then [("Date", dateStub)] else []) ++
  (match cl with | some n => [("Content-Length", toString n)] | none => []) ++
  (if ct ≠ "" then [("Content-Type", ct)] else []) ++
  (if conn ≠ "" then [("Connection", conn)] else []) ++
  (if te ≠ "" then [("Transfer-Encoding", te)] else [])

def decideHeader (i : HIn) : HOut :=
  let h0 := i.header
  let isHEAD := i.rq.isHead
  -- computed Content-Length for a finished handler
  let setCL : Option Nat :=
    if i.handlerDone && i.status != 304 && h0.get "Content-Length" == "" && (!isHEAD || i.pLen > 0)
    then some i.pLen else none
  let cl1 : Option Nat := match setCL with | some n => some n | none => i.contentLength
  -- HTTP/1.0 keep-alive
  let close1 : Bool :=
    if i.rq.wants10KA && h0.get "Content-Length" != "" && h0.get "Connection" == "keep-alive"
    then false else i.closeIn
  let hasCL := cl1.isSome
  let ka10 := i.rq.wants10KA && (isHEAD || hasCL)
  let setConn1 : String := if ka10 && !h0.has "Connection" then "keep-alive" else ""
  let close2 : Bool := if ka10 then close1 else if !i.rq.proto11 || i.rq.wantsClose then true else close1
  let close3 := close2 || h0.get "Connection" == "close"
  let close4 := close3 || !i.ka
  -- client asked for 100-continue and never got it: do not reuse the connection (fix C28-expect)
  let close4 := close4 || (i.rq.expecter && !i.rq.wroteContinue)
  -- post-handler drain of the request body
  let doDrain := i.rq.clNonZero && !close4 && (!i.rq.expecter || i.rq.wroteContinue)
  let n := min i.rq.bodyLeft (maxPostHandlerReadBytes + 1)
  let tooLarge := doDrain && n ≥ maxPostHandlerReadBytes
  let close5 := close4 || tooLarge
  let h1 := if tooLarge then h0.del "Connection" else h0
  let setConn2 := if tooLarge then "close" else setConn1
  let left := if doDrain then (if tooLarge then i.rq.bodyLeft - n else 0) else i.rq.bodyLeft
  -- 304 / sniffing / Date
  let is304 := i.status == 304
  -- 1xx is treated like 304 for the entity headers and like 204 for the framing choice (repair bb8afff)
  let is1xx := 100 ≤ i.status && i.status ≤ 199
  let noEntity := is304 || is1xx
  let h2 := if noEntity then ((h1.del "Content-Type").del "Content-Length").del "Transfer-Encoding" else h1
  let setCT := if !noEntity && !h2.has "Content-Type" then sniffedType else ""
  let setDate := !h2.has "Date"
  let te := h2.get "Transfer-Encoding"
  let hasTE := te != ""
  let clash := hasCL && hasTE && te != "identity"
  let h3 := if clash then h2.del "Content-Length" else h2
  let hasCL2 := hasCL && !clash
  -- framing decision
  let bodyless := isHEAD || is304
  let noContent := i.status == 204 || is1xx
  let chunking := !bodyless && !noContent && !hasCL2 && i.rq.proto11
  let close6 := close5 || (!bodyless && !noContent && !hasCL2 && !i.rq.proto11)
  let h4 := if bodyless || chunking then h3 else h3.del "Transfer-Encoding"
  let setTE := if chunking then "chunked" else ""
  let h5 := if chunking then h4.del "Content-Length" else h4
  -- Connection: close announcement
  let ann := close6 && !(i.owned && hasToken (h5.get "Connection") "close")   -- cw.header.GetDirect: nil map when not owned
  let h6 := if ann then h5.del "Connection" else h5
  let setConn3 := if ann && i.rq.proto11 then "close" else setConn2
  { lines := (if i.owned then h6.lines else []) ++ extraLines setDate setCL setCT setConn3 setTE
    chunking := chunking
    close := close6
    contentLength := cl1
    limitHit := tooLarge
    bodyLeft := left }

/-! ## response + bufio.Writer + chunkWriter as a state machine -/

structure St where
  rq : Req
  ka : Bool
  wroteHeader : Bool := false
  status : Nat := 0
  calledHeader : Bool := false
  handlerHeader : Hdr := []
  cwHeader : Option Hdr := none
  written : Nat := 0
  contentLength : Option Nat := none
  close : Bool := false
  limitHit : Bool := false
  handlerDone : Bool := false
  buf : Bytes := []                         -- response.w (512-byte bufio.Writer)
  cwWrote : Bool := false
  chunking : Bool := false
  head : Option (Nat × List (String × String)) := none   -- status code and header lines on the wire
  pieces : List Bytes := []                 -- payload of every chunkWriter.Write that reached conn.buf
  terminator : Bool := false                -- "0\r\n\r\n" written
  bodyLeft : Nat := 0
  writeRes : List Nat := []                 -- per Write: 0 ok, 1 ErrBodyNotAllowed, 2 ErrContentLength
  deriving Repr

def parseCL (s : String) : Option Nat :=                 -- strconv.ParseInt(cl,10,64) with v >= 0
  let cs := s.toList
  let cs := match cs with | '+' :: t => t | _ => cs
  if cs.isEmpty || !cs.all Char.isDigit then none
  else
    let v := cs.foldl (fun a c => a * 10 + (c.toNat - 48)) 0
    if v < 2 ^ 63 then some v else none

/-- response.WriteHeader -/
def doWriteHeader (s : St) (code : Nat) : St :=
  if s.wroteHeader then s else
  -- graceful shutdown: HTTP/1.1 clients are told that the connection will be closed
  let hh := if s.rq.graceful && s.rq.proto11 then s.handlerHeader.set "Connection" "close" else s.handlerHeader
  let cwh := if s.calledHeader && s.cwHeader.isNone then some hh else s.cwHeader
  let cl := hh.get "Content-Length"
  let pcl := parseCL cl
  { s with
    wroteHeader := true, status := code, cwHeader := cwh
    contentLength := if cl != "" then (match pcl with | some v => some v | none => s.contentLength) else s.contentLength
    -- an invalid Content-Length is deleted from handlerHeader only AFTER the clone above
    handlerHeader := if cl != "" && pcl.isNone then hh.del "Content-Length" else hh }

/-- response.Header() followed by a mutation `f` of the returned map. -/
def doHeaderOp (s : St) (f : Hdr → Hdr) : St :=
  { s with
    cwHeader := if s.cwHeader.isNone && s.wroteHeader && !s.cwWrote then some s.handlerHeader else s.cwHeader
    calledHeader := true
    handlerHeader := f s.handlerHeader }

/-- chunkWriter.writeHeader(p) with len(p) = pLen -/
def applyHeader (s : St) (pLen : Nat) : St :=
  if s.cwWrote then s else
  let o := decideHeader { rq := { s.rq with bodyLeft := s.bodyLeft }, ka := s.ka, status := s.status,
                          header := (match s.cwHeader with | some h => h | none => s.handlerHeader),
                          owned := s.cwHeader.isSome, contentLength := s.contentLength,
                          closeIn := s.close, handlerDone := s.handlerDone, pLen := pLen }
  { s with cwWrote := true, chunking := o.chunking, close := o.close, contentLength := o.contentLength,
           limitHit := s.limitHit || o.limitHit, bodyLeft := o.bodyLeft,
           head := some (s.status, o.lines),
           calledHeader := s.calledHeader || o.limitHit,
           handlerHeader := if o.limitHit then s.handlerHeader.set "Connection" "close" else s.handlerHeader }

/-- chunkWriter.Write(p) -/
def cwWrite (s : St) (p : Bytes) : St :=
  let s := applyHeader s p.length
  if s.rq.isHead then s else { s with pieces := s.pieces ++ [p] }

/-- bufio.Writer.Write(p) on the 512-byte buffer in front of the chunkWriter -/
def bufWrite (s : St) (p : Bytes) : St :=
  let avail := bufferBeforeChunkingSize - s.buf.length
  if p.length ≤ avail then { s with buf := s.buf ++ p }
  else if s.buf.isEmpty then cwWrite s p
  else
    let s1 := cwWrite { s with buf := [] } (s.buf ++ p.take avail)
    let p' := p.drop avail
    if p'.length > bufferBeforeChunkingSize then cwWrite s1 p' else { s1 with buf := p' }

def bufFlush (s : St) : St :=
  if s.buf.isEmpty then s else cwWrite { s with buf := [] } s.buf

/-- response.write -/
def doWrite (s : St) (data : Bytes) : St :=
  let s := doWriteHeader s 200
  if data.isEmpty then { s with writeRes := s.writeRes ++ [0] }
  else if s.status == 304 then { s with writeRes := s.writeRes ++ [1] }
  else
    let s := { s with written := s.written + data.length }
    match s.contentLength with
    | some cl =>
      if s.written > cl then { s with writeRes := s.writeRes ++ [2] }
      else { bufWrite s data with writeRes := s.writeRes ++ [0] }
    | none => { bufWrite s data with writeRes := s.writeRes ++ [0] }

/-- response.Flush -/
def doFlush (s : St) : St :=
  let s := doWriteHeader s 200
  let s := bufFlush s
  applyHeader s 0

def step (s : St) : Act → St
  | .set k v => doHeaderOp s (fun h => h.set k v)
  | .add k v => doHeaderOp s (fun h => h.add k v)
  | .writeHeader c => doWriteHeader s c
  | .write d => doWrite s d
  | .flush => doFlush s

/-- response.finishRequest -/
def finish (s : St) : St :=
  let s := { s with handlerDone := true }
  let s := doWriteHeader s 200
  let s := bufFlush s
  let s := applyHeader s 0                      -- cw.close(): writeHeader(nil) if needed
  let s := if s.chunking then { s with terminator := true } else s
  let s := if !s.close then { s with bodyLeft := 0 } else s        -- req.Body.Close()
  match s.contentLength with
  | some cl =>
    if !s.rq.isHead && s.status != 304 && cl != s.written then { s with close := true } else s
  | none => s

def respond (rq : Req) (ka : Bool) (script : List Act) : St :=
  finish (script.foldl step { rq := rq, ka := ka, bodyLeft := rq.bodyLeft, calledHeader := rq.touchesHeader })

/-! ## Rendering to bytes -/

def statusText (code : Nat) : Option String :=
  match code with
  | 100 => some "Continue" | 101 => some "Switching Protocols"
  | 200 => some "OK" | 201 => some "Created" | 202 => some "Accepted"
  | 203 => some "Non-Authoritative Information" | 204 => some "No Content"
  | 205 => some "Reset Content" | 206 => some "Partial Content"
  | 300 => some "Multiple Choices" | 301 => some "Moved Permanently" | 302 => some "Found"
  | 303 => some "See Other" | 304 => some "Not Modified" | 305 => some "Use Proxy"
  | 307 => some "Temporary Redirect"
  | 400 => some "Bad Request" | 401 => some "Unauthorized" | 402 => some "Payment Required"
  | 403 => some "Forbidden" | 404 => some "Not Found" | 405 => some "Method Not Allowed"
  | 406 => some "Not Acceptable" | 407 => some "Proxy Authentication Required"
  | 408 => some "Request Timeout" | 409 => some "Conflict" | 410 => some "Gone"
  | 411 => some "Length Required" | 412 => some "Precondition Failed"
  | 413 => some "Request Entity Too Large" | 414 => some "Request URI Too Long"
  | 415 => some "Unsupported Media Type" | 416 => some "Requested Range Not Satisfiable"
  | 417 => some "Expectation Failed" | 418 => some "I'm a teapot"
  | 428 => some "Precondition Required" | 429 => some "Too Many Requests"
  | 431 => some "Request Header Fields Too Large"
  | 500 => some "Internal Server Error" | 501 => some "Not Implemented" | 502 => some "Bad Gateway"
  | 503 => some "Service Unavailable" | 504 => some "Gateway Timeout"
  | 505 => some "HTTP Version Not Supported" | 511 => some "Network Authentication Required"
  | _ => none

def protoBytes (proto11 : Bool) : Bytes :=
  if proto11 then [72, 84, 84, 80, 47, 49, 46, 49, 32] else [72, 84, 84, 80, 47, 49, 46, 48, 32]   -- "HTTP/1.x "

def digit (d : Nat) : UInt8 := UInt8.ofNat (48 + d)

/-- strconv.Itoa(code): three digits for 100..999 -/
def codeBytes (code : Nat) : Bytes :=
  if 100 ≤ code ∧ code ≤ 999 then [digit (code / 100), digit (code / 10 % 10), digit (code % 10)]
  else strBytes (toString code)

def reasonBytes (code : Nat) : Bytes :=
  match statusText code with
  | some t => strBytes t
  | none => strBytes "status code " ++ codeBytes code

/-- statusLine(req, code) without the CRLF -/
def statusLine (proto11 : Bool) (code : Nat) : Bytes :=
  protoBytes proto11 ++ codeBytes code ++ [32] ++ reasonBytes code

def crlf : Bytes := [13, 10]

def hexDigitC (n : Nat) : UInt8 := if n < 10 then UInt8.ofNat (48 + n) else UInt8.ofNat (87 + n)

def hexNatAux : Nat → Nat → Bytes → Bytes
  | 0, _, acc => acc
  | fuel + 1, n, acc =>
    if n < 16 then hexDigitC n :: acc else hexNatAux fuel (n / 16) (hexDigitC (n % 16) :: acc)

/-- `fmt.Fprintf("%x", n)` -/
def hexNat (n : Nat) : Bytes := hexNatAux 64 n []

def renderHead (proto11 : Bool) (code : Nat) (lines : List (String × String)) : Bytes :=
  statusLine proto11 code ++ crlf ++
  lines.flatMap (fun kv => strBytes kv.1 ++ strBytes ": " ++ strBytes kv.2 ++ crlf) ++ crlf

def renderPiece (chunking : Bool) (p : Bytes) : Bytes :=
  if chunking then hexNat p.length ++ crlf ++ p ++ crlf else p

def render (s : St) : Bytes :=
  (match s.head with | some (c, ls) => renderHead s.rq.proto11 c ls | none => []) ++
  s.pieces.flatMap (renderPiece s.chunking) ++
  (if s.terminator then strBytes "0\r\n\r\n" else [])

/-! ## statusLine()'s process-wide cache (`statusLines`), as state threaded through a history of exchanges -/

/-- cache key: `code` for HTTP/1.1, `-code` otherwise -/
def cacheKey (proto11 : Bool) (code : Nat) : Int := if proto11 then (code : Int) else -(code : Int)

abbrev Cache := List (Int × Bytes)

/-- statusLine(req, code): fast path = cached line; slow path builds the line and caches it under
    `key` when the code has an official text -/
def statusLineCached (cache : Cache) (proto11 : Bool) (code : Nat) : Bytes × Cache :=
  let key := cacheKey proto11 code
  match cache.lookup key with
  | some l => (l, cache)
  | none =>
    let l := statusLine proto11 code
    (l, if (statusText code).isSome then (key, l) :: cache else cache)

/-- `render` with the status line taken through the cache -/
def renderCached (cache : Cache) (s : St) : Bytes × Cache :=
  match s.head with
  | none => (render s, cache)
  | some (c, ls) =>
    let (sl, cache') := statusLineCached cache s.rq.proto11 c
    (sl ++ crlf ++ ls.flatMap (fun kv => strBytes kv.1 ++ strBytes ": " ++ strBytes kv.2 ++ crlf) ++ crlf ++
       s.pieces.flatMap (renderPiece s.chunking) ++ (if s.terminator then strBytes "0\r\n\r\n" else []),
     cache')

/-- a history of exchanges (each on its own connection) in one process; the cache starts empty -/
def history (cache : Cache) : List (Req × Bool × List Act) → List (St × Bytes)
  | [] => []
  | (rq, ka, script) :: t =>
    let s := respond rq ka script
    let (b, cache') := renderCached cache s
    (s, b) :: history cache' t

/-- two responses written at the same time on two connections (A stalls inside its head write, B is
    written completely, A resumes): the code shares only process-wide caches between them — the
    Status-Line cache (A's statusLine() call comes first) and bfe_http's headerSorterCache, whose
    sorters carry no content from one WriteSubset to the next — so the model is the two exchanges
    computed independently. -/
def pairRun (a b : Req × Bool × List Act) : List (St × Bytes) := history [] [a, b]

/-! ## Responses that come from a backend as wire bytes (ReadResponse → ReverseProxy.sendResponse) -/

inductive BFraming where
  | len (n m : Nat)                                   -- Content-Length n, m body bytes on the wire
  | chunked (sizes : List Nat) (trailer cut : Bool)    -- cut: the stream ends inside the last chunk
  | none (m : Nat)                                     -- no framing: m bytes, then EOF
  deriving Repr, DecidableEq

structure Backend where
  status : Nat
  framing : BFraming
  connKeepAlive : Bool     -- `Connection: keep-alive` (a `Connection: close` is removed by ReadResponse)
  contentType : Bool
  big : Bool               -- a 5000-byte header value
  deriving Repr

def statusBodyless (st : Nat) : Bool := (100 ≤ st && st < 200) || st == 204 || st == 304

/-- readTransfer: is res.Body a real reader (else EofReader)?  chunked wins over the status. -/
def Backend.bodyRead (b : Backend) (isHead : Bool) : Bool :=
  match b.framing with
  | .chunked _ _ _ => !isHead
  | .len n _ => !isHead && !statusBodyless b.status && n != 0
  | .none _ => !isHead && !statusBodyless b.status

/-- bytes the body reader delivers before EOF / error, and whether it ends with an error -/
def Backend.delivered (b : Backend) : Nat × Bool :=
  match b.framing with
  | .len n m => (min n m, decide (m < n))
  | .chunked sizes _ cut =>
    if cut then (sizes.dropLast.sum + (sizes.getLast?.getD 0) / 2, true) else (sizes.sum, false)
  | .none m => (m, false)

/-- what sendResponse does on the ResponseWriter: CopyHeader, WriteHeader(status), io.Copy of the body -/
def Backend.script (b : Backend) (isHead : Bool) : List Act :=
  [Act.add "X-Id" "b"] ++
  (if b.connKeepAlive then [Act.add "Connection" "keep-alive"] else []) ++
  (if b.contentType then [Act.add "Content-Type" "text/x"] else []) ++
  (if b.big then [Act.add "X-Big" (String.ofList (List.replicate 5000 'g'))] else []) ++
  (match b.framing with | .len n _ => [Act.add "Content-Length" (toString n)] | _ => []) ++
  [Act.writeHeader b.status] ++
  (if b.bodyRead isHead && b.delivered.1 > 0 then [Act.write (List.replicate b.delivered.1 120)] else [])

/-- (state, the connection is closed after the reply) — a copy error makes ServeHTTP close after the reply -/
def respondBackend (rq : Req) (ka : Bool) (b : Backend) : St × Bool :=
  let s := respond rq ka (b.script rq.isHead)
  let sendErr := (b.bodyRead rq.isHead && b.delivered.2) || s.writeRes.any (· != 0)
  (s, s.close || sendErr)

/-! ## SPEC: how an RFC 7230 recipient delimits the response -/

inductive Framing where
  | none                -- no body (HEAD, 1xx, 204, 304)
  | chunked
  | length (n : Nat)
  | untilClose
  | invalid             -- recipient must treat the message as unrecoverable
  deriving Repr, DecidableEq

def eqFold (a b : String) : Bool := a.toList.map lowerC == b.toList.map lowerC

/-- all comma separated elements of all header lines named `k` (case-insensitive), trimmed -/
def fieldList (lines : List (String × String)) (k : String) : List String :=
  (lines.filter (fun kv => eqFold kv.1 k)).flatMap
    (fun kv => (splitTokAux kv.2.toList []).filter (fun p => !p.isEmpty) |>.map (fun p => String.ofList (p.map lowerC)))

def parseDec (s : String) : Option Nat :=
  let cs := s.toList
  if cs.isEmpty || !cs.all Char.isDigit then none
  else some (cs.foldl (fun a c => a * 10 + (c.toNat - 48)) 0)

def bodylessStatus (isHead : Bool) (status : Nat) : Bool :=
  isHead || (100 ≤ status && status < 200) || status == 204 || status == 304

/-- RFC 7230 §3.3.3 applied to a response head. -/
def rfcFraming (isHead : Bool) (status : Nat) (lines : List (String × String)) : Framing :=
  if bodylessStatus isHead status then .none
  else
    let te := fieldList lines "transfer-encoding"
    if !te.isEmpty then
      if te.getLast? == some "chunked" then
        (if te.dropLast.contains "chunked" then .invalid else .chunked)   -- chunked applied twice
      else .untilClose
    else
      let cls := (lines.filter (fun kv => eqFold kv.1 "content-length")).map (fun kv => kv.2)
      match cls with
      | [] => .untilClose
      | v :: rest =>
        match parseDec v with
        | some n => if rest.all (fun w => w == v) then .length n else .invalid
        | none => .invalid

/-! ### Byte-level reference parser (oracle on the implementation's bytes) -/

structure Parsed where
  proto11 : Bool
  status : Nat
  lines : List (String × String)
  framing : Framing
  body : Bytes
  rest : Bytes            -- bytes after the end of the message
  complete : Bool         -- false: the message ends before its declared length / terminator
  deriving Repr

/-- split at the first CRLF -/
def takeLine : Bytes → Bytes → Option (Bytes × Bytes)
  | [], _ => none
  | 13 :: 10 :: t, acc => some (acc.reverse, t)
  | b :: t, acc => takeLine t (b :: acc)

def bytesStr (b : Bytes) : String := String.ofList (b.map (fun x => Char.ofNat x.toNat))

def parseHeaderLines : Nat → Bytes → List (String × String) → Option (List (String × String) × Bytes)
  | 0, _, _ => none
  | fuel + 1, bs, acc =>
    match takeLine bs [] with
    | none => none
    | some (l, t) =>
      if l.isEmpty then some (acc.reverse, t)
      else
        let k := l.takeWhile (· != 58)
        let v := (l.dropWhile (· != 58)).drop 1
        if k.isEmpty || k.length == l.length || k.any (fun c => c == 32 || c == 9) then none
        else
          let v := v.dropWhile (fun c => c == 32 || c == 9)
          let v := (v.reverse.dropWhile (fun c => c == 32 || c == 9)).reverse
          parseHeaderLines fuel t ((bytesStr k, bytesStr v) :: acc)

def hexValB (c : UInt8) : Option Nat :=
  if 48 ≤ c && c ≤ 57 then some (c.toNat - 48)
  else if 97 ≤ c && c ≤ 102 then some (c.toNat - 87)
  else if 65 ≤ c && c ≤ 70 then some (c.toNat - 55)
  else none

def parseHexLine (l : Bytes) : Option Nat :=
  let l := l.takeWhile (· != 59)      -- chunk-ext ignored
  if l.isEmpty then none
  else l.foldl (fun a c => match a, hexValB c with | some x, some d => some (x * 16 + d) | _, _ => none) (some 0)

/-- RFC 7230 §4.1 chunked decoder: (body, rest, complete) ; `none` = malformed -/
def dechunk : Nat → Bytes → Bytes → Option (Bytes × Bytes × Bool)
  | 0, _, _ => none
  | fuel + 1, bs, acc =>
    match takeLine bs [] with
    | none => some (acc, [], false)
    | some (l, t) =>
      match parseHexLine l with
      | none => none
      | some 0 =>
        -- trailer section: header lines until an empty line
        match parseHeaderLines (fuel + 1) t [] with
        | some (_, r) => some (acc, r, true)
        | none => some (acc, [], false)
      | some n =>
        if t.length < n + 2 then some (acc ++ t.take n, [], false)
        else if (t.drop n).take 2 != crlf then none
        else dechunk fuel (t.drop (n + 2)) (acc ++ t.take n)

def isDig (c : UInt8) : Bool := 48 ≤ c && c ≤ 57

/-- `HTTP/1.x SSS[ reason]` -/
def parseStatusLine (l : Bytes) : Option (Bool × Nat) :=
  let pre := l.take 9
  let p11 := pre == protoBytes true
  if !(p11 || pre == protoBytes false) then none
  else match (l.drop 9).take 3 with
    | [a, b, c] =>
      let sp := (l.drop 12).take 1
      if isDig a && isDig b && isDig c && (sp == [32] || sp == []) then
        some (p11, (a.toNat - 48) * 100 + (b.toNat - 48) * 10 + (c.toNat - 48))
      else none
    | _ => none

/-- Reference parser for ONE response at the start of `bs` (answering a HEAD request iff `isHead`).
    `none` = not a well-formed HTTP/1.x response head / body coding. -/
def rfcResponse (isHead : Bool) (bs : Bytes) : Option Parsed :=
  match takeLine bs [] with
  | none => none
  | some (l, t) =>
    match parseStatusLine l with
    | none => none
    | some (p11, code) =>
      match parseHeaderLines (bs.length + 1) t [] with
      | none => none
      | some (lines, r) =>
        let fr := rfcFraming isHead code lines
        match fr with
        | .none => some ⟨p11, code, lines, fr, [], r, true⟩
        | .length n => some ⟨p11, code, lines, fr, r.take n, r.drop n, decide (n ≤ r.length)⟩
        | .untilClose => some ⟨p11, code, lines, fr, r, [], true⟩
        | .invalid => some ⟨p11, code, lines, fr, [], r, true⟩
        | .chunked =>
          match dechunk (r.length + 1) r [] with
          | none => none
          | some (b, rest, c) => some ⟨p11, code, lines, fr, b, rest, c⟩

/-! ## SPEC: what the property demands of the bytes, judged on the implementation's own output -/

/-- first action that (logically) writes the header decides the status -/
def expectedStatus : List Act → Nat
  | [] => 200
  | .writeHeader c :: _ => c
  | .write _ :: _ => 200
  | .flush :: _ => 200
  | _ :: t => expectedStatus t

/-- header map the handler had built when the header was logically written -/
def expectedHeaderAux : List Act → Hdr → Hdr
  | [], h => h
  | .set k v :: t, h => expectedHeaderAux t (h.set k v)
  | .add k v :: t, h => expectedHeaderAux t (h.add k v)
  | _ :: _, h => h

def hopHeader (k : String) : Bool :=
  k == "Connection" || k == "Content-Length" || k == "Transfer-Encoding"

/-- end-to-end header lines the client must see -/
def expectedEndToEnd (script : List Act) : List (String × String) :=
  ((expectedHeaderAux script []).filter (fun kv => !hopHeader kv.1)).flatMap
    (fun kv => kv.2.map (fun v => (kv.1, v)))

/-- payload of the writes the implementation accepted (result digit 0) -/
def acceptedBody : List Act → List Nat → Bytes
  | [], _ => []
  | .write d :: t, r :: rs => (if r == 0 then d else []) ++ acceptedBody t rs
  | .write _ :: t, [] => acceptedBody t []
  | _ :: t, rs => acceptedBody t rs

/-- SPEC for concurrent responses: a connection's response carries no end-to-end header line that only
    the OTHER response's handler set -/
def crossHeader (isHead : Bool) (own other : List Act) (out : Bytes) : Bool :=
  match rfcResponse isHead out with
  | some p =>
    ((expectedEndToEnd other).filter (fun kv => !(expectedEndToEnd own).contains kv)).any
      (fun kv => p.lines.contains kv)
  | none => false

def statusClass (isHead : Bool) (st : Nat) : String :=
  if st == 204 then "204" else if st == 304 then "304" else if st < 200 then "1xx"
  else if isHead then "head" else "other"

/-- The C27 verdict on one exchange (`proto11`: the request was HTTP/1.1): `out` are the bytes the implementation put on the wire,
    `close` its closeAfterReply, `wres` the results of the handler's Write calls. -/
def judge (isHead proto11 : Bool) (script : List Act) (close : Bool) (wres : List Nat) (out : Bytes) : String :=
  let st := expectedStatus script
  if st < 100 || st > 999 then "skip" else
  match rfcResponse isHead out with
  | none => "FAIL:unparseable"
  | some p =>
    if p.status != st then "FAIL:status"
    -- RFC 7230 3.3.1: no Transfer-Encoding towards a recipient that is told it gets HTTP/1.0
    else if !p.proto11 && !bodylessStatus isHead st && !(fieldList p.lines "transfer-encoding").isEmpty then
      "FAIL:chunked-on-http10-status"
    -- the status line carries the version bfe answers this request with (HTTP/1.1 iff the request is >= 1.1)
    else if p.proto11 != proto11 then "FAIL:status-version-wrong"
    else if p.framing == .invalid then
      (if (fieldList p.lines "transfer-encoding").isEmpty then "FAIL:bad-content-length" else "FAIL:te-chunked-twice")
    else if !p.complete && !close then "FAIL:truncated-no-close"
    else if !p.rest.isEmpty then
      (if bodylessStatus isHead st then "FAIL:body-after-" ++ statusClass isHead st else "FAIL:trailing-bytes")
    else
      let want := if bodylessStatus isHead st then [] else acceptedBody script wres
      if p.body != want then "FAIL:body-mismatch"
      else if p.framing == .untilClose && !close then "FAIL:undelimited-keepalive"
      else
        let missing := (expectedEndToEnd script).filter (fun kv => !p.lines.contains kv)
        match missing with
        | [] => "ok"
        | (k, _) :: _ =>
          -- a 1xx response has no representation a Content-Type could describe: dropping it is right
          if st < 200 && (expectedEndToEnd script).all (fun kv => p.lines.contains kv || kv.1 == "Content-Type") then "ok"
          else if st == 304 && k == "Content-Type" then "FAIL:hdr-dropped-304-content-type"
          else "FAIL:hdr-dropped"

/-- SPEC for a backend response: as `judge`, with the backend's own end-to-end headers and body as the
    reference; if the backend's body ended early (short of its Content-Length / inside a chunk) the client
    must be able to notice: the response it gets must not be a complete, self-delimited message. -/
def judgeBackend (isHead proto11 : Bool) (b : Backend) (close : Bool) (out : Bytes) : String :=
  let truncated := b.bodyRead isHead && b.delivered.2
  if truncated && !bodylessStatus isHead b.status then
    match rfcResponse isHead out with
    | none => "FAIL:unparseable"
    | some p =>
      if p.status != b.status then "FAIL:status"
      else if p.complete && p.framing != .untilClose then "FAIL:backend-truncation-masked"
      else if !close then "FAIL:truncated-no-close"
      else "ok"
  else judge isHead proto11 (b.script isHead) close [0] out


end BfeVerif.C27
