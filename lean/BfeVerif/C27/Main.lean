import BfeVerif.C27.Driver
def main : IO Unit := BfeVerif.Proto.driverMain BfeVerif.C27.run
