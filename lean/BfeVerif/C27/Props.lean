import BfeVerif.C27.Proofs
/-!
  C27 — HTTP/1 responses to clients are correctly framed.  Property theorems only.

  Full statement (does NOT hold for the code, see the witnesses):
    `∀ rq ka script, judge rq.isHead script s.close s.writeRes (render s) = "ok"`  for `s = respond rq ka script`
  (the bytes parse as exactly one response with the handler's status, end-to-end headers and accepted
  body, nothing follows it, and a body delimited by connection close implies closeAfterReply).
-/
namespace BfeVerif.C27

/-- finishRequest: a declared Content-Length that differs from the number of body bytes the handler
    wrote (too few, or an attempt to write too many) always ends with closeAfterReply. -/
theorem C27_cl_mismatch_closes (rq : Req) (ka : Bool) (script : List Act) (cl : Nat) :
    (respond rq ka script).contentLength = some cl → (respond rq ka script).rq.isHead = false →
    (respond rq ka script).status ≠ 304 → cl ≠ (respond rq ka script).written →
    (respond rq ka script).close = true := by
  unfold respond
  exact finish_mismatch _ cl

/-- writeHeader while the handler is still running and declared no (valid) Content-Length, for a
    response that may carry a body: on HTTP/1.0 the body can only be delimited by closing and
    closeAfterReply is decided; on HTTP/1.1 chunking is decided. -/
theorem C27_close_if_undelimited (i : HIn) (hh : i.rq.isHead = false) (h3 : i.status ≠ 304) (h2 : i.status ≠ 204)
    (hc : i.contentLength = none) (hd : i.handlerDone = false) :
    (i.rq.proto11 = false → (decideHeader i).close = true ∧ (decideHeader i).chunking = false) ∧
    (i.rq.proto11 = true → (decideHeader i).chunking = true) := by
  constructor
  · intro hp; simp [decideHeader, hh, h3, hc, hd, hp]
  · intro hp; simp [decideHeader, hh, h3, h2, hc, hd, hp]

/-- chunking is only ever chosen for an HTTP/1.1 request, never for HEAD / 204 / 304. -/
theorem C27_chunking_sound (i : HIn) (hc : (decideHeader i).chunking = true) :
    i.rq.proto11 = true ∧ i.rq.isHead = false ∧ i.status ≠ 204 ∧ i.status ≠ 304 := by
  unfold decideHeader at hc
  simp only [] at hc
  simp only [Bool.and_eq_true, Bool.not_eq_true', Bool.or_eq_false_iff, bne_iff_ne, ne_eq,
    beq_eq_false_iff_ne] at hc
  exact ⟨hc.2, hc.1.1.1.1, hc.1.1.2, hc.1.1.1.2⟩

/-! ### Witnesses: the full statement fails on the unchanged code (replayed in corpus/C27/known.ops) -/

def get11 : Req := { isHead := false, proto11 := true, conn := "", clNonZero := false, bodyLeft := 0 }

/-- `Bodyless`: what the full statement demands for 1xx / 204 / 304 / HEAD — nothing follows the head. -/
abbrev NothingAfterHead (s : St) : Prop := s.pieces = [] ∧ s.terminator = false

/-- body bytes follow a 204 (the handler's Write is accepted and reaches the wire unframed) -/
theorem C27_witness_204 :
    ¬ NothingAfterHead (respond get11 true [.writeHeader 204, .write [97]]) ∧
    (respond get11 true [.writeHeader 204, .write [97]]).status = 204 := by decide

/-- a 1xx status flushed by the handler is sent with chunked framing and a `0\r\n\r\n` body -/
theorem C27_witness_1xx :
    ¬ NothingAfterHead (respond get11 true [.writeHeader 101, .flush]) ∧
    (respond get11 true [.writeHeader 101, .flush]).chunking = true := by decide

/-! Non-vacuity: ordinary exchanges. -/
example : NothingAfterHead (respond get11 true [.writeHeader 204]) := by decide
example : NothingAfterHead (respond { get11 with isHead := true } true [.write [97, 98]]) := by decide
example : (respond get11 true [.set "Content-Length" "2", .write [97]]).close = true := by decide
example : (respond get11 true [.set "Content-Length" "1", .write [97]]).close = false := by decide
example : (decideHeader { rq := { get11 with proto11 := false }, ka := true, status := 200, header := [], contentLength := none,
                          closeIn := false, handlerDone := false, pLen := 3 }).close = true := by decide

end BfeVerif.C27
