import BfeVerif.C27.Proofs
/-!
  C27 — HTTP/1 responses to clients are correctly framed.  Property theorems only.

  Full statement (does NOT hold for the code, see the witnesses):
    `∀ rq ka script, judge rq.isHead script s.close s.writeRes (render s) = "ok"`  for `s = respond rq ka script`
  (the bytes parse as exactly one response with the handler's status, end-to-end headers and accepted
  body, nothing follows it, and a body delimited by connection close implies closeAfterReply).
-/
namespace BfeVerif.C27

/-- finishRequest: a declared Content-Length that differs from the number of body bytes the handler
    wrote (too few, or an attempt to write too many) always ends with closeAfterReply. -/
theorem C27_cl_mismatch_closes (rq : Req) (ka : Bool) (script : List Act) (cl : Nat) :
    (respond rq ka script).contentLength = some cl → (respond rq ka script).rq.isHead = false →
    (respond rq ka script).status ≠ 304 → cl ≠ (respond rq ka script).written →
    (respond rq ka script).close = true := by
  unfold respond
  exact finish_mismatch _ cl

/-- writeHeader while the handler is still running and declared no (valid) Content-Length, for a
    response that may carry a body: on HTTP/1.0 the body can only be delimited by closing and
    closeAfterReply is decided; on HTTP/1.1 chunking is decided. -/
theorem C27_close_if_undelimited (i : HIn) (hh : i.rq.isHead = false) (h3 : i.status ≠ 304) (h2 : i.status ≠ 204)
    (h1 : ¬ (100 ≤ i.status ∧ i.status ≤ 199))
    (hc : i.contentLength = none) (hd : i.handlerDone = false) :
    (i.rq.proto11 = false → (decideHeader i).close = true ∧ (decideHeader i).chunking = false) ∧
    (i.rq.proto11 = true → (decideHeader i).chunking = true) := by
  constructor
  · intro hp; simp [decideHeader, hh, h3, hc, hd, hp]
  · intro hp; simp [decideHeader, hh, h3, h2, hc, hd, hp]; omega

/-- chunking is only ever chosen for an HTTP/1.1 request, never for HEAD / 204 / 304 / 1xx. -/
theorem C27_chunking_sound (i : HIn) (hc : (decideHeader i).chunking = true) :
    i.rq.proto11 = true ∧ i.rq.isHead = false ∧ i.status ≠ 204 ∧ i.status ≠ 304 ∧
    ¬ (100 ≤ i.status ∧ i.status ≤ 199) := by
  unfold decideHeader at hc
  simp only [] at hc
  simp only [Bool.and_eq_true, Bool.not_eq_true', Bool.or_eq_false_iff, bne_iff_ne, ne_eq,
    beq_eq_false_iff_ne, Bool.and_eq_false_iff, decide_eq_false_iff_not, decide_eq_true_eq] at hc
  obtain ⟨⟨⟨⟨hh, h304⟩, ⟨h204, h1xx⟩⟩, _⟩, hp⟩ := hc
  exact ⟨hp, hh, h204, h304, by omega⟩

/-- **Histories.**  statusLine()'s process-wide Status-Line cache is transparent: in every history of
    exchanges (any mix of HTTP/1.0 and HTTP/1.1 requests and statuses, starting from an empty cache) each
    response is byte-for-byte what the exchange would produce on its own — in particular its status line
    carries the version of ITS request, whatever was cached before.  (The proof needs the cache key to
    separate the versions: `CacheOK` = every entry holds the line of its own key.) -/
theorem C27_cache_transparent (es : List (Req × Bool × List Act)) :
    ∀ sb ∈ history [] es, sb.2 = render sb.1 :=
  history_ok es [] (by intro kl h; simp at h)

/-- **Non-interference of concurrent responses.**  What is written on a connection depends only on that
    connection's own exchange: for two responses written at the same time (any interleaving the harness
    can schedule) each connection's bytes are exactly the bytes of its own exchange run alone.  Trivial in
    the model — which has no shared mutable state besides the (transparent) Status-Line cache — but it is
    the claim the correspondence run ties to the code with the interleaved `p` cases. -/
theorem C27_noninterference (a b : Req × Bool × List Act) :
    (pairRun a b).map Prod.snd = [render (respond a.1 a.2.1 a.2.2), render (respond b.1 b.2.1 b.2.2)] := by
  obtain ⟨ra, ka, sa⟩ := a
  obtain ⟨rb, kb, sb⟩ := b
  have h0 : CacheOK [] := by intro kl h; simp at h
  have h1 := renderCached_ok [] (respond ra ka sa) h0
  have h2 := renderCached_ok (renderCached [] (respond ra ka sa)).2 (respond rb kb sb) h1.2
  simp [pairRun, history, h1.1, h2.1]

/-- Backend path (ReadResponse → sendResponse): whenever the backend's body ends with an error (short of
    its Content-Length, inside a chunk) the connection to the client is closed after the reply. -/
theorem C27_backend_error_closes (rq : Req) (ka : Bool) (b : Backend)
    (h1 : b.bodyRead rq.isHead = true) (h2 : b.delivered.2 = true) : (respondBackend rq ka b).2 = true := by
  simp [respondBackend, h1, h2]

/-! ### Layers of `C27_parses` (reference parser applied to the rendered bytes)

  Proved so far, each at full strength for its layer: line splitter, status line, Content-Length body,
  hex round trip, chunked body.  NOT yet proved: the header-block layer (`parseHeaderLines` of the
  rendered lines), the model invariant "every piece is non-empty", the link between `rfcFraming` of the
  emitted lines and the writer's chunking / contentLength state, and hence the composition into
  `rfcResponse isHead (render s) = some ⟨…, status, lines, body = accepted writes, rest = [], complete⟩`.
  Until then that clause is exercised by the driver on every case and by the `verdictOf … = "ok"` examples. -/

/-- line layer: the reference parser's line splitter returns any CR-free line of the rendered head
    unchanged and continues right behind its CRLF. -/
theorem C27_parses_layer_line (l t : Bytes) (h : ∀ b ∈ l, b ≠ 13) :
    takeLine (l ++ crlf ++ t) [] = some (l, t) := by
  have := takeLine_append l t [] h
  simpa [crlf] using this

/-- status-line layer: for every status 100..999 and both versions the emitted status line parses back
    to exactly (version, status). -/
theorem C27_parses_layer_status (p11 : Bool) (code : Nat) (h1 : 100 ≤ code) (h2 : code ≤ 999) :
    parseStatusLine (statusLine p11 code) = some (p11, code) :=
  parseStatusLine_statusLine p11 code h1 h2

/-- Content-Length layer: if the bytes after the head are a payload of exactly the announced length
    followed by `rest`, the recipient's body is that payload and `rest` is what remains. -/
theorem C27_parses_layer_cl (payload rest : Bytes) :
    (payload ++ rest).take payload.length = payload ∧ (payload ++ rest).drop payload.length = rest ∧
    decide (payload.length ≤ (payload ++ rest).length) = true := by
  refine ⟨(cl_body payload rest).1, (cl_body payload rest).2, by simp⟩

/-- hex round trip (bfe_server's chunkWriter writes the size with `%x`): the size line reads back as the
    same number and contains no CR. -/
theorem C27_parses_layer_hex (n : Nat) (h : n < 16 ^ 64) :
    parseHexLine (hexNat n) = some n ∧ ∀ b ∈ hexNat n, b ≠ 13 :=
  parseHexLine_hexNat n h

/-- chunked layer: what the writer puts behind the head in chunking mode — one chunk per
    chunkWriter.Write (`pieces`, each non-empty), then `0\r\n\r\n` — is decoded by the RFC 7230 §4.1
    reference decoder to exactly the concatenated payloads, marked complete, with `rest` left over
    (`rest = []` for one response; for a pipelined stream the next response).
    The hypothesis "every piece is non-empty" is an invariant of the model's bufio/chunkWriter (a Write of
    0 bytes never reaches the chunkWriter); it is not yet proved as a theorem about `respond`. -/
theorem C27_parses_layer_chunked (pieces : List Bytes) (rest : Bytes)
    (hne : ∀ p ∈ pieces, p ≠ []) (hl : ∀ p ∈ pieces, p.length < 16 ^ 64) :
    dechunk (pieces.length + 1) (pieces.flatMap (renderPiece true) ++ strBytes "0\r\n\r\n" ++ rest) []
      = some (pieces.flatten, rest, true) := by
  simpa using dechunk_pieces pieces rest [] (pieces.length + 1) hne hl (by omega)

/-! ### Witnesses: the full statement fails on the unchanged code (replayed in corpus/C27/known.ops) -/

def get11 : Req := { isHead := false, proto11 := true, conn := "", clNonZero := false, bodyLeft := 0 }

/-- `Bodyless`: what the full statement demands for 1xx / 204 / 304 / HEAD — nothing follows the head. -/
abbrev NothingAfterHead (s : St) : Prop := s.pieces = [] ∧ s.terminator = false

/-- body bytes follow a 204 (the handler's Write is accepted and reaches the wire unframed) -/
theorem C27_witness_204 :
    ¬ NothingAfterHead (respond get11 true [.writeHeader 204, .write [97]]) ∧
    (respond get11 true [.writeHeader 204, .write [97]]).status = 204 := by decide

/-- after repair bb8afff a 1xx head carries no Transfer-Encoding and is never chunked — a flushed 1xx
    is now followed by nothing — but a handler Write after WriteHeader(1xx) is still accepted
    (bodyAllowed only excludes 304) and its bytes follow the 1xx head unframed -/
theorem C27_witness_1xx :
    ¬ NothingAfterHead (respond get11 true [.writeHeader 101, .write [97]]) ∧
    (respond get11 true [.writeHeader 101, .write [97]]).chunking = false ∧
    NothingAfterHead (respond get11 true [.writeHeader 101, .flush]) := by decide

/-- the verdict of the SPEC oracle on the model's own bytes -/
def verdictOf (rq : Req) (script : List Act) : String :=
  judge rq.isHead rq.proto11 script (respond rq true script).close (respond rq true script).writeRes
    (render (respond rq true script))

/-! The full statement `∀ rq script, verdictOf rq script = "ok"` is false in five ways (one theorem per
    known-finding class; each op is replayed on the real code from corpus/C27/known.ops). -/
set_option maxRecDepth 16000 in
theorem C27_witness_204_bytes : verdictOf get11 [.writeHeader 204, .write [97]] = "FAIL:body-after-204" := by decide
set_option maxRecDepth 16000 in
theorem C27_witness_1xx_bytes : verdictOf get11 [.writeHeader 101, .write [97]] = "FAIL:body-after-1xx" := by decide
set_option maxRecDepth 16000 in
/-- the part repaired by bb8afff: a flushed 1xx (what the websocket upgrade sends) is now a clean head -/
theorem C27_1xx_flushed_ok : verdictOf get11 [.writeHeader 101, .flush] = "ok" := by decide
set_option maxRecDepth 16000 in
/-- a handler-set `Transfer-Encoding: chunked` is emitted next to the server's own -/
theorem C27_witness_te_twice :
    verdictOf get11 [.set "Transfer-Encoding" "chunked", .writeHeader 200] = "FAIL:te-chunked-twice" := by decide
set_option maxRecDepth 16000 in
/-- an invalid Content-Length survives in the cloned header and reaches an HTTP/1.0 client -/
theorem C27_witness_bad_cl :
    verdictOf { get11 with proto11 := false } [.set "Content-Length" "abc", .writeHeader 200]
      = "FAIL:bad-content-length" := by decide
set_option maxRecDepth 16000 in
/-- 304 drops the handler's Content-Type -/
theorem C27_witness_304_ct :
    verdictOf get11 [.set "Content-Type" "text/html", .writeHeader 304] = "FAIL:hdr-dropped-304-content-type" := by decide

/-! Non-vacuity of the full statement: ordinary exchanges get verdict `ok` (chunked with two chunks,
    HTTP/1.0 keep-alive with Content-Length, HEAD, until-close on HTTP/1.0). -/
set_option maxRecDepth 16000 in
example : verdictOf get11 [.set "Content-Type" "text/html", .writeHeader 200, .write [97, 98], .flush, .write [99]] = "ok" := by decide
set_option maxRecDepth 16000 in
example : verdictOf { get11 with proto11 := false, conn := "keep-alive" } [.set "Content-Length" "2", .write [97, 98]] = "ok" := by decide
set_option maxRecDepth 16000 in
example : verdictOf { get11 with isHead := true } [.write [97, 98]] = "ok" := by decide
set_option maxRecDepth 16000 in
example : verdictOf { get11 with proto11 := false } [.flush, .write [97, 98]] = "ok" := by decide

/-! A history with a version flip at equal status (HTTP/1.0 then HTTP/1.1, both 200): verdict `ok` for both. -/
set_option maxRecDepth 16000 in
example : (history [] [({ get11 with proto11 := false }, true, []), (get11, true, [])]).map
            (fun sb => judge sb.1.rq.isHead sb.1.rq.proto11 [] sb.1.close sb.1.writeRes sb.2) = ["ok", "ok"] := by decide
/-- what the oracle says to an HTTP/1.0 status line in front of a chunked body for an HTTP/1.1 request -/
example : judge false true [] false []
    (statusLine false 200 ++ crlf ++ strBytes "Transfer-Encoding: chunked" ++ crlf ++ crlf ++ strBytes "0\r\n\r\n")
    = "FAIL:chunked-on-http10-status" := by decide
example : judge false true [] false []
    (statusLine false 200 ++ crlf ++ strBytes "Content-Length: 0" ++ crlf ++ crlf) = "FAIL:status-version-wrong" := by decide

/-! … but closing is all that happens (see `C27_backend_error_closes`): a chunked backend body cut off inside a chunk reaches the client as
    a complete, Content-Length-delimited response (finishRequest computes the length of what arrived), so
    the client cannot notice the truncation (known finding `backend-truncation-masked`). -/
set_option maxRecDepth 16000 in
theorem C27_witness_backend_truncation_masked :
    judgeBackend false true ⟨200, .chunked [3, 4] false true, false, false, false⟩
      (respondBackend get11 true ⟨200, .chunked [3, 4] false true, false, false, false⟩).2
      (render (respondBackend get11 true ⟨200, .chunked [3, 4] false true, false, false, false⟩).1)
    = "FAIL:backend-truncation-masked" := by decide

/-! Non-vacuity: ordinary exchanges. -/
example : NothingAfterHead (respond get11 true [.writeHeader 204]) := by decide
example : NothingAfterHead (respond { get11 with isHead := true } true [.write [97, 98]]) := by decide
example : (respond get11 true [.set "Content-Length" "2", .write [97]]).close = true := by decide
example : (respond get11 true [.set "Content-Length" "1", .write [97]]).close = false := by decide
example : (decideHeader { rq := { get11 with proto11 := false }, ka := true, status := 200, header := [], contentLength := none,
                          closeIn := false, handlerDone := false, pLen := 3 }).close = true := by decide

end BfeVerif.C27
