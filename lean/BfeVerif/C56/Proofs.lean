import BfeVerif.C56.Model
/-! C56 helper lemmas. -/
namespace BfeVerif.C56

theorem unpackInput_post (body : Bytes) (dnsVals : Option (List Bytes)) :
    unpackInput "POST" dnsVals body = some (body.take maxPost) := by
  unfold unpackInput
  simp only [show ("POST" = "GET") = False by decide, if_false, if_true]

theorem to4_isSome_iff (ip : Bytes) : (to4 ip).isSome = true ↔ IsV4 ip := by
  unfold to4 IsV4
  by_cases h : ip.length = 4
  · simp [h]
  · by_cases hm : isV4Mapped ip = true
    · simp [h, hm]
    · simp [h, hm]

theorem familyOf_v4 (ip : Bytes) (h : IsV4 ip) : familyOf ip = (1, 32) := by
  have := (to4_isSome_iff ip).mpr h
  unfold familyOf
  cases h4 : to4 ip <;> simp_all

theorem isV4Mapped_length (ip : Bytes) (h : isV4Mapped ip = true) : ip.length = 16 := by
  unfold isV4Mapped at h
  simp only [Bool.and_eq_true, beq_iff_eq] at h
  exact h.1.1.1

theorem familyOf_v6 (ip : Bytes) (h : IsV6 ip) : familyOf ip = (2, 128) := by
  obtain ⟨hl, hm⟩ := h
  unfold familyOf to4 to16
  simp [hl, hm]

theorem countOpt_append (a b : List RR) : countOpt (a ++ b) = countOpt a + countOpt b := by
  simp [countOpt, List.filter_append]

theorem foldl_min_spec : ∀ (rest : List Nat) (t : Nat),
    let r := rest.foldl (fun ttl x => if ttl > x then x else ttl) t
    (r = t ∨ r ∈ rest) ∧ r ≤ t ∧ ∀ x ∈ rest, r ≤ x := by
  intro rest
  induction rest with
  | nil => intro t; simp
  | cons y ys ih =>
    intro t
    simp only [List.foldl_cons]
    have h := ih (if t > y then y else t)
    simp only at h
    obtain ⟨h1, h2, h3⟩ := h
    refine ⟨?_, ?_, ?_⟩
    · rcases h1 with h1 | h1
      · by_cases hc : t > y
        · simp only [hc, if_true] at h1 ⊢; right; rw [h1]; exact List.mem_cons_self ..
        · simp only [hc, if_false] at h1 ⊢; left; exact h1
      · right; exact List.mem_cons_of_mem _ h1
    · by_cases hc : t > y
      · simp only [hc, if_true] at h2 ⊢; omega
      · simp only [hc, if_false] at h2 ⊢; exact h2
    · intro x hx
      rcases List.mem_cons.mp hx with rfl | hx
      · by_cases hc : t > x
        · simp only [hc, if_true] at h2 ⊢; exact h2
        · simp only [hc, if_false] at h2 ⊢; omega
      · exact h3 x hx

theorem readLimited_eq : ∀ (chunks : List Bytes) (n : Nat), readLimited chunks n = chunks.flatten.take n := by
  intro chunks
  induction chunks with
  | nil => intro n; simp [readLimited]
  | cons c rest ih =>
    intro n
    unfold readLimited
    by_cases h0 : n = 0
    · subst h0; simp
    · simp only [h0, if_false, List.flatten_cons, List.take_append, ih]

theorem exchangeWithRetry_le : ∀ (n : Nat) (sc : List Char), (exchangeWithRetry n sc).1 ≤ n := by
  intro n
  induction n with
  | zero => intro sc; simp [exchangeWithRetry]
  | succ k ih =>
    intro sc
    unfold exchangeWithRetry
    cases sc with
    | nil => simp
    | cons c rest =>
      by_cases hc : c = 'r'
      · simp [hc]
      · simp only [hc, if_false]; have := ih rest; omega

theorem exchangeWithRetry_ok_iff : ∀ (n : Nat) (sc : List Char),
    (exchangeWithRetry n sc).2 = true ↔ (sc.take n).length < n ∨ 'r' ∈ sc.take n := by
  intro n
  induction n with
  | zero => intro sc; simp [exchangeWithRetry]
  | succ k ih =>
    intro sc
    unfold exchangeWithRetry
    cases sc with
    | nil => simp
    | cons c rest =>
      by_cases hc : c = 'r'
      · simp [hc]
      · have hc' : ¬ 'r' = c := fun h => hc h.symm
        simp only [hc, if_false, List.take_succ_cons, List.length_cons, List.mem_cons, hc', false_or]
        rw [ih rest]
        constructor
        · rintro (h | h)
          · left; omega
          · right; exact h
        · rintro (h | h)
          · left; omega
          · right; exact h

/-- an 8193-byte body for the oversize witness -/
def bigBody : Bytes := List.replicate 8193 0
theorem bigBody_length : bigBody.length = 8193 := List.length_replicate ..

end BfeVerif.C56
