import BfeVerif.Common.Proto
import BfeVerif.C56.Model
/-!
  C56 driver.  op = `doh <method> <dns> <body> <ra> <ca> <w> <u>` (see harness/cmd/c56/main.go);
  result = `err` | summary [+ ` lim=8192` for POST].  The unpack oracle `u` (computed by miekg/dns in the harness and
  re-checked there on every execution) answers `unpack` for the bytes `w`.
-/
namespace BfeVerif.C56
open BfeVerif.Proto

def parseOpt (s : String) : Opt :=
  match s.splitOn "." with
  | ["8", f, m, sc, a] =>
    match f.toNat?, m.toNat?, sc.toNat?, bytesOfHex a with
    | some f, some m, some sc, some a => .ecs f m sc a
    | _, _, _, _ => .other s
  | _ => .other s

def renderOpt : Opt → String
  | .ecs f m sc a => "8." ++ toString f ++ "." ++ toString m ++ "." ++ toString sc ++ "." ++ hexField a
  | .other t => t

def parseRR (s : String) : RR :=
  match s.splitOn ":" with
  | ["O", u, t, os] =>
    match u.toNat?, t.toNat? with
    | some u, some t => .opt u t (if os.isEmpty then [] else (os.splitOn "+").map parseOpt)
    | _, _ => .other s
  | _ => .other s

def renderRR : RR → String
  | .opt u t os => "O:" ++ toString u ++ ":" ++ toString t ++ ":" ++ "+".intercalate (os.map renderOpt)
  | .other t => t

def parseMsg (s : String) : Option Msg :=
  match s.splitOn "/" with
  | [h, q, an, ns, ex, p] =>
    some { pre := h ++ "/" ++ q ++ "/" ++ an ++ "/" ++ ns
           extra := if ex == "-" then [] else (ex.splitOn ",").map parseRR
           packable := p == "p1" }
  | _ => none

def renderMsg (m : Msg) : String :=
  m.pre ++ "/" ++ (if m.extra.isEmpty then "-" else ",".intercalate (m.extra.map renderRR)) ++ "/" ++
    (if m.packable then "p1" else "p0")

def parseIp (s : String) : Option (Option Bytes) :=
  if s == "nil" then some none else (bytesOfHex s).map some

def parseVals (s : String) : Option (Option (List Bytes)) :=
  if s == "none" then some none
  else ((s.splitOn ",").mapM bytesOfHex).map some

def ipTag (ip : Bytes) : String :=
  if ip.length == 4 then "v4" else if isV4Mapped ip then "v4mapped" else if ip.length == 16 then "v6" else "badip"

def natList (s : String) : Option (List Nat) :=
  if s == "-" then some [] else (s.splitOn ",").mapM (·.toNat?)

/-- op `rsp <answer ttls> <authority ttls> <extra ttls> <packed length | E>`; result `<status> <content-type> <max-age> <content-length>` | `err` -/
def runRsp (an : List Nat) (plen : Option Nat) (impl : String) : Ans :=
  let model := match dnsMsgToResponse an plen with
    | some r => toString r.status ++ " " ++ r.contentType ++ " " ++ toString r.maxAge ++ " " ++ toString r.contentLength
    | none => "err"
  let want := match plen with
    | none => "err"
    | some n => "200 application/dns-message " ++ toString (an.foldl min (an.headD 0)) ++ " " ++ toString n
  { model := model, verdict := if impl == want then "ok" else "FAIL:response-ttl"
    tags := ["rsp"] ++ (if an.length ≥ 2 then ["nt"] else []) }

/-- the pieces a scripted body reader returns: sizes `n.n.n` (0 = empty read), then the rest; `-` = all at once -/
def splitBody (body : Bytes) (script : String) : List Bytes :=
  if script == "-" then [body]
  else
    let sc := if script.endsWith "e" then (script.dropEnd 1).toString else script
    let sizes := (sc.splitOn ".").filterMap (·.toNat?)
    let (chunks, rest) := sizes.foldl (fun (st : List Bytes × Bytes) n => (st.1 ++ [st.2.take n], st.2.drop n)) ([], body)
    chunks ++ [rest]

def runDoh (method0 dv bh ras cas wh u rs impl : String) : Ans :=
    let method := if method0 == "-" then "" else method0
    match parseVals dv, bytesOfHex bh, parseIp ras, parseIp cas with
    | some dnsVals, some body, some ra, some ca =>
      let w? := if wh == "=" then some body else bytesOfHex wh
      match w? with
      | none => { model := "bad-op", verdict := "skip" }
      | some w =>
        let orc : Option Msg := if u == "E" then none else parseMsg u
        let sfx := if method == "POST" then " lim=8192" else ""
        let inp := unpackInput method dnsVals body
        let miss := match inp with
          | some x => x != w
          | none => false
        if miss || (u != "E" && orc.isNone) then { model := "oracle-miss", verdict := "skip", tags := ["oracle-miss"] }
        else
          let res := requestToDnsMsgC (fun _ => orc) method dnsVals (splitBody body rs) ra ca
          let model := (match res with | some m => renderMsg m | none => "err") ++ sfx
          -- SPEC oracle on the implementation's result
          let implMain := if sfx != "" && impl.endsWith sfx then (impl.dropEnd sfx.length).toString else impl
          let implMsg := if implMain == "err" then none else parseMsg implMain
          let reject : Option String :=
            if method != "GET" && method != "POST" then some "bad-method-accepted"
            else if method == "GET" && inp.isNone then some "bad-dns-param-accepted"
            else if method == "POST" && body.length > 8192 then some "oversize-accepted"
            else if orc.isNone then some "malformed-accepted"
            else none
          let clientOpt : Bool := match orc with
            | some m => decide (countOpt m.extra > 0)
            | none => false
          let tags0 := [method0] ++ (match ra with
            | none => ["no-remote"]
            | some rip => [ipTag (ca.getD rip)]) ++ (if clientOpt then ["client-opt"] else []) ++
            (if body.length > 8192 then ["oversize"] else []) ++ (if rs != "-" then ["chunked"] else [])
          let (verdict, tags) : String × List String :=
            match reject with
            | some cls => (if implMain == "err" then "ok" else "FAIL:" ++ cls, tags0 ++ ["reject"])
            | none =>
              match orc, implMsg with
              | some m, some r =>
                if r.pre != m.pre then ("FAIL:query-changed", tags0)
                else match ra with
                  | none => (if r.extra == m.extra then "ok" else "FAIL:extra-changed", tags0)
                  | some rip =>
                    let cip := ca.getD rip
                    match specFamily cip with
                    | none => ("skip", tags0)
                    | some (f, k) =>
                      match r.extra.getLast? with
                      | some (.opt _ _ [.ecs f' k' sc a]) =>
                        if f' != f || k' != k then ("FAIL:ecs-family", tags0 ++ ["nt"])
                        else if sc != 0 || a != cip then ("FAIL:ecs-content", tags0 ++ ["nt"])
                        else if r.extra.dropLast != m.extra then ("FAIL:extra-changed", tags0 ++ ["nt"])
                        else if m.packable && !r.packable then ("FAIL:not-packable", tags0 ++ ["nt"])
                        else if countOpt r.extra != 1 then ("FAIL:second-opt", tags0 ++ ["nt"])
                        else ("ok", tags0 ++ ["nt"])
                      | _ => ("FAIL:ecs-missing", tags0 ++ ["nt"])
              | _, _ => ("FAIL:valid-rejected", tags0)
          { model := model, verdict := verdict, tags := tags }
    | _, _, _, _ => { model := "bad-op", verdict := "skip" }

/-- the model's conversion of a `doh` sub-op (outer `none`: not judgeable — bad op or the oracle speaks about other bytes) -/
def dohConv (method0 dv bh ras cas wh u rs : String) : Option (Option Msg) :=
  let method := if method0 == "-" then "" else method0
  match parseVals dv, bytesOfHex bh, parseIp ras, parseIp cas with
  | some dnsVals, some body, some ra, some ca =>
    match (if wh == "=" then some body else bytesOfHex wh) with
    | none => none
    | some w =>
      let orc : Option Msg := if u == "E" then none else parseMsg u
      let miss := match unpackInputC method dnsVals (splitBody body rs) with
        | some x => x != w
        | none => false
      if miss || (u != "E" && orc.isNone) then none
      else some (requestToDnsMsgC (fun _ => orc) method dnsVals (splitBody body rs) ra ca)
  | _, _, _, _ => none

/-- op `fx <secure> <path> <retryMax> <script> <ttls>;<doh op>` -/
def runFx (hdr sub impl : String) : Ans :=
  match hdr.splitOn " ", sub.splitOn " " with
  | [sec, pathHex, rmax, script, ttls], "doh" :: method0 :: dv :: bh :: ras :: cas :: wh :: u :: rest =>
    let rs := rest.headD "-"
    match bytesOfHex pathHex, rmax.toNat?, natList ttls, dohConv method0 dv bh ras cas wh u rs with
    | some path, some retryMax, some tt, some conv =>
      let matched := path == "/dns-query".toUTF8.toList
      let sc := if script == "-" then [] else script.toList
      let (res, sends) := dohHandler matched (sec == "1") conv sc retryMax
      let fwd := if sends == 0 then "-" else "same"
      let model := match res with
        | .goon => "goon - sends=0 fwd=- - - body=-"
        | .resp 200 => "resp 200 sends=" ++ toString sends ++ " fwd=" ++ fwd ++ " application/dns-message max-age=" ++
            toString (getTTL tt) ++ " body=same"
        | .resp c => "resp " ++ toString c ++ " sends=" ++ toString sends ++ " fwd=" ++ fwd ++ " - - body=-"
      let verdict :=
        if impl == model then "ok"
        else match impl.splitOn " ", model.splitOn " " with
          | [a, b, c, d, _, f, g], [a', b', c', d', _, f', g'] =>
            if a != a' || b != b' then "FAIL:handler-status"
            else if c != c' then "FAIL:retry-count"
            else if d != d' then "FAIL:forwarded-differs"
            else if f != f' then "FAIL:response-ttl"
            else if g != g' then "FAIL:response-body"
            else "FAIL:response"
          | _, _ => "FAIL:result"
      { model := model, verdict := verdict
        tags := ["fx"] ++ (if sends > 0 then ["nt"] else []) ++ (if sends > 1 then ["retried"] else []) ++
          (match res with
            | .goon => ["goon"]
            | .resp c => ["s" ++ toString c]) }
    | _, _, _, _ => { model := "skip", verdict := "skip", tags := ["fx-skip"] }
  | _, _ => { model := "bad-op", verdict := "skip" }

def runOne (op impl : String) : Ans :=
  match op.splitOn " " with
  | ["rsp", an, _ns, _ex, pl] =>
    match natList an with
    | some a => runRsp a (if pl == "E" then none else pl.toNat?) impl
    | none => { model := "bad-op", verdict := "skip" }
  | ["doh", method0, dv, bh, ras, cas, wh, u] => runDoh method0 dv bh ras cas wh u "-" impl
  | ["doh", method0, dv, bh, ras, cas, wh, u, rs] => runDoh method0 dv bh ras cas wh u rs impl
  | _ => { model := "bad-op", verdict := "skip" }

def knownClass (v : String) : Bool := v == "FAIL:second-opt" || v == "FAIL:oversize-accepted"

/-- `bat a;b;c` with result `ra;rb;rc`: every request is judged on its own (conversion is a pure function of the
    request); the verdict is the first unknown failure, else the first known one, else ok (skip if all skip). -/
def runBatch (ops impls : List String) : Ans :=
  let impls := impls ++ List.replicate (ops.length - impls.length) ""
  let rs := (ops.zip impls).map fun p => runOne p.1 p.2
  let vs := rs.map (·.verdict)
  let verdict :=
    match vs.find? (fun v => v.startsWith "FAIL" && !knownClass v) with
    | some v => v
    | none => match vs.find? (fun v => v.startsWith "FAIL") with
      | some v => v
      | none => if vs.all (· == "skip") then "skip" else "ok"
  -- a sub-request outside the quantifier (skip) is not compared
  let models := (rs.zip impls).map fun p => if p.1.verdict == "skip" then p.2 else p.1.model
  { model := ";".intercalate models, verdict := verdict
    tags := ["batch"] ++ (rs.flatMap (·.tags)).eraseDups }

def run (op impl : String) : Ans :=
  if op.startsWith "fx " then
    match (op.drop 3).toString.splitOn ";" with
    | [h, sub] => runFx h sub impl
    | _ => { model := "bad-op", verdict := "skip" }
  else if op.startsWith "bat " then runBatch ((op.drop 4).toString.splitOn ";") (impl.splitOn ";")
  else runOne op impl

end BfeVerif.C56
