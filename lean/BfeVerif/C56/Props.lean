import BfeVerif.C56.Proofs
/-!
  C56 — DoH forwards the client's query with a correct client-subnet option.  Property theorems only.
  `unpack` (miekg/dns `Msg.Unpack`) is an arbitrary function: every theorem holds for all of them.
-/
namespace BfeVerif.C56

variable (unpack : Bytes → Option Msg)

/-- **C56_same_query (partial: POST bodies of at most 8192 bytes; see `C56_witness_oversize`)**: whatever is
    forwarded is the unpacked message of exactly the client's bytes (the single `dns` value base64url-decoded for
    GET, the whole body for POST): header/question/answer/
    authority (`pre`) and every additional record unchanged and in order; with a remote address exactly one
    record is appended: an OPT (udp size 4096) carrying exactly one client-subnet option with scope 0 and the
    client's address (`ClientAddr` if set, else `RemoteAddr`); without one nothing is added. -/
theorem C56_same_query_partial (method : String) (dnsVals : Option (List Bytes)) (body : Bytes) (ra ca : Option Bytes)
    (m' : Msg) (hsz : method = "POST" → body.length ≤ maxPost)
    (h : requestToDnsMsg unpack method dnsVals body ra ca = some m') :
    ∃ w m, ((method = "GET" ∧ ∃ v, dnsVals = some [v] ∧ b64decode v = some w) ∨
            (method = "POST" ∧ w = body ∧ body.length ≤ maxPost)) ∧
      unpack w = some m ∧ m'.pre = m.pre ∧
      (ra = none → m' = m) ∧
      (∀ rip, ra = some rip → ∃ f k, m'.extra = m.extra ++ [RR.opt 4096 0 [Opt.ecs f k 0 (ca.getD rip)]]) := by
  unfold requestToDnsMsg at h
  cases hi : unpackInput method dnsVals body with
  | none => simp [hi] at h
  | some w =>
    cases hu : unpack w with
    | none => simp [hi, hu] at h
    | some m =>
      simp only [hi, hu, Option.bind_some, Option.map_some, Option.some.injEq] at h
      refine ⟨w, m, ?_, hu, ?_, ?_, ?_⟩
      · by_cases hg : method = "GET"
        · left
          refine ⟨hg, ?_⟩
          simp only [unpackInput, hg, if_true] at hi
          match dnsVals, hi with
          | some [v], hi => exact ⟨v, rfl, hi⟩
        · by_cases hp : method = "POST"
          · right
            subst hp
            have hl := hsz rfl
            rw [unpackInput_post, List.take_of_length_le hl] at hi
            simp only [Option.some.injEq] at hi
            exact ⟨rfl, hi.symm, hl⟩
          · simp [unpackInput, hg, hp] at hi
      · subst h; cases ra <;> simp [setClientSubnet]
      · intro hra; subst hra; simpa [setClientSubnet] using h.symm
      · intro rip hra; subst hra; subst h
        exact ⟨(familyOf (ca.getD rip)).1, (familyOf (ca.getD rip)).2, by simp [setClientSubnet]⟩

/-- **C56_family**: the appended option has family 1 / prefix 32 for an IPv4 client (4-byte or IPv4-mapped 16-byte
    form) and family 2 / prefix 128 for an IPv6 client, and it never makes a packable message unpackable. -/
theorem C56_family (m : Msg) (rip : Bytes) (ca : Option Bytes) :
    (IsV4 (ca.getD rip) → setClientSubnet (some rip) ca m =
        { m with extra := m.extra ++ [RR.opt 4096 0 [Opt.ecs 1 32 0 (ca.getD rip)]] }) ∧
    (IsV6 (ca.getD rip) → setClientSubnet (some rip) ca m =
        { m with extra := m.extra ++ [RR.opt 4096 0 [Opt.ecs 2 128 0 (ca.getD rip)]] }) := by
  constructor
  · intro h
    have hf := familyOf_v4 _ h
    have hp : (to4 (ca.getD rip)).isSome = true := (to4_isSome_iff _).mpr h
    simp [setClientSubnet, hf, ecsPackable, hp]
  · intro h
    have hf := familyOf_v6 _ h
    simp [setClientSubnet, hf, ecsPackable, h.1]

/-- full-strength statement — FALSE for the code as it is: a POST body of more than 8192 bytes is rejected. -/
def OversizeRejected : Prop :=
  ∀ (unpack : Bytes → Option Msg) (dnsVals : Option (List Bytes)) (body : Bytes) (ra ca : Option Bytes),
    body.length > maxPost → requestToDnsMsg unpack "POST" dnsVals body ra ca = none

/-- What the code does with a POST body: it parses its first 8192 bytes, whatever follows. -/
theorem C56_post_cut (dnsVals : Option (List Bytes)) (body : Bytes) (ra ca : Option Bytes) :
    requestToDnsMsg unpack "POST" dnsVals body ra ca =
      (unpack (body.take maxPost)).map (setClientSubnet ra ca) := by
  simp [requestToDnsMsg, unpackInput_post]

/-- **C56_witness_oversize**: an 8193-byte body whose first 8192 bytes unpack is cut and forwarded. -/
theorem C56_witness_oversize : ¬ OversizeRejected := by
  intro h
  have h1 := h (fun _ => some ⟨"q", [], true⟩) none bigBody none none (by simp [bigBody_length, maxPost])
  rw [C56_post_cut] at h1
  simp at h1

/-- a message that does not unpack, a GET without exactly one well-formed `dns` value and every other method
    are rejected. -/
theorem C56_malformed_rejected (method : String) (dnsVals : Option (List Bytes)) (body : Bytes) (ra ca : Option Bytes)
    (h : ∀ w, unpackInput method dnsVals body = some w → unpack w = none) :
    requestToDnsMsg unpack method dnsVals body ra ca = none := by
  unfold requestToDnsMsg
  cases hi : unpackInput method dnsVals body with
  | none => simp
  | some w => simp [h w hi]

theorem C56_other_method_rejected (method : String) (dnsVals : Option (List Bytes)) (body : Bytes) (ra ca : Option Bytes)
    (h1 : method ≠ "GET") (h2 : method ≠ "POST") : requestToDnsMsg unpack method dnsVals body ra ca = none := by
  simp [requestToDnsMsg, unpackInput, h1, h2]

/-- full-strength statement about OPT records (RFC 6891: at most one per message) — FALSE for the code as it is -/
def SingleOpt : Prop :=
  ∀ (unpack : Bytes → Option Msg) (method : String) (dnsVals : Option (List Bytes)) (body : Bytes) (rip : Bytes)
    (ca : Option Bytes) (m' : Msg),
    requestToDnsMsg unpack method dnsVals body (some rip) ca = some m' → countOpt m'.extra = 1

/-- **C56_single_opt (partial)**: exactly one OPT is forwarded when the client's message carried none. -/
theorem C56_single_opt_partial (method : String) (dnsVals : Option (List Bytes)) (body : Bytes) (rip : Bytes)
    (ca : Option Bytes) (m' : Msg)
    (hno : ∀ w m, unpackInput method dnsVals body = some w → unpack w = some m → countOpt m.extra = 0)
    (h : requestToDnsMsg unpack method dnsVals body (some rip) ca = some m') : countOpt m'.extra = 1 := by
  unfold requestToDnsMsg at h
  cases hi : unpackInput method dnsVals body with
  | none => simp [hi] at h
  | some w =>
    cases hu : unpack w with
    | none => simp [hi, hu] at h
    | some m =>
      simp only [hi, hu, Option.bind_some, Option.map_some, Option.some.injEq] at h
      subst h
      simp only [setClientSubnet, countOpt_append, hno w m hi hu]
      rfl

/-- **C56_witness_second_opt**: a client message that already has an OPT (what every EDNS-speaking DoH client sends)
    is forwarded with two OPT records. -/
theorem C56_witness_second_opt : ¬ SingleOpt := by
  intro h
  have := h (fun _ => some ⟨"q", [RR.opt 1232 0 []], true⟩) "POST" none [] [192, 0, 2, 1] none
    ⟨"q", [RR.opt 1232 0 [], RR.opt 4096 0 [Opt.ecs 1 32 0 [192, 0, 2, 1]]], true⟩ (by decide)
  revert this
  decide

/-- **C56_post_chunking_independent**: however `req.Body.Read` cuts the body into pieces (any sizes, empty reads, any
    number of calls), the forwarded message is the one of the concatenation: all theorems above, stated for a body
    given as one byte string, hold for every chunking. -/
theorem C56_post_chunking_independent (method : String) (dnsVals : Option (List Bytes)) (chunks : List Bytes)
    (ra ca : Option Bytes) :
    requestToDnsMsgC unpack method dnsVals chunks ra ca =
      requestToDnsMsg unpack method dnsVals chunks.flatten ra ca := by
  have : unpackInputC method dnsVals chunks = unpackInput method dnsVals chunks.flatten := by
    unfold unpackInputC unpackInput
    split
    · rfl
    · split
      · rw [readLimited_eq]
      · rfl
  simp [requestToDnsMsgC, requestToDnsMsg, this]

example : requestToDnsMsgC (fun w => some ⟨toString w.length, [], true⟩) "POST" none [[1], [], [2, 3], [4]] none none =
    some ⟨"4", [], true⟩ := by decide

/-- **C56_batch_noninterference**: in the model the message produced for a request does not depend on which other
    requests are converted before or after it while it is held (the implementation is tied to this by `bat` ops:
    all conversions first, request buffers scribbled, every message summarised and packed at the end). -/
theorem C56_batch_noninterference (pre post : List DohReq) (r : DohReq) :
    (convertBatch unpack (pre ++ r :: post))[pre.length]? =
      some (requestToDnsMsgC unpack r.method r.dnsVals r.chunks r.ra r.ca) := by
  simp [convertBatch]

/-- **C56_handler**: what reaches the upstream and what the client gets.  (1) Nothing is sent upstream unless the request
    matched the condition, came over TLS, was converted and can be packed.  (2) At most retryMax+1 queries are sent.
    (3) The client gets 200 exactly when one of the first retryMax+1 exchanges gets a proper reply, 403 without TLS,
    500 for every other failure, and the request is passed on (`goon`) exactly when the condition does not match. -/
theorem C56_handler (matched secure : Bool) (conv : Option Msg) (script : List Char) (retryMax : Nat) :
    let r := dohHandler matched secure conv script retryMax
    ((matched = false ∨ secure = false ∨ conv = none ∨ (∃ m, conv = some m ∧ m.packable = false)) → r.2 = 0) ∧
    r.2 ≤ retryMax + 1 ∧
    (r.1 = HRes.goon ↔ matched = false) ∧
    (r.1 = HRes.resp 403 ↔ matched = true ∧ secure = false) ∧
    (r.1 = HRes.resp 200 ↔ matched = true ∧ secure = true ∧ (∃ m, conv = some m ∧ m.packable = true) ∧
        ((script.take (retryMax + 1)).length < retryMax + 1 ∨ 'r' ∈ script.take (retryMax + 1))) := by
  have hle := exchangeWithRetry_le (retryMax + 1) script
  have hok := exchangeWithRetry_ok_iff (retryMax + 1) script
  cases matched <;> cases secure <;> cases conv with
  | none => simp [dohHandler]
  | some m =>
    cases hp : m.packable <;> simp [dohHandler, hp]
    all_goals first
      | (refine ⟨hle, ?_, ?_⟩
         · cases (exchangeWithRetry (retryMax + 1) script).2 <;> simp
         · simpa using hok)
      | skip

/-- **C56_ttl_min** (RFC 8484 §5.1, mod_doh docs): `Cache-Control: max-age` is the smallest TTL of the Answer section —
    it is one of the answer TTLs and no answer TTL is smaller; 0 when there is no answer.  Authority/additional
    records do not take part. -/
theorem C56_ttl_min (ttls : List Nat) :
    (ttls = [] → getTTL ttls = 0) ∧ (ttls ≠ [] → getTTL ttls ∈ ttls ∧ ∀ t ∈ ttls, getTTL ttls ≤ t) := by
  constructor
  · intro h; subst h; rfl
  · intro hne
    cases ttls with
    | nil => exact absurd rfl hne
    | cons t rest =>
      have h := foldl_min_spec rest t
      simp only at h
      obtain ⟨h1, h2, h3⟩ := h
      refine ⟨?_, ?_⟩
      · rcases h1 with h1 | h1
        · simp only [getTTL, h1]; exact List.mem_cons_self ..
        · exact List.mem_cons_of_mem _ h1
      · intro x hx
        rcases List.mem_cons.mp hx with rfl | hx
        · exact h2
        · exact h3 x hx

/-- **C56_response**: a reply that packs is answered with status 200, `Content-Type: application/dns-message`,
    `Content-Length` = the packed length and max-age = `getTTL`; one that does not pack gives an error (-> 500). -/
theorem C56_response (ttls : List Nat) (n : Nat) :
    dnsMsgToResponse ttls (some n) = some ⟨200, "application/dns-message", getTTL ttls, n⟩ ∧
    dnsMsgToResponse ttls none = none := ⟨rfl, rfl⟩

/-- **C56_client_addr**: the subnet option carries `ClientAddr` whenever it is set (the address mod_trust_clientip /
    the proxy protocol established), else `RemoteAddr` (the TCP peer); never both, never a header value. -/
theorem C56_client_addr (m : Msg) (rip : Bytes) (ca : Option Bytes) :
    ∃ f k, (setClientSubnet (some rip) ca m).extra = m.extra ++
      [RR.opt 4096 0 [Opt.ecs f k 0 (match ca with | some c => c | none => rip)]] := by
  cases ca <;> exact ⟨_, _, rfl⟩

/-- **C56_get_alphabet**: a `dns` value containing `+`, `/`, `=` (standard-alphabet or padded base64) or any byte
    outside `A–Z a–z 0–9 - _` (CR/LF excepted, which Go's decoder skips) is rejected. -/
theorem C56_get_alphabet (v : Bytes) (c : UInt8) (hc : c ∈ v) (h13 : c ≠ 13) (h10 : c ≠ 10)
    (hbad : b64val c = none) : b64decode v = none := by
  have : b64vals v = none := by
    induction v with
    | nil => simp at hc
    | cons x xs ih =>
      unfold b64vals
      by_cases hx : x = 13 ∨ x = 10
      · simp only [hx, if_true]
        rcases List.mem_cons.mp hc with rfl | hc'
        · rcases hx with hx | hx
          · exact absurd hx h13
          · exact absurd hx h10
        · exact ih hc'
      · simp only [hx, if_false]
        rcases List.mem_cons.mp hc with rfl | hc'
        · simp [hbad]
        · cases b64val x <;> simp [ih hc']
  simp [b64decode, this]

example : b64val 43 = none ∧ b64val 47 = none ∧ b64val 61 = none := by decide

/-! the code before the family fix (`cip.To16() != nil`): every IPv4 client got family 2 / 128, and a 4-byte
    address then made the message unpackable (EDNS0_SUBNET.pack: "bad address") -/
example : familyOfOld [192, 0, 2, 1] = (2, 128) := by decide
example : ecsPackable 2 128 [192, 0, 2, 1] = false := by decide
example : familyOf [192, 0, 2, 1] = (1, 32) ∧ ecsPackable 1 32 [192, 0, 2, 1] = true := by decide
example : familyOf [0, 0, 0, 0, 0, 0, 0, 0, 0, 0, 255, 255, 192, 0, 2, 1] = (1, 32) := by decide
/-! non-vacuity -/
example : IsV4 [192, 0, 2, 1] := Or.inl rfl
example : IsV6 [32, 1, 13, 184, 0, 0, 0, 0, 0, 0, 0, 0, 0, 0, 0, 1] := ⟨rfl, by decide⟩
example : requestToDnsMsg (fun _ => some ⟨"q", [], true⟩) "GET" (some [[65, 65]]) [] (some [192, 0, 2, 1]) none =
    some ⟨"q", [RR.opt 4096 0 [Opt.ecs 1 32 0 [192, 0, 2, 1]]], true⟩ := by decide

end BfeVerif.C56
