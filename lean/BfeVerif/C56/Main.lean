import BfeVerif.C56.Driver
def main : IO Unit := BfeVerif.Proto.driverMain BfeVerif.C56.run
