/-
  C56 — mod_doh: DoH request -> dns.Msg with an EDNS client-subnet option (bfe_modules/mod_doh/dns_msg_convert.go).
  Core-only.  Mirrors (after the C56 family fix):

    RequestToDnsMsg:  switch Method { "GET": requestToMsgGet; "POST": requestToMsgPost; default: error }
                      on success setClientSubnet(req, msg)
    requestToMsgGet:  values["dns"] must exist and have exactly one value; base64.RawURLEncoding.DecodeString; unpackMsg
    requestToMsgPost: buf = ReadAll(LimitedReader{Body, maxPostMsgLength}) — the first 8192 bytes, silently; unpackMsg(buf)
    setClientSubnet:  RemoteAddr == nil -> nothing; cip = ClientAddr.IP if ClientAddr != nil else RemoteAddr.IP;
                      family,mask = 1,32;  if cip.To4() == nil && cip.To16() != nil { 2,128 }
                      append to Extra a NEW OPT{udp 4096, [EDNS0_SUBNET{family, mask, scope 0, Address: cip}]}   (always appended)
  `dns.Msg.Unpack` (miekg/dns) is a parameter (`unpack`); a message is abstracted to the part setClientSubnet never
  touches (`pre`: header, question, answer, authority — an opaque token) and the additional section.
  `packable` models `dns.Msg.Pack` (what dns.Client.Exchange does next): EDNS0_SUBNET.pack fails unless
  family 1 has a To4() address / family 2 a 16-byte address.
-/
namespace BfeVerif.C56

abbrev Bytes := List UInt8

def maxPost : Nat := 8192

/-! net.IP.To4 / To16 -/
def isV4Mapped (ip : Bytes) : Bool :=
  ip.length == 16 && ip.take 10 == List.replicate 10 0 && ip.getD 10 0 == 255 && ip.getD 11 0 == 255

def to4 (ip : Bytes) : Option Bytes :=
  if ip.length == 4 then some ip else if isV4Mapped ip then some (ip.drop 12) else none

def to16 (ip : Bytes) : Option Bytes :=
  if ip.length == 4 then some (List.replicate 10 0 ++ [255, 255] ++ ip)
  else if ip.length == 16 then some ip else none

/-! base64.RawURLEncoding.DecodeString (non-strict): CR and LF are skipped, '=' is not in the alphabet,
    a final quantum of 2/3 characters gives 1/2 bytes (left-over bits ignored), of 1 character is an error -/
def b64val (c : UInt8) : Option Nat :=
  let n := c.toNat
  if 65 ≤ n ∧ n ≤ 90 then some (n - 65)
  else if 97 ≤ n ∧ n ≤ 122 then some (n - 71)
  else if 48 ≤ n ∧ n ≤ 57 then some (n + 4)
  else if n = 45 then some 62
  else if n = 95 then some 63
  else none

def b64vals : Bytes → Option (List Nat)
  | [] => some []
  | c :: rest =>
    if c = 13 ∨ c = 10 then b64vals rest
    else match b64val c with
      | none => none
      | some v => (b64vals rest).map (v :: ·)

def b64groups : List Nat → Option Bytes
  | a :: b :: c :: d :: rest =>
    (b64groups rest).map ([UInt8.ofNat (a * 4 + b / 16), UInt8.ofNat (b % 16 * 16 + c / 4), UInt8.ofNat (c % 4 * 64 + d)] ++ ·)
  | [a, b, c] => some [UInt8.ofNat (a * 4 + b / 16), UInt8.ofNat (b % 16 * 16 + c / 4)]
  | [a, b] => some [UInt8.ofNat (a * 4 + b / 16)]
  | [_] => none
  | [] => some []

def b64decode (s : Bytes) : Option Bytes := (b64vals s).bind b64groups

/-! messages -/
inductive Opt
  | ecs (family mask scope : Nat) (addr : Bytes)
  | other (tok : String)
deriving DecidableEq, Repr

inductive RR
  | opt (udp ttl : Nat) (opts : List Opt)
  | other (tok : String)
deriving DecidableEq, Repr

structure Msg where
  pre : String
  extra : List RR
  packable : Bool
deriving DecidableEq, Repr

/-- the bytes handed to `unpackMsg`, `none` = rejected before unpacking -/
def unpackInput (method : String) (dnsVals : Option (List Bytes)) (body : Bytes) : Option Bytes :=
  if method = "GET" then
    match dnsVals with
    | some [v] => b64decode v
    | _ => none
  else if method = "POST" then
    some (body.take maxPost)
  else none

/-- EDNS0_SUBNET.pack succeeds -/
def ecsPackable (family mask : Nat) (addr : Bytes) : Bool :=
  if family = 1 then decide (mask ≤ 32) && (to4 addr).isSome
  else if family = 2 then decide (mask ≤ 128) && addr.length == 16
  else family == 0 && mask == 0

/-! ### the POST body as a stream: `ioutil.ReadAll(&io.LimitedReader{R: req.Body, N: maxPostMsgLength})`

  `req.Body.Read` may return the body in pieces of any size (chunked bodies, network segmentation, empty reads with a
  nil error, the last piece together with io.EOF); `chunks` is the sequence of pieces it returns.  LimitedReader
  shortens the buffer it passes down to the N bytes still allowed and answers io.EOF once N = 0; ReadAll appends
  every piece until io.EOF. -/
def readLimited : List Bytes → Nat → Bytes
  | [], _ => []
  | c :: rest, n => if n = 0 then [] else c.take n ++ readLimited rest (n - c.length)

/-- `unpackInput` for a streamed body -/
def unpackInputC (method : String) (dnsVals : Option (List Bytes)) (chunks : List Bytes) : Option Bytes :=
  if method = "GET" then
    match dnsVals with
    | some [v] => b64decode v
    | _ => none
  else if method = "POST" then some (readLimited chunks maxPost)
  else none

def familyOf (cip : Bytes) : Nat × Nat :=
  if (to4 cip).isNone && (to16 cip).isSome then (2, 128) else (1, 32)

def setClientSubnet (ra ca : Option Bytes) (m : Msg) : Msg :=
  match ra with
  | none => m
  | some rip =>
    let cip := ca.getD rip
    let fm := familyOf cip
    { m with extra := m.extra ++ [RR.opt 4096 0 [Opt.ecs fm.1 fm.2 0 cip]]
             packable := m.packable && ecsPackable fm.1 fm.2 cip }

def requestToDnsMsg (unpack : Bytes → Option Msg) (method : String) (dnsVals : Option (List Bytes)) (body : Bytes)
    (ra ca : Option Bytes) : Option Msg :=
  ((unpackInput method dnsVals body).bind unpack).map (setClientSubnet ra ca)

/-! ### response direction: `getTTL` / `DnsMsgToResponse` -/

/-- `getTTL`: 0 without answers, else `ttl := Answer[0].Ttl; for i := 1.. { if ttl > Answer[i].Ttl { ttl = Answer[i].Ttl } }` -/
def getTTL : List Nat → Nat
  | [] => 0
  | t :: rest => rest.foldl (fun ttl x => if ttl > x then x else ttl) t

structure HttpResp where
  status : Nat
  contentType : String
  maxAge : Nat
  contentLength : Nat
deriving DecidableEq, Repr

/-- `DnsMsgToResponse` for a reply that packs to `packedLen` bytes (a reply that does not pack is an error) -/
def dnsMsgToResponse (answerTTLs : List Nat) (packedLen : Option Nat) : Option HttpResp :=
  packedLen.map fun n => ⟨200, "application/dns-message", getTTL answerTTLs, n⟩

/-- `RequestToDnsMsg` with the body delivered in the pieces `chunks` -/
def requestToDnsMsgC (unpack : Bytes → Option Msg) (method : String) (dnsVals : Option (List Bytes))
    (chunks : List Bytes) (ra ca : Option Bytes) : Option Msg :=
  ((unpackInputC method dnsVals chunks).bind unpack).map (setClientSubnet ra ca)

/-! ### the module's handler: condition, IsSecure, DnsClient.Fetch with exchangeWithRetry -/

inductive HRes
  | goon
  | resp (status : Nat)
deriving DecidableEq, Repr

/-- `exchangeWithRetry`: `for retry := 0; retry < retryMax+1; retry++ { reply, err = Exchange(msg); if err == nil { return } }`.
    `script` = how the upstream treats the successive queries (`'r'` = a proper reply; anything else = an error: garbage,
    wrong id; past the end = proper replies).  Result: (queries sent, success). -/
def exchangeWithRetry : Nat → List Char → Nat × Bool
  | 0, _ => (0, false)
  | n + 1, sc =>
    match sc with
    | [] => (1, true)
    | c :: rest =>
      if c = 'r' then (1, true)
      else
        let r := exchangeWithRetry n rest
        (r.1 + 1, r.2)

/-- `dohHandler`: not matched -> go on; not over TLS -> 403; `Fetch` error (conversion failed, message cannot be packed,
    no usable reply in retryMax+1 exchanges) -> 500; else the reply converted -> 200.  Second component: number of
    queries that reached the upstream. -/
def dohHandler (matched secure : Bool) (conv : Option Msg) (script : List Char) (retryMax : Nat) : HRes × Nat :=
  if !matched then (.goon, 0)
  else if !secure then (.resp 403, 0)
  else match conv with
    | none => (.resp 500, 0)
    | some m =>
      if !m.packable then (.resp 500, 0)
      else
        let r := exchangeWithRetry (retryMax + 1) script
        (.resp (if r.2 then 200 else 500), r.1)

/-- one DoH request, as values -/
structure DohReq where
  method : String
  dnsVals : Option (List Bytes)
  chunks : List Bytes
  ra : Option Bytes
  ca : Option Bytes

/-- conversion is a pure function of the request: a batch of requests (conversions that overlap in time, messages
    held until their upstream exchange) is converted element by element, with no state carried over -/
def convertBatch (unpack : Bytes → Option Msg) (reqs : List DohReq) : List (Option Msg) :=
  reqs.map fun r => requestToDnsMsgC unpack r.method r.dnsVals r.chunks r.ra r.ca

/-- the code before the C56 family fix: `if cip.To16() != nil` -/
def familyOfOld (cip : Bytes) : Nat × Nat := if (to16 cip).isSome then (2, 128) else (1, 32)

/-! ## SPEC side -/
/-- an IPv4 client address: 4 bytes, or the 16-byte IPv4-mapped form -/
def IsV4 (ip : Bytes) : Prop := ip.length = 4 ∨ isV4Mapped ip = true
/-- an IPv6 client address: 16 bytes that are not an IPv4-mapped address -/
def IsV6 (ip : Bytes) : Prop := ip.length = 16 ∧ isV4Mapped ip = false

def specFamily (ip : Bytes) : Option (Nat × Nat) :=
  if ip.length == 4 || isV4Mapped ip then some (1, 32)
  else if ip.length == 16 then some (2, 128) else none

def isOpt : RR → Bool
  | .opt .. => true
  | .other _ => false

def countOpt (l : List RR) : Nat := (l.filter isOpt).length

end BfeVerif.C56
