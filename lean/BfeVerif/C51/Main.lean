import BfeVerif.C51.Driver
def main : IO Unit := BfeVerif.Proto.driverMain BfeVerif.C51.run
