import BfeVerif.Common.Proto
import BfeVerif.C51.Model
/-!
  C51 driver.  Op syntax: see harness/cmd/c51/main.go.  The op describes a case ABSTRACTLY; here the crypto
  parameters of the model are instantiated by the IDEAL-CRYPTO CONTRACT
    verifyPw pw (kind, pw')   = kind is a format CheckSecret supports ∧ pw = pw'
    verifyJws key tok         = untampered ∧ really signed with the header's alg ∧ key type fits the alg family
                                ∧ signed with this very key           (alg none / unknown / confusion ⇒ false)
    encode s = encode s' ⇔ s = s'   (checksums are given by their preimage)
  which the harness exercises through the real libraries.  Result: goon | close | resp:<status>:<hex WWW-Authenticate>.
-/
namespace BfeVerif.C51
open BfeVerif.Proto

def renderOutcome : Outcome → String
  | .goOn => "goon"
  | .close => "close"
  | .resp st h => "resp:" ++ toString st ++ ":" ++ hexField h

def isUpperHex (c : Char) : Bool := 'A' ≤ c && c ≤ 'F'

/-- the harness' `unhex`: lower-case hex, "-" for empty -/
def unhex (s : String) : Option Bytes :=
  if s == "-" then some []
  else if s.isEmpty || s.toList.any isUpperHex then none
  else bytesOfHex s

def splitList (s sep : String) : List String := if s == "_" then [] else s.splitOn sep

def matchFlag (s : String) : Option Bool :=
  if s == "0" then some false else if s == "1" || s == "2" then some true else none

def canonInt (s : String) : Option Int :=
  match s.toInt? with
  | some n => if toString n == s then some n else none
  | none => none

def canonNat (s : String) : Option Nat :=
  match s.toNat? with
  | some n => if toString n == s then some n else none
  | none => none

def bad : Ans := { model := "bad-op", verdict := "skip" }

/-- verdict from the expected (spec) result and the implementation's result -/
def judge (pfx : String) (expected impl : String) (whyInvalid : String) : String :=
  if impl.startsWith "PANIC" then "FAIL:" ++ pfx ++ "-panic"
  else if impl == expected then "ok"
  else if impl == "goon" then "FAIL:" ++ pfx ++ "-forwarded-" ++ whyInvalid
  else if expected == "goon" then "FAIL:" ++ pfx ++ "-rejected-valid"
  else "FAIL:" ++ pfx ++ "-wrong-rejection"

/-! ## basic -/

def isAlnum (c : UInt8) : Bool := (48 ≤ c && c ≤ 57) || (65 ≤ c && c ≤ 90) || (97 ≤ c && c ≤ 122)

abbrev BHash := String × Bytes

def idealVerifyPw (pw : Bytes) (h : BHash) : Bool := h.1 != "plain" && pw == h.2

def basicUser (s : String) : Option (Bytes × BHash) :=
  match s.splitOn ":" with
  | [u, k, p] => do
    let u' ← unhex u
    let p' ← unhex p
    if p'.length > 64 then none
    else if k == "plain" then (if p'.all isAlnum then some (u', (k, p')) else none)
    else if k == "crypt" then (if p' == strBytes "Password" then some (u', ("plain", p')) else none)
    else if ["sha", "bc", "by", "bb", "apr", "md5"].contains k then some (u', (k, p'))
    else none
  | _ => none

def basicRule (s : String) : Option (Bool × BasicRule BHash) :=
  match s.splitOn "," with
  | [m, realm, users] => do
    let m' ← matchFlag m
    let r ← unhex realm
    let us ← (splitList users "+").mapM basicUser
    pure (m', { realm := r, users := us })
  | _ => none

def productFlag (s : String) : Option Bool :=
  if s == "0" then some false else if s == "1" then some true else none

def basicWhy (tbl : Option (List (Bool × BasicRule BHash))) (auth : Bytes) : String :=
  match tbl.bind firstMatch with
  | none => "norule"
  | some r =>
    if auth.isEmpty then "nohdr"
    else if auth.length < 6 ∨ (auth.take 6).map lowerB ≠ basicPrefix then "badscheme"
    else match b64StdDecode (auth.drop 6) with
      | none => "badb64"
      | some cs =>
        match splitColon cs with
        | none => "nocolon"
        | some (u, pw) =>
          match lookupLast r.users u with
          | none => "nouser"
          | some h => if idealVerifyPw pw h then "valid" else if h.1 == "plain" then "plainentry" else "badpw"

def runBasic (f : List String) (impl : String) : Ans :=
  match f with
  | [p, rules, hdr] =>
    -- several Authorization lines ("a&b"): Header.Get returns the first
    let hdrVal : Option Bytes :=
      if hdr == "n" then some []
      else match (hdr.splitOn "&").mapM unhex with
        | some (h :: _) => some h
        | _ => none
    match productFlag p, (splitList rules "/").mapM basicRule, hdrVal with
    | some p', some rs, some auth =>
      let tbl := if p' then some rs else none
      let mo := basicHandler b64StdDecode idealVerifyPw tbl auth
      let m := renderOutcome mo
      let why := basicWhy tbl auth
      -- C51_forward_iff_basic: the model IS the specification for forward/reject; the documented rejection
      -- carries the realm as an RFC 7235 quoted-string (challengeSpec)
      let dirty := match tbl.bind firstMatch with
        | some r => !realmClean r.realm
        | none => false
      let verdict :=
        if mo != .goOn && dirty && impl == m then "FAIL:realm-unescaped" else judge "basic" m impl why
      { model := m, verdict := verdict,
        tags := ["ba", "ba-" ++ why] ++ (if why == "valid" || why == "badpw" || why == "nouser" then ["nt"] else []) }
    | _, _, _ => bad
  | _ => bad

/-! ## jwt -/

def jwtNow : Int := 1600000000

structure DKey where
  kty : String
  alg : Option String
  id : Nat
  deriving DecidableEq

structure DTok where
  alg : String
  sa : String
  sk : String
  tm : Bool
  claims : Claims
  deriving DecidableEq

def sigAlgs : List String := ["HS256", "HS384", "HS512", "RS256", "RS384", "RS512"]

def dkey (s : String) : Option DKey :=
  match s.splitOn "." with
  | [kty, alg, id] => do
    let n ← canonNat id
    let a ← if alg == "-" then some none else if sigAlgs.contains alg then some (some alg) else none
    if kty == "oct" && n < 4 then some { kty := kty, alg := a, id := n }
    else if kty == "rsa" && n < 2 then some { kty := kty, alg := a, id := n }
    else none
  | _ => none

def dclaim (s : String) : Option Claim :=
  if s == "-" then some .absent
  else if s == "s" then some .other
  else match canonInt s with
    | some n => if n > 4000000000 ∨ n < -4000000000 then none else some (.num (jwtNow + n))
    | none => none

def skOK (sa sk : String) : Bool :=
  if sa == "none" || sa == "junk" then sk == "-"
  else if !sigAlgs.contains sa then false
  else match sk.toList with
    | [c, d] =>
      if !('0' ≤ d && d ≤ '9') then false
      else
        let id := d.toNat - 48
        if c == 'o' then sa.startsWith "HS" && id < 4
        else if c == 'p' then sa.startsWith "HS" && id < 2
        else if c == 'r' then sa.startsWith "RS" && id < 2
        else false
    | _ => false

def dtok (alg sa sk tm e n i : String) : Option (List (HSym DTok)) := do
  let e' ← dclaim e
  let n' ← dclaim n
  let i' ← dclaim i
  let tm' ← productFlag tm
  if !(sigAlgs ++ ["none", "absent", "unk", "lc", "num"]).contains alg then none
  else if !skOK sa sk then none
  else some [.tok { alg := alg, sa := sa, sk := sk, tm := tm', claims := { exp := e', nbf := n', iat := i' } }]

def mangleKinds : List String := ["dot", "eq1", "eq2", "lf", "lfm", "bits1", "bits2", "bits3", "cpad"]

/-- signature lengths: HS256 43, HS384 64, HS512 86, RS* (1024-bit key) 171 base64url characters -/
def mangleOK (sa mg : String) : Bool :=
  if mg == "eq1" then sa != "HS384"
  else if mg == "eq2" then sa == "HS512"
  else if mg == "bits1" || mg == "bits2" || mg == "bits3" then sa != "HS384"
  else false

/-- token description ⇒ header symbols of the token part -/
def dtoken (s : String) : Option (List (HSym DTok)) :=
  match s.splitOn "." with
  | ["g", hx] => do
    let g ← unhex hx
    if (g.filter (· == 46)).length == 2 then none else some (g.map HSym.ch)
  | ["t", alg, sa, sk, tm, e, n, i] => dtok alg sa sk tm e n i
  | ["t", alg, sa, sk, tm, e, n, i, mg] => do
    let t ← dtok alg sa sk tm e n i
    if !sigAlgs.contains sa || !mangleKinds.contains mg then none
    -- another spelling of the same compact JWS: jwt-go's DecodeSegment (padding re-added, non-strict
    -- URLEncoding) either yields the same signature bytes or fails (contract, exercised)
    else if mangleOK sa mg then some t else some [.ch 1]
  | _ => none

def idealVerifyJws (k : DKey) (t : DTok) : Bool :=
  !t.tm && t.sa == t.alg &&
  ((t.alg.startsWith "HS" && sigAlgs.contains t.alg && k.kty == "oct" && t.sk == "o" ++ toString k.id) ||
   (t.alg.startsWith "RS" && sigAlgs.contains t.alg && k.kty == "rsa" && t.sk == "r" ++ toString k.id))

def jwtRule (s : String) : Option (Bool × JwtRule DKey) :=
  match s.splitOn "," with
  | [m, realm, keys] => do
    let m' ← matchFlag m
    let r ← unhex realm
    let ks ← (splitList keys "+").mapM dkey
    pure (m', { realm := r, keys := ks })
  | _ => none

def jwtHeader (s : String) : Option (List (HSym DTok)) :=
  if s == "n" then some []
  else match s.splitOn ":" with
    | [pre, tok, suf] => do
      let p ← unhex pre
      let q ← unhex suf
      let t ← dtoken tok
      if (!p.isEmpty && p.getLast? != some 32 && p.getLast? != some 9) ||
         (!q.isEmpty && q.head? != some 32 && q.head? != some 9 && q.head? != some 46) then none
      else some (p.map HSym.ch ++ t ++ q.map HSym.ch)
    | _ => none

/-- why the specification calls the request invalid (most specific reason), or "valid" -/
def jwtWhy (tbl : Option (List (Bool × JwtRule DKey))) (hdr : List (HSym DTok)) : String :=
  match tbl.bind firstMatch with
  | none => "norule"
  | some r =>
    match hdr.drop 7 with
    | [.tok t] =>
      if hdr.take 7 ≠ bearerSyms ++ [.ch 32] then "bad-header"
      else if !(r.keys.any fun k => idealVerifyJws k t) then "bad-signature"
      else if !(r.keys.any fun k => idealVerifyJws k t && algAgrees k.alg t.alg) then "KEYALG"
      else if timeOK jwtNow t.claims then "valid"
      else if libClaimsValid jwtNow t.claims then "TIMECLAIM"
      else "bad-time"
    | _ => "bad-header"

def runJwt (f : List String) (impl : String) : Ans :=
  match f with
  | [p, rules, hdr] =>
    match productFlag p, (splitList rules "/").mapM jwtRule, jwtHeader hdr with
    | some p', some rs, some h =>
      let tbl := if p' then some rs else none
      let m := renderOutcome (jwtHandler idealVerifyJws (·.claims) jwtNow tbl h)
      -- the oracle is the FULL specification JwtValid (executable form jwtValidB), not the model
      let expected : Outcome :=
        match tbl.bind firstMatch with
        | none => .goOn
        | some r =>
          if jwtValidB idealVerifyJws (·.claims) (·.alg) (·.alg) jwtNow r.keys h then .goOn
          else .resp 401 (challengeSpec "Bearer" r.realm)
      let why := jwtWhy tbl h
      let verdict :=
        if impl == renderOutcome expected then "ok"
        else if impl == "goon" then
          (if why == "KEYALG" then "FAIL:jwt-key-alg-ignored"
           else if why == "TIMECLAIM" then "FAIL:jwt-time-claim-ignored"
           else "FAIL:jwt-forwarded-" ++ why)
        else if impl.startsWith "PANIC" then "FAIL:jwt-panic"
        else if expected == .goOn then "FAIL:jwt-rejected-valid"
        else if impl == m && (match tbl.bind firstMatch with | some r => !realmClean r.realm | none => false)
          then "FAIL:realm-unescaped"
        else "FAIL:jwt-wrong-rejection"
      { model := m, verdict := verdict,
        tags := ["jw", "jw-" ++ why] ++
          (if why == "valid" || why == "bad-signature" || why == "bad-time" || why == "KEYALG" || why == "TIMECLAIM"
           then ["nt"] else []) }
    | _, _, _ => bad
  | _ => bad

/-! ## secure link: symbolic strings -/

inductive PAtom where
  | b (v : UInt8)
  | t (off : Int)      -- decimal text of now + off
  deriving DecidableEq

inductive Atom where
  | p (a : PAtom)
  | e (pre : List PAtom)   -- encode(pre)
  | m                      -- a near miss of some encode(pre): another spelling, never the documented string
  | x                      -- encode of a string that itself contains a checksum (never equal to a given one)
  deriving DecidableEq

abbrev SStr := List Atom

def slNow : Int := 1790000000

def litS (b : Bytes) : SStr := b.map fun c => .p (.b c)

def slOps : StrOps SStr := { empty := [], append := (· ++ ·), lit := litS, isEmpty := List.isEmpty }

def plainOf : SStr → Option (List PAtom)
  | [] => some []
  | .p a :: rest => (plainOf rest).map (a :: ·)
  | _ :: _ => none

def idealEncode (s : SStr) : SStr :=
  match plainOf s with
  | some pre => [.e pre]
  | none => [.x]

def bytesOfPlain : List PAtom → Option Bytes
  | [] => some []
  | .b c :: rest => (bytesOfPlain rest).map (c :: ·)
  | .t _ :: _ => none

def symAtoi (s : SStr) : Option Int :=
  match s with
  | [.p (.t off)] => some (slNow + off)
  | _ =>
    match plainOf s with
    | some pl => match bytesOfPlain pl with
      | some bs => goAtoi bs
      | none => none
    | none => none           -- a checksum is not a decimal number (22 base64url characters of an md5)

def offOK (n : Int) : Bool := -100000000 ≤ n && n ≤ 100000000

def inCharset (extra : List UInt8) (c : UInt8) : Bool := isAlnum c || extra.contains c

def keySetOK (b : Bytes) : Bool := b.all (inCharset [95, 45])
def valSetOK (b : Bytes) : Bool := b.all (inCharset [95, 45, 46, 61, 43])
def pathSetOK (b : Bytes) : Bool := b.all (inCharset [95, 45, 46, 47])

def plainAtom (restrict : Bool) (a : String) : Option (List PAtom) :=
  if a.length < 2 then none
  else
    let body := (a.drop 1).toString
    if a.startsWith "c" then do
      let bs ← unhex body
      if bs.isEmpty || (restrict && !valSetOK bs) then none else some (bs.map PAtom.b)
    else if a.startsWith "t" then do
      let n ← canonInt body
      if offOK n then some [.t n] else none
    else none

def canonNatIn (s : String) (lo hi : Nat) : Bool :=
  match canonNat s with
  | some n => lo ≤ n && n ≤ hi
  | none => false

def mangleKindOK (k : String) : Bool :=
  if k.startsWith "sib" then canonNatIn (k.drop 3).toString 1 15
  else if k.startsWith "ins" then
    match (k.drop 3).toString.splitOn "x" with
    | [p, b] => ["0", "11", "22"].contains p && ["0d", "0a", "20", "09"].contains b
    | _ => false
  else if k.startsWith "case" then canonNatIn (k.drop 4).toString 0 21
  else ["pad1", "pad2", "std", "dpe"].contains k

def symValue (v : String) : Option SStr :=
  if v == "-" then some []
  else if v.startsWith "m" then
    match (v.drop 1).toString.splitOn "!" with
    | [k, pre] =>
      if !mangleKindOK k || v.contains '.' then none
      else if pre == "-" then some [.m]
      else ((pre.splitOn "~").mapM (plainAtom false)).map fun _ => [Atom.m]
    | _ => none
  else do
    let atoms := v.splitOn "."
    let parts ← atoms.mapM fun a =>
      if a.startsWith "e" then
        (if a.length < 2 then none
         else if (a.drop 1).toString == "-" then some [Atom.e []]
         else do
           let ps ← ((a.drop 1).toString.splitOn "~").mapM (plainAtom false)
           pure [Atom.e ps.flatten])
      else if a.startsWith "t" && atoms.length != 1 then none
      else (plainAtom true a).map fun ps => ps.map Atom.p
    let s := parts.flatten
    -- literal integers must be far from any plausible clock value
    match plainOf s with
    | some pl => match bytesOfPlain pl with
      | some bs =>
        if bs.length == 22 then none      -- could be an encode() output; checksums are written as e<preimage>
        else match goAtoi bs with
        | some n => if 1000000000 ≤ n ∧ n ≤ 3000000000 then none else some s
        | none => some s
      | none => some s
    | none => some s

def hdrCanon (k : Bytes) : Option Bytes :=
  if k == strBytes "X-Token" || k == strBytes "x-token" then some (strBytes "X-Token")
  else if k == strBytes "User-Agent" then some k
  else if k == strBytes "X-Sl" then some k
  else none

def slNode (s : String) : Option SlNode :=
  if s == "host" then some .host
  else if s == "uri" then some .uri
  else if s == "ra" then some .remoteAddr
  else if s.startsWith "l:" then (unhex (s.drop 2).toString).map .label
  else if s.startsWith "q:" then do
    let k ← unhex (s.drop 2).toString
    if k.isEmpty || !keySetOK k then none else some (.query k)
  else if s.startsWith "h:" then do
    let k ← unhex (s.drop 2).toString
    let c ← hdrCanon k
    some (.header c)
  else none

def slRule (s : String) : Option (Bool × SlRule) :=
  match s.splitOn "," with
  | [m, ck, ek, nodes] => do
    let m' ← matchFlag m
    let ck' ← if ck == "-" then some (strBytes "md5") else do
      let b ← unhex ck
      if keySetOK b then some b else none
    let ek' ← if ek == "-" then some [] else do
      let b ← unhex ek
      if keySetOK b then some b else none
    -- an explicitly empty ChecksumKey is a load error
    if ck != "-" && ck'.isEmpty then none
    else do
      let ns ← (splitList nodes "+").mapM slNode
      pure (m', { ck := ck', ek := ek', nodes := ns })
  | _ => none

def kvPair {α : Type} (f : String → Option α) (s : String) : Option (Bytes × α) :=
  match s.splitOn "=" with
  | [k, v] => do
    let k' ← unhex k
    let v' ← f v
    pure (k', v')
  | _ => none

def escPlus (s : SStr) : SStr :=
  s.flatMap fun a => if a == .p (.b 43) then litS (strBytes "%2B") else [a]

def uriOf (path : Bytes) (q : List (Bytes × SStr)) : SStr :=
  match q with
  | [] => litS path
  | _ =>
    litS path ++ litS [63] ++
      ((q.map fun kv => litS kv.1 ++ litS [61] ++ escPlus kv.2).intersperse (litS [38])).flatten

def slReq (s : String) : Option (SlReq SStr) :=
  match s.splitOn ";" with
  | [host, ra, path, query, hdrs] => do
    let h ← unhex host
    let r ← unhex ra
    let p ← unhex path
    let q ← (splitList query "+").mapM (kvPair symValue)
    let hd ← (splitList hdrs "+").mapM (kvPair unhex)
    if p.head? != some 47 || !pathSetOK p then none
    else if !(q.all fun kv => !kv.1.isEmpty && keySetOK kv.1) then none
    else if !(hd.all fun kv => hdrCanon kv.1 == some kv.1) then none
    else
      let hdrGet : Bytes → SStr := fun k =>
        match hd.find? (·.1 == k) with
        | some kv => litS kv.2
        | none => []
      some { query := q, header := hdrGet, host := litS h, uri := uriOf p q, remoteAddr := litS r }
  | _ => none

def slWhy (tbl : Option (List (Bool × SlRule))) (q : SlReq SStr) : String :=
  match tbl.bind firstMatch with
  | none => "norule"
  | some r =>
    let ex := getFirst [] q.query r.ek
    let sum := getFirst [] q.query r.ck
    let isExpired : Bool := match symAtoi ex with
      | some n => decide (slNow > n)
      | none => false
    if !r.ek.isEmpty && ex.isEmpty then "noexpires"
    else if !r.ek.isEmpty && (symAtoi ex).isNone then "badexpires"
    else if !r.ek.isEmpty && isExpired then "expired"
    else if sum.isEmpty then "nochecksum"
    else if idealEncode (exprValue slOps q r.nodes) = sum then "valid"
    else if sum == [Atom.m] then "checksum-spelling"   -- decodes like / looks like the right one, but is not the string
    else "badchecksum"

def runSlink (f : List String) (impl : String) : Ans :=
  match f with
  | [p, rules, req] =>
    match productFlag p, (splitList rules "/").mapM slRule, slReq req with
    | some p', some rs, some q =>
      let tbl := if p' then some rs else none
      let m := renderOutcome (slHandler slOps idealEncode symAtoi slNow tbl q)
      let why := slWhy tbl q
      { model := m, verdict := judge "sl" m impl why,
        tags := ["sl", "sl-" ++ why] ++ (if why == "valid" || why == "badchecksum" || why == "checksum-spelling" || why == "expired" then ["nt"] else []) }
    | _, _, _ => bad
  | _ => bad

/-! ## block -/

def natOfBytes (b : Bytes) : Nat := b.foldl (fun acc c => acc * 256 + c.toNat) 0

def ipN (len : Nat) (s : String) : Option Nat := do
  let b ← unhex s
  if b.length == len then some (natOfBytes b) else none

def rangeOf (len : Nat) (s : String) : Option (Nat × Nat) :=
  match s.splitOn "-" with
  | [a, b] => do
    let a' ← ipN len a
    let b' ← ipN len b
    pure (a', b')
  | _ => none

def isV4Mapped (n : Nat) : Bool := n / 4294967296 == 65535

def runBlockGlobal (f : List String) (impl : String) : Ans :=
  match f with
  | [ip, ranges] =>
    match ipN 16 ip, (splitList ranges "+").mapM (rangeOf 16) with
    | some ip', some rs =>
      -- InsertPair's checkIPPair (only for lo ≠ hi)
      if rs.any fun r => r.1 ≠ r.2 ∧ (r.1 > r.2 ∨ isV4Mapped r.1 ≠ isV4Mapped r.2) then
        { model := "err:conf", verdict := "skip", tags := ["bg", "bg-conf-error"] }
      else
        let m := renderOutcome (blockAccept rs ip')
        let cls := if m == "close" then "blocked" else "free"
        { model := m, verdict := if impl == m then "ok" else "FAIL:block-accept-" ++ cls,
          tags := ["bg", "bg-" ++ cls] ++ (if rs.isEmpty then [] else ["nt"]) }
    | _, _ => bad
  | _ => bad

def blockRule (s : String) : Option BlockRule :=
  match s.splitOn "," with
  | [rg, cmd] => do
    let r ← rangeOf 4 rg
    let c ← unhex cmd
    if c.contains 34 || c.contains 92 then none else some { lo := r.1, hi := r.2, cmd := c }
  | _ => none

def runBlockReq (f : List String) (impl : String) : Ans :=
  match f with
  | [g, p, grules, prules, cip] =>
    match productFlag g, productFlag p, (splitList grules "/").mapM blockRule, (splitList prules "/").mapM blockRule, ipN 4 cip with
    | some g', some p', some gr, some pr, some ip =>
      if (gr ++ pr).any fun r => r.lo > r.hi then
        { model := "err:conf", verdict := "skip", tags := ["br", "br-conf-error"] }
      else
        let m := renderOutcome (blockRequest (if g' then some gr else none) (if p' then some pr else none) ip)
        let cls := if m == "close" then "blocked" else "free"
        let all := (if g' then gr else []) ++ (if p' then pr else [])
        { model := m, verdict := if impl == m then "ok" else "FAIL:block-request-" ++ cls,
          tags := ["br", "br-" ++ cls] ++ (if all.any (·.hit ip) then ["nt"] else []) }
    | _, _, _, _, _ => bad
  | _ => bad


/-! ## loaders -/

def loaderVerdict (cls : String) (m impl : String) : String :=
  if impl.startsWith "PANIC" then "FAIL:loader-panic"
  else if impl == m then "ok"
  else if impl == "err" then "FAIL:" ++ cls ++ "-rejects-valid"
  else if m == "err" then "FAIL:" ++ cls ++ "-accepts-invalid"
  else "FAIL:" ++ cls ++ "-wrong-result"

def bytesLe : Bytes → Bytes → Bool
  | [], _ => true
  | _ :: _, [] => false
  | a :: as, b :: bs => a < b || (a == b && bytesLe as bs)

def insertSorted (e : Bytes × Bytes) : List (Bytes × Bytes) → List (Bytes × Bytes)
  | [] => [e]
  | x :: xs => if bytesLe e.1 x.1 then e :: x :: xs else x :: insertSorted e xs

/-- the Go map built in file order, rendered with sorted keys -/
def renderUserMap (ents : List (Bytes × Bytes)) : String :=
  let keys := ents.map (·.1) |>.eraseDups
  let m := keys.filterMap fun k => (lookupLast ents k).map fun h => (k, h)
  let sorted := m.foldl (fun acc e => insertSorted e acc) []
  if sorted.isEmpty then "ok:_" else "ok:" ++ ",".intercalate (sorted.map fun e => hexField e.1 ++ "=" ++ hexField e.2)

def runLoadUser (f : List String) (impl : String) : Ans :=
  match f with
  | [hx] =>
    match unhex hx with
    | some bs =>
      if bs.length > 4096 || bs.any (· ≥ 128) then bad
      else
        let r := readUserFile bs
        let m := match r with
          | none => "err"
          | some ents => renderUserMap ents
        { model := m, verdict := loaderVerdict "userfile" m impl,
          tags := ["lu", if r.isSome then "lu-accept" else "lu-reject"] ++
            (if (scanLines bs).any userLineRelevant then ["nt"] else []) }
    | none => bad
  | _ => bad

def printableB (b : Bytes) : Bool := b.all fun c => 32 ≤ c && c ≤ 126 && c != 34 && c != 92

def optHex (s : String) : Option (Option Bytes) :=
  if s == "nil" then some none
  else match unhex s with
    | some b => if printableB b then some (some b) else none
    | none => none

def condOf (s : String) : Option (Option Bool) :=
  if s == "nil" then some none else if s == "ok" then some (some true) else if s == "bad" then some (some false) else none

def slNodesFile (s : String) : Option (Option (List SlNodeFile)) :=
  if s == "nil" || s == "null" then some none
  else if s == "_" then some (some [])
  else do
    let ns ← (s.splitOn "+").mapM fun nd =>
      match nd.splitOn ":" with
      | [t, p] => do
        let t' ← unhex t
        let p' ← unhex p
        if printableB t' && printableB p' then some ({ ty := t', param := p' } : SlNodeFile) else none
      | _ => none
    pure (some ns)

def slRuleFile (s : String) : Option (Option SlRuleFile) :=
  if s == "null" then some none
  else match s.splitOn "," with
    | [c, ck, ek, ns] => do
      let c' ← condOf c
      let ck' ← optHex ck
      let ek' ← optHex ek
      let ns' ← slNodesFile ns
      pure (some { cond := c', ck := ck', ek := ek', nodes := ns' })
    | _ => none

def runLoadSlink (f : List String) (impl : String) : Ans :=
  match f with
  | [ver, cfg] =>
    let hasV := ver == "v"
    if ver != "v" && ver != "nil" then bad
    else
      let cfg' : Option (Option (List (Option SlRuleFile))) :=
        if cfg == "nil" || cfg == "null" then some none
        else if cfg == "_" then some (some [])
        else ((cfg.splitOn "/").mapM slRuleFile).map some
      match cfg' with
      | none => bad
      | some c =>
        let r := newData hasV c
        let m := match r with
          | none => "err"
          | some rs => if rs.isEmpty then "ok:_" else
              "ok:" ++ "/".intercalate (rs.map fun x => hexField x.ck ++ ";" ++ hexField x.ek ++ ";" ++ toString x.nodes.length)
        { model := m, verdict := loaderVerdict "securelink-conf" m impl,
          tags := ["ls", if r.isSome then "ls-accept" else "ls-reject"] ++ (if hasV && c.isSome then ["nt"] else []) }
  | _ => bad

def blockRuleFile (s : String) : Option BlockRuleFile :=
  match s.splitOn "," with
  | [c, n, a] => do
    let c' ← condOf c
    let n' ← optHex n
    let a' ← if a == "nil" then some none else
      match a.splitOn ";" with
      | [cmd, ps] => do
        let cmd' ← optHex cmd
        let ps' ← if ps == "nil" || ps == "null" then some none else
          match canonNat ps with
          | some k => if k ≤ 3 then some (some k) else none
          | none => none
        pure (some (cmd', ps'))
      | _ => none
    pure { cond := c', name := n', action := a' }
  | _ => none

def runLoadBlock (f : List String) (impl : String) : Ans :=
  match f with
  | [ver, cfg, style] =>
    if (ver != "v" && ver != "nil") || (style != "u" && style != "l") then bad
    else
      let hasV := ver == "v"
      -- outer option: Config present; inner: the product's list present
      let parsed : Option (Option (Option (List BlockRuleFile))) :=
        if cfg == "nil" || cfg == "null" then some none
        else if cfg == "_" then some (some (some []))       -- no product at all: nothing to check, 0 rules
        else if cfg == "pnull" then some (some none)
        else if cfg == "pempty" then some (some (some []))
        else ((cfg.splitOn "/").mapM blockRuleFile).map fun rs => some (some rs)
      match parsed with
      | none => bad
      | some c =>
        let r : Option Nat := match c with
          | none => none
          | some prod => blockConfLoad hasV prod
        let m := match r with
          | none => "err"
          | some n => "ok:" ++ toString n
        { model := m, verdict := loaderVerdict "block-conf" m impl,
          tags := ["lb", if r.isSome then "lb-accept" else "lb-reject"] ++ (if hasV && c.isSome then ["nt"] else []) }
  | _ => bad

inductive IpLine where
  | blank
  | garbage
  | range (lo hi : Nat) (one : Bool)

def garbageOK (b : Bytes) : Bool :=
  match b with
  | [] => false
  | c :: _ =>
    c != 35 && c != 32 && c != 9 && printableB b &&
    b.any fun x => (103 ≤ x && x ≤ 122) || (71 ≤ x && x ≤ 90) || x == 95

def ipLine (s : String) : Option IpLine :=
  if s == "e" then some .blank
  else if s.startsWith "c:" then
    match unhex (s.drop 2).toString with
    | some b => if printableB b then some .blank else none
    | none => none
  else if s.startsWith "g:" then
    match unhex (s.drop 2).toString with
    | some b => if garbageOK b then some .garbage else none
    | none => none
  else if s.startsWith "r:" then
    match (s.drop 2).toString.splitOn ":" with
    | [rg, fmt] => do
      let r ← rangeOf 16 rg
      if fmt == "one" then (if r.1 == r.2 then some (.range r.1 r.2 true) else none)
      else if ["sp", "tab", "sp3", "mix"].contains fmt then some (.range r.1 r.2 false)
      else none
    | _ => none
  else none

/-- CheckAndLoad: (single counter, pair counter) against the limits; none = error -/
def ipLoad (limS limP : Nat) : List IpLine → Nat → Nat → Option (List (Nat × Nat))
  | [], _, _ => some []
  | .blank :: rest, s, p => ipLoad limS limP rest s p
  | .garbage :: _, _, _ => none
  | .range lo hi _ :: rest, s, p =>
    if lo ≠ hi ∧ (lo > hi ∨ isV4Mapped lo ≠ isV4Mapped hi) then none
    else
      let s' := if lo = hi then s + 1 else s
      let p' := if lo = hi then p else p + 1
      if s' > limS ∨ p' > limP then none
      else (ipLoad limS limP rest s' p').map ((lo, hi) :: ·)

def runLoadIP (f : List String) (impl : String) : Ans :=
  match f with
  | [ip, metaS, lines] =>
    match ipN 16 ip, (splitList lines "/").mapM ipLine with
    | some ip', some ls =>
      let singles := (ls.filter fun l => match l with | .range lo hi _ => lo == hi | _ => false).length
      let pairs := (ls.filter fun l => match l with | .range lo hi _ => lo != hi | _ => false).length
      let lims : Option (Nat × Nat) :=
        if metaS == "-" then some (singles, pairs)
        else match metaS.splitOn "." with
          | [a, b] => match canonNat a, canonNat b with
            | some x, some y => if x ≤ 99 && y ≤ 99 then some (x, y) else none
            | _, _ => none
          | _ => none
      match lims with
      | none => bad
      | some (ls', lp) =>
        let r := ipLoad ls' lp ls 0 0
        let m := match r with
          | none => "err"
          | some rs => if blockAccept rs ip' == .close then "ok:blocked" else "ok:free"
        { model := m, verdict := loaderVerdict "iptable" m impl,
          tags := ["li", if r.isSome then "li-accept" else "li-reject"] ++ (if ls.isEmpty then [] else ["nt"]) }
    | _, _ => bad
  | _ => bad

/-- go-jose's JSONWebKey.UnmarshalJSON verdict per generated element kind (contract, exercised):
    0 = rejected, 1 = accepted usable key, 2 = accepted and it is the probe token's key.
    A `null` element is rejected by readKeyFile itself ("null key in <file>", /repo 55abf79; before that fix it was
    accepted as a nil key and the next request panicked in provideKey). -/
def jwkKind (k : String) : Option Nat :=
  if k == "oct0" then some 2
  else if ["oct1", "octempty", "rsa", "ec"].contains k then some 1
  else if ["null", "octnok", "octbad64", "rsanon", "ecoff", "ecnocrv", "nokty", "unkkty", "lckty", "num", "str", "emptyobj"].contains k then some 0
  else none

/-- validateToken over the loaded keys with a valid HS256 token of key oct0 -/
def probeKeys : List Nat → String
  | [] => "resp:401:" ++ hexField (challenge "Bearer" [82])
  | 2 :: _ => "goon"
  | _ :: rest => probeKeys rest

def runLoadKeys (f : List String) (impl : String) : Ans :=
  match f with
  | [top, elems] =>
    match (splitList elems "+").mapM jwkKind with
    | none => bad
    | some ks =>
      if !["arr", "obj", "garbage", "empty", "trail", "ws"].contains top then bad
      else
        let accept := (top == "arr" || top == "ws") && !ks.contains 0
        let m := if accept then "ok:" ++ toString ks.length ++ ":" ++ probeKeys ks else "err"
        { model := m, verdict := loaderVerdict "keyfile" m impl,
          tags := ["lk", if accept then "lk-accept" else "lk-reject"] ++ (if ks.isEmpty then [] else ["nt"]) }
  | _ => bad

def containsSub (s sub : String) : Bool := (s.splitOn sub).length > 1

def runKind (kind : String) (f : List String) (impl : String) : Ans :=
  if kind == "ba" then runBasic f impl
  else if kind == "jw" then runJwt f impl
  else if kind == "sl" then runSlink f impl
  else if kind == "bg" then runBlockGlobal f impl
  else if kind == "br" then runBlockReq f impl
  else bad

/-- fields of the normal op that installs conf `c` with the request part of the final op -/
def reloadFields (kind : String) (c final : List String) : Option (List String) :=
  if kind == "ba" || kind == "jw" || kind == "sl" then
    match c, final with
    | [p, rules], [_, _, req] => some [p, rules, req]
    | _, _ => none
  else if kind == "br" then
    match c, final with
    | [g, p, gr, pr], [_, _, _, _, cip] => some [g, p, gr, pr, cip]
    | _, _ => none
  else if kind == "bg" then
    match c, final with
    | [ranges], [ip, _] => some [ip, ranges]
    | _, _ => none
  else none

def versionOK (v : String) : Bool :=
  !v.isEmpty && v.length ≤ 16 && v.toList.all fun c => c.isAlphanum

/-- `rl`: the history is only checked for well-formedness; the table after it is the LAST conf
    (`tableAfter`, C51_reload_last_conf), so model and oracle are those of the final op. -/
def runReload (f : List String) (impl : String) : Ans :=
  match f with
  | kind :: hist :: ver :: final =>
    if !versionOK ver || hist.isEmpty then bad
    else
      let items := hist.splitOn "#"
      let okItem (item : String) : Bool :=
        match item.splitOn ";" with
        | v :: c =>
          versionOK v && !c.isEmpty &&
          (match reloadFields kind c final with
           | some fields =>
             let a := runKind kind fields ""
             a.model != "bad-op" && !a.model.startsWith "err:"
           | none => false)
        | [] => false
      if !items.all okItem then bad
      else
        let a := runKind kind final impl
        if a.model == "bad-op" then bad
        else { a with tags := ["rl", "rl-" ++ kind] ++ a.tags.filter (· == "nt") }
  | _ => bad

/-! ## histories through the rule files and the real reload entry points -/

def restrictedHex : String := "52657374726963746564"

/-- ruleConvert: an empty Realm in the rule file becomes "Restricted" -/
def defaultRealms (rules : String) : String :=
  if rules == "_" then rules
  else "/".intercalate ((rules.splitOn "/").map fun r =>
    match r.splitOn "," with
    | [m, realm, x] => ",".intercalate [m, if realm == "-" then restrictedHex else realm, x]
    | _ => r)

def asciiPrintableB (b : Bytes) : Bool := b.all fun c => 32 ≤ c && c ≤ 126

def userFileOK (u : Bytes) : Bool :=
  !(u.any fun c => c == 58 || c == 35 || c == 10 || c == 13) &&
  (u.isEmpty || ((match u.head? with | some c => 32 < c && c < 127 | none => true) &&
                 (match u.getLast? with | some c => 32 < c && c < 127 | none => true)))

/-- can the rules be written into rule / user / key files and read back unchanged? -/
def rulesFileOK (kind rules : String) : Bool :=
  if kind != "ba" && kind != "jw" then true
  else (splitList rules "/").all fun r =>
    match r.splitOn "," with
    | [_, realm, x] =>
      (match unhex realm with | some b => asciiPrintableB b | none => false) &&
      (kind != "ba" || (splitList x "+").all fun us =>
        match us.splitOn ":" with
        | u :: _ => (match unhex u with | some b => userFileOK b | none => false)
        | [] => false)
    | _ => false

def cmdOK (rules : String) : Bool :=
  (splitList rules "/").all fun r =>
    match r.splitOn "," with
    | [_, cmd] => (match unhex cmd with | some b => asciiPrintableB b | none => false)
    | _ => false

def cmdValid (rules : String) : Bool :=
  (splitList rules "/").all fun r =>
    match r.splitOn "," with
    | [_, cmd] => cmd == "434c4f5345" || cmd == "414c4c4f57"
    | _ => false

/-- a load step: none = malformed op, some (answer, new conf if accepted) -/
def histLoad (kind : String) (c : List String) : Option (String × Option (List String)) :=
  if c == ["X0"] || c == ["X1"] then some ("err", none)
  else if kind == "ba" || kind == "jw" || kind == "sl" then
    let req := if kind == "sl" then "-;-;2f;_;_" else "n"
    let okRules (r : String) : Bool := (runKind kind ["1", r, req] "").model != "bad-op" && rulesFileOK kind r
    let dr (r : String) : String := if kind == "sl" then r else defaultRealms r
    match c with
    | [p, r] => if (p == "0" || p == "1") && okRules r then some ("ok", some [p, dr r]) else none
    | ["2", r1, r2] => if okRules r1 && okRules r2 then some ("ok", some ["2", dr r1, dr r2]) else none
    | _ => none
  else if kind == "br" then
    match c with
    | [g, p, gr, pr] =>
      let a := runKind kind [g, p, gr, pr, "0a000001"] ""
      if a.model == "bad-op" || !cmdOK gr || !cmdOK pr then none
      else if a.model == "err:conf" || !cmdValid gr || !cmdValid pr then some ("err", none)
      else some ("ok", some c)
    | _ => none
  else if kind == "bg" then
    match c with
    | [ranges] =>
      let a := runKind kind ["00000000000000000000ffff0a000001", ranges] ""
      if a.model == "bad-op" then none
      else if a.model == "err:conf" then some ("err", none)
      else some ("ok", some c)
    | _ => none
  else none

/-- the fields of the normal op that asks request `q` under conf `cur` -/
def histReqFields (kind : String) (cur : Option (List String)) (q : List String) : Option (List String) :=
  if kind == "ba" || kind == "jw" || kind == "sl" then
    match q with
    | prod :: rest =>
      if (prod != "0" && prod != "1") || rest.isEmpty then none
      else
        let req := ";".intercalate rest
        let rules : Option String :=
          match cur with
          | some [p, r] => if p == prod then some r else none
          | some ["2", r1, r2] => if prod == "1" then some r1 else some r2
          | _ => none
        if (kind == "sl" && rest.length != 5) || (kind != "sl" && rest.length != 1) then none
        else match rules with
          | some r => some ["1", r, req]
          | none => some ["0", "_", req]
    | [] => none
  else if kind == "br" then
    match q, cur with
    | [cip], some [g, p, gr, pr] => some [g, p, gr, pr, cip]
    | [cip], none => some ["0", "0", "_", "_", cip]
    | _, _ => none
  else if kind == "bg" then
    match q, cur with
    | [ip], some [ranges] => some [ip, ranges]
    | [ip], none => some [ip, "_"]
    | _, _ => none
  else none

structure HistAcc where
  cur : Option (List String) := none
  models : List String := []
  verdict : String := "ok"
  nt : Bool := false
  bad : Bool := false

def histStep (kind : String) (acc : HistAcc) (step impl : String) : HistAcc :=
  if acc.bad || step.length < 2 then { acc with bad := true }
  else
    let body := (step.drop 1).toString.splitOn ";"
    if step.startsWith "L" then
      match histLoad kind body with
      | none => { acc with bad := true }
      | some (ans, newc) =>
        let v := if impl == ans then "ok"
          else if impl.startsWith "PANIC" then "FAIL:loader-panic"
          else if ans == "err" then "FAIL:reload-accepts-invalid" else "FAIL:reload-rejects-valid"
        { acc with cur := (match newc with | some c => some c | none => acc.cur), models := acc.models ++ [ans],
                   verdict := if acc.verdict == "ok" then v else acc.verdict }
    else if step.startsWith "Q" then
      match histReqFields kind acc.cur body with
      | none => { acc with bad := true }
      | some fields =>
        let a := runKind kind fields impl
        if a.model == "bad-op" || a.model.startsWith "err:" then { acc with bad := true }
        else { acc with models := acc.models ++ [a.model], nt := acc.nt || a.tags.contains "nt",
                        verdict := if acc.verdict == "ok" && a.verdict != "skip" then a.verdict else acc.verdict }
    else { acc with bad := true }

def runHist (f : List String) (impl : String) : Ans :=
  match f with
  | [kind, steps] =>
    let ss := steps.splitOn "#"
    let impls := impl.splitOn ","
    -- answers of the implementation, step by step (a missing one is judged as "")
    let acc := (ss.zip (impls ++ List.replicate ss.length "")).foldl (fun a si => histStep kind a si.1 si.2) {}
    if acc.bad then bad
    else
      let m := ",".intercalate acc.models
      { model := m,
        verdict := if impls.length != ss.length && !impl.startsWith "PANIC" then "FAIL:history-shape" else acc.verdict,
        tags := ["hs", "hs-" ++ kind] ++ (if acc.nt then ["nt"] else []) }
  | _ => bad

def run (op impl : String) : Ans :=
  -- spellings that may coincide with the original for a particular checksum / token are refused by exec
  if impl == "bad-op" && (containsSub op "=mstd!" || containsSub op "=mcase" || containsSub op ".cpad:") then bad
  else
  match op.splitOn " " with
  | [kind, body] =>
    let f := body.splitOn "|"
    if kind == "ba" then runBasic f impl
    else if kind == "jw" then runJwt f impl
    else if kind == "sl" then runSlink f impl
    else if kind == "bg" then runBlockGlobal f impl
    else if kind == "br" then runBlockReq f impl
    else if kind == "rl" then runReload f impl
    else if kind == "hs" then runHist f impl
    else if kind == "lu" then runLoadUser f impl
    else if kind == "ls" then runLoadSlink f impl
    else if kind == "lb" then runLoadBlock f impl
    else if kind == "li" then runLoadIP f impl
    else if kind == "lk" then runLoadKeys f impl
    else bad
  | _ => bad

end BfeVerif.C51
