import BfeVerif.C51.Model
/-! C51 — helper lemmas (core only). -/
namespace BfeVerif.C51

/-! ## rule walk -/

theorem firstMatch_iff {α : Type} (rules : List (Bool × α)) (r : α) :
    firstMatch rules = some r ↔
      ∃ pre post, rules = pre ++ (true, r) :: post ∧ ∀ e ∈ pre, e.1 = false := by
  induction rules with
  | nil => simp [firstMatch]
  | cons x xs ih =>
    obtain ⟨m, a⟩ := x
    cases m with
    | true =>
      simp only [firstMatch, if_true]
      constructor
      · intro h
        cases h
        exact ⟨[], xs, rfl, by simp⟩
      · rintro ⟨pre, post, h, hp⟩
        cases pre with
        | nil =>
          simp only [List.nil_append, List.cons.injEq, Prod.mk.injEq, true_and] at h
          rw [h.1]
        | cons e pre' =>
          have h1 := hp e (by simp)
          simp only [List.cons_append, List.cons.injEq] at h
          rw [← h.1] at h1
          simp at h1
    | false =>
      simp only [firstMatch, Bool.false_eq_true, if_false]
      rw [ih]
      constructor
      · rintro ⟨pre, post, h, hp⟩
        refine ⟨(false, a) :: pre, post, by simp [h], ?_⟩
        intro e he
        simp only [List.mem_cons] at he
        rcases he with rfl | he
        · rfl
        · exact hp e he
      · rintro ⟨pre, post, h, hp⟩
        cases pre with
        | nil => simp at h
        | cons e pre' =>
          simp only [List.cons_append, List.cons.injEq] at h
          exact ⟨pre', post, h.2, fun e' he' => hp e' (by simp [he'])⟩

theorem ruleWalk_goOn_iff {α : Type} (check : α → Bool) (reject : α → Outcome)
    (hrej : ∀ r, reject r ≠ .goOn) (tbl : Option (List (Bool × α))) :
    ruleWalk check reject tbl = .goOn ↔
      ∀ rules, tbl = some rules → ∀ r, firstMatch rules = some r → check r = true := by
  unfold ruleWalk
  cases tbl with
  | none => simp
  | some rules =>
    cases hfm : firstMatch rules with
    | none => simp [hfm]
    | some r =>
      by_cases hc : check r = true
      · simp [hfm, hc]
      · simp only [hfm, hc, Bool.false_eq_true, if_false]
        constructor
        · intro h; exact absurd h (hrej r)
        · intro h
          have := h rules rfl r hfm
          exact absurd this hc

theorem ruleWalk_reject {α : Type} (check : α → Bool) (reject : α → Outcome)
    (rules : List (Bool × α)) (r : α) (hfm : firstMatch rules = some r) (hc : check r = false) :
    ruleWalk check reject (some rules) = reject r := by
  simp [ruleWalk, hfm, hc]

/-! ## basic -/

theorem splitColon_iff (cs u p : Bytes) :
    splitColon cs = some (u, p) ↔ cs = u ++ 58 :: p ∧ (58 : UInt8) ∉ u := by
  induction cs generalizing u p with
  | nil => simp [splitColon]
  | cons c rest ih =>
    unfold splitColon
    by_cases hc : c = 58
    · subst hc
      simp only [if_true, Option.some.injEq, Prod.mk.injEq]
      constructor
      · rintro ⟨rfl, rfl⟩; simp
      · rintro ⟨h, hn⟩
        cases u with
        | nil => simp at h; exact ⟨rfl, h⟩
        | cons a u' =>
          simp only [List.cons_append, List.cons.injEq] at h
          exact absurd (by rw [← h.1]; simp) hn
    · simp only [hc, if_false]
      cases hs : splitColon rest with
      | none =>
        constructor
        · intro h; exact absurd h (by simp)
        · rintro ⟨h, hn⟩
          cases u with
          | nil => simp at h; exact absurd h.1 hc
          | cons a u' =>
            simp only [List.cons_append, List.cons.injEq] at h
            have := (ih u' p).mpr ⟨h.2, fun hm => hn (List.mem_cons_of_mem _ hm)⟩
            rw [hs] at this
            exact absurd this (by simp)
      | some up =>
        obtain ⟨u0, p0⟩ := up
        have h0 := (ih u0 p0).mp hs
        simp only [Option.some.injEq, Prod.mk.injEq]
        constructor
        · rintro ⟨rfl, rfl⟩
          refine ⟨by rw [h0.1]; simp, ?_⟩
          intro hm
          simp only [List.mem_cons] at hm
          rcases hm with h | h
          · exact hc h.symm
          · exact h0.2 h
        · rintro ⟨h, hn⟩
          cases u with
          | nil => simp at h; exact absurd h.1 hc
          | cons a u' =>
            simp only [List.cons_append, List.cons.injEq] at h
            have := (ih u' p).mpr ⟨h.2, fun hm => hn (List.mem_cons_of_mem _ hm)⟩
            rw [hs] at this
            simp only [Option.some.injEq, Prod.mk.injEq] at this
            exact ⟨by rw [h.1, this.1], this.2⟩

theorem lookupLast_iff {H : Type} (users : List (Bytes × H)) (user : Bytes) (h : H) :
    lookupLast users user = some h ↔ StoredFor users user h := by
  unfold StoredFor
  induction users with
  | nil => simp [lookupLast]
  | cons e rest ih =>
    obtain ⟨u, h0⟩ := e
    unfold lookupLast
    cases hl : lookupLast rest user with
    | some h' =>
      simp only [Option.some.injEq]
      constructor
      · rintro rfl
        obtain ⟨pre, post, hr, hp⟩ := ih.mp (by rw [hl])
        exact ⟨(u, h0) :: pre, post, by simp [hr], hp⟩
      · rintro ⟨pre, post, hr, hp⟩
        cases pre with
        | nil =>
          simp only [List.nil_append, List.cons.injEq] at hr
          -- then no entry for user in rest, contradiction with hl
          have : lookupLast rest user = none := by
            rw [hr.2]
            clear hl ih hr
            induction post with
            | nil => rfl
            | cons x xs ihx =>
              obtain ⟨a, b⟩ := x
              unfold lookupLast
              rw [ihx (fun e he => hp e (List.mem_cons_of_mem _ he))]
              have := hp (a, b) (by simp)
              simp only at this
              simp [this]
          rw [this] at hl
          exact absurd hl (by simp)
        | cons x pre' =>
          simp only [List.cons_append, List.cons.injEq] at hr
          have := ih.mpr ⟨pre', post, hr.2, hp⟩
          rw [hl] at this
          exact (Option.some.inj this)
    | none =>
      simp only
      constructor
      · intro hh
        by_cases hu : u = user
        · simp only [hu, if_true, Option.some.injEq] at hh
          subst hh
          refine ⟨[], rest, by simp [hu], ?_⟩
          intro e he hne
          -- an entry for user in rest would make lookupLast rest user ≠ none
          have : ∀ (l : List (Bytes × H)), (∃ e ∈ l, e.1 = user) → lookupLast l user ≠ none := by
            intro l
            induction l with
            | nil => simp
            | cons y ys ihy =>
              obtain ⟨a, b⟩ := y
              rintro ⟨e', he', hne'⟩
              unfold lookupLast
              cases hly : lookupLast ys user with
              | some _ => simp
              | none =>
                simp only [List.mem_cons] at he'
                rcases he' with rfl | he'
                · simp only at hne'; simp [hne']
                · exact absurd hly (ihy ⟨e', he', hne'⟩)
          exact this rest ⟨e, he, hne⟩ hl
        · simp [hu] at hh
      · rintro ⟨pre, post, hr, hp⟩
        cases pre with
        | nil =>
          simp only [List.nil_append, List.cons.injEq, Prod.mk.injEq] at hr
          simp [hr.1.1, hr.1.2]
        | cons x pre' =>
          simp only [List.cons_append, List.cons.injEq] at hr
          have := ih.mpr ⟨pre', post, hr.2, hp⟩
          rw [hl] at this
          exact absurd this (by simp)

/-- the prefix test of parseBasicAuth, as a statement about a decomposition of the header -/
theorem basicPrefix_iff (auth : Bytes) :
    ¬ (auth.length < 6 ∨ (auth.take 6).map lowerB ≠ basicPrefix) ↔
      ∃ pfx, auth = pfx ++ auth.drop 6 ∧ pfx.map lowerB = basicPrefix := by
  constructor
  · intro h
    have h1 : ¬ auth.length < 6 := fun hh => h (Or.inl hh)
    have h2 : (auth.take 6).map lowerB = basicPrefix := by
      by_cases hh : (auth.take 6).map lowerB = basicPrefix
      · exact hh
      · exact absurd (Or.inr hh) h
    exact ⟨auth.take 6, (List.take_append_drop 6 auth).symm, h2⟩
  · rintro ⟨pfx, h, hp⟩
    have hlen : pfx.length = 6 := by
      have := congrArg List.length hp
      simpa [basicPrefix] using this
    have htake : auth.take 6 = pfx := by
      rw [h, List.take_left' hlen]
    intro hor
    rcases hor with hh | hh
    · have := congrArg List.length h
      simp only [List.length_append, List.length_drop] at this
      omega
    · exact hh (by rw [htake, hp])

theorem parseBasicAuth_iff (b64dec : Bytes → Option Bytes) (auth user pw : Bytes) :
    parseBasicAuth b64dec auth = some (user, pw) ↔
      ∃ pfx cred, auth = pfx ++ cred ∧ pfx.map lowerB = basicPrefix ∧
        b64dec cred = some (user ++ 58 :: pw) ∧ (58 : UInt8) ∉ user := by
  unfold parseBasicAuth
  by_cases hpre : auth.length < 6 ∨ (auth.take 6).map lowerB ≠ basicPrefix
  · simp only [hpre, if_true]
    constructor
    · intro h; exact absurd h (by simp)
    · rintro ⟨pfx, cred, h, hp, _, _⟩
      exfalso
      have hlen : pfx.length = 6 := by
        have := congrArg List.length hp
        simpa [basicPrefix] using this
      have hd : auth.drop 6 = cred := by rw [h, List.drop_left' hlen]
      exact (basicPrefix_iff auth).mpr ⟨pfx, by rw [hd]; exact h, hp⟩ hpre
  · simp only [hpre, if_false]
    obtain ⟨pfx, h, hp⟩ := (basicPrefix_iff auth).mp hpre
    have hlen : pfx.length = 6 := by
      have := congrArg List.length hp
      simpa [basicPrefix] using this
    constructor
    · intro hm
      cases hd : b64dec (auth.drop 6) with
      | none => rw [hd] at hm; exact absurd hm (by simp)
      | some cs =>
        rw [hd] at hm
        have := (splitColon_iff cs user pw).mp hm
        exact ⟨pfx, auth.drop 6, h, hp, by rw [hd, this.1], this.2⟩
    · rintro ⟨pfx', cred, h', hp', hdec, hn⟩
      have hlen' : pfx'.length = 6 := by
        have := congrArg List.length hp'
        simpa [basicPrefix] using this
      have hd : auth.drop 6 = cred := by rw [h', List.drop_left' hlen']
      rw [hd, hdec]
      exact (splitColon_iff _ user pw).mpr ⟨rfl, hn⟩

/-! ## jwt -/

theorem splitOn_ne_nil {α : Type} (p : α → Bool) (l : List α) : splitOn p l ≠ [] := by
  cases l with
  | nil => simp [splitOn]
  | cons x xs =>
    unfold splitOn
    split
    · simp
    · split <;> simp

theorem splitOn_one {α : Type} (p : α → Bool) (l a : List α) :
    splitOn p l = [a] ↔ l = a ∧ ∀ y ∈ a, p y = false := by
  induction l generalizing a with
  | nil =>
    simp only [splitOn, List.cons.injEq, and_true]
    constructor
    · intro h; subst h; simp
    · intro h; exact h.1
  | cons x xs ih =>
    unfold splitOn
    by_cases hx : p x = true
    · simp only [hx, if_true, List.cons.injEq]
      constructor
      · rintro ⟨_, h⟩; exact absurd h (splitOn_ne_nil p xs)
      · rintro ⟨h, hn⟩
        subst h
        have := hn x (by simp)
        rw [hx] at this
        exact absurd this (by simp)
    · simp only [hx, Bool.false_eq_true, if_false]
      cases hs : splitOn p xs with
      | nil => exact absurd hs (splitOn_ne_nil p xs)
      | cons h t =>
        simp only [List.cons.injEq]
        constructor
        · rintro ⟨rfl, rfl⟩
          have := (ih h).mp hs
          refine ⟨by rw [this.1], ?_⟩
          intro y hy
          simp only [List.mem_cons] at hy
          rcases hy with rfl | hy
          · simpa using hx
          · exact this.2 y hy
        · rintro ⟨rfl, hn⟩
          have := (ih xs).mpr ⟨rfl, fun y hy => hn y (List.mem_cons_of_mem _ hy)⟩
          rw [hs] at this
          simp only [List.cons.injEq] at this
          exact ⟨by rw [this.1], this.2⟩

theorem splitOn_two {α : Type} (p : α → Bool) (l a b : List α) :
    splitOn p l = [a, b] ↔
      ∃ x, l = a ++ x :: b ∧ p x = true ∧ (∀ y ∈ a, p y = false) ∧ (∀ y ∈ b, p y = false) := by
  induction l generalizing a with
  | nil =>
    simp only [splitOn]
    constructor
    · intro h; simp at h
    · rintro ⟨x, h, _⟩
      exact absurd h (by simp)
  | cons c cs ih =>
    unfold splitOn
    by_cases hc : p c = true
    · simp only [hc, if_true, List.cons.injEq]
      constructor
      · rintro ⟨rfl, h⟩
        have := (splitOn_one p cs b).mp h
        exact ⟨c, by simp [this.1], hc, by simp, this.2⟩
      · rintro ⟨x, h, hx, ha, hb⟩
        cases a with
        | nil =>
          simp only [List.nil_append, List.cons.injEq] at h
          exact ⟨rfl, (splitOn_one p cs b).mpr ⟨h.2, hb⟩⟩
        | cons a0 a' =>
          simp only [List.cons_append, List.cons.injEq] at h
          have := ha a0 (by simp)
          rw [← h.1, hc] at this
          exact absurd this (by simp)
    · simp only [hc, Bool.false_eq_true, if_false]
      cases hs : splitOn p cs with
      | nil => exact absurd hs (splitOn_ne_nil p cs)
      | cons h t =>
        simp only [List.cons.injEq]
        constructor
        · rintro ⟨rfl, rfl⟩
          obtain ⟨x, hl, hx, ha, hb⟩ := (ih h).mp hs
          refine ⟨x, by simp [hl], hx, ?_, hb⟩
          intro y hy
          simp only [List.mem_cons] at hy
          rcases hy with rfl | hy
          · simpa using hc
          · exact ha y hy
        · rintro ⟨x, hl, hx, ha, hb⟩
          cases a with
          | nil =>
            simp only [List.nil_append, List.cons.injEq] at hl
            rw [← hl.1] at hx
            exact absurd hx hc
          | cons a0 a' =>
            simp only [List.cons_append, List.cons.injEq] at hl
            have := (ih a').mpr ⟨x, hl.2, hx, fun y hy => ha y (List.mem_cons_of_mem _ hy), hb⟩
            rw [hs] at this
            simp only [List.cons.injEq] at this
            exact ⟨by rw [hl.1, this.1], this.2⟩

theorem isSp_true {T : Type} (x : HSym T) : isSp x = true ↔ x = .ch 32 := by
  cases x with
  | ch b => simp [isSp]
  | tok t => simp [isSp]

theorem bearer_noSp {T : Type} : ∀ y ∈ (bearerSyms : List (HSym T)), isSp y = false := by
  intro y hy
  simp only [bearerSyms, List.mem_cons, List.not_mem_nil, or_false] at hy
  rcases hy with rfl | rfl | rfl | rfl | rfl | rfl <;> simp [isSp]

theorem getToken_iff {T : Type} [DecidableEq T] (hdr part : List (HSym T)) :
    getToken hdr = some part ↔
      hdr = bearerSyms ++ .ch 32 :: part ∧ ∀ y ∈ part, isSp y = false := by
  unfold getToken
  by_cases h0 : hdr = []
  · subst h0
    simp [bearerSyms]
  · simp only [h0, if_false]
    constructor
    · intro h
      split at h
      · rename_i a b hs
        by_cases hab : a = bearerSyms
        · simp only [hab, if_true, Option.some.injEq] at h
          subst h
          obtain ⟨x, hl, hx, _, hb⟩ := (splitOn_two isSp hdr a b).mp hs
          rw [(isSp_true x).mp hx, hab] at hl
          exact ⟨hl, hb⟩
        · simp [hab] at h
      · exact absurd h (by simp)
    · rintro ⟨hl, hb⟩
      have hs : splitOn isSp hdr = [bearerSyms, part] :=
        (splitOn_two isSp hdr bearerSyms part).mpr ⟨.ch 32, hl, by simp [isSp], bearer_noSp, hb⟩
      rw [hs]
      simp

theorem asToken_iff {T : Type} (part : List (HSym T)) (t : T) :
    asToken part = some t ↔ part = [.tok t] := by
  constructor
  · intro h
    unfold asToken at h
    split at h
    · simp only [Option.some.injEq] at h
      subst h
      rfl
    · exact absurd h (by simp)
  · rintro rfl
    rfl

/-- under the partial theorem's hypothesis the library's claim check coincides with the specification -/
theorem lib_eq_spec_of_plain (now : Int) (c : Claims) (h : claimsPlain c = true) :
    libClaimsValid now c = timeOK now c := by
  unfold claimsPlain at h
  simp only [Bool.and_eq_true] at h
  obtain ⟨⟨he, hi⟩, hn⟩ := h
  have key : ∀ (cmp : Int → Bool) (cl : Claim), claimPlain cl = true → libClaimOK cmp cl = specClaimOK cmp cl := by
    intro cmp cl hcl
    cases cl with
    | absent => rfl
    | num v =>
      simp only [claimPlain, bne_iff_ne, ne_eq] at hcl
      simp [libClaimOK, specClaimOK, hcl]
    | other => simp [claimPlain] at hcl
  unfold libClaimsValid timeOK
  rw [key _ _ he, key _ _ hi, key _ _ hn]

/-! ## secure link -/

theorem slCheck_iff {S : Type} [DecidableEq S] (o : StrOps S) (encode : S → S) (atoi : S → Option Int)
    (now : Int) (q : SlReq S) (r : SlRule) :
    slCheck o encode atoi now q r = true ↔ LinkValid o encode atoi now q r := by
  unfold slCheck LinkValid
  simp only [Bool.and_eq_true]
  constructor
  · rintro ⟨h1, h2⟩
    refine ⟨?_, ?_⟩
    · intro hek
      simp only [hek, ne_eq, not_false_eq_true, if_true] at h1
      cases hemp : o.isEmpty (getFirst o.empty q.query r.ek) with
      | true => simp [hemp] at h1
      | false =>
        simp only [hemp, Bool.false_eq_true, if_false] at h1
        cases ha : atoi (getFirst o.empty q.query r.ek) with
        | none => simp [ha] at h1
        | some n =>
          simp only [ha] at h1
          refine ⟨n, rfl, rfl, ?_⟩
          by_cases hgt : now > n
          · simp [hgt] at h1
          · omega
    · cases hemp : o.isEmpty (getFirst o.empty q.query r.ck) with
      | true => simp [hemp] at h2
      | false =>
        simp only [hemp, Bool.false_eq_true, if_false, decide_eq_true_eq] at h2
        exact ⟨rfl, h2.symm⟩
  · rintro ⟨h1, h2, h3⟩
    refine ⟨?_, ?_⟩
    · by_cases hek : r.ek = []
      · simp [hek]
      · obtain ⟨n, hemp, ha, hle⟩ := h1 hek
        simp only [ne_eq, hek, not_false_eq_true, if_true, hemp, Bool.false_eq_true, if_false, ha]
        have : ¬ now > n := by omega
        simp [this]
    · simp only [h2, Bool.false_eq_true, if_false, decide_eq_true_eq]
      exact h3.symm

/-! ## block -/

theorem cmd_ne : cmdAllow ≠ cmdClose := by decide

theorem rulesProcess_append (ip : Nat) (a b : List BlockRule) :
    rulesProcess ip (a ++ b) =
      if (rulesProcess ip a).2 = true then rulesProcess ip a else rulesProcess ip b := by
  induction a with
  | nil => simp [rulesProcess]
  | cons r rest ih =>
    rw [List.cons_append]
    by_cases hh : r.hit ip = true
    · by_cases ha : r.cmd = cmdAllow
      · have e1 : rulesProcess ip (r :: rest) = (.goOn, true) := by simp [rulesProcess, hh, ha]
        have e2 : rulesProcess ip (r :: (rest ++ b)) = (.goOn, true) := by simp [rulesProcess, hh, ha]
        rw [e1, e2]; simp
      · by_cases hc : r.cmd = cmdClose
        · have hca : cmdClose ≠ cmdAllow := fun h => cmd_ne h.symm
          have e1 : rulesProcess ip (r :: rest) = (.close, true) := by simp [rulesProcess, hh, hc, hca]
          have e2 : rulesProcess ip (r :: (rest ++ b)) = (.close, true) := by simp [rulesProcess, hh, hc, hca]
          rw [e1, e2]; simp
        · have e1 : rulesProcess ip (r :: rest) = rulesProcess ip rest := by simp [rulesProcess, hh, ha, hc]
          have e2 : rulesProcess ip (r :: (rest ++ b)) = rulesProcess ip (rest ++ b) := by
            simp [rulesProcess, hh, ha, hc]
          rw [e1, e2]; exact ih
    · have e1 : rulesProcess ip (r :: rest) = rulesProcess ip rest := by simp [rulesProcess, hh]
      have e2 : rulesProcess ip (r :: (rest ++ b)) = rulesProcess ip (rest ++ b) := by simp [rulesProcess, hh]
      rw [e1, e2]; exact ih

theorem rulesProcess_close_iff (ip : Nat) (rules : List BlockRule) :
    (rulesProcess ip rules).1 = .close ↔ Blocked rules ip := by
  unfold Blocked
  induction rules with
  | nil => simp [rulesProcess]
  | cons r rest ih =>
    unfold rulesProcess
    by_cases hh : r.hit ip = true
    · by_cases ha : r.cmd = cmdAllow
      · rw [if_pos hh, if_pos ha]
        constructor
        · intro h; exact absurd h (by simp)
        · rintro ⟨pre, r', post, hl, hr, hcm, hp⟩
          cases pre with
          | nil =>
            simp only [List.nil_append, List.cons.injEq] at hl
            rw [← hl.1, ha] at hcm
            exact absurd hcm cmd_ne
          | cons e pre' =>
            simp only [List.cons_append, List.cons.injEq] at hl
            have := hp e (by simp)
            rw [← hl.1] at this
            simp [BlockRule.decisive, hh, ha] at this
      · by_cases hc : r.cmd = cmdClose
        · rw [if_pos hh, if_neg ha, if_pos hc]
          simp only [true_iff]
          exact ⟨[], r, rest, rfl, hh, hc, by simp⟩
        · rw [if_pos hh, if_neg ha, if_neg hc, ih]
          constructor
          · rintro ⟨pre, r', post, hl, hr, hcm, hp⟩
            refine ⟨r :: pre, r', post, by simp [hl], hr, hcm, ?_⟩
            intro q hq
            simp only [List.mem_cons] at hq
            rcases hq with rfl | hq
            · simp [BlockRule.decisive, ha, hc]
            · exact hp q hq
          · rintro ⟨pre, r', post, hl, hr, hcm, hp⟩
            cases pre with
            | nil =>
              simp only [List.nil_append, List.cons.injEq] at hl
              rw [← hl.1] at hcm
              exact absurd hcm hc
            | cons e pre' =>
              simp only [List.cons_append, List.cons.injEq] at hl
              exact ⟨pre', r', post, hl.2, hr, hcm, fun q hq => hp q (List.mem_cons_of_mem _ hq)⟩
    · rw [if_neg hh, ih]
      constructor
      · rintro ⟨pre, r', post, hl, hr, hcm, hp⟩
        refine ⟨r :: pre, r', post, by simp [hl], hr, hcm, ?_⟩
        intro q hq
        simp only [List.mem_cons] at hq
        rcases hq with rfl | hq
        · simp [BlockRule.decisive, hh]
        · exact hp q hq
      · rintro ⟨pre, r', post, hl, hr, hcm, hp⟩
        cases pre with
        | nil =>
          simp only [List.nil_append, List.cons.injEq] at hl
          rw [← hl.1] at hr
          exact absurd hr hh
        | cons e pre' =>
          simp only [List.cons_append, List.cons.injEq] at hl
          exact ⟨pre', r', post, hl.2, hr, hcm, fun q hq => hp q (List.mem_cons_of_mem _ hq)⟩

theorem blockRequest_eq (g p : Option (List BlockRule)) (ip : Nat) :
    blockRequest g p ip = (rulesProcess ip (g.getD [] ++ p.getD [])).1 := by
  unfold blockRequest
  rw [rulesProcess_append]
  cases g with
  | none =>
    cases p with
    | none => simp [rulesProcess]
    | some pr => simp [rulesProcess]
  | some gr =>
    simp only [Option.getD_some]
    cases hg : rulesProcess ip gr with
    | mk ret m =>
      cases m with
      | true => simp
      | false =>
        cases p with
        | none => simp [rulesProcess]
        | some pr => simp

/-! ## loaders -/

theorem newNode_isSome_iff (nf : SlNodeFile) : (newNode nf).isSome = true ↔ nodeTypeOK nf.ty = true := by
  unfold newNode nodeTypeOK
  generalize asciiLower nf.ty = t
  simp only [Bool.or_eq_true, beq_iff_eq]
  repeat' split
  all_goals simp_all

theorem newNodes_isSome_iff (nfs : List SlNodeFile) :
    (newNodes nfs).isSome = true ↔ ∀ n ∈ nfs, nodeTypeOK n.ty = true := by
  induction nfs with
  | nil => simp [newNodes]
  | cons nf rest ih =>
    unfold newNodes
    cases hn : newNode nf with
    | none =>
      have : ¬ nodeTypeOK nf.ty = true := by
        intro h
        have := (newNode_isSome_iff nf).mpr h
        rw [hn] at this
        exact absurd this (by simp)
      simp [this]
    | some n =>
      have hok : nodeTypeOK nf.ty = true := (newNode_isSome_iff nf).mp (by rw [hn]; rfl)
      cases hr : newNodes rest with
      | none =>
        rw [hr] at ih
        simp only [Option.isSome_none, Bool.false_eq_true, false_iff] at ih
        simp only [Option.isSome_none, Bool.false_eq_true, false_iff]
        intro h
        exact ih (fun x hx => h x (List.mem_cons_of_mem _ hx))
      | some ns =>
        rw [hr] at ih
        simp only [Option.isSome_some, true_iff] at ih
        simp only [Option.isSome_some, true_iff]
        intro x hx
        simp only [List.mem_cons] at hx
        rcases hx with rfl | hx
        · exact hok
        · exact ih x hx

theorem quoteEsc_of_clean (realm : Bytes) (h : realmClean realm = true) : quoteEsc realm = realm := by
  induction realm with
  | nil => rfl
  | cons c rest ih =>
    unfold realmClean at h
    simp only [List.all_cons, Bool.and_eq_true, bne_iff_ne, ne_eq] at h
    unfold quoteEsc
    have hc : ¬ (c = 34 ∨ c = 92) := by
      intro hh
      rcases hh with hh | hh
      · exact h.1.1 hh
      · exact h.1.2 hh
    rw [if_neg hc, ih (by unfold realmClean; exact h.2)]

end BfeVerif.C51
