/-
  C51 — access-control modules admit exactly the valid requests.   Core-only model.

  Mirrors the decision logic of
    bfe_modules/mod_auth_basic/mod_auth_basic.go   authBasicHandler / checkAuthCredentials
    bfe_http/request.go                            parseBasicAuth
    bfe_modules/mod_auth_jwt/mod_auth_jwt.go       authJWTHandler / getToken / validateToken
    bfe_modules/mod_secure_link/{mod_secure_link,checker}.go   validateHandler / Checker.Check / Expression.Value
    bfe_modules/mod_block/mod_block.go             globalBlockHandler / productBlockHandler / productRulesProcess
  Cryptography and third-party verification are PARAMETERS:
    b64dec    base64.StdEncoding.DecodeString           (an executable model `b64StdDecode` is given for the driver)
    verifyPw  go-http-auth  auth.CheckSecret(passwd, hash)
    verifyJws jwt-go        signature part of jwt.Parse(token, key)   (incl. its key-type checks)
    encode    md5 + base64url of mod_secure_link,  atoi = strconv.Atoi,  now = time.Now().Unix()
  A rule's condition is abstracted to the Boolean "Cond.Match(req)".
-/
namespace BfeVerif.C51

abbrev Bytes := List UInt8

/-- what a handler returns: BfeHandlerGoOn | BfeHandlerClose | BfeHandlerResponse with status and the
    `WWW-Authenticate` header of the response. -/
inductive Outcome where
  | goOn
  | close
  | resp (status : Nat) (wwwAuth : Bytes)
  deriving DecidableEq, Repr

/-- `for _, rule := range rules { if rule.Cond.Match(req) { … return } }` : the first matching rule decides. -/
def firstMatch {α : Type} : List (Bool × α) → Option α
  | [] => none
  | (m, a) :: rest => if m then some a else firstMatch rest

/-- common shape of authBasicHandler / authJWTHandler / validateHandler:
    no rule list for the product ⇒ GoOn; first matching rule: check ok ⇒ GoOn else the rejection; none ⇒ GoOn. -/
def ruleWalk {α : Type} (check : α → Bool) (reject : α → Outcome) (tbl : Option (List (Bool × α))) : Outcome :=
  match tbl with
  | none => .goOn
  | some rules =>
    match firstMatch rules with
    | none => .goOn
    | some r => if check r then .goOn else reject r

/-! ## mod_auth_basic -/

def lowerB (b : UInt8) : UInt8 := if 65 ≤ b ∧ b ≤ 90 then b + 32 else b

/-- `"basic "` -/
def basicPrefix : Bytes := [98, 97, 115, 105, 99, 32]

/-- `cs[:s], cs[s+1:]` for `s = strings.IndexByte(cs, ':')` -/
def splitColon : Bytes → Option (Bytes × Bytes)
  | [] => none
  | c :: rest =>
    if c = 58 then some ([], rest)
    else match splitColon rest with
      | none => none
      | some (u, p) => some (c :: u, p)

/-- parseBasicAuth.  `strings.EqualFold(auth[:6], "Basic ")` on exactly six BYTES is ASCII case folding
    (a multi-byte rune such as U+017F makes the rune counts differ). -/
def parseBasicAuth (b64dec : Bytes → Option Bytes) (auth : Bytes) : Option (Bytes × Bytes) :=
  if auth.length < 6 ∨ (auth.take 6).map lowerB ≠ basicPrefix then none
  else match b64dec (auth.drop 6) with
    | none => none
    | some cs => splitColon cs

/-- `rule.UserPasswd[username]` where the map was filled in file order (a later line overwrites). -/
def lookupLast {H : Type} : List (Bytes × H) → Bytes → Option H
  | [], _ => none
  | (u, h) :: rest, user =>
    match lookupLast rest user with
    | some h' => some h'
    | none => if u = user then some h else none

structure BasicRule (H : Type) where
  realm : Bytes
  users : List (Bytes × H)

def checkBasic {H : Type} (b64dec : Bytes → Option Bytes) (verifyPw : Bytes → H → Bool)
    (auth : Bytes) (r : BasicRule H) : Bool :=
  match parseBasicAuth b64dec auth with
  | none => false
  | some (user, pw) =>
    match lookupLast r.users user with
    | none => false
    | some h => verifyPw pw h

def strBytes (s : String) : Bytes := s.toUTF8.toList

/-- `fmt.Sprintf("Basic realm=\"%s\"", rule.Realm)` -/
def challenge (scheme : String) (realm : Bytes) : Bytes :=
  strBytes scheme ++ strBytes " realm=\"" ++ realm ++ strBytes "\""

def basicHandler {H : Type} (b64dec : Bytes → Option Bytes) (verifyPw : Bytes → H → Bool)
    (tbl : Option (List (Bool × BasicRule H))) (auth : Bytes) : Outcome :=
  ruleWalk (checkBasic b64dec verifyPw auth) (fun r => .resp 401 (challenge "Basic" r.realm)) tbl

/-! ### executable model of `base64.StdEncoding.DecodeString` (used by the driver as `b64dec`)
    `\r` and `\n` are skipped everywhere; padding is mandatory; trailing bits are not checked. -/

def b64Val (c : UInt8) : Option Nat :=
  if 65 ≤ c ∧ c ≤ 90 then some (c.toNat - 65)
  else if 97 ≤ c ∧ c ≤ 122 then some (c.toNat - 71)
  else if 48 ≤ c ∧ c ≤ 57 then some (c.toNat + 4)
  else if c = 43 then some 62
  else if c = 47 then some 63
  else none

def b64Quanta : Bytes → Option Bytes
  | [] => some []
  | a :: b :: c :: d :: rest =>
    if d = 61 ∧ rest.isEmpty then
      if c = 61 then
        match b64Val a, b64Val b with
        | some x, some y => some [UInt8.ofNat ((x * 64 + y) / 16)]
        | _, _ => none
      else
        match b64Val a, b64Val b, b64Val c with
        | some x, some y, some z =>
          let v := (x * 64 + y) * 64 + z
          some [UInt8.ofNat (v / 1024), UInt8.ofNat (v / 4)]
        | _, _, _ => none
    else
      match b64Val a, b64Val b, b64Val c, b64Val d with
      | some x, some y, some z, some w =>
        let v := ((x * 64 + y) * 64 + z) * 64 + w
        match b64Quanta rest with
        | some out => some (UInt8.ofNat (v / 65536) :: UInt8.ofNat (v / 256) :: UInt8.ofNat v :: out)
        | none => none
      | _, _, _, _ => none
  | _ => none

def b64StdDecode (s : Bytes) : Option Bytes :=
  b64Quanta (s.filter fun c => c ≠ 10 ∧ c ≠ 13)

/-! ## mod_auth_jwt -/

/-- Authorization header symbols: a byte, or a whole compact JWS `t` (which contains no space). -/
inductive HSym (T : Type) where
  | ch (b : UInt8)
  | tok (t : T)
  deriving DecidableEq

def isSp {T : Type} : HSym T → Bool
  | .ch b => b == 32
  | .tok _ => false

/-- `strings.Split(s, " ")` -/
def splitOn {α : Type} (p : α → Bool) : List α → List (List α)
  | [] => [[]]
  | x :: xs =>
    if p x then [] :: splitOn p xs
    else match splitOn p xs with
      | [] => [[x]]
      | h :: t => (x :: h) :: t

/-- `"Bearer"` -/
def bearerSyms {T : Type} : List (HSym T) := [.ch 66, .ch 101, .ch 97, .ch 114, .ch 101, .ch 114]

/-- getToken: `Header.Get("Authorization")` split on " " must give exactly ["Bearer", token]. -/
def getToken {T : Type} [DecidableEq T] (hdr : List (HSym T)) : Option (List (HSym T)) :=
  if hdr = [] then none
  else match splitOn isSp hdr with
    | [a, b] => if a = bearerSyms then some b else none
    | _ => none

/-- a time claim in the token's claim set: absent, a JSON number (seconds), or some other JSON value -/
inductive Claim where
  | absent
  | num (v : Int)
  | other
  deriving DecidableEq, Repr

structure Claims where
  exp : Claim
  nbf : Claim
  iat : Claim
  deriving DecidableEq, Repr

/-- jwt-go v3.2.0 `MapClaims.Valid()`: a claim is checked only when it is a number, and the number 0 counts
    as "not set" (`verifyExp`: `if exp == 0 { return !required }`). -/
def libClaimOK (cmp : Int → Bool) : Claim → Bool
  | .num v => v == 0 || cmp v
  | _ => true

def libClaimsValid (now : Int) (c : Claims) : Bool :=
  libClaimOK (fun e => decide (now ≤ e)) c.exp &&
  libClaimOK (fun i => decide (i ≤ now)) c.iat &&
  libClaimOK (fun n => decide (n ≤ now)) c.nbf

/-- the second segment `authValue[1]` as a token: only a whole JWS atom can parse
    (contract for concrete junk strings: they do not have three segments). -/
def asToken {T : Type} : List (HSym T) → Option T
  | [.tok t] => some t
  | _ => none

structure JwtRule (K : Type) where
  realm : Bytes
  keys : List K

/-- validateToken: try each key in order; `jwt.Parse` = signature ∧ claims; then
    `parsedToken.Valid && parsedToken.Claims.Valid() == nil`. -/
def validateToken {K T : Type} (verifyJws : K → T → Bool) (claimsOf : T → Claims) (now : Int)
    (keys : List K) (part : List (HSym T)) : Bool :=
  keys.any fun k =>
    match asToken part with
    | none => false                                   -- jwt.Parse err ⇒ continue
    | some t =>
      let parseOK := verifyJws k t && libClaimsValid now (claimsOf t)
      parseOK && (true && libClaimsValid now (claimsOf t))

def checkJwt {K T : Type} [DecidableEq T] (verifyJws : K → T → Bool) (claimsOf : T → Claims) (now : Int)
    (hdr : List (HSym T)) (r : JwtRule K) : Bool :=
  match getToken hdr with
  | none => false
  | some part => validateToken verifyJws claimsOf now r.keys part

def jwtHandler {K T : Type} [DecidableEq T] (verifyJws : K → T → Bool) (claimsOf : T → Claims) (now : Int)
    (tbl : Option (List (Bool × JwtRule K))) (hdr : List (HSym T)) : Outcome :=
  ruleWalk (checkJwt verifyJws claimsOf now hdr) (fun r => .resp 401 (challenge "Bearer" r.realm)) tbl

/-! ## mod_secure_link
    Strings of the request are kept abstract (`S`) so that the driver can use symbolic strings
    (clock-relative expiry, checksums given by their preimage). -/

inductive SlNode where
  | label (v : Bytes)
  | query (k : Bytes)
  | header (k : Bytes)
  | host
  | uri
  | remoteAddr
  deriving DecidableEq

structure SlRule where
  ck : Bytes              -- ChecksumKey (default "md5" applied at load)
  ek : Bytes              -- ExpiresKey ("" = no expiry check)
  nodes : List SlNode

structure SlReq (S : Type) where
  query : List (Bytes × S)      -- parsed query in request order; Get = first value
  header : Bytes → S            -- Header.Get (canonicalisation inside)
  host : S
  uri : S
  remoteAddr : S

def getFirst {S : Type} (empty : S) : List (Bytes × S) → Bytes → S
  | [], _ => empty
  | (k, v) :: rest, key => if k = key then v else getFirst empty rest key

structure StrOps (S : Type) where
  empty : S
  append : S → S → S
  lit : Bytes → S
  isEmpty : S → Bool

def nodeValue {S : Type} (o : StrOps S) (q : SlReq S) : SlNode → S
  | .label v => o.lit v
  | .query k => getFirst o.empty q.query k
  | .header k => q.header k
  | .host => q.host
  | .uri => q.uri
  | .remoteAddr => q.remoteAddr

/-- Expression.Value: concatenation of the node values in order -/
def exprValue {S : Type} (o : StrOps S) (q : SlReq S) (nodes : List SlNode) : S :=
  nodes.foldl (fun acc n => o.append acc (nodeValue o q n)) o.empty

/-- Checker.Check -/
def slCheck {S : Type} [DecidableEq S] (o : StrOps S) (encode : S → S) (atoi : S → Option Int) (now : Int)
    (q : SlReq S) (r : SlRule) : Bool :=
  (if r.ek ≠ [] then
     let expired := getFirst o.empty q.query r.ek
     if o.isEmpty expired then false
     else match atoi expired with
       | none => false
       | some n => if now > n then false else true
   else true) &&
  (let origin := getFirst o.empty q.query r.ck
   if o.isEmpty origin then false
   else decide (encode (exprValue o q r.nodes) = origin))

def slHandler {S : Type} [DecidableEq S] (o : StrOps S) (encode : S → S) (atoi : S → Option Int) (now : Int)
    (tbl : Option (List (Bool × SlRule))) (q : SlReq S) : Outcome :=
  ruleWalk (slCheck o encode atoi now q) (fun _ => .resp 403 []) tbl

/-- executable model of `strconv.Atoi` on 64-bit (used by the driver) -/
def goAtoi (s : Bytes) : Option Int :=
  let (neg, ds) : Bool × Bytes :=
    match s with
    | c :: r => if c = 43 then (false, r) else if c = 45 then (true, r) else (false, s)
    | [] => (false, s)
  if ds.isEmpty || !(ds.all fun c => 48 ≤ c && c ≤ 57) then none
  else
    let v : Nat := ds.foldl (fun acc c => acc * 10 + (c.toNat - 48)) 0
    if neg then (if v ≤ 2 ^ 63 then some (-(v : Int)) else none)
    else (if v < 2 ^ 63 then some (v : Int) else none)

/-! ## mod_block -/

/-- globalBlockHandler: `ipTable.Search(clientIP)` (the ip dictionary itself is the subject of C19; here it is
    the set of configured inclusive ranges over 16-byte addresses read as numbers). -/
def blockAccept (ranges : List (Nat × Nat)) (ip : Nat) : Outcome :=
  if ranges.any (fun r => decide (r.1 ≤ ip ∧ ip ≤ r.2)) then .close else .goOn

structure BlockRule where
  lo : Nat
  hi : Nat
  cmd : Bytes

/-- "ALLOW" -/
def cmdAllow : Bytes := [65, 76, 76, 79, 87]
/-- "CLOSE" -/
def cmdClose : Bytes := [67, 76, 79, 83, 69]

def BlockRule.hit (r : BlockRule) (ip : Nat) : Bool := decide (r.lo ≤ ip ∧ ip ≤ r.hi)

/-- productRulesProcess: (return value, isMatch) -/
def rulesProcess (ip : Nat) : List BlockRule → Outcome × Bool
  | [] => (.goOn, false)
  | r :: rest =>
    if r.hit ip then
      if r.cmd = cmdAllow then (.goOn, true)
      else if r.cmd = cmdClose then (.close, true)
      else rulesProcess ip rest            -- unknown command: WrongCommand++, keep going
    else rulesProcess ip rest

/-- productBlockHandler: the rules of product "global" first, then the request's product -/
def blockRequest (g p : Option (List BlockRule)) (ip : Nat) : Outcome :=
  let product : Outcome :=
    match p with
    | none => .goOn
    | some rules => (rulesProcess ip rules).1
  match g with
  | none => product
  | some rules =>
    let (ret, isMatch) := rulesProcess ip rules
    if isMatch then ret else product

/-! # Specifications (what the property demands, stated independently of the handlers' control flow) -/

/-- the user file's effective entry for `user` is `h` (a later line overwrites an earlier one) -/
def StoredFor {H : Type} (users : List (Bytes × H)) (user : Bytes) (h : H) : Prop :=
  ∃ pre post, users = pre ++ (user, h) :: post ∧ ∀ e ∈ post, e.1 ≠ user

/-- RFC 7617: `Authorization: Basic base64(user ":" password)` (the prefix "Basic " up to ASCII case, user without colon)
    and the password verifies against the stored hash of that user. -/
def BasicValid {H : Type} (b64dec : Bytes → Option Bytes) (verifyPw : Bytes → H → Bool)
    (users : List (Bytes × H)) (auth : Bytes) : Prop :=
  ∃ pfx cred user pw h,
    auth = pfx ++ cred ∧ pfx.map lowerB = basicPrefix ∧
    b64dec cred = some (user ++ 58 :: pw) ∧ (58 : UInt8) ∉ user ∧
    StoredFor users user h ∧ verifyPw pw h = true

/-- RFC 7519 time claims: when present they must be NumericDates and hold at `now`. -/
def specClaimOK (cmp : Int → Bool) : Claim → Bool
  | .absent => true
  | .num v => cmp v
  | .other => false

def timeOK (now : Int) (c : Claims) : Bool :=
  specClaimOK (fun e => decide (now ≤ e)) c.exp &&
  specClaimOK (fun i => decide (i ≤ now)) c.iat &&
  specClaimOK (fun n => decide (n ≤ now)) c.nbf

/-- the key is usable for the token's algorithm: a JWK that declares `alg` is for that algorithm only -/
def algAgrees {A : Type} [DecidableEq A] (keyAlg : Option A) (tokAlg : A) : Bool :=
  match keyAlg with
  | none => true
  | some a => decide (a = tokAlg)

/-- `Authorization: Bearer <JWS>`, the JWS verifies under one of the rule's keys used with that key's
    algorithm, and the time claims hold. -/
def JwtValid {K T A : Type} [DecidableEq A] (verifyJws : K → T → Bool) (claimsOf : T → Claims)
    (keyAlg : K → Option A) (tokAlg : T → A) (now : Int) (keys : List K) (hdr : List (HSym T)) : Prop :=
  ∃ t, hdr = bearerSyms ++ [.ch 32, .tok t] ∧
    (∃ k ∈ keys, verifyJws k t = true ∧ algAgrees (keyAlg k) (tokAlg t) = true) ∧
    timeOK now (claimsOf t) = true

/-- executable form of `JwtValid` (the driver's oracle) -/
def jwtValidB {K T A : Type} [DecidableEq A] [DecidableEq T] (verifyJws : K → T → Bool) (claimsOf : T → Claims)
    (keyAlg : K → Option A) (tokAlg : T → A) (now : Int) (keys : List K) (hdr : List (HSym T)) : Bool :=
  match hdr.drop 7 with
  | [.tok t] =>
    decide (hdr.take 7 = bearerSyms ++ [.ch 32]) &&
    keys.any (fun k => verifyJws k t && algAgrees (keyAlg k) (tokAlg t)) &&
    timeOK now (claimsOf t)
  | _ => false

/-- the hypothesis of the partial theorem: no key of the rule declares an algorithm other than the token's,
    and the token's time claims are plain non-zero NumericDates (or absent). -/
def claimPlain : Claim → Bool
  | .absent => true
  | .num v => v != 0
  | .other => false

def claimsPlain (c : Claims) : Bool := claimPlain c.exp && claimPlain c.iat && claimPlain c.nbf

/-- secure link: not expired (when an expiry key is configured) and checksum = encode(nodes) -/
def LinkValid {S : Type} (o : StrOps S) (encode : S → S) (atoi : S → Option Int) (now : Int)
    (q : SlReq S) (r : SlRule) : Prop :=
  (r.ek ≠ [] → ∃ n, o.isEmpty (getFirst o.empty q.query r.ek) = false ∧
      atoi (getFirst o.empty q.query r.ek) = some n ∧ now ≤ n) ∧
  o.isEmpty (getFirst o.empty q.query r.ck) = false ∧
  getFirst o.empty q.query r.ck = encode (exprValue o q r.nodes)

/-- a rule that decides: its range contains the address and its command is a known one -/
def BlockRule.decisive (r : BlockRule) (ip : Nat) : Bool :=
  r.hit ip && (decide (r.cmd = cmdAllow) || decide (r.cmd = cmdClose))

/-- the address is blocked by the ordered rule list: the first decisive rule says CLOSE -/
def Blocked (rules : List BlockRule) (ip : Nat) : Prop :=
  ∃ pre r post, rules = pre ++ r :: post ∧ r.hit ip = true ∧ r.cmd = cmdClose ∧
    ∀ q ∈ pre, q.decisive ip = false

/-! # Config loaders (accept / reject level) -/

/-! ## mod_auth_basic readUserFile (ASCII content) -/

def isBlank (c : UInt8) : Bool := c == 32 || c == 9
/-- ASCII white space of `strings.TrimSpace` -/
def isSpaceB (c : UInt8) : Bool := c == 32 || (9 ≤ c && c ≤ 13)

def trimBy (p : UInt8 → Bool) (l : Bytes) : Bytes := ((l.dropWhile p).reverse.dropWhile p).reverse

def dropCR (l : Bytes) : Bytes := if l.getLast? = some 13 then l.dropLast else l

/-- `bufio.Scanner` with `ScanLines`: split at LF, no token for the empty rest after a final LF, one trailing CR dropped -/
def scanLines (bs : Bytes) : List Bytes :=
  let parts := splitOn (fun c => c == 10) bs
  let parts := if parts.getLast? = some [] then parts.dropLast else parts
  parts.map dropCR

/-- `strings.Trim(line, " \t")` -/
def userLineBody (raw : Bytes) : Bytes := trimBy isBlank raw

/-- lines that are not skipped: non-empty after trimming and without '#' ANYWHERE -/
def userLineRelevant (raw : Bytes) : Bool :=
  !(userLineBody raw).isEmpty && !(userLineBody raw).contains 35

def userLineParts (raw : Bytes) : List Bytes := splitOn (fun c => c == 58) (userLineBody raw)

def userLineEntry (raw : Bytes) : Bytes × Bytes :=
  (trimBy isSpaceB ((userLineParts raw).getD 0 []), trimBy isSpaceB ((userLineParts raw).getD 1 []))

/-- the loop of readUserFile: `none` = "Format error" -/
def loadUserLines : List Bytes → Option (List (Bytes × Bytes))
  | [] => some []
  | raw :: rest =>
    if !userLineRelevant raw then loadUserLines rest
    else if (userLineParts raw).length != 2 && (userLineParts raw).length != 3 then none
    else match loadUserLines rest with
      | none => none
      | some ents => some (userLineEntry raw :: ents)

/-- readUserFile: entries in file order; the map is `lookupLast` over them -/
def readUserFile (content : Bytes) : Option (List (Bytes × Bytes)) := loadUserLines (scanLines content)

/-! ## mod_secure_link NewData / NewRule (on the decoded DataFile) -/

structure SlNodeFile where
  ty : Bytes
  param : Bytes

structure SlRuleFile where
  cond : Option Bool                 -- none: Cond nil;  some b: condition.Build succeeded?
  ck : Option Bytes
  ek : Option Bytes
  nodes : Option (List SlNodeFile)   -- none: ExpressionNodes nil

def asciiLower (b : Bytes) : Bytes := b.map lowerB

def tyLabel : Bytes := [108, 97, 98, 101, 108]
def tyQuery : Bytes := [113, 117, 101, 114, 121]
def tyHeader : Bytes := [104, 101, 97, 100, 101, 114]
def tyHost : Bytes := [104, 111, 115, 116]
def tyUri : Bytes := [117, 114, 105]
def tyRemoteAddr : Bytes := [114, 101, 109, 111, 116, 101, 95, 97, 100, 100, 114]
def md5Key : Bytes := [109, 100, 53]

/-- NewNode: `switch strings.ToLower(enf.Type)` -/
def newNode (nf : SlNodeFile) : Option SlNode :=
  let t := asciiLower nf.ty
  if t = tyLabel then some (.label nf.param)
  else if t = tyQuery then some (.query nf.param)
  else if t = tyHeader then some (.header nf.param)
  else if t = tyHost then some .host
  else if t = tyUri then some .uri
  else if t = tyRemoteAddr then some .remoteAddr
  else none

def newNodes : List SlNodeFile → Option (List SlNode)
  | [] => some []
  | nf :: rest =>
    match newNode nf with
    | none => none
    | some n => match newNodes rest with
      | none => none
      | some ns => some (n :: ns)

/-- NewRule -/
def newRule (rf : SlRuleFile) : Option SlRule :=
  match rf.cond with
  | none => none
  | some false => none
  | some true =>
    if rf.ck = some [] then none
    else match rf.nodes with
      | none => none
      | some nfs =>
        match newNodes nfs with
        | none => none
        | some ns => some { ck := rf.ck.getD md5Key, ek := rf.ek.getD [], nodes := ns }

def newRules : List (Option SlRuleFile) → Option (List SlRule)
  | [] => some []
  | none :: _ => none
  | some rf :: rest =>
    match newRule rf with
    | none => none
    | some r => match newRules rest with
      | none => none
      | some rs => some (r :: rs)

/-- NewData for one product: Version and Config must be present -/
def newData (hasVersion : Bool) (config : Option (List (Option SlRuleFile))) : Option (List SlRule) :=
  if !hasVersion then none
  else match config with
    | none => none
    | some rfs => newRules rfs

/-- specification of an acceptable rule entry (docs: Cond, ExpressionNodes with a supported node type) -/
def nodeTypeOK (ty : Bytes) : Bool :=
  let t := asciiLower ty
  t == tyLabel || t == tyQuery || t == tyHeader || t == tyHost || t == tyUri || t == tyRemoteAddr

/-! ## mod_block ProductRuleConfLoad (on the decoded file) -/

structure BlockRuleFile where
  cond : Option Bool                       -- none: nil; some b: condition.Build ok?
  name : Option Bytes
  action : Option (Option Bytes × Option Nat)  -- Cmd, number of Params (none = nil)

def blockRuleFileOK (r : BlockRuleFile) : Bool :=
  r.cond == some true && r.name.isSome &&
  match r.action with
  | some (some cmd, some n) => (cmd == cmdClose || cmd == cmdAllow) && n == 0
  | _ => false

def namesDistinct : List (Option Bytes) → Bool
  | [] => true
  | n :: rest => !rest.contains n && namesDistinct rest

/-- number of rules loaded for the product, `none` = load error -/
def blockConfLoad (hasVersion : Bool) (rules : Option (List BlockRuleFile)) : Option Nat :=
  if !hasVersion then none
  else match rules with
    | none => none
    | some rs => if rs.all blockRuleFileOK && namesDistinct (rs.map (·.name)) then some rs.length else none

/-! ## realm quoting -/

/-- RFC 7235 quoted-string content: `"` and `\` need a backslash -/
def quoteEsc : Bytes → Bytes
  | [] => []
  | c :: rest => if c = 34 ∨ c = 92 then 92 :: c :: quoteEsc rest else c :: quoteEsc rest

def challengeSpec (scheme : String) (realm : Bytes) : Bytes :=
  strBytes scheme ++ strBytes " realm=\"" ++ quoteEsc realm ++ strBytes "\""

/-- bytes that cannot appear raw in a quoted-string -/
def realmClean (realm : Bytes) : Bool := realm.all fun c => c != 34 && c != 92

/-! ## hot reload of a rule table -/

/-- `RuleTable.Update(conf)`: version and product map are REPLACED by the new conf (nothing of the old one survives) -/
def tableUpdate {C : Type} (_old : Option C) (conf : C) : Option C := some conf

/-- the table after a history of reloads, starting from a fresh module -/
def tableAfter {C : Type} (history : List C) : Option C := history.foldl tableUpdate none

/-! ## histories: reloads (accepted or rejected) and requests on one module instance -/

/-- a step of a history: a reload with a conf that the loader accepts (`some c`) or rejects (`none`), or a request -/
inductive Step (C Q : Type) where
  | load (c : Option C)
  | req (q : Q)

/-- loadConfData: a rejected file returns an error before `ruleTable.Update`, an accepted one replaces the table -/
def confAfter {C Q : Type} : Option C → List (Step C Q) → Option C
  | cur, [] => cur
  | _, .load (some c) :: rest => confAfter (some c) rest
  | cur, .load none :: rest => confAfter cur rest
  | cur, .req _ :: rest => confAfter cur rest

/-- the answers to the requests of a history (handlers keep no state of their own) -/
def histAnswers {C Q R : Type} (handle : Option C → Q → R) : Option C → List (Step C Q) → List R
  | _, [] => []
  | _, .load (some c) :: rest => histAnswers handle (some c) rest
  | cur, .load none :: rest => histAnswers handle cur rest
  | cur, .req q :: rest => handle cur q :: histAnswers handle cur rest

def Step.isReq {C Q : Type} : Step C Q → Bool
  | .req _ => true
  | .load _ => false

end BfeVerif.C51
