import BfeVerif.C51.Proofs
/-!
  C51 — access-control modules admit exactly the valid requests.  Property theorems only.

  Every theorem is about the model in `Model.lean` (the handlers as coded) for ARBITRARY crypto parameters
  (`b64dec`, `verifyPw`, `verifyJws`, `encode`, `atoi`, `now`), arbitrary rule tables and arbitrary headers.
  "the rule that decides" is `firstMatch rules = some r`, characterised by `C51_deciding_rule`.
-/
namespace BfeVerif.C51

/-- the deciding rule is the first one whose condition matches the request -/
theorem C51_deciding_rule {α : Type} (rules : List (Bool × α)) (r : α) :
    firstMatch rules = some r ↔
      ∃ pre post, rules = pre ++ (true, r) :: post ∧ ∀ e ∈ pre, e.1 = false :=
  firstMatch_iff rules r

/-! ## mod_auth_basic -/

theorem C51_basic_check_iff {H : Type} (b64dec : Bytes → Option Bytes) (verifyPw : Bytes → H → Bool)
    (auth : Bytes) (r : BasicRule H) :
    checkBasic b64dec verifyPw auth r = true ↔ BasicValid b64dec verifyPw r.users auth := by
  unfold checkBasic BasicValid
  constructor
  · intro h
    cases hp : parseBasicAuth b64dec auth with
    | none => simp [hp] at h
    | some up =>
      obtain ⟨user, pw⟩ := up
      simp only [hp] at h
      cases hl : lookupLast r.users user with
      | none => simp [hl] at h
      | some hh =>
        simp only [hl] at h
        obtain ⟨pfx, cred, h1, h2, h3, h4⟩ := (parseBasicAuth_iff b64dec auth user pw).mp hp
        exact ⟨pfx, cred, user, pw, hh, h1, h2, h3, h4, (lookupLast_iff _ _ _).mp hl, h⟩
  · rintro ⟨pfx, cred, user, pw, hh, h1, h2, h3, h4, h5, h6⟩
    have hp := (parseBasicAuth_iff b64dec auth user pw).mpr ⟨pfx, cred, h1, h2, h3, h4⟩
    have hl := (lookupLast_iff _ _ _).mpr h5
    simp [hp, hl, h6]

/-- **Basic**: the request is forwarded iff every deciding rule (there is at most one) finds RFC 7617
    credentials whose password verifies against the stored hash of that user. -/
theorem C51_forward_iff_basic {H : Type} (b64dec : Bytes → Option Bytes) (verifyPw : Bytes → H → Bool)
    (tbl : Option (List (Bool × BasicRule H))) (auth : Bytes) :
    basicHandler b64dec verifyPw tbl auth = .goOn ↔
      ∀ rules, tbl = some rules → ∀ r, firstMatch rules = some r →
        BasicValid b64dec verifyPw r.users auth := by
  unfold basicHandler
  rw [ruleWalk_goOn_iff _ _ (by intro r h; cases h)]
  constructor
  · intro h rules ht r hr; exact (C51_basic_check_iff _ _ _ _).mp (h rules ht r hr)
  · intro h rules ht r hr; exact (C51_basic_check_iff _ _ _ _).mpr (h rules ht r hr)

/-- … and otherwise it receives `401` with `WWW-Authenticate: Basic realm="<realm of the deciding rule>"`. -/
theorem C51_reject_basic {H : Type} (b64dec : Bytes → Option Bytes) (verifyPw : Bytes → H → Bool)
    (rules : List (Bool × BasicRule H)) (r : BasicRule H) (auth : Bytes)
    (hr : firstMatch rules = some r) (hv : ¬ BasicValid b64dec verifyPw r.users auth) :
    basicHandler b64dec verifyPw (some rules) auth = .resp 401 (challenge "Basic" r.realm) := by
  unfold basicHandler
  apply ruleWalk_reject _ _ _ _ hr
  cases hc : checkBasic b64dec verifyPw auth r with
  | false => rfl
  | true => exact absurd ((C51_basic_check_iff _ _ _ _).mp hc) hv

/-! ## mod_auth_jwt -/

/-- what validateToken/getToken accept, exactly (the code as it is) -/
theorem C51_jwt_check_iff {K T : Type} [DecidableEq T] (verifyJws : K → T → Bool) (claimsOf : T → Claims)
    (now : Int) (hdr : List (HSym T)) (r : JwtRule K) :
    checkJwt verifyJws claimsOf now hdr r = true ↔
      ∃ t, hdr = bearerSyms ++ [.ch 32, .tok t] ∧ (∃ k ∈ r.keys, verifyJws k t = true) ∧
        libClaimsValid now (claimsOf t) = true := by
  unfold checkJwt
  constructor
  · intro h
    cases hg : getToken hdr with
    | none => simp [hg] at h
    | some part =>
      simp only [hg] at h
      obtain ⟨hh, _⟩ := (getToken_iff hdr part).mp hg
      unfold validateToken at h
      rw [List.any_eq_true] at h
      obtain ⟨k, hk, hkt⟩ := h
      cases ha : asToken part with
      | none => simp [ha] at hkt
      | some t =>
        simp only [ha, Bool.true_and, Bool.and_eq_true] at hkt
        have hp := (asToken_iff part t).mp ha
        subst hp
        exact ⟨t, hh, ⟨k, hk, hkt.1.1⟩, hkt.2⟩
  · rintro ⟨t, hh, ⟨k, hk, hv⟩, hc⟩
    have hg : getToken hdr = some [.tok t] :=
      (getToken_iff hdr [.tok t]).mpr ⟨hh, by intro y hy; simp at hy; subst hy; rfl⟩
    simp only [hg]
    unfold validateToken
    rw [List.any_eq_true]
    refine ⟨k, hk, ?_⟩
    have ha : asToken [HSym.tok t] = some t := rfl
    simp [ha, hv, hc]

/-- the full-strength statement of the property for mod_auth_jwt (FALSE for the code as it is, see the
    two witnesses below): forwarded iff `Authorization: Bearer <JWS>` verifies under a configured key used
    with that key's algorithm and the RFC 7519 time claims hold. -/
def C51_forward_iff_jwt_full {K T A : Type} [DecidableEq T] [DecidableEq A] (verifyJws : K → T → Bool)
    (claimsOf : T → Claims) (keyAlg : K → Option A) (tokAlg : T → A) (now : Int)
    (tbl : Option (List (Bool × JwtRule K))) (hdr : List (HSym T)) : Prop :=
  jwtHandler verifyJws claimsOf now tbl hdr = .goOn ↔
    ∀ rules, tbl = some rules → ∀ r, firstMatch rules = some r →
      JwtValid verifyJws claimsOf keyAlg tokAlg now r.keys hdr

/-- **JWT (partial)**: the full statement holds whenever no key of the deciding rule declares an algorithm
    different from the presented token's, and the token's time claims are absent or non-zero numbers. -/
theorem C51_forward_iff_jwt_partial {K T A : Type} [DecidableEq T] [DecidableEq A]
    (verifyJws : K → T → Bool) (claimsOf : T → Claims) (keyAlg : K → Option A) (tokAlg : T → A) (now : Int)
    (tbl : Option (List (Bool × JwtRule K))) (hdr : List (HSym T))
    (hyp : ∀ rules, tbl = some rules → ∀ r, firstMatch rules = some r →
      ∀ t, hdr = bearerSyms ++ [.ch 32, .tok t] →
        (∀ k ∈ r.keys, algAgrees (keyAlg k) (tokAlg t) = true) ∧ claimsPlain (claimsOf t) = true) :
    C51_forward_iff_jwt_full verifyJws claimsOf keyAlg tokAlg now tbl hdr := by
  unfold C51_forward_iff_jwt_full jwtHandler
  rw [ruleWalk_goOn_iff _ _ (by intro r h; cases h)]
  constructor
  · intro h rules ht r hr
    obtain ⟨t, hh, ⟨k, hk, hv⟩, hc⟩ := (C51_jwt_check_iff _ _ _ _ _).mp (h rules ht r hr)
    obtain ⟨hal, hpl⟩ := hyp rules ht r hr t hh
    exact ⟨t, hh, ⟨k, hk, hv, hal k hk⟩, by rw [← lib_eq_spec_of_plain now _ hpl]; exact hc⟩
  · intro h rules ht r hr
    obtain ⟨t, hh, ⟨k, hk, hv, _⟩, hc⟩ := h rules ht r hr
    obtain ⟨_, hpl⟩ := hyp rules ht r hr t hh
    exact (C51_jwt_check_iff _ _ _ _ _).mpr ⟨t, hh, ⟨k, hk, hv⟩, by rw [lib_eq_spec_of_plain now _ hpl]; exact hc⟩

/-- … and a request the code does not accept receives `401` with `WWW-Authenticate: Bearer realm="…"`. -/
theorem C51_reject_jwt {K T : Type} [DecidableEq T] (verifyJws : K → T → Bool) (claimsOf : T → Claims)
    (now : Int) (rules : List (Bool × JwtRule K)) (r : JwtRule K) (hdr : List (HSym T))
    (hr : firstMatch rules = some r) (hv : checkJwt verifyJws claimsOf now hdr r = false) :
    jwtHandler verifyJws claimsOf now (some rules) hdr = .resp 401 (challenge "Bearer" r.realm) := by
  unfold jwtHandler
  exact ruleWalk_reject _ _ _ _ hr hv

/-- whatever the parameters: a header that is not exactly `Bearer <one token>` is never forwarded by a
    deciding rule, and neither is a token no configured key verifies (alg=none, HS/RS confusion and
    tampering are `verifyJws k t = false` for every configured key under the library contract). -/
theorem C51_jwt_needs_signature {K T : Type} [DecidableEq T] (verifyJws : K → T → Bool) (claimsOf : T → Claims)
    (now : Int) (rules : List (Bool × JwtRule K)) (r : JwtRule K) (hdr : List (HSym T))
    (hr : firstMatch rules = some r)
    (hfw : jwtHandler verifyJws claimsOf now (some rules) hdr = .goOn) :
    ∃ t, hdr = bearerSyms ++ [.ch 32, .tok t] ∧ ∃ k ∈ r.keys, verifyJws k t = true := by
  unfold jwtHandler at hfw
  have := (ruleWalk_goOn_iff _ _ (by intro r h; cases h) _).mp hfw rules rfl r hr
  obtain ⟨t, hh, hk, _⟩ := (C51_jwt_check_iff _ _ _ _ _).mp this
  exact ⟨t, hh, hk⟩

/-- **witness 1** (`jwt-key-alg-ignored`): a key declared for algorithm 256, a token with algorithm 384 that
    the library verifies with that key (same secret, same family): forwarded, although not `JwtValid`. -/
theorem C51_witness_jwt_key_alg :
    ¬ C51_forward_iff_jwt_full (K := Nat) (T := Nat) (A := Nat)
        (fun _ _ => true) (fun _ => ⟨.absent, .absent, .absent⟩) (fun _ => some 256) (fun _ => 384) 1000
        (some [(true, ⟨[], [0]⟩)]) (bearerSyms ++ [.ch 32, .tok 7]) := by
  unfold C51_forward_iff_jwt_full
  intro h
  have hfw : jwtHandler (K := Nat) (T := Nat) (fun _ _ => true) (fun _ => ⟨.absent, .absent, .absent⟩) 1000
      (some [(true, ⟨[], [0]⟩)]) (bearerSyms ++ [.ch 32, .tok 7]) = .goOn := by decide
  obtain ⟨t, _, ⟨k, _, _, hal⟩, _⟩ := h.mp hfw _ rfl _ rfl
  simp [algAgrees] at hal

/-- **witness 2** (`jwt-time-claim-ignored`): `exp` = 0 (1970) at time 1000, validly signed: forwarded. -/
theorem C51_witness_jwt_time_claim :
    ¬ C51_forward_iff_jwt_full (K := Nat) (T := Nat) (A := Nat)
        (fun _ _ => true) (fun _ => ⟨.num 0, .absent, .absent⟩) (fun _ => none) (fun _ => 256) 1000
        (some [(true, ⟨[], [0]⟩)]) (bearerSyms ++ [.ch 32, .tok 7]) := by
  unfold C51_forward_iff_jwt_full
  intro h
  have hfw : jwtHandler (K := Nat) (T := Nat) (fun _ _ => true) (fun _ => ⟨.num 0, .absent, .absent⟩) 1000
      (some [(true, ⟨[], [0]⟩)]) (bearerSyms ++ [.ch 32, .tok 7]) = .goOn := by decide
  obtain ⟨t, _, _, htime⟩ := h.mp hfw _ rfl _ rfl
  simp [timeOK, specClaimOK] at htime

/-- the executable oracle of the driver is the specification -/
theorem C51_jwt_oracle_sound {K T A : Type} [DecidableEq T] [DecidableEq A] (verifyJws : K → T → Bool)
    (claimsOf : T → Claims) (keyAlg : K → Option A) (tokAlg : T → A) (now : Int) (keys : List K)
    (hdr : List (HSym T)) :
    jwtValidB verifyJws claimsOf keyAlg tokAlg now keys hdr = true ↔
      JwtValid verifyJws claimsOf keyAlg tokAlg now keys hdr := by
  unfold jwtValidB JwtValid
  constructor
  · intro h
    split at h
    · rename_i t hd
      simp only [Bool.and_eq_true, decide_eq_true_eq, List.any_eq_true] at h
      obtain ⟨⟨ht, k, hk, hkv⟩, htime⟩ := h
      refine ⟨t, ?_, ⟨k, hk, hkv.1, hkv.2⟩, htime⟩
      have := List.take_append_drop 7 hdr
      rw [ht, hd] at this
      rw [← this]
      simp [bearerSyms]
    · exact absurd h (by simp)
  · rintro ⟨t, hh, ⟨k, hk, hv, hal⟩, htime⟩
    subst hh
    have hd : (bearerSyms ++ [HSym.ch 32, HSym.tok t]).drop 7 = [HSym.tok t] := by simp [bearerSyms]
    have ht : (bearerSyms ++ [HSym.ch 32, HSym.tok t]).take 7 = bearerSyms ++ [HSym.ch 32] := by
      simp [bearerSyms]
    rw [hd]
    simp only [ht, decide_true, Bool.true_and, Bool.and_eq_true, List.any_eq_true]
    exact ⟨⟨k, hk, hv, hal⟩, htime⟩

/-! ## mod_secure_link -/

/-- **secure link**: forwarded iff the deciding rule's link is valid: not expired (when an expiry key is
    configured: value present, a decimal number, `now ≤ expires`) and the checksum value is present and equals
    `encode` of the concatenated node values. -/
theorem C51_forward_iff_securelink {S : Type} [DecidableEq S] (o : StrOps S) (encode : S → S)
    (atoi : S → Option Int) (now : Int) (tbl : Option (List (Bool × SlRule))) (q : SlReq S) :
    slHandler o encode atoi now tbl q = .goOn ↔
      ∀ rules, tbl = some rules → ∀ r, firstMatch rules = some r → LinkValid o encode atoi now q r := by
  unfold slHandler
  rw [ruleWalk_goOn_iff _ _ (by intro r h; cases h)]
  constructor
  · intro h rules ht r hr; exact (slCheck_iff _ _ _ _ _ _).mp (h rules ht r hr)
  · intro h rules ht r hr; exact (slCheck_iff _ _ _ _ _ _).mpr (h rules ht r hr)

/-- … and otherwise the answer is `403`. -/
theorem C51_reject_securelink {S : Type} [DecidableEq S] (o : StrOps S) (encode : S → S)
    (atoi : S → Option Int) (now : Int) (rules : List (Bool × SlRule)) (r : SlRule) (q : SlReq S)
    (hr : firstMatch rules = some r) (hv : ¬ LinkValid o encode atoi now q r) :
    slHandler o encode atoi now (some rules) q = .resp 403 [] := by
  unfold slHandler
  apply ruleWalk_reject _ _ _ _ hr
  cases hc : slCheck o encode atoi now q r with
  | false => rfl
  | true => exact absurd ((slCheck_iff _ _ _ _ _ _).mp hc) hv

/-! ## mod_block -/

/-- **block, connections**: a connection is closed at accept iff its address lies in a configured range. -/
theorem C51_block_accept (ranges : List (Nat × Nat)) (ip : Nat) :
    (blockAccept ranges ip = .close ↔ ∃ r ∈ ranges, r.1 ≤ ip ∧ ip ≤ r.2) ∧
    (blockAccept ranges ip = .close ∨ blockAccept ranges ip = .goOn) := by
  unfold blockAccept
  by_cases h : (ranges.any fun r => decide (r.1 ≤ ip ∧ ip ≤ r.2)) = true
  · simp only [h, if_true, true_iff, true_or, and_true]
    rw [List.any_eq_true] at h
    obtain ⟨r, hr, hd⟩ := h
    exact ⟨r, hr, of_decide_eq_true hd⟩
  · simp only [h, Bool.false_eq_true, if_false, or_true, and_true]
    constructor
    · intro hh; cases hh
    · rintro ⟨r, hr, hd⟩
      exact absurd (List.any_eq_true.mpr ⟨r, hr, decide_eq_true hd⟩) h

/-- **block, requests**: the connection is closed iff, in the list "global rules, then the product's rules",
    the first rule whose range contains the client address and whose command is ALLOW or CLOSE says CLOSE;
    in every other case the request goes on. -/
theorem C51_block (g p : Option (List BlockRule)) (ip : Nat) :
    (blockRequest g p ip = .close ↔ Blocked (g.getD [] ++ p.getD []) ip) ∧
    (blockRequest g p ip = .close ∨ blockRequest g p ip = .goOn) := by
  rw [blockRequest_eq]
  refine ⟨rulesProcess_close_iff ip _, ?_⟩
  generalize g.getD [] ++ p.getD [] = rules
  induction rules with
  | nil => right; rfl
  | cons r rest ih =>
    simp only [rulesProcess]
    by_cases hh : r.hit ip = true
    · by_cases ha : r.cmd = cmdAllow
      · simp [hh, ha]
      · by_cases hc : r.cmd = cmdClose
        · have hca : cmdClose ≠ cmdAllow := fun h => cmd_ne h.symm
          simp [hh, hc, hca]
        · simp only [hh, ha, hc, if_true, if_false]; exact ih
    · simp only [hh, Bool.false_eq_true, if_false]; exact ih

/-! ## non-vacuity: concrete objects meet the specifications / hypotheses -/

/-- `Basic YTpi` = base64("a:b"), user a stored with hash 1, verify = (pw = "b" ∧ hash = 1) -/
example : BasicValid (H := Nat) b64StdDecode (fun pw h => pw == [98] && h == 1) [([97], 1)]
    [66, 97, 115, 105, 99, 32, 89, 84, 112, 105] :=
  ⟨[66, 97, 115, 105, 99, 32], [89, 84, 112, 105], [97], [98], 1, by decide, by decide, by decide, by decide,
    ⟨[], [], rfl, by simp⟩, by decide⟩

example : basicHandler (H := Nat) b64StdDecode (fun pw h => pw == [98] && h == 1)
    (some [(false, ⟨[], []⟩), (true, ⟨[82], [([97], 1)]⟩)]) [66, 97, 115, 105, 99, 32, 89, 84, 112, 105] = .goOn := by
  decide

example : basicHandler (H := Nat) b64StdDecode (fun pw h => pw == [98] && h == 1)
    (some [(true, ⟨[82], [([97], 1)]⟩)]) [66, 97, 115, 105, 99, 32, 89, 84, 112, 106] ≠ .goOn := by
  decide

/-- the hypothesis of the partial JWT theorem is satisfiable with a forwarded and with a rejected request -/
example : JwtValid (K := Nat) (T := Nat) (A := Nat) (fun k t => k == t) (fun _ => ⟨.num 2000, .num 500, .absent⟩)
    (fun _ => some 256) (fun _ => 256) 1000 [3, 7] (bearerSyms ++ [.ch 32, .tok 7]) :=
  ⟨7, rfl, ⟨7, by simp, by decide, by decide⟩, by decide⟩

example : jwtHandler (K := Nat) (T := Nat) (fun k t => k == t) (fun _ => ⟨.num 2000, .num 500, .absent⟩) 1000
    (some [(true, ⟨[], [3, 7]⟩)]) (bearerSyms ++ [.ch 32, .tok 7]) = .goOn := by decide

example : jwtHandler (K := Nat) (T := Nat) (fun k t => k == t) (fun _ => ⟨.num 999, .absent, .absent⟩) 1000
    (some [(true, ⟨[], [3, 7]⟩)]) (bearerSyms ++ [.ch 32, .tok 7]) ≠ .goOn := by decide

example : claimsPlain ⟨.num 2000, .num 500, .absent⟩ = true := by decide

example : Blocked [⟨0, 5, cmdAllow⟩, ⟨10, 20, [1]⟩, ⟨10, 20, cmdClose⟩] 15 :=
  ⟨[⟨0, 5, cmdAllow⟩, ⟨10, 20, [1]⟩], ⟨10, 20, cmdClose⟩, [], rfl, by decide, rfl, by
    intro q hq
    simp only [List.mem_cons, List.not_mem_nil, or_false] at hq
    rcases hq with rfl | rfl <;> decide⟩

example : blockRequest (some [⟨10, 20, cmdAllow⟩]) (some [⟨10, 20, cmdClose⟩]) 15 = .goOn := by decide
example : blockRequest none (some [⟨10, 20, cmdClose⟩]) 15 = .close := by decide

/-- secure link over plain byte strings with a toy `encode` -/
example : LinkValid (S := Bytes) ⟨[], (· ++ ·), id, List.isEmpty⟩ (fun s => 1 :: s) (fun _ => some 2000) 1000
    { query := [([101], [50]), ([109], [1, 115, 50])], header := fun _ => [], host := [], uri := [], remoteAddr := [] }
    { ck := [109], ek := [101], nodes := [.label [115], .query [101]] } :=
  ⟨fun _ => ⟨2000, by decide, rfl, by decide⟩, by decide, by decide⟩

/-! ## config loaders (accept / reject level) -/

/-- **readUserFile**: the file is accepted iff every relevant line (non-empty after trimming blanks, no `#`
    anywhere) has 2 or 3 `:`-separated parts, and then the entries are exactly the (space-trimmed) first two
    fields of the relevant lines in file order (the map keeps the last entry of a user: `lookupLast`). -/
theorem C51_load_userfile_iff (lines : List Bytes) (ents : List (Bytes × Bytes)) :
    loadUserLines lines = some ents ↔
      (∀ l ∈ lines, userLineRelevant l = true →
        (userLineParts l).length = 2 ∨ (userLineParts l).length = 3) ∧
      ents = (lines.filter userLineRelevant).map userLineEntry := by
  induction lines generalizing ents with
  | nil =>
    simp only [loadUserLines, Option.some.injEq, List.not_mem_nil, false_imp_iff, implies_true, true_and,
      List.filter_nil, List.map_nil]
    exact eq_comm
  | cons raw rest ih =>
    unfold loadUserLines
    by_cases hrel : userLineRelevant raw = true
    · simp only [hrel, Bool.not_true, Bool.false_eq_true, if_false]
      by_cases hparts : (userLineParts raw).length = 2 ∨ (userLineParts raw).length = 3
      · have hcond : ((userLineParts raw).length != 2 && (userLineParts raw).length != 3) = false := by
          rcases hparts with h | h <;> simp [h]
        simp only [hcond, Bool.false_eq_true, if_false]
        cases hr : loadUserLines rest with
        | none =>
          constructor
          · intro h; exact absurd h (by simp)
          · rintro ⟨hall, _⟩
            have := (ih ((rest.filter userLineRelevant).map userLineEntry)).mpr
              ⟨fun l hl => hall l (List.mem_cons_of_mem _ hl), rfl⟩
            rw [hr] at this
            exact absurd this (by simp)
        | some es =>
          have hes := (ih es).mp hr
          simp only [Option.some.injEq]
          constructor
          · rintro rfl
            refine ⟨?_, by simp [List.filter_cons, hrel, hes.2]⟩
            intro l hl
            simp only [List.mem_cons] at hl
            rcases hl with rfl | hl
            · intro _; exact hparts
            · exact hes.1 l hl
          · rintro ⟨_, he⟩
            rw [he, hes.2]
            simp [List.filter_cons, hrel]
      · have hcond : ((userLineParts raw).length != 2 && (userLineParts raw).length != 3) = true := by
          simp only [Bool.and_eq_true, bne_iff_ne, ne_eq]
          exact ⟨fun h => hparts (Or.inl h), fun h => hparts (Or.inr h)⟩
        simp only [hcond, if_true]
        constructor
        · intro h; exact absurd h (by simp)
        · rintro ⟨hall, _⟩
          exact absurd (hall raw (by simp) hrel) hparts
    · have hrel' : userLineRelevant raw = false := by simpa using hrel
      simp only [hrel', Bool.not_false, if_true]
      rw [ih]
      constructor
      · rintro ⟨hall, he⟩
        refine ⟨?_, by simp [List.filter_cons, hrel', he]⟩
        intro l hl
        simp only [List.mem_cons] at hl
        rcases hl with rfl | hl
        · intro h; rw [hrel'] at h; exact absurd h (by simp)
        · exact hall l hl
      · rintro ⟨hall, he⟩
        refine ⟨fun l hl => hall l (List.mem_cons_of_mem _ hl), ?_⟩
        rw [he]
        simp [List.filter_cons, hrel']

/-- **NewRule** (mod_secure_link): accepted iff Cond is present and builds, ChecksumKey is not the empty string,
    ExpressionNodes is present and every node type is (case-insensitively) a supported one; then the checksum
    key defaults to "md5" and the expiry key to "". -/
theorem C51_load_securelink_iff (rf : SlRuleFile) (r : SlRule) :
    newRule rf = some r ↔
      rf.cond = some true ∧ rf.ck ≠ some [] ∧
      ∃ nfs ns, rf.nodes = some nfs ∧ (∀ n ∈ nfs, nodeTypeOK n.ty = true) ∧ newNodes nfs = some ns ∧
        r = { ck := rf.ck.getD md5Key, ek := rf.ek.getD [], nodes := ns } := by
  unfold newRule
  cases hc : rf.cond with
  | none => simp
  | some b =>
    cases b with
    | false => simp
    | true =>
      by_cases hck : rf.ck = some []
      · simp [hck]
      · simp only [hck, if_false, true_and, ne_eq, not_false_eq_true]
        cases hn : rf.nodes with
        | none => simp
        | some nfs =>
          cases hns : newNodes nfs with
          | none =>
            simp only [hns]
            constructor
            · intro h; exact absurd h (by simp)
            · rintro ⟨nfs', ns, h1, _, h3, _⟩
              cases h1
              rw [hns] at h3
              exact absurd h3 (by simp)
          | some ns =>
            simp only [hns, Option.some.injEq]
            constructor
            · intro h
              refine ⟨nfs, ns, rfl, ?_, hns, h.symm⟩
              exact (newNodes_isSome_iff nfs).mp (by rw [hns]; rfl)
            · rintro ⟨nfs', ns', h1, _, h3, h4⟩
              cases h1
              rw [hns] at h3
              cases h3
              exact h4.symm

/-- **ProductRuleConfLoad** (mod_block), for one product: accepted iff Version is present and every rule has a
    condition that builds, a name, an action whose command is CLOSE or ALLOW with an empty (non-nil) parameter
    list, and the names are pairwise distinct. -/
theorem C51_load_block_iff (hasVersion : Bool) (rs : List BlockRuleFile) (n : Nat) :
    blockConfLoad hasVersion (some rs) = some n ↔
      hasVersion = true ∧ (∀ r ∈ rs, blockRuleFileOK r = true) ∧
      namesDistinct (rs.map (·.name)) = true ∧ n = rs.length := by
  unfold blockConfLoad
  cases hasVersion with
  | false => simp
  | true =>
    simp only [Bool.not_true, Bool.false_eq_true, if_false, true_and]
    by_cases h : (rs.all blockRuleFileOK && namesDistinct (rs.map (·.name))) = true
    · simp only [h, if_true, Option.some.injEq]
      simp only [Bool.and_eq_true, List.all_eq_true] at h
      constructor
      · intro hn; exact ⟨h.1, h.2, hn.symm⟩
      · rintro ⟨_, _, hn⟩; exact hn.symm
    · simp only [h, Bool.false_eq_true, if_false]
      constructor
      · intro hh; exact absurd hh (by simp)
      · rintro ⟨h1, h2, _⟩
        exact absurd (by simp only [Bool.and_eq_true, List.all_eq_true]; exact ⟨h1, h2⟩) h

/-- the loader models are total: for every file content / decoded structure the decision is "error" or
    "accepted with this table" (there is no third outcome; a PANIC of the real loader is FAIL:loader-panic
    in the oracle - crash freedom of the Go code itself is exercised, not proved). -/
theorem C51_load_no_crash_userfile (content : Bytes) :
    readUserFile content = none ∨ ∃ ents, readUserFile content = some ents := by
  cases h : readUserFile content with
  | none => exact Or.inl rfl
  | some e => exact Or.inr ⟨e, rfl⟩

theorem C51_load_no_crash_securelink (v : Bool) (cfg : Option (List (Option SlRuleFile))) :
    newData v cfg = none ∨ ∃ rs, newData v cfg = some rs := by
  cases h : newData v cfg with
  | none => exact Or.inl rfl
  | some e => exact Or.inr ⟨e, rfl⟩

theorem C51_load_no_crash_block (v : Bool) (cfg : Option (List BlockRuleFile)) :
    blockConfLoad v cfg = none ∨ ∃ n, blockConfLoad v cfg = some n := by
  cases h : blockConfLoad v cfg with
  | none => exact Or.inl rfl
  | some e => exact Or.inr ⟨e, rfl⟩

/-! ## realm quoting -/

/-- the challenge is the RFC 7235 form `scheme realm=<quoted-string>` whenever the realm has no `"` and `\\`. -/
theorem C51_challenge_partial (scheme : String) (realm : Bytes) (h : realmClean realm = true) :
    challenge scheme realm = challengeSpec scheme realm := by
  unfold challenge challengeSpec
  rw [quoteEsc_of_clean realm h]

/-- **witness** (`realm-unescaped`): realm `"` gives `Basic realm="""` instead of `Basic realm="\\""`. -/
theorem C51_witness_realm_quote : challenge "Basic" [34] ≠ challengeSpec "Basic" [34] := by
  unfold challenge challengeSpec
  intro h
  have h1 := List.append_cancel_right h
  have h2 := List.append_cancel_left h1
  simp [quoteEsc] at h2

/-! non-vacuity: the documented examples are accepted -/

/-- docs/en_us/modules/mod_auth_basic: comment line, apr1 line, 3-field SHA line (shortened hashes) -/
example : readUserFile [35, 32, 99, 10, 117, 49, 58, 36, 97, 112, 114, 49, 36, 120, 10, 32, 117, 50, 32, 58, 32, 123, 83, 72, 65, 125, 121, 61, 32, 58, 110, 10] =
    some [([117, 49], [36, 97, 112, 114, 49, 36, 120]), ([117, 50], [123, 83, 72, 65, 125, 121, 61])] := by decide

/-- docs/en_us/modules/mod_secure_link: the documented rule -/
example : (newRule ⟨some true, some [115, 105, 103, 110], some [116, 105, 109, 101],
      some [⟨tyQuery, [116, 105, 109, 101]⟩, ⟨[85, 82, 73], []⟩, ⟨tyRemoteAddr, []⟩, ⟨tyLabel, [32, 115]⟩]⟩).map
      (fun r => (r.ck, r.ek, r.nodes)) =
    some ([115, 105, 103, 110], [116, 105, 109, 101],
      [.query [116, 105, 109, 101], .uri, .remoteAddr, .label [32, 115]]) := by decide

example : (newRule ⟨some true, some [], none, some []⟩).isSome = false := by decide
example : (newRule ⟨some true, none, none, some []⟩).map (·.ck) = some md5Key := by decide

/-- docs/en_us/modules/mod_block: the documented example rule -/
example : blockConfLoad true (some [⟨some true, some [101], some (some cmdClose, some 0)⟩]) = some 1 := by decide
example : blockConfLoad true (some [⟨some true, some [101], some (some [68], some 0)⟩]) = none := by decide

example : realmClean [82, 101] = true := by decide

/-! ## hot reload -/

/-- **reload**: after any history of reloads the table is the LAST conf, so every handler result (any function
    `handle` of the table) is the one the last conf alone gives. -/
theorem C51_reload_last_conf {C R : Type} (handle : Option C → R) (cs : List C) (c : C) :
    tableAfter (cs ++ [c]) = some c ∧ handle (tableAfter (cs ++ [c])) = handle (tableAfter [c]) := by
  have h : tableAfter (cs ++ [c]) = some c := by
    unfold tableAfter
    rw [List.foldl_append]
    rfl
  exact ⟨h, by rw [h]; rfl⟩

example : tableAfter [1, 2, 3] = some 3 := by decide

/-! ## histories -/

theorem confAfter_append {C Q : Type} (cur : Option C) (a b : List (Step C Q)) :
    confAfter cur (a ++ b) = confAfter (confAfter cur a) b := by
  induction a generalizing cur with
  | nil => rfl
  | cons s rest ih =>
    cases s with
    | load c => cases c <;> simp [confAfter, ih]
    | req q => simp [confAfter, ih]

theorem histAnswers_append {C Q R : Type} (handle : Option C → Q → R) (cur : Option C) (a b : List (Step C Q)) :
    histAnswers handle cur (a ++ b) = histAnswers handle cur a ++ histAnswers handle (confAfter cur a) b := by
  induction a generalizing cur with
  | nil => rfl
  | cons s rest ih =>
    cases s with
    | load c => cases c <;> simp [histAnswers, confAfter, ih]
    | req q => simp [histAnswers, confAfter, ih]

/-- **a rejected reload changes nothing**: dropping it from a history leaves the conf in force and every
    answer unchanged. -/
theorem C51_rejected_reload_changes_nothing {C Q R : Type} (handle : Option C → Q → R) (cur : Option C)
    (a b : List (Step C Q)) :
    confAfter cur (a ++ .load none :: b) = confAfter cur (a ++ b) ∧
    histAnswers handle cur (a ++ .load none :: b) = histAnswers handle cur (a ++ b) := by
  constructor
  · rw [confAfter_append, confAfter_append]; rfl
  · rw [histAnswers_append, histAnswers_append]; rfl

/-- **no cross-request state**: the answer to a request is the handler applied to the last accepted conf before
    it; earlier requests (of any number, with any credentials) do not matter. -/
theorem C51_no_cross_request_state {C Q R : Type} (handle : Option C → Q → R) (cur : Option C)
    (hist : List (Step C Q)) (q : Q) :
    histAnswers handle cur (hist ++ [.req q]) =
        histAnswers handle cur hist ++ [handle (confAfter cur hist) q] ∧
    confAfter cur hist = confAfter cur (hist.filter fun s => !s.isReq) := by
  constructor
  · rw [histAnswers_append]; rfl
  · induction hist generalizing cur with
    | nil => rfl
    | cons s rest ih =>
      cases s with
      | load c => cases c <;> simp [confAfter, Step.isReq, ih]
      | req q' => simp [confAfter, Step.isReq, ih]

example : histAnswers (C := Nat) (Q := Nat) (fun c q => (c, q)) none
    [.req 1, .load (some 7), .req 2, .load none, .req 3, .load (some 8), .req 4] =
    [(none, 1), (some 7, 2), (some 7, 3), (some 8, 4)] := by decide

end BfeVerif.C51
