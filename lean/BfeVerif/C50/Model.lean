/-
  C50 — model of bfe_modules/mod_static (mod_static.go createRespFromStaticFile / openStaticFile,
  static_file.go newStaticFile) together with the std-lib path rules it relies on, core-only.

  Go strings are byte strings: `Str = List UInt8`.

  * `clean`      = Go `path.Clean` (= `filepath.Clean` on unix), as a fold over the '/'-separated elements
                   with a stack: "" and "." are dropped, ".." pops (rooted: never above the root; not rooted:
                   a leading run of ".." is kept), anything else is pushed.
  * `dirOpenRel` = the name rule of `http.Dir(root).Open(name)` (Go 1.23): `p := path.Clean("/"+name)[1:]`,
                   rejected (`http: invalid or unsafe file path`) when `p` is not valid UTF-8 or holds a NUL
                   (`filepath.Localize`), opened at `filepath.Join(root, p)`.
  * the file system is a finite tree below an opaque absolute sandbox directory; the document root is
    `sandbox/<rootRel>`; there are no symbolic links (assumption).
  * `newStaticFile` as fixed for C50: the `.gz`/`.br` probe stats
    `filepath.Join(root, path.Clean("/"+filename+"."+ext))` (it used to stat the un-rooted
    `filepath.Join(root, filename+"."+ext)`, which can name a path outside the document root).
-/
namespace BfeVerif.C50

abbrev Str := List UInt8

def slash : UInt8 := 0x2f
def dot : Str := [0x2e]
def dotdot : Str := [0x2e, 0x2e]
def sGET : Str := [0x47, 0x45, 0x54]
def sHEAD : Str := [0x48, 0x45, 0x41, 0x44]
def extGz : Str := [0x2e, 0x67, 0x7a]      -- ".gz"
def extBr : Str := [0x2e, 0x62, 0x72]      -- ".br"

/-- `strings.Split(s, "/")` -/
def split : Str → List Str
  | [] => [[]]
  | c :: cs =>
    if c == slash then [] :: split cs
    else match split cs with
      | h :: t => (c :: h) :: t
      | [] => [[c]]

/-- `strings.Join(segs, "/")` -/
def join : List Str → Str
  | [] => []
  | [x] => x
  | x :: y :: t => x ++ slash :: join (y :: t)

/-- one element of the path against the (reversed) stack of kept elements -/
def cleanStep (rooted : Bool) (st : List Str) (s : Str) : List Str :=
  if s == [] || s == dot then st
  else if s == dotdot then
    match st with
    | [] => if rooted then [] else [dotdot]
    | top :: rest => if top == dotdot then dotdot :: st else rest
  else s :: st

/-- kept elements, in order -/
def cleanSegs (rooted : Bool) (segs : List Str) : List Str :=
  (segs.foldl (cleanStep rooted) []).reverse

/-- Go `path.Clean` -/
def clean (p : Str) : Str :=
  if p == [] then dot
  else
    let rooted := p.head? == some slash
    let segs := cleanSegs rooted (split p)
    if rooted then slash :: join segs
    else if segs == [] then dot else join segs

/-! UTF-8 validity as `utf8.ValidString` decides it: a byte automaton (continuation bytes still needed,
    admissible range of the next one) -/
structure U8St where
  need : Nat
  lo : UInt8
  hi : UInt8

def utf8Step (st : Option U8St) (b : UInt8) : Option U8St :=
  match st with
  | none => none
  | some s =>
    if s.need == 0 then
      if b < 0x80 then some ⟨0, 0x80, 0xbf⟩
      else if 0xc2 ≤ b && b ≤ 0xdf then some ⟨1, 0x80, 0xbf⟩
      else if 0xe0 ≤ b && b ≤ 0xef then
        some ⟨2, if b == 0xe0 then 0xa0 else 0x80, if b == 0xed then 0x9f else 0xbf⟩
      else if 0xf0 ≤ b && b ≤ 0xf4 then
        some ⟨3, if b == 0xf0 then 0x90 else 0x80, if b == 0xf4 then 0x8f else 0xbf⟩
      else none
    else if s.lo ≤ b && b ≤ s.hi then some ⟨s.need - 1, 0x80, 0xbf⟩
    else none

def validUtf8 (s : Str) : Bool :=
  match s.foldl utf8Step (some ⟨0, 0x80, 0xbf⟩) with
  | some st => st.need == 0
  | none => false

/-- elements of `path.Clean("/"+name)[1:]` -/
def relSegs (name : Str) : List Str := cleanSegs true (split (slash :: name))

/-- `http.Dir.Open`'s name rule: `none` = "invalid or unsafe file path" -/
def dirOpenRel (name : Str) : Option (List Str) :=
  let segs := relSegs name
  let p := join segs
  if !validUtf8 p || p.contains 0 then none else some segs

/-- elements of `filepath.Join(dir, p)` for an absolute `dir` (`Clean(dir + "/" + p)`) -/
def joinSegs (dir : Str) (p : Str) : List Str := cleanSegs true (split (dir ++ slash :: p))

/-! ### file system -/
inductive Node
  | file (content : Str)
  | dir
  | link (target : List Str)   -- symbolic link; target = elements below the sandbox (an existing link-free place)
  deriving DecidableEq, Repr

structure Entry where
  path : List Str      -- elements below the sandbox directory
  node : Node
  deriving DecidableEq, Repr

/-- what is at exactly this place below the sandbox (directories implied by deeper entries) -/
def nodeAt (tree : List Entry) (segs : List Str) : Option Node :=
  match tree.find? (fun e => e.path == segs) with
  | some e => some e.node
  | none =>
    if segs == [] || tree.any (fun e => segs.isPrefixOf e.path) then some Node.dir else none

inductive Res
  | file (content : Str)
  | dir
  | notExist       -- ENOENT, and ENOTDIR (mapped to not-exist by http.mapOpenError)
  | tooLong        -- ENAMETOOLONG: an element longer than NAME_MAX in an existing directory
  deriving DecidableEq, Repr

def Res.isFile : Res → Bool
  | .file _ => true
  | _ => false

/-- follow a symbolic link at this place (targets are link-free, so one step suffices) -/
def derefAt (tree : List Entry) (pre : List Str) : List Str :=
  match nodeAt tree pre with
  | some (Node.link t) => t
  | _ => pre

/-- kernel path walk below the sandbox: `pre` already resolved, `rest` to go; symbolic links are followed
    (open(2), stat(2)), at intermediate places and at the final one -/
def walk (tree : List Entry) (pre : List Str) : List Str → Res
  | [] =>
    match nodeAt tree (derefAt tree pre) with
    | some (Node.file c) => Res.file c
    | some Node.dir => Res.dir
    | _ => Res.notExist
  | s :: rest =>
    match nodeAt tree (derefAt tree pre) with
    | some Node.dir => if s.length > 255 then Res.tooLong else walk tree (derefAt tree pre ++ [s]) rest
    | _ => Res.notExist

/-- resolve absolute path elements; `sb` = elements of the sandbox directory; nothing the requests can
    name exists outside it (assumption) -/
def resolve (tree : List Entry) (sb : List Str) (full : List Str) : Res :=
  if sb.isPrefixOf full then walk tree [] (full.drop sb.length) else Res.notExist

/-! ### mod_static -/
inductive Enc | gzip | br
  deriving DecidableEq, Repr

def Enc.ext : Enc → Str | .gzip => extGz | .br => extBr

inductive Err
  | notExist | isDir | invalid | other
  deriving DecidableEq, Repr

structure Cfg where
  tree : List Entry
  sb : List Str          -- sandbox directory (absolute, clean)
  root : Str             -- document root as configured (absolute path string)

/-- `os.Stat(filepath.Join(root, path.Clean("/"+fname)))` succeeds -/
def probeSegs (cfg : Cfg) (fname : Str) : List Str := joinSegs cfg.root (join (relSegs fname))

def probeExists (cfg : Cfg) (fname : Str) : Bool :=
  -- os.Stat rejects a NUL in the path it is given, i.e. in the CLEANED name (an element holding a NUL may
  -- have been removed by a following "..")
  if (join (relSegs fname)).contains 0 then false
  else match resolve cfg.tree cfg.sb (probeSegs cfg fname) with
    | Res.file _ => true
    | Res.dir => true
    | _ => false

/-- the loop over the accepted encodings -/
def pickVariant (cfg : Cfg) (fname : Str) : List Enc → Str × Option Enc
  | [] => (fname, none)
  | e :: es => if probeExists cfg (fname ++ e.ext) then (fname ++ e.ext, some e) else pickVariant cfg fname es

/-- path elements `http.Dir(root).Open(fname)` hands to `os.Open` -/
def openSegs (cfg : Cfg) (fname : Str) : Option (List Str) :=
  (dirOpenRel fname).map fun segs => joinSegs cfg.root (join segs)

def newStaticFile (cfg : Cfg) (fname : Str) (encs : List Enc) : Except Err (Str × Option Enc) :=
  let (fname', enc) := pickVariant cfg fname encs
  match openSegs cfg fname' with
  | none => .error Err.invalid
  | some full =>
    match resolve cfg.tree cfg.sb full with
    | Res.file c => .ok (c, enc)
    | Res.dir => .error Err.isDir
    | Res.notExist => .error Err.notExist
    | Res.tooLong => .error Err.other

def openStaticFile (cfg : Cfg) (path : Str) (encs : List Enc) (defaultFile : Str) : Except Err (Str × Option Enc) :=
  match newStaticFile cfg path encs with
  | .ok r => .ok r
  | .error e =>
    if (e == Err.notExist || e == Err.isDir) && defaultFile != [] then newStaticFile cfg defaultFile encs
    else .error e

structure Resp where
  status : Nat
  enc : Option Enc := none
  clen : Option Nat := none
  body : Str := []
  deriving DecidableEq, Repr

def errorStatus : Err → Nat
  | .notExist => 404
  | _ => 500

/-- createRespFromStaticFile -/
def serve (cfg : Cfg) (method path : Str) (encs : List Enc) (defaultFile : Str) : Resp :=
  if method != sGET && method != sHEAD then { status := 405 }
  else match openStaticFile cfg path encs defaultFile with
    | .error e => { status := errorStatus e }
    | .ok (c, enc) =>
      { status := 200, enc := enc, clen := some c.length, body := if method != sHEAD then c else [] }

/-! ### specification side -/

/-- an ordinary path element: not empty, not "." or "..", no separator -/
def normalSeg (s : Str) : Bool := s != [] && s != dot && s != dotdot && !s.contains slash

/-- elements of the document root -/
def rootSegs (cfg : Cfg) : List Str := cleanSegs true (split cfg.root)

/-- the regular files below the document root, with their contents -/
def filesUnderRoot (cfg : Cfg) : List Str :=
  cfg.tree.filterMap fun e =>
    match e.node with
    | Node.file c => if (rootSegs cfg).isPrefixOf (cfg.sb ++ e.path) then some c else none
    | _ => none

/-- the tree without everything that is not below the document root -/
def restrict (cfg : Cfg) : Cfg :=
  { cfg with tree := cfg.tree.filter fun e => (rootSegs cfg).isPrefixOf (cfg.sb ++ e.path) }

/-- what is at `root/clean(name)` -/
def atRoot (cfg : Cfg) (name : Str) : Res := resolve cfg.tree cfg.sb (rootSegs cfg ++ relSegs name)

/-- the names the request may legitimately be answered from -/
def candidateNames (path : Str) (encs : List Enc) (df : Str) : List Str :=
  let names := if df == [] then [path] else [path, df]
  names.flatMap fun n => n :: encs.map fun e => n ++ e.ext

/-! ### hot reloads: a history of rule configurations loaded into one module -/

structure SRule where
  hit : Bool            -- outcome of rule.Cond.Match(request)
  root : Str            -- Action.Params[0] (absolute path string)
  df : Str              -- Action.Params[1]

structure SConf where
  version : Str
  products : List (Str × List SRule)    -- product -> rules (product names distinct)

/-- `StaticRuleTable.Update`: the new configuration REPLACES the table, whatever its version string -/
def supdate (_t : List (Str × List SRule)) (c : SConf) : List (Str × List SRule) := c.products

def stableAfter (cs : List SConf) : List (Str × List SRule) := cs.foldl supdate []

def slookup (t : List (Str × List SRule)) (product : Str) : Option (List SRule) :=
  (t.find? fun p => p.1 == product).map (·.2)

inductive HRes
  | goOn                 -- no rule took the request: it goes on to the backend
  | resp (r : Resp)
  deriving DecidableEq, Repr

/-- the rule that decides under a rule list: first whose condition matches -/
def decidingRule (rules : Option (List SRule)) : Option SRule :=
  match rules with
  | none => none
  | some rs => rs.find? (·.hit)

/-- staticFileHandler on a given table entry -/
def serveWith (tree : List Entry) (sb : List Str) (rule : Option SRule) (method path : Str) (encs : List Enc) : HRes :=
  match rule with
  | none => HRes.goOn
  | some r => HRes.resp (serve { tree := tree, sb := sb, root := r.root } method path encs r.df)

/-- staticFileHandler after a reload history -/
def serveH (tree : List Entry) (sb : List Str) (cs : List SConf) (product method path : Str) (encs : List Enc) : HRes :=
  serveWith tree sb (decidingRule (slookup (stableAfter cs) product)) method path encs

/-- spec side: the configuration in force is the last one loaded -/
def sInForce (cs : List SConf) (product : Str) : Option (List SRule) :=
  match cs.getLast? with
  | some c => slookup c.products product
  | none => none

/-! ### Accept-Encoding, extensions, content types, the rule-file loader -/

def lowerB (b : UInt8) : UInt8 := if 0x41 ≤ b && b ≤ 0x5a then b + 0x20 else b
def lowerS (s : Str) : Str := s.map lowerB

def isTokenBoundary (b : UInt8) : Bool := b == 0x20 || b == 0x2c || b == 0x09

/-- `bfe_http.HasToken(v, token)` for an ASCII lower-case token -/
def hasToken (v token : Str) : Bool :=
  if token.length > v.length || token == [] then false
  else if v == token then true
  else (List.range (v.length - token.length + 1)).any fun sp =>
    let b := v.getD sp 0
    (b == token.headD 0 || (b ||| 0x20) == token.headD 0) &&
    (sp == 0 || isTokenBoundary (v.getD (sp - 1) 0)) &&
    (sp + token.length == v.length || isTokenBoundary (v.getD (sp + token.length) 0)) &&
    lowerS ((v.drop sp).take token.length) == token

def tokGzip : Str := [0x67, 0x7a, 0x69, 0x70]
def tokBr : Str := [0x62, 0x72]

/-- `CheckAcceptEncoding` (only consulted when EnableCompress) -/
def acceptedEncodings (enableCompress : Bool) (acceptEncoding : Str) : List Enc :=
  if enableCompress then
    (if hasToken acceptEncoding tokGzip then [Enc.gzip] else []) ++ (if hasToken acceptEncoding tokBr then [Enc.br] else [])
  else []

/-- `filepath.Ext(name)` -/
def extOf (name : Str) : Str :=
  let elem := (split name).getLast?.getD []
  match (List.range elem.length).reverse.find? (fun i => elem.getD i 0 == 0x2e) with
  | some i => elem.drop i
  | none => []

/-- spec side (RFC 7231 §5.3.4): is the coding acceptable according to the header: some element names it
    (case-insensitively) and its weight is not zero -/
def trimOWS (s : Str) : Str :=
  let isows := fun (b : UInt8) => b == 0x20 || b == 0x09
  ((s.dropWhile isows).reverse.dropWhile isows).reverse

def splitOnB (sep : UInt8) : Str → List Str
  | [] => [[]]
  | c :: cs =>
    if c == sep then [] :: splitOnB sep cs
    else match splitOnB sep cs with
      | h :: t => (c :: h) :: t
      | [] => [[c]]

def qIsZero (param : Str) : Bool :=
  let p := lowerS (trimOWS param)
  match p with
  | 0x71 :: rest =>
    (match trimOWS rest with
     | 0x3d :: v =>
       let v := trimOWS v
       v.head? == some 0x30 && v.all (fun b => b == 0x30 || b == 0x2e)
     | _ => false)
  | _ => false

def specAccepts (acceptEncoding token : Str) : Bool :=
  (splitOnB 0x2c acceptEncoding).any fun el =>
    match splitOnB 0x3b el with
    | coding :: params => lowerS (trimOWS coding) == token && !params.any qIsZero
    | [] => false

/-- one rule of a rule FILE as the loader sees it -/
structure FRule where
  cond : Nat            -- 0 = builds, does not match; 1 = builds, matches; 2 = empty string; 3 = does not build
  cmd : Nat             -- 0 = "BROWSE"; 1 = other string; 2 = Cmd missing; 3 = Action missing
  nparams : Nat         -- number of Params; the first is the root, the second the default file
  root : Str
  df : Str

/-- `ActionFileCheck` + `StaticRuleCheck` + `condition.Build`: the root must exist (os.Stat), a non-empty default
    file must exist at `path.Join(root, defaultFile)` — an UNROOTED join -/
def fruleOk (tree : List Entry) (sb : List Str) (r : FRule) : Bool :=
  (r.cond == 0 || r.cond == 1) && r.cmd == 0 && r.nparams == 2 &&
  (match resolve tree sb (cleanSegs true (split r.root)) with
   | Res.file _ => true | Res.dir => true | _ => false) && !r.root.contains 0 &&
  (r.df == [] ||
    ((match resolve tree sb (joinSegs r.root r.df) with
      | Res.file _ => true | Res.dir => true | _ => false) && !r.df.contains 0))

structure FConf where
  fileOk : Bool                       -- the file is JSON of the right shape with Version and Config present
  version : Str
  products : List (Str × Option (List FRule))    -- a product may be `null`

def fconfOk (tree : List Entry) (sb : List Str) (c : FConf) : Bool :=
  c.fileOk && c.products.all fun p => match p.2 with
    | none => false
    | some rs => rs.all (fruleOk tree sb)

def FConf.toSConf (c : FConf) : SConf :=
  { version := c.version
    products := c.products.map fun p => (p.1, (p.2.getD []).map fun r => { hit := r.cond == 1, root := r.root, df := r.df }) }

/-- `loadConfData`: a rejected file leaves the table alone -/
def fupdate (tree : List Entry) (sb : List Str) (t : List (Str × List SRule)) (c : FConf) : List (Str × List SRule) :=
  if fconfOk tree sb c then c.toSConf.products else t

def ftableAfter (tree : List Entry) (sb : List Str) (cs : List FConf) : List (Str × List SRule) :=
  cs.foldl (fupdate tree sb) []

/-- spec side: the configuration in force is the last accepted one -/
def fInForce (tree : List Entry) (sb : List Str) (cs : List FConf) (product : Str) : Option (List SRule) :=
  match cs.reverse.find? (fconfOk tree sb) with
  | some c => slookup c.toSConf.products product
  | none => none

/-- mime table: `MimeTypeConfLoad` (Version must be non-empty; keys lower-cased; a duplicate key after
    lower-casing: generated distinct) and `processContentType` -/
structure MConf where
  fileOk : Bool
  version : Str
  entries : List (Str × Str)

def mconfOk (c : MConf) : Bool := c.fileOk && c.version != []

def mtableAfter (cs : List MConf) : List (Str × Str) :=
  cs.foldl (fun t c => if mconfOk c then c.entries.map (fun e => (lowerS e.1, e.2)) else t) []

/-- Content-Type: the module's table on the lower-cased extension of the REQUESTED name (or of the default file
    when that is what is served), else Go's `mime.TypeByExtension` (parameter `sysType`), none when empty -/
def contentType (mt : List (Str × Str)) (sysType : Str → Str) (ext : Str) : Option Str :=
  let ct := match mt.find? (fun e => e.1 == lowerS ext) with
    | some e => e.2
    | none => sysType ext
  if ct == [] then none else some ct

/-- which name was served: the requested one or the default file (openStaticFile) -/
def servedName (cfg : Cfg) (path : Str) (encs : List Enc) (defaultFile : Str) : Str :=
  match newStaticFile cfg path encs with
  | .ok _ => path
  | .error _ => defaultFile

end BfeVerif.C50
