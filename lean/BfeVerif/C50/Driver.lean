import BfeVerif.Common.Proto
import BfeVerif.C50.Model
/-!
  C50 driver.
  op = `clean <hex>`                                   result = hex of path.Clean
     | `sf m=<hex>;p=<hex>;ae=<0-3>;ec=<0|1>;root=<hex>;df=<hex>;t=<tree>`
         p    = req.URL.Path (decoded), ae bit0 = Accept-Encoding has gzip, bit1 = has br, ec = EnableCompress
         root = document root relative to the sandbox directory, df = default file ("-" = none)
         tree = entries `f:<relpath hex>:<content hex>` | `d:<relpath hex>:-` joined by `,` (`_` = empty)
       result = `<status>;<content-encoding|->;<content-length|->;<body hex|->`
-/
namespace BfeVerif.C50
open BfeVerif.Proto

def sbName : Str := [0x53, 0x42]   -- the sandbox directory is modelled as the single element "SB"

def kv (s : String) (k : String) : Option String :=
  if s.startsWith (k ++ "=") then some (s.drop (k.length + 1)).toString else none

def parseEntry (s : String) : Option Entry :=
  match s.splitOn ":" with
  | [k, p, c] => do
    let p ← bytesOfHex p
    let c ← bytesOfHex c
    let segs := (split p).filter (· != [])
    if k == "f" then some { path := segs, node := Node.file c }
    else if k == "d" then some { path := segs, node := Node.dir }
    else if k == "l" then some { path := segs, node := Node.link ((split c).filter (· != [])) } else none
  | _ => none

def parseTree (s : String) : Option (List Entry) :=
  if s == "_" then some [] else (s.splitOn ",").mapM parseEntry

def encName : Option Enc → String
  | none => "-" | some .gzip => "gzip" | some .br => "br"

def renderResp (r : Resp) : String :=
  toString r.status ++ ";" ++ encName r.enc ++ ";" ++
    (match r.clen with | some n => toString n | none => "-") ++ ";" ++ hexField r.body

def parseResp (s : String) : Option Resp :=
  match s.splitOn ";" with
  | [st, ce, cl, b] => do
    let st ← st.toNat?
    let ce ← (if ce == "-" then some none else if ce == "gzip" then some (some Enc.gzip)
              else if ce == "br" then some (some Enc.br) else none)
    let cl ← (if cl == "-" then some none else cl.toNat?.map some)
    let b ← bytesOfHex b
    some { status := st, enc := ce, clen := cl, body := b }
  | _ => none

/-- all regular-file contents of the tree that are NOT below the root -/
def filesOutside (cfg : Cfg) : List Str :=
  cfg.tree.filterMap fun e =>
    match e.node with
    | Node.file c => if (rootSegs cfg).isPrefixOf (cfg.sb ++ e.path) then none else some c
    | _ => none

def specVerdict0 (cfg : Cfg) (method path : Str) (encs : List Enc) (df : Str) (impl : String) : String :=
  match parseResp impl with
  | none => "FAIL:unparsable-result"
  | some r =>
    if method != sGET && method != sHEAD then
      (if r.status == 405 && r.body == [] then "ok" else "FAIL:method-not-refused")
    else if r.status == 405 then "FAIL:get-refused"
    else
      let cands := candidateNames path encs df
      let candFiles := cands.filterMap fun n => match atRoot cfg n with | Res.file c => some c | _ => none
      if r.status == 200 then
        if method == sHEAD && r.body != [] then "FAIL:head-body"
        else if method == sGET && (filesOutside cfg).contains r.body && !(filesUnderRoot cfg).contains r.body then "FAIL:outside-root"
        else if method == sGET && !(filesUnderRoot cfg).contains r.body then "FAIL:unknown-body"
        else if method == sGET && r.clen != some r.body.length then "FAIL:length"
        else if method == sHEAD && !(candFiles.any fun c => some c.length == r.clen) then "FAIL:length"
        else if method == sGET && !candFiles.contains r.body then "FAIL:wrong-file"
        else if (match r.enc with | some e => !encs.contains e | none => false) then "FAIL:encoding-label"
        else if impl != renderResp (serve (restrict cfg) method path encs df) then "FAIL:outside-root-influence"
        else "ok"
      else
        -- the property's "missing files are answered 404": nothing servable exists => 404
        let servable := cands.any fun n => match atRoot cfg n with | Res.file _ => (dirOpenRel n).isSome | _ => false
        if !servable && r.status != 404 then
          (if cands.any (fun n => (dirOpenRel n).isNone || atRoot cfg n == Res.tooLong) then "FAIL:bad-name-not-404"
           else if cands.any (fun n => atRoot cfg n == Res.dir) then "FAIL:directory-not-404"
           else "FAIL:missing-not-404")
        else if r.status == 404 && encs == [] && (match atRoot cfg path with | Res.file _ => (dirOpenRel path).isSome | _ => false) then
          "FAIL:existing-not-served"
        else if r.body != [] || r.clen != none then "FAIL:error-with-body"
        else if impl != renderResp (serve (restrict cfg) method path encs df) then "FAIL:outside-root-influence"
        else "ok"


/-- a link below the root whose target is not below the root -/
def hasEscapingLink (cfg : Cfg) : Bool :=
  cfg.tree.any fun e => match e.node with
    | Node.link t => (rootSegs cfg).isPrefixOf (cfg.sb ++ e.path) && !(rootSegs cfg).isPrefixOf (cfg.sb ++ t)
    | _ => false

/-- the oracle; what a followed symbolic link that leaves the root causes is reported under its own class -/
def specVerdict (cfg : Cfg) (method path : Str) (encs : List Enc) (df : Str) (impl : String) : String :=
  let v := specVerdict0 cfg method path encs df impl
  if (v == "FAIL:outside-root" || v == "FAIL:outside-root-influence" || v == "FAIL:unknown-body" || v == "FAIL:wrong-file") &&
      hasEscapingLink cfg && impl == renderResp (serve cfg method path encs df) then "FAIL:symlink-leaves-root"
  else v

/-- conf = `<version hex>@<products>`; products = `_` or `<product hex>=<rule>/<rule>` joined by `&`;
    rule = `<hit>.<root rel hex>.<default file hex>` -/
def parseSConf (s : String) : Option SConf :=
  match s.splitOn "@" with
  | [v, ps] => do
    let v ← bytesOfHex v
    let ps ← (if ps == "_" then some [] else (ps.splitOn "&").mapM fun x =>
      match x.splitOn "=" with
      | [p, rs] => do
        let p ← bytesOfHex p
        let rs ← (rs.splitOn "/").mapM fun r =>
          match r.splitOn "." with
          | [h, root, df] => do
            let root ← bytesOfHex root
            let df ← bytesOfHex df
            some ({ hit := h == "1", root := slash :: sbName ++ slash :: root, df := df } : SRule)
          | _ => none
        some (p, rs)
      | _ => none)
    some { version := v, products := ps }
  | _ => none

/-- `sfh c=<conf>~…;pr=<product hex>;m=…;p=…;ae=…;ec=…;t=<tree>` -/
def runHistory (op impl : String) : Ans :=
  let bad : Ans := { model := "bad-op", verdict := "skip" }
  match ((op.drop 4).toString.splitOn ";").take 7 with
  | [c, pr, m, p, ae, ec, t] =>
    match (kv c "c").bind (fun s => (s.splitOn "~").mapM parseSConf), (kv pr "pr").bind bytesOfHex,
          (kv m "m").bind bytesOfHex, (kv p "p").bind bytesOfHex, (kv ae "ae").bind String.toNat?, kv ec "ec",
          (kv t "t").bind parseTree with
    | some cs, some product, some m, some p, some ae, some ec, some tree =>
      let encs : List Enc := if ec == "1" then (if ae % 2 == 1 then [Enc.gzip] else []) ++ (if ae / 2 % 2 == 1 then [Enc.br] else []) else []
      let model := match serveH tree [sbName] cs product m p encs with
        | HRes.goOn => "goon"
        | HRes.resp r => renderResp r
      -- the oracle is the single-configuration oracle under the configuration in force (the last one loaded)
      let rule := decidingRule (sInForce cs product)
      let everHad := cs.any fun c => (decidingRule (slookup c.products product)).isSome
      let tags := ["hist", "confs" ++ toString cs.length] ++
        (if everHad && rule.isNone then ["rule-removed"] else []) ++
        (match rule, cs.dropLast.getLast? with
          | some r, some prev => (match decidingRule (slookup prev.products product) with
              | some r0 => if r0.root != r.root then ["root-changed"] else []
              | none => [])
          | _, _ => []) ++
        (if (match cs.dropLast.getLast?, cs.getLast? with | some a, some b => a.version == b.version && a.products.length == b.products.length | _, _ => false)
          then ["same-version"] else []) ++
        (if rule.isSome then ["nt"] else [])
      let v := match rule with
        | none => if impl == "goon" then "ok" else "FAIL:served-without-rule"
        | some r =>
          if impl == "goon" then "FAIL:rule-ignored"
          else specVerdict { tree := tree, sb := [sbName], root := r.root } m p encs r.df impl
      let v := if v.startsWith "FAIL:" && v != "FAIL:directory-not-404" && v != "FAIL:bad-name-not-404" &&
          v != "FAIL:symlink-leaves-root" && cs.length > 1
        then "FAIL:stale-conf-" ++ (v.drop 5).toString else v
      { model := model, verdict := v, tags := tags }
    | _, _, _, _, _, _, _ => bad
  | _ => bad

/-- rule FILE: `<fileflag>@<version hex>@<products>`; products = `_` or `<product hex>=<rules|null>` joined by `&`;
    rule = `<cond>.<cmd>.<nparams>.<root rel hex>.<default file hex>` -/
def parseFConf (s : String) : Option FConf :=
  match s.splitOn "@" with
  | [flag, v, ps] => do
    let v ← bytesOfHex v
    let ps ← (if ps == "_" then some [] else (ps.splitOn "&").mapM fun x =>
      match x.splitOn "=" with
      | [p, rs] => do
        let p ← bytesOfHex p
        if rs == "null" then some (p, none) else
        let rs ← (rs.splitOn "/").mapM fun r =>
          match r.splitOn "." with
          | [c, cmd, np, root, df] => do
            let c ← c.toNat?
            let cmd ← cmd.toNat?
            let np ← np.toNat?
            let root ← bytesOfHex root
            let df ← bytesOfHex df
            some ({ cond := c, cmd := cmd, nparams := np, root := slash :: sbName ++ slash :: root, df := df } : FRule)
          | _ => none
        some (p, some rs)
      | _ => none)
    some { fileOk := flag == "ok", version := v, products := ps }
  | _ => none

def parseMConf (s : String) : Option MConf :=
  match s.splitOn "@" with
  | [flag, v, es] => do
    let v ← bytesOfHex v
    let es ← (if es == "_" then some [] else (es.splitOn ",").mapM fun x =>
      match x.splitOn ":" with
      | [a, b] => do some ((← bytesOfHex a), (← bytesOfHex b))
      | _ => none)
    some { fileOk := flag == "ok", version := v, entries := es }
  | _ => none

def bits (l : List Bool) : String := String.mk (l.map fun b => if b then '1' else '0')

/-- `sff c=<fconf>~…;mt=<mconf>~…|-;pr=<product>;m=…;p=…;ae=<header hex>;ec=…;tb=<TypeByExtension facts>;x=<n>;t=<tree>`
    result `<load verdicts>|goon` or `<load verdicts>|<status>;<ce>;<cl>;<content-type hex|->;<body>` -/
def runFiles (op impl : String) : Ans :=
  let bad : Ans := { model := "bad-op", verdict := "skip" }
  match ((op.drop 4).toString.splitOn ";") with
  | [c, mt, pr, m, p, ae, ec, tb, _x, t] =>
    match (kv c "c").bind (fun s => (s.splitOn "~").mapM parseFConf),
          (kv mt "mt").bind (fun s => if s == "-" then some [] else (s.splitOn "~").mapM parseMConf),
          (kv pr "pr").bind bytesOfHex, (kv m "m").bind bytesOfHex, (kv p "p").bind bytesOfHex,
          (kv ae "ae").bind bytesOfHex, kv ec "ec",
          (kv tb "tb").bind (fun s => if s == "_" then some [] else (s.splitOn ",").mapM fun x =>
            match x.splitOn ":" with
            | [a, b] => do some ((← bytesOfHex a), (← bytesOfHex b))
            | _ => none),
          (kv t "t").bind parseTree with
    | some cs, some ms, some product, some m, some p, some ae, some ec, some facts, some tree =>
      let sb := [sbName]
      let encs := acceptedEncodings (ec == "1") ae
      let sysType : Str → Str := fun ext => match facts.find? (fun f => f.1 == ext) with | some f => f.2 | none => []
      let loads := bits (cs.map (fconfOk tree sb)) ++ "/" ++ bits (ms.map mconfOk)
      let render := fun (rule : Option SRule) => match rule with
        | none => "goon"
        | some r =>
          let cfg : Cfg := { tree := tree, sb := sb, root := r.root }
          let resp := serve cfg m p encs r.df
          let ct := if resp.status == 200 then contentType (mtableAfter ms) sysType (extOf (servedName cfg p encs r.df)) else none
          toString resp.status ++ ";" ++ encName resp.enc ++ ";" ++
            (match resp.clen with | some n => toString n | none => "-") ++ ";" ++
            (match ct with | some x => hexField x | none => "-") ++ ";" ++ hexField resp.body
      let model := loads ++ "|" ++ render (decidingRule (slookup (ftableAfter tree sb cs) product))
      let rule := decidingRule (fInForce tree sb cs product)
      let tags := ["files", "confs" ++ toString cs.length] ++
        (if cs.any (fun c => !fconfOk tree sb c) then ["rejected-conf"] else []) ++
        (if ms.length > 1 then ["mime-reload"] else []) ++
        (if tree.any (fun e => match e.node with | Node.link _ => true | _ => false) then ["links"] else []) ++
        (if rule.isSome then ["nt"] else [])
      match impl.splitOn "|" with
      | [li, ri] =>
        let v :=
          if li != loads then "FAIL:loader-verdict"
          else match rule with
            | none => if ri == "goon" then "ok" else "FAIL:served-without-rule"
            | some r =>
              if ri == "goon" then "FAIL:rule-ignored" else
              match ri.splitOn ";" with
              | [st, ce, cl, ct, b] =>
                let cfg : Cfg := { tree := tree, sb := sb, root := r.root }
                let v0 := specVerdict cfg m p encs r.df (";".intercalate [st, ce, cl, b])
                if v0 != "ok" then v0
                else if ri != render (some r) then "FAIL:content-type"
                else if (ce == "gzip" && !specAccepts ae tokGzip) || (ce == "br" && !specAccepts ae tokBr) then "FAIL:variant-despite-q0"
                else "ok"
              | _ => "FAIL:unparsable-result"
        let known := v == "FAIL:directory-not-404" || v == "FAIL:bad-name-not-404" || v == "FAIL:symlink-leaves-root" ||
                     v == "FAIL:variant-despite-q0"
        let v := if v.startsWith "FAIL:" && !known && v != "FAIL:loader-verdict" && cs.length > 1
          then "FAIL:stale-conf-" ++ (v.drop 5).toString else v
        { model := model, verdict := v, tags := tags }
      | _ => { model := model, verdict := "FAIL:unparsable-result", tags := tags }
    | _, _, _, _, _, _, _, _, _ => bad
  | _ => bad

def run (op impl : String) : Ans :=
  let bad : Ans := { model := "bad-op", verdict := "skip" }
  if op.startsWith "sff " then runFiles op impl else
  if op.startsWith "sfh " then runHistory op impl else
  if op.startsWith "clean " then
    match bytesOfHex (op.drop 6).toString with
    | none => bad
    | some p =>
      let c := clean p
      let rooted := p.head? == some slash
      let outSegs := (split c).filter (· != [])
      -- spec of Clean: rooted stays rooted; no empty/"." element; ".." only as a leading run of an unrooted path
      let okShape := (rooted == (c.head? == some slash)) && c != [] &&
        (if rooted then outSegs.all normalSeg
         else c == dot || (outSegs.dropWhile (· == dotdot)).all normalSeg)
      { model := hexField c
        verdict := (match bytesOfHex impl with
          | some ci =>
            let segsI := (split ci).filter (· != [])
            let shapeI := (rooted == (ci.head? == some slash)) && ci != [] &&
              (if rooted then segsI.all normalSeg else ci == dot || (segsI.dropWhile (· == dotdot)).all normalSeg)
            if shapeI && okShape then "ok" else "FAIL:clean-shape"
          | none => "FAIL:unparsable-result")
        tags := ["clean"] ++ (if c != p then ["nt"] else []) ++ (if rooted then ["rooted"] else ["unrooted"]) }
  else if !op.startsWith "sf " then bad else
  match ((op.drop 3).toString.splitOn ";").take 7 with
  | [m, p, ae, ec, root, df, t] =>
    match (kv m "m").bind bytesOfHex, (kv p "p").bind bytesOfHex, (kv ae "ae").bind String.toNat?, kv ec "ec",
          (kv root "root").bind bytesOfHex, (kv df "df").bind bytesOfHex, (kv t "t").bind parseTree with
    | some m, some p, some ae, some ec, some rootRel, some df, some tree =>
      let encs : List Enc := if ec == "1" then (if ae % 2 == 1 then [Enc.gzip] else []) ++ (if ae / 2 % 2 == 1 then [Enc.br] else []) else []
      let cfg : Cfg := { tree := tree, sb := [sbName], root := slash :: sbName ++ slash :: rootRel }
      let r := serve cfg m p encs df
      let segsRaw := split p
      let tags :=
        ["s" ++ toString r.status] ++
        (if segsRaw.contains dotdot then ["dotdot"] else []) ++
        (if (cleanSegs false segsRaw).head? == some dotdot then ["climb"] else []) ++
        (if encs != [] then ["enc"] else []) ++
        (if r.enc.isSome then ["variant"] else []) ++
        (if p.contains 0 then ["nul"] else []) ++
        (if !validUtf8 p then ["badutf8"] else []) ++
        (if segsRaw.any (fun s => s.length > 255) then ["long"] else []) ++
        (if r.status == 200 && (match atRoot cfg p with | Res.file _ => false | _ => true) then ["default"] else []) ++
        (if r.status == 200 || slash :: join (relSegs p) != p || encs != [] then ["nt"] else [])
      { model := renderResp r, verdict := specVerdict cfg m p encs df impl, tags := tags }
    | _, _, _, _, _, _, _ => bad
  | _ => bad

end BfeVerif.C50
