import BfeVerif.C50.Model
/-! Lemmas for C50 (core Lean only). -/
namespace BfeVerif.C50

/-- an ordinary path element -/
def Normal (s : Str) : Prop := s ≠ [] ∧ s ≠ dot ∧ s ≠ dotdot ∧ slash ∉ s

theorem normalSeg_iff (s : Str) : normalSeg s = true ↔ Normal s := by
  unfold normalSeg Normal
  simp [bne_iff_ne, and_assoc]

theorem split_ne_nil : ∀ p, split p ≠ []
  | [] => by simp [split]
  | c :: cs => by
    unfold split
    split
    · simp
    · split <;> simp

theorem split_noslash : ∀ s : Str, slash ∉ s → split s = [s]
  | [], _ => by simp [split]
  | c :: cs, h => by
    have hc : (c == slash) = false := by
      simp only [beq_eq_false_iff_ne]; intro e; exact h (by simp [e])
    have ih := split_noslash cs (fun hm => h (List.mem_cons_of_mem _ hm))
    unfold split
    simp [hc, ih]

theorem split_append (a b : Str) : split (a ++ slash :: b) = split a ++ split b := by
  induction a with
  | nil => simp [split]
  | cons c a ih =>
    rw [List.cons_append]
    by_cases hc : (c == slash) = true
    · rw [split, split]; simp [hc, ih]
    · have hc' : (c == slash) = false := by simpa using hc
      rw [split, split]
      simp only [hc', Bool.false_eq_true, if_false, ih]
      cases hs : split a with
      | nil => exact absurd hs (split_ne_nil a)
      | cons h t => simp

theorem split_mem_noslash : ∀ (p : Str) (s : Str), s ∈ split p → slash ∉ s
  | [], s, hs => by simp [split] at hs; simp [hs]
  | c :: cs, s, hs => by
    unfold split at hs
    by_cases hc : (c == slash) = true
    · simp only [hc, if_true, List.mem_cons] at hs
      rcases hs with h | h
      · simp [h]
      · exact split_mem_noslash cs s h
    · have hc' : (c == slash) = false := by simpa using hc
      simp only [hc', Bool.false_eq_true, if_false] at hs
      cases hsp : split cs with
      | nil => exact absurd hsp (split_ne_nil cs)
      | cons h t =>
        rw [hsp] at hs
        simp only [List.mem_cons] at hs
        rcases hs with e | e
        · subst e
          have hh := split_mem_noslash cs h (by rw [hsp]; simp)
          intro hm
          simp only [List.mem_cons] at hm
          rcases hm with e | e
          · rw [← e] at hc'; simp at hc'
          · exact hh e
        · exact split_mem_noslash cs s (by rw [hsp]; simp [e])

theorem split_join : ∀ (segs : List Str), (∀ s ∈ segs, slash ∉ s) → segs ≠ [] → split (join segs) = segs
  | [], _, hne => absurd rfl hne
  | [x], h, _ => by
    simp only [join]
    exact split_noslash x (h x (by simp))
  | x :: y :: t, h, _ => by
    simp only [join]
    rw [split_append, split_noslash x (h x (by simp)),
      split_join (y :: t) (fun s hs => h s (List.mem_cons_of_mem _ hs)) (by simp)]
    rfl

theorem cleanStep_push (st : List Str) (s : Str) (h : Normal s) : cleanStep true st s = s :: st := by
  obtain ⟨h1, h2, h3, _⟩ := h
  unfold cleanStep
  simp [h1, h2, h3]

theorem cleanStep_inv (st : List Str) (s : Str) (hst : ∀ x ∈ st, Normal x) (hs : slash ∉ s) :
    ∀ x ∈ cleanStep true st s, Normal x := by
  unfold cleanStep
  by_cases h1 : (s == [] || s == dot) = true
  · simp only [h1, if_true]; exact hst
  · simp only [h1, Bool.false_eq_true, if_false]
    by_cases h2 : (s == dotdot) = true
    · simp only [h2, if_true]
      cases st with
      | nil => simp
      | cons top rest =>
        have htop := hst top (by simp)
        have : (top == dotdot) = false := by
          simp only [beq_eq_false_iff_ne]; exact htop.2.2.1
        simp only [this, Bool.false_eq_true, if_false]
        intro x hx; exact hst x (List.mem_cons_of_mem _ hx)
    · simp only [h2, Bool.false_eq_true, if_false]
      intro x hx
      simp only [List.mem_cons] at hx
      rcases hx with e | e
      · subst e
        simp only [Bool.or_eq_true, beq_iff_eq, not_or] at h1
        simp only [beq_iff_eq] at h2
        exact ⟨h1.1, h1.2, h2, hs⟩
      · exact hst x e

theorem foldl_inv (segs : List Str) (st : List Str) (hst : ∀ x ∈ st, Normal x) (hs : ∀ s ∈ segs, slash ∉ s) :
    ∀ x ∈ segs.foldl (cleanStep true) st, Normal x := by
  induction segs generalizing st with
  | nil => simpa using hst
  | cons s rest ih =>
    simp only [List.foldl_cons]
    exact ih _ (cleanStep_inv st s hst (hs s (by simp))) (fun s' h' => hs s' (List.mem_cons_of_mem _ h'))

theorem cleanSegs_normal (segs : List Str) (hs : ∀ s ∈ segs, slash ∉ s) :
    ∀ x ∈ cleanSegs true segs, Normal x := by
  unfold cleanSegs
  intro x hx
  rw [List.mem_reverse] at hx
  exact foldl_inv segs [] (by simp) hs x hx

theorem foldl_push (B : List Str) (st : List Str) (h : ∀ s ∈ B, Normal s) :
    B.foldl (cleanStep true) st = B.reverse ++ st := by
  induction B generalizing st with
  | nil => simp
  | cons s rest ih =>
    simp only [List.foldl_cons, List.reverse_cons, List.append_assoc, List.singleton_append]
    rw [cleanStep_push st s (h s (by simp))]
    exact ih _ (fun s' h' => h s' (List.mem_cons_of_mem _ h'))

theorem cleanSegs_append_normal (A B : List Str) (h : ∀ s ∈ B, Normal s) :
    cleanSegs true (A ++ B) = cleanSegs true A ++ B := by
  unfold cleanSegs
  rw [List.foldl_append, foldl_push B _ h]
  simp

theorem cleanSegs_append_empty (A : List Str) : cleanSegs true (A ++ [[]]) = cleanSegs true A := by
  unfold cleanSegs
  rw [List.foldl_append]
  simp [cleanStep]

theorem normal_noslash {segs : List Str} (h : ∀ s ∈ segs, Normal s) : ∀ s ∈ segs, slash ∉ s :=
  fun s hs => (h s hs).2.2.2

/-- `filepath.Join(dir, p)` for a clean relative `p` without `..`: the elements of `dir` followed by those of `p` -/
theorem joinSegs_normal (dir : Str) (segs : List Str) (h : ∀ s ∈ segs, Normal s) :
    joinSegs dir (join segs) = cleanSegs true (split dir) ++ segs := by
  unfold joinSegs
  rw [split_append]
  by_cases hne : segs = []
  · subst hne
    simp only [join, split, List.append_nil]
    exact cleanSegs_append_empty _
  · rw [split_join segs (normal_noslash h) hne]
    exact cleanSegs_append_normal _ _ h

theorem relSegs_normal (name : Str) : ∀ s ∈ relSegs name, Normal s :=
  cleanSegs_normal _ (split_mem_noslash _)

/-! ### non-interference: the handler only looks at paths on the way to, or below, the document root -/

def NotLink (n : Option Node) : Prop := ∀ t, n ≠ some (Node.link t)

theorem derefAt_of_notLink (t : List Entry) (p : List Str) (h : NotLink (nodeAt t p)) : derefAt t p = p := by
  unfold derefAt
  cases hn : nodeAt t p with
  | none => rfl
  | some n =>
    cases n with
    | file c => rfl
    | dir => rfl
    | link l => exact absurd hn (h l)

theorem nodeAt_notLink (tree : List Entry) (h : ∀ e0 ∈ tree, ∀ t, e0.node ≠ Node.link t) (p : List Str) :
    NotLink (nodeAt tree p) := by
  intro t
  unfold nodeAt
  cases hf : List.find? (fun e => e.path == p) tree with
  | some x =>
    intro heq
    exact h x (List.mem_of_find?_eq_some hf) t (Option.some.inj heq)
  | none =>
    simp only []
    split <;> simp

theorem walk_congr (t1 t2 : List Entry) (target : List Str)
    (h : ∀ p, p <+: target → nodeAt t1 p = nodeAt t2 p ∧ NotLink (nodeAt t1 p)) :
    ∀ (rest pre : List Str), pre ++ rest = target → walk t1 pre rest = walk t2 pre rest := by
  intro rest
  induction rest with
  | nil =>
    intro pre hp
    have hh := h pre (by rw [← hp]; simp)
    have d1 := derefAt_of_notLink t1 pre hh.2
    have d2 := derefAt_of_notLink t2 pre (by rw [← hh.1]; exact hh.2)
    simp only [walk, d1, d2, hh.1]
  | cons s rest ih =>
    intro pre hp
    have hh := h pre (by rw [← hp]; exact List.prefix_append _ _)
    have d1 := derefAt_of_notLink t1 pre hh.2
    have d2 := derefAt_of_notLink t2 pre (by rw [← hh.1]; exact hh.2)
    have h2 := ih (pre ++ [s]) (by rw [← hp]; simp)
    simp only [walk, d1, d2, hh.1, h2]

/-- the two configurations have the same sandbox and root, and their trees agree at every place that is an
    ancestor of the root, the root itself, or below the root (they may differ anywhere else); none of these
    places is a symbolic link (a link may lead out of the root: the stated assumption of C50) -/
def AgreeBelowRoot (c1 c2 : Cfg) : Prop :=
  c1.sb = c2.sb ∧ c1.root = c2.root ∧
  ∀ p, (c1.sb ++ p <+: rootSegs c1 ∨ rootSegs c1 <+: c1.sb ++ p) →
    nodeAt c1.tree p = nodeAt c2.tree p ∧ NotLink (nodeAt c1.tree p)

theorem resolve_congr (c1 c2 : Cfg) (h : AgreeBelowRoot c1 c2) (segs : List Str) :
    resolve c1.tree c1.sb (rootSegs c1 ++ segs) = resolve c2.tree c2.sb (rootSegs c2 ++ segs) := by
  obtain ⟨hsb, hroot, hag⟩ := h
  have hrs : rootSegs c2 = rootSegs c1 := by unfold rootSegs; rw [hroot]
  rw [hrs, ← hsb]
  unfold resolve
  by_cases hp : c1.sb.isPrefixOf (rootSegs c1 ++ segs) = true
  · simp only [hp, if_true]
    have hpre : c1.sb <+: rootSegs c1 ++ segs := List.isPrefixOf_iff_prefix.mp hp
    obtain ⟨rel, hrel⟩ := hpre
    have hdrop : (rootSegs c1 ++ segs).drop c1.sb.length = rel := by
      rw [← hrel]; simp
    rw [hdrop]
    apply walk_congr _ _ rel _ rel [] (by simp)
    intro p hpp
    apply hag
    have h1 : c1.sb ++ p <+: rootSegs c1 ++ segs := by
      rw [← hrel]; exact (List.prefix_append_right_inj _).mpr hpp
    have h2 : rootSegs c1 <+: rootSegs c1 ++ segs := List.prefix_append _ _
    exact List.prefix_or_prefix_of_prefix h1 h2
  · simp [hp]

/-! ### lemmas about newStaticFile used by the property theorems -/

theorem openSegs_under_root (cfg : Cfg) (fname : Str) (full : List Str) (h : openSegs cfg fname = some full) :
    ∃ segs, full = rootSegs cfg ++ segs ∧ ∀ s ∈ segs, Normal s := by
  unfold openSegs dirOpenRel at h
  simp only [] at h
  split at h
  · simp at h
  · simp only [Option.map_some, Option.some.injEq] at h
    exact ⟨relSegs fname, by rw [← h, joinSegs_normal _ _ (relSegs_normal fname)]; rfl, relSegs_normal fname⟩

theorem newStaticFile_ok (cfg : Cfg) (fname : Str) (encs : List Enc) (c : Str) (e : Option Enc)
    (h : newStaticFile cfg fname encs = .ok (c, e)) :
    ∃ segs, (∀ s ∈ segs, Normal s) ∧ resolve cfg.tree cfg.sb (rootSegs cfg ++ segs) = Res.file c := by
  unfold newStaticFile at h
  simp only [] at h
  split at h
  · cases h
  · rename_i full hopen
    obtain ⟨segs, hfull, hn⟩ := openSegs_under_root cfg _ full hopen
    split at h
    · rename_i c' hres
      simp only [Except.ok.injEq, Prod.mk.injEq] at h
      exact ⟨segs, hn, by rw [← hfull, hres, h.1]⟩
    · cases h
    · cases h
    · cases h

theorem pickVariant_mem (cfg : Cfg) (fname : Str) (encs : List Enc) :
    (pickVariant cfg fname encs).1 = fname ∨ ∃ e ∈ encs, (pickVariant cfg fname encs).1 = fname ++ e.ext := by
  induction encs with
  | nil => left; rfl
  | cons e es ih =>
    unfold pickVariant
    split
    · right; exact ⟨e, by simp, rfl⟩
    · rcases ih with h | ⟨e', he', h⟩
      · left; exact h
      · right; exact ⟨e', List.mem_cons_of_mem _ he', h⟩

theorem newStaticFile_missing (cfg : Cfg) (fname : Str) (encs : List Enc)
    (h : ∀ n ∈ fname :: encs.map (fun e => fname ++ e.ext), atRoot cfg n = Res.notExist ∧ (dirOpenRel n).isSome = true) :
    newStaticFile cfg fname encs = .error Err.notExist := by
  have hv : (pickVariant cfg fname encs).1 ∈ fname :: encs.map (fun e => fname ++ e.ext) := by
    rcases pickVariant_mem cfg fname encs with h' | ⟨e, he, h'⟩
    · rw [h']; simp
    · rw [h']; exact List.mem_cons_of_mem _ (List.mem_map.mpr ⟨e, he, rfl⟩)
  obtain ⟨h1, h2⟩ := h _ hv
  unfold newStaticFile
  simp only []
  have hopen : openSegs cfg (pickVariant cfg fname encs).1 = some (rootSegs cfg ++ relSegs (pickVariant cfg fname encs).1) := by
    unfold openSegs
    cases hd : dirOpenRel (pickVariant cfg fname encs).1 with
    | none => rw [hd] at h2; simp at h2
    | some segs =>
      have : segs = relSegs (pickVariant cfg fname encs).1 := by
        unfold dirOpenRel at hd
        simp only [] at hd
        split at hd
        · cases hd
        · exact (Option.some.inj hd).symm
      subst this
      simp only [Option.map_some]
      rw [joinSegs_normal _ _ (relSegs_normal _)]; rfl
  rw [hopen]
  unfold atRoot at h1
  simp only [h1]

theorem probeSegs_eq (cfg : Cfg) (f : Str) : probeSegs cfg f = rootSegs cfg ++ relSegs f := by
  unfold probeSegs; rw [joinSegs_normal _ _ (relSegs_normal f)]; rfl

theorem openSegs_eq (cfg : Cfg) (f : Str) :
    openSegs cfg f = (dirOpenRel f).map (fun _ => rootSegs cfg ++ relSegs f) := by
  unfold openSegs dirOpenRel
  simp only []
  split
  · rfl
  · simp only [Option.map_some]
    rw [joinSegs_normal _ _ (relSegs_normal f)]; rfl

theorem probeExists_congr (c1 c2 : Cfg) (h : AgreeBelowRoot c1 c2) (f : Str) :
    probeExists c1 f = probeExists c2 f := by
  unfold probeExists
  rw [probeSegs_eq, probeSegs_eq, resolve_congr c1 c2 h]

theorem pickVariant_congr (c1 c2 : Cfg) (h : AgreeBelowRoot c1 c2) (f : Str) (encs : List Enc) :
    pickVariant c1 f encs = pickVariant c2 f encs := by
  induction encs with
  | nil => rfl
  | cons e es ih => unfold pickVariant; rw [probeExists_congr c1 c2 h, ih]

theorem newStaticFile_congr (c1 c2 : Cfg) (h : AgreeBelowRoot c1 c2) (f : Str) (encs : List Enc) :
    newStaticFile c1 f encs = newStaticFile c2 f encs := by
  unfold newStaticFile
  rw [pickVariant_congr c1 c2 h]
  simp only [openSegs_eq]
  cases dirOpenRel (pickVariant c2 f encs).1 with
  | none => rfl
  | some segs =>
    simp only [Option.map_some]
    rw [resolve_congr c1 c2 h]

theorem newStaticFile_err (cfg : Cfg) (f : Str) (encs : List Enc) (e : Err)
    (h : newStaticFile cfg f encs = .error e) (hne : e ≠ Err.notExist) :
    ∃ n ∈ f :: encs.map (fun x => f ++ x.ext),
      dirOpenRel n = none ∨ atRoot cfg n = Res.dir ∨ atRoot cfg n = Res.tooLong := by
  have hv : (pickVariant cfg f encs).1 ∈ f :: encs.map (fun e => f ++ e.ext) := by
    rcases pickVariant_mem cfg f encs with h' | ⟨e, he, h'⟩
    · rw [h']; simp
    · rw [h']; exact List.mem_cons_of_mem _ (List.mem_map.mpr ⟨e, he, rfl⟩)
  refine ⟨_, hv, ?_⟩
  unfold newStaticFile at h
  simp only [openSegs_eq] at h
  cases hd : dirOpenRel (pickVariant cfg f encs).1 with
  | none => exact Or.inl rfl
  | some segs =>
    right
    rw [hd] at h
    simp only [Option.map_some] at h
    unfold atRoot
    cases hr : resolve cfg.tree cfg.sb (rootSegs cfg ++ relSegs (pickVariant cfg f encs).1) with
    | file c => rw [hr] at h; cases h
    | dir => exact Or.inl rfl
    | notExist => rw [hr] at h; simp only [Except.error.injEq] at h; exact absurd h.symm hne
    | tooLong => exact Or.inr rfl


end BfeVerif.C50
