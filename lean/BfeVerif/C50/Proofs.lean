import BfeVerif.C50.Model
/-! Lemmas for C50 (core Lean only). -/
namespace BfeVerif.C50

/-- an ordinary path element -/
def Normal (s : Str) : Prop := s ≠ [] ∧ s ≠ dot ∧ s ≠ dotdot ∧ slash ∉ s

theorem normalSeg_iff (s : Str) : normalSeg s = true ↔ Normal s := by
  unfold normalSeg Normal
  simp [bne_iff_ne, and_assoc]

theorem split_ne_nil : ∀ p, split p ≠ []
  | [] => by simp [split]
  | c :: cs => by
    unfold split
    split
    · simp
    · split <;> simp

theorem split_noslash : ∀ s : Str, slash ∉ s → split s = [s]
  | [], _ => by simp [split]
  | c :: cs, h => by
    have hc : (c == slash) = false := by
      simp only [beq_eq_false_iff_ne]; intro e; exact h (by simp [e])
    have ih := split_noslash cs (fun hm => h (List.mem_cons_of_mem _ hm))
    unfold split
    simp [hc, ih]

theorem split_append (a b : Str) : split (a ++ slash :: b) = split a ++ split b := by
  induction a with
  | nil => simp [split]
  | cons c a ih =>
    rw [List.cons_append]
    by_cases hc : (c == slash) = true
    · rw [split, split]; simp [hc, ih]
    · have hc' : (c == slash) = false := by simpa using hc
      rw [split, split]
      simp only [hc', Bool.false_eq_true, if_false, ih]
      cases hs : split a with
      | nil => exact absurd hs (split_ne_nil a)
      | cons h t => simp

theorem split_mem_noslash : ∀ (p : Str) (s : Str), s ∈ split p → slash ∉ s
  | [], s, hs => by simp [split] at hs; simp [hs]
  | c :: cs, s, hs => by
    unfold split at hs
    by_cases hc : (c == slash) = true
    · simp only [hc, if_true, List.mem_cons] at hs
      rcases hs with h | h
      · simp [h]
      · exact split_mem_noslash cs s h
    · have hc' : (c == slash) = false := by simpa using hc
      simp only [hc', Bool.false_eq_true, if_false] at hs
      cases hsp : split cs with
      | nil => exact absurd hsp (split_ne_nil cs)
      | cons h t =>
        rw [hsp] at hs
        simp only [List.mem_cons] at hs
        rcases hs with e | e
        · subst e
          have hh := split_mem_noslash cs h (by rw [hsp]; simp)
          intro hm
          simp only [List.mem_cons] at hm
          rcases hm with e | e
          · rw [← e] at hc'; simp at hc'
          · exact hh e
        · exact split_mem_noslash cs s (by rw [hsp]; simp [e])

theorem split_join : ∀ (segs : List Str), (∀ s ∈ segs, slash ∉ s) → segs ≠ [] → split (join segs) = segs
  | [], _, hne => absurd rfl hne
  | [x], h, _ => by
    simp only [join]
    exact split_noslash x (h x (by simp))
  | x :: y :: t, h, _ => by
    simp only [join]
    rw [split_append, split_noslash x (h x (by simp)),
      split_join (y :: t) (fun s hs => h s (List.mem_cons_of_mem _ hs)) (by simp)]
    rfl

theorem cleanStep_push (st : List Str) (s : Str) (h : Normal s) : cleanStep true st s = s :: st := by
  obtain ⟨h1, h2, h3, _⟩ := h
  unfold cleanStep
  simp [h1, h2, h3]

theorem cleanStep_inv (st : List Str) (s : Str) (hst : ∀ x ∈ st, Normal x) (hs : slash ∉ s) :
    ∀ x ∈ cleanStep true st s, Normal x := by
  unfold cleanStep
  by_cases h1 : (s == [] || s == dot) = true
  · simp only [h1, if_true]; exact hst
  · simp only [h1, Bool.false_eq_true, if_false]
    by_cases h2 : (s == dotdot) = true
    · simp only [h2, if_true]
      cases st with
      | nil => simp
      | cons top rest =>
        have htop := hst top (by simp)
        have : (top == dotdot) = false := by
          simp only [beq_eq_false_iff_ne]; exact htop.2.2.1
        simp only [this, Bool.false_eq_true, if_false]
        intro x hx; exact hst x (List.mem_cons_of_mem _ hx)
    · simp only [h2, Bool.false_eq_true, if_false]
      intro x hx
      simp only [List.mem_cons] at hx
      rcases hx with e | e
      · subst e
        simp only [Bool.or_eq_true, beq_iff_eq, not_or] at h1
        simp only [beq_iff_eq] at h2
        exact ⟨h1.1, h1.2, h2, hs⟩
      · exact hst x e

theorem foldl_inv (segs : List Str) (st : List Str) (hst : ∀ x ∈ st, Normal x) (hs : ∀ s ∈ segs, slash ∉ s) :
    ∀ x ∈ segs.foldl (cleanStep true) st, Normal x := by
  induction segs generalizing st with
  | nil => simpa using hst
  | cons s rest ih =>
    simp only [List.foldl_cons]
    exact ih _ (cleanStep_inv st s hst (hs s (by simp))) (fun s' h' => hs s' (List.mem_cons_of_mem _ h'))

theorem cleanSegs_normal (segs : List Str) (hs : ∀ s ∈ segs, slash ∉ s) :
    ∀ x ∈ cleanSegs true segs, Normal x := by
  unfold cleanSegs
  intro x hx
  rw [List.mem_reverse] at hx
  exact foldl_inv segs [] (by simp) hs x hx

theorem foldl_push (B : List Str) (st : List Str) (h : ∀ s ∈ B, Normal s) :
    B.foldl (cleanStep true) st = B.reverse ++ st := by
  induction B generalizing st with
  | nil => simp
  | cons s rest ih =>
    simp only [List.foldl_cons, List.reverse_cons, List.append_assoc, List.singleton_append]
    rw [cleanStep_push st s (h s (by simp))]
    exact ih _ (fun s' h' => h s' (List.mem_cons_of_mem _ h'))

theorem cleanSegs_append_normal (A B : List Str) (h : ∀ s ∈ B, Normal s) :
    cleanSegs true (A ++ B) = cleanSegs true A ++ B := by
  unfold cleanSegs
  rw [List.foldl_append, foldl_push B _ h]
  simp

theorem cleanSegs_append_empty (A : List Str) : cleanSegs true (A ++ [[]]) = cleanSegs true A := by
  unfold cleanSegs
  rw [List.foldl_append]
  simp [cleanStep]

theorem normal_noslash {segs : List Str} (h : ∀ s ∈ segs, Normal s) : ∀ s ∈ segs, slash ∉ s :=
  fun s hs => (h s hs).2.2.2

/-- `filepath.Join(dir, p)` for a clean relative `p` without `..`: the elements of `dir` followed by those of `p` -/
theorem joinSegs_normal (dir : Str) (segs : List Str) (h : ∀ s ∈ segs, Normal s) :
    joinSegs dir (join segs) = cleanSegs true (split dir) ++ segs := by
  unfold joinSegs
  rw [split_append]
  by_cases hne : segs = []
  · subst hne
    simp only [join, split, List.append_nil]
    exact cleanSegs_append_empty _
  · rw [split_join segs (normal_noslash h) hne]
    exact cleanSegs_append_normal _ _ h

theorem relSegs_normal (name : Str) : ∀ s ∈ relSegs name, Normal s :=
  cleanSegs_normal _ (split_mem_noslash _)

end BfeVerif.C50
