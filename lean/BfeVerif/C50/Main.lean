import BfeVerif.C50.Driver
def main : IO Unit := BfeVerif.Proto.driverMain BfeVerif.C50.run
