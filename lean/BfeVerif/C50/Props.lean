import BfeVerif.C50.Proofs
/-!
  C50 — static file serving stays inside the document root.
  Property theorems only (helper lemmas are in `Proofs.lean`).
-/
namespace BfeVerif.C50

/-- **path.Clean of a rooted path**: every element that survives is an ordinary name — not empty, not `.`,
    not `..`, no separator — whatever the input bytes are. -/
theorem C50_clean_rooted_normal (name : Str) : ∀ s ∈ relSegs name, Normal s :=
  relSegs_normal name

/-- **C50_under_root** (lexical containment): for every request path, if `http.Dir(root).Open` gets as far
    as `os.Open`, the path it opens is the (cleaned) document root followed by ordinary elements only:
    `root ++ "/" ++ seg₁ ++ "/" ++ … ` with no `..`, `.`, empty element or separator inside an element. -/
theorem C50_under_root (cfg : Cfg) (fname : Str) (full : List Str) (h : openSegs cfg fname = some full) :
    ∃ segs, full = rootSegs cfg ++ segs ∧ ∀ s ∈ segs, Normal s :=
  openSegs_under_root cfg fname full h

/-- the same for the existence probe of the `.gz` / `.br` variants (after the C50 fix): every file-system
    access of the handler stays below the document root. -/
theorem C50_probe_under_root (cfg : Cfg) (fname : Str) :
    ∃ segs, probeSegs cfg fname = rootSegs cfg ++ segs ∧ ∀ s ∈ segs, Normal s :=
  ⟨relSegs fname, by unfold probeSegs; rw [joinSegs_normal _ _ (relSegs_normal fname)]; rfl, relSegs_normal fname⟩

/-- **C50_served_under_root**: a 200 response carries exactly the bytes of a regular file located below the
    document root (none for HEAD), and Content-Length is that file's size. -/
theorem C50_served_under_root (cfg : Cfg) (method path : Str) (encs : List Enc) (df : Str)
    (h : (serve cfg method path encs df).status = 200) :
    ∃ segs c, (∀ s ∈ segs, Normal s) ∧ resolve cfg.tree cfg.sb (rootSegs cfg ++ segs) = Res.file c ∧
      (serve cfg method path encs df).clen = some c.length ∧
      (serve cfg method path encs df).body = (if method = sHEAD then [] else c) := by
  unfold serve at h ⊢
  split at h
  · simp at h
  · rename_i hm
    simp only [hm, Bool.false_eq_true, if_false]
    cases ho : openStaticFile cfg path encs df with
    | error e =>
      rw [ho] at h
      cases e <;> simp [errorStatus] at h
    | ok r =>
      obtain ⟨c, enc⟩ := r
      have : ∃ f, newStaticFile cfg f encs = .ok (c, enc) := by
        unfold openStaticFile at ho
        split at ho
        · rename_i r hr; exact ⟨path, by rw [hr, ← ho]⟩
        · split at ho
          · exact ⟨df, ho⟩
          · cases ho
      obtain ⟨f, hf⟩ := this
      obtain ⟨segs, hn, hres⟩ := newStaticFile_ok cfg f encs c enc hf
      refine ⟨segs, c, hn, hres, rfl, ?_⟩
      by_cases hh : method = sHEAD
      · simp [hh]
      · simp [hh]

/-- **C50_methods**: only GET and HEAD are served; every other method gets a bare 405. -/
theorem C50_methods (cfg : Cfg) (method path : Str) (encs : List Enc) (df : Str) :
    (method ≠ sGET ∧ method ≠ sHEAD → serve cfg method path encs df = { status := 405 }) ∧
    ((serve cfg method path encs df).status = 200 → method = sGET ∨ method = sHEAD) := by
  constructor
  · intro ⟨h1, h2⟩
    unfold serve
    simp [h1, h2]
  · intro h
    unfold serve at h
    split at h
    · simp at h
    · rename_i hm
      simp only [bne_iff_ne, ne_eq, Bool.and_eq_true, not_and, Decidable.not_not] at hm
      by_cases hg : method = sGET
      · exact Or.inl hg
      · exact Or.inr (hm hg)

/-- **C50_404**: when neither the requested file, nor an accepted encoded variant of it, nor the default
    file (or its variants) exists below the root, and the names are acceptable to `http.Dir`, a GET/HEAD
    is answered 404 with no body. -/
theorem C50_404 (cfg : Cfg) (method path : Str) (encs : List Enc) (df : Str)
    (hm : method = sGET ∨ method = sHEAD)
    (h : ∀ n ∈ candidateNames path encs df, atRoot cfg n = Res.notExist ∧ (dirOpenRel n).isSome = true) :
    serve cfg method path encs df = { status := 404 } := by
  have hp : newStaticFile cfg path encs = .error Err.notExist := by
    apply newStaticFile_missing
    intro n hn
    apply h
    unfold candidateNames
    simp at hn
    by_cases hd : df = []
    · simp [hd]; exact hn
    · simp [hd]
      rcases hn with h' | h'
      · exact Or.inl h'
      · exact Or.inr (Or.inl h')
  have hopen : openStaticFile cfg path encs df = .error Err.notExist := by
    unfold openStaticFile
    rw [hp]
    by_cases hd : df = []
    · simp [hd]
    · have hdf : newStaticFile cfg df encs = .error Err.notExist := by
        apply newStaticFile_missing
        intro n hn
        apply h
        unfold candidateNames
        simp at hn
        simp [hd]
        rcases hn with h' | h'
        · exact Or.inr (Or.inr (Or.inl h'))
        · exact Or.inr (Or.inr (Or.inr h'))
      simp [hd, hdf]
  unfold serve
  have : (method != sGET && method != sHEAD) = false := by
    rcases hm with e | e <;> simp [e]
  simp [this, hopen, errorStatus]

/-! Non-vacuity and the classic traversal attempts -/
-- "/../../secret.txt" resolves to <root>/secret.txt
example : relSegs [0x2f, 0x2e, 0x2e, 0x2f, 0x2e, 0x2e, 0x2f, 0x73] = [[0x73]] := by decide
-- "a/./b//../c/" -> a/c
example : clean [0x61, 0x2f, 0x2e, 0x2f, 0x62, 0x2f, 0x2f, 0x2e, 0x2e, 0x2f, 0x63, 0x2f] = [0x61, 0x2f, 0x63] := by decide
-- "../../x" (unrooted) keeps the leading dot-dots; "/../x" (rooted) does not
example : clean [0x2e, 0x2e, 0x2f, 0x2e, 0x2e, 0x2f, 0x78] = [0x2e, 0x2e, 0x2f, 0x2e, 0x2e, 0x2f, 0x78] := by decide
example : clean [0x2f, 0x2e, 0x2e, 0x2f, 0x78] = [0x2f, 0x78] := by decide
example : Normal [0x61] := by unfold Normal; decide

def exCfg : Cfg :=
  { tree := [{ path := [[0x72], [0x61]], node := Node.file [1, 2, 3] }, { path := [[0x73]], node := Node.file [9] }],
    sb := [[0x53]], root := [0x2f, 0x53, 0x2f, 0x72] }   -- sandbox /S, root /S/r holding a; /S/s is outside
-- GET /x/../a is served from the root
example : serve exCfg sGET [0x2f, 0x78, 0x2f, 0x2e, 0x2e, 0x2f, 0x61] [] [] =
    { status := 200, clen := some 3, body := [1, 2, 3] } := by decide
-- GET /../s stays inside: /S/r/s does not exist, so 404 (the hypotheses of C50_404 hold)
example : ∀ n ∈ candidateNames [0x2f, 0x2e, 0x2e, 0x2f, 0x73] [] [],
    atRoot exCfg n = Res.notExist ∧ (dirOpenRel n).isSome = true := by decide
example : serve exCfg sGET [0x2f, 0x2e, 0x2e, 0x2f, 0x73] [] [] = { status := 404 } := by decide
example : validUtf8 [0xc3, 0xa9] = true ∧ validUtf8 [0xff] = false ∧ validUtf8 [0xed, 0xa0, 0x80] = false := by decide

/-! ### non-interference -/

/-- **C50_outside_root_irrelevant** (non-interference): two file trees that agree on the way to the document
    root and everywhere below it — and differ arbitrarily elsewhere: sentinel files, `.gz` twins next to the
    root, sibling directories — give every request the same status, Content-Encoding, Content-Length and
    body.  (After the C50 fix; the unrooted variant probe of the unfixed code violated this.) -/
theorem C50_outside_root_irrelevant (c1 c2 : Cfg) (h : AgreeBelowRoot c1 c2)
    (method path : Str) (encs : List Enc) (df : Str) :
    serve c1 method path encs df = serve c2 method path encs df := by
  unfold serve openStaticFile
  rw [newStaticFile_congr c1 c2 h path encs, newStaticFile_congr c1 c2 h df encs]

/-- a syntactic way to obtain `AgreeBelowRoot`: adding any entry whose place is neither on the way to the
    root nor below it (a file outside the root) to a tree in which the root directory exists -/
theorem C50_agree_add_outside (cfg : Cfg) (e : Entry) (rootRel : List Str)
    (hroot : rootSegs cfg = cfg.sb ++ rootRel)
    (hexists : ∃ e0 ∈ cfg.tree, rootRel <+: e0.path)
    (hout : ¬ (e.path <+: rootRel) ∧ ¬ (rootRel <+: e.path))
    (hnolink : ∀ e0 ∈ cfg.tree, ∀ t, e0.node ≠ Node.link t) :
    AgreeBelowRoot cfg { cfg with tree := cfg.tree ++ [e] } := by
  refine ⟨rfl, rfl, ?_⟩
  intro p hp
  refine ⟨?_, nodeAt_notLink cfg.tree hnolink p⟩
  rw [hroot] at hp
  have hp' : p <+: rootRel ∨ rootRel <+: p := by
    rcases hp with h | h
    · exact Or.inl ((List.prefix_append_right_inj _).mp h)
    · exact Or.inr ((List.prefix_append_right_inj _).mp h)
  have hne : (e.path == p) = false := by
    simp only [beq_eq_false_iff_ne]
    intro heq
    rcases hp' with h | h
    · exact hout.1 (heq ▸ h)
    · exact hout.2 (heq ▸ h)
  unfold nodeAt
  simp only [List.find?_append, List.find?_cons, hne, List.find?_nil, Option.or_none]
  cases hf : List.find? (fun e => e.path == p) cfg.tree with
  | some x => rfl
  | none =>
    simp only [List.any_append, List.any_cons, List.any_nil, Bool.or_false]
    rcases hp' with h | h
    · -- p is an ancestor of (or is) the root, which exists: a directory in both trees
      obtain ⟨e0, he0, hpre⟩ := hexists
      have : cfg.tree.any (fun e => p.isPrefixOf e.path) = true :=
        List.any_eq_true.mpr ⟨e0, he0, List.isPrefixOf_iff_prefix.mpr (List.IsPrefix.trans h hpre)⟩
      simp [this]
    · have : p.isPrefixOf e.path = false := by
        cases hx : p.isPrefixOf e.path with
        | false => rfl
        | true => exact absurd (List.IsPrefix.trans h (List.isPrefixOf_iff_prefix.mp hx)) hout.2
      simp [this]

-- the sentinel /S/s of `exCfg` is such an entry: the tree with and without it serve identically
example : AgreeBelowRoot { exCfg with tree := [{ path := [[0x72], [0x61]], node := Node.file [1, 2, 3] }] } exCfg :=
  C50_agree_add_outside { exCfg with tree := [{ path := [[0x72], [0x61]], node := Node.file [1, 2, 3] }] }
    { path := [[0x73]], node := Node.file [9] } [[0x72]] (by decide) ⟨_, List.mem_singleton.mpr rfl, by decide⟩
    ⟨by decide, by decide⟩ (by intro e0 he t; simp at he; subst he; simp)

/-! ### the 500 answers -/

/-- **C50_500_cause**: a 500 answer has exactly three possible causes, each tied to a name the request may
    be answered from: `http.Dir` rejects the name (NUL, invalid UTF-8), the name is a directory, or an
    element is longer than NAME_MAX. -/
theorem C50_500_cause (cfg : Cfg) (method path : Str) (encs : List Enc) (df : Str)
    (h : (serve cfg method path encs df).status = 500) :
    ∃ n ∈ candidateNames path encs df,
      dirOpenRel n = none ∨ atRoot cfg n = Res.dir ∨ atRoot cfg n = Res.tooLong := by
  unfold serve at h
  split at h
  · simp at h
  · cases ho : openStaticFile cfg path encs df with
    | ok r => rw [ho] at h; simp at h
    | error e =>
      rw [ho] at h
      have hne : e ≠ Err.notExist := by intro he; subst he; simp [errorStatus] at h
      unfold openStaticFile at ho
      cases hp : newStaticFile cfg path encs with
      | ok r => rw [hp] at ho; cases ho
      | error e1 =>
        rw [hp] at ho
        simp only [] at ho
        by_cases hfb : ((e1 == Err.notExist || e1 == Err.isDir) && df != []) = true
        · rw [if_pos hfb] at ho
          obtain ⟨n, hn, hc⟩ := newStaticFile_err cfg df encs e ho hne
          refine ⟨n, ?_, hc⟩
          have hd : df ≠ [] := by simp at hfb; exact hfb.2
          unfold candidateNames
          simp at hn
          simp [hd]
          rcases hn with h' | h'
          · exact Or.inr (Or.inr (Or.inl h'))
          · exact Or.inr (Or.inr (Or.inr h'))
        · rw [if_neg hfb] at ho
          simp only [Except.error.injEq] at ho
          subst ho
          obtain ⟨n, hn, hc⟩ := newStaticFile_err cfg path encs e1 hp hne
          refine ⟨n, ?_, hc⟩
          unfold candidateNames
          simp at hn
          by_cases hd : df = []
          · simp [hd]; exact hn
          · simp [hd]
            rcases hn with h' | h'
            · exact Or.inl h'
            · exact Or.inr (Or.inl h')

/-- The property's clause "answers missing files with 404" read literally: whenever none of the names the
    request may be answered from is a regular file below the root, a GET/HEAD gets 404. -/
def C50_missing_404_full : Prop :=
  ∀ (cfg : Cfg) (method path : Str) (encs : List Enc) (df : Str), (method = sGET ∨ method = sHEAD) →
    (∀ n ∈ candidateNames path encs df, (atRoot cfg n).isFile = false) →
    (serve cfg method path encs df).status = 404

def exCfgDir : Cfg :=
  { tree := [{ path := [[0x72], [0x64]], node := Node.dir }], sb := [[0x53]], root := [0x2f, 0x53, 0x2f, 0x72] }

/-- **Finding** (`directory-not-404`): a directory (here `/d`, and likewise `/` itself) requested when no
    default file is configured is answered 500 (`errUnexpectedDir` falls through `errorStatusCode`). -/
theorem C50_witness_directory_500 : ¬ C50_missing_404_full := by
  intro h
  have := h exCfgDir sGET [0x2f, 0x64] [] [] (Or.inl rfl) (by decide)
  revert this
  decide

/-- **Finding** (`bad-name-not-404`): a name `http.Dir` rejects (here `/` followed by a NUL byte) is answered 500
    although it names no file. -/
theorem C50_witness_badname_500 : (serve exCfgDir sGET [0x2f, 0x00] [] []).status = 500 ∧
    (∀ n ∈ candidateNames [0x2f, 0x00] [] [], (atRoot exCfgDir n).isFile = false) := by decide

/-- `C50_missing_404_full` holds once the three causes of `C50_500_cause` are excluded. -/
theorem C50_missing_404_partial (cfg : Cfg) (method path : Str) (encs : List Enc) (df : Str)
    (hm : method = sGET ∨ method = sHEAD)
    (hmiss : ∀ n ∈ candidateNames path encs df, (atRoot cfg n).isFile = false)
    (hok : ∀ n ∈ candidateNames path encs df,
      dirOpenRel n ≠ none ∧ atRoot cfg n ≠ Res.dir ∧ atRoot cfg n ≠ Res.tooLong) :
    (serve cfg method path encs df).status = 404 := by
  have := C50_404 cfg method path encs df hm (by
    intro n hn
    obtain ⟨h1, h2, h3⟩ := hok n hn
    refine ⟨?_, by cases hd : dirOpenRel n with | none => exact absurd hd h1 | some _ => rfl⟩
    cases hr : atRoot cfg n with
    | file c => have := hmiss n hn; rw [hr] at this; cases this
    | dir => exact absurd hr h2
    | notExist => rfl
    | tooLong => exact absurd hr h3)
  rw [this]

/-! ### hot reloads -/

/-- **C50_reload_in_force**: whatever the history of reloads (same or different version strings, products
    added / removed / moved to another root), the rules the handler sees for a product are exactly those of
    the LAST loaded configuration. -/
theorem C50_reload_in_force (cs : List SConf) (product : Str) :
    slookup (stableAfter cs) product = sInForce cs product := by
  unfold stableAfter sInForce
  have h : ∀ (t : List (Str × List SRule)), cs.foldl supdate t =
      match cs.getLast? with | some c => c.products | none => t := by
    induction cs with
    | nil => intro t; rfl
    | cons c cs ih =>
      intro t
      simp only [List.foldl_cons]
      rw [ih]
      cases cs with
      | nil => rfl
      | cons d ds =>
        cases hl : (d :: ds).getLast? with
        | none => simp at hl
        | some x => simp [List.getLast?_cons_cons, hl]
  rw [h]
  cases cs.getLast? <;> rfl

/-- **C50_reload_last_conf**: after any history of reloads the last loaded configuration alone decides the
    answer — in particular the document root in force is the configured one, never an earlier one. -/
theorem C50_reload_last_conf (tree : List Entry) (sb : List Str) (cs : List SConf) (c : SConf)
    (product method path : Str) (encs : List Enc) :
    serveH tree sb (cs ++ [c]) product method path encs = serveH tree sb [c] product method path encs := by
  unfold serveH
  rw [C50_reload_in_force, C50_reload_in_force]
  simp [sInForce]

/-! ### rule FILES and their reloads, symbolic links, Accept-Encoding -/

/-- **C50_file_reload_in_force**: for every history of rule-file (re)loads — accepted and rejected files, any
    version strings — the rules the handler sees are those of the last ACCEPTED file. -/
theorem C50_file_reload_in_force (tree : List Entry) (sb : List Str) (cs : List FConf) (product : Str) :
    slookup (ftableAfter tree sb cs) product = fInForce tree sb cs product := by
  unfold ftableAfter fInForce
  have h : ∀ (t : List (Str × List SRule)), cs.foldl (fupdate tree sb) t =
      match cs.reverse.find? (fconfOk tree sb) with | some c => c.toSConf.products | none => t := by
    induction cs with
    | nil => intro t; rfl
    | cons c cs ih =>
      intro t
      simp only [List.foldl_cons, List.reverse_cons, List.find?_append]
      rw [ih]
      cases hf : cs.reverse.find? (fconfOk tree sb) with
      | some c' => rfl
      | none =>
        simp only [Option.none_or, List.find?_cons, List.find?_nil, fupdate]
        cases hc : fconfOk tree sb c <;> simp
  rw [h]
  cases cs.reverse.find? (fconfOk tree sb) <;> rfl

/-- a rejected rule file changes nothing -/
theorem C50_file_reload_rejected_keeps (tree : List Entry) (sb : List Str) (cs : List FConf) (c : FConf)
    (hbad : fconfOk tree sb c = false) : ftableAfter tree sb (cs ++ [c]) = ftableAfter tree sb cs := by
  unfold ftableAfter
  simp [List.foldl_append, fupdate, hbad]

theorem pickVariant_enc (cfg : Cfg) (f : Str) (encs : List Enc) (e : Enc)
    (h : (pickVariant cfg f encs).2 = some e) : e ∈ encs := by
  induction encs with
  | nil => simp [pickVariant] at h
  | cons x xs ih =>
    unfold pickVariant at h
    split at h
    · simp at h; simp [h]
    · exact List.mem_cons_of_mem _ (ih h)

/-- **C50_variant_only_accepted**: a pre-compressed variant (Content-Encoding gzip / br) is only ever served
    for an encoding in the accepted list, i.e. EnableCompress is on and `HasToken(Accept-Encoding, coding)`. -/
theorem C50_variant_only_accepted (cfg : Cfg) (method path : Str) (ec : Bool) (ae : Str) (df : Str) (e : Enc)
    (h : (serve cfg method path (acceptedEncodings ec ae) df).enc = some e) :
    ec = true ∧ hasToken ae (match e with | .gzip => tokGzip | .br => tokBr) = true := by
  have hmem : e ∈ acceptedEncodings ec ae := by
    unfold serve at h
    split at h
    · simp at h
    · cases ho : openStaticFile cfg path (acceptedEncodings ec ae) df with
      | error x => rw [ho] at h; simp at h
      | ok r =>
        obtain ⟨c, en⟩ := r
        rw [ho] at h
        simp only [] at h
        subst h
        have : ∃ f, newStaticFile cfg f (acceptedEncodings ec ae) = .ok (c, some e) := by
          unfold openStaticFile at ho
          split at ho
          · rename_i r hr; exact ⟨path, by rw [hr, ← ho]⟩
          · split at ho
            · exact ⟨df, ho⟩
            · cases ho
        obtain ⟨f, hf⟩ := this
        unfold newStaticFile at hf
        simp only [] at hf
        split at hf
        · cases hf
        · split at hf
          · simp only [Except.ok.injEq, Prod.mk.injEq] at hf
            exact pickVariant_enc cfg f _ e hf.2
          · cases hf
          · cases hf
          · cases hf
  unfold acceptedEncodings at hmem
  cases ec with
  | false => simp at hmem
  | true =>
    refine ⟨rfl, ?_⟩
    simp only [if_true, List.mem_append] at hmem
    cases e with
    | gzip =>
      rcases hmem with h1 | h1
      · by_cases hg : hasToken ae tokGzip = true
        · exact hg
        · simp [hg] at h1
      · by_cases hb : hasToken ae tokBr = true <;> simp [hb] at h1
    | br =>
      rcases hmem with h1 | h1
      · by_cases hg : hasToken ae tokGzip = true <;> simp [hg] at h1
      · by_cases hb : hasToken ae tokBr = true
        · exact hb
        · simp [hb] at h1

/-- **Finding** (`variant-despite-q0`): `HasToken` does not read weights.  `Accept-Encoding: gzip ;q=0` (optional
    white space before the semicolon is legal, RFC 7231) says gzip is NOT acceptable, yet the token test
    succeeds and the `.gz` variant is served. -/
theorem C50_witness_variant_despite_q0 :
    hasToken [0x67, 0x7a, 0x69, 0x70, 0x20, 0x3b, 0x71, 0x3d, 0x30] tokGzip = true ∧
    specAccepts [0x67, 0x7a, 0x69, 0x70, 0x20, 0x3b, 0x71, 0x3d, 0x30] tokGzip = false := by decide

def exCfgLink : Cfg :=
  { tree := [{ path := [[0x72], [0x6c]], node := Node.link [[0x73]] }, { path := [[0x73]], node := Node.file [9] }],
    sb := [[0x53]], root := [0x2f, 0x53, 0x2f, 0x72] }

/-- **Finding** (`symlink-leaves-root`; the stated assumption of C50 made explicit): containment is lexical.
    A symbolic link below the root that points outside (`/S/r/l -> /S/s`) is followed, so `GET /l` is answered
    with the bytes of a file that is not below the document root. -/
theorem C50_witness_symlink_leaves_root :
    serve exCfgLink sGET [0x2f, 0x6c] [] [] = { status := 200, clen := some 1, body := [9] } ∧
    ¬ (filesUnderRoot exCfgLink).contains [9] := by decide

end BfeVerif.C50
