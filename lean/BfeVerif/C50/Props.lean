import BfeVerif.C50.Proofs
/-!
  C50 — static file serving stays inside the document root.
  Property theorems only (helper lemmas are in `Proofs.lean`).
-/
namespace BfeVerif.C50

/-- **path.Clean of a rooted path**: every element that survives is an ordinary name — not empty, not `.`,
    not `..`, no separator — whatever the input bytes are. -/
theorem C50_clean_rooted_normal (name : Str) : ∀ s ∈ relSegs name, Normal s :=
  relSegs_normal name

/-- **C50_under_root** (lexical containment): for every request path, if `http.Dir(root).Open` gets as far
    as `os.Open`, the path it opens is the (cleaned) document root followed by ordinary elements only:
    `root ++ "/" ++ seg₁ ++ "/" ++ … ` with no `..`, `.`, empty element or separator inside an element. -/
theorem C50_under_root (cfg : Cfg) (fname : Str) (full : List Str) (h : openSegs cfg fname = some full) :
    ∃ segs, full = rootSegs cfg ++ segs ∧ ∀ s ∈ segs, Normal s := by
  unfold openSegs dirOpenRel at h
  simp only [] at h
  split at h
  · simp at h
  · simp only [Option.map_some, Option.some.injEq] at h
    exact ⟨relSegs fname, by rw [← h, joinSegs_normal _ _ (relSegs_normal fname)]; rfl, relSegs_normal fname⟩

/-- the same for the existence probe of the `.gz` / `.br` variants (after the C50 fix): every file-system
    access of the handler stays below the document root. -/
theorem C50_probe_under_root (cfg : Cfg) (fname : Str) :
    ∃ segs, probeSegs cfg fname = rootSegs cfg ++ segs ∧ ∀ s ∈ segs, Normal s :=
  ⟨relSegs fname, by unfold probeSegs; rw [joinSegs_normal _ _ (relSegs_normal fname)]; rfl, relSegs_normal fname⟩

theorem newStaticFile_ok (cfg : Cfg) (fname : Str) (encs : List Enc) (c : Str) (e : Option Enc)
    (h : newStaticFile cfg fname encs = .ok (c, e)) :
    ∃ segs, (∀ s ∈ segs, Normal s) ∧ resolve cfg.tree cfg.sb (rootSegs cfg ++ segs) = Res.file c := by
  unfold newStaticFile at h
  simp only [] at h
  split at h
  · cases h
  · rename_i full hopen
    obtain ⟨segs, hfull, hn⟩ := C50_under_root cfg _ full hopen
    split at h
    · rename_i c' hres
      simp only [Except.ok.injEq, Prod.mk.injEq] at h
      exact ⟨segs, hn, by rw [← hfull, hres, h.1]⟩
    · cases h
    · cases h
    · cases h

/-- **C50_served_under_root**: a 200 response carries exactly the bytes of a regular file located below the
    document root (none for HEAD), and Content-Length is that file's size. -/
theorem C50_served_under_root (cfg : Cfg) (method path : Str) (encs : List Enc) (df : Str)
    (h : (serve cfg method path encs df).status = 200) :
    ∃ segs c, (∀ s ∈ segs, Normal s) ∧ resolve cfg.tree cfg.sb (rootSegs cfg ++ segs) = Res.file c ∧
      (serve cfg method path encs df).clen = some c.length ∧
      (serve cfg method path encs df).body = (if method = sHEAD then [] else c) := by
  unfold serve at h ⊢
  split at h
  · simp at h
  · rename_i hm
    simp only [hm, Bool.false_eq_true, if_false]
    cases ho : openStaticFile cfg path encs df with
    | error e =>
      rw [ho] at h
      cases e <;> simp [errorStatus] at h
    | ok r =>
      obtain ⟨c, enc⟩ := r
      have : ∃ f, newStaticFile cfg f encs = .ok (c, enc) := by
        unfold openStaticFile at ho
        split at ho
        · rename_i r hr; exact ⟨path, by rw [hr, ← ho]⟩
        · split at ho
          · exact ⟨df, ho⟩
          · cases ho
      obtain ⟨f, hf⟩ := this
      obtain ⟨segs, hn, hres⟩ := newStaticFile_ok cfg f encs c enc hf
      refine ⟨segs, c, hn, hres, rfl, ?_⟩
      by_cases hh : method = sHEAD
      · simp [hh]
      · simp [hh]

/-- **C50_methods**: only GET and HEAD are served; every other method gets a bare 405. -/
theorem C50_methods (cfg : Cfg) (method path : Str) (encs : List Enc) (df : Str) :
    (method ≠ sGET ∧ method ≠ sHEAD → serve cfg method path encs df = { status := 405 }) ∧
    ((serve cfg method path encs df).status = 200 → method = sGET ∨ method = sHEAD) := by
  constructor
  · intro ⟨h1, h2⟩
    unfold serve
    simp [h1, h2]
  · intro h
    unfold serve at h
    split at h
    · simp at h
    · rename_i hm
      simp only [bne_iff_ne, ne_eq, Bool.and_eq_true, not_and, Decidable.not_not] at hm
      by_cases hg : method = sGET
      · exact Or.inl hg
      · exact Or.inr (hm hg)

theorem pickVariant_mem (cfg : Cfg) (fname : Str) (encs : List Enc) :
    (pickVariant cfg fname encs).1 = fname ∨ ∃ e ∈ encs, (pickVariant cfg fname encs).1 = fname ++ e.ext := by
  induction encs with
  | nil => left; rfl
  | cons e es ih =>
    unfold pickVariant
    split
    · right; exact ⟨e, by simp, rfl⟩
    · rcases ih with h | ⟨e', he', h⟩
      · left; exact h
      · right; exact ⟨e', List.mem_cons_of_mem _ he', h⟩

theorem newStaticFile_missing (cfg : Cfg) (fname : Str) (encs : List Enc)
    (h : ∀ n ∈ fname :: encs.map (fun e => fname ++ e.ext), atRoot cfg n = Res.notExist ∧ (dirOpenRel n).isSome = true) :
    newStaticFile cfg fname encs = .error Err.notExist := by
  have hv : (pickVariant cfg fname encs).1 ∈ fname :: encs.map (fun e => fname ++ e.ext) := by
    rcases pickVariant_mem cfg fname encs with h' | ⟨e, he, h'⟩
    · rw [h']; simp
    · rw [h']; exact List.mem_cons_of_mem _ (List.mem_map.mpr ⟨e, he, rfl⟩)
  obtain ⟨h1, h2⟩ := h _ hv
  unfold newStaticFile
  simp only []
  have hopen : openSegs cfg (pickVariant cfg fname encs).1 = some (rootSegs cfg ++ relSegs (pickVariant cfg fname encs).1) := by
    unfold openSegs
    cases hd : dirOpenRel (pickVariant cfg fname encs).1 with
    | none => rw [hd] at h2; simp at h2
    | some segs =>
      have : segs = relSegs (pickVariant cfg fname encs).1 := by
        unfold dirOpenRel at hd
        simp only [] at hd
        split at hd
        · cases hd
        · exact (Option.some.inj hd).symm
      subst this
      simp only [Option.map_some]
      rw [joinSegs_normal _ _ (relSegs_normal _)]; rfl
  rw [hopen]
  unfold atRoot at h1
  simp only [h1]

/-- **C50_404**: when neither the requested file, nor an accepted encoded variant of it, nor the default
    file (or its variants) exists below the root, and the names are acceptable to `http.Dir`, a GET/HEAD
    is answered 404 with no body. -/
theorem C50_404 (cfg : Cfg) (method path : Str) (encs : List Enc) (df : Str)
    (hm : method = sGET ∨ method = sHEAD)
    (h : ∀ n ∈ candidateNames path encs df, atRoot cfg n = Res.notExist ∧ (dirOpenRel n).isSome = true) :
    serve cfg method path encs df = { status := 404 } := by
  have hp : newStaticFile cfg path encs = .error Err.notExist := by
    apply newStaticFile_missing
    intro n hn
    apply h
    unfold candidateNames
    simp at hn
    by_cases hd : df = []
    · simp [hd]; exact hn
    · simp [hd]
      rcases hn with h' | h'
      · exact Or.inl h'
      · exact Or.inr (Or.inl h')
  have hopen : openStaticFile cfg path encs df = .error Err.notExist := by
    unfold openStaticFile
    rw [hp]
    by_cases hd : df = []
    · simp [hd]
    · have hdf : newStaticFile cfg df encs = .error Err.notExist := by
        apply newStaticFile_missing
        intro n hn
        apply h
        unfold candidateNames
        simp at hn
        simp [hd]
        rcases hn with h' | h'
        · exact Or.inr (Or.inr (Or.inl h'))
        · exact Or.inr (Or.inr (Or.inr h'))
      simp [hd, hdf]
  unfold serve
  have : (method != sGET && method != sHEAD) = false := by
    rcases hm with e | e <;> simp [e]
  simp [this, hopen, errorStatus]

/-! Non-vacuity and the classic traversal attempts -/
-- "/../../secret.txt" resolves to <root>/secret.txt
example : relSegs [0x2f, 0x2e, 0x2e, 0x2f, 0x2e, 0x2e, 0x2f, 0x73] = [[0x73]] := by decide
-- "a/./b//../c/" -> a/c
example : clean [0x61, 0x2f, 0x2e, 0x2f, 0x62, 0x2f, 0x2f, 0x2e, 0x2e, 0x2f, 0x63, 0x2f] = [0x61, 0x2f, 0x63] := by decide
-- "../../x" (unrooted) keeps the leading dot-dots; "/../x" (rooted) does not
example : clean [0x2e, 0x2e, 0x2f, 0x2e, 0x2e, 0x2f, 0x78] = [0x2e, 0x2e, 0x2f, 0x2e, 0x2e, 0x2f, 0x78] := by decide
example : clean [0x2f, 0x2e, 0x2e, 0x2f, 0x78] = [0x2f, 0x78] := by decide
example : Normal [0x61] := by unfold Normal; decide

def exCfg : Cfg :=
  { tree := [{ path := [[0x72], [0x61]], node := Node.file [1, 2, 3] }, { path := [[0x73]], node := Node.file [9] }],
    sb := [[0x53]], root := [0x2f, 0x53, 0x2f, 0x72] }   -- sandbox /S, root /S/r holding a; /S/s is outside
-- GET /x/../a is served from the root
example : serve exCfg sGET [0x2f, 0x78, 0x2f, 0x2e, 0x2e, 0x2f, 0x61] [] [] =
    { status := 200, clen := some 3, body := [1, 2, 3] } := by decide
-- GET /../s stays inside: /S/r/s does not exist, so 404 (the hypotheses of C50_404 hold)
example : ∀ n ∈ candidateNames [0x2f, 0x2e, 0x2e, 0x2f, 0x73] [] [],
    atRoot exCfg n = Res.notExist ∧ (dirOpenRel n).isSome = true := by decide
example : serve exCfg sGET [0x2f, 0x2e, 0x2e, 0x2f, 0x73] [] [] = { status := 404 } := by decide
example : validUtf8 [0xc3, 0xa9] = true ∧ validUtf8 [0xff] = false ∧ validUtf8 [0xed, 0xa0, 0x80] = false := by decide

end BfeVerif.C50
