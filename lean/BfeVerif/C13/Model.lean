/-
  C13 — model of bfe's configuration loaders (core-only).

  A loader is   JSON text --(json-iterator, NOT modelled: trusted)--> Go structs --(checks)--> ok / err / panic.
  The model starts from a generic JSON value `JVal` (what the file says), applies the *typed decoding
  rules* of json-iterator for the Go struct types of each file (`null` → nil pointer / zero value,
  wrong JSON type → decode error, unknown keys ignored, keys matched case-insensitively), which yields the
  decoded *shape* (Go pointers = `Option`), and then mirrors the Go checks line by line:

    host_rule_conf.HostTableConfCheck + HostRuleConfLoad       (hostCheck, hostLoad)
    vip_rule_conf.VipTableConfCheck + VipRuleConfLoad          (vipLoad;  net.ParseIP is a parameter)
    route_rule_conf.convert / convertBasicRule / convertAdvancedRule / BasicRouteRuleTree.Insert
                                                              (routeLoad; condition.Build is a parameter)
    cluster_conf.BfeClusterConfCheck … + bfe_cluster.BasicInit (ccLoad)
    gslb_conf.GslbConfCheck                                    (gslbLoad, int64 wrap-around of `total`)
    cluster_table_conf.ClusterTableConfCheck                   (ctLoad, after the nil-check fix)
    bfe_route.ServerDataConf.check                             (xcheck, after the ADVANCED_MODE fix)

  Every Go pointer dereference is an explicit `deref`, which yields `crash` on nil: "never panics" is
  then a theorem about the model, not a modelling decision.
  Go maps are association lists in file order (C13 results do not depend on the order except for
  configurations flagged `ambiguous`, which C14 treats).
-/
namespace BfeVerif.C13

/-! ## JSON values -/
inductive JVal where
  | null
  | bool (b : Bool)
  | int (n : Int)
  | other                       -- a non-integer number (1.5, 1e3): every typed decoder used here rejects it
  | str (s : String)
  | arr (xs : List JVal)
  | obj (kvs : List (String × JVal))
  deriving Inhabited

/-! ## Result of a loader -/
inductive Res (α : Type) where
  | ok (a : α)
  | err
  | crash
  deriving Repr, DecidableEq

namespace Res
@[inline] def bind {α β : Type} (x : Res α) (f : α → Res β) : Res β :=
  match x with
  | ok a => f a
  | err => err
  | crash => crash

def isCrash {α : Type} : Res α → Bool
  | crash => true
  | _ => false

def isOk {α : Type} : Res α → Bool
  | ok _ => true
  | _ => false
end Res

/-- Go `*p`: nil pointer dereference panics. -/
def deref {α : Type} : Option α → Res α
  | some a => .ok a
  | none => .crash

/-- `for _, x := range l { if err := f x; err != nil { return err } }` -/
def forAllM {α : Type} (f : α → Res Unit) : List α → Res Unit
  | [] => .ok ()
  | x :: xs => (f x).bind fun _ => forAllM f xs

/-- `return err` when the condition holds -/
def failIf (b : Bool) : Res Unit := if b then .err else .ok ()

/-! ## Go maps as association lists -/
def mapGet {β : Type} (m : List (String × β)) (k : String) : Option β :=
  (m.find? fun kv => kv.1 == k).map (·.2)

def mapHas {β : Type} (m : List (String × β)) (k : String) : Bool := m.any fun kv => kv.1 == k

/-- `m[k] = v` -/
def mapSet {β : Type} : List (String × β) → String → β → List (String × β)
  | [], k, v => [(k, v)]
  | (k', v') :: rest, k, v => if k' == k then (k', v) :: rest else (k', v') :: mapSet rest k v

/-! ## Typed decoding (json-iterator, `ConfigCompatibleWithStandardLibrary`) -/
-- (list based so that the kernel can evaluate them on literals)
def lowerAscii (s : String) : String := String.ofList (s.toList.map Char.toLower)
def upperAscii (s : String) : String := String.ofList (s.toList.map Char.toUpper)

/-! The decoding rules of json-iterator (`ConfigCompatibleWithStandardLibrary`) that the model relies on — each one is
  exercised by the boundary table corpus/C13/boundary.ops and the mutation stream:

   R1  `null` → nil pointer / nil slice / nil map / zero value (`""`, `0`, `false`, zero struct); an ABSENT key = `null`.
   R2  wrong JSON kind for the Go type (string↔number↔bool↔array↔object) → decode error; a number that is not an
       integer, or outside int64, for an `int` → decode error.
   R3  struct keys are matched case-insensitively; unknown keys are skipped (whatever their value).
   R4  `null` ELEMENTS: in a `[]string` → `""`; in a `[]*T` → nil pointer; in a `[]T` / `map[string]T` → zero `T`;
       in a `map[string]*T` / `map[string][]T` → nil.
   R5  DUPLICATE keys of a struct: every occurrence is decoded INTO THE SAME Go value, in file order: scalars, pointers
       to scalars and slices are overwritten (last wins, `null` resets); an object decoded into a map field or a
       struct-pointer field is MERGED into what the earlier occurrence left (`null` resets it to nil).
   R6  DUPLICATE keys of a map: each occurrence gets a fresh value; the last one wins (no merging).
   R7  a type error in a SHADOWED occurrence is still a decode error (`occ` decodes every intermediate state). -/

/-- R5: what a later occurrence does to the value an earlier occurrence of the same struct key left -/
def mergeOcc : JVal → JVal → JVal
  | .obj a, .obj b => .obj (a ++ b)
  | _, v => v

/-- struct field lookup (R1, R3, R5): the successive states of the Go value bound to the key — after the first
    occurrence, after the second, … (empty = key absent) -/
def field (kvs : List (String × JVal)) (name : String) : List JVal :=
  let occs := (kvs.filter fun kv => lowerAscii kv.1 == lowerAscii name).map (·.2)
  (occs.foldl (fun (acc : List JVal × JVal) v => let s := mergeOcc acc.2 v; (acc.1 ++ [s], s)) ([], .null)).1

/-- decode a struct field: EVERY occurrence is decoded (R7: a type error in a shadowed occurrence is still an error),
    the value after the last one is the result; an absent key decodes like `null` -/
def occ {α : Type} (d : JVal → Option α) (states : List JVal) : Option α :=
  match states with
  | [] => d .null
  | _ => (states.mapM d).bind fun l => l.getLast?

def dStr : JVal → Option String
  | .null => some ""
  | .str s => some s
  | _ => none

def int64Min : Int := -9223372036854775808
def int64Max : Int := 9223372036854775807

def dInt : JVal → Option Int
  | .null => some 0
  | .int n => if int64Min ≤ n ∧ n ≤ int64Max then some n else none
  | _ => none

def dBool : JVal → Option Bool
  | .null => some false
  | .bool b => some b
  | _ => none

def dPtr {α : Type} (d : JVal → Option α) : JVal → Option (Option α)
  | .null => some none
  | v => (d v).map some

def dList {α : Type} (d : JVal → Option α) : JVal → Option (List α)
  | .null => some []
  | .arr xs => xs.mapM d
  | _ => none

def dMap {α : Type} (d : JVal → Option α) : JVal → Option (List (String × α))
  | .null => some []
  | .obj kvs => (kvs.mapM fun kv => (d kv.2).map fun a => (kv.1, a)).map fun l =>
      l.foldl (fun m kv => mapSet m kv.1 kv.2) []          -- R6: last occurrence of a key wins
  | _ => none

def dStruct {α : Type} (f : (String → List JVal) → Option α) : JVal → Option α
  | .null => f fun _ => []
  | .obj kvs => f (field kvs)
  | _ => none

/-! ## host_rule.data -/
structure HostFile where
  version : Option String
  defaultProduct : Option String
  hosts : Option (List (String × Option (List String)))      -- host-tag => *HostnameList
  hostTags : Option (List (String × Option (List String)))   -- product  => *HostTagList

def decodeHost : JVal → Option HostFile :=
  dStruct fun g => do
    let v ← occ (dPtr dStr) (g "Version")
    let dp ← occ (dPtr dStr) (g "DefaultProduct")
    let hs ← occ (dPtr (dMap (dPtr (dList dStr)))) (g "Hosts")
    let ts ← occ (dPtr (dMap (dPtr (dList dStr)))) (g "HostTags")
    pure { version := v, defaultProduct := dp, hosts := hs, hostTags := ts }

/-- the labelled loop `HOST_TAG_CHECK`: is `tag` in some `*hostTagList` -/
def tagListed (tag : String) : List (String × Option (List String)) → Res Bool
  | [] => .ok false
  | (_, l) :: rest => (deref l).bind fun tl => if tl.contains tag then .ok true else tagListed tag rest

/-- `HostTableConfCheck` -/
def hostCheck (c : HostFile) : Res Unit :=
  match c.version, c.hosts, c.hostTags with
  | none, _, _ => .err
  | some _, none, _ => .err
  | some _, some _, none => .err
  | some _, some hosts, some hostTags =>
    (forAllM (fun (kv : String × Option (List String)) => failIf kv.2.isNone) hostTags).bind fun _ =>
    (forAllM (fun (kv : String × Option (List String)) =>
        (failIf kv.2.isNone).bind fun _ =>
        (tagListed kv.1 hostTags).bind fun found => failIf (!found)) hosts).bind fun _ =>
    match c.defaultProduct with
    | none => .ok ()
    | some dp => failIf (!mapHas hostTags dp)

structure HostConf where
  defaultProduct : String
  hostMap : List (String × String)      -- hostname => host-tag
  hostTagMap : List (String × String)   -- host-tag => product
  deriving Repr, DecidableEq

/-- inner loop of the host2HostTag conversion (`if _, dup := host2HostTag[hostName]; dup { return dup }`, after the
    repair of the empty-tag case: a host name is a duplicate when the key is PRESENT, whatever tag it maps to) -/
def addHosts (tag : String) : List String → List (String × String) → Res (List (String × String))
  | [], m => .ok m
  | h :: hs, m =>
    if mapHas m h then .err else addHosts tag hs (mapSet m h tag)

def buildHostMap : List (String × Option (List String)) → List (String × String) → Res (List (String × String))
  | [], m => .ok m
  | (tag, l) :: rest, m =>
    (deref l).bind fun hs => (addHosts tag hs m).bind fun m' => buildHostMap rest m'

def addTags (product : String) : List String → List (String × String) → List (String × String)
  | [], m => m
  | t :: ts, m => addTags product ts (mapSet m t product)

def buildTagMap : List (String × Option (List String)) → List (String × String) → Res (List (String × String))
  | [], m => .ok m
  | (product, l) :: rest, m => (deref l).bind fun ts => buildTagMap rest (addTags product ts m)

/-- `HostRuleConfLoad` after decoding -/
def hostLoad (c : HostFile) : Res HostConf :=
  (hostCheck c).bind fun _ =>
  (deref c.hosts).bind fun hosts =>
  (buildHostMap hosts []).bind fun hm =>
  (deref c.hostTags).bind fun hostTags =>
  (buildTagMap hostTags []).bind fun tm =>
  (deref c.version).bind fun _ =>
  .ok { defaultProduct := c.defaultProduct.getD "", hostMap := hm, hostTagMap := tm }

/-! ## vip_rule.data -/
structure VipFile where
  version : String
  vips : List (String × List String)

def decodeVip : JVal → Option VipFile :=
  dStruct fun g => do
    let v ← occ (dStr) (g "Version")
    let m ← occ (dMap (dList dStr)) (g "Vips")
    pure { version := v, vips := m }

/-- `net.ParseIP(s)` followed by `ip.String()`; `none` = not an IP address -/
abbrev ParseIP := String → Option String

def vipAddAll (parseIP : ParseIP) (product : String) : List String → List (String × String) → Res (List (String × String))
  | [], m => .ok m
  | v :: vs, m =>
    match parseIP v with
    | none => .err
    | some canon => vipAddAll parseIP product vs (mapSet m canon product)

def vipBuild (parseIP : ParseIP) : List (String × List String) → List (String × String) → Res (List (String × String))
  | [], m => .ok m
  | (p, l) :: rest, m => (vipAddAll parseIP p l m).bind fun m' => vipBuild parseIP rest m'

/-- `VipRuleConfLoad` after decoding: vip => product.
    (the Go code first validates all lists, then converts; one pass gives the same ok/err and the same map) -/
def vipLoad (parseIP : ParseIP) (c : VipFile) : Res (List (String × String)) :=
  if c.version == "" then .err else vipBuild parseIP c.vips []

/-! ## route_rule.data -/
structure BasicRuleFile where
  hostname : List String
  path : List String
  clusterName : Option String

structure AdvRuleFile where
  cond : Option String
  clusterName : Option String

structure RouteFile where
  version : Option String
  basic : Option (List (String × List BasicRuleFile))
  adv : Option (List (String × List AdvRuleFile))

def decodeBasicRule : JVal → Option BasicRuleFile :=
  dStruct fun g => do
    let h ← occ (dList dStr) (g "Hostname")
    let p ← occ (dList dStr) (g "Path")
    let c ← occ (dPtr dStr) (g "ClusterName")
    pure { hostname := h, path := p, clusterName := c }

def decodeAdvRule : JVal → Option AdvRuleFile :=
  dStruct fun g => do
    let c ← occ (dPtr dStr) (g "Cond")
    let n ← occ (dPtr dStr) (g "ClusterName")
    pure { cond := c, clusterName := n }

def decodeRoute : JVal → Option RouteFile :=
  dStruct fun g => do
    let v ← occ (dPtr dStr) (g "Version")
    let b ← occ (dPtr (dMap (dList decodeBasicRule))) (g "BasicRule")
    let a ← occ (dPtr (dMap (dList decodeAdvRule))) (g "ProductRule")
    pure { version := v, basic := b, adv := a }

def countStar (s : String) : Nat := (s.toList.filter (· == '*')).length

/-- `checkHostInBasicRule` (true = accepted) -/
def hostPatternOk (h : String) : Bool :=
  h != "" && countStar h ≤ 1 && (countStar h != 1 || h == "*" || h.startsWith "*.")

/-- `checkPathInBasicRule` -/
def pathPatternOk (p : String) : Bool :=
  p != "" && countStar p ≤ 1 && (countStar p != 1 || p.toList.getLast? == some '*')

/-- `string_reverse.ReverseFqdnHost` -/
def reverseFqdn (s : String) : String :=
  match s.toList.reverse with
  | '.' :: r => String.ofList r
  | r => String.ofList r

/-- key of a host pattern in `hostTrees` : (wildcard tree?, upper-cased reversed name) -/
def hostKey (h : String) : Bool × String :=
  match h.toList with
  | '*' :: r => (true, upperAscii (reverseFqdn (String.ofList r)))
  | _ => (false, upperAscii (reverseFqdn h))

/-- key of a path pattern in `pathTrees`; `none` for the empty path (rejected by `insert`) -/
def pathKey (p : String) : Option (Bool × String) :=
  match p.toList.reverse with
  | [] => none
  | '*' :: r =>
    let key := String.ofList r.reverse
    some (true, if r.head? != none && r.head? != some '/' then key ++ "/" else key)
  | _ => some (false, p)

/-- the two-level radix trees of one product, flattened: ((host key, path key), cluster) -/
abbrev RuleTree := List (((Bool × String) × (Bool × String)) × String)

def treeHas (t : RuleTree) (k : (Bool × String) × (Bool × String)) : Bool := t.any fun e => e.1 == k

def insertPaths (hk : Bool × String) (cluster : String) : List String → RuleTree → Res RuleTree
  | [], t => .ok t
  | p :: ps, t =>
    match pathKey p with
    | none => .err
    | some pk => if treeHas t (hk, pk) then .err else insertPaths hk cluster ps (t ++ [((hk, pk), cluster)])

def insertHosts (paths : List String) (cluster : String) : List String → RuleTree → Res RuleTree
  | [], t => .ok t
  | h :: hs, t =>
    if h == "" then .err
    else (insertPaths (hostKey h) cluster paths t).bind fun t' => insertHosts paths cluster hs t'

/-- `BasicRouteRuleTree.Insert` -/
def treeInsert (r : BasicRuleFile) (cluster : String) (t : RuleTree) : Res RuleTree :=
  let hosts := if r.hostname.isEmpty then ["*"] else r.hostname
  let paths := if r.path.isEmpty then ["*"] else r.path
  insertHosts paths cluster hosts t

structure BasicRule where
  hostname : List String
  path : List String
  clusterName : String
  deriving Repr, DecidableEq

/-- rules of one product in `convertBasicRule` -/
def convertBasicRules : List BasicRuleFile → RuleTree → List BasicRule → Res (RuleTree × List BasicRule)
  | [], t, acc => .ok (t, acc)
  | r :: rs, t, acc =>
    match r.clusterName with
    | none => .err
    | some cn =>
      if r.hostname.isEmpty && r.path.isEmpty then .err
      else if !(r.hostname.all hostPatternOk) then .err
      else if !(r.path.all pathPatternOk) then .err
      else (deref r.clusterName).bind fun cn' =>
        (treeInsert r cn' t).bind fun t' =>
          convertBasicRules rs t' (acc ++ [{ hostname := r.hostname, path := r.path, clusterName := cn }])

def convertBasic : List (String × List BasicRuleFile) →
    List (String × (RuleTree × List BasicRule)) → Res (List (String × (RuleTree × List BasicRule)))
  | [], acc => .ok acc
  | (p, rules) :: rest, acc =>
    (convertBasicRules rules [] []).bind fun tr => convertBasic rest (mapSet acc p tr)

/-- `condition.Build` succeeded? -/
abbrev CondOk := String → Bool

def convertAdvRules (condOk : CondOk) : List AdvRuleFile → List (String × String) → Res (List (String × String))
  | [], acc => .ok acc
  | r :: rs, acc =>
    match r.clusterName, r.cond with
    | none, _ => .err
    | some _, none => .err
    | some _, some _ =>
      (deref r.clusterName).bind fun cn => (deref r.cond).bind fun c =>
        if condOk c then convertAdvRules condOk rs (acc ++ [(c, cn)]) else .err

def convertAdv (condOk : CondOk) : List (String × List AdvRuleFile) →
    List (String × List (String × String)) → Res (List (String × List (String × String)))
  | [], acc => .ok acc
  | (p, rules) :: rest, acc =>
    (convertAdvRules condOk rules []).bind fun rs => convertAdv condOk rest (mapSet acc p rs)

structure RouteConf where
  basic : List (String × (RuleTree × List BasicRule))     -- product => (tree, rule list)
  adv : List (String × List (String × String))           -- product => [(cond, cluster)]

/-- `convert` -/
def routeLoad (condOk : CondOk) (f : RouteFile) : Res RouteConf :=
  match f.version with
  | none => .err
  | some _ =>
    if f.basic.isNone && f.adv.isNone then .err
    else
      (match f.basic with
       | none => Res.ok []
       | some _ => (deref f.basic).bind fun b => convertBasic b []).bind fun bm =>
      (match f.adv with
       | none => Res.ok []
       | some _ => (deref f.adv).bind fun a => convertAdv condOk a []).bind fun am =>
      (deref f.version).bind fun _ => .ok { basic := bm, adv := am }

/-! ## cluster_conf.data -/
structure BackendBasic where
  protocol : Option String

structure BackendCheck where
  schem : Option String
  uri : Option String
  statusCode : Option Int
  succNum : Option Int

structure HashConf where
  hashStrategy : Option Int
  hashHeader : Option String

structure GslbBasic where
  hashConf : Option HashConf
  balanceMode : Option String

structure ClusterBasic where
  timeoutReadClient : Option Int
  timeoutWriteClient : Option Int
  timeoutReadClientAgain : Option Int
  reqWriteBufferSize : Option Int
  reqFlushInterval : Option Int
  resFlushInterval : Option Int
  cancelOnClientClose : Option Bool

structure ClusterConf where
  backendConf : Option BackendBasic
  checkConf : Option BackendCheck
  gslbBasic : Option GslbBasic
  clusterBasic : Option ClusterBasic

structure ClusterFile where
  version : Option String
  config : Option (List (String × ClusterConf))

def decodeFcgi : JVal → Option Unit :=
  dStruct fun g => do
    let _ ← occ (dMap dStr) (g "EnvVars")
    let _ ← occ (dStr) (g "Root")
    pure ()

def decodeBackendBasic : JVal → Option BackendBasic :=
  dStruct fun g => do
    let p ← occ (dPtr dStr) (g "Protocol")
    let _ ← occ (dPtr dInt) (g "TimeoutConnSrv")
    let _ ← occ (dPtr dInt) (g "TimeoutResponseHeader")
    let _ ← occ (dPtr dInt) (g "MaxIdleConnsPerHost")
    let _ ← occ (dPtr dInt) (g "MaxConnsPerHost")
    let _ ← occ (dPtr dInt) (g "RetryLevel")
    let _ ← occ (dPtr dInt) (g "SlowStartTime")
    let _ ← occ (dPtr dStr) (g "OutlierDetectionHttpCode")
    let _ ← occ (dPtr decodeFcgi) (g "FCGIConf")
    pure { protocol := p }

def decodeBackendCheck : JVal → Option BackendCheck :=
  dStruct fun g => do
    let s ← occ (dPtr dStr) (g "Schem")
    let u ← occ (dPtr dStr) (g "Uri")
    let _ ← occ (dPtr dStr) (g "Host")
    let sc ← occ (dPtr dInt) (g "StatusCode")
    let _ ← occ (dPtr dInt) (g "FailNum")
    let sn ← occ (dPtr dInt) (g "SuccNum")
    let _ ← occ (dPtr dInt) (g "CheckTimeout")
    let _ ← occ (dPtr dInt) (g "CheckInterval")
    pure { schem := s, uri := u, statusCode := sc, succNum := sn }

def decodeHashConf : JVal → Option HashConf :=
  dStruct fun g => do
    let s ← occ (dPtr dInt) (g "HashStrategy")
    let h ← occ (dPtr dStr) (g "HashHeader")
    let _ ← occ (dPtr dBool) (g "SessionSticky")
    pure { hashStrategy := s, hashHeader := h }

def decodeGslbBasic : JVal → Option GslbBasic :=
  dStruct fun g => do
    let _ ← occ (dPtr dInt) (g "CrossRetry")
    let _ ← occ (dPtr dInt) (g "RetryMax")
    let h ← occ (dPtr decodeHashConf) (g "HashConf")
    let b ← occ (dPtr dStr) (g "BalanceMode")
    pure { hashConf := h, balanceMode := b }

def decodeClusterBasic : JVal → Option ClusterBasic :=
  dStruct fun g => do
    let a ← occ (dPtr dInt) (g "TimeoutReadClient")
    let b ← occ (dPtr dInt) (g "TimeoutWriteClient")
    let c ← occ (dPtr dInt) (g "TimeoutReadClientAgain")
    let d ← occ (dPtr dInt) (g "ReqWriteBufferSize")
    let e ← occ (dPtr dInt) (g "ReqFlushInterval")
    let f ← occ (dPtr dInt) (g "ResFlushInterval")
    let h ← occ (dPtr dBool) (g "CancelOnClientClose")
    pure { timeoutReadClient := a, timeoutWriteClient := b, timeoutReadClientAgain := c,
           reqWriteBufferSize := d, reqFlushInterval := e, resFlushInterval := f, cancelOnClientClose := h }

def decodeClusterConf : JVal → Option ClusterConf :=
  dStruct fun g => do
    let a ← occ (dPtr decodeBackendBasic) (g "BackendConf")
    let b ← occ (dPtr decodeBackendCheck) (g "CheckConf")
    let c ← occ (dPtr decodeGslbBasic) (g "GslbBasic")
    let d ← occ (dPtr decodeClusterBasic) (g "ClusterBasic")
    pure { backendConf := a, checkConf := b, gslbBasic := c, clusterBasic := d }

/-- `decoder.Decode(&conf)` with `conf *BfeClusterConf`: JSON `null` makes the pointer nil -/
def decodeCluster : JVal → Option (Option ClusterFile) :=
  dPtr (dStruct fun g => do
    let v ← occ (dPtr dStr) (g "Version")
    let c ← occ (dPtr (dMap decodeClusterConf)) (g "Config")
    pure { version := v, config := c })

/-- `BackendBasicCheck` (only the part that can fail; the rest fills defaults) -/
def backendBasicCheck (c : BackendBasic) : Res BackendBasic :=
  -- `if conf.Protocol == nil { conf.Protocol = &"http" }`
  let c1 : BackendBasic := { c with protocol := some (c.protocol.getD "http") }
  (deref c1.protocol).bind fun p =>
    let p := lowerAscii p
    if p == "http" || p == "tcp" || p == "ws" || p == "fcgi" || p == "h2c" then .ok { c1 with protocol := some p }
    else .err

/-- `strings.HasPrefix(u, "/")` -/
def startsSlash (u : String) : Bool := u.toList.head? == some '/'

def statusCodeOk (n : Int) : Bool := (100 ≤ n && n ≤ 599) || (0 ≤ n && n ≤ 31)

/-- `BackendCheckCheck` -/
def backendCheckCheck (c : BackendCheck) : Res BackendCheck :=
  -- `if conf.X == nil { conf.X = &default }` for Schem, Uri, StatusCode, SuccNum
  let c : BackendCheck := { schem := some (c.schem.getD "http"), uri := some (c.uri.getD "/health_check"),
                            statusCode := some (c.statusCode.getD 0), succNum := some (c.succNum.getD 1) }
  (deref c.schem).bind fun s =>
    if s != "http" && s != "tcp" then .err
    else
      (if s == "http" then
        (deref c.uri).bind fun u =>
          if !startsSlash u then .err
          else (deref c.statusCode).bind fun sc => failIf (!statusCodeOk sc)
       else .ok ()).bind fun _ =>
      (deref c.succNum).bind fun n => if n < 1 then .err else .ok c

def trimSpaces (s : String) : String :=
  String.ofList ((s.toList.dropWhile (· == ' ')).reverse.dropWhile (· == ' ')).reverse

/-- `GetCookieKey` -/
def getCookieKey (h : String) : Option String :=
  match h.toList.dropWhile (· != ':') with
  | [] => none
  | _ :: rest => some (trimSpaces (String.ofList rest))

/-- `HashConfCheck` -/
def hashConfCheck (c : HashConf) : Res HashConf :=
  let c : HashConf := { c with hashStrategy := some (c.hashStrategy.getD 1) }
  (deref c.hashStrategy).bind fun s =>
    if s != 0 && s != 1 && s != 2 && s != 3 then .err
    else if s == 0 || s == 2 then
      match c.hashHeader with
      | none => .err
      | some _ =>
        (deref c.hashHeader).bind fun h =>
          if h.length == 0 then .err
          else match getCookieKey h with
            | some k => if k.length == 0 then .err else .ok c
            | none => .ok c
    else .ok c

/-- `GslbBasicConfCheck` -/
def gslbBasicCheck (c : GslbBasic) : Res GslbBasic :=
  let c : GslbBasic := { hashConf := some (c.hashConf.getD { hashStrategy := none, hashHeader := none }),
                         balanceMode := some (c.balanceMode.getD "WRR") }
  (deref c.hashConf).bind fun h =>
  (hashConfCheck h).bind fun h' =>
  (deref c.balanceMode).bind fun b =>
    let b := upperAscii b
    if b == "WRR" || b == "WLC" then .ok { hashConf := some h', balanceMode := some b } else .err

/-- `ClusterBasicConfCheck` (defaults only) -/
def clusterBasicCheck (c : ClusterBasic) : ClusterBasic :=
  { timeoutReadClient := some (c.timeoutReadClient.getD 30000)
    timeoutWriteClient := some (c.timeoutWriteClient.getD 60000)
    timeoutReadClientAgain := some (c.timeoutReadClientAgain.getD 60000)
    reqWriteBufferSize := some (c.reqWriteBufferSize.getD 512)
    reqFlushInterval := some (c.reqFlushInterval.getD 0)
    resFlushInterval := some (c.resFlushInterval.getD (-1))
    cancelOnClientClose := some (c.cancelOnClientClose.getD false) }

def emptyClusterBasic : ClusterBasic :=
  { timeoutReadClient := none, timeoutWriteClient := none, timeoutReadClientAgain := none,
    reqWriteBufferSize := none, reqFlushInterval := none, resFlushInterval := none, cancelOnClientClose := none }

/-- `ClusterConfCheck` -/
def clusterConfCheck (c : ClusterConf) : Res ClusterConf :=
  (backendBasicCheck (c.backendConf.getD { protocol := none })).bind fun bb =>
  (backendCheckCheck (c.checkConf.getD { schem := none, uri := none, statusCode := none, succNum := none })).bind fun bc =>
  (gslbBasicCheck (c.gslbBasic.getD { hashConf := none, balanceMode := none })).bind fun gb =>
  .ok { backendConf := some bb, checkConf := some bc, gslbBasic := some gb,
        clusterBasic := some (clusterBasicCheck (c.clusterBasic.getD emptyClusterBasic)) }

/-- `ClusterToConfCheck`: checks every entry and writes the defaulted conf back -/
def clusterToConfCheck : List (String × ClusterConf) → Res (List (String × ClusterConf))
  | [] => .ok []
  | (n, c) :: rest =>
    (clusterConfCheck c).bind fun c' => (clusterToConfCheck rest).bind fun rest' => .ok ((n, c') :: rest')

/-- `bfe_cluster.BasicInit`: dereferences every ClusterBasic field -/
def basicInit (c : ClusterConf) : Res Unit :=
  (deref c.clusterBasic).bind fun b =>
  (deref b.timeoutReadClient).bind fun _ =>
  (deref b.timeoutReadClientAgain).bind fun _ =>
  (deref b.timeoutWriteClient).bind fun _ =>
  (deref b.reqWriteBufferSize).bind fun _ =>
  (deref b.reqFlushInterval).bind fun _ =>
  (deref b.resFlushInterval).bind fun _ =>
  (deref b.cancelOnClientClose).bind fun _ => .ok ()

/-- `ClusterTable.Init` = `ClusterConfLoad` + `BasicInit`; result = names of the clusters -/
def ccLoad (f : Option ClusterFile) : Res (List String) :=
  match f with
  | none => .err
  | some f =>
    match f.version, f.config with
    | none, _ => .err
    | some _, none => .err
    | some _, some _ =>
      (deref f.config).bind fun cfg =>
      (clusterToConfCheck cfg).bind fun cfg' =>
      (forAllM (fun (kv : String × ClusterConf) => basicInit kv.2) cfg').bind fun _ =>
      (deref f.version).bind fun _ => .ok (cfg'.map (·.1))

/-! ## gslb.data -/
structure GslbFile where
  clusters : Option (List (String × List (String × Int)))
  hostname : Option String
  ts : Option String

def decodeGslb : JVal → Option GslbFile :=
  dStruct fun g => do
    let c ← occ (dPtr (dMap (dMap dInt))) (g "Clusters")
    let h ← occ (dPtr dStr) (g "Hostname")
    let t ← occ (dPtr dStr) (g "Ts")
    pure { clusters := c, hostname := h, ts := t }

/-- Go `int` addition (64-bit two's complement) -/
def wrap64 (n : Int) : Int := (n + 9223372036854775808) % 18446744073709551616 - 9223372036854775808

/-- `GslbClusterConf.Check`: total of the positive weights, with Go's wrap-around -/
def gslbTotal : List (String × Int) → Int → Int
  | [], t => t
  | (_, w) :: rest, t => gslbTotal rest (if w > 0 then wrap64 (t + w) else t)

/-- `GslbConfCheck` -/
def gslbLoad (f : GslbFile) : Res Nat :=
  match f.clusters, f.hostname, f.ts with
  | none, _, _ => .err
  | some _, none, _ => .err
  | some _, some _, none => .err
  | some _, some _, some _ =>
    (deref f.clusters).bind fun cs =>
    (forAllM (fun (kv : String × List (String × Int)) => failIf (gslbTotal kv.2 0 ≤ 0)) cs).bind fun _ =>
    .ok cs.length

/-! ## cluster_table.data -/
structure Backend where
  name : Option String
  addr : Option String
  port : Option Int
  weight : Option Int

structure CtFile where
  version : Option String
  config : Option (List (String × List (String × List (Option Backend))))

def decodeBackend : JVal → Option Backend :=
  dStruct fun g => do
    let n ← occ (dPtr dStr) (g "Name")
    let a ← occ (dPtr dStr) (g "Addr")
    let p ← occ (dPtr dInt) (g "Port")
    let w ← occ (dPtr dInt) (g "Weight")
    pure { name := n, addr := a, port := p, weight := w }

def decodeCt : JVal → Option CtFile :=
  dStruct fun g => do
    let v ← occ (dPtr dStr) (g "Version")
    let c ← occ (dPtr (dMap (dMap (dList (dPtr decodeBackend))))) (g "Config")
    pure { version := v, config := c }

/-- `BackendConfCheck` (with the nil check of fix C13-nil-backend) -/
def backendConfCheck (b : Option Backend) : Res Unit :=
  match b with
  | none => .err
  | some _ =>
    (deref b).bind fun b =>
      if b.name.isNone then .err else if b.addr.isNone then .err
      else if b.port.isNone then .err else if b.weight.isNone then .err else .ok ()

/-- `SubClusterBackend.Check`: loop, returns `availBackend` -/
def subClusterLoop : List (Option Backend) → Bool → Res Bool
  | [], avail => .ok avail
  | b :: rest, avail =>
    (backendConfCheck b).bind fun _ =>
    (deref b).bind fun bb => (deref bb.weight).bind fun w =>
      subClusterLoop rest (avail || w > 0)

def subClusterCheck (l : List (Option Backend)) : Res Unit :=
  (subClusterLoop l false).bind fun avail => failIf (!avail)

/-- `ClusterTableConfCheck` -/
def ctLoad (f : CtFile) : Res Nat :=
  match f.version, f.config with
  | none, _ => .err
  | some _, none => .err
  | some _, some _ =>
    (deref f.config).bind fun cfg =>
    (forAllM (fun (kv : String × List (String × List (Option Backend))) =>
        forAllM (fun (sv : String × List (Option Backend)) => subClusterCheck sv.2) kv.2) cfg).bind fun _ =>
    .ok cfg.length

/-! ## name_conf.data (bfe_util/bns/bns_local.go) -/
structure Instance where
  host : String
  port : Int
  weight : Int

structure NameFile where
  config : List (String × List Instance)

def decodeInstance : JVal → Option Instance :=
  dStruct fun g => do
    let h ← occ (dStr) (g "Host")
    let p ← occ (dInt) (g "Port")
    let w ← occ (dInt) (g "Weight")
    pure { host := h, port := p, weight := w }

def decodeName : JVal → Option NameFile :=
  dStruct fun g => do
    let _ ← occ (dStr) (g "Version")
    let c ← occ (dMap (dList decodeInstance)) (g "Config")
    pure { config := c }

/-- `checkLocalNameConf` / `checkInstance` (the Version is not checked at all) -/
def nameLoad (f : NameFile) : Res Unit :=
  forAllM (fun (kv : String × List Instance) =>
    forAllM (fun (i : Instance) => failIf (i.host.length == 0 || i.port < 0 || i.port > 65535 || i.weight < 0)) kv.2) f.config

/-! ## session_ticket_key.data -/
structure TicketFile where
  version : String
  key : String

def decodeTicket : JVal → Option TicketFile :=
  dStruct fun g => do
    let v ← occ (dStr) (g "Version")
    let k ← occ (dStr) (g "SessionTicketKey")
    pure { version := v, key := k }

def isHexDigit (c : Char) : Bool := c.isDigit || ('a' ≤ c && c ≤ 'f') || ('A' ≤ c && c ≤ 'F')

/-- `SessionTicketKeyConfCheck`: hex.DecodeString succeeds and yields 48 bytes -/
def ticketCheck (f : TicketFile) : Res Unit :=
  failIf (f.version.length == 0 || !(f.key.toList.all isHexDigit) || f.key.length != 96)

/-- `SessionTicketKeyConfLoad`: when the file does not decode as JSON it is taken as a RAW key if it is exactly 48 bytes
    long (then Version = the current time and the key is its hex dump: always valid) -/
def ticketLoad (decoded : Option TicketFile) (fileBytes : Nat) : Res Unit :=
  match decoded with
  | some f => ticketCheck f
  | none => failIf (fileBytes != 48)

/-! ## BalTable.Init: gslb.data × cluster_table.data (bfe_balance/bal_table.go) -/

/-- `gslbInit` + `backendInit` after both files loaded: every gslb cluster must have an entry in the cluster table;
    `BalanceGslb.BackendInit` then initialises the sub-clusters THAT HAVE A BACKEND LIST and silently skips the others.
    result: (cluster, sub-cluster, weight, number of backends or none) -/
def balInit (g : GslbFile) (c : CtFile) : Res (List (String × String × Int × Option Nat)) :=
  (gslbLoad g).bind fun _ =>
  (ctLoad c).bind fun _ =>
  (deref g.clusters).bind fun cs =>
  (deref c.config).bind fun cfg =>
  (forAllM (fun (kv : String × List (String × Int)) => failIf (!mapHas cfg kv.1)) cs).bind fun _ =>
  .ok (cs.flatMap fun kv => kv.2.map fun sw =>
    (kv.1, sw.1, sw.2, ((mapGet cfg kv.1).bind fun subs => mapGet subs sw.1).map (·.length)))

/-- the cross reference one would expect: every sub-cluster that takes traffic has backends -/
def balClosed (l : List (String × String × Int × Option Nat)) : Bool :=
  l.all fun e => e.2.2.1 ≤ 0 || (match e.2.2.2 with | some n => n > 0 | none => false)

/-! ## the cross-file check `ServerDataConf.check` -/
structure ServerData where
  host : HostConf
  vip : List (String × String)
  route : RouteConf
  clusters : List String

def advancedMode : String := "ADVANCED_MODE"

/-- products that own route rules (keys of productAdvancedRouteTable and productBasicRouteTree) -/
def ServerData.routeProducts (s : ServerData) : List String := s.route.adv.map (·.1) ++ s.route.basic.map (·.1)

/-- products of the host-tag table (values of hostTagTable) -/
def ServerData.hostProducts (s : ServerData) : List String := s.host.hostTagMap.map (·.2)

def ServerData.advClusters (s : ServerData) : List String := s.route.adv.flatMap fun pr => pr.2.map (·.2)

def ServerData.basicClusters (s : ServerData) : List String :=
  s.route.basic.flatMap fun pr => pr.2.2.map (·.clusterName)

/-- `ServerDataConf.check` (after fix C13-advanced-mode: ADVANCED_MODE is skipped in the basic-rule loop) -/
def xcheck (s : ServerData) : Res Unit :=
  (forAllM (fun p => failIf (!s.hostProducts.contains p)) (s.route.adv.map (·.1))).bind fun _ =>
  (forAllM (fun p => failIf (!s.hostProducts.contains p)) (s.route.basic.map (·.1))).bind fun _ =>
  (forAllM (fun c => failIf (!s.clusters.contains c)) s.advClusters).bind fun _ =>
  forAllM (fun c => if c == advancedMode then .ok () else failIf (!s.clusters.contains c)) s.basicClusters

/-- outcome of `LoadServerDataConf`, by stage -/
inductive Outcome where
  | ok (s : ServerData)
  | errTable      -- host / vip / route file rejected
  | errCluster    -- cluster_conf rejected
  | errXref       -- ServerDataConf.check failed
  | crash

def Outcome.isCrash : Outcome → Bool
  | .crash => true
  | _ => false

/-- `LoadServerDataConf` on the four JSON values (`none` from a decoder = decode error) -/
def loadAll (parseIP : ParseIP) (condOk : CondOk) (hj vj rj cj : JVal) : Outcome :=
  match decodeHost hj with
  | none => .errTable
  | some hf =>
    match hostLoad hf with
    | .err => .errTable
    | .crash => .crash
    | .ok hc =>
      match decodeVip vj with
      | none => .errTable
      | some vf =>
        match vipLoad parseIP vf with
        | .err => .errTable
        | .crash => .crash
        | .ok vm =>
          match decodeRoute rj with
          | none => .errTable
          | some rf =>
            match routeLoad condOk rf with
            | .err => .errTable
            | .crash => .crash
            | .ok rc =>
              match decodeCluster cj with
              | none => .errCluster
              | some cf =>
                match ccLoad cf with
                | .err => .errCluster
                | .crash => .crash
                | .ok names =>
                  let s : ServerData := { host := hc, vip := vm, route := rc, clusters := names }
                  match xcheck s with
                  | .err => .errXref
                  | .crash => .crash
                  | .ok _ => .ok s

/-! ## the specification side -/

/-- **Closed**: everything a loaded configuration refers to exists. -/
structure Closed (s : ServerData) : Prop where
  routeProducts : ∀ p ∈ s.routeProducts, p ∈ s.hostProducts
  advClusters : ∀ c ∈ s.advClusters, c ∈ s.clusters
  basicClusters : ∀ c ∈ s.basicClusters, c = advancedMode ∨ c ∈ s.clusters

/-! ## "follows the documented format" — executable predicates on the decoded shapes (spec side) -/

def allSome {α : Type} (m : List (String × Option α)) : Bool := m.all fun kv => kv.2.isSome

/-- every list of a `map[string]*[]string`, concatenated (nil lists contribute nothing) -/
def allValues (m : List (String × Option (List String))) : List String := m.flatMap fun kv => kv.2.getD []

def nodupB : List String → Bool
  | [] => true
  | x :: xs => !xs.contains x && nodupB xs

/-- host_rule.data as documented: Version, Hosts, HostTags present, no null list, every host tag of `Hosts`
    listed under a product, host names pairwise distinct, DefaultProduct (if any) a product. -/
def docHost (f : HostFile) : Bool :=
  f.version.isSome &&
  match f.hosts, f.hostTags with
  | some hosts, some hostTags =>
    allSome hosts && allSome hostTags &&
    hosts.all (fun kv => (allValues hostTags).contains kv.1) &&
    nodupB (allValues hosts) &&
    (match f.defaultProduct with | none => true | some dp => mapHas hostTags dp)
  | _, _ => false

def docVip (parseIP : ParseIP) (f : VipFile) : Bool :=
  f.version != "" && f.vips.all fun kv => kv.2.all fun v => (parseIP v).isSome

/-- tree keys one basic rule inserts, in insertion order (`none` = a key `Insert` rejects) -/
def ruleKeys (r : BasicRuleFile) : List (Option ((Bool × String) × (Bool × String))) :=
  let hosts := if r.hostname.isEmpty then ["*"] else r.hostname
  let paths := if r.path.isEmpty then ["*"] else r.path
  hosts.flatMap fun h => paths.map fun p => (pathKey p).map fun pk => (hostKey h, pk)

def nodupKeys : List (Option ((Bool × String) × (Bool × String))) → Bool
  | [] => true
  | x :: xs => x.isSome && !xs.contains x && nodupKeys xs

def docBasicRule (r : BasicRuleFile) : Bool :=
  r.clusterName.isSome && !(r.hostname.isEmpty && r.path.isEmpty) &&
  r.hostname.all hostPatternOk && r.path.all pathPatternOk

def docAdvRule (condOk : CondOk) (r : AdvRuleFile) : Bool :=
  r.clusterName.isSome && (match r.cond with | some c => condOk c | none => false)

def docRoute (condOk : CondOk) (f : RouteFile) : Bool :=
  f.version.isSome && (f.basic.isSome || f.adv.isSome) &&
  (f.basic.getD []).all (fun pr => pr.2.all docBasicRule && nodupKeys (pr.2.flatMap ruleKeys)) &&
  (f.adv.getD []).all (fun pr => pr.2.all (docAdvRule condOk))

def protoOk (p : String) : Bool :=
  let p := lowerAscii p
  p == "http" || p == "tcp" || p == "ws" || p == "fcgi" || p == "h2c"

def docBackendBasic (c : BackendBasic) : Bool :=
  match c.protocol with
  | some p => protoOk p
  | none => true

def docBackendCheck (cc : BackendCheck) : Bool :=
  let s := cc.schem.getD "http"
  (s == "http" || s == "tcp") &&
  (s != "http" || (startsSlash (cc.uri.getD "/health_check") && statusCodeOk (cc.statusCode.getD 0))) &&
  decide ((cc.succNum.getD 1) ≥ 1)

def docHashConf (h : HashConf) : Bool :=
  let s := h.hashStrategy.getD 1
  (s == 0 || s == 1 || s == 2 || s == 3) &&
  (!(s == 0 || s == 2) ||
    (match h.hashHeader with
     | none => false
     | some hh => hh.length != 0 && (match getCookieKey hh with | some k => k.length != 0 | none => true)))

def docGslbBasic (g : GslbBasic) : Bool :=
  docHashConf (g.hashConf.getD { hashStrategy := none, hashHeader := none }) &&
  (let b := upperAscii (g.balanceMode.getD "WRR"); b == "WRR" || b == "WLC")

/-- one cluster of cluster_conf.data as documented (absent sections take their defaults) -/
def docClusterConf (c : ClusterConf) : Bool :=
  docBackendBasic (c.backendConf.getD { protocol := none }) &&
  docBackendCheck (c.checkConf.getD { schem := none, uri := none, statusCode := none, succNum := none }) &&
  docGslbBasic (c.gslbBasic.getD { hashConf := none, balanceMode := none })

def docCluster (f : Option ClusterFile) : Bool :=
  match f with
  | some { version := some _, config := some cfg } => cfg.all fun kv => docClusterConf kv.2
  | _ => false

def docGslb (f : GslbFile) : Bool :=
  f.hostname.isSome && f.ts.isSome &&
  match f.clusters with
  | some cs => cs.all fun kv => gslbTotal kv.2 0 > 0
  | none => false

def docBackend (b : Option Backend) : Bool :=
  match b with
  | some b => b.name.isSome && b.addr.isSome && b.port.isSome && b.weight.isSome
  | none => false

def posWeight (b : Option Backend) : Bool :=
  match b with
  | some { weight := some w, .. } => w > 0
  | _ => false

def docCt (f : CtFile) : Bool :=
  f.version.isSome &&
  match f.config with
  | some cfg => cfg.all fun kv => kv.2.all fun sv => sv.2.all docBackend && sv.2.any posWeight
  | none => false

/-- cross references closed, as a boolean (the documented relation between the four files) -/
def closedB (s : ServerData) : Bool :=
  s.routeProducts.all (fun p => s.hostProducts.contains p) &&
  s.advClusters.all (fun c => s.clusters.contains c) &&
  s.basicClusters.all (fun c => c == advancedMode || s.clusters.contains c)

end BfeVerif.C13
