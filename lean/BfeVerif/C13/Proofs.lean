import BfeVerif.C13.Model
/-! Lemmas for C13 (core Lean only). -/
namespace BfeVerif.C13

variable {α β : Type}

theorem Res.bind_ok_iff {x : Res α} {f : α → Res β} {b : β} :
    x.bind f = .ok b ↔ ∃ a, x = .ok a ∧ f a = .ok b := by
  cases x <;> simp [Res.bind]

theorem Res.bind_ok_unit {x : Res Unit} {f : Unit → Res β} {b : β} :
    x.bind f = .ok b ↔ x = .ok () ∧ f () = .ok b := by
  cases x <;> simp [Res.bind]

theorem Res.bind_ne_crash {x : Res α} {f : α → Res β} (hx : x ≠ .crash)
    (hf : ∀ a, x = .ok a → f a ≠ .crash) : x.bind f ≠ .crash := by
  cases x with
  | ok a => simpa [Res.bind] using hf a rfl
  | err => simp [Res.bind]
  | crash => exact absurd rfl hx

theorem failIf_ne_crash (b : Bool) : failIf b ≠ .crash := by
  unfold failIf; split <;> simp

theorem failIf_ok_iff {b : Bool} : failIf b = .ok () ↔ b = false := by
  unfold failIf; cases b <;> simp

theorem deref_some (a : α) : deref (some a) = .ok a := rfl

theorem deref_ne_crash {o : Option α} (h : o.isSome = true) : deref o ≠ .crash := by
  cases o with
  | none => simp at h
  | some a => simp [deref]

theorem deref_ok_iff {o : Option α} {a : α} : deref o = .ok a ↔ o = some a := by
  cases o <;> simp [deref]

theorem forAllM_ne_crash {f : α → Res Unit} :
    ∀ l : List α, (∀ x ∈ l, f x ≠ .crash) → forAllM f l ≠ .crash
  | [], _ => by simp [forAllM]
  | x :: xs, h => by
    unfold forAllM
    exact Res.bind_ne_crash (h x (by simp)) fun _ _ => forAllM_ne_crash xs fun y hy => h y (by simp [hy])

theorem forAllM_ok_iff {f : α → Res Unit} :
    ∀ l : List α, forAllM f l = .ok () ↔ ∀ x ∈ l, f x = .ok ()
  | [] => by simp [forAllM]
  | x :: xs => by
    unfold forAllM
    rw [Res.bind_ok_iff]
    simp only [List.mem_cons, forall_eq_or_imp]
    constructor
    · rintro ⟨_, h1, h2⟩; exact ⟨h1, (forAllM_ok_iff xs).mp h2⟩
    · rintro ⟨h1, h2⟩; exact ⟨(), h1, (forAllM_ok_iff xs).mpr h2⟩

/-! ### host -/
abbrev PMap := List (String × Option (List String))

theorem tagListed_ne_crash (tag : String) :
    ∀ m : PMap, (∀ kv ∈ m, kv.2.isSome = true) → tagListed tag m ≠ .crash
  | [], _ => by simp [tagListed]
  | (k, l) :: rest, h => by
    unfold tagListed
    refine Res.bind_ne_crash (deref_ne_crash (h (k, l) (by simp))) fun tl _ => ?_
    split
    · simp
    · exact tagListed_ne_crash tag rest fun kv hkv => h kv (by simp [hkv])

/-- what a successful `HostTableConfCheck` establishes -/
theorem hostCheck_ok {c : HostFile} (h : hostCheck c = .ok ()) :
    ∃ v hosts tags, c.version = some v ∧ c.hosts = some hosts ∧ c.hostTags = some tags ∧
      (∀ kv ∈ tags, kv.2.isSome = true) ∧
      (∀ kv ∈ hosts, kv.2.isSome = true ∧ tagListed kv.1 tags = .ok true) ∧
      (∀ dp, c.defaultProduct = some dp → mapHas tags dp = true) := by
  unfold hostCheck at h
  split at h
  · simp at h
  · simp at h
  · simp at h
  · rename_i v hosts tags hv hh ht
    rw [Res.bind_ok_iff] at h
    obtain ⟨_, h1, h⟩ := h
    rw [Res.bind_ok_iff] at h
    obtain ⟨_, h2, h3⟩ := h
    refine ⟨v, hosts, tags, hv, hh, ht, ?_, ?_, ?_⟩
    · intro kv hkv
      have := (forAllM_ok_iff tags).mp h1 kv hkv
      rw [failIf_ok_iff] at this
      cases hk : kv.2 <;> simp_all
    · intro kv hkv
      have := (forAllM_ok_iff hosts).mp h2 kv hkv
      rw [Res.bind_ok_iff] at this
      obtain ⟨_, ha, hb⟩ := this
      rw [Res.bind_ok_iff] at hb
      obtain ⟨found, hf, hg⟩ := hb
      rw [failIf_ok_iff] at ha hg
      refine ⟨?_, ?_⟩
      · cases hk : kv.2 <;> simp_all
      · cases found <;> simp_all
    · intro dp hdp
      rw [hdp] at h3
      simp only [failIf_ok_iff] at h3
      simpa using h3

theorem hostCheck_ne_crash (c : HostFile) : hostCheck c ≠ .crash := by
  unfold hostCheck
  split
  · simp
  · simp
  · simp
  · rename_i v hosts tags _ _ _
    refine Res.bind_ne_crash (forAllM_ne_crash _ fun _ _ => failIf_ne_crash _) fun _ h1 => ?_
    have hall : ∀ kv ∈ tags, kv.2.isSome = true := by
      intro kv hkv
      have := (forAllM_ok_iff tags).mp h1 kv hkv
      rw [failIf_ok_iff] at this
      cases hk : kv.2 <;> simp_all
    refine Res.bind_ne_crash (forAllM_ne_crash _ fun kv _ => ?_) fun _ _ => ?_
    · refine Res.bind_ne_crash (failIf_ne_crash _) fun _ _ => ?_
      exact Res.bind_ne_crash (tagListed_ne_crash _ _ hall) fun _ _ => failIf_ne_crash _
    · split
      · simp
      · exact failIf_ne_crash _

theorem addHosts_ne_crash (tag : String) :
    ∀ (hs : List String) (m : List (String × String)), addHosts tag hs m ≠ .crash
  | [], m => by simp [addHosts]
  | h :: hs, m => by
    unfold addHosts
    split
    · simp
    · exact addHosts_ne_crash tag hs _

theorem buildHostMap_ne_crash :
    ∀ (l : PMap) (m : List (String × String)), (∀ kv ∈ l, kv.2.isSome = true) → buildHostMap l m ≠ .crash
  | [], m, _ => by simp [buildHostMap]
  | (tag, hl) :: rest, m, h => by
    unfold buildHostMap
    refine Res.bind_ne_crash (deref_ne_crash (h (tag, hl) (by simp))) fun hs _ => ?_
    exact Res.bind_ne_crash (addHosts_ne_crash tag hs m) fun m' _ =>
      buildHostMap_ne_crash rest m' fun kv hkv => h kv (by simp [hkv])

theorem buildTagMap_ne_crash :
    ∀ (l : PMap) (m : List (String × String)), (∀ kv ∈ l, kv.2.isSome = true) → buildTagMap l m ≠ .crash
  | [], m, _ => by simp [buildTagMap]
  | (p, tl) :: rest, m, h => by
    unfold buildTagMap
    refine Res.bind_ne_crash (deref_ne_crash (h (p, tl) (by simp))) fun ts _ => ?_
    exact buildTagMap_ne_crash rest _ fun kv hkv => h kv (by simp [hkv])

theorem hostLoad_ne_crash (c : HostFile) : hostLoad c ≠ .crash := by
  unfold hostLoad
  refine Res.bind_ne_crash (hostCheck_ne_crash c) fun u hu => ?_
  cases u
  obtain ⟨v, hosts, tags, hv, hh, ht, htags, hhosts, _⟩ := hostCheck_ok hu
  rw [hh, ht, hv]
  simp only [deref_some, Res.bind]
  have h1 := buildHostMap_ne_crash hosts [] fun kv hkv => (hhosts kv hkv).1
  have h2 := buildTagMap_ne_crash tags [] htags
  cases hb : buildHostMap hosts [] with
  | crash => exact absurd hb h1
  | err => simp
  | ok hm =>
    cases ht : buildTagMap tags [] with
    | crash => exact absurd ht h2
    | err => simp
    | ok tm => simp

/-! ### vip -/
theorem vipAddAll_ne_crash (parseIP : ParseIP) (p : String) :
    ∀ (l : List String) (m : List (String × String)), vipAddAll parseIP p l m ≠ .crash
  | [], m => by simp [vipAddAll]
  | v :: vs, m => by
    unfold vipAddAll
    split
    · simp
    · exact vipAddAll_ne_crash parseIP p vs _

theorem vipBuild_ne_crash (parseIP : ParseIP) :
    ∀ (l : List (String × List String)) (m : List (String × String)), vipBuild parseIP l m ≠ .crash
  | [], m => by simp [vipBuild]
  | (p, l) :: rest, m => by
    unfold vipBuild
    exact Res.bind_ne_crash (vipAddAll_ne_crash parseIP p l m) fun m' _ => vipBuild_ne_crash parseIP rest m'

theorem vipLoad_ne_crash (parseIP : ParseIP) (c : VipFile) : vipLoad parseIP c ≠ .crash := by
  unfold vipLoad
  split
  · simp
  · exact vipBuild_ne_crash parseIP _ _

/-! ### route -/
theorem insertPaths_ne_crash (hk : Bool × String) (cl : String) :
    ∀ (ps : List String) (t : RuleTree), insertPaths hk cl ps t ≠ .crash
  | [], t => by simp [insertPaths]
  | p :: ps, t => by
    unfold insertPaths
    split
    · simp
    · split
      · simp
      · exact insertPaths_ne_crash hk cl ps _

theorem insertHosts_ne_crash (paths : List String) (cl : String) :
    ∀ (hs : List String) (t : RuleTree), insertHosts paths cl hs t ≠ .crash
  | [], t => by simp [insertHosts]
  | h :: hs, t => by
    unfold insertHosts
    split
    · simp
    · exact Res.bind_ne_crash (insertPaths_ne_crash _ _ _ _) fun t' _ => insertHosts_ne_crash paths cl hs t'

theorem convertBasicRules_ne_crash :
    ∀ (rs : List BasicRuleFile) (t : RuleTree) (acc : List BasicRule), convertBasicRules rs t acc ≠ .crash
  | [], t, acc => by simp [convertBasicRules]
  | r :: rs, t, acc => by
    unfold convertBasicRules
    split
    · simp
    · rename_i cn hcn
      split
      · simp
      · split
        · simp
        · split
          · simp
          · rw [hcn]
            simp only [deref_some, Res.bind]
            unfold treeInsert
            have := insertHosts_ne_crash (if r.path.isEmpty then ["*"] else r.path) cn
              (if r.hostname.isEmpty then ["*"] else r.hostname) t
            cases hi : insertHosts (if r.path.isEmpty then ["*"] else r.path) cn
              (if r.hostname.isEmpty then ["*"] else r.hostname) t with
            | crash => exact absurd hi this
            | err => simp
            | ok t' => simpa using convertBasicRules_ne_crash rs t' _

theorem convertBasic_ne_crash :
    ∀ (l : List (String × List BasicRuleFile)) (acc : List (String × (RuleTree × List BasicRule))),
      convertBasic l acc ≠ .crash
  | [], acc => by simp [convertBasic]
  | (p, rules) :: rest, acc => by
    unfold convertBasic
    exact Res.bind_ne_crash (convertBasicRules_ne_crash rules [] []) fun tr _ => convertBasic_ne_crash rest _

theorem convertAdvRules_ne_crash (condOk : CondOk) :
    ∀ (rs : List AdvRuleFile) (acc : List (String × String)), convertAdvRules condOk rs acc ≠ .crash
  | [], acc => by simp [convertAdvRules]
  | r :: rs, acc => by
    unfold convertAdvRules
    split
    · simp
    · simp
    · rename_i cn c hcn hc
      rw [hcn, hc]
      simp only [deref_some, Res.bind]
      split
      · exact convertAdvRules_ne_crash condOk rs _
      · simp

theorem convertAdv_ne_crash (condOk : CondOk) :
    ∀ (l : List (String × List AdvRuleFile)) (acc : List (String × List (String × String))),
      convertAdv condOk l acc ≠ .crash
  | [], acc => by simp [convertAdv]
  | (p, rules) :: rest, acc => by
    unfold convertAdv
    exact Res.bind_ne_crash (convertAdvRules_ne_crash condOk rules []) fun rs _ => convertAdv_ne_crash condOk rest _

theorem routeLoad_ne_crash (condOk : CondOk) (f : RouteFile) : routeLoad condOk f ≠ .crash := by
  unfold routeLoad
  split
  · simp
  · rename_i v hv
    split
    · simp
    · refine Res.bind_ne_crash ?_ fun bm _ => Res.bind_ne_crash ?_ fun am _ => ?_
      · split
        · simp
        · rename_i b hb
          rw [hb]; simp only [deref_some, Res.bind]
          exact convertBasic_ne_crash b []
      · split
        · simp
        · rename_i a ha
          rw [ha]; simp only [deref_some, Res.bind]
          exact convertAdv_ne_crash condOk a []
      · rw [hv]; simp [deref, Res.bind]

/-! ### cluster_conf -/
theorem backendBasicCheck_ne_crash (c : BackendBasic) : backendBasicCheck c ≠ .crash := by
  unfold backendBasicCheck
  cases hp : c.protocol with
  | none => simp [deref, Res.bind]; split <;> simp
  | some p => simp [deref, Res.bind, hp]; split <;> simp

theorem backendCheckCheck_ne_crash (c : BackendCheck) : backendCheckCheck c ≠ .crash := by
  unfold backendCheckCheck
  simp only [deref_some]
  refine Res.bind_ne_crash (by simp) fun s _ => ?_
  split
  · simp
  · refine Res.bind_ne_crash ?_ fun _ _ => Res.bind_ne_crash (by simp) fun n _ => ?_
    · split
      · refine Res.bind_ne_crash (by simp) fun u _ => ?_
        split
        · simp
        · exact Res.bind_ne_crash (by simp) fun _ _ => failIf_ne_crash _
      · simp
    · split <;> simp

theorem hashConfCheck_ne_crash (c : HashConf) : hashConfCheck c ≠ .crash := by
  obtain ⟨hs, hh⟩ := c
  unfold hashConfCheck
  cases hs <;> cases hh <;> simp [deref, Res.bind] <;> (repeat' split) <;> simp_all

theorem gslbBasicCheck_ne_crash (c : GslbBasic) : gslbBasicCheck c ≠ .crash := by
  obtain ⟨hc, bm⟩ := c
  unfold gslbBasicCheck
  cases hc <;> cases bm <;> simp only [Option.isNone, if_true, if_false, deref_some] <;>
    (refine Res.bind_ne_crash (by simp [deref]) fun h _ =>
      Res.bind_ne_crash (hashConfCheck_ne_crash h) fun h' _ => ?_) <;>
    simp [deref, Res.bind] <;> split <;> simp

theorem clusterConfCheck_ne_crash (c : ClusterConf) : clusterConfCheck c ≠ .crash := by
  unfold clusterConfCheck
  refine Res.bind_ne_crash (backendBasicCheck_ne_crash _) fun _ _ =>
    Res.bind_ne_crash (backendCheckCheck_ne_crash _) fun _ _ =>
    Res.bind_ne_crash (gslbBasicCheck_ne_crash _) fun _ _ => by simp

/-- after `ClusterConfCheck` every pointer `BasicInit` dereferences is set -/
theorem clusterConfCheck_basicInit {c c' : ClusterConf} (h : clusterConfCheck c = .ok c') :
    basicInit c' = .ok () := by
  unfold clusterConfCheck at h
  rw [Res.bind_ok_iff] at h; obtain ⟨_, _, h⟩ := h
  rw [Res.bind_ok_iff] at h; obtain ⟨_, _, h⟩ := h
  rw [Res.bind_ok_iff] at h; obtain ⟨_, _, h⟩ := h
  injection h with h
  subst h
  simp [basicInit, clusterBasicCheck, deref, Res.bind]

theorem clusterToConfCheck_ne_crash :
    ∀ l : List (String × ClusterConf), clusterToConfCheck l ≠ .crash
  | [] => by simp [clusterToConfCheck]
  | (n, c) :: rest => by
    unfold clusterToConfCheck
    exact Res.bind_ne_crash (clusterConfCheck_ne_crash c) fun _ _ =>
      Res.bind_ne_crash (clusterToConfCheck_ne_crash rest) fun _ _ => by simp

theorem clusterToConfCheck_basicInit :
    ∀ (l l' : List (String × ClusterConf)), clusterToConfCheck l = .ok l' → ∀ kv ∈ l', basicInit kv.2 = .ok ()
  | [], l', h => by simp [clusterToConfCheck] at h; subst h; simp
  | (n, c) :: rest, l', h => by
    unfold clusterToConfCheck at h
    rw [Res.bind_ok_iff] at h; obtain ⟨c', hc, h⟩ := h
    rw [Res.bind_ok_iff] at h; obtain ⟨rest', hr, h⟩ := h
    injection h with h
    subst h
    intro kv hkv
    simp only [List.mem_cons] at hkv
    rcases hkv with rfl | hkv
    · exact clusterConfCheck_basicInit hc
    · exact clusterToConfCheck_basicInit rest rest' hr kv hkv

theorem clusterToConfCheck_names :
    ∀ (l l' : List (String × ClusterConf)), clusterToConfCheck l = .ok l' → l'.map (·.1) = l.map (·.1)
  | [], l', h => by simp [clusterToConfCheck] at h; subst h; simp
  | (n, c) :: rest, l', h => by
    unfold clusterToConfCheck at h
    rw [Res.bind_ok_iff] at h; obtain ⟨c', hc, h⟩ := h
    rw [Res.bind_ok_iff] at h; obtain ⟨rest', hr, h⟩ := h
    injection h with h
    subst h
    simp [clusterToConfCheck_names rest rest' hr]

theorem ccLoad_ne_crash (f : Option ClusterFile) : ccLoad f ≠ .crash := by
  unfold ccLoad
  split
  · simp
  · rename_i f
    split
    · simp
    · simp
    · rename_i v cfg hv hc
      rw [hc, hv]
      simp only [deref_some, Res.bind]
      have h1 := clusterToConfCheck_ne_crash cfg
      cases hk : clusterToConfCheck cfg with
      | crash => exact absurd hk h1
      | err => simp
      | ok cfg' =>
        simp only []
        have h2 : forAllM (fun (kv : String × ClusterConf) => basicInit kv.2) cfg' = .ok () :=
          (forAllM_ok_iff cfg').mpr (clusterToConfCheck_basicInit cfg cfg' hk)
        rw [h2]; simp

/-! ### gslb, cluster_table -/
theorem gslbLoad_ne_crash (f : GslbFile) : gslbLoad f ≠ .crash := by
  unfold gslbLoad
  split
  · simp
  · simp
  · simp
  · rename_i cs _ _ hc _ _
    rw [hc]
    simp only [deref_some, Res.bind]
    have := forAllM_ne_crash (f := fun (kv : String × List (String × Int)) => failIf (gslbTotal kv.2 0 ≤ 0)) cs
      fun _ _ => failIf_ne_crash _
    cases hk : forAllM (fun (kv : String × List (String × Int)) => failIf (gslbTotal kv.2 0 ≤ 0)) cs with
    | crash => exact absurd hk this
    | err => simp
    | ok _ => simp

theorem backendConfCheck_ne_crash (b : Option Backend) : backendConfCheck b ≠ .crash := by
  unfold backendConfCheck
  cases b with
  | none => simp
  | some b => simp [deref, Res.bind]; (repeat' split) <;> simp

theorem backendConfCheck_ok {b : Option Backend} (h : backendConfCheck b = .ok ()) :
    ∃ bb w, b = some bb ∧ bb.weight = some w := by
  unfold backendConfCheck at h
  cases b with
  | none => simp at h
  | some b =>
    simp only [deref, Res.bind] at h
    cases hw : b.weight with
    | none => simp [hw] at h
    | some w => exact ⟨b, w, rfl, hw⟩

theorem subClusterLoop_ne_crash :
    ∀ (l : List (Option Backend)) (a : Bool), subClusterLoop l a ≠ .crash
  | [], a => by simp [subClusterLoop]
  | b :: rest, a => by
    unfold subClusterLoop
    refine Res.bind_ne_crash (backendConfCheck_ne_crash b) fun u hu => ?_
    obtain ⟨bb, w, rfl, hw⟩ := backendConfCheck_ok hu
    simp only [deref_some, Res.bind, hw]
    exact subClusterLoop_ne_crash rest _

theorem ctLoad_ne_crash (f : CtFile) : ctLoad f ≠ .crash := by
  unfold ctLoad
  split
  · simp
  · simp
  · rename_i v cfg hv hc
    rw [hc]
    simp only [deref_some, Res.bind]
    have : forAllM (fun (kv : String × List (String × List (Option Backend))) =>
        forAllM (fun (sv : String × List (Option Backend)) => subClusterCheck sv.2) kv.2) cfg ≠ .crash :=
      forAllM_ne_crash _ fun kv _ => forAllM_ne_crash _ fun sv _ => by
        unfold subClusterCheck
        exact Res.bind_ne_crash (subClusterLoop_ne_crash _ _) fun _ _ => failIf_ne_crash _
    cases hk : forAllM (fun (kv : String × List (String × List (Option Backend))) =>
        forAllM (fun (sv : String × List (Option Backend)) => subClusterCheck sv.2) kv.2) cfg with
    | crash => exact absurd hk this
    | err => simp
    | ok _ => simp

/-! ### cross check -/
theorem xcheck_ne_crash (s : ServerData) : xcheck s ≠ .crash := by
  unfold xcheck
  refine Res.bind_ne_crash (forAllM_ne_crash _ fun _ _ => failIf_ne_crash _) fun _ _ =>
    Res.bind_ne_crash (forAllM_ne_crash _ fun _ _ => failIf_ne_crash _) fun _ _ =>
    Res.bind_ne_crash (forAllM_ne_crash _ fun _ _ => failIf_ne_crash _) fun _ _ =>
    forAllM_ne_crash _ fun c _ => ?_
  split
  · simp
  · exact failIf_ne_crash _

theorem xcheck_ok_iff (s : ServerData) : xcheck s = .ok () ↔ closedB s = true := by
  unfold xcheck closedB ServerData.routeProducts
  simp only [Res.bind_ok_unit, forAllM_ok_iff, failIf_ok_iff, Bool.and_eq_true, List.all_eq_true,
    List.all_append, Bool.not_eq_false', Bool.or_eq_true, beq_iff_eq]
  constructor
  · rintro ⟨h1, h2, h3, h4⟩
    refine ⟨⟨⟨h1, h2⟩, h3⟩, fun c hc => ?_⟩
    have := h4 c hc
    by_cases hcm : c = advancedMode
    · exact Or.inl hcm
    · right; simpa [hcm, failIf_ok_iff] using this
  · rintro ⟨⟨⟨h1, h2⟩, h3⟩, h4⟩
    refine ⟨h1, h2, h3, fun c hc => ?_⟩
    by_cases hcm : c = advancedMode
    · simp [hcm]
    · rcases h4 c hc with h | h
      · exact absurd h hcm
      · simp only [hcm, if_false, failIf_ok_iff]; simpa using h

/-! ### documented host file ⇒ accepted -/
theorem nodupB_iff : ∀ l : List String, nodupB l = true ↔ l.Nodup
  | [] => by simp [nodupB]
  | x :: xs => by simp [nodupB, nodupB_iff xs]

theorem mapGet_mapSet : ∀ (m : List (String × β)) (k k' : String) (v : β),
    mapGet (mapSet m k v) k' = if k = k' then some v else mapGet m k'
  | [], k, k', v => by
    by_cases h : k = k' <;> simp [mapSet, mapGet, List.find?_cons, h]
  | (a, b) :: rest, k, k', v => by
    have ih := mapGet_mapSet rest k k' v
    unfold mapSet
    by_cases hak : a = k
    · subst hak
      by_cases h : a = k' <;> simp [mapGet, List.find?_cons, h]
    · by_cases h : a = k'
      · subst h
        have : ¬ k = a := fun e => hak e.symm
        simp [mapGet, List.find?_cons, hak, this]
      · simp only [mapGet] at ih
        simp [mapGet, List.find?_cons, hak, h, ih]

theorem tagListed_eq (tag : String) :
    ∀ m : PMap, (∀ kv ∈ m, kv.2.isSome = true) → tagListed tag m = .ok ((allValues m).contains tag)
  | [], _ => by simp [tagListed, allValues]
  | (k, l) :: rest, h => by
    have hl := h (k, l) (by simp)
    cases l with
    | none => simp at hl
    | some tl =>
      have ih := tagListed_eq tag rest fun kv hkv => h kv (by simp [hkv])
      have hav : allValues ((k, some tl) :: rest) = tl ++ allValues rest := by simp [allValues]
      unfold tagListed
      simp only [deref_some, Res.bind]
      rw [hav, ih]
      by_cases hc : tl.contains tag = true
      · simp [hc]; simp at hc; simp [hc]
      · simp [hc]; simp at hc; simp [hc]

theorem mapHas_false_of_get_none {β : Type} : ∀ (m : List (String × β)) (k : String), mapGet m k = none → mapHas m k = false
  | [], _, _ => by simp [mapHas]
  | (a, b) :: rest, k, h => by
    by_cases hak : a = k
    · simp [mapGet, List.find?_cons, hak] at h
    · have h' : mapGet rest k = none := by simpa [mapGet, List.find?_cons, hak] using h
      have := mapHas_false_of_get_none rest k h'
      simp only [mapHas] at this ⊢
      simp [hak, this]

theorem addHosts_ok (tag : String) :
    ∀ (hs : List String) (m : List (String × String)), hs.Nodup → (∀ h ∈ hs, mapGet m h = none) →
      ∃ m', addHosts tag hs m = .ok m' ∧ ∀ x, mapGet m' x = none ↔ (mapGet m x = none ∧ x ∉ hs)
  | [], m, _, _ => ⟨m, by simp [addHosts]⟩
  | h :: t, m, hnd, hfree => by
    rw [List.nodup_cons] at hnd
    have hh : mapGet m h = none := hfree h (by simp)
    have hfree' : ∀ x ∈ t, mapGet (mapSet m h tag) x = none := by
      intro x hx
      rw [mapGet_mapSet]
      have : ¬ h = x := fun e => hnd.1 (e ▸ hx)
      simp [this, hfree x (by simp [hx])]
    obtain ⟨m', hm', hiff⟩ := addHosts_ok tag t (mapSet m h tag) hnd.2 hfree'
    refine ⟨m', ?_, fun x => ?_⟩
    · unfold addHosts
      simp [mapHas_false_of_get_none m h hh, hm']
    · rw [hiff x, mapGet_mapSet]
      by_cases e : h = x
      · subst e; simp
      · have : ¬ x = h := fun e' => e e'.symm
        simp [e, this]

theorem buildHostMap_ok :
    ∀ (l : PMap) (m : List (String × String)), (∀ kv ∈ l, kv.2.isSome = true) → (allValues l).Nodup →
      (∀ h ∈ allValues l, mapGet m h = none) → ∃ m', buildHostMap l m = .ok m'
  | [], m, _, _, _ => ⟨m, by simp [buildHostMap]⟩
  | (tag, o) :: rest, m, hsome, hnd, hfree => by
    have ho := hsome (tag, o) (by simp)
    cases o with
    | none => simp at ho
    | some hs =>
      have hav : allValues ((tag, some hs) :: rest) = hs ++ allValues rest := by simp [allValues]
      rw [hav] at hnd hfree
      rw [List.nodup_append] at hnd
      obtain ⟨m1, hm1, hiff⟩ := addHosts_ok tag hs m hnd.1 fun h hh => hfree h (by simp [hh])
      have hfree' : ∀ h ∈ allValues rest, mapGet m1 h = none := by
        intro h hh
        rw [hiff h]
        exact ⟨hfree h (by simp [hh]), fun hin => hnd.2.2 h hin h hh rfl⟩
      obtain ⟨m', hm'⟩ := buildHostMap_ok rest m1 (fun kv hkv => hsome kv (by simp [hkv])) hnd.2.1 hfree'
      exact ⟨m', by unfold buildHostMap; simp [deref, Res.bind, hm1, hm']⟩

theorem buildTagMap_ok :
    ∀ (l : PMap) (m : List (String × String)), (∀ kv ∈ l, kv.2.isSome = true) → ∃ m', buildTagMap l m = .ok m'
  | [], m, _ => ⟨m, by simp [buildTagMap]⟩
  | (p, o) :: rest, m, hsome => by
    have ho := hsome (p, o) (by simp)
    cases o with
    | none => simp at ho
    | some ts =>
      obtain ⟨m', hm'⟩ := buildTagMap_ok rest (addTags p ts m) fun kv hkv => hsome kv (by simp [hkv])
      exact ⟨m', by unfold buildTagMap; simp [deref, Res.bind, hm']⟩

theorem hostLoad_of_doc {f : HostFile} (h : docHost f = true) : ∃ c, hostLoad f = .ok c := by
  unfold docHost at h
  cases hv : f.version with
  | none => simp [hv] at h
  | some v =>
    cases hh : f.hosts with
    | none => simp [hv, hh] at h
    | some hosts =>
      cases ht : f.hostTags with
      | none => simp [hv, hh, ht] at h
      | some tags =>
        simp only [hv, hh, ht, Option.isSome_some, Bool.true_and, Bool.and_eq_true, allSome, List.all_eq_true] at h
        obtain ⟨⟨⟨⟨h1, h2⟩, h3⟩, h4⟩, h5⟩ := h
        have hcheck : hostCheck f = .ok () := by
          unfold hostCheck
          simp only [hv, hh, ht]
          rw [Res.bind_ok_unit]
          refine ⟨(forAllM_ok_iff _).mpr fun kv hkv => ?_, ?_⟩
          · rw [failIf_ok_iff]; have := h2 kv hkv; cases hk : kv.2 <;> simp_all
          · rw [Res.bind_ok_unit]
            refine ⟨(forAllM_ok_iff _).mpr fun kv hkv => ?_, ?_⟩
            · rw [Res.bind_ok_unit]
              refine ⟨?_, ?_⟩
              · rw [failIf_ok_iff]; have := h1 kv hkv; cases hk : kv.2 <;> simp_all
              · rw [tagListed_eq kv.1 tags h2]
                simp only [Res.bind, failIf_ok_iff]
                simpa using h3 kv hkv
            · cases hd : f.defaultProduct with
              | none => rfl
              | some dp => simp only [failIf_ok_iff]; simpa [hd] using h5
        obtain ⟨hm, hhm⟩ := buildHostMap_ok hosts [] h1 ((nodupB_iff _).mp h4) fun _ _ => by simp [mapGet]
        obtain ⟨tm, htm⟩ := buildTagMap_ok tags [] h2
        exact ⟨{ defaultProduct := f.defaultProduct.getD "", hostMap := hm, hostTagMap := tm },
          by unfold hostLoad; simp [hcheck, hh, ht, hv, deref, Res.bind, hhm, htm]⟩

/-! ### documented gslb / cluster_table / vip files ⇒ accepted -/
theorem gslbLoad_of_doc {f : GslbFile} (h : docGslb f = true) : ∃ n, gslbLoad f = .ok n := by
  unfold docGslb at h
  cases hc : f.clusters with
  | none => simp [hc] at h
  | some cs =>
    cases hh : f.hostname with
    | none => simp [hh] at h
    | some hn =>
      cases ht : f.ts with
      | none => simp [ht] at h
      | some ts =>
        simp only [hc, hh, ht, Option.isSome_some, Bool.true_and, List.all_eq_true, decide_eq_true_eq] at h
        refine ⟨cs.length, ?_⟩
        unfold gslbLoad
        simp only [hc, hh, ht, deref_some, Res.bind]
        have : forAllM (fun (kv : String × List (String × Int)) => failIf (gslbTotal kv.2 0 ≤ 0)) cs = .ok () :=
          (forAllM_ok_iff cs).mpr fun kv hkv => by
            rw [failIf_ok_iff]; have := h kv hkv; simp; omega
        rw [this]

theorem vipAddAll_ok (parseIP : ParseIP) (p : String) :
    ∀ (l : List String) (m : List (String × String)), (∀ v ∈ l, (parseIP v).isSome = true) →
      ∃ m', vipAddAll parseIP p l m = .ok m'
  | [], m, _ => ⟨m, by simp [vipAddAll]⟩
  | v :: vs, m, h => by
    have hv := h v (by simp)
    cases hp : parseIP v with
    | none => simp [hp] at hv
    | some c =>
      obtain ⟨m', hm'⟩ := vipAddAll_ok parseIP p vs (mapSet m c p) fun x hx => h x (by simp [hx])
      exact ⟨m', by unfold vipAddAll; simp [hp, hm']⟩

theorem vipBuild_ok (parseIP : ParseIP) :
    ∀ (l : List (String × List String)) (m : List (String × String)),
      (∀ kv ∈ l, ∀ v ∈ kv.2, (parseIP v).isSome = true) → ∃ m', vipBuild parseIP l m = .ok m'
  | [], m, _ => ⟨m, by simp [vipBuild]⟩
  | (p, l) :: rest, m, h => by
    obtain ⟨m1, hm1⟩ := vipAddAll_ok parseIP p l m (h (p, l) (by simp))
    obtain ⟨m', hm'⟩ := vipBuild_ok parseIP rest m1 fun kv hkv => h kv (by simp [hkv])
    exact ⟨m', by unfold vipBuild; simp [hm1, Res.bind, hm']⟩

theorem vipLoad_of_doc (parseIP : ParseIP) {f : VipFile} (h : docVip parseIP f = true) :
    ∃ m, vipLoad parseIP f = .ok m := by
  unfold docVip at h
  simp only [Bool.and_eq_true, bne_iff_ne, ne_eq, List.all_eq_true] at h
  obtain ⟨m, hm⟩ := vipBuild_ok parseIP f.vips [] h.2
  exact ⟨m, by unfold vipLoad; simp [h.1, hm]⟩

/-! ### every host's tag has a product -/
theorem mem_mapSet {x : String × β} : ∀ (m : List (String × β)) (k : String) (v : β),
    x ∈ mapSet m k v → x.2 = v ∨ x ∈ m
  | [], k, v, h => by simp [mapSet] at h; left; rw [h]
  | (a, b) :: rest, k, v, h => by
    unfold mapSet at h
    split at h
    · simp only [List.mem_cons] at h
      rcases h with h | h
      · left; rw [h]
      · right; simp [h]
    · simp only [List.mem_cons] at h
      rcases h with h | h
      · right; simp [h]
      · rcases mem_mapSet rest k v h with h' | h'
        · exact Or.inl h'
        · right; simp [h']

theorem addHosts_values (tag : String) : ∀ (hs : List String) (m m' : List (String × String)),
    addHosts tag hs m = .ok m' → ∀ x ∈ m', x.2 = tag ∨ x ∈ m
  | [], m, m', h, x, hx => by simp [addHosts] at h; subst h; exact Or.inr hx
  | a :: hs, m, m', h, x, hx => by
    unfold addHosts at h
    split at h
    · simp at h
    · rcases addHosts_values tag hs _ m' h x hx with h1 | h1
      · exact Or.inl h1
      · exact mem_mapSet m a tag h1

theorem buildHostMap_values : ∀ (l : PMap) (m m' : List (String × String)),
    buildHostMap l m = .ok m' → ∀ x ∈ m', (∃ kv ∈ l, x.2 = kv.1) ∨ x ∈ m
  | [], m, m', h, x, hx => by simp [buildHostMap] at h; subst h; exact Or.inr hx
  | (tag, o) :: rest, m, m', h, x, hx => by
    unfold buildHostMap at h
    rw [Res.bind_ok_iff] at h; obtain ⟨hs, _, h⟩ := h
    rw [Res.bind_ok_iff] at h; obtain ⟨m1, h1, h2⟩ := h
    rcases buildHostMap_values rest m1 m' h2 x hx with ⟨kv, hkv, e⟩ | hin
    · exact Or.inl ⟨kv, by simp [hkv], e⟩
    · rcases addHosts_values tag hs m m1 h1 x hin with e | hin'
      · exact Or.inl ⟨(tag, o), by simp, e⟩
      · exact Or.inr hin'

theorem mapHas_mapSet : ∀ (m : List (String × β)) (k k' : String) (v : β),
    mapHas (mapSet m k v) k' = (k == k' || mapHas m k')
  | [], k, k', v => by simp [mapSet, mapHas]
  | (a, b) :: rest, k, k', v => by
    unfold mapSet
    by_cases hak : a = k
    · subst hak; simp [mapHas]
    · have ih := mapHas_mapSet rest k k' v
      simp only [mapHas] at ih
      simp only [beq_iff_eq, hak, if_false, mapHas, List.any_cons, ih]
      cases (a == k') <;> cases (k == k') <;> simp

theorem mapHas_addTags (p : String) : ∀ (ts : List String) (m : List (String × String)) (t : String),
    mapHas (addTags p ts m) t = (ts.contains t || mapHas m t)
  | [], m, t => by simp [addTags]
  | x :: xs, m, t => by
    unfold addTags
    rw [mapHas_addTags p xs, mapHas_mapSet]
    simp only [List.contains_cons]
    have : (t == x) = (x == t) := by
      by_cases h : t = x
      · subst h; rfl
      · have h' : ¬ x = t := fun e => h e.symm
        have a : (t == x) = false := by simpa using h
        have b : (x == t) = false := by simpa using h'
        rw [a, b]
    rw [this]
    cases (xs.contains t) <;> cases (x == t) <;> simp

theorem buildTagMap_has : ∀ (l : PMap) (m0 m : List (String × String)) (t : String),
    buildTagMap l m0 = .ok m → mapHas m t = ((allValues l).contains t || mapHas m0 t)
  | [], m0, m, t, h => by simp [buildTagMap] at h; subst h; simp [allValues]
  | (p, o) :: rest, m0, m, t, h => by
    unfold buildTagMap at h
    rw [Res.bind_ok_iff] at h; obtain ⟨ts, hts, h⟩ := h
    rw [deref_ok_iff] at hts; subst hts
    rw [buildTagMap_has rest _ m t h, mapHas_addTags]
    simp only [allValues, List.flatMap_cons, Option.getD_some, List.contains_append]
    cases (ts.contains t) <;> simp

theorem hostLoad_tags_closed {f : HostFile} {c : HostConf} (h : hostLoad f = .ok c) :
    ∀ ht ∈ c.hostMap, mapHas c.hostTagMap ht.2 = true := by
  unfold hostLoad at h
  rw [Res.bind_ok_unit] at h
  obtain ⟨hc, h⟩ := h
  obtain ⟨v, hosts, tags, hv, hh, ht, htags, hhosts, _⟩ := hostCheck_ok hc
  rw [hh, ht, hv] at h
  simp only [deref_some] at h
  rw [Res.bind_ok_iff] at h; obtain ⟨_, e1, h⟩ := h
  injection e1 with e1; subst e1
  rw [Res.bind_ok_iff] at h; obtain ⟨hm, hhm, h⟩ := h
  rw [Res.bind_ok_iff] at h; obtain ⟨_, e2, h⟩ := h
  injection e2 with e2; subst e2
  rw [Res.bind_ok_iff] at h; obtain ⟨tm, htm, h⟩ := h
  rw [Res.bind_ok_iff] at h; obtain ⟨_, _, h⟩ := h
  injection h with h; subst h
  intro x hx
  simp only at hx ⊢
  rcases buildHostMap_values hosts [] hm hhm x hx with ⟨kv, hkv, e⟩ | hin
  · rw [buildTagMap_has tags [] tm x.2 htm, e]
    have := (hhosts kv hkv).2
    rw [tagListed_eq kv.1 tags htags] at this
    injection this with this
    rw [this]; rfl
  · simp at hin

/-! ### documented cluster_table.data ⇒ accepted -/
theorem subClusterLoop_doc : ∀ (l : List (Option Backend)) (a : Bool), (∀ b ∈ l, docBackend b = true) →
    subClusterLoop l a = .ok (a || l.any posWeight)
  | [], a, _ => by simp [subClusterLoop]
  | b :: rest, a, h => by
    have hb := h b (by simp)
    cases b with
    | none => simp [docBackend] at hb
    | some bb =>
      obtain ⟨n, ad, p, w⟩ := bb
      simp only [docBackend, Bool.and_eq_true] at hb
      obtain ⟨⟨⟨hn, ha⟩, hp⟩, hw⟩ := hb
      cases n <;> cases ad <;> cases p <;> cases w <;> simp_all
      rename_i n ad p w
      unfold subClusterLoop
      simp only [backendConfCheck, deref, Res.bind, Option.isNone_some, Bool.false_eq_true, if_false]
      rw [subClusterLoop_doc rest _ h.2]
      simp [posWeight, Bool.or_assoc]

theorem ctLoad_of_doc {f : CtFile} (h : docCt f = true) : ∃ n, ctLoad f = .ok n := by
  unfold docCt at h
  cases hv : f.version with
  | none => simp [hv] at h
  | some v =>
    cases hc : f.config with
    | none => simp [hc] at h
    | some cfg =>
      simp only [hv, hc, Option.isSome_some, Bool.true_and, List.all_eq_true, Bool.and_eq_true] at h
      refine ⟨cfg.length, ?_⟩
      unfold ctLoad
      simp only [hv, hc, deref_some, Res.bind]
      have : forAllM (fun (kv : String × List (String × List (Option Backend))) =>
          forAllM (fun (sv : String × List (Option Backend)) => subClusterCheck sv.2) kv.2) cfg = .ok () := by
        refine (forAllM_ok_iff cfg).mpr fun kv hkv => (forAllM_ok_iff kv.2).mpr fun sv hsv => ?_
        obtain ⟨h1, h2⟩ := h kv hkv sv hsv
        unfold subClusterCheck
        rw [subClusterLoop_doc sv.2 false h1]
        simp only [Res.bind, Bool.false_or, failIf_ok_iff, Bool.not_eq_false']
        simpa using h2
      rw [this]

/-! ### documented route_rule.data ⇒ accepted -/
abbrev Key := (Bool × String) × (Bool × String)

/-- the keys still to be inserted are valid, pairwise distinct and not yet in the tree -/
def Free (t : RuleTree) (ks : List (Option Key)) : Prop :=
  (∀ k ∈ ks, k.isSome = true) ∧ ks.Nodup ∧ ∀ k ∈ ks, ∀ e ∈ t, k ≠ some e.1

theorem nodupKeys_iff : ∀ ks : List (Option Key), nodupKeys ks = true ↔ (∀ k ∈ ks, k.isSome = true) ∧ ks.Nodup
  | [] => by simp [nodupKeys]
  | x :: xs => by
    simp only [nodupKeys, Bool.and_eq_true, Bool.not_eq_true', List.mem_cons, forall_eq_or_imp, List.nodup_cons,
      nodupKeys_iff xs]
    constructor
    · rintro ⟨⟨h1, h2⟩, h3, h4⟩; exact ⟨⟨h1, h3⟩, by simpa using h2, h4⟩
    · rintro ⟨⟨h1, h3⟩, h2, h4⟩; exact ⟨⟨h1, by simpa using h2⟩, h3, h4⟩

theorem treeHas_false {t : RuleTree} {k : Key} (h : ∀ e ∈ t, (some k : Option Key) ≠ some e.1) : treeHas t k = false := by
  unfold treeHas
  rw [Bool.eq_false_iff]
  intro hc
  simp only [List.any_eq_true, beq_iff_eq] at hc
  obtain ⟨e, he, hk⟩ := hc
  exact h e he (by rw [hk])

theorem insertPaths_ok (hk : Bool × String) (cl : String) :
    ∀ (ps : List String) (t : RuleTree) (rest : List (Option Key)),
      Free t (ps.map (fun p => (pathKey p).map fun pk => (hk, pk)) ++ rest) →
      ∃ t', insertPaths hk cl ps t = .ok t' ∧ Free t' rest
  | [], t, rest, h => ⟨t, by simp [insertPaths], by simpa using h⟩
  | p :: ps, t, rest, h => by
    obtain ⟨h1, h2, h3⟩ := h
    simp only [List.map_cons, List.cons_append] at h1 h2 h3
    have hs := h1 ((pathKey p).map fun pk => (hk, pk)) (by simp)
    cases hp : pathKey p with
    | none => simp [hp] at hs
    | some pk =>
      rw [hp] at h1 h2 h3
      simp only [Option.map_some] at h1 h2 h3
      rw [List.nodup_cons] at h2
      have hnot : treeHas t (hk, pk) = false := treeHas_false fun e he => h3 _ (by simp) e he
      have hfree : Free (t ++ [((hk, pk), cl)]) (ps.map (fun p => (pathKey p).map fun pk => (hk, pk)) ++ rest) := by
        refine ⟨fun k hkm => h1 k (by simp [hkm]), h2.2, fun k hkm e he => ?_⟩
        simp only [List.mem_append, List.mem_singleton] at he
        rcases he with he | he
        · exact h3 k (by simp [hkm]) e he
        · subst he
          intro hc
          exact h2.1 (hc ▸ hkm)
      obtain ⟨t', ht', hf'⟩ := insertPaths_ok hk cl ps _ rest hfree
      exact ⟨t', by unfold insertPaths; simp [hp, hnot, ht'], hf'⟩

theorem insertHosts_ok (paths : List String) (cl : String) :
    ∀ (hs : List String) (t : RuleTree) (rest : List (Option Key)), (∀ h ∈ hs, h ≠ "") →
      Free t (hs.flatMap (fun h => paths.map fun p => (pathKey p).map fun pk => (hostKey h, pk)) ++ rest) →
      ∃ t', insertHosts paths cl hs t = .ok t' ∧ Free t' rest
  | [], t, rest, _, h => ⟨t, by simp [insertHosts], by simpa using h⟩
  | h :: hs, t, rest, hne, hf => by
    simp only [List.flatMap_cons, List.append_assoc] at hf
    obtain ⟨t1, ht1, hf1⟩ := insertPaths_ok (hostKey h) cl paths t _ hf
    obtain ⟨t', ht', hf'⟩ := insertHosts_ok paths cl hs t1 rest (fun x hx => hne x (by simp [hx])) hf1
    have : (h == "") = false := by simpa using hne h (by simp)
    exact ⟨t', by unfold insertHosts; simp [this, ht1, Res.bind, ht'], hf'⟩

theorem hostPatternOk_ne {h : String} (hp : hostPatternOk h = true) : h ≠ "" := by
  unfold hostPatternOk at hp
  simp only [Bool.and_eq_true, bne_iff_ne, ne_eq] at hp
  exact hp.1.1

theorem convertBasicRules_ok : ∀ (rs : List BasicRuleFile) (t : RuleTree) (acc : List BasicRule),
    (∀ r ∈ rs, docBasicRule r = true) → Free t (rs.flatMap ruleKeys) →
    ∃ res, convertBasicRules rs t acc = .ok res
  | [], t, acc, _, _ => ⟨(t, acc), by simp [convertBasicRules]⟩
  | r :: rs, t, acc, hd, hf => by
    have hr := hd r (by simp)
    unfold docBasicRule at hr
    simp only [Bool.and_eq_true, Bool.not_eq_true', List.all_eq_true] at hr
    obtain ⟨⟨⟨hcn, hne⟩, hhosts⟩, hpaths⟩ := hr
    cases hc : r.clusterName with
    | none => simp [hc] at hcn
    | some cn =>
      simp only [List.flatMap_cons] at hf
      have hne' : ∀ h ∈ (if r.hostname.isEmpty then ["*"] else r.hostname), h ≠ "" := by
        intro h hh
        split at hh
        · simp at hh; subst hh; decide
        · exact hostPatternOk_ne (hhosts h hh)
      obtain ⟨t1, ht1, hf1⟩ := insertHosts_ok (if r.path.isEmpty then ["*"] else r.path) cn
        (if r.hostname.isEmpty then ["*"] else r.hostname) t _ hne' (by simpa [ruleKeys] using hf)
      obtain ⟨res, hres⟩ := convertBasicRules_ok rs t1 (acc ++ [{ hostname := r.hostname, path := r.path, clusterName := cn }])
        (fun x hx => hd x (by simp [hx])) hf1
      refine ⟨res, ?_⟩
      unfold convertBasicRules
      have h1 : (r.hostname.all hostPatternOk) = true := by simpa [List.all_eq_true] using hhosts
      have h2 : (r.path.all pathPatternOk) = true := by simpa [List.all_eq_true] using hpaths
      simp only [hc, hne, h1, h2, Bool.false_eq_true, if_false, Bool.not_true, deref, Res.bind, treeInsert, ht1, hres]

theorem convertBasic_ok : ∀ (l : List (String × List BasicRuleFile)) (acc : List (String × (RuleTree × List BasicRule))),
    (∀ pr ∈ l, (pr.2.all docBasicRule && nodupKeys (pr.2.flatMap ruleKeys)) = true) →
    ∃ res, convertBasic l acc = .ok res
  | [], acc, _ => ⟨acc, by simp [convertBasic]⟩
  | (p, rules) :: rest, acc, h => by
    have hp := h (p, rules) (by simp)
    simp only [Bool.and_eq_true, List.all_eq_true] at hp
    have hfree : Free [] (rules.flatMap ruleKeys) := by
      obtain ⟨a, b⟩ := (nodupKeys_iff _).mp hp.2
      exact ⟨a, b, fun _ _ e he => by simp at he⟩
    obtain ⟨tr, htr⟩ := convertBasicRules_ok rules [] [] hp.1 hfree
    obtain ⟨res, hres⟩ := convertBasic_ok rest (mapSet acc p tr) fun pr hpr => h pr (by simp [hpr])
    exact ⟨res, by unfold convertBasic; simp [htr, Res.bind, hres]⟩

theorem convertAdvRules_ok (condOk : CondOk) : ∀ (rs : List AdvRuleFile) (acc : List (String × String)),
    (∀ r ∈ rs, docAdvRule condOk r = true) →
    ∃ res, convertAdvRules condOk rs acc = .ok res
  | [], acc, _ => ⟨acc, by simp [convertAdvRules]⟩
  | r :: rs, acc, h => by
    have hr := h r (by simp)
    simp only [docAdvRule, Bool.and_eq_true] at hr
    cases hcn : r.clusterName with
    | none => simp [hcn] at hr
    | some cn =>
      cases hc : r.cond with
      | none => simp [hc] at hr
      | some c =>
        have hok : condOk c = true := by simpa [hc] using hr.2
        obtain ⟨res, hres⟩ := convertAdvRules_ok condOk rs (acc ++ [(c, cn)]) fun x hx => h x (by simp [hx])
        exact ⟨res, by unfold convertAdvRules; simp [hcn, hc, deref, Res.bind, hok, hres]⟩

theorem convertAdv_ok (condOk : CondOk) : ∀ (l : List (String × List AdvRuleFile)) (acc : List (String × List (String × String))),
    (∀ pr ∈ l, (pr.2.all (docAdvRule condOk)) = true) →
    ∃ res, convertAdv condOk l acc = .ok res
  | [], acc, _ => ⟨acc, by simp [convertAdv]⟩
  | (p, rules) :: rest, acc, h => by
    have hp := h (p, rules) (by simp)
    simp only [List.all_eq_true] at hp
    obtain ⟨rs, hrs⟩ := convertAdvRules_ok condOk rules [] hp
    obtain ⟨res, hres⟩ := convertAdv_ok condOk rest (mapSet acc p rs) fun pr hpr => h pr (by simp [hpr])
    exact ⟨res, by unfold convertAdv; simp [hrs, Res.bind, hres]⟩

theorem routeLoad_of_doc (condOk : CondOk) {f : RouteFile} (h : docRoute condOk f = true) :
    ∃ c, routeLoad condOk f = .ok c := by
  unfold docRoute at h
  simp only [Bool.and_eq_true, Bool.or_eq_true, List.all_eq_true] at h
  obtain ⟨⟨⟨hv, hba⟩, hb⟩, ha⟩ := h
  cases hver : f.version with
  | none => simp [hver] at hv
  | some v =>
    have hB : ∀ b, f.basic = some b → ∃ res, convertBasic b [] = .ok res := fun b hfb =>
      convertBasic_ok b [] fun pr hpr => by
        have := hb pr (by simp [hfb, hpr]); simpa [Bool.and_eq_true, List.all_eq_true] using this
    have hA : ∀ a, f.adv = some a → ∃ res, convertAdv condOk a [] = .ok res := fun a hfa =>
      convertAdv_ok condOk a [] fun pr hpr => by
        have := ha pr (by simp [hfa, hpr]); simpa [List.all_eq_true] using this
    cases hfb : f.basic with
    | none =>
      cases hfa : f.adv with
      | none => simp [hfb, hfa] at hba
      | some a =>
        obtain ⟨am, ham⟩ := hA a hfa
        exact ⟨{ basic := [], adv := am }, by unfold routeLoad; simp [hver, hfb, hfa, deref, Res.bind, ham]⟩
    | some b =>
      obtain ⟨bm, hbm⟩ := hB b hfb
      cases hfa : f.adv with
      | none => exact ⟨{ basic := bm, adv := [] }, by unfold routeLoad; simp [hver, hfb, hfa, deref, Res.bind, hbm]⟩
      | some a =>
        obtain ⟨am, ham⟩ := hA a hfa
        exact ⟨{ basic := bm, adv := am }, by unfold routeLoad; simp [hver, hfb, hfa, deref, Res.bind, hbm, ham]⟩

/-! ### documented cluster_conf.data ⇒ accepted -/
theorem backendBasicCheck_doc {c : BackendBasic} (h : docBackendBasic c = true) : ∃ r, backendBasicCheck c = .ok r := by
  unfold docBackendBasic at h
  unfold backendBasicCheck
  cases hp : c.protocol with
  | none =>
    have hl : (lowerAscii "http" == "http") = true := by decide
    simp only [Option.getD_none, deref_some, Res.bind, hl, Bool.true_or, if_true]
    exact ⟨_, rfl⟩
  | some p =>
    rw [hp] at h
    simp only [protoOk] at h
    simp only [Option.getD_some, deref_some, Res.bind, h, if_true]
    exact ⟨_, rfl⟩

theorem backendCheckCheck_doc {c : BackendCheck} (h : docBackendCheck c = true) : ∃ r, backendCheckCheck c = .ok r := by
  unfold docBackendCheck at h
  simp only [Bool.and_eq_true, Bool.or_eq_true, beq_iff_eq, bne_iff_ne, ne_eq, decide_eq_true_eq] at h
  obtain ⟨⟨h1, h2⟩, h3⟩ := h
  unfold backendCheckCheck
  simp only [deref_some, Res.bind]
  have hs : (c.schem.getD "http" != "http" && c.schem.getD "http" != "tcp") = false := by
    rcases h1 with h1 | h1 <;> simp [h1]
  simp only [hs, Bool.false_eq_true, if_false]
  have hn : ¬ (c.succNum.getD 1 < 1) := by omega
  by_cases hh : c.schem.getD "http" = "http"
  · rcases h2 with h2 | h2
    · exact absurd hh h2
    · simp [hh, h2.1, h2.2, failIf, hn]
  · simp [hh, hn]

theorem hashConfCheck_doc {c : HashConf} (h : docHashConf c = true) : ∃ r, hashConfCheck c = .ok r := by
  unfold docHashConf at h
  simp only [Bool.and_eq_true, Bool.or_eq_true, beq_iff_eq, Bool.not_eq_true'] at h
  obtain ⟨h1, h2⟩ := h
  unfold hashConfCheck
  simp only [deref_some, Res.bind]
  have hs : (c.hashStrategy.getD 1 != 0 && c.hashStrategy.getD 1 != 1 && c.hashStrategy.getD 1 != 2 &&
      c.hashStrategy.getD 1 != 3) = false := by
    rcases h1 with ((h1 | h1) | h1) | h1 <;> simp [h1]
  simp only [hs, Bool.false_eq_true, if_false]
  by_cases h02 : (c.hashStrategy.getD 1 == 0 || c.hashStrategy.getD 1 == 2) = true
  · simp only [h02, if_true]
    rcases h2 with h2 | h2
    · simp only [Bool.or_eq_true, beq_iff_eq] at h02
      simp [Bool.or_eq_false_iff] at h2
      omega
    · cases hh : c.hashHeader with
      | none => simp [hh] at h2
      | some hdr =>
        simp only [hh, Bool.and_eq_true, bne_iff_ne, ne_eq] at h2
        have hl : (hdr.length == 0) = false := by simpa using h2.1
        simp only [deref_some, Res.bind, hl, Bool.false_eq_true, if_false]
        cases hk : getCookieKey hdr with
        | none => exact ⟨_, rfl⟩
        | some k =>
          have := h2.2
          simp only [hk, bne_iff_ne, ne_eq] at this
          have hk0 : (k.length == 0) = false := by simpa using this
          simp only [hk0, Bool.false_eq_true, if_false]
          exact ⟨_, rfl⟩
  · simp only [h02, Bool.false_eq_true, if_false]
    exact ⟨_, rfl⟩

theorem gslbBasicCheck_doc {c : GslbBasic} (h : docGslbBasic c = true) : ∃ r, gslbBasicCheck c = .ok r := by
  unfold docGslbBasic at h
  simp only [Bool.and_eq_true] at h
  obtain ⟨h1, h2⟩ := h
  obtain ⟨hc, hhc⟩ := hashConfCheck_doc h1
  unfold gslbBasicCheck
  simp only [deref_some, Res.bind, hhc]
  have h2' : (upperAscii (c.balanceMode.getD "WRR") == "WRR" || upperAscii (c.balanceMode.getD "WRR") == "WLC") = true := h2
  simp only [h2', if_true]
  exact ⟨_, rfl⟩

theorem clusterConfCheck_doc {c : ClusterConf} (h : docClusterConf c = true) : ∃ r, clusterConfCheck c = .ok r := by
  unfold docClusterConf at h
  simp only [Bool.and_eq_true] at h
  obtain ⟨⟨h1, h2⟩, h3⟩ := h
  obtain ⟨a, ha⟩ := backendBasicCheck_doc h1
  obtain ⟨b, hb⟩ := backendCheckCheck_doc h2
  obtain ⟨g, hg⟩ := gslbBasicCheck_doc h3
  unfold clusterConfCheck
  simp only [ha, hb, hg, Res.bind]
  exact ⟨_, rfl⟩

theorem clusterToConfCheck_doc : ∀ l : List (String × ClusterConf), (∀ kv ∈ l, docClusterConf kv.2 = true) →
    ∃ r, clusterToConfCheck l = .ok r
  | [], _ => ⟨[], rfl⟩
  | (n, c) :: rest, h => by
    obtain ⟨c', hc'⟩ := clusterConfCheck_doc (h (n, c) (by simp))
    obtain ⟨r, hr⟩ := clusterToConfCheck_doc rest fun kv hkv => h kv (by simp [hkv])
    exact ⟨(n, c') :: r, by unfold clusterToConfCheck; simp [hc', hr, Res.bind]⟩

theorem ccLoad_of_doc {f : Option ClusterFile} (h : docCluster f = true) : ∃ l, ccLoad f = .ok l := by
  unfold docCluster at h
  split at h
  · rename_i v cfg
    simp only [List.all_eq_true] at h
    obtain ⟨cfg', hcfg⟩ := clusterToConfCheck_doc cfg h
    have hb : forAllM (fun (kv : String × ClusterConf) => basicInit kv.2) cfg' = .ok () :=
      (forAllM_ok_iff cfg').mpr (clusterToConfCheck_basicInit cfg cfg' hcfg)
    exact ⟨cfg'.map (·.1), by simp [ccLoad, deref, Res.bind, hcfg, hb]⟩
  · simp at h

/-! ### name_conf, session ticket key, BalTable.Init never crash -/
theorem nameLoad_ne_crash (f : NameFile) : nameLoad f ≠ .crash :=
  forAllM_ne_crash _ fun _ _ => forAllM_ne_crash _ fun _ _ => failIf_ne_crash _

theorem ticketLoad_ne_crash (d : Option TicketFile) (n : Nat) : ticketLoad d n ≠ .crash := by
  unfold ticketLoad
  cases d with
  | none => exact failIf_ne_crash _
  | some f => exact failIf_ne_crash _

theorem gslbLoad_ok_clusters {g : GslbFile} {n : Nat} (h : gslbLoad g = .ok n) : g.clusters.isSome = true := by
  unfold gslbLoad at h
  split at h <;> simp_all

theorem ctLoad_ok_config {c : CtFile} {n : Nat} (h : ctLoad c = .ok n) : c.config.isSome = true := by
  unfold ctLoad at h
  split at h <;> simp_all

theorem balInit_ne_crash (g : GslbFile) (c : CtFile) : balInit g c ≠ .crash := by
  unfold balInit
  refine Res.bind_ne_crash (gslbLoad_ne_crash g) fun _ hg => Res.bind_ne_crash (ctLoad_ne_crash c) fun _ hc => ?_
  refine Res.bind_ne_crash (deref_ne_crash (gslbLoad_ok_clusters hg)) fun cs _ =>
    Res.bind_ne_crash (deref_ne_crash (ctLoad_ok_config hc)) fun cfg _ => ?_
  exact Res.bind_ne_crash (forAllM_ne_crash _ fun _ _ => failIf_ne_crash _) fun _ _ => by simp

end BfeVerif.C13
