import BfeVerif.Common.Proto
import BfeVerif.C13.Model
/-!
  C13 driver.  op = `<kind> <json text>` with kind ∈ host | vip | route | cc | gslb | ct, or
  `all <host json>~<vip json>~<route json>~<cluster_conf json>`.
  result = `ok <summary>` | `err:decode` | `err:check` | (all:) `err:table|cluster|xref` | `PANIC:…`
-/
namespace BfeVerif.C13
open BfeVerif.Proto

/-! ### a small JSON reader (compact JSON as written by the harness; escapes `\"`, `\\`, `\/` only) -/
def skipWs : List Char → List Char
  | ' ' :: r => skipWs r
  | cs => cs

def pStr : List Char → List Char → Option (String × List Char)
  | [], _ => none
  | '"' :: r, acc => some (String.ofList acc.reverse, r)
  | '\\' :: c :: r, acc => if c == '"' || c == '\\' || c == '/' then pStr r (c :: acc) else none
  | c :: r, acc => pStr r (c :: acc)

def numChar (c : Char) : Bool := c.isDigit || c == '-' || c == '+' || c == '.' || c == 'e' || c == 'E'

def pNum (cs : List Char) : Option (JVal × List Char) :=
  let tok := cs.takeWhile numChar
  let rest := cs.dropWhile numChar
  let s := String.ofList tok
  match s.toInt? with
  | some n => if tok.contains '+' then some (.other, rest) else some (.int n, rest)
  | none => if tok.any Char.isDigit then some (.other, rest) else none

mutual
def pVal : Nat → List Char → Option (JVal × List Char)
  | 0, _ => none
  | f + 1, cs =>
    match skipWs cs with
    | 'n' :: 'u' :: 'l' :: 'l' :: r => some (.null, r)
    | 't' :: 'r' :: 'u' :: 'e' :: r => some (.bool true, r)
    | 'f' :: 'a' :: 'l' :: 's' :: 'e' :: r => some (.bool false, r)
    | '"' :: r => (pStr r []).map fun sr => (.str sr.1, sr.2)
    | '[' :: r =>
      match skipWs r with
      | ']' :: r' => some (.arr [], r')
      | r' => pElems f r' []
    | '{' :: r =>
      match skipWs r with
      | '}' :: r' => some (.obj [], r')
      | r' => pMembers f r' []
    | c :: r => if numChar c then pNum (c :: r) else none
    | [] => none
def pElems : Nat → List Char → List JVal → Option (JVal × List Char)
  | 0, _, _ => none
  | f + 1, cs, acc =>
    match pVal f cs with
    | none => none
    | some (v, r) =>
      match skipWs r with
      | ',' :: r' => pElems f r' (v :: acc)
      | ']' :: r' => some (.arr (v :: acc).reverse, r')
      | _ => none
def pMembers : Nat → List Char → List (String × JVal) → Option (JVal × List Char)
  | 0, _, _ => none
  | f + 1, cs, acc =>
    match skipWs cs with
    | '"' :: r =>
      match pStr r [] with
      | none => none
      | some (k, r1) =>
        match skipWs r1 with
        | ':' :: r2 =>
          match pVal f r2 with
          | none => none
          | some (v, r3) =>
            match skipWs r3 with
            | ',' :: r4 => pMembers f r4 ((k, v) :: acc)
            | '}' :: r4 => some (.obj ((k, v) :: acc).reverse, r4)
            | _ => none
        | _ => none
    | _ => none
end

def parseJson (s : String) : Option JVal :=
  let cs := s.toList
  match pVal (cs.length + 1) cs with
  | some (v, r) => if (skipWs r).isEmpty then some v else none
  | none => none

/-- shape signature of a value (what the typed decoders look at first) -/
partial def sig : JVal → String
  | .null => "n"
  | .bool _ => "b"
  | .int n => if int64Min ≤ n ∧ n ≤ int64Max then "i" else "I"
  | .other => "f"
  | .str _ => "s"
  | .arr xs => "[" ++ ",".intercalate ((xs.map sig).foldl (fun acc x => insertSortedS x acc) []) ++ "]"
  | .obj _ => "o"
where insertSortedS (x : String) : List String → List String
  | [] => [x]
  | y :: ys => if x < y then x :: y :: ys else if x == y then y :: ys else y :: insertSortedS x ys

/-- duplicate keys are modelled (rules R5–R7 in Model.lean): nothing is skipped for them any more -/
def hasDupKeys (_ : JVal) : Bool := false

/-- the file uses a duplicated key somewhere (tag for the histogram) -/
partial def usesDupKeys : JVal → Bool
  | .arr xs => xs.any usesDupKeys
  | .obj kvs => !(nodupB (kvs.map fun kv => lowerAscii kv.1)) || kvs.any fun kv => usesDupKeys kv.2
  | _ => false

/-- a `null` element inside an array three levels below "Config" (the former panic of cluster_table) -/
def ctHasNullBackend (j : JVal) : Bool :=
  match j with
  | .obj kvs =>
    match (field kvs "Config").getLast?.getD .null with
    | .obj cs => cs.any fun c =>
        match c.2 with
        | .obj ss => ss.any fun s => match s.2 with
            | .arr bs => bs.any fun b => match b with | .null => true | _ => false
            | _ => false
        | _ => false
    | _ => false
  | _ => false

/-! ### parameters of the model instantiated for the generator's alphabet -/
def ipTable : List (String × String) :=
  [("1.2.3.4", "1.2.3.4"), ("10.0.0.1", "10.0.0.1"), ("192.168.0.255", "192.168.0.255"), ("::1", "::1"),
   ("0:0:0:0:0:0:0:1", "::1"), ("2001:db8::1", "2001:db8::1"), ("2001:DB8::1", "2001:db8::1")]

def parseIPd : ParseIP := fun s => mapGet ipTable s

/-- conditions the generator emits that `condition.Build` accepts -/
def condOkd : CondOk := fun s =>
  s == "default_t()" ||
  (s.startsWith "req_host_in(\"" && s.endsWith "\")" && !(((s.drop 13).toString.dropEnd 2).toString.contains '"')) ||
  (s.startsWith "req_path_prefix_in(\"/" && s.endsWith "\", false)")

/-! ### rendering -/
def panicMsg : String := "PANIC:runtime error: invalid memory address or nil pointer dereference"

def insertSorted (x : String) : List String → List String
  | [] => [x]
  | y :: ys => if x < y then x :: y :: ys else if x == y then y :: ys else y :: insertSorted x ys

def sortedSet (xs : List String) : String :=
  let l := xs.foldl (fun acc x => insertSorted x acc) []
  if l.isEmpty then "-" else ",".intercalate l

def renderRes {α : Type} (r : Res α) (f : α → String) : String :=
  match r with
  | .ok a => "ok " ++ f a
  | .err => "err:check"
  | .crash => panicMsg

def dumpAll (s : ServerData) : String :=
  "rp=" ++ sortedSet s.routeProducts ++ ";hp=" ++ sortedSet s.hostProducts ++
  ";ht=" ++ sortedSet (s.host.hostMap.map (·.2)) ++ ";tt=" ++ sortedSet (s.host.hostTagMap.map (·.1)) ++
  ";dp=" ++ (if s.host.defaultProduct == "" then "-" else s.host.defaultProduct) ++
  ";vp=" ++ sortedSet (s.vip.map (·.2)) ++
  ";ac=" ++ sortedSet s.advClusters ++ ";bc=" ++ sortedSet s.basicClusters ++ ";cc=" ++ sortedSet s.clusters

/-- a host tag listed under two different products, or appearing twice: the tag→product map then depends on
    Go's map iteration order (property C14); C13 skips such files -/
def ambiguousTags (f : HostFile) : Bool :=
  !(nodupB (allValues (f.hostTags.getD [])))

/-- the duplicate-host test `host2HostTag[h] != ""` is order dependent when the empty tag is used -/
def emptyTagUsed (f : HostFile) : Bool := (f.hosts.getD []).any fun kv => kv.1 == ""

def setOf (s : String) : List String := if s == "-" then [] else s.splitOn ","

/-- field `k=` of the implementation's dump -/
def dumpField (impl : String) (k : String) : List String :=
  match ((impl.drop 3).toString.splitOn ";").find? (fun kv => kv.startsWith (k ++ "=")) with
  | some kv => setOf (kv.drop (k.length + 1)).toString
  | none => []

def subsetB (a b : List String) : Bool := a.all fun x => b.contains x

def single (kind : String) (j : JVal) : String × Bool × List String :=
  -- (model result, documented?, tags)
  match kind with
  | "host" =>
    match decodeHost j with
    | none => ("err:decode", false, ["decode-err"])
    | some f => (renderRes (hostLoad f) fun c => s!"h={c.hostMap.length} t={c.hostTagMap.length}", docHost f,
                 if emptyTagUsed f then ["empty-tag"] else [])
  | "vip" =>
    match decodeVip j with
    | none => ("err:decode", false, ["decode-err"])
    | some f => (renderRes (vipLoad parseIPd f) fun m => s!"v={m.length}", docVip parseIPd f, [])
  | "route" =>
    match decodeRoute j with
    | none => ("err:decode", false, ["decode-err"])
    | some f => (renderRes (routeLoad condOkd f) fun c => s!"b={c.basic.length} a={c.adv.length}", docRoute condOkd f, [])
  | "cc" =>
    match decodeCluster j with
    | none => ("err:decode", false, ["decode-err"])
    | some f => (renderRes (ccLoad f) fun l => s!"c={l.length}", docCluster f, [])
  | "gslb" =>
    match decodeGslb j with
    | none => ("err:decode", false, ["decode-err"])
    | some f => (renderRes (gslbLoad f) fun n => s!"g={n}", docGslb f, [])
  | "ct" =>
    match decodeCt j with
    | none => ("err:decode", false, ["decode-err"])
    | some f => (renderRes (ctLoad f) fun n => s!"c={n}", docCt f, [])
  | _ => ("bad-op", false, [])

def runSingle (kind body impl : String) : Ans :=
  match parseJson body with
  | none => { model := "bad-json", verdict := "skip", tags := ["unparsed"] }
  | some j =>
    if hasDupKeys j then { model := "dup-keys", verdict := "skip", tags := ["dup-keys"] }
    else
      let (m, doc, tags) := single kind j
      let verdict :=
        if impl.startsWith "PANIC" then
          (if kind == "ct" && ctHasNullBackend j then "FAIL:ct-null-backend" else "FAIL:panic-" ++ kind)
        else if impl == "HANG" then "FAIL:hang-" ++ kind
        else if doc && !impl.startsWith "ok" then "FAIL:doc-rejected-" ++ kind
        else if kind == "host" && tags.contains "empty-tag" then "skip"
        else "ok"
      let tags := [kind] ++ tags ++ (if usesDupKeys j then ["dup-key"] else []) ++ [if m.startsWith "ok" then "accept" else "reject"] ++
        (if doc then ["documented"] else []) ++
        (if m.startsWith "ok" || m == "err:check" then ["nt"] else [])
      { model := m, verdict := verdict, tags := tags }

def runAll (body impl : String) : Ans :=
  match body.splitOn "~" with
  | [h, v, r, c] =>
    match parseJson h, parseJson v, parseJson r, parseJson c with
    | some hj, some vj, some rj, some cj =>
      if hasDupKeys hj || hasDupKeys vj || hasDupKeys rj || hasDupKeys cj then
        { model := "dup-keys", verdict := "skip", tags := ["dup-keys"] }
      else
        let out := loadAll parseIPd condOkd hj vj rj cj
        let m := match out with
          | .ok s => "ok " ++ dumpAll s
          | .errTable => "err:table"
          | .errCluster => "err:cluster"
          | .errXref => "err:xref"
          | .crash => panicMsg
        let hf := decodeHost hj
        -- a vip listed under two products: vip→product depends on Go's map iteration order as well
        let ambigVip := match decodeVip vj with
          | some f => !(nodupB ((f.vips.flatMap fun kv => kv.2).map fun v => (parseIPd v).getD v))
          | none => false
        let ambig := (match hf with | some f => ambiguousTags f || emptyTagUsed f | none => false) || ambigVip
        -- documented: every file documented and the cross references closed (ADVANCED_MODE allowed in basic rules)
        let docFiles := (match hf with | some f => docHost f | none => false) &&
          (match decodeVip vj with | some f => docVip parseIPd f | none => false) &&
          (match decodeRoute rj with | some f => docRoute condOkd f | none => false) &&
          (match decodeCluster cj with | some f => docCluster f | none => false)
        let usesAdvMode := match decodeRoute rj with
          | some f => (f.basic.getD []).any fun pr => pr.2.any fun r => r.clusterName == some advancedMode
          | none => false
        -- the cross-file part of "documented", computed from the FILES (independent of xcheck):
        let products : List String := match hf with
          | some f => (f.hostTags.getD []).filterMap (fun (kv : String × Option (List String)) => if (kv.2.getD []).isEmpty then none else some kv.1)
          | none => []
        let clusters : List String := match decodeCluster cj with
          | some (some f) => (f.config.getD []).map (fun (kv : String × ClusterConf) => kv.1)
          | _ => []
        let docX := match decodeRoute rj with
          | some f =>
            (f.basic.getD []).all (fun pr => products.contains pr.1 &&
              pr.2.all fun r => match r.clusterName with | some cn => cn == advancedMode || clusters.contains cn | none => false) &&
            (f.adv.getD []).all (fun pr => products.contains pr.1 &&
              pr.2.all fun r => match r.clusterName with | some cn => clusters.contains cn | none => false)
          | none => false
        let doc := docFiles && docX
        let verdict :=
          if ambig then "skip"
          else if impl.startsWith "PANIC" then "FAIL:panic-all"
          else if impl.startsWith "ok " then
            let rp := dumpField impl "rp"; let hp := dumpField impl "hp"
            let ht := dumpField impl "ht"; let tt := dumpField impl "tt"
            let vp := dumpField impl "vp"; let ac := dumpField impl "ac"
            let bc := dumpField impl "bc"; let cc := dumpField impl "cc"
            let dp := dumpField impl "dp"
            let fileProducts := match hf with | some f => (f.hostTags.getD []).map (·.1) | none => []
            if !subsetB rp hp then "FAIL:open-route-product"
            else if !subsetB ac cc then "FAIL:adv-rule-dangling-cluster"
            else if !subsetB (bc.filter (· != advancedMode)) cc then "FAIL:open-basic-cluster"
            else if !subsetB ht tt then "FAIL:open-host-tag"
            else if !subsetB dp fileProducts then "FAIL:open-default-product"
            else if !subsetB vp fileProducts then "FAIL:vip-product-unknown"
            else "ok"
          else if doc then (if usesAdvMode then "FAIL:advanced-mode-basic" else "FAIL:doc-rejected-all")
          else "ok"
        let tags := ["all", (m.splitOn " ").headD ""] ++ (if doc then ["documented"] else []) ++
          (if usesAdvMode then ["advmode"] else []) ++ (if ambig then ["ambig"] else []) ++
          (if usesDupKeys hj || usesDupKeys vj || usesDupKeys rj || usesDupKeys cj then ["dup-key"] else []) ++
          (if m.startsWith "ok" || m == "err:xref" then ["nt"] else [])
        { model := m, verdict := verdict, tags := tags }
    | _, _, _, _ => { model := "bad-json", verdict := "skip", tags := ["unparsed"] }
  | _ => { model := "bad-op", verdict := "skip" }

/-! ### further ops: bal, name, ticket (modelled); mod / moddoc (accept / reject / crash only, NO model) -/
def runBal (body impl : String) : Ans :=
  match body.splitOn "~" with
  | [g, c] =>
    match parseJson g, parseJson c with
    | some gj, some cj =>
      let m := match decodeGslb gj, decodeCt cj with
        | some gf, some cf =>
          (match balInit gf cf with
           | .ok l =>
             let items := l.map fun e => s!"{e.1}:{e.2.1}={e.2.2.1}/" ++ (match e.2.2.2 with | some n => toString n | none => "0")
             "ok " ++ sortedSet items
           | .err => if (gslbLoad gf).isOk && (ctLoad cf).isOk then "err:init" else "err:load"
           | .crash => panicMsg)
        | _, _ => "err:load"
      -- oracle on the implementation's dump: a sub-cluster with weight > 0 must have backends
      let open_ := impl.startsWith "ok " && (setOf (impl.drop 3).toString).any fun it =>
        match (it.splitOn "=").getLast? with
        | some wn => (match wn.splitOn "/" with
            | [w, n] => (w.toInt?.getD 0) > 0 && (n.toInt?.getD 0) ≤ 0
            | _ => false)
        | none => false
      let verdict := if impl.startsWith "PANIC" then "FAIL:panic-bal" else if open_ then "FAIL:gslb-subcluster-no-backends" else "ok"
      { model := m, verdict := verdict, tags := ["bal", (m.splitOn " ").headD ""] ++ (if m.startsWith "ok" || m == "err:init" then ["nt"] else []) }
    | _, _ => { model := "bad-json", verdict := "skip", tags := ["unparsed"] }
  | _ => { model := "bad-op", verdict := "skip" }

def runName (body impl : String) : Ans :=
  match parseJson body with
  | none => { model := "bad-json", verdict := "skip", tags := ["unparsed"] }
  | some j =>
    let m := match decodeName j with
      | none => "err:decode"
      | some f => (match nameLoad f with | .ok _ => "ok" | .err => "err:check" | .crash => panicMsg)
    { model := m, verdict := if impl.startsWith "PANIC" then "FAIL:panic-name" else "ok",
      tags := ["name", m] ++ (if m == "err:decode" then [] else ["nt"]) }

def runTicket (body impl : String) : Ans :=
  let decoded := (parseJson body).bind decodeTicket
  -- a body the driver's reader cannot parse is not JSON for json-iterator either (generator: raw key files)
  let m := match ticketLoad decoded body.utf8ByteSize with | .ok _ => "ok" | .err => "err" | .crash => panicMsg
  { model := m, verdict := if impl.startsWith "PANIC" then "FAIL:panic-ticket" else "ok",
    tags := ["ticket", m, "nt"] ++ (if decoded.isNone then ["raw"] else []) }

def runMod (rest : List String) (impl : String) (doc : Bool) : Ans :=
  let name := rest.headD ""
  let verdict :=
    if impl.startsWith "PANIC" then "FAIL:panic-mod-" ++ name
    else if impl == "HANG" then "FAIL:hang-mod-" ++ name
    else if doc && impl != "ok" then "FAIL:doc-rejected-" ++ name
    else "ok"
  -- no Lean model of the module rule checks: the "model" column only says that a loader answers ok or err
  { model := impl, verdict := verdict,
    tags := ["mod", "mod-" ++ name, impl.take 3 |>.toString] ++ (if doc then ["documented"] else []) }

def run (op impl : String) : Ans :=
  match op.splitOn " " with
  | kind :: rest =>
    let body := " ".intercalate rest
    -- vip / route / cc / gslb / ct / name / bal are loaded several times by the harness: differing outcomes come as `a|b`
    if ["vip", "route", "cc", "gslb", "ct", "name", "bal"].contains kind && impl.contains '|' then
      { model := "one outcome", verdict := "FAIL:order-dependent-" ++ kind, tags := [kind, "order-dependent"] }
    else
    if kind == "all" then runAll body impl
    else if kind == "bal" then runBal body impl
    else if kind == "name" then runName body impl
    else if kind == "ticket" then runTicket body impl
    else if kind == "conf" then
      -- a sample configuration shipped under <repo>/conf (file list read from the tree): it must load; a file for which
      -- the harness has no loader is reported too, so that new sample files do not go unnoticed
      let cls := (body.replace "/" "-").replace "@" "set-"
      { model := impl,
        verdict := if impl == "ok" then "ok"
                   else if impl == "no-loader" then "FAIL:conf-no-loader-" ++ cls
                   else if impl.startsWith "PANIC" then "FAIL:conf-panic-" ++ cls
                   else "FAIL:conf-rejected-" ++ cls,
        tags := ["conf", "documented"] }
    else if kind == "mod" then runMod rest impl false
    else if kind == "moddoc" then runMod rest impl true
    else runSingle kind body impl
  | [] => { model := "bad-op", verdict := "skip" }

end BfeVerif.C13
