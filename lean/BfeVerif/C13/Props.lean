import BfeVerif.C13.Proofs
/-!
  C13 — documented configs load, loaded configs are closed, loaders never panic.
  Property theorems only (helper lemmas are in `Proofs.lean`).

  The model (`Model.lean`) mirrors the loaders after the two repairs recorded in `fixes/`:
  `BackendConfCheck` tests `conf == nil`, and `ServerDataConf.check` skips `ADVANCED_MODE` in the basic-rule loop.
  json-iterator itself is not modelled: the theorems quantify over every JSON *value* (`JVal`) and every decoded
  shape; that the decoder produces these shapes is what the correspondence run checks.
-/
namespace BfeVerif.C13

/-! ### (3) loaders never panic: for EVERY decoded shape, no nil dereference is reached -/

theorem C13_no_crash_host (f : HostFile) : hostLoad f ≠ .crash := hostLoad_ne_crash f
theorem C13_no_crash_vip (parseIP : ParseIP) (f : VipFile) : vipLoad parseIP f ≠ .crash := vipLoad_ne_crash parseIP f
theorem C13_no_crash_route (condOk : CondOk) (f : RouteFile) : routeLoad condOk f ≠ .crash :=
  routeLoad_ne_crash condOk f
/-- cluster_conf: `ClusterConfCheck` fills every pointer that `BfeCluster.BasicInit` later dereferences. -/
theorem C13_no_crash_cluster_conf (f : Option ClusterFile) : ccLoad f ≠ .crash := ccLoad_ne_crash f
theorem C13_no_crash_gslb (f : GslbFile) : gslbLoad f ≠ .crash := gslbLoad_ne_crash f
/-- cluster_table: holds only with the nil check added to `BackendConfCheck` (the unfixed code panics on `[null]`). -/
theorem C13_no_crash_cluster_table (f : CtFile) : ctLoad f ≠ .crash := ctLoad_ne_crash f

/-- `LoadServerDataConf` never panics, for all four JSON values and every `net.ParseIP` / `condition.Build`. -/
theorem C13_no_crash (parseIP : ParseIP) (condOk : CondOk) (hj vj rj cj : JVal) :
    (loadAll parseIP condOk hj vj rj cj).isCrash = false := by
  unfold loadAll
  split
  · rfl
  · rename_i hf _
    have := hostLoad_ne_crash hf
    split
    · rfl
    · rename_i h; exact absurd h this
    · split
      · rfl
      · rename_i vf _
        have := vipLoad_ne_crash parseIP vf
        split
        · rfl
        · rename_i h; exact absurd h this
        · split
          · rfl
          · rename_i rf _
            have := routeLoad_ne_crash condOk rf
            split
            · rfl
            · rename_i h; exact absurd h this
            · split
              · rfl
              · rename_i cf _
                have := ccLoad_ne_crash cf
                split
                · rfl
                · rename_i h; exact absurd h this
                · rename_i names _
                  simp only []
                  split
                  · rfl
                  · rename_i h; exact absurd h (xcheck_ne_crash _)
                  · rfl

/-! ### (2) accepted configurations are closed -/

theorem closedB_iff (s : ServerData) : closedB s = true ↔ Closed s := by
  unfold closedB
  simp only [Bool.and_eq_true, List.all_eq_true, Bool.or_eq_true, beq_iff_eq, List.contains_iff_mem]
  constructor
  · rintro ⟨⟨h1, h2⟩, h3⟩; exact ⟨h1, h2, h3⟩
  · rintro ⟨h1, h2, h3⟩; exact ⟨⟨h1, h2⟩, h3⟩

/-- The cross-file check accepts exactly the closed configurations
    (so it neither lets a dangling product/cluster through, nor rejects `ADVANCED_MODE` in a basic rule). -/
theorem C13_check_iff_closed (s : ServerData) : xcheck s = .ok () ↔ Closed s :=
  (xcheck_ok_iff s).trans (closedB_iff s)

/-- **Closed**: whatever `LoadServerDataConf` returns without error only references products that own a
    host tag and clusters defined in cluster_conf (basic rules may also name `ADVANCED_MODE`). -/
theorem C13_closed (parseIP : ParseIP) (condOk : CondOk) (hj vj rj cj : JVal) (s : ServerData)
    (h : loadAll parseIP condOk hj vj rj cj = .ok s) : Closed s := by
  unfold loadAll at h
  repeat' split at h
  all_goals first
    | (simp at h; done)
    | skip
  simp only [] at h
  split at h
  · simp at h
  · simp at h
  · rename_i hx
    injection h with h
    subst h
    exact (C13_check_iff_closed _).mp hx

/-- **Closed, host side**: in whatever `HostRuleConfLoad` accepts, every host's tag is mapped to a product, and the
    default product (if set) is a product of the file. -/
theorem C13_closed_host (f : HostFile) (c : HostConf) (h : hostLoad f = .ok c) :
    (∀ ht ∈ c.hostMap, mapHas c.hostTagMap ht.2 = true) ∧
    (∀ dp, f.defaultProduct = some dp → mapHas (f.hostTags.getD []) dp = true) := by
  refine ⟨hostLoad_tags_closed h, fun dp hdp => ?_⟩
  unfold hostLoad at h
  rw [Res.bind_ok_unit] at h
  obtain ⟨_, _, tags, _, _, ht, _, _, hd⟩ := hostCheck_ok h.1
  rw [ht]; exact hd dp hdp

/-! ### (1) documented files are accepted -/

/-- host_rule.data in the documented format is accepted. -/
theorem C13_documented_ok_host (f : HostFile) (h : docHost f = true) : ∃ c, hostLoad f = .ok c :=
  hostLoad_of_doc h
theorem C13_documented_ok_vip (parseIP : ParseIP) (f : VipFile) (h : docVip parseIP f = true) :
    ∃ m, vipLoad parseIP f = .ok m := vipLoad_of_doc parseIP h
theorem C13_documented_ok_gslb (f : GslbFile) (h : docGslb f = true) : ∃ n, gslbLoad f = .ok n :=
  gslbLoad_of_doc h
/-- route_rule.data in the documented format is accepted: every basic rule has a cluster name, a host or a path, valid
    wildcard patterns, no two rules of a product insert the same (host key, path key) into the trees; every advanced
    rule has a cluster name and a condition that builds. -/
theorem C13_documented_ok_route (condOk : CondOk) (f : RouteFile) (h : docRoute condOk f = true) :
    ∃ c, routeLoad condOk f = .ok c := routeLoad_of_doc condOk h
/-- cluster_conf.data in the documented format is accepted (absent sections and fields take their defaults). -/
theorem C13_documented_ok_cluster_conf (f : Option ClusterFile) (h : docCluster f = true) : ∃ l, ccLoad f = .ok l :=
  ccLoad_of_doc h
/-- cluster_table.data in the documented format is accepted (complete backends, one with weight > 0 per sub-cluster). -/
theorem C13_documented_ok_cluster_table (f : CtFile) (h : docCt f = true) : ∃ n, ctLoad f = .ok n := ctLoad_of_doc h

/-- a set of loaded files whose cross references are closed — including a basic rule whose ClusterName is
    `ADVANCED_MODE` — passes the cross-file check (the unfixed code rejected it). -/
theorem C13_documented_ok_xref (s : ServerData) (h : Closed s) : xcheck s = .ok () :=
  (C13_check_iff_closed s).mpr h

/-! ### non-vacuity and the former witnesses -/
def exHost : HostFile :=
  { version := some "1", defaultProduct := some "p", hosts := some [("t", some ["a.com"])],
    hostTags := some [("p", some ["t"])] }
example : docHost exHost = true := by decide
example : hostLoad exHost = .ok { defaultProduct := "p", hostMap := [("a.com", "t")], hostTagMap := [("t", "p")] } := by
  decide

def exBackend : Backend := { name := some "a", addr := some "1.1.1.1", port := some 80, weight := some 1 }
def exCt : CtFile := { version := some "1", config := some [("c", [("s", [some exBackend])])] }
def exClusterConf : ClusterConf :=
  { backendConf := some { protocol := some "HTTP" }, checkConf := none, gslbBasic := none, clusterBasic := none }
def exCluster : Option ClusterFile := some { version := some "1", config := some [("c", exClusterConf)] }
def exRoute : RouteFile :=
  { version := some "1",
    basic := some [("p", [{ hostname := ["a.com"], path := ["/a*", "/b"], clusterName := some "ADVANCED_MODE" },
                          { hostname := [], path := ["/a*"], clusterName := some "c" }])],
    adv := some [("p", [{ cond := some "default_t()", clusterName := some "c" }])] }
example : docCt exCt = true := by decide
example : docCluster exCluster = true := by decide
example : docRoute (fun c => c == "default_t()") exRoute = true := by decide

/-- the documented example that the unfixed `check()` rejected: basic rule → ADVANCED_MODE -/
def exAdv : ServerData :=
  { host := { defaultProduct := "", hostMap := [("a.com", "t")], hostTagMap := [("t", "p")] }
    vip := []
    route := { basic := [("p", ([(((false, "MOC.A"), (true, "")), "ADVANCED_MODE")],
                                [{ hostname := ["a.com"], path := [], clusterName := "ADVANCED_MODE" }]))],
               adv := [("p", [("default_t()", "c")])] }
    clusters := ["c"] }
example : xcheck exAdv = .ok () := by decide
example : Closed exAdv := (C13_check_iff_closed _).mp (by decide)
/-- a dangling cluster is rejected -/
example : xcheck { exAdv with clusters := [] } = .err := by decide
/-- cluster_table `[null]` backend: an error, not a crash (the unfixed code dereferenced nil here) -/
example : ctLoad { version := some "1", config := some [("c", [("s", [none])])] } = .err := by decide

/-! ### further files: name_conf, session ticket key, BalTable.Init (gslb × cluster_table) -/
theorem C13_no_crash_name_conf (f : NameFile) : nameLoad f ≠ .crash := nameLoad_ne_crash f
theorem C13_no_crash_session_ticket_key (d : Option TicketFile) (n : Nat) : ticketLoad d n ≠ .crash :=
  ticketLoad_ne_crash d n
theorem C13_no_crash_baltable (g : GslbFile) (c : CtFile) : balInit g c ≠ .crash := balInit_ne_crash g c

def exGslbOpen : GslbFile := { clusters := some [("c", [("s1", 100)])], hostname := some "h", ts := some "0" }
def exCtOpen : CtFile := { version := some "1", config := some [("c", [("s2", [some exBackend])])] }

/-- **BalTable.Init is NOT closed**: gslb.data sends all traffic of cluster `c` to sub-cluster `s1`, cluster_table.data has
    backends only for `s2` — the pair is accepted (only the cluster NAME is cross-checked), `s1` has no backend list. -/
theorem C13_witness_baltable_open :
    balInit exGslbOpen exCtOpen = .ok [("c", "s1", 100, none)] ∧ balClosed [("c", "s1", 100, none)] = false := by
  constructor <;> decide


end BfeVerif.C13
