import BfeVerif.C13.Driver
def main : IO Unit := BfeVerif.Proto.driverMain BfeVerif.C13.run
