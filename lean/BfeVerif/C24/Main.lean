import BfeVerif.C24.Driver
def main : IO Unit := BfeVerif.Proto.driverMain BfeVerif.C24.run
