import BfeVerif.Common.Proto
import BfeVerif.C24.Model
/-!
  C24 driver.   op `req <hex stream> <k>`; result see harness/cmd/c24/main.go.
  Model result: the same rendering computed by the Lean model of ReadRequest + body reading.
  Verdict: every request the implementation accepted (header and body) is re-parsed, from the offset where the
  implementation started it, by the strict RFC parser `rfcRequest`; `FAIL:<reason the RFC parser rejects>` or
  `FAIL:diff-…` when both accept but disagree.  A target outside the two known `url.ParseRequestURI` classes -> skip.
-/
namespace BfeVerif.C24
open BfeVerif.Proto
open BfeVerif.C23 (Bytes)

def hexB (b : Bytes) : String := hexField b

def renderHead (q : Req) : String :=
  "R," ++ hexB q.method ++ "," ++ hexB q.target ++ "," ++ hexB q.proto ++ "," ++
  (if q.keys.isEmpty then "-" else ".".intercalate (q.keys.map hexB)) ++ "," ++
  (match q.framing with | .chunked => "chunked" | .length n => "cl:" ++ toString n)

/-- does the request line at the head of `s` carry a target whose `url.ParseRequestURI` answer is not modelled? -/
def unknownTarget (s : Bytes) : Bool :=
  match readLine s with
  | none => false
  | some (line, _) =>
    match splitAt1 32 line with
    | none => false
    | some (_, rest1) =>
      match splitAt1 32 rest1 with
      | none => false
      | some (t, p) => (parseVersion p).isSome && uriClass t == .unknown

def runStream : Nat → Bytes → Nat → List String
  | 0, _, _ => ["MORE"]
  | c + 1, s, total =>
    if s.isEmpty then ["END"]
    else if unknownTarget s then ["UNKNOWN"]
    else match readRequestHead s with
      | none => ["ERR"]
      | some (q, r) =>
        let (body, next) := readBody q.framing r
        let item := renderHead q ++ "," ++ hexB body
        match next with
        | none => [item ++ ",bodyerr"]
        | some r' => (item ++ ",ok:" ++ toString (total - r'.length)) :: runStream c r' total

def parseKeys (s : String) : Option (List Bytes) :=
  if s == "-" then some []
  else (s.splitOn ".").foldr (fun c acc =>
    match acc, bytesOfHex c with
    | some l, some b => some (b :: l)
    | _, _ => none) (some [])

/-- walk the implementation's items; returns (verdict, tags) -/
def judge (s : Bytes) : List String → Nat → Nat → List String → String × List String
  | [], _, n, tags => ("ok", tags ++ ["acc-" ++ toString n])
  | item :: rest, off, n, tags =>
    let here := s.drop off
    if item == "END" ∨ item == "MORE" then ("ok", tags ++ ["acc-" ++ toString n])
    else if item == "ERR" then
      match rfcRequest here with
      | .ok _ => ("ok", tags ++ ["acc-" ++ toString n, "over-strict"])
      | .error w => ("ok", tags ++ ["acc-" ++ toString n, "rej-" ++ w])
    else
      match item.splitOn "," with
      | ["R", m, t, _p, ks, fr, b, st] =>
        if st == "bodyerr" then ("ok", tags ++ ["acc-" ++ toString n, "bodyerr"])
        else
          match rfcRequest here, bytesOfHex m, bytesOfHex t, parseKeys ks, bytesOfHex b with
          | .error w, _, _, _, _ => ("FAIL:" ++ w, tags ++ ["acc-" ++ toString n])
          | .ok (q, r'), some bm, some bt, some keys, some body =>
            let endOff := s.length - r'.length
            if bm ≠ q.method ∨ bt ≠ q.target then ("FAIL:diff-request-line", tags)
            else if keys.map asciiLower ≠ q.names then ("FAIL:diff-names", tags)
            else if body ≠ q.body then ("FAIL:diff-body", tags)
            else if st ≠ "ok:" ++ toString endOff then ("FAIL:diff-boundary", tags)
            else
              let ft := if fr.startsWith "cl" then "f-cl" else "f-chunked"
              judge s rest endOff (n + 1) (if tags.contains ft then tags else tags ++ [ft])
          | _, _, _, _, _ => ("FAIL:bad-result", tags)
      | _ => ("FAIL:bad-result", tags)

def run (op impl : String) : Ans :=
  match op.splitOn " " with
  | ["req", hx, _k] =>
    match bytesOfHex hx with
    | none => { model := "bad-op", verdict := "skip" }
    | some s =>
      let m := ";".intercalate (runStream 6 s s.length)
      if m.endsWith "UNKNOWN" then { model := m, verdict := "skip", tags := ["unknown-target"] }
      else
        let (v, tags) := judge s (impl.splitOn ";") 0 0 []
        let nt := impl.startsWith "R," || tags.any (fun t => t.startsWith "rej-" && t != "rej-incomplete" && t != "rej-request-line")
        let cl := if cleanRequest s then [if impl.startsWith "R," && !impl.startsWith "R,,"
                                            then "clean-first-req" else "clean-first-req-rejected"] else []
        { model := m, verdict := v, tags := tags ++ cl ++ (if nt then ["nt"] else []) }
  | _ => { model := "bad-op", verdict := "skip" }

end BfeVerif.C24
