import BfeVerif.C23.Model
/-
  C24 — model of the HTTP/1 request reader of bfe:
    bfe_http/request.go   ReadRequest, parseRequestLine, ParseHTTPVersion
    bfe_net/textproto     Reader.ReadLine, readContinuedLineSlice, ReadMIMEHeaderAndKeys, canonicalMIMEHeaderKey
    bfe_http/transfer.go  readTransfer (request branch), fixTransferEncoding, fixLength (with the duplicate
                          Content-Length check and ParseUint of fixes/C24-content-length.md), fixTrailer,
                          body.readLocked / readTrailer / seeUpcomingDoubleCRLF
    bfe_http/chunked.go   through BfeVerif.C23.decode
  and, independently, a strict RFC 7230 §3 request parser `rfcRequest` (the spec oracle).
  Core-only.

  External: `url.ParseRequestURI` is not modelled; `uriClass` names two classes of request-targets on which its
  answer is known (accepted: `*`, or `/`+unreserved path/query bytes; rejected: empty or containing a CTL byte);
  every other target makes the driver answer `skip`.
-/
namespace BfeVerif.C24
open BfeVerif.C23 (Bytes splitLF)

def isSPHT (b : UInt8) : Bool := b.toNat = 32 || b.toNat = 9

/-! ### textproto.Reader -/

def dropLastCR (l : Bytes) : Bytes :=
  match l.getLast? with
  | some c => if c.toNat = 13 then l.dropLast else l
  | none => l

/-- `ReadLine`: `none` = io.EOF (nothing left).  A last line without LF is returned as it is. -/
def readLine (s : Bytes) : Option (Bytes × Bytes) :=
  match s with
  | [] => none
  | _ =>
    match splitLF s with
    | none => some (s, [])
    | some (l, r) => some (dropLastCR l, r)

/-- `trim`: leading and trailing SP / HT -/
def trim (l : Bytes) : Bytes := ((l.dropWhile isSPHT).reverse.dropWhile isSPHT).reverse

/-- the continuation loop of `readContinuedLineSlice` -/
def contLoop : Nat → Bytes → Bytes → Bytes × Bytes
  | 0, acc, s => (acc, s)
  | f + 1, acc, s =>
    match s with
    | [] => (acc, s)
    | b :: _ =>
      if isSPHT b then
        let s' := s.dropWhile isSPHT          -- skipSpace
        match readLine s' with
        | none => (acc, s')                   -- EOF after the blanks: `break`
        | some (line, r) => contLoop f (acc ++ [32] ++ trim line) r
      else (acc, s)

def readContinued (s : Bytes) : Option (Bytes × Bytes) :=
  match readLine s with
  | none => none
  | some (line, r) =>
    if line.length = 0 then some ([], r)
    else some (contLoop (r.length + 1) (trim line) r)

def isTokenByte (b : UInt8) : Bool := b.toNat < 127 && C23.isTchar b

/-- one step of the canonicalisation loop: upper-case after the start / a dash, lower-case elsewhere -/
def canonByte (upper : Bool) (c : UInt8) : UInt8 :=
  if upper ∧ 97 ≤ c.toNat ∧ c.toNat ≤ 122 then c - 32
  else if ¬ upper ∧ 65 ≤ c.toNat ∧ c.toNat ≤ 90 then c + 32
  else c

def canonLoop : Bytes → Bool → Bytes
  | [], _ => []
  | c :: t, upper => canonByte upper c :: canonLoop t ((canonByte upper c).toNat = 45)

/-- `canonicalMIMEHeaderKey`: unchanged unless every byte is a token byte -/
def canonKey (a : Bytes) : Bytes := if a.all isTokenByte then canonLoop a true else a

structure Field where
  name : Bytes
  value : Bytes
  deriving DecidableEq, Repr

def splitAt1 (c : Nat) : Bytes → Option (Bytes × Bytes)
  | [] => none
  | b :: t =>
    if b.toNat = c then some ([], t)
    else match splitAt1 c t with
      | none => none
      | some (l, r) => some (b :: l, r)

/-- `ReadMIMEHeaderAndKeys`: `none` = error -/
def readHeader : Nat → Bytes → Option (List Field × Bytes)
  | 0, _ => none
  | f + 1, s =>
    match readContinued s with
    | none => none
    | some (kv, r) =>
      if kv.length = 0 then some ([], r)
      else
        match splitAt1 58 kv with
        | none => none
        | some (k, v) =>
          let key := canonKey k
          match readHeader f r with
          | none => none
          | some (fs, r') =>
            if key.length = 0 then some (fs, r') else some (⟨key, v.dropWhile isSPHT⟩ :: fs, r')

/-! ### request line -/

def isDigit (b : UInt8) : Bool := 48 ≤ b.toNat && b.toNat ≤ 57

def decNat (ds : Bytes) : Nat := ds.foldl (fun a b => a * 10 + (b.toNat - 48)) 0

/-- `strconv.Atoi` followed by the `< 0 || > Big` test of `ParseHTTPVersion` -/
def atoiBig (s : Bytes) : Option Nat :=
  let (neg, ds) : Bool × Bytes :=
    match s with
    | b :: t => if b.toNat = 45 then (true, t) else if b.toNat = 43 then (false, t) else (false, s)
    | [] => (false, [])
  if ds.length = 0 ∨ ¬ ds.all isDigit then none
  else
    let n := decNat ds
    if n > 1000000 then none else if neg ∧ n > 0 then none else some n

def sHTTP : Bytes := [72, 84, 84, 80, 47]

def parseVersion (v : Bytes) : Option (Nat × Nat) :=
  if v.take 5 ≠ sHTTP then none
  else match splitAt1 46 v with
    | none => none
    | some (a, b) =>
      match atoiBig (a.drop 5), atoiBig b with
      | some x, some y => some (x, y)
      | _, _ => none

inductive UriClass where | accept | reject | unknown
  deriving DecidableEq, Repr

def isSafeUriByte (b : UInt8) : Bool :=
  let c := b.toNat
  (48 ≤ c && c ≤ 57) || (65 ≤ c && c ≤ 90) || (97 ≤ c && c ≤ 122) ||
  c = 47 || c = 46 || c = 95 || c = 126 || c = 45 || c = 63 || c = 61 || c = 38

def uriClass (t : Bytes) : UriClass :=
  if t.any (fun b => b.toNat < 32 || b.toNat = 127) then .reject
  else if t.length = 0 then .reject
  else if t = [42] then .accept
  else if t.head? = some 47 ∧ t.all isSafeUriByte then .accept
  else .unknown

/-! ### Go's `strings.TrimSpace` / `strings.ToLower` on the byte level -/

def uniSpaces : List Bytes :=
  [[0xC2, 0x85], [0xC2, 0xA0], [0xE1, 0x9A, 0x80], [0xE2, 0x80, 0x80], [0xE2, 0x80, 0x81], [0xE2, 0x80, 0x82],
   [0xE2, 0x80, 0x83], [0xE2, 0x80, 0x84], [0xE2, 0x80, 0x85], [0xE2, 0x80, 0x86], [0xE2, 0x80, 0x87],
   [0xE2, 0x80, 0x88], [0xE2, 0x80, 0x89], [0xE2, 0x80, 0x8A], [0xE2, 0x80, 0xA8], [0xE2, 0x80, 0xA9],
   [0xE2, 0x80, 0xAF], [0xE2, 0x81, 0x9F], [0xE3, 0x80, 0x80]]

def isAsciiSpace (b : UInt8) : Bool := (9 ≤ b.toNat && b.toNat ≤ 13) || b.toNat = 32

def trimLeftGo : Nat → Bytes → Bytes
  | 0, s => s
  | f + 1, s =>
    match s with
    | [] => []
    | b :: t =>
      if isAsciiSpace b then trimLeftGo f t
      else match uniSpaces.find? (fun u => u.isPrefixOf s) with
        | some u => trimLeftGo f (s.drop u.length)
        | none => s

def trimRightGo : Nat → Bytes → Bytes
  | 0, s => s
  | f + 1, s =>
    match s with
    | [] => []
    | b :: t =>
      if isAsciiSpace b then trimRightGo f t
      else match uniSpaces.find? (fun u => u.reverse.isPrefixOf s) with
        | some u => trimRightGo f (s.drop u.length)
        | none => s

def goTrimSpace (s : Bytes) : Bytes :=
  let a := trimLeftGo (s.length + 1) s
  (trimRightGo (a.length + 1) a.reverse).reverse

/-- ASCII lower-casing plus the two non-ASCII runes whose lower case is ASCII (U+212A KELVIN SIGN -> k,
    U+0130 -> i); all other non-ASCII input stays non-ASCII in Go as well. -/
def goToLower : Bytes → Bytes
  | 0xE2 :: 0x84 :: 0xAA :: t => 107 :: goToLower t
  | 0xC4 :: 0xB0 :: t => 105 :: goToLower t
  | b :: t => (if 65 ≤ b.toNat ∧ b.toNat ≤ 90 then b + 32 else b) :: goToLower t
  | [] => []

def splitComma : Bytes → List Bytes
  | [] => [[]]
  | b :: t =>
    match splitComma t with
    | [] => [[b]]
    | h :: rest => if b.toNat = 44 then [] :: h :: rest else (b :: h) :: rest

/-! ### readTransfer (request branch) -/

def sTE : Bytes := [84, 114, 97, 110, 115, 102, 101, 114, 45, 69, 110, 99, 111, 100, 105, 110, 103]
def sCL : Bytes := [67, 111, 110, 116, 101, 110, 116, 45, 76, 101, 110, 103, 116, 104]
def sTrailer : Bytes := [84, 114, 97, 105, 108, 101, 114]
def sChunked : Bytes := [99, 104, 117, 110, 107, 101, 100]
def sIdentity : Bytes := [105, 100, 101, 110, 116, 105, 116, 121]

def valuesOf (fs : List Field) (name : Bytes) : List Bytes :=
  (fs.filter (fun f => f.name = name)).map (·.value)

/-- the `for` loop of fixTransferEncoding: number of recorded codings, `none` = unsupported coding -/
def teLoop : List Bytes → Nat → Option Nat
  | [], n => some n
  | e :: rest, n =>
    let e' := goToLower (goTrimSpace e)
    if e' = sIdentity then some n
    else if e' ≠ sChunked then none
    else teLoop rest (n + 1)

inductive Framing where
  | chunked
  | length (n : Nat)
  deriving DecidableEq, Repr

/-- fixTransferEncoding: `some true` chunked, `some false` no transfer coding, `none` error.
    Only the FIRST Transfer-Encoding line is looked at. -/
def fixTE (fs : List Field) : Option Bool :=
  match valuesOf fs sTE with
  | [] => some false
  | raw0 :: _ =>
    match teLoop (splitComma raw0) 0 with
    | none => none
    | some n => if n > 1 then none else some (n > 0)

/-- `strconv.ParseUint(cl, 10, 63)` -/
def parseUint63 (s : Bytes) : Option Nat :=
  if s.length = 0 ∨ ¬ s.all isDigit then none
  else if decNat s < 2 ^ 63 then some (decNat s) else none

/-- fixLength (request, not chunked) -/
def fixLen (fs : List Field) : Option Nat :=
  let cls := valuesOf fs sCL
  let dupOk : Bool :=
    match cls with
    | first :: rest => rest.all (fun c => goTrimSpace c = goTrimSpace first)
    | [] => true
  if ¬ dupOk then none
  else
    let cl := goTrimSpace (cls.head?.getD [])
    if cl.length = 0 then some 0 else parseUint63 (goTrimSpace cl)

/-- fixTrailer: only its error matters for requests (the trailer map it builds is always empty) -/
def fixTrailerOk (fs : List Field) : Bool :=
  let raw := (valuesOf fs sTrailer).head?.getD []
  if raw.length = 0 then true
  else (splitComma raw).all (fun k =>
    let c := canonKey (goTrimSpace k)
    c ≠ sTE ∧ c ≠ sTrailer ∧ c ≠ sCL)

def framing (fs : List Field) : Option Framing :=
  match fixTE fs with
  | none => none
  | some true => if fixTrailerOk fs then some .chunked else none
  | some false =>
    match fixLen fs with
    | none => none
    | some n => if fixTrailerOk fs then some (.length n) else none

/-! ### body -/

def hasDoubleCRLF : Bytes → Bool
  | 13 :: 10 :: 13 :: 10 :: _ => true
  | _ :: t => hasDoubleCRLF t
  | [] => false

/-- body.readTrailer: `none` = error, else the rest after the trailer section -/
def readTrailer (r : Bytes) : Option Bytes :=
  match r with
  | 13 :: 10 :: r' => some r'
  | _ =>
    if r.length < 2 then none
    else if ¬ hasDoubleCRLF (r.take 4096) then none
    else (readHeader (r.length + 1) r).map (·.2)

structure Req where
  method : Bytes
  target : Bytes
  proto : Bytes
  keys : List Bytes
  framing : Framing
  deriving DecidableEq, Repr

/-- ReadRequest without the body: `none` = error (or EOF) -/
def readRequestHead (s : Bytes) : Option (Req × Bytes) :=
  match readLine s with
  | none => none
  | some (line, r) =>
    match splitAt1 32 line with
    | none => none
    | some (m, rest1) =>
      match splitAt1 32 rest1 with
      | none => none
      | some (t, p) =>
        match parseVersion p with
        | none => none
        | some _ =>
          if uriClass t ≠ .accept then none
          else match readHeader (r.length + 1) r with
            | none => none
            | some (fs, r') =>
              match framing fs with
              | none => none
              | some fr => some (⟨m, t, p, fs.map (·.name), fr⟩, r')

/-- reading the body to EOF: (bytes delivered, `some rest` when it ended cleanly) -/
def readBody (fr : Framing) (r : Bytes) : Bytes × Option Bytes :=
  match fr with
  | .length n => if r.length < n then (r, none) else (r.take n, some (r.drop n))
  | .chunked =>
    let d := C23.decode r
    if d.err = .eof then (d.body, readTrailer d.rest) else (d.body, none)

/-! ### specification: strict RFC 7230 §3 request parser

    request-line = method SP request-target SP HTTP-version CRLF     method = token, HTTP-version = "HTTP/1." DIGIT
    header-field = field-name ":" OWS field-value OWS CRLF           field-name = token
    field-value  = *( VCHAR / obs-text / SP / HTAB )                 no obs-fold, no bare CR / LF, no other CTL
    framing (§3.3.3): Transfer-Encoding (all lines together) must be exactly `chunked` and needs HTTP/1.1;
    it overrides Content-Length; all Content-Length values must be 1*DIGIT, numerically equal and < 2^63.
    body = Content-Length bytes | chunked-body per RFC 7230 §4.1 (`C23.rfcDechunk false`) + trailer-part + CRLF -/

def rfcLine : Bytes → Except String (Bytes × Bytes)
  | [] => .error "incomplete"
  | b :: t =>
    if b.toNat = 10 then .error "bare-lf"
    else if b.toNat = 13 then
      match t with
      | c :: r => if c.toNat = 10 then .ok ([], r) else .error "bare-cr"
      | [] => .error "incomplete"
    else match rfcLine t with
      | .error e => .error e
      | .ok (l, r) => .ok (b :: l, r)

def lowerByte (b : UInt8) : UInt8 := if 65 ≤ b.toNat ∧ b.toNat ≤ 90 then b + 32 else b

def asciiLower (s : Bytes) : Bytes := s.map lowerByte

def isFieldVchar (b : UInt8) : Bool := b.toNat = 9 || (32 ≤ b.toNat && b.toNat ≠ 127)

def rfcFields : Nat → Bool → Bytes → Except String (List Field × Bytes)
  | 0, _, _ => .error "fuel"
  | f + 1, first, s =>
    if (s.head?.map isSPHT).getD false then .error (if first then "leading-ws-line" else "obs-fold")
    else
    match rfcLine s with
    | .error e => .error e
    | .ok (line, r) =>
      match line with
      | [] => .ok ([], r)
      | _ :: _ =>
        if (r.head?.map isSPHT).getD false then .error "obs-fold"
        else match splitAt1 58 line with
          | none => .error "no-colon"
          | some (k, v) =>
            if k.length = 0 then .error "empty-name"
            else if (k.getLast?.map isSPHT).getD false then .error "ws-before-colon"
            else if ¬ k.all C23.isTchar then .error "bad-name-byte"
            else if ¬ v.all isFieldVchar then .error "ctl-in-value"
            else match rfcFields f false r with
              | .error e => .error e
              | .ok (fs, r') => .ok (⟨asciiLower k, trim v⟩ :: fs, r')

def lTE : Bytes := asciiLower sTE
def lCL : Bytes := asciiLower sCL

def rfcFraming (minor : Nat) (fs : List Field) : Except String Framing :=
  let tes := valuesOf fs lTE
  let cls := valuesOf fs lCL
  let clRes : Except String Nat :=
    match cls with
    | [] => .ok 0
    | first :: rest =>
      if cls.any (fun c => c.any (fun b => b.toNat ≥ 128)) then .error "cl-non-ascii"
      else if cls.any (fun c => c.head? = some 43 ∨ c.head? = some 45) then .error "cl-sign"
      else if cls.any (fun c => c.length = 0) then .error "cl-empty"
      else if cls.any (fun c => ¬ c.all isDigit) then .error "cl-syntax"
      else if rest.any (fun c => decNat c ≠ decNat first) then .error "cl-conflict"
      else if decNat first ≥ 2 ^ 63 then .error "cl-too-large"
      else .ok (decNat first)
  match tes with
  | [] => clRes.map .length
  | t0 :: more =>
    let codings := ((tes.map splitComma).flatten.map (fun e => asciiLower (trim e))).filter (fun e => e.length > 0)
    if codings = [sChunked] then
      (if minor = 0 then .error "te-http10" else .ok .chunked)
    else if tes.any (fun c => c.any (fun b => b.toNat ≥ 128)) then .error "te-non-ascii"
    else if more.length > 0 ∧
        ((splitComma t0).map (fun e => asciiLower (trim e))).filter (fun e => e.length > 0) = [sChunked]
      then .error "te-second-line"
    else if codings.any (fun e => e = sIdentity) then .error "te-identity"
    else .error "te-not-chunked"

structure RfcReq where
  method : Bytes
  target : Bytes
  names : List Bytes
  body : Bytes
  deriving DecidableEq, Repr

def rfcRequest (s : Bytes) : Except String (RfcReq × Bytes) :=
  match rfcLine s with
  | .error e => .error e
  | .ok (line, r) =>
    match splitAt1 32 line with
    | none => .error "request-line"
    | some (m, rest1) =>
      match splitAt1 32 rest1 with
      | none => .error "request-line"
      | some (t, p) =>
        if m.length = 0 ∨ ¬ m.all C23.isTchar then .error "method-not-token"
        else if t.length = 0 ∨ ¬ t.all (fun b => 33 ≤ b.toNat ∧ b.toNat ≤ 126) then .error "target-bytes"
        else if ¬ (p.length = 8 ∧ p.take 7 = sHTTP ++ [49, 46] ∧ (p.drop 7).all isDigit) then .error "version-syntax"
        else
          let minor := decNat (p.drop 7)
          match rfcFields (r.length + 1) true r with
          | .error e => .error e
          | .ok (fs, r') =>
            match rfcFraming minor fs with
            | .error e => .error e
            | .ok (.length n) =>
              if r'.length < n then .error "incomplete-body"
              else .ok (⟨m, t, fs.map (·.name), r'.take n⟩, r'.drop n)
            | .ok .chunked =>
              match C23.rfcDechunk false r' with
              | .reject w => .error ("chunk-" ++ w)
              | .ok body r2 =>
                match rfcFields (r2.length + 1) false r2 with
                | .error e => .error (if e = "incomplete" then "trailer-incomplete" else "trailer-lenient")
                | .ok (_, r3) => .ok (⟨m, t, fs.map (·.name), body⟩, r3)

/-! ### the clean sub-language (hypothesis of `C24_same_boundaries_partial`)

  A byte stream is *clean* when its request line and header block are syntactically RFC lines and fields
  (`rfcLine` / `rfcFields` succeed: CRLF line ends, no bare CR/LF, no obs-fold / leading white-space line, token
  field names directly followed by the colon, no control bytes in values), the method is a token, the version is
  `HTTP/1.1`, there is at most one Transfer-Encoding and at most one Content-Length field, their values are plain
  ASCII (HT, SP..`~`), the Content-Length value is not empty, no transfer-coding is `identity`, and — when a
  Transfer-Encoding field is present — every chunk-size line of the body is hex digits immediately followed by
  CRLF and the trailer section is again syntactically RFC fields.  Nothing is assumed about the framing decision
  itself (values may be `abc`, `gzip`, `+5`, overflowing …), about the target, or about the chunk data. -/

def isPlainByte (b : UInt8) : Bool := b.toNat = 9 || (32 ≤ b.toNat && b.toNat ≤ 126)

/-- walks the chunk-size lines (each must be `1*HEXDIG CRLF` exactly) and returns what follows the last-chunk line -/
def strictChunks : Nat → Bytes → Option Bytes
  | 0, _ => none
  | f + 1, s =>
    match s.dropWhile C23.isHexDig with
    | a :: b :: r2 =>
      if a.toNat = 13 ∧ b.toNat = 10 then
        if C23.hexNat (s.takeWhile C23.isHexDig) = 0 then some r2
        else strictChunks f (r2.drop (C23.hexNat (s.takeWhile C23.isHexDig) + 2))
      else none
    | _ => none

def sHTTP11 : Bytes := [72, 84, 84, 80, 47, 49, 46, 49]

def noIdentity (v : Bytes) : Bool := (splitComma v).all (fun e => decide (asciiLower (trim e) ≠ sIdentity))

def cleanBody (tes : List Bytes) (r' : Bytes) : Bool :=
  decide (tes.length = 0) ||
    match strictChunks (r'.length + 1) r' with
    | none => false
    | some r2 =>
      match rfcFields (r2.length + 1) false r2 with
      | .ok _ => true
      | .error _ => false

def cleanFields (fs : List Field) : Bool :=
  decide ((valuesOf fs lTE).length ≤ 1) && decide ((valuesOf fs lCL).length ≤ 1) &&
  (valuesOf fs lTE).all (fun v => v.all isPlainByte && noIdentity v) &&
  (valuesOf fs lCL).all (fun v => v.all isPlainByte && decide (v.length ≠ 0))

def cleanRequest (s : Bytes) : Bool :=
  match rfcLine s with
  | .error _ => false
  | .ok (line, r) =>
    match splitAt1 32 line with
    | none => false
    | some (m, rest1) =>
      match splitAt1 32 rest1 with
      | none => false
      | some (_, p) =>
        decide (m.length ≠ 0) && m.all C23.isTchar && decide (p = sHTTP11) &&
        match rfcFields (r.length + 1) true r with
        | .error _ => false
        | .ok (fs, r') => cleanFields fs && cleanBody (valuesOf fs lTE) r'

/-! ### the same reader fed by SEGMENTS

  The connection hands the `bfe_bufio.Reader` its bytes in arbitrary pieces.  Reader state `RS`: (unread bytes already
  buffered, pieces still to come; `[]` = EOF).  Every primitive of the request reader is restated on that state:
  `ReadLine` fills until the LF is buffered, `skipSpace` reads byte by byte across pieces, the look-ahead of
  `readContinuedLineSlice` sees the first byte that will ever arrive, `Peek(n)` / body reads fill as needed.
  The parsers `readHeaderS`, `readRequestHeadS`, `readBodyS` are the ones above with these primitives. -/

abbrev RS := Bytes × List Bytes

def norm (x : RS) : Bytes := x.1 ++ x.2.flatten

def readLineS : Bytes → List Bytes → Option (Bytes × RS)
  | buf, [] => (readLine buf).map (fun p => (p.1, (p.2, [])))
  | buf, g :: rest =>
    match splitLF buf with
    | some (l, r) => some (dropLastCR l, (r, g :: rest))
    | none => readLineS (buf ++ g) rest

/-- the first byte that will be read (Peek / ReadByte), `none` at EOF -/
def headS : Bytes → List Bytes → Option UInt8
  | b :: _, _ => some b
  | [], [] => none
  | [], g :: rest => headS g rest

/-- skipSpace -/
def skipS : Bytes → List Bytes → RS
  | buf, [] => (buf.dropWhile isSPHT, [])
  | buf, g :: rest =>
    match buf.dropWhile isSPHT with
    | [] => skipS g rest
    | b :: t => (b :: t, g :: rest)

def contLoopS : Nat → Bytes → RS → Bytes × RS
  | 0, acc, x => (acc, x)
  | f + 1, acc, x =>
    match headS x.1 x.2 with
    | none => (acc, x)
    | some b =>
      if isSPHT b then
        let x' := skipS x.1 x.2
        match readLineS x'.1 x'.2 with
        | none => (acc, x')
        | some (line, r) => contLoopS f (acc ++ [32] ++ trim line) r
      else (acc, x)

def readContinuedS (x : RS) : Option (Bytes × RS) :=
  match readLineS x.1 x.2 with
  | none => none
  | some (line, r) =>
    if line.length = 0 then some ([], r)
    else some (contLoopS ((norm r).length + 1) (trim line) r)

def readHeaderS : Nat → RS → Option (List Field × RS)
  | 0, _ => none
  | f + 1, x =>
    match readContinuedS x with
    | none => none
    | some (kv, r) =>
      if kv.length = 0 then some ([], r)
      else
        match splitAt1 58 kv with
        | none => none
        | some (k, v) =>
          let key := canonKey k
          match readHeaderS f r with
          | none => none
          | some (fs, r') =>
            if key.length = 0 then some (fs, r') else some (⟨key, v.dropWhile isSPHT⟩ :: fs, r')

def readTrailerS (x : RS) : Option RS :=
  let pk := (C23.takeSeg 2 x.1 x.2).1                    -- Peek(2)
  match pk with
  | [a, b] =>
    if a.toNat = 13 ∧ b.toNat = 10 then some (C23.takeSeg 2 x.1 x.2).2
    else if ¬ hasDoubleCRLF (C23.takeSeg 4096 x.1 x.2).1 then none
    else (readHeaderS ((norm x).length + 1) x).map (·.2)
  | _ => none

def readRequestHeadS (x : RS) : Option (Req × RS) :=
  match readLineS x.1 x.2 with
  | none => none
  | some (line, r) =>
    match splitAt1 32 line with
    | none => none
    | some (m, rest1) =>
      match splitAt1 32 rest1 with
      | none => none
      | some (t, p) =>
        match parseVersion p with
        | none => none
        | some _ =>
          if uriClass t ≠ .accept then none
          else match readHeaderS ((norm r).length + 1) r with
            | none => none
            | some (fs, r') =>
              match framing fs with
              | none => none
              | some fr => some (⟨m, t, p, fs.map (·.name), fr⟩, r')

def readBodyS (fr : Framing) (x : RS) : Bytes × Option RS :=
  match fr with
  | .length n =>
    let d := C23.takeSeg n x.1 x.2
    if d.1.length < n then (d.1, none) else (d.1, some d.2)
  | .chunked =>
    let d := C23.decodeSegS x.1 x.2
    if d.err = .eof then (d.body, readTrailerS (d.buf, d.segs)) else (d.body, none)

/-- one request (head and body) from a connection that delivers `segs`; and from a whole stream -/
def parseOneS (segs : List Bytes) : Option (Req × Bytes × Option Bytes) :=
  match readRequestHeadS ([], segs) with
  | none => none
  | some (q, x) => some (q, (readBodyS q.framing x).1, (readBodyS q.framing x).2.map norm)

def parseOne (s : Bytes) : Option (Req × Bytes × Option Bytes) :=
  match readRequestHead s with
  | none => none
  | some (q, r) => some (q, (readBody q.framing r).1, (readBody q.framing r).2)

end BfeVerif.C24
